import GMProofs.Lemmas.RestrGuessL
/-
  C10 — Restraint pairs always designate the atoms the user (or the guesser) meant.

  Model: `GMModel.Restr` (`Alignment.align_molecules` up to the optimiser call, `remove_hydrogens`,
  `AtomGro.element`, `_split_list`, the two guessers) and `GMModel.Routing` (`Manager.align_molecules`
  with `parse_restrictions`, `_validate_index`, `_parse_deformations`, `_parse_ignore_hydrogens`).
  Everything is integers / strings / lists: the theorems are exact, for every size and every position
  type `P`.  Specification-side vocabulary (`fixedOf`, `mobileOf`, `orient`, `keepPair`, `rank`,
  `keptPositions`, `Atom.isH`, `preLen`, `…Ok`, `argsFor`) is defined in `GMProofs.Lemmas.RestrL`.

  `Manager.parse_restrictions(…, guess_proteins)` (`parseRestrictionsG`, composed with
  `align_molecules(parse_restrictions=False)` as `managerAlignGuess`), the `Alignment.start/end` setters
  (`setStart`, `setEnd`, histories `runOps`), the unset check (`alignMolecules`) and
  `Manager.add_end_molecule` are in the last two sections; their vocabulary (`GuessAccepts`,
  `restrForG`, `SpeciesOkG`, `RestrDictOkG`, `KeysKnown`, `Locked`) is in `GMProofs.Lemmas.RestrGuessL`.

  Only property theorems and their non-vacuity examples live here.
-/
open Restr

namespace C10

variable {P : Type}

/-! ### sentence 1 — restraints reach the optimiser designating the intended atoms -/

/-- The roles the code selects and what they do to a user pair `(i, j)` (`i` indexes the start molecule,
    `j` the end molecule): when the start molecule is strictly smaller the end molecule is fixed and
    every pair is reversed; otherwise the start molecule is fixed and pairs are kept. -/
theorem roles (start end_ : Mol P) (rs : List Pair) :
    (start.len < end_.len →
      fixedOf start end_ = end_ ∧ mobileOf start end_ = start ∧
      orient start end_ rs = rs.map fun p => (p.2, p.1)) ∧
    (¬ start.len < end_.len →
      fixedOf start end_ = start ∧ mobileOf start end_ = end_ ∧ orient start end_ rs = rs) := by
  constructor
  · intro h
    refine ⟨by simp [fixedOf, h], by simp [mobileOf, h], ?_⟩
    simp only [orient, h, ↓reduceIte]
    apply List.map_congr_left
    intro p _
    rfl
  · intro h
    exact ⟨by simp [fixedOf, h], by simp [mobileOf, h], by simp [orient, h]⟩

/-- Hydrogen filtering on.  Whenever the optimiser is reached, with `F` / `M` the fixed / mobile
    molecule the code selects:
    * `mol1_positions` are the positions of the non-hydrogen atoms of `F` in atom order, `mol2_positions`
      all positions of `M`;
    * the restraint list is, in the same relative order, exactly the user pairs whose fixed-side atom
      is kept, each as `(rank of the fixed atom among the non-hydrogen atoms, mobile index)`;
    * for every user pair `(f, m)` (fixed, mobile) with `f` a valid index: it is dropped iff atom `f`
      of `F` is a hydrogen; otherwise entry `(rank f, m)` designates that very atom
      (`mol1_positions[rank f] = position of F[f]`), and `mol2_positions[m] = position of M[m]`. -/
theorem prep_designates (start end_ : Mol P) (rs : List Pair) (deform : Option (List Int))
    (auto sw : Bool) (o : OptIn P)
    (h : alignPrep start end_ (some rs) deform true auto = .ok (.call sw o)) :
    sw = decide (start.len < end_.len) ∧
    o.fixedPos = keptPositions (fixedOf start end_).atoms ∧
    o.mobilePos = (mobileOf start end_).positions ∧
    o.restr = (orient start end_ rs).filterMap (keepPair (fixedOf start end_).atoms) ∧
    (∀ p ∈ orient start end_ rs, ∀ a, 0 ≤ p.1 → (fixedOf start end_).atoms[p.1.toNat]? = some a →
      (a.isH = true → keepPair (fixedOf start end_).atoms p = none) ∧
      (a.isH = false →
        keepPair (fixedOf start end_).atoms p = some (((rank (fixedOf start end_).atoms p.1.toNat : Nat) : Int), p.2) ∧
        o.fixedPos[rank (fixedOf start end_).atoms p.1.toNat]? = some a.pos)) ∧
    (∀ p ∈ orient start end_ rs, ∀ b, 0 ≤ p.2 → (mobileOf start end_).atoms[p.2.toNat]? = some b →
      o.mobilePos[p.2.toNat]? = some b.pos) := by
  obtain ⟨h1, h2, _, _, _, h6⟩ := alignPrep_some_call h
  obtain ⟨_, hf, hr⟩ := h6 rfl
  refine ⟨h1, hf, h2, hr, ?_, ?_⟩
  · rintro ⟨f, m⟩ _ a hf0 ha
    have hnn : ¬ f < 0 := by omega
    simp only at ha hf0
    constructor
    · intro hH
      simp [keepPair, hnn, ha, hH]
    · intro hH
      refine ⟨by simp [keepPair, hnn, ha, hH], ?_⟩
      rw [hf]
      exact keptPositions_rank _ _ a ha hH
  · rintro ⟨f, m⟩ _ b _ hb
    simp only at hb
    rw [h2]
    simp [Mol.positions, hb]

/-- Hydrogen filtering off: all positions of the fixed molecule are handed over and the restraint
    list is the user's list, reversed pairwise exactly when the roles are swapped. -/
theorem prep_unfiltered (start end_ : Mol P) (rs : List Pair) (deform : Option (List Int))
    (auto sw : Bool) (o : OptIn P)
    (h : alignPrep start end_ (some rs) deform false auto = .ok (.call sw o)) :
    sw = decide (start.len < end_.len) ∧
    o.fixedPos = (fixedOf start end_).positions ∧
    o.mobilePos = (mobileOf start end_).positions ∧
    o.restr = orient start end_ rs ∧
    (∀ p ∈ o.restr, ∀ a, 0 ≤ p.1 → (fixedOf start end_).atoms[p.1.toNat]? = some a →
      o.fixedPos[p.1.toNat]? = some a.pos) := by
  obtain ⟨h1, h2, _, _, h5, _⟩ := alignPrep_some_call h
  obtain ⟨hf, hr⟩ := h5 rfl
  refine ⟨h1, hf, h2, hr, ?_⟩
  rintro ⟨f, m⟩ _ a _ ha
  simp only at ha
  rw [hf]
  simp [Mol.positions, ha]

/-- Nothing but hydrogens of the fixed molecule is ever dropped: a pair of the oriented user list
    whose fixed index is valid is missing from the optimiser's list only if that atom's element is `H`;
    and the kept pairs are a sublist (same relative order). -/
theorem prep_drops_only_hydrogens (start end_ : Mol P) (rs : List Pair) (deform : Option (List Int))
    (auto sw : Bool) (o : OptIn P)
    (h : alignPrep start end_ (some rs) deform true auto = .ok (.call sw o)) :
    o.restr.length = ((orient start end_ rs).filter fun p =>
      (keepPair (fixedOf start end_).atoms p).isSome).length ∧
    (o.restr.map (·.2)).Sublist ((orient start end_ rs).map (·.2)) := by
  obtain ⟨_, _, _, hr, _, _⟩ := prep_designates start end_ rs deform auto sw o h
  rw [hr]
  constructor
  · induction orient start end_ rs with
    | nil => rfl
    | cons p t ih =>
      rw [List.filterMap_cons, List.filter_cons]
      cases hk : keepPair (fixedOf start end_).atoms p <;> simp [ih]
  · induction orient start end_ rs with
    | nil => simp
    | cons p t ih =>
      rw [List.filterMap_cons]
      obtain ⟨f, m⟩ := p
      cases hk : keepPair (fixedOf start end_).atoms (f, m) with
      | none => simpa using List.Sublist.cons _ ih
      | some q =>
        have : q.2 = m := keepPair_snd hk
        simp only [List.map_cons, this]
        exact List.Sublist.cons_cons _ ih

/-- `restrictions=None`: a single-residue start molecule means the empty list; a multi-residue one
    means the guessed list, which then flows through the same plumbing; a refused guess is an error. -/
theorem prep_default (start end_ : Mol P) (deform : Option (List Int)) (ignoreH : Bool) :
    (start.residues.length ≤ 1 →
      alignPrep start end_ none deform ignoreH = alignPrep start end_ (some []) deform ignoreH) ∧
    (∀ rs, start.residues.length > 1 → guessProtein start end_ = .ok rs →
      alignPrep start end_ none deform ignoreH = alignPrep start end_ (some rs) deform ignoreH) ∧
    (∀ e, start.residues.length > 1 → guessProtein start end_ = .error e →
      alignPrep start end_ none deform ignoreH = .error .ioError) :=
  ⟨fun h => alignPrep_none_plain _ _ _ _ _ (by omega),
   fun rs h hg => alignPrep_none_guess _ _ _ _ rs h hg,
   fun e h hg => alignPrep_none_refused _ _ _ _ e h hg⟩

/-- the optimiser is reached unless the end molecule is a single atom, the mobile molecule is
    disconnected, the fixed one has no bond, or (filtering) an atom name has no letter -/
theorem prep_reaches (start end_ : Mol P) (rs : List Pair) (deform : Option (List Int)) (ignoreH auto : Bool)
    (h1 : end_.len ≠ 1) (h2 : (mobileOf start end_).connected = true)
    (h3 : (fixedOf start end_).hasBonds = true)
    (h4 : ignoreH = true → ∀ a ∈ (fixedOf start end_).atoms, a.Named) :
    ∃ o, alignPrep start end_ (some rs) deform ignoreH auto = .ok (.call (decide (start.len < end_.len)) o) :=
  alignPrep_some_reaches start end_ rs deform ignoreH auto h1 h2 h3 h4

/-! ### sentence 2 — the guessers -/

/-- `_split_list(alist, n)` for `0 < n ≤ len(alist)`: `n` groups; group `i` is the slice
    `[bnd i, bnd (i+1))` with `bnd 0 = 0`, `bnd n = len` and `bnd i < bnd (i+1)` — contiguous,
    non-empty, ordered — and the groups concatenate to the list. -/
theorem split_partition {α : Type} (l : List α) (n : Nat) (hn : 0 < n) (hle : n ≤ l.length) :
    (splitList l n).length = n ∧
    (splitList l n).flatten = l ∧
    bnd l.length n 0 = 0 ∧ bnd l.length n n = l.length ∧
    (∀ i, i < n → bnd l.length n i < bnd l.length n (i + 1)) ∧
    (∀ i (hi : i < n), (splitList l n)[i]'(by simpa [splitList] using hi) =
        (l.drop (bnd l.length n i)).take (bnd l.length n (i + 1) - bnd l.length n i)) ∧
    (∀ g ∈ splitList l n, g ≠ []) := by
  refine ⟨splitList_length l n, splitList_flatten l n hn, bnd_zero _ _, bnd_self _ hn,
    fun i _ => bnd_strict i hn hle, fun i hi => splitList_getElem l n i hi, ?_⟩
  intro g hg hnil
  obtain ⟨i, hi, rfl⟩ := List.mem_map.mp hg
  have hi' : i < n := List.mem_range.mp hi
  have hlen := splitList_group_length l n i hn hi'
  have hs := bnd_strict (len := l.length) i hn hle
  simp only [bnd] at hlen hs
  rw [hnil] at hlen
  simp at hlen
  omega

/-- the same for the index lists the guesser splits: group `g` of `range len` is
    `[bnd g, …, bnd (g+1) - 1]` -/
theorem split_partition_range (len n : Nat) :
    splitList (List.range len) n = (List.range n).map fun g =>
      List.range' (bnd len n g) (bnd len n (g + 1) - bnd len n g) :=
  splitList_range len n

/-- `guess_residue_restrains(res1, res2, offset1, offset2)` for non-empty residues: every atom of both
    residues occurs in a pair, all indices lie in the residues' ranges, the list is strictly
    increasing lexicographically, and the pairing preserves atom order in both directions. -/
theorem residue_pairs_cover (res1 res2 : Residue P) (o1 o2 : Nat)
    (h1 : 0 < res1.atoms.length) (h2 : 0 < res2.atoms.length) :
    (∀ i, i < res1.atoms.length → ∃ y, (((i + o1 : Nat) : Int), y) ∈ guessResidue res1 res2 o1 o2) ∧
    (∀ j, j < res2.atoms.length → ∃ x, (x, ((j + o2 : Nat) : Int)) ∈ guessResidue res1 res2 o1 o2) ∧
    (∀ x y, (x, y) ∈ guessResidue res1 res2 o1 o2 →
      (o1 : Int) ≤ x ∧ x < ((o1 + res1.atoms.length : Nat) : Int) ∧
      (o2 : Int) ≤ y ∧ y < ((o2 + res2.atoms.length : Nat) : Int)) ∧
    (guessResidue res1 res2 o1 o2).Pairwise lexLt ∧
    (∀ x y x' y', (x, y) ∈ guessResidue res1 res2 o1 o2 → (x', y') ∈ guessResidue res1 res2 o1 o2 →
      (x < x' → y ≤ y') ∧ (y < y' → x ≤ x')) :=
  ⟨fun _ hi => guessResidueLen_cover_left o1 o2 h1 h2 hi,
   fun _ hj => guessResidueLen_cover_right o1 o2 h1 h2 hj,
   fun _ _ h => guessResidueLen_range h,
   guessResidueLen_sorted _ _ _ _,
   fun _ _ _ _ h h' => guessResidueLen_monotone h h'⟩

/-- every pair guessed for a multi-residue molecule joins an atom of residue `k` of the first
    molecule with an atom of residue `k` of the second (same sequence position); `preLen l k` is the
    index of the first atom of residue `k` -/
theorem protein_pairs_same_position (m1 m2 : Mol P) (rs : List Pair)
    (h : guessProtein m1 m2 = .ok rs) :
    ∀ x y, (x, y) ∈ rs → ∃ k, k < m1.residues.length ∧ k < m2.residues.length ∧
      ((preLen m1.residues k : Nat) : Int) ≤ x ∧ x < ((preLen m1.residues (k + 1) : Nat) : Int) ∧
      ((preLen m2.residues k : Nat) : Int) ≤ y ∧ y < ((preLen m2.residues (k + 1) : Nat) : Int) := by
  obtain ⟨_, rfl⟩ := guessProtein_eq_ok h
  intro x y hxy
  obtain ⟨k, h1, h2, hb⟩ := protSpec_same_position _ _ 0 0 hxy
  exact ⟨k, h1, h2, by simpa using hb⟩

/-- every atom of both molecules gets a partner (residues non-empty, as in every loaded molecule),
    all indices are within range, atom order is preserved -/
theorem protein_pairs_cover (m1 m2 : Mol P) (rs : List Pair) (h : guessProtein m1 m2 = .ok rs)
    (h1 : ∀ r ∈ m1.residues, 0 < r.atoms.length) (h2 : ∀ r ∈ m2.residues, 0 < r.atoms.length) :
    (∀ i, i < m1.len → ∃ y, ((i : Int), y) ∈ rs) ∧
    (∀ j, j < m2.len → ∃ x, (x, (j : Int)) ∈ rs) ∧
    (∀ x y, (x, y) ∈ rs → 0 ≤ x ∧ x < (m1.len : Int) ∧ 0 ≤ y ∧ y < (m2.len : Int)) ∧
    rs.Pairwise lexLt ∧
    (∀ x y x' y', (x, y) ∈ rs → (x', y') ∈ rs → (x < x' → y ≤ y') ∧ (y < y' → x ≤ x')) := by
  obtain ⟨hlen, rfl⟩ := guessProtein_eq_ok h
  refine ⟨?_, ?_, ?_, protSpec_sorted _ _ _ _, fun _ _ _ _ a b => protSpec_monotone _ _ _ _ a b⟩
  · intro i hi
    rw [Mol.len_eq_totalLen] at hi
    simpa using protSpec_cover_left _ _ 0 0 hlen h1 h2 hi
  · intro j hj
    rw [Mol.len_eq_totalLen] at hj
    simpa using protSpec_cover_right _ _ 0 0 hlen h1 h2 hj
  · intro x y hxy
    have := protSpec_range _ _ 0 0 hxy
    rw [Mol.len_eq_totalLen, Mol.len_eq_totalLen]
    omega

/-- molecules with different numbers of residues are refused with `IOError`, by the guesser and by an
    alignment that relies on it -/
theorem protein_refuses_count_mismatch (m1 m2 : Mol P) (h : m1.residues.length ≠ m2.residues.length) :
    guessProtein m1 m2 = .error .ioError ∧
    (m1.residues.length > 1 → ∀ deform ignoreH,
      alignPrep m1 m2 none deform ignoreH = .error .ioError) :=
  ⟨guessProtein_count_mismatch m1 m2 h,
   fun hm deform ignoreH =>
     alignPrep_none_refused m1 m2 deform ignoreH _ hm (guessProtein_count_mismatch m1 m2 h)⟩

/-- the guesser succeeds exactly on equal residue counts with compatible names (equal lists, or
    pairwise one name contained in the other) -/
theorem protein_accepts (m1 m2 : Mol P) (hlen : m1.residues.length = m2.residues.length)
    (hc : NamesCompatible m1 m2) : ∃ rs, guessProtein m1 m2 = .ok rs :=
  ⟨_, guessProtein_ok m1 m2 hlen hc⟩

/-! ### sentence 3 — per-species options through the manager -/

/-- Well-formed option dictionaries (every key a complete species; restraint entries pairs of in-range
    non-negative ints; deformation values non-empty tuples/lists of at most three values from {0,1,2};
    hydrogen flags bools): `Manager.align_molecules` aligns every complete species once, in dictionary
    order, each with exactly the values stored under its own name — `None` (the documented default)
    where nothing or a falsy value is stored, `True` for a missing hydrogen flag — and stops at the
    first alignment that raises. -/
theorem routing_exact (sys : List (Species P)) (hnd : (sys.map (·.name)).Nodup)
    (r : Option (Dict RestrArg)) (d : Option (Dict DefArg)) (h : Option (Dict IgnArg))
    (hr : RestrDictOk sys r) (hd : DefDictOk sys d) (hh : IgnDictOk sys h) :
    managerAlign sys r d h = runAligns ((complete sys).map fun s =>
      { name := s.1.name, start := s.1.start, end_ := s.2,
        restr := restrFor r s.1.name, deform := deformFor d s.1.name,
        ignoreH := ignoreFor h s.1.name }) :=
  managerAlign_ok sys hnd r d h hr hd hh

/-- `parse_restrictions=False` (restraints already in the parsed format, used as given): whatever
    the order of the given dictionary and whichever subset of the complete species it lists —
    `l` is that dictionary, each key paired with the species it names — exactly the listed species
    are aligned, in the dictionary's order, each with ITS OWN restraint value, and with the
    deformation types and the hydrogen flag stored under ITS OWN name in the other two dictionaries
    (defaults where nothing is stored); never with the values at the same position. -/
theorem routing_exact_preparsed (sys : List (Species P)) (hnd : (sys.map (·.name)).Nodup)
    (l : List ((Species P × Mol P) × Option (List Pair))) (hl : ∀ x ∈ l, x.1 ∈ complete sys)
    (d : Option (Dict DefArg)) (h : Option (Dict IgnArg))
    (hd : DefDictOk sys d) (hh : IgnDictOk sys h) :
    managerAlignPreparsed sys (l.map fun x => (x.1.1.name, x.2)) d h =
      runAligns (l.map fun x =>
        { name := x.1.1.name, start := x.1.1.start, end_ := x.1.2, restr := x.2,
          deform := deformFor d x.1.1.name, ignoreH := ignoreFor h x.1.1.name }) :=
  managerAlignPreparsed_ok sys hnd l hl d h hd hh

/-- every pre-parsed dictionary whose keys are complete species is of the form
    `routing_exact_preparsed` speaks about -/
theorem routing_preparsed_form (sys : List (Species P)) (r : Dict (Option (List Pair)))
    (hk : ∀ kv ∈ r, kv.1 ∈ completeNames sys) :
    ∃ l : List ((Species P × Mol P) × Option (List Pair)),
      (∀ x ∈ l, x.1 ∈ complete sys) ∧ r = l.map fun x => (x.1.1.name, x.2) :=
  preparsed_form sys r hk

/-- parsing with `Manager.parse_restrictions` first and passing the result with
    `parse_restrictions=False` does what the default call does -/
theorem routing_preparsed_roundtrip (sys : List (Species P)) (r : Option (Dict RestrArg))
    (d : Option (Dict DefArg)) (h : Option (Dict IgnArg)) (x : Dict (Option (List Pair)))
    (hp : parseRestrictions sys r = .ok x) :
    managerAlign sys r d h = managerAlignPreparsed sys x d h :=
  managerAlign_eq_preparsed sys r d h x hp

/-- with `parse_restrictions=False` malformed deformation values, non-bool hydrogen flags and
    unknown names in those two dictionaries are still refused before the first alignment call -/
theorem routing_preparsed_rejects_first (sys : List (Species P)) (r : Dict (Option (List Pair)))
    (d : Option (Dict DefArg)) (h : Option (Dict IgnArg))
    (hbad : ¬ (DefDictOk sys d ∧ IgnDictOk sys h)) :
    ∃ err, managerAlignPreparsed sys r d h = ⟨[], some err⟩ :=
  managerAlignPreparsed_rejects sys r d h hbad

/-- what `restrFor` / `deformFor` / `ignoreFor` are: the value stored under exactly that name -/
theorem routing_values (r : Dict RestrArg) (d : Dict DefArg) (h : Dict IgnArg) (name : PStr) :
    (∀ entries, r.lookup name = some (.list entries) →
      restrFor (some r) name = some (entries.map Entry.toPair)) ∧
    (r.lookup name = none ∨ r.lookup name = some .falsy → restrFor (some r) name = none) ∧
    (∀ vals, d.lookup name = some (.seq vals) →
      deformFor (some d) name = some (vals.map DefElem.toInt)) ∧
    (d.lookup name = none ∨ d.lookup name = some .falsy → deformFor (some d) name = none) ∧
    (∀ b, h.lookup name = some (.bool b) → ignoreFor (some h) name = b) ∧
    (h.lookup name = none → ignoreFor (some h) name = true) ∧
    restrFor none name = none ∧ deformFor none name = none ∧ ignoreFor none name = true := by
  refine ⟨?_, ?_, ?_, ?_, ?_, ?_, rfl, rfl, rfl⟩
  · intro es he; simp [restrFor, he, RestrArg.value]
  · rintro (he | he) <;> simp [restrFor, he, RestrArg.value]
  · intro vs he; simp [deformFor, he, DefArg.value]
  · rintro (he | he) <;> simp [deformFor, he, DefArg.value]
  · intro b he; simp [ignoreFor, he]
  · intro he; simp [ignoreFor, he]

/-- the malformed inputs the property names -/
inductive Malformed (sys : List (Species P)) (r : Option (Dict RestrArg)) (d : Option (Dict DefArg))
    (h : Option (Dict IgnArg)) : Prop
  /-- a key of `restrictions` that is not a complete species -/
  | unknownRestr (dr : Dict RestrArg) (k : PStr) (v : RestrArg) :
      r = some dr → (k, v) ∈ dr → k ∉ completeNames sys → Malformed sys r d h
  | unknownDeform (dd : Dict DefArg) (k : PStr) (v : DefArg) :
      d = some dd → (k, v) ∈ dd → k ∉ completeNames sys → Malformed sys r d h
  | unknownIgnore (dh : Dict IgnArg) (k : PStr) (v : IgnArg) :
      h = some dh → (k, v) ∈ dh → k ∉ completeNames sys → Malformed sys r d h
  /-- the value under a complete species is truthy but not a list -/
  | restrNotIterable (dr : Dict RestrArg) (s : Species P × Mol P) :
      r = some dr → s ∈ complete sys → dr.lookup s.1.name = some .nonIterable → Malformed sys r d h
  /-- an entry that is not a pair -/
  | nonPair (dr : Dict RestrArg) (s : Species P × Mol P) (entries : List Entry) :
      r = some dr → s ∈ complete sys → dr.lookup s.1.name = some (.list entries) →
      Entry.nonPair ∈ entries → Malformed sys r d h
  /-- an index that is negative, too large for its molecule, or not an int -/
  | badIndex (dr : Dict RestrArg) (s : Species P × Mol P) (entries : List Entry) (a b : IdxVal) :
      r = some dr → s ∈ complete sys → dr.lookup s.1.name = some (.list entries) →
      Entry.pair a b ∈ entries → (¬ a.Ok s.1.start.len ∨ ¬ b.Ok s.2.len) → Malformed sys r d h
  /-- a deformation value that is not a tuple/list of one to three values from {0, 1, 2} -/
  | badDeform (dd : Dict DefArg) (s : Species P × Mol P) (v : DefArg) :
      d = some dd → s ∈ complete sys → dd.lookup s.1.name = some v → ¬ v.Ok → Malformed sys r d h
  /-- a hydrogen flag that is not a bool -/
  | nonBool (dh : Dict IgnArg) (s : Species P × Mol P) :
      h = some dh → s ∈ complete sys → dh.lookup s.1.name = some .other → Malformed sys r d h

/-- An unknown species name in any of the three dictionaries, a non-list restraint value, a non-pair
    entry, an index out of range (negative included) or not an int, a malformed deformation value or a
    non-bool hydrogen flag makes `Manager.align_molecules` raise BEFORE the first alignment call. -/
theorem routing_rejects_first (sys : List (Species P)) (r : Option (Dict RestrArg))
    (d : Option (Dict DefArg)) (h : Option (Dict IgnArg)) (m : Malformed sys r d h) :
    ∃ err, managerAlign sys r d h = ⟨[], some err⟩ := by
  apply managerAlign_rejects
  rintro ⟨hr, hd, hh⟩
  cases m with
  | unknownRestr dr k v e hm hk => subst e; exact hk (hr.1 _ hm)
  | unknownDeform dd k v e hm hk => subst e; exact hk (hd.1 _ hm)
  | unknownIgnore dh k v e hm hk => subst e; exact hk (hh.1 _ hm)
  | restrNotIterable dr s e hs hl => subst e; exact (hr.2 s hs _ hl)
  | nonPair dr s entries e hs hl hm => subst e; exact (hr.2 s hs _ hl) _ hm
  | badIndex dr s entries a b e hs hl hm hbad =>
    subst e
    have := (hr.2 s hs _ hl) _ hm
    rcases hbad with hb | hb
    · exact hb this.1
    · exact hb this.2
  | badDeform dd s v e hs hl hv => subst e; exact hv (hd.2 s hs _ hl)
  | nonBool dh s e hs hl => subst e; exact (hh.2 s hs _ hl)

/-- conversely nothing else is rejected by the three validators: inputs that are not `Malformed`
    pass all of them (so `routing_exact` applies) -/
theorem routing_accepts_rest (sys : List (Species P)) (r : Option (Dict RestrArg))
    (d : Option (Dict DefArg)) (h : Option (Dict IgnArg)) (hm : ¬ Malformed sys r d h) :
    RestrDictOk sys r ∧ DefDictOk sys d ∧ IgnDictOk sys h := by
  refine ⟨?_, ?_, ?_⟩
  · cases r with
    | none => trivial
    | some dr =>
      refine ⟨?_, ?_⟩
      · rintro ⟨k, v⟩ hkv
        apply Classical.byContradiction
        intro hk
        exact hm (.unknownRestr dr k v rfl hkv hk)
      · intro s hs v hl
        cases v with
        | falsy => trivial
        | nonIterable => exact absurd (.restrNotIterable dr s rfl hs hl) hm
        | list entries =>
          intro en hen
          cases en with
          | nonPair => exact absurd (.nonPair dr s entries rfl hs hl hen) hm
          | pair a b =>
            refine ⟨?_, ?_⟩
            · apply Classical.byContradiction
              intro ha
              exact hm (.badIndex dr s entries a b rfl hs hl hen (Or.inl ha))
            · apply Classical.byContradiction
              intro hb
              exact hm (.badIndex dr s entries a b rfl hs hl hen (Or.inr hb))
  · cases d with
    | none => trivial
    | some dd =>
      refine ⟨?_, ?_⟩
      · rintro ⟨k, v⟩ hkv
        apply Classical.byContradiction
        intro hk
        exact hm (.unknownDeform dd k v rfl hkv hk)
      · intro s hs v hl
        apply Classical.byContradiction
        intro hv
        exact hm (.badDeform dd s v rfl hs hl hv)
  · cases h with
    | none => trivial
    | some dh =>
      refine ⟨?_, ?_⟩
      · rintro ⟨k, v⟩ hkv
        apply Classical.byContradiction
        intro hk
        exact hm (.unknownIgnore dh k v rfl hkv hk)
      · intro s hs v hl
        cases v with
        | bool b => trivial
        | other => exact absurd (.nonBool dh s rfl hs hl) hm

/-! ### sentence 3, continued — `Manager.parse_restrictions(restrictions, guess_proteins)` -/

/-- `len(start.resnames) > 3` is about the number of residues -/
theorem big_iff (sp : Species P) : sp.big = true ↔ sp.start.residues.length > 3 := by
  simp [Species.big, Mol.resnames]

/-- For every system, option dictionaries and flag value that the parser accepts (`RestrDictOkG`:
    keys are complete species, the value of every species the flag does NOT apply to is well formed,
    the guesser accepts every species the flag applies to): `parse_restrictions(r, guess_proteins=g)`
    returns one entry per complete species, in order, holding `restrForG r g s`; and passing that
    dictionary to `align_molecules(…, parse_restrictions=False)` aligns every complete species once,
    in order, with exactly that restraint value and with the deformation types / hydrogen flag
    stored under its own name. -/
theorem routing_guess_exact (sys : List (Species P)) (hnd : (sys.map (·.name)).Nodup)
    (r : Option (Dict RestrArg)) (d : Option (Dict DefArg)) (h : Option (Dict IgnArg)) (g : Bool)
    (hr : RestrDictOkG sys r g) (hd : DefDictOk sys d) (hh : IgnDictOk sys h) :
    parseRestrictionsG sys r g = .ok ((complete sys).map fun s => (s.1.name, restrForG r g s)) ∧
    managerAlignGuess sys r d h g = runAligns ((complete sys).map fun s =>
      { name := s.1.name, start := s.1.start, end_ := s.2, restr := restrForG r g s,
        deform := deformFor d s.1.name, ignoreH := ignoreFor h s.1.name }) :=
  ⟨parseRestrictionsG_ok sys r g hr, managerAlignGuess_ok sys hnd r d h g hr hd hh⟩

/-- what `restrForG` is: without the flag, or for a species of at most 3 residues, the value the
    user stored under the species' name (as `routing_values` describes it); with the flag and more
    than 3 residues the guesser's list — WHATEVER the user stored, present or not, well formed or
    not — which is the list `protein_pairs_same_position` / `protein_pairs_cover` speak about. -/
theorem routing_guess_values (r : Option (Dict RestrArg)) (g : Bool) (s : Species P × Mol P) :
    (g = false → restrForG r g s = restrFor r s.1.name) ∧
    (s.1.start.residues.length ≤ 3 → restrForG r g s = restrFor r s.1.name) ∧
    (g = true → s.1.start.residues.length > 3 → GuessAccepts s.1.start s.2 →
      ∃ rs, guessProtein s.1.start s.2 = .ok rs ∧ restrForG r g s = some rs ∧
        ∀ r', restrForG r' g s = some rs) := by
  refine ⟨?_, ?_, ?_⟩
  · intro hg; simp [restrForG, guessedHere, hg]
  · intro hs
    have : s.1.big = false := by
      cases hb : s.1.big with
      | false => rfl
      | true => have := (big_iff s.1).mp hb; omega
    simp [restrForG, guessedHere, this]
  · intro hg hs ha
    have hb : s.1.big = true := (big_iff s.1).mpr hs
    refine ⟨_, guessProtein_of_accepts ha, by simp [restrForG, guessedHere, hg, hb], ?_⟩
    intro r'
    simp [restrForG, guessedHere, hg, hb]

/-- the flag switched off is `parse_restrictions(r)` -/
theorem routing_guess_off (sys : List (Species P)) (r : Option (Dict RestrArg))
    (d : Option (Dict DefArg)) (h : Option (Dict IgnArg)) :
    parseRestrictionsG sys r false = parseRestrictions sys r ∧
    managerAlignGuess sys r d h false = managerAlign sys r d h := by
  have hp := parseRestrictionsG_off sys r false (fun s _ => by simp [guessedHere])
  refine ⟨hp, ?_⟩
  unfold managerAlignGuess managerAlign managerAlignPreparsed
  rw [hp]

/-- Species with at most 3 residues are routed exactly as without the flag:
    (1) when no complete species has more than 3 residues the flag changes nothing at all — same
        result, same errors, for every input;
    (2) in general, whenever both calls return, every complete species of at most 3 residues has
        the same entry in both dictionaries, and both have the same keys in the same order;
    (3) a malformed value under such a species is refused with the flag as without it (`¬ SpeciesOkG`
        at a species the flag does not apply to is `¬ RestrArg.Ok`). -/
theorem routing_guess_overrides_only_big (sys : List (Species P)) (r : Option (Dict RestrArg))
    (d : Option (Dict DefArg)) (h : Option (Dict IgnArg)) (g : Bool) :
    ((∀ s ∈ complete sys, s.1.start.residues.length ≤ 3) →
      parseRestrictionsG sys r g = parseRestrictions sys r ∧
      managerAlignGuess sys r d h g = managerAlign sys r d h) ∧
    ((sys.map (·.name)).Nodup → ∀ x y, parseRestrictionsG sys r g = .ok x → parseRestrictions sys r = .ok y →
      x.map (·.1) = y.map (·.1) ∧
      ∀ s ∈ complete sys, s.1.start.residues.length ≤ 3 → x.lookup s.1.name = y.lookup s.1.name) ∧
    (∀ dr s, r = some dr → s ∈ complete sys → s.1.start.residues.length ≤ 3 →
      ((∀ v, dr.lookup s.1.name = some v → v.Ok s.1.start s.2) ↔ SpeciesOkG r g s)) := by
  refine ⟨?_, ?_, ?_⟩
  · intro hs
    have hoff : ∀ s ∈ complete sys, guessedHere g s = false := by
      intro s hs'
      have := hs s hs'
      cases hb : s.1.big with
      | false => simp [guessedHere, hb]
      | true => have := (big_iff s.1).mp hb; omega
    have hp := parseRestrictionsG_off sys r g hoff
    refine ⟨hp, ?_⟩
    unfold managerAlignGuess managerAlign managerAlignPreparsed
    rw [hp]
  · intro hnd x y hx hy
    have hx' := parseRestrictionsG_ok sys r g (RestrDictOkG_of_parse hx)
    have hy' := parseRestrictions_ok sys r (RestrDictOk_of_parse hy)
    rw [hx] at hx'; rw [hy] at hy'
    cases hx'; cases hy'
    have hnd' : ((complete sys).map (·.1.name)).Nodup :=
      List.Nodup.sublist (completeNames_sublist sys) hnd
    refine ⟨by simp [parsedRestrG, parsedRestr, List.map_map, Function.comp_def], ?_⟩
    intro s hs hlen
    have e1 : (parsedRestrG r g (complete sys)).lookup s.1.name = some (restrForG r g s) :=
      lookup_map_name _ _ hnd' s hs
    have e2 : (parsedRestr r (complete sys)).lookup s.1.name = some (restrFor r s.1.name) :=
      lookup_map_name _ (fun t => restrFor r t.1.name) hnd' s hs
    rw [e1, e2, (routing_guess_values r g s).2.1 hlen]
  · intro dr s hr _ hlen
    subst hr
    have hb : s.1.big = false := by
      cases hb : s.1.big with
      | false => rfl
      | true => have := (big_iff s.1).mp hb; omega
    simp [SpeciesOkG, guessedHere, hb]

/-- the value stored under a species the flag applies to is never read: two dictionaries (keys
    known) that agree on every species the flag does NOT apply to are parsed to the same result —
    same dictionary or same error -/
theorem routing_guess_ignores_user_value (sys : List (Species P)) (dr dr' : Dict RestrArg) (g : Bool)
    (hk : KeysKnown sys (some dr)) (hk' : KeysKnown sys (some dr'))
    (hagree : ∀ s ∈ complete sys, (g = false ∨ s.1.start.residues.length ≤ 3) →
      dr.lookup s.1.name = dr'.lookup s.1.name) :
    parseRestrictionsG sys (some dr) g = parseRestrictionsG sys (some dr') g := by
  simp only [parseRestrictionsG, (checkNamesKnown_ok_iff _ _).mpr hk,
    (checkNamesKnown_ok_iff _ _).mpr hk']
  apply parseRestrLoopG_congr
  intro s hs hoff
  apply hagree s hs
  cases g with
  | false => exact Or.inl rfl
  | true =>
    right
    have hb : s.1.big = false := by simpa [guessedHere] using hoff
    have : ¬ s.1.start.residues.length > 3 := fun hgt => by
      have := (big_iff s.1).mpr hgt
      rw [hb] at this; cases this
    omega

/-- Refusal.  With the flag on, a species of more than 3 residues whose two molecules do not have the
    same number of residues makes `parse_restrictions` raise — so no alignment is ever started — and
    the error is the guesser's `IOError` raised AT THAT SPECIES of the loop: it is what the caller
    sees whenever the key check passed and every complete species before it in dictionary order
    is fine (`SpeciesOkG`); an unknown key (`KeyError`) or an earlier species' error comes first,
    exactly as in the code. -/
theorem routing_guess_refusal (sys : List (Species P)) (r : Option (Dict RestrArg))
    (d : Option (Dict DefArg)) (h : Option (Dict IgnArg))
    (pre : List (Species P × Mol P)) (s : Species P × Mol P) (post : List (Species P × Mol P))
    (hsplit : complete sys = pre ++ s :: post)
    (hbig : s.1.start.residues.length > 3)
    (hmis : s.1.start.residues.length ≠ s.2.residues.length) :
    (∃ err, parseRestrictionsG sys r true = .error err ∧
      managerAlignGuess sys r d h true = ⟨[], some err⟩) ∧
    (KeysKnown sys r → (∀ x ∈ pre, SpeciesOkG r true x) →
      parseRestrictionsG sys r true = .error .ioError ∧
      managerAlignGuess sys r d h true = ⟨[], some .ioError⟩) := by
  have hb : guessedHere true s = true := by simp [guessedHere, (big_iff s.1).mpr hbig]
  have hbad : ¬ SpeciesOkG r true s := by
    intro hok
    simp only [SpeciesOkG, hb, ↓reduceIte] at hok
    exact hmis hok.1
  have hnot : ¬ RestrDictOkG sys r true := by
    intro hok
    exact hbad (hok.2 s (by rw [hsplit]; simp))
  constructor
  · obtain ⟨err, he⟩ := parseRestrictionsG_err sys r true hnot
    exact ⟨err, he, by simp [managerAlignGuess, he]⟩
  · intro hk hpre
    have hp : parseRestrictionsG sys r true = .error .ioError := by
      cases r with
      | none =>
        simp only [parseRestrictionsG, hsplit]
        exact parseRestrNoneLoopG_first_bad true pre s post hpre hbad
      | some dr =>
        simp only [parseRestrictionsG, (checkNamesKnown_ok_iff _ _).mpr hk, hsplit]
        obtain ⟨err, he, hio⟩ := parseRestrLoopG_first_bad dr true pre s post hpre hbad
        rw [he, hio hb]
    exact ⟨hp, by simp [managerAlignGuess, hp]⟩

/-- nothing but the accepted inputs gets through: anything outside `RestrDictOkG` (unknown key,
    malformed value under a species the flag does not apply to, refused guess) or a malformed
    deformation / hydrogen dictionary ends the composed call with an error before the first alignment;
    and what `parse_restrictions` accepts is exactly `RestrDictOkG` -/
theorem routing_guess_rejects_first (sys : List (Species P)) (r : Option (Dict RestrArg))
    (d : Option (Dict DefArg)) (h : Option (Dict IgnArg)) (g : Bool) :
    (¬ (RestrDictOkG sys r g ∧ DefDictOk sys d ∧ IgnDictOk sys h) →
      ∃ err, managerAlignGuess sys r d h g = ⟨[], some err⟩) ∧
    ((∃ x, parseRestrictionsG sys r g = .ok x) ↔ RestrDictOkG sys r g) :=
  ⟨managerAlignGuess_rejects sys r d h g,
   ⟨fun ⟨_, hx⟩ => RestrDictOkG_of_parse hx, fun hok => ⟨_, parseRestrictionsG_ok sys r g hok⟩⟩⟩

/-! ### the `Alignment.start` / `Alignment.end` setters, the unset check, `Manager.add_end_molecule` -/

/-- `Molecule.__eq__` is equality of (name, per-atom (resname, name, index, top_resid)) -/
theorem molecule_eq_spec (a b : MolId) : molEq a b = true ↔ a = b := molEq_iff a b

/-- One assignment.  `None` clears the attribute; a non-`Molecule` is a `TypeError`; while either
    molecule is unset every molecule is accepted; with both set a molecule is accepted iff it equals
    (`Molecule.__eq__`) the molecule CURRENTLY stored in the attribute being assigned, and is a
    `ValueError` otherwise; the other attribute is never touched. -/
theorem setter_spec {M : Type} (ident : M → MolId) (st : AliState M) :
    setStart ident st .none = .ok ⟨none, st.end_⟩ ∧ setEnd ident st .none = .ok ⟨st.start, none⟩ ∧
    setStart ident st .nonMolecule = .error .typeError ∧
    setEnd ident st .nonMolecule = .error .typeError ∧
    (∀ m, (st.start = none ∨ st.end_ = none) →
      setStart ident st (.mol m) = .ok ⟨some m, st.end_⟩ ∧
      setEnd ident st (.mol m) = .ok ⟨st.start, some m⟩) ∧
    (∀ m cs ce, st.start = some cs → st.end_ = some ce →
      setStart ident st (.mol m) =
        (if ident m = ident cs then .ok ⟨some m, some ce⟩ else .error .valueError) ∧
      setEnd ident st (.mol m) =
        (if ident m = ident ce then .ok ⟨some cs, some m⟩ else .error .valueError)) := by
  refine ⟨rfl, rfl, rfl, rfl, ?_, ?_⟩
  · intro m hu
    cases hs : st.start <;> cases he : st.end_ <;> simp_all [setStart, setEnd]
  · intro m cs ce hs he
    constructor
    · by_cases heq : ident m = ident cs
      · simp [setStart, hs, he, heq, (molEq_iff _ _).mpr rfl]
      · have : molEq (ident m) (ident cs) = false := by
          cases hx : molEq (ident m) (ident cs) with
          | false => rfl
          | true => exact absurd ((molEq_iff _ _).mp hx) heq
        simp [setStart, hs, he, heq, this]
    · by_cases heq : ident m = ident ce
      · simp [setEnd, hs, he, heq, (molEq_iff _ _).mpr rfl]
      · have : molEq (ident m) (ident ce) = false := by
          cases hx : molEq (ident m) (ident ce) with
          | false => rfl
          | true => exact absurd ((molEq_iff _ _).mp hx) heq
        simp [setEnd, hs, he, heq, this]

/-- `Alignment(start, end)` never compares the two molecules: any two molecules are accepted -/
theorem constructor_accepts {M : Type} (ident : M → MolId) (s e : M) :
    newAlignment ident (.mol s) (.mol e) = .ok ⟨some s, some e⟩ := rfl

/-- Invariant over ALL histories of assignments (each in its own `try`, none of them `None`): once
    both molecules are set, their identities never change again — every later assignment either
    stores an equal molecule or is refused and leaves the object as it was; and at every such
    state an assigned molecule is accepted exactly when it equals the stored one. -/
theorem setter_history_invariant {M : Type} (ident : M → MolId) (st : AliState M) (ids ide : MolId)
    (hl : Locked ident st ids ide) :
    (∀ ops : List (SetOp M), (∀ op ∈ ops, op.clears = false) →
      Locked ident (runOps ident st ops).1 ids ide) ∧
    (∀ m, (setStart ident st (.mol m)).isOk = decide (ident m = ids) ∧
          (setEnd ident st (.mol m)).isOk = decide (ident m = ide)) :=
  ⟨fun ops hn => runOps_locked ident ops st ids ide hl hn,
   fun m => ⟨(setStart_locked ident st ids ide hl (.mol m) rfl).2 m rfl,
             (setEnd_locked ident st ids ide hl (.mol m) rfl).2 m rfl⟩⟩

/-- `Alignment.align_molecules` with start or end unset is a `ValueError` whatever the arguments;
    with both set it is `alignPrep` of the two stored molecules (all theorems of sentence 1 apply) -/
theorem align_unset_refused (st : AliState (Mol P)) (restr : Option (List Pair))
    (deform : Option (List Int)) (ignoreH auto : Bool) :
    ((st.start = none ∨ st.end_ = none) →
      alignMolecules st restr deform ignoreH auto = .error .valueError) ∧
    (∀ s e, st.start = some s → st.end_ = some e →
      alignMolecules st restr deform ignoreH auto = alignPrep s e restr deform ignoreH auto) := by
  constructor
  · intro hu
    cases hs : st.start <;> cases he : st.end_ <;> simp_all [alignMolecules]
  · intro s e hs he
    simp [alignMolecules, hs, he]

/-- `Manager.add_end_molecule`: `TypeError` for `None` / a non-`Molecule`; `KeyError` when no species
    has the molecule's name; otherwise the outcome of the `end` setter of the species with THAT name:
    its error, or the new state stored under that name with every other species and the key order
    untouched. -/
theorem add_end_molecule_spec {M : Type} (ident : M → MolId) (c : Corr M) :
    addEndMolecule ident c .none = .error .typeError ∧
    addEndMolecule ident c .nonMolecule = .error .typeError ∧
    (∀ m, c.lookup (ident m).name = none → addEndMolecule ident c (.mol m) = .error .keyError) ∧
    (∀ m st, c.lookup (ident m).name = some st →
      (∀ e, setEnd ident st (.mol m) = .error e → addEndMolecule ident c (.mol m) = .error e) ∧
      (∀ st', setEnd ident st (.mol m) = .ok st' →
        ∃ c', addEndMolecule ident c (.mol m) = .ok c' ∧ c'.map (·.1) = c.map (·.1) ∧
          c'.lookup (ident m).name = some st' ∧
          ∀ n, n ≠ (ident m).name → c'.lookup n = c.lookup n)) := by
  refine ⟨rfl, rfl, ?_, ?_⟩
  · intro m hl
    simp [addEndMolecule, hl]
  · intro m st hl
    constructor
    · intro e he
      simp [addEndMolecule, hl, he]
    · intro st' he
      refine ⟨c.set (ident m).name st', by simp [addEndMolecule, hl, he], Corr.set_keys _ _ _,
        Corr.set_lookup_eq _ _ _ _ hl, fun n hn => Corr.set_lookup_ne _ _ _ _ hn⟩

/-- `Manager.add_end_molecules(*molecules)`: when every addition succeeds all of them are applied, in
    order; otherwise the call ends with the error of the FIRST refused molecule, the molecules before it
    stay added and none after it is looked at -/
theorem add_end_molecules_spec {M : Type} (ident : M → MolId) (c c' : Corr M) :
    (∀ l, addAll ident c l = some c' → addEndMolecules ident c l = (c', none)) ∧
    (∀ pre a post e, addAll ident c pre = some c' → addEndMolecule ident c' a = .error e →
      addEndMolecules ident c (pre ++ a :: post) = (c', some e)) :=
  ⟨fun l h => addEndMolecules_all ident c c' l h,
   fun pre a post e hp ha => addEndMolecules_stops ident c c' pre a post e hp ha⟩

/-! ### non-vacuity: concrete, non-trivial objects meeting the hypotheses (evaluated by the kernel) -/

section Examples

/-- atoms named as given, positions = atom index within the residue list -/
private def atomsOf (names : List (List Char)) (first : Nat) : List (Atom Nat) :=
  (names.zip (List.range names.length)).map fun (n, k) => ⟨n, first + k⟩

private def mol1 (resname : List Char) (names : List (List Char)) : Mol Nat :=
  ⟨[⟨resname, atomsOf names 0⟩], true, true⟩

/-- fixed-molecule candidate with two hydrogens (`H1`, `2H3`) and look-alikes that are not (`HA`, `He`) -/
private def big : Mol Nat :=
  mol1 ['R','A'] [['C','1'], ['H','1'], ['O','1'], ['2','H','3'], ['H','A'], ['H','e']]
private def small : Mol Nat := mol1 ['R','A'] [['B','1'], ['B','2']]

/-- `prep_designates`, roles swapped (start smaller), hydrogens filtered: user pairs
    (start, end) = (0,2) (1,1) (1,5) (0,3) → fixed-side atoms 2 (O1, rank 1), 1 (H1: dropped),
    5 (He, rank 3), 3 (2H3: dropped) -/
example : alignPrep small big (some [(0, 2), (1, 1), (1, 5), (0, 3)]) none true =
    .ok (.call true ⟨[0, 2, 4, 5], [0, 1], [(1, 0), (3, 1)], [0, 1, 2], 10000⟩) := rfl

/-- the same restraints given the other way round with the big molecule as start: not swapped -/
example : alignPrep big small (some [(2, 0), (1, 1), (5, 1), (3, 0)]) (some [0, 1]) true =
    .ok (.call false ⟨[0, 2, 4, 5], [0, 1], [(1, 0), (3, 1)], [0, 1], 10000⟩) := rfl

/-- `prep_unfiltered` -/
example : alignPrep small big (some [(0, 2), (1, 1), (1, 5), (0, 3)]) none false =
    .ok (.call true ⟨[0, 1, 2, 3, 4, 5], [0, 1], [(2, 0), (1, 1), (5, 1), (3, 0)], [0, 1, 2], 10000⟩) := rfl

/-- the hypotheses of `prep_reaches` -/
example : big.len ≠ 1 ∧ (mobileOf small big).connected = true ∧ (fixedOf small big).hasBonds = true ∧
    ∀ a ∈ (fixedOf small big).atoms, a.Named := by
  refine ⟨by decide, rfl, rfl, ?_⟩
  have hall : ((fixedOf small big).atoms.all fun a => !(elementRun a.name).isEmpty) = true := by rfl
  intro a ha hnil
  have := List.all_eq_true.mp hall a ha
  rw [hnil] at this
  simp at this

/-- `split_partition` / `residue_pairs_cover` -/
example : splitList (List.range 7) 3 = [[0, 1], [2, 3], [4, 5, 6]] ∧ 0 < 3 ∧ 3 ≤ (List.range 7).length := by
  decide
example : guessResidueLen 5 2 10 20 = [(10, 20), (11, 20), (12, 21), (13, 21), (14, 21)] := by decide

/-- TEST (finite table, evaluated by the kernel; the general statement is `residue_pairs_cover`):
    for all residue lengths in [1,16]² every atom has a partner, indices are in range, the groups are
    non-empty and concatenate to the index list.  The harness checks [1,40]² on the real code on
    every run. -/
private def residueTableOk (l1 l2 : Nat) : Bool :=
  let ps := guessResidueLen l1 l2 0 0
  let big := max l1 l2
  let gs := splitList (List.range big) (min l1 l2)
  (List.range l1).all (fun i => ps.any (fun p => p.1 == (i : Int))) &&
  (List.range l2).all (fun j => ps.any (fun p => p.2 == (j : Int))) &&
  ps.all (fun p => decide (0 ≤ p.1) && decide (p.1 < (l1 : Int)) && decide (0 ≤ p.2) && decide (p.2 < (l2 : Int))) &&
  gs.all (fun g => !g.isEmpty) && gs.flatten == List.range big && gs.length == min l1 l2

set_option maxRecDepth 100000 in
example : (List.range 16).all (fun a => (List.range 16).all fun b => residueTableOk (a + 1) (b + 1)) = true := by
  decide +kernel

/-- multi-residue molecules: three residues each, names equal / contained (`AL` ⊂ `ALA`) -/
private def prot1 : Mol Nat :=
  ⟨[⟨['A','L','A'], atomsOf [['N'], ['C','A'], ['C']] 0⟩, ⟨['G','L','Y'], atomsOf [['N'], ['C']] 3⟩,
    ⟨['S','E','R'], atomsOf [['N'], ['C','A'], ['C'], ['O']] 5⟩], true, true⟩
private def prot2 : Mol Nat :=
  ⟨[⟨['A','L'], atomsOf [['B','1']] 0⟩, ⟨['G','L','Y'], atomsOf [['B','1'], ['B','2'], ['B','3']] 1⟩,
    ⟨['S','E','R'], atomsOf [['B','1'], ['B','2']] 4⟩], true, true⟩
private def prot3 : Mol Nat :=
  ⟨[⟨['A','L','A'], atomsOf [['B','1']] 0⟩, ⟨['G','L','Y'], atomsOf [['B','1']] 1⟩], true, true⟩

example : guessProtein prot1 prot2 =
    .ok [(0, 0), (1, 0), (2, 0), (3, 1), (4, 2), (4, 3), (5, 4), (6, 4), (7, 5), (8, 5)] := rfl
example : (∀ r ∈ prot1.residues, 0 < r.atoms.length) ∧ (∀ r ∈ prot2.residues, 0 < r.atoms.length) := by
  constructor <;> (intro r hr; simp [prot1, prot2, atomsOf] at hr; rcases hr with rfl | rfl | rfl <;> decide)
example : prot1.residues.length ≠ prot3.residues.length ∧ guessProtein prot1 prot3 = .error .ioError :=
  ⟨by decide, rfl⟩
/-- `prep_default`: the guessed list flows through swap and filter like a user list -/
example : prot1.residues.length > 1 ∧ alignPrep prot1 prot2 none none true =
    alignPrep prot1 prot2 (some [(0, 0), (1, 0), (2, 0), (3, 1), (4, 2), (4, 3), (5, 4), (6, 4), (7, 5), (8, 5)])
      none true := ⟨by decide, rfl⟩

/-- a system of three species, one of them (`C`) without end molecule -/
private def spA_start : Mol Nat := mol1 ['R','A'] [['C','1'], ['H','1'], ['C','2'], ['O','1']]
private def spA_end : Mol Nat := mol1 ['R','A'] [['X','1'], ['X','2']]
private def spB_start : Mol Nat := mol1 ['R','B'] [['N','1'], ['H','1'], ['N','2']]
private def spB_end : Mol Nat := mol1 ['R','B'] [['Y','1'], ['Y','2'], ['Y','3'], ['Y','4'], ['H','Y']]
private def spC_start : Mol Nat := mol1 ['R','C'] [['W']]

private def exSys : List (Species Nat) :=
  [⟨['A'], spA_start, some spA_end⟩, ⟨['C'], spC_start, none⟩, ⟨['B'], spB_start, some spB_end⟩]

private def exR : Dict RestrArg :=
  [(['B'], .list [.pair (.int 0) (.int 1), .pair (.int 1) (.int 4)]),
   (['A'], .list [.pair (.int 3) (.int 1), .pair (.int 1) (.int 0)])]
private def exD : Dict DefArg := [(['B'], .seq [.int 0, .int 1])]
private def exH : Dict IgnArg := [(['A'], .bool false)]

/-- the hypotheses of `routing_exact` -/
example : (exSys.map (·.name)).Nodup ∧ RestrDictOk exSys (some exR) ∧ DefDictOk exSys (some exD) ∧
    IgnDictOk exSys (some exH) :=
  ⟨by decide, RestrDictOk_of_parse (x := _) rfl, DefDictOk_of_parse (x := _) rfl,
   IgnDictOk_of_parse (x := _) rfl⟩

/-- … and what it then does: `A` keeps its hydrogens (flag False under `A`), `B` is swapped, filtered
    (default True) and restricted to translations/rotations (value under `B`); `C` is not aligned -/
example : managerAlign exSys (some exR) (some exD) (some exH) =
    ⟨[(['A'], .call false ⟨[0, 1, 2, 3], [0, 1], [(3, 1), (1, 0)], [0, 1, 2], 10000⟩),
      (['B'], .call true ⟨[0, 1, 2, 3, 4], [0, 1, 2], [(1, 0), (4, 1)], [0, 1], 15000⟩)], none⟩ := rfl

/-- `routing_exact_preparsed`: the same three options with the restraint dictionary given
    pre-parsed in REVERSED order (`B` first), and with only `B` listed: `B` is still swapped, filtered
    and limited to `[0, 1]`, `A` still keeps its hydrogens and the default `[0, 1, 2]` -/
example : managerAlignPreparsed exSys
    [(['B'], some [(0, 1), (1, 4)]), (['A'], some [(3, 1), (1, 0)])] (some exD) (some exH) =
    ⟨[(['B'], .call true ⟨[0, 1, 2, 3, 4], [0, 1, 2], [(1, 0), (4, 1)], [0, 1], 15000⟩),
      (['A'], .call false ⟨[0, 1, 2, 3], [0, 1], [(3, 1), (1, 0)], [0, 1, 2], 10000⟩)], none⟩ := rfl
example : managerAlignPreparsed exSys [(['B'], some [(0, 1), (1, 4)])] (some exD) (some exH) =
    ⟨[(['B'], .call true ⟨[0, 1, 2, 3, 4], [0, 1, 2], [(1, 0), (4, 1)], [0, 1], 15000⟩)], none⟩ := rfl
/-- the hypotheses of `routing_exact_preparsed` for the reversed dictionary -/
example : ∀ x ∈ [(((⟨['B'], spB_start, some spB_end⟩ : Species Nat), spB_end), some [((0 : Int), (1 : Int)), (1, 4)]),
                 (((⟨['A'], spA_start, some spA_end⟩ : Species Nat), spA_end), some [(3, 1), (1, 0)])],
    x.1 ∈ complete exSys := by
  intro x hx
  simp only [List.mem_cons, List.not_mem_nil, or_false] at hx
  rcases hx with rfl | rfl <;> simp [complete, exSys]
/-- observation (outside the property's quantifier: the caller switched validation off): a key that
    names no complete species in a hand-made pre-parsed dictionary raises `KeyError` only when the
    loop reaches it, after the alignment of the keys before it -/
example : managerAlignPreparsed exSys [(['A'], none), (['C'], none)] none none =
    ⟨[(['A'], .call false ⟨[0, 2, 3], [0, 1], [], [0, 1, 2], 10000⟩)], some .keyError⟩ := rfl

/-- D10 witness on the model of the REPAIRED code: `deformation_types={'B': (7,)}` is `Malformed` and is
    rejected with no alignment call (the unrepaired code aligned `A` first) -/
example : Malformed exSys none (some [(['B'], .seq [.int 7])]) none :=
  .badDeform [(['B'], .seq [.int 7])] (⟨['B'], spB_start, some spB_end⟩, spB_end) (.seq [.int 7]) rfl
    (by simp [complete, exSys]) rfl (by simp [DefArg.Ok, DefElem.Ok])
example : managerAlign exSys none (some [(['B'], .seq [.int 7])]) none = ⟨[], some .valueError⟩ := rfl

/-- O2 witness (REPAIRED `_validate_index`): a negative index is rejected -/
example : managerAlign exSys (some [(['B'], .list [.pair (.int 1) (.int (-1))])]) none none =
    ⟨[], some .valueError⟩ := rfl
/-- unknown species name (`C` has no end molecule), non-pair entry, non-bool flag -/
example : managerAlign exSys none none (some [(['C'], .bool true)]) = ⟨[], some .keyError⟩ := rfl
example : managerAlign exSys (some [(['A'], .list [.pair (.int 0) (.int 0), .nonPair])]) none none =
    ⟨[], some .valueError⟩ := rfl
example : managerAlign exSys none none (some [(['A'], .other)]) = ⟨[], some .valueError⟩ := rfl

/-! #### `guess_proteins` -/

/-- a four-residue species `P` (6 atoms, one hydrogen; end: 5 beads, `AL` ⊂ `ALA`) next to the
    one-residue species `A` -/
private def pepS : Mol Nat :=
  ⟨[⟨['A','L','A'], atomsOf [['N'], ['H','1']] 0⟩, ⟨['G','L','Y'], atomsOf [['C','A']] 2⟩,
    ⟨['S','E','R'], atomsOf [['N'], ['O','G']] 3⟩, ⟨['L','Y','S'], atomsOf [['N','Z']] 5⟩], true, true⟩
private def pepE : Mol Nat :=
  ⟨[⟨['A','L'], atomsOf [['B','1']] 0⟩, ⟨['G','L','Y'], atomsOf [['B','1']] 1⟩,
    ⟨['S','E','R'], atomsOf [['B','1']] 2⟩, ⟨['L','Y','S'], atomsOf [['B','1'], ['B','2']] 3⟩], true, true⟩
/-- an end molecule with only three residues -/
private def pepE3 : Mol Nat :=
  ⟨[⟨['A','L','A'], atomsOf [['B','1']] 0⟩, ⟨['G','L','Y'], atomsOf [['B','1']] 1⟩,
    ⟨['S','E','R'], atomsOf [['B','1'], ['B','2']] 2⟩], true, true⟩
private def sysG : List (Species Nat) := [⟨['A'], spA_start, some spA_end⟩, ⟨['P'], pepS, some pepE⟩]
private def sysBad : List (Species Nat) := [⟨['A'], spA_start, some spA_end⟩, ⟨['P'], pepS, some pepE3⟩]
private def rG : Dict RestrArg :=
  [(['P'], .list [.pair (.int 5) (.int 0)]), (['A'], .list [.pair (.int 3) (.int 1)])]
/-- the same with a MALFORMED value under `P` (index out of range, a non-pair) -/
private def rGbad : Dict RestrArg :=
  [(['P'], .list [.pair (.int 99) (.int 0), .nonPair]), (['A'], .list [.pair (.int 3) (.int 1)])]

/-- the hypotheses of `routing_guess_exact` (flag on, a user value under the big species) -/
example : (sysG.map (·.name)).Nodup ∧ RestrDictOkG sysG (some rG) true ∧ RestrDictOkG sysG (some rGbad) true ∧
    pepS.residues.length > 3 :=
  ⟨by decide, RestrDictOkG_of_parse (x := _) rfl, RestrDictOkG_of_parse (x := _) rfl, by decide⟩
/-- … and what it says there: `A` (one residue) keeps the user's pair, `P` gets the guessed list, the
    user's `(5, 0)` is gone; the malformed value under `P` is not even looked at; without the flag the
    user's pair is used; `restrictions=None` with the flag guesses for `P` only -/
example : parseRestrictionsG sysG (some rG) true =
    .ok [(['A'], some [(3, 1)]), (['P'], some [(0, 0), (1, 0), (2, 1), (3, 2), (4, 2), (5, 3), (5, 4)])] := rfl
example : parseRestrictionsG sysG (some rGbad) true = parseRestrictionsG sysG (some rG) true := rfl
example : parseRestrictionsG sysG (some rG) false = .ok [(['A'], some [(3, 1)]), (['P'], some [(5, 0)])] := rfl
example : parseRestrictionsG sysG (some rGbad) false = .error .valueError := rfl
example : parseRestrictionsG sysG none true =
    .ok [(['A'], none), (['P'], some [(0, 0), (1, 0), (2, 1), (3, 2), (4, 2), (5, 3), (5, 4)])] := rfl
/-- the composed call: the guessed list reaches `P`'s optimiser through the hydrogen filter (atom 1, `H1`,
    dropped: `(1, 0)` disappears and the fixed-side indices are re-ranked) -/
example : managerAlignGuess sysG (some rG) none none true =
    ⟨[(['A'], .call false ⟨[0, 2, 3], [0, 1], [(2, 1)], [0, 1, 2], 10000⟩),
      (['P'], .call false ⟨[0, 2, 3, 4, 5], [0, 1, 2, 3, 4],
        [(0, 0), (1, 1), (2, 2), (3, 2), (4, 3), (4, 4)], [0, 1, 2], 25000⟩)], none⟩ := rfl
example : managerAlignGuess sysG (some rG) none none false =
    ⟨[(['A'], .call false ⟨[0, 2, 3], [0, 1], [(2, 1)], [0, 1, 2], 10000⟩),
      (['P'], .call false ⟨[0, 2, 3, 4, 5], [0, 1, 2, 3, 4], [(4, 0)], [0, 1, 2], 25000⟩)], none⟩ := rfl
/-- `routing_guess_refusal`: 4 residues against 3 — `IOError`, nothing aligned (`A` comes first in the
    dictionary and is fine); its hypotheses -/
example : complete sysBad = [(⟨['A'], spA_start, some spA_end⟩, spA_end)] ++ (⟨['P'], pepS, some pepE3⟩, pepE3) :: [] ∧
    pepS.residues.length > 3 ∧ pepS.residues.length ≠ pepE3.residues.length ∧ KeysKnown sysBad (some rG) ∧
    SpeciesOkG (some rG) true ((⟨['A'], spA_start, some spA_end⟩ : Species Nat), spA_end) := by
  refine ⟨rfl, by decide, by decide, ?_, ?_⟩
  · intro kv hkv
    simp only [rG, List.mem_cons, List.not_mem_nil, or_false] at hkv
    rcases hkv with rfl | rfl <;> decide
  · have hb : guessedHere true ((⟨['A'], spA_start, some spA_end⟩ : Species Nat), spA_end) = false := rfl
    simp only [SpeciesOkG, hb, Bool.false_eq_true, ↓reduceIte]
    intro v hv
    have : v = .list [.pair (.int 3) (.int 1)] := by
      have : List.lookup ['A'] rG = some (.list [.pair (.int 3) (.int 1)]) := rfl
      rw [this] at hv; cases hv; rfl
    subst this
    intro en hen
    simp only [List.mem_cons, List.not_mem_nil, or_false] at hen
    subst hen
    exact ⟨⟨by decide, by decide⟩, ⟨by decide, by decide⟩⟩
example : managerAlignGuess sysBad (some rG) none none true = ⟨[], some .ioError⟩ := rfl
/-- the same system without the flag is aligned (P with the user's pair) -/
example : (managerAlignGuess sysBad (some rG) none none false).err = none := rfl
/-- an unknown key comes first: `KeyError`, not the guesser's `IOError` -/
example : parseRestrictionsG sysBad (some ((['Z'], .falsy) :: rG)) true = .error .keyError := rfl

/-! #### setters, unset check, `add_end_molecule` -/

private def idA : MolId := ⟨['M'], [⟨['R'], ['C','1'], 0, 1⟩, ⟨['R'], ['C','2'], 1, 1⟩]⟩
/-- same name and length, second atom differs in `top_resid` only -/
private def idA' : MolId := ⟨['M'], [⟨['R'], ['C','1'], 0, 1⟩, ⟨['R'], ['C','2'], 1, 2⟩]⟩
private def idB : MolId := ⟨['M'], [⟨['R'], ['B'], 0, 1⟩]⟩
private def idN : MolId := ⟨['N'], [⟨['R'], ['B'], 0, 1⟩]⟩

example : molEq idA idA = true ∧ molEq idA idA' = false ∧ molEq idA idB = false ∧ molEq idB idN = false := by
  decide
/-- a history on one object: construct with (A, B) — not compared —, re-assign start with an equal
    molecule (accepted), with a different one (`ValueError`), a non-molecule (`TypeError`), end with `A`
    (`ValueError`: compared with the stored END); the object still holds (A, B) = `Locked … idA idB` -/
example : runOps id ⟨some idA, some idB⟩
      [.start (.mol idA), .start (.mol idA'), .start .nonMolecule, .end_ (.mol idA), .end_ (.mol idB)] =
    (⟨some idA, some idB⟩, [none, some .valueError, some .typeError, some .valueError, none]) := rfl
example : Locked id (⟨some idA, some idB⟩ : AliState MolId) idA idB := ⟨rfl, rfl⟩
/-- after clearing the end (`None`) anything goes for the start, and `align_molecules` is a `ValueError` -/
example : runOps id ⟨some idA, some idB⟩ [.end_ .none, .start (.mol idN)] =
    (⟨some idN, none⟩, [none, none]) := rfl
example : alignMolecules ⟨some small, none⟩ (some [(0, 0)]) none true = .error .valueError ∧
    alignMolecules ⟨none, some big⟩ none none false = .error .valueError ∧
    alignMolecules ⟨some small, some big⟩ (some [(0, 2)]) none true =
      alignPrep small big (some [(0, 2)]) none true := ⟨rfl, rfl, rfl⟩
/-- `add_end_molecule`: routed by the molecule's name; unknown name; non-molecule -/
example : addEndMolecule id [(['N'], ⟨some idN, none⟩), (['M'], ⟨some idA, none⟩)] (.mol idB) =
    .ok [(['N'], ⟨some idN, none⟩), (['M'], ⟨some idA, some idB⟩)] := rfl
example : addEndMolecule id [(['N'], ⟨some idN, none⟩)] (.mol idB) = .error .keyError ∧
    addEndMolecule id [(['N'], ⟨some idN, none⟩)] .nonMolecule = .error .typeError ∧
    addEndMolecule id [(['M'], ⟨some idA, some idB⟩)] (.mol idA) = .error .valueError := ⟨rfl, rfl, rfl⟩

/-- `add_end_molecules`: the second molecule has an unknown name — the first stays added, the third is never looked at -/
example : addEndMolecules id [(['N'], ⟨some idN, none⟩), (['M'], ⟨some idA, none⟩)]
      [.mol idB, .mol ⟨['Q'], []⟩, .mol idN] =
    ([(['N'], ⟨some idN, none⟩), (['M'], ⟨some idA, some idB⟩)], some .keyError) := rfl

end Examples

end C10
