import GMProofs.Props.C14
/-
  C14 (late additions) — MORE records than declared.

  The writer declared `n` atoms (`natoms = n`), wrote more than `n` records and stopped before `close` (which would
  have raised the mismatch) — or anything else produced a text `title⏎ count⏎ line₀⏎ … line_{m−1}⏎ tail` with
  `m > n` lines of equal length whose count line denotes `n`. The reader looks for the lattice line at the offset of
  record `n`; that record is not a lattice line, so the file must be rejected (seed C14-9 had made the reader
  recognise box fields by their five decimals, which an atom record written with `position_format = (10, 5)` also has).

  The numeric parsers are PARAMETERS (`P : Parsers`): only `P.pyInt (count line) = n` and the failure of
  `extract_lattice_gro` on record `n` are used. Core Lean only.
-/
open PyStr PyStrL Gro GroL

namespace C14

/-- what a successful `_load_and_verify` has established about the line at the box position (`T`, `C`, `F` = the
    first three lines read): the count line is a number `n`, the offset `init + n·|F|` is not negative and the line
    there went through `extract_lattice_gro` without an exception -/
theorem loadAndVerify_box_inv {P : Parsers} {bs : List Nat} {st : RState} {T C F : List Nat}
    (hT : readLine bs 0 = T) (hC : readLine bs T.length = C) (hF : readLine bs (T.length + C.length) = F)
    (h : loadAndVerify P bs = .ok st) :
    ∃ (n : Int) (box : RBox),
      P.pyInt C = .ok n ∧
      0 ≤ ((T.length + C.length : Nat) : Int) + n * ((F.length : Nat) : Int) ∧
      extractLattice P.pyFloat
        (readLine bs (((T.length + C.length : Nat) : Int) + n * ((F.length : Nat) : Int)).toNat) = .ok box := by
  unfold loadAndVerify at h
  simp only [bind, Except.bind, pure, Except.pure, hT, hC, hF] at h
  split at h
  · first | (cases h; done) | (simp [throw, throwThe, MonadExceptOf.throw] at h; done)
  · try simp only at h
    cases hn : P.pyInt C with
    | error e => rw [hn] at h; cases e <;> simp [valueToIO] at h
    | ok n =>
      rw [hn] at h
      simp only [valueToIO] at h
      cases hf : P.detFormat F with
      | error e => rw [hf] at h; simp at h
      | ok fmt =>
        rw [hf] at h
        try simp only at h
        split at h
        · first | (cases h; done) | (simp [throw, throwThe, MonadExceptOf.throw] at h; done)
        · rename_i hneg
          try simp only at h
          split at h
          · first | (cases h; done) | (simp [throw, throwThe, MonadExceptOf.throw] at h; done)
          · try simp only at h
            split at h
            · cases h
            · rename_i box hx
              refine ⟨n, box, rfl, by omega, ?_⟩
              revert hx
              cases extractLattice P.pyFloat
                (readLine bs (((T.length + C.length : Nat) : Int) + n * ((F.length : Nat) : Int)).toNat) with
              | ok b => intro hx; simpa using hx
              | error e => intro hx; cases e <;> simp at hx

/-- the text up to and including the atom block, split at record `n` -/
theorem groPre_split (title count : List Nat) (a b : List (List Nat)) (l tail : List Nat) :
    groPre title count (a ++ l :: b) ++ tail = groPre title count a ++ (l ++ nl :: (linesText b ++ tail)) := by
  simp [groPre, linesText_append, linesText, List.append_assoc]

/-- **More records than declared: rejected.** A text
    `title⏎ count⏎ line₀⏎ … line_{m−1}⏎ tail` (`tail` arbitrary: nothing — the writer stopped —, further lines, even a
    well-formed lattice line) with `m > n ≥ 0` atom lines of equal length `L` and no terminator inside title, count and
    lines, whose count line denotes `n`, and whose record number `n` (0-based: the `(n+1)`-th) is not accepted by
    `extract_lattice_gro`: `GroFile(path)` raises, and so does the read of the whole file — the verdict is an error,
    never atoms. For every record format (`L` is arbitrary) and every declared count including 0; nothing is assumed
    about `determine_format` or about any other line. -/
theorem overcount_rejected (P : Parsers) (title count tail : List Nat) (lines : List (List Nat)) (L n : Nat)
    (htitle : nl ∉ title) (hcount : nl ∉ count)
    (hlines : ∀ l ∈ lines, nl ∉ l ∧ l.length = L)
    (hmore : n < lines.length)
    (hnat : P.pyInt (count ++ [nl]) = .ok (n : Int))
    (hnobox : ∀ box, extractLattice P.pyFloat (lines[n] ++ [nl]) ≠ .ok box) :
    (∃ e, loadAndVerify P (groPre title count lines ++ tail) = .error e) ∧
    (∃ e, groRead P (groPre title count lines ++ tail) = .error e) := by
  have hrej : ∀ st, loadAndVerify P (groPre title count lines ++ tail) ≠ .ok st := by
    intro st hst
    -- the first record
    obtain ⟨l0, ls, hl⟩ : ∃ l0 ls, lines = l0 :: ls := by
      cases hls : lines with
      | nil => rw [hls] at hmore; exact absurd hmore (by simp)
      | cons a b => exact ⟨a, b, rfl⟩
    have hl0 : nl ∉ l0 ∧ l0.length = L := hlines l0 (by simp [hl])
    have hfirst : readLine (groPre title count lines ++ tail) ((title ++ [nl]).length + (count ++ [nl]).length)
        = l0 ++ [nl] := by
      have e : groPre title count lines ++ tail
          = ((title ++ [nl]) ++ (count ++ [nl])) ++ (l0 ++ nl :: (linesText ls ++ tail)) := by
        simp [groPre, hl, linesText, List.append_assoc]
      rw [e]; exact readLine_at' _ l0 _ _ (by simp only [List.length_append]) hl0.1
    obtain ⟨k, box, hk, -, hbox⟩ :=
      loadAndVerify_box_inv (read_title' htitle tail) (read_count' hcount tail) hfirst hst
    rw [hnat] at hk
    cases hk
    -- the line at the box position is record `n`
    have hsplit : lines = lines.take n ++ lines[n] :: lines.drop (n + 1) := by
      rw [List.getElem_cons_drop, List.take_append_drop]
    have hLa : ∀ l ∈ lines.take n, l.length = L := fun l h => (hlines l (List.mem_of_mem_take h)).2
    have hln : nl ∉ lines[n] := (hlines _ (List.getElem_mem hmore)).1
    have hpos : (((((title ++ [nl]).length + (count ++ [nl]).length : Nat) : Int)
        + (n : Int) * (((l0 ++ [nl]).length : Nat) : Int)).toNat)
        = (groPre title count (lines.take n)).length := by
      rw [toNat_lin, groPre_length _ _ _ L hLa, List.length_take, Nat.min_eq_left (Nat.le_of_lt hmore)]
      simp only [List.length_append, List.length_cons, List.length_nil, hl0.2, boxOffset, initOf, Nat.zero_add]
    have hline : readLine (groPre title count lines ++ tail)
        (((((title ++ [nl]).length + (count ++ [nl]).length : Nat) : Int)
          + (n : Int) * (((l0 ++ [nl]).length : Nat) : Int)).toNat) = lines[n] ++ [nl] := by
      rw [hpos]
      conv => lhs; arg 1; rw [hsplit, groPre_split]
      exact readLine_at _ _ _ hln
    rw [hline] at hbox
    exact hnobox box hbox
  have h1 : ∃ e, loadAndVerify P (groPre title count lines ++ tail) = .error e := by
    cases h : loadAndVerify P (groPre title count lines ++ tail) with
    | error e => exact ⟨e, rfl⟩
    | ok st => exact absurd h (hrej st)
  obtain ⟨e, he⟩ := h1
  exact ⟨⟨e, he⟩, ⟨e, by simp [groRead, he, bind, Except.bind]⟩⟩

/-- a sufficient condition on record `n` for the concrete `float()`: one of its first nine blank-separated tokens is
    not a number (an atom record starts with `<resnum><resname>`, e.g. `"1SOL"`, and carries the atom name) -/
theorem not_a_box_of_token (pyFloat' : List Nat → Except PyErr PyNum) (line : List Nat) (t : List Nat)
    (ht : t ∈ (split line).take 9) (hbad : ∀ v, pyFloat' t ≠ .ok v) :
    ∀ box, extractLattice pyFloat' line ≠ .ok box := by
  intro box h
  unfold extractLattice at h
  have hm : ∀ (l : List (List Nat)), t ∈ l → ∀ r, l.mapM pyFloat' ≠ .ok r := by
    intro l
    induction l with
    | nil => intro h; exact absurd h (by simp)
    | cons a as ih =>
      intro hmem r hr
      simp only [List.mapM_cons, bind, Except.bind, pure, Except.pure] at hr
      cases ha : pyFloat' a with
      | error e => rw [ha] at hr; cases hr
      | ok v =>
        rw [ha] at hr
        simp only at hr
        cases has : as.mapM pyFloat' with
        | error e => rw [has] at hr; cases hr
        | ok vs =>
          rcases List.mem_cons.mp hmem with h1 | h1
          · subst h1; exact hbad v ha
          · exact ih h1 vs has
  cases hmm : ((split line).take 9).mapM pyFloat' with
  | error e => rw [hmm] at h; simp [bind, Except.bind] at h
  | ok r => exact hm _ ht r hmm

/-- **The writer session behind it.** Any setters that declare `natoms = n`, then MORE than `n` records of the C13
    shape and no `close` (which would have raised the count mismatch): the file left behind is rejected by the
    reader as soon as record `n` is not accepted by `extract_lattice_gro` — for every position format `(w, d)`,
    with or without velocities, every `n ≥ 0`. (Only `P.pyInt` of the written count line is assumed of the parsers;
    `pyInt_countFinal` shows it for the concrete `int()`.) -/
theorem overcount_session_rejected (P : Parsers) (setters : List Op) (r0 : Rec) (rest : List Rec) (w d : Nat)
    (vel : Bool) (s : WState) (n : Nat)
    (hset : ∀ op ∈ setters, IsSetter op) (hs : s = (run WState.init setters).1)
    (hfmt : s.effFormat = (w, d)) (htitle : TitleOk s.effComment)
    (hrec : ∀ r ∈ r0 :: rest, RecOk w d vel r)
    (hdecl : s.natoms = some (n : Int)) (hmore : n < (r0 :: rest).length)
    (hP : P.pyInt (intBody (n : Int) ++ [nl]) = .ok (n : Int))
    (hnobox : ∀ box, extractLattice P.pyFloat (lineOf w d ((r0 :: rest)[n]) ++ [nl]) ≠ .ok box) :
    ∃ e, loadAndVerify P (run WState.init (setters ++ (r0 :: rest).map Op.writeLine)).1.bytes = .error e := by
  obtain ⟨hp, -⟩ := pristine_run setters pristine_init hset
  rw [← hs] at hp
  have hw := writing_prefix hp r0 rest w d vel hfmt hrec htitle
  have hcf : countFinal s n = intBody (n : Int) := by simp [countFinal, hdecl]
  have hb : (run WState.init (setters ++ (r0 :: rest).map Op.writeLine)).1.bytes
      = groPre s.effComment (intBody (n : Int)) ((r0 :: rest).map (lineOf w d)) ++ [] := by
    rw [run_append, ← hs, hw.bytes]
    simp [headerOf, WState.countLine, hdecl, groPre, List.append_assoc]
  rw [hb]
  refine (overcount_rejected P s.effComment (intBody (n : Int)) [] ((r0 :: rest).map (lineOf w d))
    (lineOf w d r0).length n htitle ?_ ?_ (by simpa using hmore) hP ?_).1
  · intro h
    rw [← hcf] at h
    exact (countFinal_chars _ _ _ h).ne_nl rfl
  · intro l hl
    obtain ⟨r, hrm, rfl⟩ := List.mem_map.mp hl
    exact ⟨lineOf_no_nl (hrec r hrm), by rw [lineOf_length (hrec r hrm), lineOf_length (hrec r0 (by simp))]⟩
  · intro box
    rw [List.getElem_map]
    exact hnobox box

/-! ### non-vacuity -/

section examples

private def s2b' (s : String) : List Nat := s.toList.map (·.toNat)
private def titleO : List Nat := s2b' "T"
/-- position_format (10, 5): every coordinate has the five decimals of a box field -/
private def linesO : List (List Nat) :=
  [s2b' "    1SOL     OW    1   0.10000  -0.20000   0.30000",
   s2b' "    1SOL    HW1    2   1.00000   2.00000  -3.50000",
   s2b' "    2SOL     OW    3   1.10000   2.10000  -3.40000"]

/-- the hypotheses of `overcount_rejected` hold for three records with 1 declared (and with 0 declared), the
    writer having stopped after the records (`tail = []`) -/
example : nl ∉ titleO ∧ nl ∉ s2b' "    1" ∧ (∀ l ∈ linesO, nl ∉ l ∧ l.length = 50) ∧ 1 < linesO.length ∧
    stdParsers.pyInt (s2b' "    1" ++ [nl]) = .ok ((1 : Nat) : Int) ∧
    stdParsers.pyInt (s2b' "    0" ++ [nl]) = .ok ((0 : Nat) : Int) ∧
    (∀ box, extractLattice stdParsers.pyFloat (linesO[1] ++ [nl]) ≠ .ok box) ∧
    (∀ box, extractLattice stdParsers.pyFloat (linesO[0] ++ [nl]) ≠ .ok box) := by
  have hbad : ∀ v, stdParsers.pyFloat (s2b' "1SOL") ≠ .ok v := by
    intro v hv
    have e : stdParsers.pyFloat (s2b' "1SOL") = .error .valueError := rfl
    rw [e] at hv
    cases hv
  refine ⟨by decide, by decide, by decide, by decide, rfl, rfl, ?_, ?_⟩
  · exact not_a_box_of_token _ _ (s2b' "1SOL") (by decide +kernel) hbad
  · exact not_a_box_of_token _ _ (s2b' "1SOL") (by decide +kernel) hbad

/-- … and the conclusion, computed: rejected with 1 and with 0 declared; with 3 declared and a lattice line the same
    records are accepted (the hypothesis `n < m` matters) -/
example :
    (loadAndVerify stdParsers (groPre titleO (s2b' "    1") linesO ++ [])).toBool = false ∧
    (loadAndVerify stdParsers (groPre titleO (s2b' "    0") linesO ++ [])).toBool = false ∧
    (groRead stdParsers (groPre titleO (s2b' "    3") linesO ++ s2b' "   1.00000   2.00000   3.00000\n")).toBool
      = true := by
  refine ⟨by decide +kernel, by decide +kernel, by decide +kernel⟩

private def recO : Rec := ⟨5, [82], [65], 7, ⟨false, 1, -3⟩, ⟨true, 1, -1⟩, ⟨false, 3, 0⟩, none⟩

/-- the hypotheses of `overcount_session_rejected` are satisfiable: `natoms = 1` declared, two records written -/
example : ∃ (setters : List Op) (r0 : Rec) (rest : List Rec) (s : WState) (n : Nat),
    (∀ op ∈ setters, IsSetter op) ∧ s = (run WState.init setters).1 ∧ s.effFormat = (8, 3) ∧
    TitleOk s.effComment ∧ (∀ r ∈ r0 :: rest, RecOk 8 3 false r) ∧ s.natoms = some (n : Int) ∧
    n < (r0 :: rest).length ∧ stdParsers.pyInt (intBody (n : Int) ++ [nl]) = .ok (n : Int) ∧
    ∀ box, extractLattice stdParsers.pyFloat (lineOf 8 3 ((r0 :: rest)[n]!) ++ [nl]) ≠ .ok box := by
  have hok : RecOk 8 3 false recO := by
    constructor
    · exact ⟨by decide, by decide, by decide⟩
    · exact ⟨by decide, by decide, by decide⟩
    all_goals
      simp [recO, VelOk, fitsFixed, fixedBody, scaledRound, roundHalfEvenDiv, natDigits, digitChar, padZeros]
  have hbad : ∀ v, stdParsers.pyFloat (s2b' "5R") ≠ .ok v := by
    intro v hv
    have e : stdParsers.pyFloat (s2b' "5R") = .error .valueError := rfl
    rw [e] at hv
    cases hv
  refine ⟨[.setNatoms 1], recO, [recO], _, 1, ?_, rfl, rfl, ?_, ?_, rfl, by decide, ?_, ?_⟩
  · intro op h
    simp only [List.mem_cons, List.not_mem_nil, or_false] at h
    subst h; simp [IsSetter]
  · show nl ∉ _; decide
  · intro r h
    simp only [List.mem_cons, List.not_mem_nil, or_false, or_self] at h
    subst h; exact hok
  · exact pyInt_countFinal (run WState.init [.setNatoms 1]).1 1 (by show ((1 : Int) = ((1 : Nat) : Int)); rfl)
  · exact not_a_box_of_token _ _ (s2b' "5R") (by decide +kernel) hbad

end examples

end C14
