import GMProofs.Lemmas.Chi2L
/-
  C08 — the overlap measure (chi2) equals its reference definition for all restraint sets.

  Model: `GMModel.Chi2` (`Chi2Calculator.__init__` with its path selection and cached arrays, and
  the three `__call__` paths) instantiated at ℝ.  Reference definition: `Chi2L.chi2Spec`
  (`restrSum + nearSum`, times `1.1 ^ farCount`; `dmin` = minimum of a row of squared distances,
  `nearestIdx` = first position of that minimum).
  Only property theorems and their non-vacuity examples live here.
-/
open Chi2 Chi2L

namespace C08

/-- **the code equals the definition** — for ALL coordinate lists (no size bound), every in-range
    restraint list (duplicates allowed), a calculator built on `mobile0` and evaluated on any
    configuration `mobile` of the same length: construction succeeds and the call returns
    `chi2Spec fixed mobile restr`, whichever of the three paths was selected. -/
theorem chi2_eq_spec (fixed mobile0 mobile : List (V3 ℝ)) (restr : List (Nat × Nat))
    (hlen : mobile.length = mobile0.length) (hne : mobile ≠ [])
    (hr : InRange fixed.length mobile.length restr) :
    ∃ c, Calc.new fixed mobile0 restr = .ok c ∧ c.call mobile = .ok (chi2Spec fixed mobile restr) := by
  have h1 : ∀ p ∈ restr, p.1 < fixed.length := fun p hp => (hr p hp).1
  have h2 : ∀ p ∈ restr, p.2 < mobile.length := fun p hp => (hr p hp).2
  by_cases hrn : restr = []
  · subst hrn
    exact ⟨_, new_nil fixed mobile0, call_plain fixed mobile hne⟩
  · refine ⟨_, new_cons fixed mobile0 restr hrn h1, ?_⟩
    by_cases hu : (unrestrained fixed restr).isEmpty = true
    · rw [if_pos hu, ← hlen]
      exact call_onlyRestr fixed mobile restr hne h2 (List.isEmpty_iff.mp hu)
    · rw [if_neg hu, ← hlen]
      exact call_withRestr fixed mobile restr hne h2

/-- the ingredients of the reference definition mean what the property says: `dmin f mobile` is
    a lower bound of all squared distances from `f` and is attained at `nearestIdx f mobile`, which
    is the FIRST index attaining it (every earlier atom is strictly farther) -/
theorem chi2_spec_nearest (f : V3 ℝ) (mobile : List (V3 ℝ)) (hne : mobile ≠ []) :
    (∀ m ∈ mobile, dmin f mobile ≤ sqdist f m) ∧
    nearestIdx f mobile < mobile.length ∧
    sqdist f (mobile.getD (nearestIdx f mobile) V3.zero) = dmin f mobile ∧
    (∀ k, k < nearestIdx f mobile → dmin f mobile < sqdist f (mobile.getD k V3.zero)) := by
  refine ⟨?_, nearestIdx_lt f hne, nearest_get f hne, ?_⟩
  · intro m hm
    exact rowMinVal_le (List.mem_map.mpr ⟨m, hm, rfl⟩)
  · intro k hk
    have hkl : k < mobile.length := lt_trans hk (nearestIdx_lt f hne)
    have hk' : k < (mobile.map (sqdist f)).length := by simpa using hkl
    have := lt_of_lt_rowArgmin (row := mobile.map (sqdist f)) hk hk'
    rw [List.getElem_map] at this
    rw [List.getD_eq_getElem?_getD, List.getElem?_eq_getElem hkl]
    exact this

/-- which of the three code paths the constructor selects: no restraints → `chi2_molecules` (0);
    every fixed atom restrained → `_chi2_molecules_only_restrains` (2); otherwise
    `_chi2_molecules_with_restrains` (1).  Together with `chi2_eq_spec` (whose statement does not
    depend on the path) this is "the value is the same however many atoms are restrained". -/
theorem chi2_path_selection (fixed mobile0 : List (V3 ℝ)) (restr : List (Nat × Nat))
    (h1 : ∀ p ∈ restr, p.1 < fixed.length) :
    ∃ c, Calc.new fixed mobile0 restr = .ok c ∧
      c.pathId = if restr = [] then 0
        else if ∀ i, i < fixed.length → i ∈ restr.map Prod.fst then 2 else 1 := by
  by_cases hrn : restr = []
  · subst hrn; exact ⟨_, new_nil fixed mobile0, rfl⟩
  · refine ⟨_, new_cons fixed mobile0 restr hrn h1, ?_⟩
    rw [if_neg hrn]
    have hiff : (unrestrained fixed restr).isEmpty = true ↔
        ∀ i, i < fixed.length → i ∈ restr.map Prod.fst := by
      rw [unrestrained_eq_range, List.isEmpty_iff, List.map_eq_nil_iff, List.filter_eq_nil_iff]
      simp only [List.mem_range, Bool.not_eq_eq_eq_not, Bool.not_true, Bool.not_eq_false,
        List.contains_iff_mem]
    by_cases hu : (unrestrained fixed restr).isEmpty = true
    · rw [if_pos hu, if_pos (hiff.mp hu)]; rfl
    · rw [if_neg hu, if_neg (fun h => hu (hiff.mpr h))]; rfl

/-- corollary, no restraints: the value is `Σ_f min_j |f − m_j|²` times `1.1^k`, `k` = number of
    mobile atoms that are nearest to no fixed atom -/
theorem chi2_paths_agree_none (fixed mobile0 mobile : List (V3 ℝ))
    (hlen : mobile.length = mobile0.length) (hne : mobile ≠ []) :
    ∃ c, Calc.new fixed mobile0 [] = .ok c ∧ c.pathId = 0 ∧
      c.call mobile = .ok ((fixed.map (fun f => dmin f mobile)).sum *
        (11 / 10 : ℝ) ^ ((List.range mobile.length).filter
          (fun j => !(fixed.map (fun f => nearestIdx f mobile)).contains j)).length) := by
  obtain ⟨c, hc, hv⟩ := chi2_eq_spec fixed mobile0 mobile [] hlen hne (by intro p hp; cases hp)
  refine ⟨c, hc, ?_, ?_⟩
  · rw [new_nil] at hc; cases hc; rfl
  · rw [hv]
    simp [chi2Spec, restrSum, nearSum, farCount, unrestrained_nil]

/-- corollary, every fixed atom restrained: the value is the restraint sum times `1.1^k`,
    `k` = number of mobile atoms that occur in no pair -/
theorem chi2_paths_agree_all (fixed mobile0 mobile : List (V3 ℝ)) (restr : List (Nat × Nat))
    (hlen : mobile.length = mobile0.length) (hne : mobile ≠ [])
    (hr : InRange fixed.length mobile.length restr)
    (hall : ∀ i, i < fixed.length → i ∈ restr.map Prod.fst) :
    ∃ c, Calc.new fixed mobile0 restr = .ok c ∧
      c.call mobile = .ok (restrSum fixed mobile restr *
        (11 / 10 : ℝ) ^ ((List.range mobile.length).filter
          (fun j => !(restr.map Prod.snd).contains j)).length) := by
  obtain ⟨c, hc, hv⟩ := chi2_eq_spec fixed mobile0 mobile restr hlen hne hr
  refine ⟨c, hc, ?_⟩
  have hu : unrestrained fixed restr = [] := by
    rw [unrestrained_eq_range, List.map_eq_nil_iff, List.filter_eq_nil_iff]
    intro i hi
    have := hall i (List.mem_range.mp hi)
    simp [this]
  rw [hv]
  simp [chi2Spec, nearSum, farCount, hu]

/-- the value is non-negative -/
theorem chi2_nonneg (fixed mobile0 mobile : List (V3 ℝ)) (restr : List (Nat × Nat))
    (hlen : mobile.length = mobile0.length) (hne : mobile ≠ [])
    (hr : InRange fixed.length mobile.length restr) (c : Calc ℝ) (v : ℝ)
    (hc : Calc.new fixed mobile0 restr = .ok c) (hv : c.call mobile = .ok v) : 0 ≤ v := by
  obtain ⟨c', hc', hv'⟩ := chi2_eq_spec fixed mobile0 mobile restr hlen hne hr
  rw [hc] at hc'; cases hc'
  rw [hv] at hv'; cases hv'
  exact chi2Spec_nonneg _ _ _

/-- invariance under a common rigid motion `x ↦ R x + t`, `R Rᵀ = 1`, of both coordinate sets
    (exact: every squared distance, hence every `min` and every first-`argmin`, is unchanged) -/
theorem chi2_rigid_invariant (R : M3 ℝ) (t : V3 ℝ) (hR : M3.mul R (M3.transpose R) = M3.eye)
    (fixed mobile0 mobile : List (V3 ℝ)) (restr : List (Nat × Nat))
    (hlen : mobile.length = mobile0.length) (hne : mobile ≠ [])
    (hr : InRange fixed.length mobile.length restr) :
    ∃ c c' v, Calc.new fixed mobile0 restr = .ok c ∧ c.call mobile = .ok v ∧
      Calc.new (fixed.map (rigid R t)) (mobile0.map (rigid R t)) restr = .ok c' ∧
      c'.call (mobile.map (rigid R t)) = .ok v := by
  obtain ⟨c, hc, hv⟩ := chi2_eq_spec fixed mobile0 mobile restr hlen hne hr
  obtain ⟨c', hc', hv'⟩ := chi2_eq_spec (fixed.map (rigid R t)) (mobile0.map (rigid R t))
    (mobile.map (rigid R t)) restr (by simp [hlen])
    (fun e => hne (List.map_eq_nil_iff.mp e)) (by simpa [InRange] using hr)
  refine ⟨c, c', _, hc, hv, hc', ?_⟩
  rw [hv', chi2Spec_isometry (fun a b => sqdist_rigid hR t a b) fixed mobile restr hr]

/-- invariance under relabelling the fixed atoms together with the restraint indices
    (`σ` any permutation of the fixed labels, `τ` its inverse): exact, ties or not -/
theorem chi2_relabel_fixed (σ τ : Nat → Nat) (fixed mobile0 mobile : List (V3 ℝ))
    (restr : List (Nat × Nat)) (hσ : IsPerm fixed.length σ τ)
    (hlen : mobile.length = mobile0.length) (hne : mobile ≠ [])
    (hr : InRange fixed.length mobile.length restr) :
    ∃ c c' v, Calc.new fixed mobile0 restr = .ok c ∧ c.call mobile = .ok v ∧
      Calc.new (relabel τ fixed) mobile0 (restr.map (fun p => (σ p.1, p.2))) = .ok c' ∧
      c'.call mobile = .ok v := by
  obtain ⟨c, hc, hv⟩ := chi2_eq_spec fixed mobile0 mobile restr hlen hne hr
  have hr' : InRange (relabel τ fixed).length mobile.length (restr.map (fun p => (σ p.1, p.2))) := by
    intro q hq
    obtain ⟨p, hp, rfl⟩ := List.mem_map.mp hq
    rw [relabel_length]
    exact ⟨hσ.σ_lt _ (hr p hp).1, (hr p hp).2⟩
  obtain ⟨c', hc', hv'⟩ := chi2_eq_spec (relabel τ fixed) mobile0 mobile _ hlen hne hr'
  refine ⟨c, c', _, hc, hv, hc', ?_⟩
  rw [hv', chi2Spec_relabel_fixed fixed mobile restr hσ (fun p hp => (hr p hp).1)]

/-- invariance under relabelling the mobile atoms together with the restraint indices, provided
    every unrestrained fixed atom has a UNIQUE nearest mobile atom (`NoTies`).  The hypothesis is
    forced: see `chi2_tie_dependence`. -/
theorem chi2_relabel_mobile (σ τ : Nat → Nat) (fixed mobile0 mobile : List (V3 ℝ))
    (restr : List (Nat × Nat)) (hσ : IsPerm mobile.length σ τ)
    (hlen : mobile.length = mobile0.length) (hne : mobile ≠ [])
    (hr : InRange fixed.length mobile.length restr)
    (hnt : ∀ f ∈ unrestrained fixed restr, NoTies f mobile) :
    ∃ c c' v, Calc.new fixed mobile0 restr = .ok c ∧ c.call mobile = .ok v ∧
      Calc.new fixed (relabel τ mobile0) (restr.map (fun p => (p.1, σ p.2))) = .ok c' ∧
      c'.call (relabel τ mobile) = .ok v := by
  obtain ⟨c, hc, hv⟩ := chi2_eq_spec fixed mobile0 mobile restr hlen hne hr
  have hne' : relabel τ mobile ≠ [] := by
    intro e; apply hne
    have := congrArg List.length e
    rw [relabel_length] at this
    exact List.length_eq_zero_iff.mp this
  have hr' : InRange fixed.length (relabel τ mobile).length (restr.map (fun p => (p.1, σ p.2))) := by
    intro q hq
    obtain ⟨p, hp, rfl⟩ := List.mem_map.mp hq
    rw [relabel_length]
    exact ⟨(hr p hp).1, hσ.σ_lt _ (hr p hp).2⟩
  obtain ⟨c', hc', hv'⟩ := chi2_eq_spec fixed (relabel τ mobile0) (relabel τ mobile) _
    (by rw [relabel_length, relabel_length, hlen]) hne' hr'
  refine ⟨c, c', _, hc, hv, hc', ?_⟩
  rw [hv', chi2Spec_relabel_mobile fixed mobile restr hne hσ (fun p hp => (hr p hp).2) hnt]

/-- out-of-range restraint indices and an empty evaluation configuration are errors of the model
    (numpy: IndexError / ValueError), never defaults -/
theorem chi2_errors (fixed mobile0 : List (V3 ℝ)) (restr : List (Nat × Nat)) :
    ((∃ p ∈ restr, fixed.length ≤ p.1) → Calc.new fixed mobile0 restr = .error .indexError) ∧
    ((Calc.plain fixed).call [] = .error .valueError) := by
  constructor
  · rintro ⟨p, hp, hle⟩
    have hne : restr.isEmpty = false := by
      cases restr with
      | nil => cases hp
      | cons _ _ => rfl
    have hany : (restr.map Prod.fst).any (fun i => decide (fixed.length ≤ i)) = true := by
      rw [List.any_eq_true]
      exact ⟨p.1, List.mem_map.mpr ⟨p, hp, rfl⟩, by simpa using hle⟩
    unfold Calc.new
    simp only [hne, Bool.false_eq_true, if_false, hany, if_true]
  · rfl

/-- **why `NoTies` is needed** (a computed example): the fixed atom `(0,0,0)` is equidistant from
    the mobile atoms `(1,0,0)` and `(−1,0,0)`; `(2,0,0)` is nearest to `(1,0,0)`.  With the mobile
    atoms in the order `[(1,0,0), (−1,0,0)]` both fixed atoms pick index 0, one mobile atom is
    "far" and the value is `2 · 1.1`; with the two labels swapped it is `2`. -/
theorem chi2_tie_dependence :
    chi2Spec [⟨0, 0, 0⟩, ⟨2, 0, 0⟩] [⟨1, 0, 0⟩, ⟨-1, 0, 0⟩] [] = 11 / 5 ∧
    chi2Spec [⟨0, 0, 0⟩, ⟨2, 0, 0⟩] [⟨-1, 0, 0⟩, ⟨1, 0, 0⟩] [] = 2 := by
  have r1 : rowMinVal [1, 1] = 1 := by simp [rowMinVal]
  have r2 : rowMinVal [1, 9] = 1 := by norm_num [rowMinVal]
  have r3 : rowMinVal [9, 1] = 1 := by norm_num [rowMinVal]
  constructor <;>
  · simp only [chi2Spec, restrSum, nearSum, farCount, unrestrained_nil, dmin, nearestIdx, rowArgmin,
      sqdist, gm, List.map_cons, List.map_nil, List.sum_cons, List.sum_nil, List.length_cons,
      List.length_nil]
    norm_num [r1, r2, r3, List.findIdx_cons, List.range_succ, List.filter_cons]

/-! ### non-vacuity -/

/-- the swap of two labels -/
private def swap2 (i : Nat) : Nat := if i = 0 then 1 else 0

/-- a permutation with its inverse, and what `relabel` does with it (the two mobile
    configurations of `chi2_tie_dependence` are relabellings of each other) -/
example : IsPerm 2 swap2 swap2 ∧
    relabel swap2 [⟨1, 0, 0⟩, ⟨-1, 0, 0⟩] = [⟨-1, 0, 0⟩, ⟨1, 0, 0⟩] := by
  constructor
  · constructor <;> intro i hi <;> (have : i = 0 ∨ i = 1 := by omega) <;>
      rcases this with rfl | rfl <;> decide
  · simp [relabel, swap2, List.range_succ]

/-- a tie-free row -/
example : NoTies ⟨0, 0, 0⟩ [⟨1, 0, 0⟩, ⟨3, 0, 0⟩] := by
  have r : rowMinVal [1, 9] = 1 := by norm_num [rowMinVal]
  intro j1 j2 h1 h2
  have a1 : j1 = 0 ∨ j1 = 1 := by simp at h1; omega
  have a2 : j2 = 0 ∨ j2 = 1 := by simp at h2; omega
  rcases a1 with rfl | rfl <;> rcases a2 with rfl | rfl <;>
    simp only [dmin, sqdist, gm, List.map_cons, List.map_nil, List.getD_cons_zero, List.getD_cons_succ] <;>
    norm_num [r]

/-- a rotation by 90° about z satisfies `R Rᵀ = 1` -/
example : M3.mul (⟨⟨0, -1, 0⟩, ⟨1, 0, 0⟩, ⟨0, 0, 1⟩⟩ : M3 ℝ)
    (M3.transpose ⟨⟨0, -1, 0⟩, ⟨1, 0, 0⟩, ⟨0, 0, 1⟩⟩) = M3.eye := by
  simp only [gm, M3.mk.injEq, V3.mk.injEq]; norm_num

/-- an in-range restraint list with a duplicated fixed atom, a duplicated mobile atom and a
    repeated pair -/
example : InRange 3 2 [(0, 1), (0, 0), (2, 1), (0, 1)] := by
  intro p hp; simp at hp; rcases hp with rfl | rfl | rfl | rfl <;> simp

end C08
