import GMProofs.Lemmas.HeapView
import GMProofs.Lemmas.HeapGeom
/-
  C18 — Copies are isolated, views write through, rigid operations preserve shape.

  Model: `GMModel.Heap` / `GMModel.HeapOps` (object heap; `stepOn` = one API call on a handle,
  `run` = an operation list on an environment of handles, pushing every object it creates).
  `x.groSide h` = the cells holding every coordinate, velocity, atom number, gro residue number and
  gro label of `x`; `x.topSide h` = its topology cells (names, residue labels).
  Only property theorems and their non-vacuity examples live here.
-/
open GMHeap

namespace C18

section isolation
variable {α : Type} [Scalar α]

/-- SEPARATION INVARIANT (the induction over operation lists).  `S`: any set of existing cells.
    If no live object of the environment can write into `S`, then after ANY operation list — any
    mixture of copy, deep_copy, hand-outs, views, move, move_to, rotate, set positions / velocities /
    ids / resids / resnames, attribute assignment, applied to the environment and to everything the
    list itself creates — every cell of `S` is literally unchanged. -/
theorem separation_invariant (S : Nat → Prop) (ops : List (Op α)) (h : Heap α) (env : List Obj)
    (hS : ∀ a, S a → a < h.size) (hfree : ∀ o ∈ env, o.Valid h ∧ ∀ a ∈ o.cells h, ¬ S a) :
    ∀ a, S a → (run h env ops).1.get? a = h.get? a :=
  (run_preserves S ops h env hS hfree).1

/-- `c := x.copy()` for a Molecule (`Alignment.start/end` store exactly this): whatever is then done
    to the copy — and to copies, views, residues derived from it — no gro-side cell of the original
    changes; and vice versa. -/
theorem copy_separated (h h1 : Heap α) (m c : Nat)
    (hc : stepOn h (.mol m) (.copy 0) = ⟨h1, some (.mol c), none⟩) (ops : List (Op α)) :
    (∀ a ∈ (Obj.mol m).groSide h, (run h1 [.mol c] ops).1.get? a = h.get? a) ∧
    (∀ a ∈ (Obj.mol c).groSide h1, (run h1 [.mol m] ops).1.get? a = h1.get? a) :=
  (copied_mol hc).separated ops

/-- … in terms of what can be observed: every AtomGro record of the original (residue number,
    residue name, atom name, atom number, position, velocity) reads the same afterwards -/
theorem copy_separated_observables (h h1 : Heap α) (m c : Nat)
    (hc : stepOn h (.mol m) (.copy 0) = ⟨h1, some (.mol c), none⟩) (ops : List (Op α))
    (v : MolView) (hv : molView h m = some v) :
    readGros (run h1 [.mol c] ops).1 v.gros = readGros h v.gros := by
  apply readGros_congr
  intro g hg
  have := (copy_separated h h1 m c hc ops).1 g (by
    simp only [Obj.groSide, hv, List.mem_cons, List.mem_append]; exact Or.inr (Or.inr hg))
  unfold Heap.gro?
  rw [this]

theorem copy_separated_residue (h h1 : Heap α) (r c : Nat)
    (hc : stepOn h (.res r) (.copy 0) = ⟨h1, some (.res c), none⟩) (ops : List (Op α)) :
    (∀ a ∈ (Obj.res r).groSide h, (run h1 [.res c] ops).1.get? a = h.get? a) ∧
    (∀ a ∈ (Obj.res c).groSide h1, (run h1 [.res r] ops).1.get? a = h1.get? a) :=
  (copied_res hc).separated ops

theorem copy_separated_atomgro (h h1 : Heap α) (g c : Nat)
    (hc : stepOn h (.agro g) (.copy 0) = ⟨h1, some (.agro c), none⟩) (ops : List (Op α)) :
    (∀ a ∈ (Obj.agro g).groSide h, (run h1 [.agro c] ops).1.get? a = h.get? a) ∧
    (∀ a ∈ (Obj.agro c).groSide h1, (run h1 [.agro g] ops).1.get? a = h1.get? a) :=
  (copied_agro hc).separated ops

/-- `Atom.copy()` shares the AtomTop and copies the AtomGro -/
theorem copy_separated_atom (h h1 : Heap α) (t g t' c : Nat)
    (hc : stepOn h (.atom t g) (.copy 0) = ⟨h1, some (.atom t' c), none⟩) (ops : List (Op α)) :
    (∀ a ∈ (Obj.atom t g).groSide h, (run h1 [.atom t' c] ops).1.get? a = h.get? a) ∧
    (∀ a ∈ (Obj.atom t' c).groSide h1, (run h1 [.atom t g] ops).1.get? a = h1.get? a) :=
  (copied_atom hc).separated ops

/-- a molecule handed out by a System (`base.copy(residues read from the file)`) is gro-isolated
    from the system's stored molecule, and vice versa -/
theorem handout_separated (h h1 : Heap α) (m c : Nat) (data : List (List (AtomGroC α)))
    (hwf : ∃ v, MolOld h m v)
    (hc : stepOn h (.mol m) (.molWith 0 data) = ⟨h1, some (.mol c), none⟩) (ops : List (Op α)) :
    (∀ a ∈ (Obj.mol m).groSide h, (run h1 [.mol c] ops).1.get? a = h.get? a) ∧
    (∀ a ∈ (Obj.mol c).groSide h1, (run h1 [.mol m] ops).1.get? a = h1.get? a) :=
  (copied_handout hwf hc).separated ops

/-- `c := x.deep_copy()`: additionally the topology side (names, residue labels, topology residue
    numbers) of each is untouched by anything done to the other -/
theorem deep_copy_separated (h h1 : Heap α) (m c : Nat) (hwf : ∃ v, MolOld h m v)
    (hc : stepOn h (.mol m) (.deepCopy 0) = ⟨h1, some (.mol c), none⟩) (ops : List (Op α)) :
    (∀ a ∈ (Obj.mol m).groSide h ++ (Obj.mol m).topSide h, (run h1 [.mol c] ops).1.get? a = h.get? a) ∧
    (∀ a ∈ (Obj.mol c).groSide h1 ++ (Obj.mol c).topSide h1,
      (run h1 [.mol m] ops).1.get? a = h1.get? a) :=
  (deepCopied_mol hwf hc).separated ops

/-- every molecule the model constructs is well formed in the sense the theorems above ask for, and
    stays so under every operation list -/
theorem constructed_wellformed (h h1 : Heap α) (o : Obj) (op : Op α) (c : Nat)
    (hop : (∃ i, op = .copy i) ∨ (∃ i, op = .deepCopy i) ∨ (∃ i d, op = .molWith i d))
    (hc : stepOn h o op = ⟨h1, some (.mol c), none⟩) :
    (∃ v, MolOld h1 c v) ∧ ∃ v cs, MolWF h1 c v cs := by
  rcases hop with ⟨i, rfl⟩ | ⟨i, rfl⟩ | ⟨i, d, rfl⟩
  · cases o with
    | mol m =>
      simp only [stepOn] at hc
      cases e1 : h.mol? m with
      | none => simp [e1] at hc
      | some p =>
        obtain ⟨t, rs, e⟩ := p
        simp only [e1] at hc
        cases e2 : molInit h t rs with
        | error er => simp [e2, allocOk] at hc
        | ok q =>
          obtain ⟨hh, a⟩ := q
          simp only [e2, allocOk, StepR.mk.injEq, Option.some.injEq, Obj.mol.injEq, and_true] at hc
          obtain ⟨rfl, rfl⟩ := hc
          exact ⟨(molInit_spec e2).molOld, by
            obtain ⟨v, cs, w, _⟩ := (molInit_spec e2).wf; exact ⟨v, cs, w⟩⟩
    | res r =>
      simp only [stepOn] at hc
      cases e2 : copyResidue h r with
      | error er => simp [e2, allocOk] at hc
      | ok q => simp [e2, allocOk] at hc
    | agro g =>
      simp only [stepOn] at hc
      cases e1 : h.gro? g with
      | none => simp [e1] at hc
      | some cell => simp [e1] at hc
    | atom t g =>
      simp only [stepOn] at hc
      cases e1 : h.gro? g with
      | none => simp [e1] at hc
      | some cell =>
        simp only [e1] at hc
        split at hc <;> simp at hc
  · cases o with
    | mol m =>
      simp only [stepOn] at hc
      cases e1 : h.mol? m with
      | none => simp [e1] at hc
      | some p =>
        obtain ⟨t, rs, e⟩ := p
        simp only [e1] at hc
        cases e0 : copyTop h t with
        | error er => simp [e0] at hc
        | ok q0 =>
          obtain ⟨h0, t'⟩ := q0
          simp only [e0] at hc
          cases e2 : molInit h0 t' rs with
          | error er => simp [e2, allocOk] at hc
          | ok q =>
            obtain ⟨hh, a⟩ := q
            simp only [e2, allocOk, StepR.mk.injEq, Option.some.injEq, Obj.mol.injEq, and_true] at hc
            obtain ⟨rfl, rfl⟩ := hc
            exact ⟨(molInit_spec e2).molOld, by
            obtain ⟨v, cs, w, _⟩ := (molInit_spec e2).wf; exact ⟨v, cs, w⟩⟩
    | res r => simp [stepOn] at hc
    | agro g => simp [stepOn] at hc
    | atom t g => simp [stepOn] at hc
  · cases o with
    | mol m =>
      simp only [stepOn] at hc
      cases e1 : h.mol? m with
      | none => simp [e1] at hc
      | some p =>
        obtain ⟨t, rs, e⟩ := p
        simp only [e1] at hc
        cases e0 : allocResidues h d with
        | error er => simp [e0] at hc
        | ok q0 =>
          obtain ⟨h0, rs'⟩ := q0
          simp only [e0] at hc
          cases e2 : molInit h0 t rs' with
          | error er => simp [e2, allocOk] at hc
          | ok q =>
            obtain ⟨hh, a⟩ := q
            simp only [e2, allocOk, StepR.mk.injEq, Option.some.injEq, Obj.mol.injEq, and_true] at hc
            obtain ⟨rfl, rfl⟩ := hc
            exact ⟨(molInit_spec e2).molOld, by
            obtain ⟨v, cs, w, _⟩ := (molInit_spec e2).wf; exact ⟨v, cs, w⟩⟩
    | res r => simp [stepOn] at hc
    | agro g => simp [stepOn] at hc
    | atom t g => simp [stepOn] at hc

theorem wellformed_stable (h : Heap α) (env : List Obj) (ops : List (Op α)) (m : Nat) (v : MolView)
    (hwf : MolOld h m v) (hlive : ∀ o ∈ env, o.Valid h) : MolOld (run h env ops).1 m v := by
  -- with the empty protected set the invariant yields a frame for every step; we only need that
  -- each step is a frame, which `run_preserves`' proof provides step by step:
  induction ops generalizing h env with
  | nil => exact hwf
  | cons op ops ih =>
    simp only [run]
    have sp := step_preserves (fun _ => False) h env op (fun _ w => w.elim)
      (fun o ho => ⟨hlive o ho, fun _ _ w => w⟩)
    have fr : ∃ W, Frame Rel.any W h (step h env op).heap := by
      cases op with
      | newMol name tops residues => exact ⟨_, (newMol_spec h name tops residues).1⟩
      | _ =>
        simp only [step, Op.target]
        split
        · exact ⟨NoW, Frame.refl _ _ _⟩
        · rename_i o e
          exact ⟨_, (stepOn_spec h o _ (hlive o (List.mem_of_getElem? e))).1⟩
    obtain ⟨W, fr⟩ := fr
    exact ih _ _ (hwf.frame fr) (fun o ho => (sp.2.1 o ho).1)

/-- DOCUMENTED DESIGN, stated so that the model is honest about it: a shallow copy shares the
    topology.  After `c := x.copy()`, the label assignment `c.resnames = s` (when it does not raise)
    renames every topology atom OF THE ORIGINAL `x` — while, by `copy_separated`, no gro-side cell of
    `x` changes.  (The property claims isolation of names and residue labels for deep copies only.) -/
theorem shallow_shares_top (h h1 : Heap α) (m c : Nat)
    (hc : stepOn h (.mol m) (.copy 0) = ⟨h1, some (.mol c), none⟩) (s : String)
    (hok : (setResnamesStr h1 (.mol c) s).2 = none) (v : MolView) (hv : molView h m = some v) :
    ∀ t ∈ v.tops, ∃ tc, (setResnamesStr h1 (.mol c) s).1.top? t = some tc ∧ tc.resname = s := by
  simp only [stepOn] at hc
  obtain ⟨_, _, e1, e0⟩ := molView_gros hv
  simp only [e1] at hc
  cases e2 : molInit h v.top v.residues with
  | error er => simp [e2, allocOk] at hc
  | ok q =>
    obtain ⟨hh, a⟩ := q
    simp only [e2, allocOk, StepR.mk.injEq, Option.some.injEq, Obj.mol.injEq, and_true] at hc
    obtain ⟨rfl, rfl⟩ := hc
    have n := molInit_spec e2
    obtain ⟨v', cs, w, ht⟩ := n.wf
    obtain ⟨v'', o⟩ := n.molOld
    have : v'' = v' := by
      have := o.view; rw [w.view] at this; injection this with this; exact this.symm
    subst this
    have htops : v''.tops = v.tops := by
      have a1 := (molView_gros w.view).2.2.2
      rw [ht, (n.frame Rel.any).mtop? e0] at a1
      injection a1 with a1
      injection a1 with _ a1
      exact a1.symm
    intro t hmem
    exact setResnamesStr_tops w o.tops s hok t (htops ▸ hmem)

/-- VIEWS WRITE THROUGH.  For a well-formed molecule, the `Atom` obtained by `mol[k]` or as the k-th
    item of iteration is the live pair (k-th topology atom, k-th coordinate atom); assigning any
    coordinate-side attribute through it (position, velocity, atom number, gro residue number,
    residue name, name) rewrites exactly the k-th AtomGro record of the molecule … -/
theorem view_writes_through (h h' : Heap α) (m k t g : Nat) (v : MolView) (cs : List (AtomGroC α))
    (w : MolWF h m v cs)
    (hget : stepOn h (.mol m) (.getAtom 0 k) = ⟨h', some (.atom t g), none⟩ ∨
            stepOn h (.mol m) (.iterAtom 0 k) = ⟨h', some (.atom t g), none⟩)
    (a : AttrVal α) (f : AtomGroC α → AtomGroC α) (hf : a.fg = some f) :
    h' = h ∧ v.tops[k]? = some t ∧ v.gros[k]? = some g ∧
    ∃ c, cs[k]? = some c ∧ MolWF (setAttr h (.atom t g) a).1 m v (cs.set k (f c)) := by
  have hview : h' = h ∧ v.tops[k]? = some t ∧ v.gros[k]? = some g := by
    rcases hget with hget | hget
    · exact getAtom_view w hget
    · exact iterAtom_view w hget
  exact ⟨hview.1, hview.2.1, hview.2.2, setAttr_view w hview.2.2 a f hf⟩

/-- … in particular `mol[k].position = p` makes `mol.atoms_positions[k] = p` and leaves the others -/
theorem view_position_writes_through (h h' : Heap α) (m k t g : Nat) (v : MolView)
    (cs : List (AtomGroC α)) (w : MolWF h m v cs)
    (hget : stepOn h (.mol m) (.getAtom 0 k) = ⟨h', some (.atom t g), none⟩ ∨
            stepOn h (.mol m) (.iterAtom 0 k) = ⟨h', some (.atom t g), none⟩) (p : V3 α) :
    positionsOf h (.mol m) = .ok (cs.map (·.pos)) ∧ k < cs.length ∧
    positionsOf (setAttr h (.atom t g) (.pos p)).1 (.mol m) = .ok ((cs.map (·.pos)).set k p) := by
  obtain ⟨_, _, _, c, hck, w'⟩ :=
    view_writes_through h h' m k t g v cs w hget (.pos p) (fun g => { g with pos := p }) rfl
  have r0 := w.pairs
  have r1 := w'.pairs
  refine ⟨positionsOf_of_readGros r0.hpairs r0.hcells, (List.getElem?_eq_some_iff.mp hck).1, ?_⟩
  rw [positionsOf_of_readGros r1.hpairs r1.hcells, List.map_set]

/-- `MolWF` (hypothesis of the view theorems) is stable too, up to the cell contents -/
theorem molWF_stable (h : Heap α) (env : List Obj) (ops : List (Op α)) (m : Nat) (v : MolView)
    (cs : List (AtomGroC α)) (w : MolWF h m v cs) (hlive : ∀ o ∈ env, o.Valid h) :
    ∃ cs', MolWF (run h env ops).1 m v cs' := by
  induction ops generalizing h env cs with
  | nil => exact ⟨cs, w⟩
  | cons op ops ih =>
    simp only [run]
    have sp := step_preserves (fun _ => False) h env op (fun _ w => w.elim)
      (fun o ho => ⟨hlive o ho, fun _ _ w => w⟩)
    have fr : ∃ W, Frame Rel.any W h (step h env op).heap := by
      cases op with
      | newMol name tops residues => exact ⟨_, (newMol_spec h name tops residues).1⟩
      | _ =>
        simp only [step, Op.target]
        split
        · exact ⟨NoW, Frame.refl _ _ _⟩
        · rename_i o e
          exact ⟨_, (stepOn_spec h o _ (hlive o (List.mem_of_getElem? e))).1⟩
    obtain ⟨W, fr⟩ := fr
    have hcells : ∃ cs1, readGros (step h env op).heap v.gros = some cs1 := by
      have hall : ∀ g ∈ v.gros, ∃ c, (step h env op).heap.gro? g = some c := by
        intro g hg
        obtain ⟨c, hc⟩ := readGros_mem w.cells g hg
        obtain ⟨c', hc', _⟩ := fr.gro?_isSome hc
        exact ⟨c', hc'⟩
      clear w
      generalize v.gros = gl at hall
      induction gl with
      | nil => exact ⟨[], rfl⟩
      | cons g gs ihg =>
        obtain ⟨c, hc⟩ := hall g (List.mem_cons_self ..)
        obtain ⟨cs1, hcs1⟩ := ihg (fun x hx => hall x (List.mem_cons_of_mem _ hx))
        exact ⟨c :: cs1, by simp [readGros, hc, hcs1]⟩
    obtain ⟨cs1, hcs1⟩ := hcells
    exact ih _ _ cs1 ⟨fr.molView w.view, w.each, w.len, w.nodup, hcs1⟩ (fun o ho => (sp.2.1 o ho).1)

end isolation

/-! ### rigid operations (real arithmetic) -/

section rigid

/-- hypotheses shared by the rigid-operation theorems: the target (a Molecule or a Residue) has
    readable, pairwise distinct atoms `cs` (true of every object the constructors build:
    `MolWF.pairs`), at least one of them -/
structure Body (h : Heap ℝ) (o : Obj) (cs : List (AtomGroC ℝ)) : Prop where
  readable : ∃ pairs c, Readable h o pairs c cs
  nonempty : cs ≠ []

/-- TRANSLATION: every atom moves by exactly `d`; hence all interatomic distances are preserved -/
theorem move_isometry (h : Heap ℝ) (o : Obj) (cs : List (AtomGroC ℝ)) (b : Body h o cs) (d : V3 ℝ)
    (hok : (moveObj h o d).2 = none) :
    positionsOf h o = .ok (cs.map (·.pos)) ∧
    positionsOf (moveObj h o d).1 o = .ok ((cs.map (·.pos)).map (· + d)) ∧
    ∀ p q : V3 ℝ, V3.norm ((p + d) - (q + d)) = V3.norm (p - q) := by
  obtain ⟨pairs, c, rd⟩ := b.readable
  obtain ⟨s1, s2⟩ := moveObj_spec rd d hok
  exact ⟨s1, s2, fun p q => by rw [move_diff]⟩

/-- ROTATION: every atom goes to `R (p − C) + C` with ONE centre `C` = the mean of all atoms of the
    object; for `RᵀR = 1` all interatomic distances are preserved -/
theorem rotate_isometry (h : Heap ℝ) (o : Obj) (cs : List (AtomGroC ℝ)) (b : Body h o cs) (r : M3 ℝ)
    (hok : (rotateObj h o r).2 = none) :
    positionsOf (rotateObj h o r).1 o =
      .ok ((cs.map (·.pos)).map (rotatePoint r (V3.mean (cs.map (·.pos))))) ∧
    (Orthogonal r → ∀ C p q : V3 ℝ,
      V3.norm (rotatePoint r C p - rotatePoint r C q) = V3.norm (p - q)) := by
  obtain ⟨pairs, c, rd⟩ := b.readable
  exact ⟨rotateObj_spec rd r hok, fun hr C p q => rotate_dist r hr C p q⟩

/-- re-centring is a translation too -/
theorem move_to_isometry (h : Heap ℝ) (o : Obj) (cs : List (AtomGroC ℝ)) (b : Body h o cs) (p : V3 ℝ)
    (hok : (moveToObj h o p).2 = none) :
    positionsOf (moveToObj h o p).1 o =
      .ok ((cs.map (·.pos)).map (· + (p - V3.mean (cs.map (·.pos))))) := by
  obtain ⟨pairs, c, rd⟩ := b.readable
  exact moveToObj_spec rd p hok

private theorem map_pos_ne {cs : List (AtomGroC ℝ)} (h : cs ≠ []) : cs.map (·.pos) ≠ [] := by
  intro e; exact h (List.map_eq_nil_iff.mp e)

/-- the geometric centre moves by exactly the displacement -/
theorem centre_move (h : Heap ℝ) (o : Obj) (cs : List (AtomGroC ℝ)) (b : Body h o cs) (d : V3 ℝ)
    (hok : (moveObj h o d).2 = none) :
    centreOf h o = .ok (V3.mean (cs.map (·.pos))) ∧
    centreOf (moveObj h o d).1 o = .ok (V3.mean (cs.map (·.pos)) + d) := by
  obtain ⟨s1, s2, _⟩ := move_isometry h o cs b d hok
  unfold centreOf
  rw [s1, s2]
  exact ⟨rfl, by simp only [mean_map_add _ d (map_pos_ne b.nonempty)]⟩

/-- `move_to(p)` puts the geometric centre exactly on `p` -/
theorem centre_move_to (h : Heap ℝ) (o : Obj) (cs : List (AtomGroC ℝ)) (b : Body h o cs) (p : V3 ℝ)
    (hok : (moveToObj h o p).2 = none) : centreOf (moveToObj h o p).1 o = .ok p := by
  unfold centreOf
  rw [move_to_isometry h o cs b p hok]
  simp only [mean_move_to _ p (map_pos_ne b.nonempty)]

/-- rotation does not move the geometric centre at all — for ANY 3×3 matrix, orthogonal or not -/
theorem centre_rotate (h : Heap ℝ) (o : Obj) (cs : List (AtomGroC ℝ)) (b : Body h o cs) (r : M3 ℝ)
    (hok : (rotateObj h o r).2 = none) :
    centreOf (rotateObj h o r).1 o = .ok (V3.mean (cs.map (·.pos))) := by
  unfold centreOf
  rw [(rotate_isometry h o cs b r hok).1]
  simp only [mean_rotate _ r (map_pos_ne b.nonempty)]

/-- ONE BODY.  The atoms of a Molecule are the atoms of all its residues, concatenated; `rotate`
    (and `move_to`) on the Molecule therefore use the mean over ALL atoms of ALL residues as the one
    centre, and `rotate_isometry` / `move_isometry` give the preservation of distances between atoms
    of different residues. -/
theorem molecule_one_body (h : Heap ℝ) (m : Nat) (v : MolView) (cs : List (AtomGroC ℝ))
    (w : MolWF h m v cs) (hne : cs ≠ []) :
    Body h (.mol m) cs ∧ v.gros = v.parts.flatten ∧ readRess h v.residues = some v.parts ∧
    (∃ css : List (List (AtomGroC ℝ)), css.flatten = cs ∧ readGross h v.parts = some css) ∧
    ∀ r : M3 ℝ, (rotateObj h (.mol m) r).2 = none →
      positionsOf (rotateObj h (.mol m) r).1 (.mol m) =
        .ok ((cs.map (·.pos)).map (rotatePoint r (V3.mean (cs.map (·.pos))))) := by
  have b : Body h (.mol m) cs := ⟨⟨_, _, w.pairs⟩, hne⟩
  obtain ⟨hg, hr, _, _⟩ := molView_gros w.view
  refine ⟨b, hg, hr, ?_, fun r hok => (rotate_isometry h (.mol m) cs b r hok).1⟩
  have := w.cells
  rw [hg] at this
  obtain ⟨css, e1, e2⟩ := readGross_of_flatten this
  exact ⟨css, e2, e1⟩

end rigid

/-! ### non-vacuity: concrete heaps meeting the hypotheses (evaluated by the kernel) -/

namespace NonVacuity

/-- an exact computable scalar, used ONLY to evaluate the concrete heaps of these examples -/
local instance : Scalar Int where
  add := Int.add
  sub := Int.sub
  mul := Int.mul
  div := fun a b => a / b
  neg := Int.neg
  zero := 0
  one := 1
  ofInt n := n
  ofDec m _ := m
  sqrt x := x
  cos x := x
  sin x := x
  isZero x := x == 0
  lt a b := a < b
  le a b := a ≤ b
  round x := x
  abs x := x.natAbs

def g (resid : Int) (rn n : String) (id : Int) (x y z : Int) : AtomGroC Int :=
  ⟨resid, rn, n, id, ⟨x, y, z⟩, none⟩

/-- a three-atom, two-residue molecule loaded "from files": object `.mol 14` -/
def st0 : StepR Int := newMol Heap.empty "M"
  [⟨"A1", "RA", 1, 0, [1]⟩, ⟨"A2", "RA", 1, 1, [0, 2]⟩, ⟨"B1", "RB", 2, 2, [1]⟩]
  [[g 1 "RA" "A1" 1 0 0 0, g 1 "RA" "A2" 2 1 0 0], [g 2 "RB" "B1" 3 1 1 0]]

example : st0.ret = some (.mol 14) ∧ st0.err = none := by decide

private theorem stepR_eta (r : StepR Int) (o : Obj) (h1 : r.ret = some o) (h2 : r.err = none) :
    r = ⟨r.heap, some o, none⟩ := by
  cases r; simp_all

/-- its shallow copy is `.mol 20`, its deep copy `.mol 30`, a System-style hand-out `.mol 27` -/
theorem copy_ok : stepOn st0.heap (.mol 14) (.copy 0) =
    ⟨(stepOn st0.heap (.mol 14) (.copy 0)).heap, some (.mol 20), none⟩ :=
  stepR_eta _ _ (by decide) (by decide)

theorem deep_ok : stepOn st0.heap (.mol 14) (.deepCopy 0) =
    ⟨(stepOn st0.heap (.mol 14) (.deepCopy 0)).heap, some (.mol 24), none⟩ :=
  stepR_eta _ _ (by decide) (by decide)

theorem handout_ok : stepOn st0.heap (.mol 14)
      (.molWith 0 [[g 7 "RA" "A1" 4 5 5 5, g 7 "RA" "A2" 5 6 5 5], [g 8 "RB" "B1" 6 6 6 5]]) =
    ⟨(stepOn st0.heap (.mol 14)
      (.molWith 0 [[g 7 "RA" "A1" 4 5 5 5, g 7 "RA" "A2" 5 6 5 5], [g 8 "RB" "B1" 6 6 6 5]])).heap,
     some (.mol 25), none⟩ :=
  stepR_eta _ _ (by decide) (by decide)

/-- the loaded molecule is well formed (hypothesis of `deep_copy_separated`, `handout_separated`,
    `view_writes_through`) -/
theorem st0_molOld : ∃ v, MolOld st0.heap 14 v := by
  refine ⟨⟨3, "M", [0, 1, 2], [11, 13], [0, 0, 1], [[9, 10], [12]], [9, 10, 12]⟩, by decide, ?_, ?_, ?_,
    ⟨(3, [11, 13], [0, 0, 1]), by decide⟩, ⟨("M", [0, 1, 2]), by decide⟩⟩
  · intro a ha
    simp only [List.mem_cons, List.not_mem_nil, or_false] at ha
    rcases ha with rfl | rfl | rfl <;> exact ⟨_, rfl⟩
  · intro a ha
    simp only [List.mem_cons, List.not_mem_nil, or_false] at ha
    rcases ha with rfl | rfl | rfl <;> exact ⟨_, rfl⟩
  · intro a ha
    simp only [List.mem_cons, List.not_mem_nil, or_false] at ha
    rcases ha with rfl | rfl <;> exact ⟨_, rfl⟩

theorem st0_molWF : ∃ v cs, MolWF st0.heap 14 v cs :=
  ⟨⟨3, "M", [0, 1, 2], [11, 13], [0, 0, 1], [[9, 10], [12]], [9, 10, 12]⟩,
   [g 1 "RA" "A1" 1 0 0 0, g 1 "RA" "A2" 2 1 0 0, g 2 "RB" "B1" 3 1 1 0],
   ⟨by decide, by decide, by decide, by decide, rfl⟩⟩

/-- `copy_separated` applies, and the operation list really changes the copy: after moving the copy
    and renumbering its residues, atom 15 (the copy's first atom) has moved and carries the new residue
    number, while every gro-side cell of the original is as before -/
example :
    (∀ a ∈ (Obj.mol 14).groSide st0.heap,
      (run (stepOn st0.heap (.mol 14) (.copy 0)).heap [.mol 20]
        [.move 0 ⟨1, 2, 3⟩, .setResidsI 0 77]).1.get? a = st0.heap.get? a) ∧
    ((run (stepOn st0.heap (.mol 14) (.copy 0)).heap [.mol 20]
        [.move 0 ⟨1, 2, 3⟩, .setResidsI 0 77]).1.gro? 15).map (fun c => (c.pos.x, c.resid)) = some (1, 77) :=
  ⟨(copy_separated _ _ 14 20 copy_ok _).1, by decide⟩

example := deep_copy_separated _ _ 14 24 st0_molOld deep_ok
  [.setResnamesS 0 "ZZ", .rotate 0 ⟨⟨0, -1, 0⟩, ⟨1, 0, 0⟩, ⟨0, 0, 1⟩⟩]
example := handout_separated _ _ 14 25 _ st0_molOld handout_ok [.moveTo 0 ⟨9, 9, 9⟩]

/-- `shallow_shares_top` is not vacuous: the label assignment on the copy succeeds … -/
example : (setResnamesStr (stepOn st0.heap (.mol 14) (.copy 0)).heap (.mol 20) "ZZ").2 = none := by decide
/-- … and `view_writes_through`: `mol[1]` and the second item of iteration are the view `(1, 10)` -/
example : stepOn st0.heap (.mol 14) (.getAtom 0 1) = ⟨st0.heap, some (.atom 1 10), none⟩ := by
  have := stepR_eta (stepOn st0.heap (.mol 14) (.getAtom 0 1)) (.atom 1 10) (by decide) (by decide)
  rw [this]; rfl
example : (stepOn st0.heap (.mol 14) (.iterAtom 0 1)).ret = some (.atom 1 10) := by decide

/-! rigid operations over ℝ: a two-atom Residue at `.res 2` -/

noncomputable def hR : Heap ℝ :=
  ⟨#[.gro ⟨1, "R", "A", 1, ⟨0, 0, 0⟩, none⟩, .gro ⟨1, "R", "B", 2, ⟨2, 0, 0⟩, none⟩, .res [0, 1]]⟩

theorem hR_body : Body hR (.res 2)
    [⟨1, "R", "A", 1, ⟨0, 0, 0⟩, none⟩, ⟨1, "R", "B", 2, ⟨2, 0, 0⟩, none⟩] :=
  ⟨⟨[(none, 0), (none, 1)], false, rfl, by decide, rfl⟩, by simp⟩

example (d : V3 ℝ) : (moveObj hR (.res 2) d).2 = none := rfl
example (p : V3 ℝ) : (moveToObj hR (.res 2) p).2 = none := rfl
example (r : M3 ℝ) : (rotateObj hR (.res 2) r).2 = none := rfl
/-- a quarter turn about z satisfies `Orthogonal` -/
example : Orthogonal ⟨⟨0, -1, 0⟩, ⟨1, 0, 0⟩, ⟨0, 0, 1⟩⟩ := by
  simp [Orthogonal, gm]

end NonVacuity

end C18
