import GMProofs.Lemmas.SystemTopL
import GMProofs.Props.C11
import GMProofs.Props.C12
import GMProofs.Props.C15
/-
  C11 ↔ C15 — recognition with the topologies given as `.itp` TEXT.

  `SRec.loadTexts` (GMModel/SystemTop.lean) is `for ftop in ftops: system.add_ftop(ftop)`:
  `Itp.readTopology` (C15/C16) followed by `SRec.addMoleculeTop` (C11) on `topOfInfo`.
  What `System` takes from a topology is a function of `TopInfo.atoms` alone:
  * the signature `MoleculeTop.resname_len_list` = `sigRuns`: the consecutive runs of atoms with equal
    (residue name, residue number), each as (residue name, number of atoms)   — `signature_of_text`;
  * the per-atom (residue name, atom name) list the `Molecule(...)` check compares (`molMatch`).
-/
open SGro SRec

namespace C11

/-- **signature_of_text.**  For a text the library loads, whose residue names have at most five
    characters and no white space (the mild extra hypothesis: `resname_len_list` compares the strings
    `'{:5}{}'.format(resname, resid)` and reports `key[:5].strip()`, which is faithful exactly then):
    `resname_len_list` of the loaded `MoleculeTop` is `sigRuns` of the atoms `read_topology` returned, and
    those are, one to one and in file order, the content lines of `[ atoms ]` (atom name = token 4,
    residue name = token 3, residue number = `int(token 2)`). -/
theorem signature_of_text (text : Itp.Str) (T : Itp.TopInfo) (hw : Itp.wfText text = true)
    (h : Itp.readTopology text = .ok T) (hfit : ∀ a ∈ T.atoms, NameFits a.resname) :
    resnameLenList (topOfInfo T) = .ok (sigRuns (topOfInfo T).atoms) ∧
    ∃ (ps : List (List Itp.Str)) (nums : List Int),
      (Itp.specView text).lookup Itp.kAtoms = some ps ∧ nums.length = T.atoms.length ∧
      List.Forall₂ (fun p (x : Int × Itp.AtomInfo) => Itp.atomFields p = some x) ps (nums.zip T.atoms) := by
  obtain ⟨_, ps, nums, hps, hne, hlen, hf, _⟩ := C15.top_atoms_exact text T hw h
  refine ⟨?_, ps, nums, hps, hlen, hf⟩
  apply resnameLenList_spec
  · -- at least one atom: `[ atoms ]` has a content line
    intro he
    have : (topOfInfo T).atoms = T.atoms.map (fun a => (⟨a.name, a.resname, a.resid⟩ : TopAtom)) := rfl
    rw [this, List.map_eq_nil_iff] at he
    rw [he, List.zip_nil_right] at hf
    cases hf
    exact hne rfl
  · intro a ha
    obtain ⟨a', ha', rfl⟩ := List.mem_map.mp ha
    exact hfit a' ha'

/-- **recognise_exact_itp.**  A coordinate file whose view is `(sg, gs)` (C12) and whose kind stream is
    that of a block list `blocks` — whole molecules of species with non-empty, pairwise disjoint kind
    patterns `pat s`, plus unrelated residues (`WF`).  Topologies given as texts: for every species `s` of
    the loading list, `text s` is a text the library loads (`wfText`) and reads as `T s`, its residue names
    fit (`NameFits`), its signature `sigRuns` maps through the view's `(resname, len)` dictionary to
    `pat s`, and at every block of `s` the file's atoms carry the topology's residue and atom names
    (`molMatch`, the property's premise).  Then, for ANY loading order without repetition of species that
    occur:  `System(fgro)` is constructed, every `add_ftop` succeeds, the instance generator yields exactly
    one `(index, first residue, end residue)` per block of a loaded species in file order, exactly the
    consumed residues are marked, and `different_molecules` holds the loaded topologies in loading order. -/
theorem recognise_exact_itp
    (f : GroRd) (sg : SG) (c : Cursor) (gs : List Residue) (hB : C12.Built f sg c gs)
    (pat : Nat → List Int) (blocks : List Block) (hwf : WF pat blocks)
    (hstream : sg.kinds.map (fun (k : Nat) => (k : Int)) = blockStream pat (fun _ => false) blocks)
    (text : Nat → Itp.Str) (T : Nat → Itp.TopInfo) (order : List Nat) (hnd : order.Nodup)
    (hpres : ∀ s ∈ order, Block.mol s ∈ blocks)
    (hw : ∀ s ∈ order, Itp.wfText (text s) = true)
    (hread : ∀ s ∈ order, Itp.readTopology (text s) = .ok (T s))
    (hfit : ∀ s ∈ order, ∀ a ∈ (T s).atoms, NameFits a.resname)
    (hpat : ∀ s ∈ order, lookupPattern sg.pk (sigRuns (topOfInfo (T s)).atoms) = .ok (pat s))
    (hnames : ∀ s ∈ order, ∀ pre post, blocks = pre ++ Block.mol s :: post →
      molMatch (topOfInfo (T s)) ((gs.drop (blocksLen pat pre)).take (pat s).length) = true) :
    ∃ s0 sN, Sys.init f = .ok s0 ∧
      loadTexts s0 (order.map text) = (order.map (fun _ => .ok ()), sN) ∧
      sN.toRec.instances = .ok (expected pat (rankOf order) 0 blocks) ∧
      sN.avail = blockStream pat (ldOf order) blocks ∧
      sN.toRec.len = (expected pat (rankOf order) 0 blocks).length ∧
      sN.mols.map (·.top) = order.map (fun s => topOfInfo (T s)) ∧
      sN.sg = sg ∧ sN.gro = f := by
  -- the view
  have hL : Loaded f sg gs := C12.built_loaded hB
  obtain ⟨hklen, _⟩ := C12.kind_length_invariant hB
  obtain ⟨hruns, _⟩ := C12.groups_are_runs hB
  have hgood : ∀ g ∈ gs, GoodGroup g := by
    intro g hg
    obtain ⟨hne, hu⟩ := hruns.uniform g hg
    refine ⟨hne, fun x hx y hy => ?_⟩
    have e := hu x hx y hy
    unfold AtomRec.reskey at e
    unfold AtomRec.residname
    injection e with e1 e2
    rw [e1, e2]
  have hglen : gs.length = blocksLen pat blocks := by
    rw [← hklen, ← blockStream_length pat (fun _ => false), ← hstream, List.length_map]
  -- the initial `System`
  let s0 : Sys := ⟨f, sg, c, [], [], sg.kinds.map (fun (k : Nat) => (k : Int))⟩
  have hinit : Sys.init f = .ok s0 := by
    unfold Sys.init
    rw [hB.1]
  have hrec0 : s0.toRec = initState pat blocks := by
    show (⟨sg.kinds.map (fun (k : Nat) => (k : Int)), [], [].map _⟩ : RecState) = _
    rw [hstream]; rfl
  -- the abstract theorem, with `Molecule(...)` computed from the view's residues
  have hcheck : ∀ s ∈ order, ∀ pre post, blocks = pre ++ Block.mol s :: post →
      checkPure gs (topOfInfo (T s)) (pat s).length (blocksLen pat pre) = .ok (pat s).length := by
    intro s hs pre post hb
    have hin : blocksLen pat pre + (pat s).length ≤ gs.length := by
      rw [hglen, hb, blocksLen_append]
      simp only [blocksLen, Block.kinds]
      omega
    unfold checkPure
    rw [isliceExt_window gs _ _ (Nat.le_add_right _ _) hin]
    simp only [Nat.add_sub_cancel_left]
    unfold mkMolecule
    rw [if_pos (hnames s hs pre post hb), mapM_mkResidue_good _ (fun r hr =>
      hgood r (List.mem_of_mem_drop (List.mem_of_mem_take hr)))]
    simp only [Except.map, Except.ok.injEq, List.length_take, List.length_drop]
    omega
  obtain ⟨st, hload, hinst, havail, _, hlen⟩ := recognise_blocks pat blocks hwf order hnd hpres
    (fun k => checkPure gs (topOfInfo (T k)) (pat k).length) hcheck
  rw [← hrec0] at hload
  obtain ⟨sN, hl, ht, hsg, hgro, hm⟩ := loadTexts_refines gs pat text T order s0 st hL hread
    (fun k hk => ⟨_, (signature_of_text (text k) (T k) (hw k hk) (hread k hk) (hfit k hk)).1, hpat k hk⟩) hload
  refine ⟨s0, sN, hinit, hl, by rw [ht]; exact hinst, ?_, by rw [ht]; exact hlen, by rw [hm]; rfl, hsg, hgro⟩
  have : sN.toRec.avail = st.avail := by rw [ht]
  exact this.trans havail

/-! ### non-vacuity -/

/-- `C15.exTop` (three atoms `RES 1`, `RES 1`, `RES 2`, with comments, a preprocessor line and gapped
    numbering) meets the hypotheses of `signature_of_text`; its signature is two runs of the same residue
    name: the boundary comes from the residue NUMBER -/
example : ∃ T, Itp.readTopology C15.exTop = .ok T ∧ Itp.wfText C15.exTop = true ∧
    (∀ a ∈ T.atoms, NameFits a.resname) ∧
    resnameLenList (topOfInfo T) = .ok [(['R', 'E', 'S'], 2), (['R', 'E', 'S'], 1)] := by
  have hr : Itp.readTopology C15.exTop =
      .ok ⟨['M', 'O', 'L'],
        [⟨['C', 'A'], ['R', 'E', 'S'], 1⟩, ⟨['C', 'B'], ['R', 'E', 'S'], 1⟩, ⟨['C', 'C'], ['R', 'E', 'S'], 2⟩],
        [(2, 1), (0, 1), (1, 0)]⟩ := by decide
  have hw : Itp.wfText C15.exTop = true := by decide
  have hfit : ∀ a ∈ ([⟨['C', 'A'], ['R', 'E', 'S'], 1⟩, ⟨['C', 'B'], ['R', 'E', 'S'], 1⟩,
      ⟨['C', 'C'], ['R', 'E', 'S'], 2⟩] : List Itp.AtomInfo), NameFits a.resname := by
    intro a ha
    simp only [List.mem_cons, List.not_mem_nil, or_false] at ha
    rcases ha with rfl | rfl | rfl <;> exact ⟨by decide, by decide⟩
  refine ⟨_, hr, hw, hfit, ?_⟩
  rw [(signature_of_text _ _ hw hr hfit).1]
  exact congrArg _ (by decide)

/-- the signature function itself, evaluated (a test): runs split on residue number OR name; a residue
    repeated inside the molecule gives a repeated entry -/
example : sigRuns [⟨['a'], ['C', 'R'], 1⟩, ⟨['b'], ['C', 'R'], 1⟩, ⟨['a'], ['C', 'R'], 2⟩, ⟨['b'], ['C', 'R'], 2⟩,
    ⟨['x'], ['D'], 2⟩] = [(['C', 'R'], 2), (['C', 'R'], 2), (['D'], 1)] := by decide

end C11
