import GMProofs.Lemmas.ClosestL
/-
  C03 — Exchange map is local and shape-preserving under deformation.

  `arg` is an ARBITRARY new conformation of the reference (same bond graph `nbrs`), not only a
  rigid image of the construction conformation `pos`.
-/
open V3

namespace C03

/-- each mapped atom lies at exactly `|s|` times its construction-time distance from its anchor -/
theorem exchange_anchor_distance (pos arg : List (V3 ℝ)) (nbrs : List (List Nat))
    (r1 r2 tgt : List (V3 ℝ)) (s : ℝ) (h3 : 3 ≤ pos.length) (h3' : 3 ≤ arg.length)
    (hd : DistinctFrames pos nbrs) (hd' : DistinctFrames arg nbrs)
    (m : EMap ℝ) (hb : EMap.build pos nbrs r1 tgt s = some m)
    (out : List (V3 ℝ)) (ha : m.apply nbrs arg r2 = some out) :
    ∀ (j : Nat) (t : V3 ℝ), tgt[j]? = some t →
      ∃ (a : Nat) (pa pa' o : V3 ℝ), m.equiv[j]? = some a ∧ pos[a]? = some pa ∧ arg[a]? = some pa' ∧
        out[j]? = some o ∧ V3.norm (o - pa') = |s| * V3.norm (t - pa) := by
  intro j t ht
  obtain ⟨tab, htab, _, hbs⟩ := build_spec hb
  obtain ⟨tab', htab', has⟩ := apply_spec ha
  rw [refsystems_general nbrs _ h3] at htab
  rw [refsystems_general nbrs _ h3'] at htab'
  obtain ⟨a, F, hja, _, hF, hq⟩ := hbs j t ht
  obtain ⟨F', hF', ho⟩ := has j a _ hja hq
  obtain ⟨hFo, hFa⟩ := table_frame_ok hd htab hF
  obtain ⟨hFo', hFa'⟩ := table_frame_ok hd' htab' hF'
  refine ⟨a, F.origin, F'.origin, _, hja, hFa, hFa', ho, ?_⟩
  apply norm_of_norm2
  rw [(restore_cyl hFo' _).1, project_norm2 hFo]

/-- atoms sharing an anchor keep all their mutual distances, times `|s|` -/
theorem exchange_same_anchor_shape (pos arg : List (V3 ℝ)) (nbrs : List (List Nat))
    (r1 r2 tgt : List (V3 ℝ)) (s : ℝ) (h3 : 3 ≤ pos.length) (h3' : 3 ≤ arg.length)
    (hd : DistinctFrames pos nbrs) (hd' : DistinctFrames arg nbrs)
    (m : EMap ℝ) (hb : EMap.build pos nbrs r1 tgt s = some m)
    (out : List (V3 ℝ)) (ha : m.apply nbrs arg r2 = some out) :
    ∀ (j k a : Nat) (tj tk : V3 ℝ), tgt[j]? = some tj → tgt[k]? = some tk →
      m.equiv[j]? = some a → m.equiv[k]? = some a →
      ∃ oj ok, out[j]? = some oj ∧ out[k]? = some ok ∧
        V3.norm (oj - ok) = |s| * V3.norm (tj - tk) := by
  intro j k a tj tk htj htk hja hka
  obtain ⟨tab, htab, _, hbs⟩ := build_spec hb
  obtain ⟨tab', htab', has⟩ := apply_spec ha
  rw [refsystems_general nbrs _ h3] at htab
  rw [refsystems_general nbrs _ h3'] at htab'
  obtain ⟨aj, Fj, hja', _, hFj, hqj⟩ := hbs j tj htj
  obtain ⟨ak, Fk, hka', _, hFk, hqk⟩ := hbs k tk htk
  rw [hja] at hja'; cases hja'
  rw [hka] at hka'; cases hka'
  rw [hFj] at hFk; cases hFk
  obtain ⟨Fj', hFj', hoj⟩ := has j a _ hja hqj
  obtain ⟨Fk', hFk', hok⟩ := has k a _ hka hqk
  rw [hFj'] at hFk'; cases hFk'
  obtain ⟨hFo, _⟩ := table_frame_ok hd htab hFj
  obtain ⟨hFo', _⟩ := table_frame_ok hd' htab' hFj'
  refine ⟨_, _, hoj, hok, ?_⟩
  apply norm_of_norm2
  rw [restore_dist2 hFo', project_sub_norm2 hFo]

/-- **Locality.** The position of a mapped atom depends only on the new positions of its anchor and
    of that anchor's two lowest-numbered bonded atoms: two conformations that agree on those three
    atoms give the same (exactly equal) mapped position, whatever the other atoms do. -/
theorem exchange_local (arg1 arg2 : List (V3 ℝ)) (nbrs : List (List Nat)) (r1 r2 : List (V3 ℝ))
    (h3 : 3 ≤ arg1.length) (h3' : 3 ≤ arg2.length) (m : EMap ℝ)
    (out1 out2 : List (V3 ℝ)) (ha1 : m.apply nbrs arg1 r1 = some out1)
    (ha2 : m.apply nbrs arg2 r2 = some out2) :
    ∀ (j a : Nat), m.equiv[j]? = some a → j < m.proj.length →
      arg1[a]? = arg2[a]? →
      (∀ nb i1 i2, nbrs[a]? = some nb → closestTwo nb = some (i1, i2) →
        arg1[i1]? = arg2[i1]? ∧ arg1[i2]? = arg2[i2]?) →
      out1[j]? = out2[j]? := by
  intro j a hja hjq hpa hn
  obtain ⟨tab1, htab1, has1⟩ := apply_spec ha1
  obtain ⟨tab2, htab2, has2⟩ := apply_spec ha2
  rw [refsystems_general nbrs _ h3] at htab1
  rw [refsystems_general nbrs _ h3'] at htab2
  obtain ⟨q, hq⟩ : ∃ q, m.proj[j]? = some q := ⟨m.proj[j], by simp [hjq]⟩
  obtain ⟨F1, hF1, ho1⟩ := has1 j a q hja hq
  obtain ⟨F2, hF2, ho2⟩ := has2 j a q hja hq
  have e1 := table_entry htab1 (lookupFrame_mem hF1)
  have e2 := table_entry htab2 (lookupFrame_mem hF2)
  rw [frameAt_congr hpa hn, e2] at e1
  cases e1
  rw [ho1, ho2]

/-- the dependency set of `exchange_local` is {anchor, `sorted(bonds)[0]`, `sorted(bonds)[1]`} -/
theorem closestTwo_are_lowest (nb : List Nat) (i1 i2 : Nat) (h : closestTwo nb = some (i1, i2)) :
    ∃ rest, sortNat nb = i1 :: i2 :: rest := by
  unfold closestTwo at h
  split at h
  · rename_i a b rest heq
    cases h
    exact ⟨rest, heq⟩
  · cases h

end C03
