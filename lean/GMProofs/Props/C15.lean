import GMProofs.Lemmas.ItpL
import GMProofs.Lemmas.GraphL
/-
  C15 — Topology reader yields exactly the file's atoms and bond graph; connectivity; copy.

  Model: `GMModel.Itp` (`readTopology` = `read_topology` on an `.itp`: `ItpFile.__init__`, then
  `ItpParser.__init__` = `topFrom` over the token lists of the content lines), `GMModel.Graph`
  (`buildAdj` = the two loops of `MoleculeTop.__init__`, `areConnected` = `are_connected` AS
  REPAIRED for D6, `molCopy` = `MoleculeTop.copy` on an object heap).
  Specification: `specView` / `View.lookup` (`GMProofs/Lemmas/ItpL.lean`): per section name, in
  order of first appearance, the token lists of the lines that have content tokens — comment,
  blank and `#` lines contribute nothing.
  Only property theorems and non-vacuity examples live here.
-/
open Itp Graph

namespace C15

/-- THE READER READS THE SPECIFICATION'S TOKENS. On every text the library loads,
    `read_topology` is `ItpParser`'s extraction applied to the specification's reading of the text
    (repeated section names gathered, comments / blank / preprocessor lines dropped). -/
theorem reader_reads_spec (t : Str) (hw : wfText t = true) :
    readTopology t = topFrom (specView t).lookup := by
  obtain ⟨f, hf⟩ := wfText_parse hw
  have hk := wfText_noHeaderKey hw
  unfold readTopology topInfo
  simp only [hf, bind, Except.bind]
  rw [secTokens_eq_lookup (parse_inv hf hk), parse_view hf hk]

/-- NAME AND ATOMS, EXACTLY. If loading succeeds with `(name, atoms, bonds)`: `name` is the first
    token of the first content line of `[ moleculetype ]`; the content lines `ps` of `[ atoms ]`
    correspond one to one, in file order, to `atoms`, line `p` giving name = token 4, residue
    name = token 3, residue number = `int(token 2)` (and file number `int(token 0)`). -/
theorem top_atoms_exact (t : Str) (T : TopInfo) (hw : wfText t = true)
    (h : readTopology t = .ok T) :
    (∃ p rest, (specView t).lookup kMoleculetype = some (p :: rest) ∧ p[0]? = some T.name) ∧
    ∃ (ps : List (List Str)) (nums : List Int), (specView t).lookup kAtoms = some ps ∧ ps ≠ [] ∧ nums.length = T.atoms.length ∧
      List.Forall₂ (fun p (x : Int × AtomInfo) => atomFields p = some x) ps (nums.zip T.atoms) ∧
      ∀ p ∈ ps, ∀ nr a, atomFields p = some (nr, a) →
        p[0]?.bind pyInt = some nr ∧ p[4]? = some a.name ∧ p[3]? = some a.resname ∧
        p[2]?.bind pyInt = some a.resid := by
  rw [reader_reads_spec t hw] at h
  obtain ⟨hname, ps, fields, listed, hps, hf, hat, hne, _, _⟩ := topFrom_spec h
  refine ⟨hname, ps, fields.map (·.1), hps, ?_, by rw [hat]; simp, ?_, ?_⟩
  · intro e; rw [e] at hf; cases hf; exact hne rfl
  · have : (fields.map (·.1)).zip T.atoms = fields := by
      rw [hat, List.zip_map', List.map_id'']; simp
    rw [this]; exact hf
  · intro p _ nr a hpa
    unfold atomFields at hpa
    split at hpa
    · rename_i t0 t2 t3 t4 h0 h2 h3 h4
      split at hpa
      · rename_i n0 n2 hn0 hn2
        simp only [Option.some.injEq, Prod.mk.injEq] at hpa
        obtain ⟨rfl, rfl⟩ := hpa
        simp [h0, h2, h3, h4, hn0, hn2]
      · simp at hpa
    · simp at hpa

/-- BOND GRAPH, EXACTLY. If loading succeeds: the pair list is, in this order, the content lines
    of `constraints`, `bonds`, `pairs` (each `(int(token 0), int(token 1))`), translated by the
    number → position dictionary (the position of the last atom line with that number; always a
    valid position); `MoleculeTop.__init__` then succeeds, and atom `i`'s bond set contains `j`
    exactly when `(i, j)` or `(j, i)` is a translated pair — symmetric, duplicate-free, nothing
    else, nothing outside the atom list. -/
theorem top_bonds_exact (t : Str) (T : TopInfo) (hw : wfText t = true)
    (h : readTopology t = .ok T) :
    (∃ fields l1 l2 l3,
      T.atoms = fields.map (·.2) ∧
      sectionBonds (specView t).lookup ['c', 'o', 'n', 's', 't', 'r', 'a', 'i', 'n', 't', 's'] = .ok l1 ∧
      sectionBonds (specView t).lookup ['b', 'o', 'n', 'd', 's'] = .ok l2 ∧
      sectionBonds (specView t).lookup ['p', 'a', 'i', 'r', 's'] = .ok l3 ∧
      List.Forall₂ (fun (ab : Int × Int) (ij : Nat × Nat) =>
        numberLookup (numberMap fields) ab.1 = some ij.1 ∧
        numberLookup (numberMap fields) ab.2 = some ij.2) (l1 ++ l2 ++ l3) T.bonds) ∧
    ∃ adj, buildAdj T.atoms.length T.bonds = .ok adj ∧ adj.length = T.atoms.length ∧
      AllNodup adj ∧ Valid adj ∧
      (∀ i j, Edge adj i j ↔ (i, j) ∈ T.bonds ∨ (j, i) ∈ T.bonds) ∧
      (∀ i j, Edge adj i j ↔ Edge adj j i) := by
  have h' := h
  rw [reader_reads_spec t hw] at h'
  obtain ⟨_, ps, fields, listed, _, _, hat, _, hl, hb⟩ := topFrom_spec h'
  obtain ⟨l1, l2, l3, h1, h2, h3, hlist⟩ := parseItpBonds_spec hl
  refine ⟨⟨fields, l1, l2, l3, hat, h1, h2, h3, by rw [← hlist]; exact hb⟩, ?_⟩
  obtain ⟨adj, ha1, ha2, ha3, ha4, ha5⟩ := buildAdj_spec (topFrom_bonds_valid h')
  exact ⟨adj, ha1, ha2, ha3, ha4, ha5, edge_symm_of_buildAdj ha1⟩

/-- the dictionary semantics used above: a number is translated to the position of the LAST atom
    line that carries it, and that is a position of the atom list -/
theorem number_to_position (fields : List (Int × AtomInfo)) (a : Int) (i : Nat)
    (h : numberLookup (numberMap fields) a = some i) :
    i < fields.length ∧ (∃ info, fields[i]? = some (a, info)) ∧
    ∀ j, i < j → ∀ info, fields[j]? ≠ some (a, info) :=
  numberLookup_spec h

/-- CONNECTIVITY, EVERY GRAPH, EVERY SIZE. For every non-empty atom list whose bond-set entries
    are positions of the list — whatever its size, its shape and the order in which the sets are
    iterated — the repaired `are_connected` terminates normally (no depth hypothesis: the walk is
    iterative; the registered fuel `#directed edges + 2` is never exhausted) and answers `True`
    exactly when every atom is reachable from atom 0. -/
theorem are_connected_correct (adj : Adj) (hv : Valid adj) (h0 : 0 < adj.length) :
    ∃ b, areConnected adj = .ok b ∧ (b = true ↔ ∀ v, v < adj.length → Reach adj 0 v) :=
  areConnected_iff hv h0

/-- …which for a symmetric bond graph (what `MoleculeTop` builds) is: the graph is connected -/
theorem are_connected_symmetric (adj : Adj) (hv : Valid adj) (h0 : 0 < adj.length)
    (hs : ∀ i j, Edge adj i j → Edge adj j i) :
    ∃ b, areConnected adj = .ok b ∧
      (b = true ↔ ∀ u v, u < adj.length → v < adj.length → Reach adj u v) := by
  obtain ⟨b, h1, h2⟩ := areConnected_iff hv h0
  refine ⟨b, h1, ?_⟩
  rw [h2]
  constructor
  · intro h u v hu hv'
    exact Reach.trans (Reach.symm hs (h u hu)) (h v hv')
  · intro h v hv'; exact h 0 v h0 hv'

/-- the loaded molecule: `are_connected(MoleculeTop(f).atoms)` answers whether the file's bond
    graph is connected -/
theorem are_connected_topology (t : Str) (T : TopInfo) (hw : wfText t = true)
    (h : readTopology t = .ok T) :
    ∃ adj b, buildAdj T.atoms.length T.bonds = .ok adj ∧ areConnected adj = .ok b ∧
      (b = true ↔ ∀ u v, u < T.atoms.length → v < T.atoms.length → Reach adj u v) := by
  obtain ⟨_, adj, h1, h2, _, h4, _, h6⟩ := top_bonds_exact t T hw h
  have hpos : 0 < adj.length := by
    rw [h2]
    have h' := h
    rw [reader_reads_spec t hw] at h'
    obtain ⟨_, _, fields, _, _, _, hat, hne, _, _⟩ := topFrom_spec h'
    rw [hat]
    cases fields with
    | nil => exact absurd rfl hne
    | cons a l => simp
  obtain ⟨b, hb1, hb2⟩ := are_connected_symmetric adj h4 hpos (fun i j he => (h6 i j).mp he)
  exact ⟨adj, b, h1, hb1, by rw [← h2]; exact hb2⟩

/-- edge cases as the code behaves: the empty atom list raises `IndexError` (`atoms[0]`); a single
    atom without bonds is connected -/
theorem are_connected_empty : areConnected [] = .error .IndexError := areConnected_empty
example : areConnected [[]] = .ok true := by decide
example : areConnected [[1], [0], []] = .ok false := by decide
example : areConnected [[7], []] = .error .IndexError := by decide

/-- COPY: EQUAL AND INDEPENDENT. For a molecule whose atoms are live objects with live bond sets
    (in a heap whose atoms refer to sets of that heap): `copy` succeeds; the copy has the value
    of the original (name; per atom name, residue name, residue number, index, bond set); the
    original is unchanged; and no sequence of mutations applied through the copy's atoms
    (`connect`, `bonds.add`, `bonds.discard`, attribute assignment) changes the original's value,
    nor does any applied through the original's atoms change the copy's. What is modelled: atoms
    and bond sets as separate heap cells, references between them; not modelled: Python object
    identity of the immutable `str`/`int` fields (sharing them is unobservable). -/
theorem top_copy_independent (h : Heap) (m : MolTop) (hwf : WFMol h m)
    (hcl : OldClosed h.length h) :
    ∃ h' m', molCopy h m = some (h', m') ∧
      molValue h' m' = molValue h m ∧ molValue h' m = molValue h m ∧
      (∀ a ∈ m.atoms, ∀ a' ∈ m'.atoms, a < h.length ∧ h.length ≤ a') ∧
      (∀ ops : List Op, (∀ op ∈ ops, ∀ a ∈ op.targets, a ∈ m'.atoms) →
        molValue (applyOps h' ops) m = molValue h m) ∧
      (∀ ops : List Op, (∀ op ∈ ops, ∀ a ∈ op.targets, a ∈ m.atoms) →
        molValue (applyOps h' ops) m' = molValue h' m') := by
  have hlive : ∀ a ∈ m.atoms, ∃ v, atomValue h a = some v := by
    intro a ha
    obtain ⟨n, r, i, x, b, e, h1, h2⟩ := hwf a ha
    exact ⟨(n, r, i, x, e), atomValue_some_iff.mpr ⟨b, h1, h2⟩⟩
  obtain ⟨h', as', hc, ⟨ext, hext⟩, hf, hnew⟩ := atomsCopy_spec m.atoms h hlive
  have hold_lt : ∀ a ∈ m.atoms, a < h.length := by
    intro a ha
    obtain ⟨n, r, i, x, b, e, h1, _⟩ := hwf a ha
    exact getElem?_lt_of_some h1
  have hnew_ge : ∀ a' ∈ as', h.length ≤ a' := by
    intro a' ha'
    obtain ⟨a, _, hr⟩ := forall2_mem_right hf a' ha'
    exact hr.2
  -- cells below the old heap size are the old cells
  have hpre : ∀ c, c < h.length → h'[c]? = h[c]? := by
    intro c hc'; rw [hext, List.getElem?_append_left hc']
  have hcl' : OldClosed h.length h' := by
    intro a n r i x b ha hcell
    rw [hpre a ha] at hcell
    exact hcl a n r i x b ha hcell
  have hncl' : NewClosed h.length h' := by
    intro a n r i x b ha hcell; exact hnew a n r i x b ha hcell
  have hval_old : ∀ (H : Heap), (∀ c, c < h.length → H[c]? = h[c]?) →
      ∀ a ∈ m.atoms, atomValue H a = atomValue h a := by
    intro H hH a ha
    apply atomValue_congr
    intro c hc'
    rcases hc' with rfl | ⟨n, r, i, x, hx⟩
    · exact hH _ (hold_lt _ ha)
    · exact hH c (hcl a n r i x c (hold_lt a ha) hx)
  have hval_new : ∀ (H : Heap), (∀ c, h.length ≤ c → H[c]? = h'[c]?) →
      ∀ a' ∈ as', atomValue H a' = atomValue h' a' := by
    intro H hH a' ha'
    apply atomValue_congr
    intro c hc'
    rcases hc' with rfl | ⟨n, r, i, x, hx⟩
    · exact hH _ (hnew_ge _ ha')
    · exact hH c (hnew a' n r i x c (hnew_ge a' ha') hx)
  refine ⟨h', ⟨m.name, as'⟩, by simp [molCopy, hc], ?_, ?_, ?_, ?_, ?_⟩
  · -- equal
    simp only [molValue, Prod.mk.injEq, true_and]
    exact forall2_map_eq (List.Forall₂.imp (fun a b hab => hab.1) hf)
  · -- the original is untouched by copying
    simp only [molValue, Prod.mk.injEq, true_and]
    apply List.map_congr_left
    intro a ha; exact hval_old h' hpre a ha
  · intro a ha a' ha'; exact ⟨hold_lt a ha, hnew_ge a' ha'⟩
  · -- mutate the copy
    intro ops hops
    simp only [molValue, Prod.mk.injEq, true_and]
    apply List.map_congr_left
    intro a ha
    refine hval_old _ (fun c hc' => ?_) a ha
    rw [applyOps_frame_new ops h' hncl' (fun op ho a ha => hnew_ge a (hops op ho a ha)) c hc']
    exact hpre c hc'
  · -- mutate the original
    intro ops hops
    simp only [molValue, Prod.mk.injEq, true_and]
    apply List.map_congr_left
    intro a' ha'
    exact hval_new _ (fun c hc' =>
      applyOps_frame_old ops h' hcl' (fun op ho a ha => hold_lt a (hops op ho a ha)) c hc') a' ha'

/-! ### D6: the ORIGINAL recursive walk (documentation of the defect, not the property) -/

/-- TEST / EVALUATION of the model of the ORIGINAL code: on a 1001-atom chain the recursive
    `_find_connected_atoms` nests 1001 frames, beyond CPython's default limit of 1000 … -/
theorem chain_1001_depth : Graph.Orig.areConnected (chain 1001) 100000 = .ok (true, 1001) :=
  orig_chain_depth (by decide) (by decide)

/-- … so with the default limit it raises `RecursionError` (as it does for every longer chain) -/
theorem chain_1001_recursion_error :
    Graph.Orig.areConnected (chain 1001) 1000 = .error .RecursionError :=
  orig_chain_overflow (by decide) (by decide)

theorem chain_recursion_error (n : Nat) (h : 1000 < n) :
    Graph.Orig.areConnected (chain n) 1000 = .error .RecursionError :=
  orig_chain_overflow (by omega) h

/-! ### non-vacuity (evaluated) -/

/-- gapped numbering 3, 7, 12; bonds over `pairs` / `constraints` / a repeated `bonds`; a decoy
    `angles` section; comments, blank and preprocessor lines -/
def exTop : Str := [';', ' ', 't', '\n', '[', ' ', 'm', 'o', 'l', 'e', 'c', 'u', 'l', 'e', 't', 'y', 'p', 'e', ' ', ']', '\n', 'M', 'O', 'L', ' ', '1', ';', 'c', '\n', '[', 'a', 't', 'o', 'm', 's', ']', '\n', '3', ' ', 'C', ' ', '1', ' ', 'R', 'E', 'S', ' ', 'C', 'A', ' ', '1', ' ', '0', '.', '0', '\n', '#', 'i', 'f', 'd', 'e', 'f', ' ', 'X', '\n', ' ', '7', ' ', 'C', ' ', '1', ' ', 'R', 'E', 'S', ' ', 'C', 'B', ' ', '2', ' ', ';', ' ', 'b', '\n', '\n', '1', '2', ' ', 'C', ' ', '2', ' ', 'R', 'E', 'S', ' ', 'C', 'C', ' ', '3', '\n', '[', ' ', 'b', 'o', 'n', 'd', 's', ' ', ']', '\n', '3', ' ', '7', ' ', '1', '\n', '[', ' ', 'a', 'n', 'g', 'l', 'e', 's', ' ', ']', '\n', '3', ' ', '7', ' ', '1', '2', ' ', '1', '\n', '[', ' ', 'p', 'a', 'i', 'r', 's', ' ', ']', '\n', ';', ' ', 'n', 'o', 'n', 'e', '\n', '[', ' ', 'c', 'o', 'n', 's', 't', 'r', 'a', 'i', 'n', 't', 's', ' ', ']', '\n', '1', '2', ' ', '7', '\n', '[', ' ', 'b', 'o', 'n', 'd', 's', ' ', ']', '\n', '7', ' ', '3', ' ', ';', '\n']

example : wfText exTop = true := by decide

example : readTopology exTop =
    .ok ⟨['M', 'O', 'L'],
      [⟨['C', 'A'], ['R', 'E', 'S'], 1⟩, ⟨['C', 'B'], ['R', 'E', 'S'], 1⟩, ⟨['C', 'C'], ['R', 'E', 'S'], 2⟩],
      [(2, 1), (0, 1), (1, 0)]⟩ := by decide

example : (readTopology exTop).bind (fun T => (buildAdj T.atoms.length T.bonds).bind areConnected) =
    .ok true := by decide

/-- a live two-atom molecule on the heap, copied, then the copy mutated -/
example :
    let h0 : Heap := [.set [1], .atom ['A'] ['R'] 1 0 0, .set [0], .atom ['B'] ['R'] 1 1 2]
    let m : MolTop := ⟨['M'], [1, 3]⟩
    (molCopy h0 m).map (fun (h', m') =>
      (molValue h' m' == molValue h0 m,
       molValue (applyOps h' [.bondsDiscard 5 1, .setName 7 ['Z']]) m == molValue h0 m,
       molValue (applyOps h' [.bondsDiscard 5 1, .setName 7 ['Z']]) m' == molValue h0 m)) =
    some (true, true, false) := by decide

end C15
