import GMProofs.Props.C13
import GMModel.GroOpen
/-!
# C13 (work package WPI) — how a coordinate file is opened; getters; `seek_atom` in write mode

Model: `GMModel/GroOpen.lean` (`Gro.dispatch` / `register`, `correctMode`, `groOpenPath`, `groOpenObj`, `ropenObj`,
`wstepX` / `wrunX`).  Only property theorems and their non-vacuity examples live here.
-/
open PyStr Gro

namespace C13

/-! ### `open_coordinate_file` -/

/-- what one registration does to the dictionary: every extension of the new parser now leads to it (whatever it
    led to before), every other extension leads where it led; a parser without extensions (`None`, `()`) changes
    nothing -/
theorem register_spec (reg : Registry) (p : Nat) :
    register reg none p = reg ∧ register reg (some []) p = reg ∧
    ∀ (exts : List String) (e : String),
      (e ∈ exts → (register reg (some exts) p).lookup e = some p) ∧
      (e ∉ exts → (register reg (some exts) p).lookup e = reg.lookup e) := by
  refine ⟨rfl, rfl, ?_⟩
  intro exts
  induction exts generalizing reg with
  | nil => intro e; exact ⟨fun h => (by cases h), fun _ => rfl⟩
  | cons x xs ih =>
    intro e
    have hstep : register reg (some (x :: xs)) p = register ((x, p) :: reg) (some xs) p := rfl
    rw [hstep]
    obtain ⟨h1, h2⟩ := ih ((x, p) :: reg) e
    refine ⟨fun hm => ?_, fun hn => ?_⟩
    · by_cases hxs : e ∈ xs
      · exact h1 hxs
      · rw [h2 hxs]
        have : e = x := by
          rcases List.mem_cons.mp hm with h | h
          · exact h
          · exact absurd h hxs
        subst this
        simp [List.lookup]
    · simp only [List.mem_cons, not_or] at hn
      rw [h2 hn.2]
      simp only [List.lookup]
      have : (e == x) = false := by simpa using hn.1
      rw [this]

/-- **dispatch after a registration**: a name whose extension (what follows the last dot of its base name; the
    whole base name when there is no dot) is one of the new parser's yields that parser — also when the extension
    was `gro` —; every other name is dispatched as before -/
theorem dispatch_registered (reg : Registry) (exts : List String) (p : Nat) (fname : String) :
    (Cmp.extOf fname ∈ exts → dispatch (register reg (some exts) p) fname = .ok p) ∧
    (Cmp.extOf fname ∉ exts → dispatch (register reg (some exts) p) fname = dispatch reg fname) := by
  obtain ⟨_, _, h⟩ := register_spec reg p
  obtain ⟨h1, h2⟩ := h exts (Cmp.extOf fname)
  exact ⟨fun hm => by simp only [dispatch, h1 hm], fun hn => by simp only [dispatch, h2 hn]⟩

/-- **the shipped registry**: exactly the names with extension `gro` or `GRO` (compared as written: `Gro`, `gRO`,
    `gro.bak` are not) are given to `GroFile`; every other name is refused with `ValueError`.  `Cmp.extOk` — the
    test `write_gro` and `write_comparative_gro` go through — is this dispatch. -/
theorem dispatch_std (fname : String) :
    (Cmp.extOk fname = true → dispatch stdRegistry fname = .ok 1) ∧
    (Cmp.extOk fname = false → dispatch stdRegistry fname = .error .valueError) := by
  have hreg : stdRegistry = [("GRO", 1), ("gro", 1)] := rfl
  unfold Cmp.extOk
  rw [hreg]
  simp only [dispatch, List.lookup, Bool.or_eq_true, Bool.or_eq_false_iff]
  refine ⟨fun h => ?_, fun h => ?_⟩
  · rcases h with h | h
    · cases h2 : (Cmp.extOf fname == "GRO") <;> simp [h]
    · simp [h]
  · simp [h.1, h.2]

/-! ### `GroFile.__init__` -/

/-- **`_correct_mode`**: a mode without `'+'` is passed on as it is, silently; a mode with `'+'` loses every `'+'`
    AND every `'w'` (replaced by `'r'`), with a warning -/
theorem correct_mode_spec (mode : List Char) :
    ('+' ∉ mode → correctMode mode = (mode, false)) ∧
    ('+' ∈ mode → (correctMode mode).2 = true ∧ '+' ∉ (correctMode mode).1 ∧ 'w' ∉ (correctMode mode).1) := by
  refine ⟨fun h => ?_, fun h => ?_⟩
  · have : mode.contains '+' = false := by simpa using h
    simp only [correctMode, this, Bool.false_eq_true, ↓reduceIte]
  · have : mode.contains '+' = true := by simpa using h
    simp only [correctMode, this, ↓reduceIte, true_and]
    refine ⟨?_, ?_⟩
    · intro hm
      obtain ⟨c, hc, he⟩ := List.mem_map.mp hm
      have hne : c ≠ '+' := by simpa using (List.mem_filter.mp hc).2
      split at he
      · cases he
      · exact hne he
    · intro hm
      obtain ⟨c, _, he⟩ := List.mem_map.mp hm
      split at he
      · cases he
      · rename_i hcw
        subst he
        simp at hcw

/-- … hence **a `'+'` mode never opens for writing**: `GroFile(path, 'w+')` does not truncate — it READS the file
    (`'w+'`, `'r+'`, `'+r'` → `'r'`), and no `'+'` request yields an object that accepts the write-mode setters -/
theorem plus_mode_never_writes (mode : List Char) (pathExists : Bool) (o : Opened) (hp : '+' ∈ mode)
    (h : groOpenPath mode pathExists = .ok o) : o.writable = false ∧ o.warned = true := by
  obtain ⟨h1, _, h3⟩ := (correct_mode_spec mode).2 hp
  unfold groOpenPath at h
  cases hc : correctMode mode with
  | mk m w =>
    rw [hc] at h h1 h3
    simp only at h h1 h3
    cases hm : pyOpenMode m with
    | error e => simp [hm] at h
    | ok u =>
      simp only [hm] at h
      split at h
      · cases h
      · split at h
        · cases h
        · injection h with h
          subst h
          exact ⟨by simpa using h3, h1⟩

/-- **an already open file object** must be in mode `'r'` exactly (`'rt'`, `'r+'`, `'rb'`, `'w'` … raise `IOError`
    before anything is read); positioned at the start it gives the reader of the path -/
theorem fileobj_spec (P : Parsers) (bs : List Nat) :
    (∀ fmode pos, fmode ≠ ['r'] → ropenObj P fmode bs pos = .error .ioError) ∧
    ropenObj P ['r'] bs 0 = ropen P bs := by
  refine ⟨fun fmode pos h => ?_, ?_⟩
  · simp only [ropenObj, groOpenObj, h, ne_eq, not_false_eq_true, ↓reduceIte]
  · simp [ropenObj, groOpenObj]

/-! ### getters and `seek_atom` in write mode -/

def IsGetter : WOpX → Prop
  | .getNatoms | .getPosFmt | .getComment => True
  | _ => False

instance : DecidablePred IsGetter := fun x => by cases x <;> unfold IsGetter <;> infer_instance

/-- a getter never changes the state of the session; `natoms` without a count (nothing declared, file not yet
    closed) raises `ValueError`; `position_format` and `comment` answer the defaults while unset -/
theorem getters_spec (s : WState) :
    (∀ x, IsGetter x → (wstepX s x).1 = s) ∧
    (s.natoms = none → wstepX s .getNatoms = (s, .error .valueError)) ∧
    (∀ n, s.natoms = some n → wstepX s .getNatoms = (s, .ok (.int n))) ∧
    (s.fmtPos = none → wstepX s .getPosFmt = (s, .ok (.fmt 8 3))) ∧
    (s.comment = none → wstepX s .getComment = (s, .ok (.text defaultComment))) := by
  refine ⟨?_, ?_, ?_, ?_, ?_⟩
  · intro x hx
    cases x with
    | getNatoms => simp only [wstepX]; split <;> rfl
    | getPosFmt => rfl
    | getComment => rfl
    | base op => exact hx.elim
    | seekAtom i => exact hx.elim
  · intro h; simp only [wstepX, h]
  · intro n h; simp only [wstepX, h]
  · intro h; simp only [wstepX, WState.effFormat, h, defaultFormat]
  · intro h; simp only [wstepX, WState.effComment, h]

/-- … so the getters are invisible: a session with getters in between leaves the state (hence the file) of the
    session without them -/
theorem getters_invisible : ∀ (s : WState) (xs : List WOpX),
    (wrunX s xs).1 = (wrunX s (xs.filter (fun x => !decide (IsGetter x)))).1
  | _, [] => rfl
  | s, x :: xs => by
    by_cases hx : IsGetter x
    · have h1 : (wstepX s x).1 = s := (getters_spec s).1 x hx
      simp only [wrunX, List.filter_cons, hx, decide_true, Bool.not_true, Bool.false_eq_true, ↓reduceIte]
      rw [← getters_invisible s xs]
      cases hs : wstepX s x with
      | mk s1 r =>
        rw [hs] at h1
        simp only at h1
        subst h1
        rfl
    · simp only [wrunX, List.filter_cons, hx, decide_false, Bool.not_false, ↓reduceIte]
      cases hs : wstepX s x with
      | mk s1 r =>
        simp only
        rw [getters_invisible s1 xs]

/-- a session of base operations only IS the session of `GMModel.Gro` (every theorem of `Props/C13.lean` and
    `C13Extra.lean` applies) -/
theorem wrunX_base : ∀ (s : WState) (ops : List Op),
    (wrunX s (ops.map WOpX.base)).1 = (run s ops).1
  | _, [] => rfl
  | s, op :: ops => by
    simp only [List.map_cons, wrunX, run, wstepX]
    cases hs : step s op with
    | mk s1 e =>
      cases e <;> simp only [] <;> exact wrunX_base s1 ops

/-- **`seek_atom` on a file opened for writing**: `_current_atom` is assigned first; without a count the `natoms`
    getter raises `ValueError`; an index beyond the count raises `IndexError`; before the first line was written
    ("Error in initalizaiton") `ValueError` — in all three cases nothing but `_current_atom` changes -/
theorem seek_atom_write_spec (s : WState) (index : Int) :
    (s.natoms = none → wSeekAtomClient s index = ({ s with cur := index }, some .valueError)) ∧
    (∀ n, s.natoms = some n → index > n → wSeekAtomClient s index = ({ s with cur := index }, some .indexError)) ∧
    (∀ n, s.natoms = some n → index ≤ n → s.initPos = none →
      wSeekAtomClient s index = ({ s with cur := index }, some .valueError)) := by
  refine ⟨fun h => ?_, fun n h hi => ?_, fun n h hi h0 => ?_⟩
  · simp only [wSeekAtomClient, h]
  · simp only [wSeekAtomClient, h, wSeekAtom, hi, ↓reduceIte]
  · have : ¬ index > n := by omega
    simp only [wSeekAtomClient, h, wSeekAtom, this, ↓reduceIte, h0]

/-! ### non-vacuity (evaluated by the kernel — tests) -/

example : dispatch stdRegistry "/tmp/x/a.gro" = .ok 1 ∧ dispatch stdRegistry "b.GRO" = .ok 1 ∧
    dispatch stdRegistry "c.Gro" = .error .valueError ∧ dispatch stdRegistry "d.gro.bak" = .error .valueError ∧
    dispatch stdRegistry "dir.gro/e" = .error .valueError ∧ dispatch stdRegistry "gro" = .ok 1 ∧
    dispatch stdRegistry "f." = .error .valueError := by decide

/-- a parser registered for `gro` takes over `.gro` names, `.GRO` stays with `GroFile` -/
example : dispatch (register stdRegistry (some ["xyzt", "gro"]) 2) "a.gro" = .ok 2 ∧
    dispatch (register stdRegistry (some ["xyzt", "gro"]) 2) "a.GRO" = .ok 1 ∧
    dispatch (register stdRegistry (some ["xyzt", "gro"]) 2) "a.xyzt" = .ok 2 := by decide

example : correctMode "w+".toList = ("r".toList, true) ∧ correctMode "a+".toList = ("a".toList, true) ∧
    correctMode "w".toList = ("w".toList, false) := by decide

example : groOpenPath "w+".toList true = .ok ⟨"r".toList, true, true, false⟩ ∧
    groOpenPath "w+".toList false = .error .ioError ∧ groOpenPath "rw".toList true = .error .valueError ∧
    groOpenPath "x".toList true = .error .ioError ∧ groOpenPath "w".toList false = .ok ⟨"w".toList, false, false, true⟩ := by
  decide

/-- the three refusals of `seek_atom` in a fresh write session, and the getter without a count -/
example : (wrunX WState.init [.getNatoms, .seekAtom 0, .base (.setNatoms 5), .seekAtom 0, .seekAtom 7, .getNatoms]).2 =
    [.error .valueError, .error .valueError, .ok .unit, .error .valueError, .error .indexError, .ok (.int 5)] := by
  decide

end C13
