import Lean
/-- simp set: unfold the vector/matrix layer of the model and the `Scalar ℝ` instance -/
register_simp_attr gm
