import GMModel.Vec3
import GMProofs.Attr
import Mathlib.Analysis.Real.Sqrt
import Mathlib.Analysis.SpecialFunctions.Trigonometric.Basic
import Mathlib.Algebra.Order.Round
import Mathlib.Tactic.Ring
import Mathlib.Tactic.Linarith
import Mathlib.Tactic.LinearCombination
import Mathlib.Tactic.FieldSimp
import Mathlib.Tactic.NormNum
import Mathlib.Tactic.Positivity
/-
  GMProofs.RealScalar — the `Scalar ℝ` instance the theorems are about, and the simp set that
  turns a goal about model code at `α := ℝ` into ordinary real algebra.
-/

/-- `np.round` on ℝ: round half to even. -/
noncomputable def Real.roundHalfEven (x : ℝ) : ℝ :=
  if x - ⌊x⌋ < 1 / 2 then (⌊x⌋ : ℝ)
  else if 1 / 2 < x - ⌊x⌋ then (⌊x⌋ : ℝ) + 1
  else if Even ⌊x⌋ then (⌊x⌋ : ℝ) else (⌊x⌋ : ℝ) + 1

noncomputable instance : Scalar ℝ where
  add := (· + ·)
  sub := (· - ·)
  mul := (· * ·)
  div := (· / ·)
  neg := (- ·)
  zero := 0
  one := 1
  ofInt n := (n : ℝ)
  ofDec m e := (m : ℝ) / (10 : ℝ) ^ e
  sqrt := Real.sqrt
  cos := Real.cos
  sin := Real.sin
  isZero x := decide (x = 0)
  lt a b := decide (a < b)
  le a b := decide (a ≤ b)
  round := Real.roundHalfEven
  abs x := |x|

namespace RS
@[simp] theorem add_def (a b : ℝ) : @HAdd.hAdd ℝ ℝ ℝ (@instHAdd ℝ Scalar.toAdd) a b = a + b := rfl
@[simp] theorem sub_def (a b : ℝ) : @HSub.hSub ℝ ℝ ℝ (@instHSub ℝ Scalar.toSub) a b = a - b := rfl
@[simp] theorem mul_def (a b : ℝ) : @HMul.hMul ℝ ℝ ℝ (@instHMul ℝ Scalar.toMul) a b = a * b := rfl
@[simp] theorem div_def (a b : ℝ) : @HDiv.hDiv ℝ ℝ ℝ (@instHDiv ℝ Scalar.toDiv) a b = a / b := rfl
@[simp] theorem neg_def (a : ℝ) : @Neg.neg ℝ Scalar.toNeg a = -a := rfl
@[simp] theorem zero_def : (Scalar.zero : ℝ) = 0 := rfl
@[simp] theorem one_def : (Scalar.one : ℝ) = 1 := rfl
@[simp] theorem ofInt_def (n : Int) : (Scalar.ofInt n : ℝ) = (n : ℝ) := rfl
@[simp] theorem ofDec_def (m : Int) (e : Nat) : (Scalar.ofDec m e : ℝ) = (m : ℝ) / (10 : ℝ) ^ e := rfl
@[simp] theorem sqrt_def (a : ℝ) : Scalar.sqrt a = Real.sqrt a := rfl
@[simp] theorem cos_def (a : ℝ) : Scalar.cos a = Real.cos a := rfl
@[simp] theorem sin_def (a : ℝ) : Scalar.sin a = Real.sin a := rfl
@[simp] theorem isZero_def (a : ℝ) : Scalar.isZero a = decide (a = 0) := rfl
@[simp] theorem lt_def (a b : ℝ) : Scalar.lt a b = decide (a < b) := rfl
@[simp] theorem le_def (a b : ℝ) : Scalar.le a b = decide (a ≤ b) := rfl
@[simp] theorem round_def (a : ℝ) : Scalar.round a = Real.roundHalfEven a := rfl
@[simp] theorem abs_def (a : ℝ) : Scalar.abs a = |a| := rfl
end RS

attribute [gm] RS.add_def RS.sub_def RS.mul_def RS.div_def RS.neg_def RS.zero_def RS.one_def
  RS.ofInt_def RS.ofDec_def RS.sqrt_def RS.cos_def RS.sin_def RS.isZero_def RS.lt_def RS.le_def
  RS.round_def RS.abs_def
attribute [gm] V3.zero V3.add V3.sub V3.neg V3.smul V3.muls V3.divs V3.dot V3.cross V3.norm V3.norm2
  V3.allZero M3.add M3.sub M3.smul M3.eye M3.outer M3.col0 M3.col1 M3.col2 M3.transpose M3.mulVec
  M3.vecMul M3.mul M3.det M3.trace Scalar.hypot
@[gm] theorem V3.hadd_def (a b : V3 ℝ) : a + b = V3.add a b := rfl
@[gm] theorem V3.hsub_def (a b : V3 ℝ) : a - b = V3.sub a b := rfl
@[gm] theorem V3.hneg_def (a : V3 ℝ) : -a = V3.neg a := rfl
