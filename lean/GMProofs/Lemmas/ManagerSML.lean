import GMModel.ManagerSM
import GMProofs.Lemmas.ManagerL
/-
  GMProofs.Lemmas.ManagerSML — helper lemmas about the `Manager` state machine `GMModel.ManagerSM`
  (core Lean only): the dictionary operations, the `end` setter, `calcMaps`, `preflight`, the run's
  table rewrite, and the invariants every history keeps.
-/

namespace MgrSM

open Mgr (PyErr velOk)

variable {S : Type}

/-! ### the dictionary -/

theorem mem_of_lookup {t : Table S} {k : String} {e : Entry S} (h : t.lookup k = some e) :
    (k, e) ∈ t := by
  induction t with
  | nil => simp at h
  | cons p ps ih =>
    obtain ⟨k', e'⟩ := p
    simp only [List.lookup] at h
    by_cases hk : k = k'
    · subst hk
      simp only [beq_self_eq_true] at h
      cases h
      exact List.mem_cons_self ..
    · have : (k == k') = false := by simpa using hk
      simp only [this] at h
      exact List.mem_cons_of_mem _ (ih h)

theorem lookup_isSome_of_mem {t : Table S} {p : String × Entry S} (h : p ∈ t) :
    (t.lookup p.1).isSome = true := by
  induction t with
  | nil => simp at h
  | cons q qs ih =>
    obtain ⟨k', e'⟩ := q
    simp only [List.lookup]
    by_cases hk : p.1 = k'
    · simp [hk]
    · have : (p.1 == k') = false := by simpa using hk
      simp only [this]
      rcases List.mem_cons.mp h with rfl | h'
      · exact absurd rfl hk
      · exact ih h'

theorem set_cons (q : String) (e : Entry S) (ps : Table S) (k : String) (v : Entry S) :
    Table.set ((q, e) :: ps) k v = (if q = k then (q, v) else (q, e)) :: Table.set ps k v := by
  by_cases h : q = k
  · simp [Table.set, h]
  · have : (q == k) = false := by simpa using h
    simp [Table.set, h]

theorem lookup_cons (k q : String) (e : Entry S) (ps : Table S) :
    List.lookup k ((q, e) :: ps) = if k = q then some e else List.lookup k ps := by
  by_cases h : k = q
  · simp [List.lookup, h]
  · have : (k == q) = false := by simpa using h
    simp [List.lookup, this, h]

theorem keys_set (t : Table S) (k : String) (v : Entry S) :
    (t.set k v).map (·.1) = t.map (·.1) := by
  induction t with
  | nil => rfl
  | cons p ps ih =>
    obtain ⟨q, e⟩ := p
    rw [set_cons]
    by_cases h : q = k <;> simp [h, ih]

theorem length_set (t : Table S) (k : String) (v : Entry S) : (t.set k v).length = t.length := by
  simp [Table.set]

theorem lookup_set_self {t : Table S} {k : String} (v : Entry S) (h : (t.lookup k).isSome = true) :
    (t.set k v).lookup k = some v := by
  induction t with
  | nil => simp at h
  | cons p ps ih =>
    obtain ⟨k', e'⟩ := p
    rw [set_cons]
    by_cases hk : k' = k
    · rw [if_pos hk, lookup_cons, if_pos hk.symm]
    · have hk' : ¬ k = k' := fun e => hk e.symm
      rw [lookup_cons, if_neg hk'] at h
      rw [if_neg hk, lookup_cons, if_neg hk']
      exact ih h

theorem lookup_set_ne (t : Table S) {k k' : String} (v : Entry S) (h : k' ≠ k) :
    (t.set k v).lookup k' = t.lookup k' := by
  induction t with
  | nil => rfl
  | cons p ps ih =>
    obtain ⟨q, e⟩ := p
    rw [set_cons]
    by_cases hq : q = k
    · subst hq
      rw [if_pos rfl, lookup_cons, lookup_cons, if_neg h, if_neg h, ih]
    · rw [if_neg hq, lookup_cons, lookup_cons, ih]

/-- what `d[k] = v` leaves in the table: the entries under other keys, and `(k, v)` -/
theorem mem_set {t : Table S} {k : String} {v : Entry S} {p : String × Entry S} :
    p ∈ t.set k v ↔ (p.1 ≠ k ∧ p ∈ t) ∨ (p = (k, v) ∧ ∃ e, (k, e) ∈ t) := by
  simp only [Table.set, List.mem_map]
  constructor
  · rintro ⟨q, hq, rfl⟩
    by_cases h : q.1 = k
    · right
      have : (q.1 == k) = true := by simpa using h
      simp only [this, if_true]
      exact ⟨by rw [h], q.2, by rw [← h]; exact hq⟩
    · left
      have : (q.1 == k) = false := by simpa using h
      simp only [this]
      exact ⟨h, hq⟩
  · rintro (⟨hne, hp⟩ | ⟨rfl, e, he⟩)
    · refine ⟨p, hp, ?_⟩
      have : (p.1 == k) = false := by simpa using hne
      simp [this]
    · exact ⟨(k, e), he, by simp⟩

/-! ### `Molecule.__eq__` -/

theorem atomEq_iff (a b : AtomSig) : atomEq a b = true ↔ a = b := by
  cases a; cases b
  simp [atomEq, and_assoc]

theorem zipAtomsEq_refl (l : List AtomSig) : zipAtomsEq l l = true := by
  induction l with
  | nil => rfl
  | cons a as ih => simp [zipAtomsEq, (atomEq_iff a a).mpr rfl, ih]

theorem zipAtomsEq_iff {l l' : List AtomSig} (h : l.length = l'.length) :
    zipAtomsEq l l' = true ↔ l = l' := by
  induction l generalizing l' with
  | nil =>
    cases l' with
    | nil => simp [zipAtomsEq]
    | cons _ _ => simp at h
  | cons a as ih =>
    cases l' with
    | nil => simp at h
    | cons b bs =>
      have h' : as.length = bs.length := by simpa using h
      by_cases hab : atomEq a b = true
      · have hab' := (atomEq_iff a b).mp hab
        subst hab'
        simp [zipAtomsEq, hab, ih h']
      · have hne : a ≠ b := fun e => hab ((atomEq_iff a b).mpr e)
        have hf : atomEq a b = false := by simpa using hab
        simp [zipAtomsEq, hf, hne]

/-- `Molecule.__eq__` is: same name and the same atoms (`resname`, `name`, `index`, `top_resid`) in
    the same order — nothing about coordinates, the topology object, or the residue grouping -/
theorem molEq_iff (a b : Mol) : molEq a b = true ↔ a.name = b.name ∧ a.atoms = b.atoms := by
  unfold molEq
  by_cases hn : b.name = a.name
  · by_cases hl : b.atoms.length = a.atoms.length
    · simp only [hn, hl, beq_self_eq_true, Bool.and_self, if_true]
      rw [zipAtomsEq_iff hl.symm]
      simp
    · have : (b.atoms.length == a.atoms.length) = false := by simpa using hl
      simp only [this, Bool.and_false, Bool.false_eq_true, if_false, false_iff]
      rintro ⟨_, h⟩
      exact hl (by rw [h])
  · have : (b.name == a.name) = false := by simpa using hn
    simp only [this, Bool.false_and, Bool.false_eq_true, if_false, false_iff]
    rintro ⟨h, _⟩
    exact hn h.symm

theorem molEq_refl (a : Mol) : molEq a a = true := (molEq_iff a a).mpr ⟨rfl, rfl⟩

/-! ### the `end` setter -/

/-- the value an accepted argument leaves in `_end` -/
def Arg.toEnd : Arg → Option Mol
  | .mol m => Option.some m
  | _ => Option.none

/-- a successful assignment changes the `end` field and nothing else -/
theorem setEndEntry_ok {e e' : Entry S} {a : Arg} (h : setEndEntry e a = .ok e') :
    e'.start = e.start ∧ e'.map = e.map ∧ e'.end_ = a.toEnd ∧ a ≠ .notMol := by
  cases a with
  | none => simp only [setEndEntry] at h; cases h; simp [Arg.toEnd]
  | notMol => simp [setEndEntry] at h
  | mol m =>
    simp only [setEndEntry] at h
    split at h
    · split at h
      · cases h; simp [Arg.toEnd]
      · simp at h
    · cases h; simp [Arg.toEnd]

/-- the first end molecule is accepted whatever it is -/
theorem setEndEntry_first (e : Entry S) (m : Mol) (h : e.end_ = none) :
    setEndEntry e (.mol m) = .ok { e with end_ := some m } := by
  simp only [setEndEntry]
  split
  · rename_i h2
    rw [h] at h2
    cases h2
  · rfl

theorem setEnd_ok {t t' : Table S} {k : String} {a : Arg} (h : setEnd t k a = .ok t') :
    ∃ e e', t.lookup k = some e ∧ setEndEntry e a = .ok e' ∧ t' = t.set k e' := by
  simp only [setEnd] at h
  cases hl : t.lookup k with
  | none => simp [hl] at h
  | some e =>
    simp only [hl] at h
    cases hs : setEndEntry e a with
    | error err => simp [hs] at h
    | ok e' =>
      simp only [hs] at h
      cases h
      exact ⟨e, e', rfl, hs, rfl⟩

/-! ### complete species and `calcMaps` -/

/-- what `init_exchange_map` does to a complete `Alignment` -/
def withMap (s : S) (e : Entry S) : Entry S :=
  match e.start, e.end_ with
  | some a, some b => { e with map := some ⟨a, b, s⟩ }
  | _, _ => e

/-- `calculate_exchange_maps` as a pointwise update -/
def calcSpec (s : S) (t : Table S) : Table S :=
  t.map (fun p => (p.1, if isComplete p.2 then withMap s p.2 else p.2))

theorem isComplete_iff (e : Entry S) :
    isComplete e = true ↔ ∃ a b, e.start = some a ∧ e.end_ = some b := by
  cases hs : e.start <;> cases he : e.end_ <;> simp [isComplete, hs, he]

theorem initExchangeMap_complete (s : S) (e : Entry S) (h : isComplete e = true) :
    initExchangeMap s e = .ok (withMap s e) := by
  obtain ⟨a, b, ha, hb⟩ := (isComplete_iff e).mp h
  simp [initExchangeMap, withMap, ha, hb]

/-- `calculate_exchange_maps` never raises, and is the pointwise update -/
theorem calcMaps_eq (s : S) (t : Table S) : calcMaps s t = .ok (calcSpec s t) := by
  induction t with
  | nil => rfl
  | cons p ps ih =>
    obtain ⟨k, e⟩ := p
    by_cases h : isComplete e = true
    · simp [calcMaps, h, initExchangeMap_complete s e h, ih, calcSpec]
    · have h' : isComplete e = false := by simpa using h
      simp [calcMaps, h', ih, calcSpec]

theorem withMap_fields (s : S) (e : Entry S) :
    (withMap s e).start = e.start ∧ (withMap s e).end_ = e.end_ := by
  unfold withMap
  split <;> simp

theorem isComplete_withMap (s : S) (e : Entry S) : isComplete (withMap s e) = isComplete e := by
  simp [isComplete, (withMap_fields s e).1, (withMap_fields s e).2]

theorem keys_calcSpec (s : S) (t : Table S) : (calcSpec s t).map (·.1) = t.map (·.1) := by
  simp [calcSpec, List.map_map, Function.comp_def]

theorem lookup_calcSpec (s : S) (t : Table S) (k : String) :
    (calcSpec s t).lookup k =
      (t.lookup k).map (fun e => if isComplete e then withMap s e else e) := by
  induction t with
  | nil => rfl
  | cons p ps ih =>
    obtain ⟨q, e⟩ := p
    simp only [calcSpec] at ih
    by_cases h : k = q
    · subst h
      simp [calcSpec, List.lookup]
    · have : (k == q) = false := by simpa using h
      simp [calcSpec, List.lookup, this, ih]

/-! ### `preflight` -/

/-- the pre-flight checks pass: something is complete and every complete species has its map -/
def Ready (t : Table S) : Prop :=
  (∃ p ∈ t, isComplete p.2 = true) ∧ ∀ p ∈ t, isComplete p.2 = true → p.2.map.isSome = true

theorem completeOf_isEmpty_iff (t : Table S) :
    (completeOf t).isEmpty = true ↔ ¬ ∃ p ∈ t, isComplete p.2 = true := by
  simp only [completeOf, List.isEmpty_iff, List.filter_eq_nil_iff, not_exists, not_and]

theorem completeOf_any_iff (t : Table S) :
    (completeOf t).any (fun p => p.2.map.isNone) = true ↔
      ∃ p ∈ t, isComplete p.2 = true ∧ p.2.map.isSome = false := by
  simp only [completeOf, List.any_eq_true, List.mem_filter]
  constructor
  · rintro ⟨p, ⟨hp, hc⟩, hm⟩
    refine ⟨p, hp, hc, ?_⟩
    cases h : p.2.map <;> simp_all
  · rintro ⟨p, hp, hc, hm⟩
    refine ⟨p, ⟨hp, hc⟩, ?_⟩
    cases h : p.2.map <;> simp_all

theorem preflight_ready {t : Table S} (h : Ready t) (extOk : Bool) :
    preflight t extOk = if extOk then none else some .ValueError := by
  have h1 : (completeOf t).isEmpty = false := by
    cases hh : (completeOf t).isEmpty with
    | false => rfl
    | true => exact absurd h.1 ((completeOf_isEmpty_iff t).mp hh)
  have h2 : (completeOf t).any (fun p => p.2.map.isNone) = false := by
    cases hh : (completeOf t).any (fun p => p.2.map.isNone) with
    | false => rfl
    | true =>
      obtain ⟨p, hp, hc, hm⟩ := (completeOf_any_iff t).mp hh
      rw [h.2 p hp hc] at hm
      cases hm
  cases extOk <;> simp [preflight, h1, h2]

theorem preflight_not_ready {t : Table S} (h : ¬ Ready t) (extOk : Bool) :
    preflight t extOk = some .SystemError := by
  by_cases h1 : (completeOf t).isEmpty = true
  · simp [preflight, h1]
  · have h1' : (completeOf t).isEmpty = false := by simpa using h1
    have hex : ∃ p ∈ t, isComplete p.2 = true := by
      apply Classical.byContradiction
      intro hc
      exact h1 ((completeOf_isEmpty_iff t).mpr hc)
    have h2 : (completeOf t).any (fun p => p.2.map.isNone) = true := by
      rw [completeOf_any_iff]
      apply Classical.byContradiction
      intro hc
      apply h
      refine ⟨hex, fun p hp hcpl => ?_⟩
      cases hm : p.2.map.isSome with
      | true => rfl
      | false => exact absurd ⟨p, hp, hcpl, hm⟩ hc
    simp [preflight, h1', h2]

/-! ### the run: only `topResid` fields move -/

/-- a molecule with its `top_resid` fields forgotten -/
def Mol.shape (m : Mol) : String × Nat × Nat × Bool × List (List (String × String × Int)) :=
  (m.name, m.top, m.inst, m.hasVel, m.residues.map (·.map (fun a => (a.resname, a.name, a.index))))

theorem setResids_shape (resids : List Int) (rs : List (List AtomSig)) :
    (setResids resids rs).map (·.map (fun a => (a.resname, a.name, a.index))) =
      rs.map (·.map (fun a => (a.resname, a.name, a.index))) := by
  induction resids generalizing rs with
  | nil => cases rs <;> simp [setResids]
  | cons r rest ih =>
    cases rs with
    | nil => simp [setResids]
    | cons a as => simp [setResids, ih, Function.comp_def]

theorem rewriteMol_shape (top : Nat) (resids : List Int) (m : Mol) :
    (rewriteMol top resids m).shape = m.shape := by
  unfold rewriteMol
  split
  · simp [Mol.shape, setResids_shape]
  · rfl

theorem setResids_length (resids : List Int) (rs : List (List AtomSig)) :
    (setResids resids rs).length = rs.length := by
  induction resids generalizing rs with
  | nil => cases rs <;> simp [setResids]
  | cons r rest ih =>
    cases rs with
    | nil => simp [setResids]
    | cons a as => simp [setResids, ih]

theorem rewriteMol_top (top : Nat) (resids : List Int) (m : Mol) :
    (rewriteMol top resids m).top = m.top := by
  unfold rewriteMol; split <;> rfl

theorem rewriteMol_hasVel (top : Nat) (resids : List Int) (m : Mol) :
    (rewriteMol top resids m).hasVel = m.hasVel := by
  unfold rewriteMol; split <;> rfl

theorem rewriteMol_residues_length (top : Nat) (resids : List Int) (m : Mol) :
    (rewriteMol top resids m).residues.length = m.residues.length := by
  unfold rewriteMol; split
  · simp [setResids_length]
  · rfl

/-- presence of start / end / map of every entry, and the keys: what `preflight` reads -/
def Entry.flags (e : Entry S) : Bool × Bool × Bool := (e.start.isSome, e.end_.isSome, e.map.isSome)

theorem rewriteEntry_flags (top : Nat) (resids : List Int) (e : Entry S) :
    (rewriteEntry top resids e).flags = e.flags := by
  simp [rewriteEntry, Entry.flags]

theorem keys_rewriteTable (top : Nat) (resids : List Int) (t : Table S) :
    (rewriteTable top resids t).map (·.1) = t.map (·.1) := by
  simp [rewriteTable, List.map_map, Function.comp_def]

theorem flags_rewriteTable (top : Nat) (resids : List Int) (t : Table S) :
    (rewriteTable top resids t).map (fun p => (p.1, p.2.flags)) = t.map (fun p => (p.1, p.2.flags)) := by
  simp [rewriteTable, List.map_map, Function.comp_def, rewriteEntry_flags]

/-- the run never changes keys or presence flags, and never raises `SystemError` -/
theorem runLoop_flags (complete : Table S) (sys : List (String × List Int)) :
    ∀ (t : Table S) (vel : Option Bool),
      (runLoop complete t vel sys).1.map (fun p => (p.1, p.2.flags)) = t.map (fun p => (p.1, p.2.flags)) ∧
      (runLoop complete t vel sys).2 ≠ some .SystemError := by
  induction sys with
  | nil => intro t vel; simp [runLoop]
  | cons x rest ih =>
    intro t vel
    obtain ⟨name, resids⟩ := x
    simp only [runLoop]
    split
    · exact ih t vel
    · split
      · simp
      · split
        · simp
        · split
          · simp
          · split
            · refine ⟨?_, (ih _ _).2⟩
              rw [(ih _ _).1, flags_rewriteTable]
            · split
              · refine ⟨?_, (ih _ _).2⟩
                rw [(ih _ _).1, flags_rewriteTable]
              · simp [flags_rewriteTable]

/-! ### readiness depends on keys and flags only -/

theorem ready_of_flags {t t' : Table S}
    (h : t'.map (fun p => (p.1, p.2.flags)) = t.map (fun p => (p.1, p.2.flags))) :
    Ready t' ↔ Ready t := by
  have key : ∀ {a b : Table S}, a.map (fun p => (p.1, p.2.flags)) = b.map (fun p => (p.1, p.2.flags)) →
      Ready a → Ready b := by
    intro a b hab ⟨⟨p, hp, hc⟩, hall⟩
    have hmem : ∀ q ∈ b, ∃ p ∈ a, p.2.flags = q.2.flags := by
      intro q hq
      have : (q.1, q.2.flags) ∈ b.map (fun p => (p.1, p.2.flags)) := List.mem_map.mpr ⟨q, hq, rfl⟩
      rw [← hab] at this
      obtain ⟨p, hp, he⟩ := List.mem_map.mp this
      exact ⟨p, hp, (Prod.mk.inj he).2⟩
    have hmem' : ∀ p ∈ a, ∃ q ∈ b, p.2.flags = q.2.flags := by
      intro p hp
      have : (p.1, p.2.flags) ∈ a.map (fun p => (p.1, p.2.flags)) := List.mem_map.mpr ⟨p, hp, rfl⟩
      rw [hab] at this
      obtain ⟨q, hq, he⟩ := List.mem_map.mp this
      exact ⟨q, hq, ((Prod.mk.inj he).2).symm⟩
    constructor
    · obtain ⟨q, hq, hf⟩ := hmem' p hp
      refine ⟨q, hq, ?_⟩
      simp only [Entry.flags, Prod.mk.injEq] at hf
      simpa [isComplete, ← hf.1, ← hf.2.1] using hc
    · intro q hq hcq
      obtain ⟨p, hp, hf⟩ := hmem q hq
      simp only [Entry.flags, Prod.mk.injEq] at hf
      have hcp : isComplete p.2 = true := by simpa [isComplete, hf.1, hf.2.1] using hcq
      rw [← hf.2.2]
      exact hall p hp hcp
  exact ⟨key h, key h.symm⟩

/-! ### one step: what every call keeps -/

theorem mem_flags {t t' : Table S}
    (h : t'.map (fun p => (p.1, p.2.flags)) = t.map (fun p => (p.1, p.2.flags)))
    {q : String × Entry S} (hq : q ∈ t') : ∃ p ∈ t, p.1 = q.1 ∧ p.2.flags = q.2.flags := by
  have : (q.1, q.2.flags) ∈ t'.map (fun p => (p.1, p.2.flags)) := List.mem_map.mpr ⟨q, hq, rfl⟩
  rw [h] at this
  obtain ⟨p, hp, he⟩ := List.mem_map.mp this
  exact ⟨p, hp, (Prod.mk.inj he).1, (Prod.mk.inj he).2⟩

theorem keys_of_flags {t t' : Table S}
    (h : t'.map (fun p => (p.1, p.2.flags)) = t.map (fun p => (p.1, p.2.flags))) :
    t'.map (·.1) = t.map (·.1) := by
  have := congrArg (List.map Prod.fst) h
  simpa [List.map_map, Function.comp_def] using this

/-- every entry has its start molecule -/
def AllStart (t : Table S) : Prop := ∀ p ∈ t, p.2.start.isSome = true

/-- a map object is only ever found on an entry that has an end molecule -/
def MapNeedsEnd (t : Table S) : Prop := ∀ p ∈ t, p.2.map.isSome = true → p.2.end_.isSome = true

theorem extrapolate_flags (st : State S) (extOk : Bool) :
    (extrapolate st extOk).1.table.map (fun p => (p.1, p.2.flags)) =
      st.table.map (fun p => (p.1, p.2.flags)) ∧
    (extrapolate st extOk).1.sys = st.sys := by
  unfold extrapolate
  split
  · exact ⟨rfl, rfl⟩
  · exact ⟨(runLoop_flags _ _ _ _).1, rfl⟩

theorem sys_step (st : State S) (op : Op S) : (step st op).1.sys = st.sys := by
  cases op with
  | addEnd a => simp only [step]; split <;> rfl
  | setEnd k a => simp only [step]; split <;> rfl
  | calcMaps s => simp only [step]; split <;> rfl
  | align keys => simp only [step]; split <;> rfl
  | extrapolate extOk => exact (extrapolate_flags st extOk).2

theorem keys_setEnd {t t' : Table S} {k : String} {a : Arg} (h : setEnd t k a = .ok t') :
    t'.map (·.1) = t.map (·.1) := by
  obtain ⟨e, e', _, _, rfl⟩ := setEnd_ok h
  exact keys_set ..

theorem addEnd_ok {t t' : Table S} {a : Arg} (h : addEnd t a = .ok t') :
    ∃ m, a = .mol m ∧ setEnd t m.name (.mol m) = .ok t' := by
  cases a with
  | none => simp [addEnd] at h
  | notMol => simp [addEnd] at h
  | mol m => exact ⟨m, rfl, h⟩

/-- the keys of the dictionary (and their order) never change -/
theorem keys_step (st : State S) (op : Op S) :
    (step st op).1.table.map (·.1) = st.table.map (·.1) := by
  cases op with
  | addEnd a =>
    simp only [step]
    split
    · rename_i t' h
      obtain ⟨m, _, h'⟩ := addEnd_ok h
      exact keys_setEnd h'
    · rfl
  | setEnd k a =>
    simp only [step]
    split
    · rename_i t' h
      exact keys_setEnd h
    · rfl
  | calcMaps s => simp only [step, calcMaps_eq]; exact keys_calcSpec ..
  | align keys => simp only [step]; split <;> rfl
  | extrapolate extOk => exact keys_of_flags (extrapolate_flags st extOk).1

theorem allStart_setEnd {t t' : Table S} {k : String} {a : Arg} (h : setEnd t k a = .ok t')
    (hs : AllStart t) : AllStart t' := by
  obtain ⟨e, e', hl, hse, rfl⟩ := setEnd_ok h
  intro p hp
  rcases mem_set.mp hp with ⟨_, hp'⟩ | ⟨rfl, _⟩
  · exact hs p hp'
  · rw [(setEndEntry_ok hse).1]
    exact hs (k, e) (mem_of_lookup hl)

theorem allStart_step (st : State S) (op : Op S) (hs : AllStart st.table) :
    AllStart (step st op).1.table := by
  cases op with
  | addEnd a =>
    simp only [step]
    split
    · rename_i t' h
      obtain ⟨m, _, h'⟩ := addEnd_ok h
      exact allStart_setEnd h' hs
    · exact hs
  | setEnd k a =>
    simp only [step]
    split
    · rename_i t' h
      exact allStart_setEnd h hs
    · exact hs
  | calcMaps s =>
    simp only [step, calcMaps_eq]
    intro p hp
    simp only [calcSpec, List.mem_map] at hp
    obtain ⟨q, hq, rfl⟩ := hp
    by_cases hc : isComplete q.2 = true
    · simp only [hc, if_true, (withMap_fields s q.2).1]
      exact hs q hq
    · have : isComplete q.2 = false := by simpa using hc
      simp only [this]
      exact hs q hq
  | align keys => simp only [step]; split <;> exact hs
  | extrapolate extOk =>
    intro q hq
    obtain ⟨p, hp, _, hf⟩ := mem_flags (extrapolate_flags st extOk).1 hq
    have := hs p hp
    simp only [Entry.flags, Prod.mk.injEq] at hf
    rw [← hf.1]
    exact this

theorem mapNeedsEnd_setEnd {t t' : Table S} {k : String} {a : Arg} (h : setEnd t k a = .ok t')
    (ha : a ≠ .none) (hs : MapNeedsEnd t) : MapNeedsEnd t' := by
  obtain ⟨e, e', hl, hse, rfl⟩ := setEnd_ok h
  intro p hp hm
  rcases mem_set.mp hp with ⟨_, hp'⟩ | ⟨rfl, _⟩
  · exact hs p hp' hm
  · obtain ⟨_, _, hend, hnm⟩ := setEndEntry_ok hse
    cases a with
    | none => exact absurd rfl ha
    | notMol => exact absurd rfl hnm
    | mol m => simp [hend, Arg.toEnd]

theorem mapNeedsEnd_step (st : State S) (op : Op S) (hr : op.isReset = false)
    (hs : MapNeedsEnd st.table) : MapNeedsEnd (step st op).1.table := by
  cases op with
  | addEnd a =>
    simp only [step]
    split
    · rename_i t' h
      obtain ⟨m, rfl, h'⟩ := addEnd_ok h
      exact mapNeedsEnd_setEnd h' (by simp) hs
    · exact hs
  | setEnd k a =>
    simp only [step]
    split
    · rename_i t' h
      have ha : a ≠ .none := by
        rintro rfl
        simp [Op.isReset] at hr
      exact mapNeedsEnd_setEnd h ha hs
    · exact hs
  | calcMaps s =>
    simp only [step, calcMaps_eq]
    intro p hp hm
    simp only [calcSpec, List.mem_map] at hp
    obtain ⟨q, hq, rfl⟩ := hp
    by_cases hc : isComplete q.2 = true
    · simp only [hc, if_true, (withMap_fields s q.2).2]
      obtain ⟨_, b, _, hb⟩ := (isComplete_iff q.2).mp hc
      simp [hb]
    · have hc' : isComplete q.2 = false := by simpa using hc
      simp only [hc'] at hm ⊢
      exact hs q hq hm
  | align keys => simp only [step]; split <;> exact hs
  | extrapolate extOk =>
    intro q hq hm
    obtain ⟨p, hp, _, hf⟩ := mem_flags (extrapolate_flags st extOk).1 hq
    simp only [Entry.flags, Prod.mk.injEq] at hf
    rw [← hf.2.1]
    exact hs p hp (by rw [hf.2.2]; exact hm)

/-! ### `Manager.__init__` -/

theorem insert_newAlignment_inv (t : Table S) (m : Mol)
    (h : ∀ p ∈ t, p.2.start.isSome = true ∧ p.2.end_ = none ∧ p.2.map = none) :
    ∀ p ∈ t.insert m.name (newAlignment m),
      p.2.start.isSome = true ∧ p.2.end_ = none ∧ p.2.map = none := by
  intro p hp
  unfold Table.insert at hp
  split at hp
  · rcases mem_set.mp hp with ⟨_, hp'⟩ | ⟨rfl, _⟩
    · exact h p hp'
    · simp [newAlignment]
  · rcases List.mem_append.mp hp with hp' | hp'
    · exact h p hp'
    · simp only [List.mem_singleton] at hp'
      subst hp'
      simp [newAlignment]

/-- a fresh `Manager`: every species has its start molecule, no end molecule, no map -/
theorem initTable_fresh (mols : List Mol) :
    ∀ p ∈ (initTable mols : Table S), p.2.start.isSome = true ∧ p.2.end_ = none ∧ p.2.map = none := by
  unfold initTable
  have : ∀ (t : Table S), (∀ p ∈ t, p.2.start.isSome = true ∧ p.2.end_ = none ∧ p.2.map = none) →
      ∀ p ∈ mols.foldl (fun t m => t.insert m.name (newAlignment m)) t,
        p.2.start.isSome = true ∧ p.2.end_ = none ∧ p.2.map = none := by
    induction mols with
    | nil => intro t h; exact h
    | cons m ms ih =>
      intro t h
      exact ih _ (insert_newAlignment_inv t m h)
  exact this [] (by simp)

/-! ### histories -/

theorem runOps_cons (st : State S) (op : Op S) (ops : List (Op S)) :
    runOps st (op :: ops) = runOps (step st op).1 ops := rfl

theorem runOps_append (st : State S) (a b : List (Op S)) :
    runOps st (a ++ b) = runOps (runOps st a) b := by
  simp [runOps, List.foldl_append]

theorem keys_runOps (st : State S) (ops : List (Op S)) :
    (runOps st ops).table.map (·.1) = st.table.map (·.1) ∧ (runOps st ops).sys = st.sys := by
  induction ops generalizing st with
  | nil => exact ⟨rfl, rfl⟩
  | cons op rest ih =>
    rw [runOps_cons]
    obtain ⟨h1, h2⟩ := ih (step st op).1
    exact ⟨h1.trans (keys_step st op), h2.trans (sys_step st op)⟩

theorem allStart_runOps (st : State S) (ops : List (Op S)) (hs : AllStart st.table) :
    AllStart (runOps st ops).table := by
  induction ops generalizing st with
  | nil => exact hs
  | cons op rest ih => exact ih _ (allStart_step st op hs)

theorem mapNeedsEnd_runOps (st : State S) (ops : List (Op S))
    (hr : ∀ op ∈ ops, op.isReset = false) (hs : MapNeedsEnd st.table) :
    MapNeedsEnd (runOps st ops).table := by
  induction ops generalizing st with
  | nil => exact hs
  | cons op rest ih =>
    exact ih _ (fun o ho => hr o (List.mem_cons_of_mem _ ho))
      (mapNeedsEnd_step st op (hr op (List.mem_cons_self ..)) hs)

/-! ### a complete species without map -/

/-- species `name` has both molecules and no map -/
def Broken (name : String) (t : Table S) : Prop :=
  ∃ e, t.lookup name = some e ∧ isComplete e = true ∧ e.map = none

theorem broken_not_ready {name : String} {t : Table S} (h : Broken name t) : ¬ Ready t := by
  obtain ⟨e, hl, hc, hm⟩ := h
  intro hr
  have := hr.2 (name, e) (mem_of_lookup hl) hc
  simp [hm] at this

theorem broken_setEnd {name : String} {t t' : Table S} {k : String} {a : Arg}
    (h : setEnd t k a = .ok t') (ha : a ≠ .none) (hb : Broken name t) : Broken name t' := by
  obtain ⟨e0, e0', hl0, hse, rfl⟩ := setEnd_ok h
  obtain ⟨e, hl, hc, hm⟩ := hb
  by_cases hk : name = k
  · subst hk
    rw [hl] at hl0
    cases hl0
    refine ⟨e0', lookup_set_self _ (by simp [hl]), ?_, ?_⟩
    · obtain ⟨hst, _, hend, hnm⟩ := setEndEntry_ok hse
      cases a with
      | none => exact absurd rfl ha
      | notMol => exact absurd rfl hnm
      | mol m =>
        obtain ⟨a0, _, ha0, _⟩ := (isComplete_iff e0).mp hc
        simp [isComplete, hend, hst, ha0, Arg.toEnd]
    · rw [(setEndEntry_ok hse).2.1]; exact hm
  · exact ⟨e, by rw [lookup_set_ne _ _ hk]; exact hl, hc, hm⟩

theorem broken_step {name : String} (st : State S) (op : Op S) (hc : op.isCalc = false)
    (hr : op.isReset = false) (hb : Broken name st.table) : Broken name (step st op).1.table := by
  cases op with
  | addEnd a =>
    simp only [step]
    split
    · rename_i t' h
      obtain ⟨m, rfl, h'⟩ := addEnd_ok h
      exact broken_setEnd h' (by simp) hb
    · exact hb
  | setEnd k a =>
    simp only [step]
    split
    · rename_i t' h
      have ha : a ≠ .none := by
        rintro rfl
        simp [Op.isReset] at hr
      exact broken_setEnd h ha hb
    · exact hb
  | calcMaps s => simp [Op.isCalc] at hc
  | align keys => simp only [step]; split <;> exact hb
  | extrapolate extOk =>
    simp only [step, extrapolate, preflight_not_ready (broken_not_ready hb)]
    exact hb

theorem broken_runOps {name : String} (st : State S) (ops : List (Op S))
    (h : ∀ op ∈ ops, op.isCalc = false ∧ op.isReset = false) (hb : Broken name st.table) :
    Broken name (runOps st ops).table := by
  induction ops generalizing st with
  | nil => exact hb
  | cons op rest ih =>
    have := h op (List.mem_cons_self ..)
    exact ih _ (fun o ho => h o (List.mem_cons_of_mem _ ho)) (broken_step st op this.1 this.2 hb)

/-- right after `calculate_exchange_maps` every complete species has a map -/
theorem ready_calcSpec (s : S) (t : Table S) (h : ∃ p ∈ t, isComplete p.2 = true) :
    Ready (calcSpec s t) := by
  constructor
  · obtain ⟨p, hp, hc⟩ := h
    refine ⟨(p.1, if isComplete p.2 then withMap s p.2 else p.2), ?_, ?_⟩
    · exact List.mem_map.mpr ⟨p, hp, rfl⟩
    · simp [hc, isComplete_withMap]
  · intro q hq hcq
    simp only [calcSpec, List.mem_map] at hq
    obtain ⟨p, hp, rfl⟩ := hq
    by_cases hc : isComplete p.2 = true
    · obtain ⟨a, b, ha, hb⟩ := (isComplete_iff p.2).mp hc
      simp [hc, withMap, ha, hb]
    · have hc' : isComplete p.2 = false := by simpa using hc
      simp only [hc'] at hcq
      simp [hc'] at hcq

/-! ### the run's exception class is that of `Mgr.loop` -/

theorem lookup_toCorr {C P : Type} (interp : MapRec S → Mgr.EMap C P) (t : Table S) (k : String) :
    (toCorr interp t).lookup k =
      (t.lookup k).map (fun e => ⟨e.start.isSome, e.end_.isSome, e.map.map interp⟩) := by
  induction t with
  | nil => rfl
  | cons p ps ih =>
    obtain ⟨q, e⟩ := p
    simp only [toCorr] at ih
    by_cases h : k = q
    · subst h
      simp [toCorr, List.lookup]
    · have : (k == q) = false := by simpa using h
      simp [toCorr, List.lookup, this, ih]

theorem velOk_some_self (v : Bool) : velOk (some v) v = true := by simp [velOk]

/-- lines that all carry the same velocity flag `v`: nothing happens for no line; all are written
    when the writer's flag admits `v` (and the flag is `v` afterwards); else the first is refused -/
theorem writeLines_uniform {P : Type} (v : Bool) (atoms : List (Int × Mgr.TAtom P))
    (hall : ∀ x ∈ atoms, x.2.hasVel = v) (w : Mgr.WSt P) :
    (atoms = [] → Mgr.writeLines w atoms = (w, none)) ∧
    (atoms ≠ [] → velOk w.vel v = true →
      (Mgr.writeLines w atoms).2 = none ∧ (Mgr.writeLines w atoms).1.vel = some v) ∧
    (atoms ≠ [] → velOk w.vel v = false → Mgr.writeLines w atoms = (w, some .IOError)) := by
  induction atoms generalizing w with
  | nil => simp [Mgr.writeLines]
  | cons x xs ih =>
    have hx : x.2.hasVel = v := hall x (List.mem_cons_self ..)
    have hxs : ∀ y ∈ xs, y.2.hasVel = v := fun y hy => hall y (List.mem_cons_of_mem _ hy)
    refine ⟨by simp, fun _ hok => ?_, fun _ hbad => ?_⟩
    · simp only [Mgr.writeLines, hx, hok, if_true]
      obtain ⟨h1, h2, _⟩ := ih hxs ⟨w.recs ++ [Mgr.mkRec w.next x], w.next + 1, some v⟩
      by_cases he : xs = []
      · rw [h1 he]; exact ⟨rfl, rfl⟩
      · exact h2 he (velOk_some_self v)
    · simp [Mgr.writeLines, hx, hbad]

theorem assignResids_isEmpty {P : Type} (resids : List Int) (rs : List (List (Mgr.TAtom P)))
    (h : resids.length = rs.length) :
    (Mgr.assignResids resids rs = []) ↔ rs.flatten = [] := by
  have h1 := Mgr.assignResids_length resids rs h
  have h2 : rs.flatten.length = (rs.map List.length).sum := by simp [List.length_flatten]
  constructor
  · intro he
    rw [he] at h1
    exact List.length_eq_zero_iff.mp (by rw [h2, ← h1]; rfl)
  · intro he
    rw [he] at h2
    exact List.length_eq_zero_iff.mp (by rw [h1, ← h2]; rfl)

/-- **the exception class of a run** computed by the state machine (`runLoop`, which also tracks the
    table) is the one `Mgr.loop` — the loop of `Mgr.extrapolate`, about which C05's theorems speak —
    ends with on the same table, for every writer state and whatever table `runLoop` carries along -/
theorem loop_err_eq (complete : Table S) (sys : List (String × List Int)) :
    ∀ (t : Table S) (w : Mgr.WSt Unit),
      (Mgr.loop (toCorr targetMap complete) w (sys.map toInst)).2 = (runLoop complete t w.vel sys).2 := by
  induction sys with
  | nil => intro t w; simp [Mgr.loop, runLoop]
  | cons x rest ih =>
    intro t w
    obtain ⟨name, resids⟩ := x
    simp only [List.map_cons, toInst, Mgr.loop, runLoop, lookup_toCorr]
    cases hl : complete.lookup name with
    | none => simpa [toInst] using ih t w
    | some e =>
      simp only [Option.map_some]
      cases hm : e.map with
      | none => simp
      | some m =>
        simp only [Option.map_some]
        by_cases h1 : resids.isEmpty = true
        · simp [Mgr.applyMap, targetMap, h1]
        · have h1' : resids.isEmpty = false := by simpa using h1
          by_cases h2 : resids.length = m.target.residues.length
          · -- the map applies: atoms all carry the target's velocity flag
            have hlen : resids.length =
                (m.target.residues.map (·.map (fun a =>
                  (⟨a.resname, a.name, a.index, m.target.hasVel, ()⟩ : Mgr.TAtom Unit)))).length := by
              simpa using h2
            have happly : Mgr.applyMap (targetMap m) ⟨name, resids, ()⟩ =
                .ok (Mgr.assignResids resids (m.target.residues.map (·.map (fun a =>
                  (⟨a.resname, a.name, a.index, m.target.hasVel, ()⟩ : Mgr.TAtom Unit))))) := by
              simp [Mgr.applyMap, targetMap, h1', h2]
            have hne : (resids.length != m.target.residues.length) = false := by simpa using h2
            simp only [happly, h1', hne, Bool.false_eq_true, if_false]
            have hall : ∀ x ∈ Mgr.assignResids resids (m.target.residues.map (·.map (fun a =>
                (⟨a.resname, a.name, a.index, m.target.hasVel, ()⟩ : Mgr.TAtom Unit)))),
                x.2.hasVel = m.target.hasVel := by
              intro x hx
              obtain ⟨r, hr, ha⟩ := Mgr.mem_assignResids hx
              obtain ⟨r0, _, rfl⟩ := List.mem_map.mp hr
              obtain ⟨a0, _, ha0⟩ := List.mem_map.mp ha
              rw [← ha0]
            obtain ⟨u1, u2, u3⟩ := writeLines_uniform m.target.hasVel _ hall w
            have hempty : (Mgr.assignResids resids (m.target.residues.map (·.map (fun a =>
                (⟨a.resname, a.name, a.index, m.target.hasVel, ()⟩ : Mgr.TAtom Unit)))) = []) ↔
                m.target.atoms.isEmpty = true := by
              rw [assignResids_isEmpty _ _ hlen]
              simp only [Mol.atoms, List.isEmpty_iff]
              constructor
              · intro h
                have := congrArg List.length h
                simp only [List.length_flatten, List.map_map, Function.comp_def, List.length_map,
                  List.length_nil] at this
                exact List.length_eq_zero_iff.mp (by simpa [List.length_flatten] using this)
              · intro h
                have := congrArg List.length h
                simp only [List.length_flatten, List.length_nil] at this
                exact List.length_eq_zero_iff.mp
                  (by simpa [List.length_flatten, List.map_map, Function.comp_def] using this)
            by_cases he : m.target.atoms.isEmpty = true
            · rw [u1 (hempty.mpr he)]
              simp only [he, if_true]
              exact ih _ w
            · have he' : m.target.atoms.isEmpty = false := by simpa using he
              have hne' := fun h => he (hempty.mp h)
              simp only [he', Bool.false_eq_true, if_false]
              by_cases hv : velOk w.vel m.target.hasVel = true
              · obtain ⟨v1, v2⟩ := u2 hne' hv
                simp only [hv, if_true]
                cases hw : Mgr.writeLines w (Mgr.assignResids resids (m.target.residues.map (·.map (fun a =>
                    (⟨a.resname, a.name, a.index, m.target.hasVel, ()⟩ : Mgr.TAtom Unit))))) with
                | mk w' err =>
                  rw [hw] at v1 v2
                  simp only at v1 v2
                  subst v1
                  simp only
                  rw [ih _ w', v2]
              · have hv' : velOk w.vel m.target.hasVel = false := by simpa using hv
                rw [u3 hne' hv']
                simp [hv']
          · have hne : (resids.length != m.target.residues.length) = true := by simpa using h2
            simp [Mgr.applyMap, targetMap, h1', hne]

/-! ### `add_end_molecules` is `add_end_molecule` repeated until the first exception -/

theorem step_addEnd_ok {st : State S} {a : Arg} {t' : Table S} (h : addEnd st.table a = .ok t') :
    step st (.addEnd a) = ({ st with table := t' }, none) := by
  simp [step, h]

theorem step_addEnd_err {st : State S} {a : Arg} {e : PyErr} (h : addEnd st.table a = .error e) :
    step st (.addEnd a) = (st, some e) := by
  simp [step, h]

theorem addEnds_spec (args : List Arg) :
    ∀ st : State S,
      ((addEnds st.table args).2 = none →
        (addEnds st.table args).1 = (runOps st (args.map .addEnd)).table ∧
        ∀ r ∈ trace st (args.map .addEnd), r.1 = none) ∧
      (∀ err, (addEnds st.table args).2 = some err →
        ∃ pre a post, args = pre ++ a :: post ∧
          (∀ r ∈ trace st (pre.map .addEnd), r.1 = none) ∧
          (addEnds st.table args).1 = (runOps st (pre.map .addEnd)).table ∧
          step (runOps st (pre.map .addEnd)) (.addEnd a) = (runOps st (pre.map .addEnd), some err)) := by
  induction args with
  | nil => intro st; simp [addEnds, runOps, trace]
  | cons a rest ih =>
    intro st
    cases h : addEnd st.table a with
    | error e =>
      simp only [addEnds, h]
      refine ⟨by simp, fun err herr => ?_⟩
      simp only [Option.some.injEq] at herr
      subst herr
      exact ⟨[], a, rest, rfl, by simp [trace], rfl, by simpa [runOps] using step_addEnd_err h⟩
    | ok t' =>
      have hs := step_addEnd_ok h
      obtain ⟨i1, i2⟩ := ih { st with table := t' }
      simp only [addEnds, h, List.map_cons, runOps_cons, trace, hs]
      refine ⟨fun hn => ?_, fun err herr => ?_⟩
      · obtain ⟨j1, j2⟩ := i1 hn
        refine ⟨j1, ?_⟩
        intro r hr
        rcases List.mem_cons.mp hr with rfl | hr'
        · rfl
        · exact j2 r hr'
      · obtain ⟨pre, b, post, hargs, k1, k2, k3⟩ := i2 err herr
        refine ⟨a :: pre, b, post, by rw [hargs]; rfl, ?_, ?_, ?_⟩
        · intro r hr
          simp only [List.map_cons, trace, hs] at hr
          rcases List.mem_cons.mp hr with rfl | hr'
          · rfl
          · exact k1 r hr'
        · simpa [runOps_cons, hs] using k2
        · simpa [runOps_cons, hs] using k3

/-! ### the keys `Manager.__init__` creates -/

theorem not_mem_keys_of_lookup_none {t : Table S} {k : String} (h : t.lookup k = none) :
    k ∉ t.map (·.1) := by
  intro hk
  obtain ⟨p, hp, rfl⟩ := List.mem_map.mp hk
  have := lookup_isSome_of_mem hp
  rw [h] at this
  cases this

theorem keys_insert_nodup (t : Table S) (k : String) (v : Entry S) (h : (t.map (·.1)).Nodup) :
    ((t.insert k v).map (·.1)).Nodup ∧
    ∀ x, x ∈ (t.insert k v).map (·.1) ↔ x ∈ t.map (·.1) ∨ x = k := by
  unfold Table.insert
  cases hl : t.lookup k with
  | some e =>
    simp only [Option.isSome_some, if_true, keys_set]
    refine ⟨h, fun x => ⟨Or.inl, fun hx => ?_⟩⟩
    rcases hx with hx | rfl
    · exact hx
    · exact List.mem_map.mpr ⟨(x, e), mem_of_lookup hl, rfl⟩
  | none =>
    simp only [Option.isSome_none, Bool.false_eq_true, if_false, List.map_append, List.map_cons,
      List.map_nil, List.mem_append, List.mem_singleton]
    refine ⟨?_, fun x => trivial⟩
    rw [List.nodup_append]
    refine ⟨h, by simp, ?_⟩
    intro a ha b hb
    simp only [List.mem_singleton] at hb
    subst hb
    intro hab
    subst hab
    exact not_mem_keys_of_lookup_none hl ha

/-- the dictionary has one entry per molecule NAME (a later molecule of the same name replaces the
    earlier `Alignment`, in the earlier one's position) -/
theorem keys_initTable (mols : List Mol) :
    ((initTable mols : Table S).map (·.1)).Nodup ∧
    ∀ k, k ∈ (initTable mols : Table S).map (·.1) ↔ ∃ m ∈ mols, m.name = k := by
  unfold initTable
  have : ∀ (t : Table S), (t.map (·.1)).Nodup →
      ((mols.foldl (fun t m => t.insert m.name (newAlignment m)) t).map (·.1)).Nodup ∧
      ∀ k, k ∈ (mols.foldl (fun t m => t.insert m.name (newAlignment m)) t).map (·.1) ↔
        k ∈ t.map (·.1) ∨ ∃ m ∈ mols, m.name = k := by
    induction mols with
    | nil => intro t h; simp [h]
    | cons m ms ih =>
      intro t h
      obtain ⟨n1, n2⟩ := keys_insert_nodup t m.name (newAlignment m) h
      obtain ⟨j1, j2⟩ := ih _ n1
      refine ⟨j1, fun k => ?_⟩
      rw [List.foldl_cons, j2 k, n2 k]
      simp only [List.mem_cons, exists_eq_or_imp]
      constructor
      · rintro ((h | rfl) | h)
        · exact Or.inl h
        · exact Or.inr (Or.inl rfl)
        · exact Or.inr (Or.inr h)
      · rintro (h | h | h)
        · exact Or.inl (Or.inl h)
        · exact Or.inl (Or.inr h.symm)
        · exact Or.inr h
  simpa using this [] (by simp)

/-! ### attaching one end molecule per species by key (`_cli.auto_map`) -/

theorem attach_all (pairs : List (String × Mol)) :
    ∀ st : State S,
      (∀ p ∈ pairs, ∃ e, st.table.lookup p.1 = some e ∧ e.end_ = none) →
      (pairs.map (·.1)).Nodup →
      (∀ r ∈ trace st (pairs.map (fun p => Op.setEnd p.1 (.mol p.2))), r.1 = none) ∧
      (∀ k, k ∉ pairs.map (·.1) →
        (runOps st (pairs.map (fun p => Op.setEnd p.1 (.mol p.2)))).table.lookup k = st.table.lookup k) ∧
      (∀ p ∈ pairs, ∃ e, st.table.lookup p.1 = some e ∧
        (runOps st (pairs.map (fun p => Op.setEnd p.1 (.mol p.2)))).table.lookup p.1 =
          some { e with end_ := some p.2 }) := by
  induction pairs with
  | nil => intro st _ _; simp [trace, runOps]
  | cons x rest ih =>
    intro st hfresh hnd
    obtain ⟨k, m⟩ := x
    obtain ⟨e, hl, hend⟩ := hfresh (k, m) (List.mem_cons_self ..)
    have hset : setEnd st.table k (.mol m) = .ok (st.table.set k { e with end_ := some m }) := by
      simp [setEnd, hl, setEndEntry_first e m hend]
    have hs : step st (.setEnd k (.mol m)) =
        ({ st with table := st.table.set k { e with end_ := some m } }, none) := by
      simp [step, hset]
    simp only [List.map_cons, List.nodup_cons] at hnd
    obtain ⟨hk, hnd'⟩ := hnd
    have hne : ∀ p ∈ rest, p.1 ≠ k := fun p hp h => hk (List.mem_map.mpr ⟨p, hp, h⟩)
    obtain ⟨i1, i2, i3⟩ := ih { st with table := st.table.set k { e with end_ := some m } }
      (fun p hp => by
        obtain ⟨e', hl', he'⟩ := hfresh p (List.mem_cons_of_mem _ hp)
        exact ⟨e', by simp only; rw [lookup_set_ne _ _ (hne p hp)]; exact hl', he'⟩) hnd'
    simp only [List.map_cons, trace, runOps_cons, hs]
    refine ⟨?_, ?_, ?_⟩
    · intro r hr
      rcases List.mem_cons.mp hr with rfl | hr'
      · rfl
      · exact i1 r hr'
    · intro k' hk'
      simp only [List.mem_cons, not_or] at hk'
      rw [i2 k' hk'.2]
      exact lookup_set_ne _ _ hk'.1
    · intro p hp
      rcases List.mem_cons.mp hp with rfl | hp'
      · refine ⟨e, hl, ?_⟩
        rw [i2 _ hk]
        exact lookup_set_self _ (by simp [hl])
      · obtain ⟨e', hl', hfin⟩ := i3 p hp'
        refine ⟨e', ?_, hfin⟩
        simp only at hl'
        rw [lookup_set_ne _ _ (hne p hp')] at hl'
        exact hl'

end MgrSM
