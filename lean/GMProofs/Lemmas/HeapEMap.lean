import GMProofs.Lemmas.HeapView
/-
  GMProofs.Lemmas.HeapEMap — the exchange map on the heap (C04): the frame table is irrelevant
  to the outcome of a call, what a call may write, and what the returned molecule contains.
-/

namespace GMHeap

variable {α F P : Type}

/-! ### dictionaries -/

theorem lookup_filter_ne {β : Type} (d : List (Nat × β)) (k a : Nat) (hne : a ≠ k) :
    List.lookup a (d.filter (fun e => e.1 != k)) = d.lookup a := by
  induction d with
  | nil => rfl
  | cons x xs ih =>
    obtain ⟨k', v'⟩ := x
    by_cases hk : k' = k
    · subst hk
      have hb : ((fun (e : Nat × β) => e.1 != k') (k', v')) = false := by simp
      rw [List.filter_cons, if_neg (by simp), ih]
      have : (a == k') = false := by simpa using hne
      simp [List.lookup, this]
    · have hb : ((fun (e : Nat × β) => e.1 != k) (k', v')) = true := by simpa using hk
      rw [List.filter_cons, if_pos hb]
      simp only [List.lookup]
      cases a == k' <;> simp [ih]

theorem lookup_dictSet {β : Type} (d : List (Nat × β)) (k a : Nat) (v : β) :
    List.lookup a (dictSet d k v) = if a = k then some v else d.lookup a := by
  unfold dictSet
  by_cases h : a = k
  · subst h; simp [List.lookup]
  · have : (a == k) = false := by simpa using h
    simp only [List.lookup, this, h, ↓reduceIte]
    exact lookup_filter_ne d k a h

/-- `T0 ⊆ T` as partial maps -/
def Sub (T0 T : List (Nat × F)) : Prop := ∀ a f, T0.lookup a = some f → T.lookup a = some f

theorem Sub.dictSet {T0 T : List (Nat × F)} (hs : Sub T0 T) (k : Nat) (f : F) :
    Sub (dictSet T0 k f) (dictSet T k f) := by
  intro a f' ha
  rw [lookup_dictSet] at ha ⊢
  split
  · rename_i e; simpa [e] using ha
  · rename_i e; simp only [e, ↓reduceIte] at ha; exact hs a f' ha

theorem Sub.nil (T : List (Nat × F)) : Sub ([] : List (Nat × F)) T := fun _ _ h => by cases h

theorem Sub.refl (T : List (Nat × F)) : Sub T T := fun _ _ h => h

/-! ### `_calculate_refsystems` does not depend on the old table -/

theorem calcLoop_agree (G : Geo α F P) (h : Heap α) (v : MolView) (pairs : List (Nat × Nat))
    {T0 T : List (Nat × F)} (hs : Sub T0 T) :
    (calcLoop G h v pairs T).2 = (calcLoop G h v pairs T0).2 ∧
    Sub (calcLoop G h v pairs T0).1 (calcLoop G h v pairs T).1 := by
  induction pairs generalizing T0 T with
  | nil => exact ⟨rfl, hs⟩
  | cons p ps ih =>
    obtain ⟨t, g⟩ := p
    simp only [calcLoop]
    cases matchErr h t g with
    | some e => exact ⟨rfl, hs⟩
    | none =>
      simp only
      cases h.top? t with
      | none => exact ⟨rfl, hs⟩
      | some tc =>
        cases h.gro? g with
        | none => exact ⟨rfl, hs⟩
        | some gc =>
          simp only
          split
          · cases tc.bonds with
            | nil => exact ⟨rfl, hs⟩
            | cons i1 rest =>
              cases rest with
              | nil => exact ⟨rfl, hs⟩
              | cons i2 rest2 =>
                simp only
                cases itemPos h v i1 with
                | error e => exact ⟨rfl, hs⟩
                | ok p1 =>
                  simp only
                  cases itemPos h v i2 with
                  | error e => exact ⟨rfl, hs⟩
                  | ok p2 => exact ih (hs.dictSet _ _)
          · exact ih hs

theorem calcRefs_agree (G : Geo α F P) (h : Heap α) (m : Nat) {T0 T : List (Nat × F)} (hs : Sub T0 T) :
    (calcRefs G h m T).2 = (calcRefs G h m T0).2 ∧ Sub (calcRefs G h m T0).1 (calcRefs G h m T).1 := by
  unfold calcRefs
  cases molView h m with
  | none => exact ⟨rfl, hs⟩
  | some v =>
    simp only
    split
    · exact ⟨rfl, hs⟩
    · split
      · exact ⟨rfl, hs⟩
      · exact calcLoop_agree G h v _ hs

/-- the frames a call computes from its ARGUMENT alone (start from the empty table) -/
def pureTable (G : Geo α F P) (h : Heap α) (m : Nat) : List (Nat × F) := (calcRefs G h m []).1

/-- every anchor the construction assigned to a target atom gets a frame from this argument -/
def Covered (G : Geo α F P) (h : Heap α) (m : Nat) (equiv : List (Nat × Nat)) : Prop :=
  ∀ idx a, equiv.lookup idx = some a → ∃ f, (pureTable G h m).lookup a = some f

/-! ### `_restore_molecule` reads only covered keys -/

theorem restoreLoop_agree (G : Geo α F P) (E : EMap F P) {T0 T : List (Nat × F)} (hs : Sub T0 T)
    (hcov : ∀ idx a, E.equiv.lookup idx = some a → ∃ f, T0.lookup a = some f)
    (h : Heap α) (pairs : List (Nat × Nat)) :
    restoreLoop G { E with table := T } h pairs = restoreLoop G { E with table := T0 } h pairs := by
  induction pairs generalizing h with
  | nil => rfl
  | cons p ps ih =>
    obtain ⟨t, g⟩ := p
    simp only [restoreLoop]
    cases matchErr h t g with
    | some e => rfl
    | none =>
      simp only
      cases h.top? t with
      | none => rfl
      | some tc =>
        simp only
        cases e1 : E.equiv.lookup tc.index with
        | none => rfl
        | some a =>
          cases E.tcoords.lookup tc.index with
          | none => rfl
          | some p =>
            simp only
            obtain ⟨f, hf⟩ := hcov _ _ e1
            rw [hf, hs a f hf]
            exact ih _

/-- the outcome of the second phase does not depend on the table beyond the covered keys -/
theorem finishCall_agree (G : Geo α F P) (E : EMap F P) {T0 T : List (Nat × F)} (hs : Sub T0 T)
    (hcov : ∀ idx a, E.equiv.lookup idx = some a → ∃ f, T0.lookup a = some f) (h : Heap α) (m : Nat) :
    (finishCall G h { E with table := T } m).heap = (finishCall G h { E with table := T0 } m).heap ∧
    (finishCall G h { E with table := T } m).ret = (finishCall G h { E with table := T0 } m).ret ∧
    (finishCall G h { E with table := T } m).err = (finishCall G h { E with table := T0 } m).err := by
  simp only [finishCall]
  cases h.mol? E.tgt with
  | none => exact ⟨rfl, rfl, rfl⟩
  | some p =>
    obtain ⟨t, rs, e⟩ := p
    simp only
    cases molInit h t rs with
    | error e => exact ⟨rfl, rfl, rfl⟩
    | ok q =>
      obtain ⟨h1, nm⟩ := q
      simp only
      cases molView h1 nm with
      | none => exact ⟨rfl, rfl, rfl⟩
      | some nv =>
        cases molView h1 m with
        | none => exact ⟨rfl, rfl, rfl⟩
        | some av =>
          simp only
          split
          · exact ⟨rfl, rfl, rfl⟩
          · rw [restoreLoop_agree G E hs hcov]
            rcases restoreLoop G { E with table := T0 } h1 (nv.tops.zip nv.gros) with ⟨h2, _ | e⟩
            · simp only
              cases residsOf h2 av.parts with
              | none => exact ⟨rfl, rfl, rfl⟩
              | some l =>
                simp only
                rcases setResidsList h2 nm l with ⟨h3, _ | e⟩ <;> exact ⟨rfl, rfl, rfl⟩
            · exact ⟨rfl, rfl, rfl⟩

/-- HISTORY INDEPENDENCE at the level of one call: whatever the frame table contains (whatever
    was mapped before), the call produces the same heap, the same returned molecule, the same error —
    provided every anchor used by the construction is an anchor of this argument. -/
theorem call_table_irrelevant (G : Geo α F P) (h : Heap α) (E : EMap F P) (arg : Option Obj)
    (T1 T2 : List (Nat × F))
    (hcov : ∀ m, arg = some (.mol m) → Covered G h m E.equiv) :
    (call G h { E with table := T1 } arg).heap = (call G h { E with table := T2 } arg).heap ∧
    (call G h { E with table := T1 } arg).ret = (call G h { E with table := T2 } arg).ret ∧
    (call G h { E with table := T1 } arg).err = (call G h { E with table := T2 } arg).err := by
  -- compare both with the run from the empty table
  have key : ∀ T : List (Nat × F),
      (call G h { E with table := T } arg).heap = (call G h { E with table := [] } arg).heap ∧
      (call G h { E with table := T } arg).ret = (call G h { E with table := [] } arg).ret ∧
      (call G h { E with table := T } arg).err = (call G h { E with table := [] } arg).err := by
    intro T
    cases arg with
    | none => exact ⟨rfl, rfl, rfl⟩
    | some o =>
      cases o with
      | res r => exact ⟨rfl, rfl, rfl⟩
      | agro g => exact ⟨rfl, rfl, rfl⟩
      | atom t g => exact ⟨rfl, rfl, rfl⟩
      | mol m =>
        simp only [call]
        cases molEq h E.ref m with
        | error e => exact ⟨rfl, rfl, rfl⟩
        | ok b =>
          cases b with
          | false => exact ⟨rfl, rfl, rfl⟩
          | true =>
            simp only
            obtain ⟨a1, a2⟩ := calcRefs_agree G h m (Sub.nil T)
            have cov := hcov m rfl
            unfold Covered pureTable at cov
            rcases e0 : calcRefs G h m [] with ⟨tb0, er0⟩
            rcases e1 : calcRefs G h m T with ⟨tb1, er1⟩
            rw [e0, e1] at a1 a2
            rw [e0] at cov
            simp only at a1 a2 cov
            subst a1
            cases er1 with
            | some e => exact ⟨rfl, rfl, rfl⟩
            | none =>
              simp only
              exact finishCall_agree G E a2 cov h m
  obtain ⟨a1, a2, a3⟩ := key T1
  obtain ⟨b1, b2, b3⟩ := key T2
  exact ⟨a1.trans b1.symm, a2.trans b2.symm, a3.trans b3.symm⟩

/-- the species check comes first: a rejected argument changes neither the heap nor the map -/
theorem call_rejected (G : Geo α F P) (h : Heap α) (E : EMap F P) (arg : Option Obj)
    (hbad : (∀ m, arg ≠ some (.mol m)) ∨ ∃ m, arg = some (.mol m) ∧ molEq h E.ref m = .ok false) :
    call G h E arg = ⟨h, E, none, some .typeError⟩ := by
  rcases hbad with hb | ⟨m, rfl, he⟩
  · cases arg with
    | none => rfl
    | some o =>
      cases o with
      | mol m => exact absurd rfl (hb m)
      | res r => rfl
      | agro g => rfl
      | atom t g => rfl
  · simp only [call, he]

/-! ### what a call may write -/

/-- an AtomTop may only have its residue number rewritten; AtomGro cells written by a call are
    fresh ones (old AtomGro cells are shown unchanged separately) -/
def Rc : Rel α where
  g := fun _ _ => True
  t := fun a b => b = { a with resid := b.resid }
  g_refl := fun _ => trivial
  t_refl := fun a => by cases a; rfl
  g_trans := fun _ _ _ _ _ => trivial
  t_trans := fun a b c h1 h2 => by
    cases a; cases b; cases c
    simp only [AtomTopC.mk.injEq] at h1 h2 ⊢
    obtain ⟨a1, a2, _, a4, a5⟩ := h1
    obtain ⟨b1, b2, _, b4, b5⟩ := h2
    exact ⟨b1.trans a1, b2.trans a2, trivial, b4.trans a4, b5.trans a5⟩

theorem frame_restoreLoop (G : Geo α F P) (E : EMap F P) (h : Heap α) (pairs : List (Nat × Nat)) :
    Frame (Rc : Rel α) (· ∈ pairs.map (·.2)) h (restoreLoop G E h pairs).1 ∧
    (∀ a, a ∉ pairs.map (·.2) → (restoreLoop G E h pairs).1.gro? a = h.gro? a) ∧
    (∀ t, (restoreLoop G E h pairs).1.top? t = h.top? t) := by
  induction pairs generalizing h with
  | nil => exact ⟨Frame.refl _ _ _, fun _ _ => rfl, fun _ => rfl⟩
  | cons p ps ih =>
    obtain ⟨t, g⟩ := p
    have triv : Frame (Rc : Rel α) (· ∈ ((t, g) :: ps).map (·.2)) h h ∧
        (∀ a, a ∉ ((t, g) :: ps).map (·.2) → h.gro? a = h.gro? a) ∧ (∀ t', h.top? t' = h.top? t') :=
      ⟨Frame.refl _ _ _, fun _ _ => rfl, fun _ => rfl⟩
    simp only [restoreLoop]
    cases matchErr h t g with
    | some e => exact triv
    | none =>
      simp only
      cases h.top? t with
      | none => exact triv
      | some tc =>
        simp only
        cases E.equiv.lookup tc.index with
        | none => exact triv
        | some a =>
          cases E.tcoords.lookup tc.index with
          | none => exact triv
          | some p =>
            simp only
            cases E.table.lookup a with
            | none => exact triv
            | some f =>
              simp only
              obtain ⟨i1, i2, i3⟩ := ih (h.modGro g (fun c => { c with pos := G.restore f p }))
              refine ⟨?_, ?_, ?_⟩
              · refine ((frame_modGro Rc h g _ (fun _ => trivial)).trans i1).mono ?_
                intro x hx
                simp only [List.map_cons, List.mem_cons]
                exact hx.elim Or.inl Or.inr
              · intro x hx
                simp only [List.map_cons, List.mem_cons, not_or] at hx
                rw [i2 x hx.2, Heap.gro?_modGro_ne _ _ hx.1]
              · intro t'
                rw [i3 t', Heap.top?_modGro]

theorem applyW_gro?_notin (check : Bool) (h : Heap α) (ws : List (W α)) {g : Nat}
    (hg : g ∉ ws.map (·.gro)) : (applyW check h ws).1.gro? g = h.gro? g := by
  induction ws generalizing h with
  | nil => rfl
  | cons w ws ih =>
    simp only [List.map_cons, List.mem_cons, not_or] at hg
    unfold applyW
    split
    · rfl
    · rw [ih _ hg.2, W.write_gro?_ne h w hg.1]

theorem frame_setResidsList_Rc (h : Heap α) (m : Nat) (l : List Int) :
    Frame (Rc : Rel α) (· ∈ (Obj.mol m).cells h) h (setResidsList h m l).1 ∧
    ∀ v, molView h m = some v → ∀ a, a ∉ v.gros → (setResidsList h m l).1.gro? a = h.gro? a := by
  unfold setResidsList
  cases l with
  | nil => exact ⟨Frame.refl _ _ _, fun _ _ _ _ => rfl⟩
  | cons x xs =>
    simp only
    cases hv : molView h m with
    | none => exact ⟨Frame.refl _ _ _, fun _ _ _ _ => rfl⟩
    | some v =>
      cases hp : collPairs h (.mol m) with
      | error e => exact ⟨Frame.refl _ _ _, fun _ _ _ _ => rfl⟩
      | ok pc =>
        obtain ⟨pairs, check⟩ := pc
        simp only
        split
        · exact ⟨Frame.refl _ _ _, fun _ _ _ _ => rfl⟩
        · split
          · exact ⟨Frame.refl _ _ _, fun _ _ _ _ => rfl⟩
          · rename_i vals _
            refine ⟨?_, ?_⟩
            · refine (frame_applyW Rc check h _ ?_).mono (writeSet_mkW hp _ _ _)
              intro w hw
              obtain ⟨p, _, n, _, rfl⟩ := mkW_mem hw
              refine ⟨fun _ => trivial, ?_⟩
              intro f hf t
              injection hf with hf
              subst hf
              cases t; rfl
            · intro v' hv' a ha
              injection hv' with hv'
              subst hv'
              apply applyW_gro?_notin
              intro hmem
              obtain ⟨w, hw, rfl⟩ := List.mem_map.mp hmem
              obtain ⟨p, hpm, n, _, rfl⟩ := mkW_mem hw
              have := (collPairs_mem hp p hpm).1
              -- p.2 is an AtomGro of the molecule: it comes from zip tops gros
              simp only [collPairs, hv] at hp
              split at hp
              · cases hp
              · injection hp with hp
                injection hp with hp _
                subst hp
                obtain ⟨⟨t, g⟩, hz, rfl⟩ := List.mem_map.mp hpm
                exact ha (List.of_mem_zip hz).2

/-- FRAME CONDITION of the second phase: every cell that existed before is unchanged, except that the
    topology atoms of the TARGET may have their residue number rewritten; no AtomGro cell that existed
    before (no coordinate, velocity, atom number … of anything) changes. -/
theorem finishCall_frame (G : Geo α F P) (h : Heap α) (E1 : EMap F P) (m : Nat) :
    Frame (Rc : Rel α) (fun a => a ∈ (Obj.mol E1.tgt).topCells h ∨ h.size ≤ a) h
      (finishCall G h E1 m).heap ∧
    (∀ a, a < h.size → (finishCall G h E1 m).heap.gro? a = h.gro? a) := by
  have triv : Frame (Rc : Rel α) (fun a => a ∈ (Obj.mol E1.tgt).topCells h ∨ h.size ≤ a) h h ∧
      (∀ a, a < h.size → h.gro? a = h.gro? a) := ⟨Frame.refl _ _ _, fun _ _ => rfl⟩
  simp only [finishCall]
  cases e1 : h.mol? E1.tgt with
  | none => exact triv
  | some p =>
    obtain ⟨t, rs, e⟩ := p
    simp only
    cases e2 : molInit h t rs with
    | error e => exact triv
    | ok q =>
      obtain ⟨h1, nm⟩ := q
      simp only
      have n := molInit_spec e2
      obtain ⟨name, tops, ps, css, f1, f2, _, _, rs', ps', hv, hfrs, hfr, _, _, _, _⟩ := n.old
      have htv : molView h E1.tgt = some ⟨t, name, tops, rs, e, ps, ps.flatten⟩ := molView_of_parts e1 f1 f2
      simp only [hv]
      cases molView h1 m with
      | none => exact triv
      | some av =>
        simp only
        split
        · exact triv
        · rename_i hlen
          have hsnd : (tops.zip ps'.flatten).map (·.2) = ps'.flatten := by
            apply List.map_snd_zip
            omega
          obtain ⟨r1, r2, r3⟩ := frame_restoreLoop G E1 h1 (tops.zip ps'.flatten)
          rw [hsnd] at r1 r2
          rcases e3 : restoreLoop G E1 h1 (tops.zip ps'.flatten) with ⟨h2, _ | er⟩
          · simp only
            rw [e3] at r1 r2 r3
            simp only at r1 r2 r3
            have hv2 : molView h2 nm = some _ := r1.molView hv
            cases residsOf h2 av.parts with
            | none => exact triv
            | some l =>
              simp only
              obtain ⟨s1, s2⟩ := frame_setResidsList_Rc h2 nm l
              have hle := (n.frame (Rc : Rel α)).size_le
              have comp := ((n.frame (Rc : Rel α)).trans r1).trans s1
              have fin : Frame (Rc : Rel α)
                  (fun a => a ∈ (Obj.mol E1.tgt).topCells h ∨ h.size ≤ a) h (setResidsList h2 nm l).1 ∧
                  (∀ a, a < h.size → (setResidsList h2 nm l).1.gro? a = h.gro? a) := by
                refine ⟨comp.mono ?_, ?_⟩
                · intro a ha
                  rcases ha with (ha | ha) | ha
                  · exact ha.elim
                  · exact Or.inr (hfr a ha).1
                  · simp only [Obj.cells, hv2, List.mem_append] at ha
                    rcases ha with ha | ha
                    · exact Or.inr (hfr a ha).1
                    · left
                      simp only [Obj.topCells, htv]
                      exact ha
                · intro a ha
                  have hnot : a ∉ ps'.flatten := fun hm => by
                    have := (hfr a hm).1; omega
                  rw [s2 _ hv2 a hnot, r2 a hnot]
                  unfold Heap.gro?
                  rw [(n.frame (Rc : Rel α)).same a ha (fun w => w)]
              rcases e4 : setResidsList h2 nm l with ⟨h3, _ | er⟩ <;> rw [e4] at fin <;> exact fin
          · exact triv

/-! ### what the returned molecule contains -/

/-- position the map assigns to the target atom with topology index `idx`, given a frame table -/
def purePos (G : Geo α F P) (equiv : List (Nat × Nat)) (tcoords : List (Nat × P))
    (T : List (Nat × F)) (idx : Nat) : Option (V3 α) :=
  match equiv.lookup idx, tcoords.lookup idx with
  | some a, some p => (T.lookup a).map (fun f => G.restore f p)
  | _, _ => none

theorem readTops_modGro (h : Heap α) (g : Nat) (f : AtomGroC α → AtomGroC α) (ts : List Nat) :
    readTops (h.modGro g f) ts = readTops h ts :=
  readTops_congr (fun t _ => Heap.top?_modGro h g t f)

/-- a `_restore_molecule` loop that did not raise: every atom got the position `purePos` says -/
theorem restoreLoop_spec (G : Geo α F P) (E : EMap F P) (h h2 : Heap α) (pairs : List (Nat × Nat))
    (hnd : (pairs.map (·.2)).Nodup) {cs : List (AtomGroC α)} {tcs : List AtomTopC}
    (hr : readGros h (pairs.map (·.2)) = some cs) (ht : readTops h (pairs.map (·.1)) = some tcs)
    (hok : restoreLoop G E h pairs = (h2, none)) :
    ∃ poss : List (V3 α),
      tcs.map (fun tc => purePos G E.equiv E.tcoords E.table tc.index) = poss.map some ∧
      readGros h2 (pairs.map (·.2)) =
        some (List.zipWith (fun (c : AtomGroC α) (p : V3 α) => ({ c with pos := p } : AtomGroC α)) cs poss) := by
  induction pairs generalizing h cs tcs with
  | nil =>
    simp only [restoreLoop, Prod.mk.injEq, and_true] at hok
    subst hok
    simp [readGros, readTops] at hr ht
    subst hr; subst ht
    exact ⟨[], rfl, rfl⟩
  | cons p ps ih =>
    obtain ⟨t, g⟩ := p
    simp only [List.map_cons, List.nodup_cons] at hnd
    simp only [List.map_cons, readGros] at hr
    simp only [List.map_cons, readTops] at ht
    cases e1 : h.gro? g with
    | none => simp [e1] at hr
    | some c =>
      cases e2 : readGros h (ps.map (·.2)) with
      | none => simp [e1, e2] at hr
      | some cs' =>
        simp only [e1, e2, Option.some.injEq] at hr
        subst hr
        cases e3 : h.top? t with
        | none => simp [e3] at ht
        | some tc =>
          cases e4 : readTops h (ps.map (·.1)) with
          | none => simp [e3, e4] at ht
          | some tcs' =>
            simp only [e3, e4, Option.some.injEq] at ht
            subst ht
            simp only [restoreLoop] at hok
            cases e5 : matchErr h t g with
            | some e => simp [e5] at hok
            | none =>
              simp only [e5, e3] at hok
              cases e6 : E.equiv.lookup tc.index with
              | none => simp [e6] at hok
              | some a =>
                cases e7 : E.tcoords.lookup tc.index with
                | none => simp [e6, e7] at hok
                | some p =>
                  simp only [e6, e7] at hok
                  cases e8 : E.table.lookup a with
                  | none => simp [e8] at hok
                  | some f =>
                    simp only [e8] at hok
                    have hr' : readGros (h.modGro g (fun c => { c with pos := G.restore f p }))
                        (ps.map (·.2)) = some cs' := by
                      rw [readGros_congr (h := h)]
                      · exact e2
                      · intro g' hg'
                        exact Heap.gro?_modGro_ne _ _ (fun e => hnd.1 (e ▸ hg'))
                    have ht' : readTops (h.modGro g (fun c => { c with pos := G.restore f p }))
                        (ps.map (·.1)) = some tcs' := by
                      rw [readTops_modGro]; exact e4
                    obtain ⟨poss, hp1, hp2⟩ := ih _ hnd.2 hr' ht' hok
                    refine ⟨G.restore f p :: poss, ?_, ?_⟩
                    · rw [List.map_cons, List.map_cons, hp1]
                      simp only [purePos, e6, e7, e8, Option.map_some]
                    · have hkeep := (frame_restoreLoop G E
                        (h.modGro g (fun c => { c with pos := G.restore f p })) ps).2.1 g hnd.1
                      rw [hok] at hkeep
                      simp only at hkeep
                      simp only [List.map_cons, readGros, hkeep, Heap.gro?_modGro_self, e1, Option.map_some,
                        hp2, List.zipWith_cons_cons]

/-- the AtomGro side of any `mkW` loop that did not raise (whatever it does to the topology) -/
theorem loop_spec_gros {β : Type} {h : Heap α} {pairs : List (Option Nat × Nat)} {check : Bool}
    (vals : List β) (fg : β → AtomGroC α → AtomGroC α) (ft : β → Option (AtomTopC → AtomTopC))
    (hl : vals.length = pairs.length) (hnd : (pairs.map (·.2)).Nodup)
    {cs : List (AtomGroC α)} (hr : readGros h (pairs.map (·.2)) = some cs)
    (hok : (applyW check h (mkW pairs vals fg ft)).2 = none) :
    readGros (applyW check h (mkW pairs vals fg ft)).1 (pairs.map (·.2)) =
      some (List.zipWith fg vals cs) := by
  have hg := mkW_gros pairs vals fg ft hl
  rw [applyW_ok hok, ← hg, foldl_write_readGros h _ (hg ▸ hnd) (hg ▸ hr), mkW_zipWith _ _ _ _ _ hl]

theorem readTops_length {h : Heap α} {ts : List Nat} {cs : List AtomTopC}
    (hr : readTops h ts = some cs) : cs.length = ts.length := by
  induction ts generalizing cs with
  | nil => simp [readTops] at hr; subst hr; rfl
  | cons g gs ih =>
    simp only [readTops] at hr
    cases h1 : h.top? g with
    | none => simp [h1] at hr
    | some c =>
      cases h2 : readTops h gs with
      | none => simp [h1, h2] at hr
      | some cs' =>
        simp only [h1, h2, Option.some.injEq] at hr
        subst hr
        simp [ih h2]

theorem eachOf_length (s : Nat) (ps : List (List Nat)) : (eachOf s ps).length = ps.flatten.length := by
  induction ps generalizing s with
  | nil => rfl
  | cons p ps ih => simp [eachOf, ih]

theorem perAtom_length {β : Type} {vals : List β} {each : List Nat} {out : List β}
    (hp : perAtom vals each = some out) : out.length = each.length := by
  induction each generalizing out with
  | nil => simp [perAtom] at hp; subst hp; rfl
  | cons r rs ih =>
    simp only [perAtom] at hp
    cases e1 : vals[r]? with
    | none => simp [e1] at hp
    | some v =>
      cases e2 : perAtom vals rs with
      | none => simp [e1, e2] at hp
      | some vs =>
        simp only [e1, e2, Option.some.injEq] at hp
        subst hp
        simp [ih e2]

/-- `new_mol.resids = l` that did not raise, on a well-formed molecule -/
theorem setResidsList_spec {h : Heap α} {m : Nat} {v : MolView} {cs : List (AtomGroC α)}
    (w : MolWF h m v cs) (l : List Int) (hok : (setResidsList h m l).2 = none) :
    ∃ vals, perAtom l v.each = some vals ∧ l.length = v.residues.length ∧
      readGros (setResidsList h m l).1 v.gros =
        some (List.zipWith (fun (n : Int) (g : AtomGroC α) => ({ g with resid := n } : AtomGroC α)) vals cs) := by
  have rd := w.pairs
  have hsnd : ((v.tops.zip v.gros).map (fun (t, g) => ((some t : Option Nat), g))).map (·.2) = v.gros := by
    rw [List.map_map]
    have : ((fun (x : Option Nat × Nat) => x.2) ∘ fun (x : Nat × Nat) => ((some x.1 : Option Nat), x.2)) =
        Prod.snd := by funext x; rfl
    rw [this, List.map_snd_zip (Nat.le_of_eq w.len.symm)]
  unfold setResidsList at hok ⊢
  cases l with
  | nil => simp at hok
  | cons x xs =>
    simp only [w.view, rd.hpairs] at hok ⊢
    split at hok
    · simp at hok
    · rename_i hlen
      have hlen' : (x :: xs).length = v.residues.length := by simpa using hlen
      rw [if_neg hlen]
      cases e1 : perAtom (x :: xs) v.each with
      | none => simp [e1] at hok
      | some vals =>
        simp only [e1] at hok ⊢
        refine ⟨vals, rfl, hlen', ?_⟩
        have hvl : vals.length = ((v.tops.zip v.gros).map (fun (t, g) => ((some t : Option Nat), g))).length := by
          rw [perAtom_length e1, w.each]
          have hlen2 : ∀ (s : Nat) (ps : List (List Nat)), (eachOf s ps).length = ps.flatten.length := by
            intro s ps
            induction ps generalizing s with
            | nil => rfl
            | cons p ps ih => simp [eachOf, ih]
          rw [hlen2, ← (molView_gros w.view).1]
          simp only [List.length_map, List.length_zip, w.len, Nat.min_self]
        have := loop_spec_gros vals (fun (n : Int) (g : AtomGroC α) => ({ g with resid := n } : AtomGroC α))
          (fun n => some (fun t => { t with resid := n })) hvl (hsnd.symm ▸ w.nodup)
          (by rw [hsnd]; exact w.cells) hok
        rw [hsnd] at this
        exact this

theorem residsOf_congr {h h' : Heap α} {ps : List (List Nat)}
    (hc : ∀ g ∈ ps.flatten, h'.gro? g = h.gro? g) : residsOf h' ps = residsOf h ps := by
  induction ps with
  | nil => rfl
  | cons p ps ih =>
    have ih' := ih (fun g hg => hc g (by simp [hg]))
    cases p with
    | nil => rfl
    | cons g gs =>
      simp only [residsOf, hc g (by simp), ih']

/-- the molecule returned by the second phase, cell by cell -/
theorem finishCall_result (G : Geo α F P) (h : Heap α) (E1 : EMap F P) (m : Nat) (av : MolView)
    (l0 : List Int) (hav : molView h m = some av) (hl0 : residsOf h av.parts = some l0)
    (hargold : ∀ g ∈ av.parts.flatten, g < h.size)
    (hok : (finishCall G h E1 m).err = none) :
    ∃ nm nv tv tcs ttcs poss vals,
      (finishCall G h E1 m).ret = some nm ∧
      molView h E1.tgt = some tv ∧ readGros h tv.gros = some tcs ∧ readTops h tv.tops = some ttcs ∧
      ttcs.map (fun tc => purePos G E1.equiv E1.tcoords E1.table tc.index) = poss.map some ∧
      perAtom l0 (eachOf 0 tv.parts) = some vals ∧
      molView (finishCall G h E1 m).heap nm = some nv ∧ nv.tops = tv.tops ∧
      (∀ g ∈ nv.gros, h.size ≤ g) ∧ poss.length = tcs.length ∧ vals.length = tcs.length ∧
      readGros (finishCall G h E1 m).heap nv.gros =
        some (List.zipWith (fun (n : Int) (g : AtomGroC α) => ({ g with resid := n } : AtomGroC α)) vals
          (List.zipWith (fun (c : AtomGroC α) (p : V3 α) => ({ c with pos := p } : AtomGroC α)) tcs poss)) := by
  simp only [finishCall] at hok ⊢
  cases e1 : h.mol? E1.tgt with
  | none => simp [e1] at hok
  | some p =>
    obtain ⟨t, rs, e⟩ := p
    simp only [e1] at hok ⊢
    cases e2 : molInit h t rs with
    | error er => simp [e2] at hok
    | ok q =>
      obtain ⟨h1, nm⟩ := q
      simp only [e2] at hok ⊢
      have n := molInit_spec e2
      obtain ⟨name, tops, ps, css, f1, f2, f3, f4, rs', ps', hv, hfrs, hfr, hnd, hrd, hlenp, _⟩ := n.old
      obtain ⟨hmatch, ⟨ts, hts⟩, _⟩ := matchAll_none f4
      have htv : molView h E1.tgt = some ⟨t, name, tops, rs, e, ps, ps.flatten⟩ := molView_of_parts e1 f1 f2
      have hav1 : molView h1 m = some av := (n.frame Rel.any).molView hav
      simp only [hv, hav1] at hok ⊢
      split at hok
      · simp at hok
      · rename_i hlen
        have hlen' : tops.length = ps'.flatten.length := by simpa using hlen
        rw [if_neg hlen]
        have hsnd : (tops.zip ps'.flatten).map (·.2) = ps'.flatten :=
          List.map_snd_zip (Nat.le_of_eq hlen'.symm)
        have hfst : (tops.zip ps'.flatten).map (·.1) = tops := List.map_fst_zip (Nat.le_of_eq hlen')
        have hts1 : readTops h1 tops = some ts := readTops_frame (n.frame Rel.any) hts (fun _ _ w => w)
        rcases e3 : restoreLoop G E1 h1 (tops.zip ps'.flatten) with ⟨h2, _ | er⟩
        · simp only [e3] at hok ⊢
          obtain ⟨poss, hp1, hp2⟩ := restoreLoop_spec G E1 h1 h2 (tops.zip ps'.flatten)
            (hsnd.symm ▸ hnd) (by rw [hsnd]; exact hrd) (by rw [hfst]; exact hts1) e3
          rw [hsnd] at hp2
          obtain ⟨r1, r2, r3⟩ := frame_restoreLoop G E1 h1 (tops.zip ps'.flatten)
          rw [e3, hsnd] at r1 r2
          simp only at r1 r2
          -- the argument's residue numbers, read after the loop, are those of before the call
          have hres : residsOf h2 av.parts = some l0 := by
            rw [residsOf_congr (h := h)]
            · exact hl0
            · intro g hg
              have hgl := hargold g hg
              have hnot : g ∉ ps'.flatten := fun hm => by have := (hfr g hm).1; omega
              rw [r2 g hnot]
              unfold Heap.gro?
              rw [(n.frame Rel.any).same g hgl (fun w => w)]
          simp only [hres] at hok ⊢
          have w2 : MolWF h2 nm ⟨t, name, tops, rs', eachOf 0 ps, ps', ps'.flatten⟩
              (List.zipWith (fun (c : AtomGroC α) (p : V3 α) => ({ c with pos := p } : AtomGroC α))
                css.flatten poss) :=
            ⟨r1.molView hv, (eachOf_congr 0 hlenp).symm, hlen', hnd, hp2⟩
          rcases e4 : setResidsList h2 nm l0 with ⟨h3, _ | er⟩
          · simp only [e4] at hok ⊢
            have hok4 : (setResidsList h2 nm l0).2 = none := by rw [e4]
            obtain ⟨vals, hv1, _, hv3⟩ := setResidsList_spec w2 l0 hok4
            rw [e4] at hv3
            simp only at hv3
            have fr4 := (frame_setResidsList h2 nm l0)
            rw [e4] at fr4
            refine ⟨nm, ⟨t, name, tops, rs', eachOf 0 ps, ps', ps'.flatten⟩,
              ⟨t, name, tops, rs, e, ps, ps.flatten⟩, css.flatten, ts, poss, vals, rfl, htv,
              (readGross_flatten f3).1, hts, hp1, hv1, fr4.molView w2.view, rfl, ?_, ?_, ?_, hv3⟩
            · intro g hg
              exact (hfr g hg).1
            · have a1 := congrArg List.length hp1
              simp only [List.length_map] at a1
              have a2 := readTops_length hts
              have a3 := readGros_length (readGross_flatten f3).1
              omega
            · have a1 := perAtom_length hv1
              have a3 := readGros_length (readGross_flatten f3).1
              rw [eachOf_length] at a1
              omega
          · simp [e4] at hok
        · simp [e3] at hok

/-! ### anchors: which keys a `_calculate_refsystems` run writes -/

/-- topology indices of the atoms with at least two bonds, in iteration order -/
def anchorIdx (h : Heap α) : List (Nat × Nat) → List Nat
  | [] => []
  | (t, _) :: rest =>
    match h.top? t with
    | some tc => if tc.bonds.length ≥ 2 then tc.index :: anchorIdx h rest else anchorIdx h rest
    | none => anchorIdx h rest

/-- the anchor set of a molecule: a function of its TOPOLOGY (bond counts, indices) only -/
def anchorKeys (h : Heap α) (m : Nat) : List Nat :=
  match molView h m with
  | some v => anchorIdx h (v.tops.zip v.gros)
  | none => []

theorem calcLoop_keys (G : Geo α F P) (h : Heap α) (v : MolView) (pairs : List (Nat × Nat))
    (T T' : List (Nat × F)) (hok : calcLoop G h v pairs T = (T', none)) :
    ∀ a, (∃ f, T'.lookup a = some f) ↔ (∃ f, T.lookup a = some f) ∨ a ∈ anchorIdx h pairs := by
  induction pairs generalizing T with
  | nil =>
    simp only [calcLoop, Prod.mk.injEq, and_true] at hok
    subst hok
    intro a; simp [anchorIdx]
  | cons p ps ih =>
    obtain ⟨t, g⟩ := p
    simp only [calcLoop] at hok
    cases e1 : matchErr h t g with
    | some e => simp [e1] at hok
    | none =>
      simp only [e1] at hok
      cases e2 : h.top? t with
      | none => simp [e2] at hok
      | some tc =>
        cases e3 : h.gro? g with
        | none => simp [e2, e3] at hok
        | some gc =>
          simp only [e2, e3] at hok
          by_cases hb : tc.bonds.length ≥ 2
          · rw [if_pos hb] at hok
            cases e4 : tc.bonds with
            | nil => simp [e4] at hok
            | cons i1 rest =>
              cases rest with
              | nil => simp [e4] at hok
              | cons i2 rest2 =>
                simp only [e4] at hok
                cases e5 : itemPos h v i1 with
                | error e => simp [e5] at hok
                | ok p1 =>
                  simp only [e5] at hok
                  cases e6 : itemPos h v i2 with
                  | error e => simp [e6] at hok
                  | ok p2 =>
                    simp only [e6] at hok
                    intro a
                    rw [ih _ hok a]
                    simp only [anchorIdx, e2, hb, ↓reduceIte, List.mem_cons, lookup_dictSet]
                    by_cases ha : a = tc.index
                    · simp [ha]
                    · simp [ha]
          · rw [if_neg hb] at hok
            intro a
            rw [ih _ hok a]
            simp only [anchorIdx, e2, hb, ↓reduceIte]

/-- after a `_calculate_refsystems` that did not raise, started from the empty table, the keys are
    exactly the anchor set of the molecule -/
theorem pureTable_keys (G : Geo α F P) (h : Heap α) (m : Nat) (hok : (calcRefs G h m []).2 = none) :
    ∀ a, (∃ f, (pureTable G h m).lookup a = some f) ↔ a ∈ anchorKeys h m := by
  unfold pureTable anchorKeys
  unfold calcRefs at hok ⊢
  cases hv : molView h m with
  | none => simp [hv] at hok
  | some v =>
    simp only [hv] at hok ⊢
    split at hok
    · simp at hok
    · split at hok
      · simp at hok
      · rename_i h1 h2
        rw [if_neg h1, if_neg h2]
        intro a
        have := calcLoop_keys G h v (v.tops.zip v.gros) [] _ (Prod.ext rfl hok) a
        rw [this]
        simp

/-- `_make_map` only ever assigns anchors that are keys of the (construction-time) table -/
theorem makeMapLoop_equiv (G : Geo α F P) (h : Heap α) (refv : MolView) (E E' : EMap F P)
    (pairs : List (Nat × Nat)) (hok : makeMapLoop G h refv E pairs = (E', none)) :
    E'.table = E.table ∧
    ∀ idx a, E'.equiv.lookup idx = some a →
      E.equiv.lookup idx = some a ∨ ∃ f, E.table.lookup a = some f := by
  induction pairs generalizing E with
  | nil =>
    simp only [makeMapLoop, Prod.mk.injEq, and_true] at hok
    subst hok
    exact ⟨rfl, fun _ _ h => Or.inl h⟩
  | cons p ps ih =>
    obtain ⟨t, g⟩ := p
    simp only [makeMapLoop] at hok
    cases e1 : matchErr h t g with
    | some e => simp [e1] at hok
    | none =>
      simp only [e1] at hok
      cases e2 : h.top? t with
      | none => simp [e2] at hok
      | some tc =>
        cases e3 : h.gro? g with
        | none => simp [e2, e3] at hok
        | some gc =>
          simp only [e2, e3] at hok
          cases e4 : candsOf h refv E.table with
          | error e => simp [e4] at hok
          | ok cs =>
            simp only [e4] at hok
            cases e5 : G.closest cs gc.pos with
            | none => simp [e5] at hok
            | some a0 =>
              simp only [e5] at hok
              cases e6 : E.table.lookup a0 with
              | none => simp [e6] at hok
              | some f0 =>
                simp only [e6] at hok
                obtain ⟨i1, i2⟩ := ih _ hok
                refine ⟨i1, ?_⟩
                intro idx a ha
                rcases i2 idx a ha with hh | hh
                · simp only [lookup_dictSet] at hh
                  split at hh
                  · injection hh with hh
                    subst hh
                    exact Or.inr ⟨f0, e6⟩
                  · exact Or.inl hh
                · exact Or.inr hh

/-- CONSTRUCTION: every anchor assigned to a target atom is an anchor of the reference (an atom with
    at least two bonds in the reference topology at construction time) -/
theorem build_equiv_anchors (G : Geo α F P) (h : Heap α) (ref tgt : Nat) (E : EMap F P)
    (hok : build G h ref tgt = (E, none)) :
    E.ref = ref ∧ E.tgt = tgt ∧ ∀ idx a, E.equiv.lookup idx = some a → a ∈ anchorKeys h ref := by
  unfold build at hok
  rcases e0 : calcRefs G h ref [] with ⟨tb, er⟩
  simp only [e0] at hok
  cases er with
  | some e => simp at hok
  | none =>
    simp only at hok
    cases e1 : molView h ref with
    | none => simp [e1] at hok
    | some rv =>
      cases e2 : molView h tgt with
      | none => simp [e1, e2] at hok
      | some tv =>
        simp only [e1, e2] at hok
        split at hok
        · simp at hok
        · obtain ⟨i1, i2⟩ := makeMapLoop_equiv G h rv _ E _ hok
          have hkeys := pureTable_keys G h ref (by rw [e0])
          unfold pureTable at hkeys
          rw [e0] at hkeys
          -- ref / tgt fields are never touched by the loop
          have hrt : E.ref = ref ∧ E.tgt = tgt := by
            clear i1 i2 hkeys
            generalize hE0 : ({ ref := ref, tgt := tgt, table := tb, equiv := [], tcoords := [] } : EMap F P) = E0 at hok
            have : E0.ref = ref ∧ E0.tgt = tgt := by subst hE0; exact ⟨rfl, rfl⟩
            clear hE0
            generalize (tv.tops.zip tv.gros) = pairs at hok
            revert this
            induction pairs generalizing E0 with
            | nil =>
              intro this
              simp only [makeMapLoop, Prod.mk.injEq, and_true] at hok
              subst hok; exact this
            | cons p ps ih =>
              intro this
              obtain ⟨t, g⟩ := p
              simp only [makeMapLoop] at hok
              cases e1 : matchErr h t g with
              | some e => simp [e1] at hok
              | none =>
                simp only [e1] at hok
                cases e2 : h.top? t with
                | none => simp [e2] at hok
                | some tc =>
                  cases e3 : h.gro? g with
                  | none => simp [e2, e3] at hok
                  | some gc =>
                    simp only [e2, e3] at hok
                    cases e4 : candsOf h rv E0.table with
                    | error e => simp [e4] at hok
                    | ok cs =>
                      simp only [e4] at hok
                      cases e5 : G.closest cs gc.pos with
                      | none => simp [e5] at hok
                      | some a0 =>
                        simp only [e5] at hok
                        cases e6 : E0.table.lookup a0 with
                        | none => simp [e6] at hok
                        | some f0 =>
                          simp only [e6] at hok
                          exact ih _ hok this
          refine ⟨hrt.1, hrt.2, ?_⟩
          intro idx a ha
          rcases i2 idx a ha with hh | hh
          · simp at hh
          · exact (hkeys a).mp hh

/-- `call` refines a pure function (statement and comments: `C04.call_refines_pure`) -/
theorem call_refines_pure_core (G : Geo α F P) (h : Heap α) (E : EMap F P) (m : Nat) (av : MolView)
    (l0 : List Int) (hav : molView h m = some av) (hl0 : residsOf h av.parts = some l0)
    (hargold : ∀ g ∈ av.parts.flatten, g < h.size) (hcov : Covered G h m E.equiv)
    (hok : (call G h E (some (.mol m))).err = none) :
    ∃ nm nv tv tcs ttcs poss vals,
      (call G h E (some (.mol m))).ret = some nm ∧
      molView h E.tgt = some tv ∧ readGros h tv.gros = some tcs ∧ readTops h tv.tops = some ttcs ∧
      ttcs.map (fun tc => purePos G E.equiv E.tcoords (pureTable G h m) tc.index) = poss.map some ∧
      perAtom l0 (eachOf 0 tv.parts) = some vals ∧
      molView (call G h E (some (.mol m))).heap nm = some nv ∧ nv.tops = tv.tops ∧
      (∀ g ∈ nv.gros, h.size ≤ g) ∧ poss.length = tcs.length ∧ vals.length = tcs.length ∧
      readGros (call G h E (some (.mol m))).heap nv.gros =
        some (List.zipWith (fun (n : Int) (g : AtomGroC α) => ({ g with resid := n } : AtomGroC α)) vals
          (List.zipWith (fun (c : AtomGroC α) (p : V3 α) => ({ c with pos := p } : AtomGroC α)) tcs poss)) := by
  have hE : ({ E with table := E.table } : EMap F P) = E := by cases E; rfl
  obtain ⟨i1, i2, i3⟩ := call_table_irrelevant G h E (some (.mol m)) E.table []
    (fun m' hm' => by injection hm' with hm'; injection hm' with hm'; subst hm'; exact hcov)
  rw [hE] at i1 i2 i3
  rw [i1, i2]
  rw [i3] at hok
  simp only [call] at hok ⊢
  cases e1 : molEq h E.ref m with
  | error e => simp [e1] at hok
  | ok b =>
    cases b with
    | false => simp [e1] at hok
    | true =>
      simp only [e1] at hok ⊢
      have hpt : pureTable G h m = (calcRefs G h m []).1 := rfl
      rcases e2 : calcRefs G h m [] with ⟨tb, _ | er⟩
      · simp only [e2] at hok ⊢
        rw [hpt, e2]
        exact finishCall_result G h { E with table := tb } m av l0 hav hl0 hargold hok
      · simp [e2] at hok

end GMHeap
