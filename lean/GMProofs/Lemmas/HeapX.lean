import GMProofs.Lemmas.HeapCopy
import GMModel.HeapX
/-
  GMProofs.Lemmas.HeapX — frame reasoning for the extended operation set (`GMModel.HeapX`).

  `Residue.remove_atom` rewrites a Residue's list cell, which `Frame` (HeapL) forbids (`res` cells
  are immutable there).  `XFrame` is the weaker successor relation in which a `res` cell may be
  replaced by a SUBLIST of itself; everything reachable from an object then only shrinks, which is
  all the separation invariant needs.
-/

namespace GMHeap

variable {α : Type}

/-! ### frames in which a Residue may lose atoms -/

def XCellRel : Cell α → Cell α → Prop
  | .gro _, .gro _ => True
  | .top _, .top _ => True
  | .res l, .res l' => l'.Sublist l
  | .mtop n l, .mtop n' l' => n = n' ∧ l = l'
  | .mol t r e, .mol t' r' e' => t = t' ∧ r = r' ∧ e = e'
  | _, _ => False

theorem XCellRel.refl (c : Cell α) : XCellRel c c := by
  cases c <;> simp [XCellRel]

theorem XCellRel.trans {a b c : Cell α} (h1 : XCellRel a b) (h2 : XCellRel b c) : XCellRel a c := by
  cases a <;> cases b <;> cases c <;> simp_all [XCellRel]
  exact h2.trans h1

theorem XCellRel.of_any {a b : Cell α} (h : CellRel Rel.any a b) : XCellRel a b := by
  cases a <;> cases b <;> simp_all [CellRel, XCellRel]

structure XFrame (W : Nat → Prop) (h h' : Heap α) : Prop where
  size_le : h.size ≤ h'.size
  same : ∀ a, a < h.size → ¬ W a → h'.get? a = h.get? a
  rel : ∀ a c, h.get? a = some c → ∃ c', h'.get? a = some c' ∧ XCellRel c c'

theorem XFrame.refl (W : Nat → Prop) (h : Heap α) : XFrame W h h :=
  ⟨Nat.le_refl _, fun _ _ _ => rfl, fun _ c hc => ⟨c, hc, XCellRel.refl c⟩⟩

theorem XFrame.mono {W W' : Nat → Prop} {h h' : Heap α} (f : XFrame W h h')
    (hw : ∀ a, W a → W' a) : XFrame W' h h' :=
  ⟨f.size_le, fun a ha hn => f.same a ha (fun w => hn (hw a w)), f.rel⟩

theorem Frame.toX {W : Nat → Prop} {h h' : Heap α} (f : Frame Rel.any W h h') : XFrame W h h' :=
  ⟨f.size_le, f.same, fun a c hc => by
    obtain ⟨c', h1, h2⟩ := f.rel a c hc
    exact ⟨c', h1, XCellRel.of_any h2⟩⟩

section stable
variable {W : Nat → Prop} {h h' : Heap α}

theorem XFrame.res? (f : XFrame W h h') {r : Nat} {l : List Nat} (hr : h.res? r = some l) :
    ∃ l', h'.res? r = some l' ∧ l'.Sublist l := by
  obtain ⟨c', hc', rel⟩ := f.rel r _ (Heap.res?_eq_some.mp hr)
  cases c' <;> simp [XCellRel] at rel
  exact ⟨_, Heap.res?_eq_some.mpr hc', rel⟩

theorem XFrame.mtop? (f : XFrame W h h') {t : Nat} {p : String × List Nat} (hr : h.mtop? t = some p) :
    h'.mtop? t = some p := by
  obtain ⟨n, l⟩ := p
  obtain ⟨c', hc', rel⟩ := f.rel t _ (Heap.mtop?_eq_some.mp hr)
  cases c' <;> simp [XCellRel] at rel
  obtain ⟨rfl, rfl⟩ := rel
  exact Heap.mtop?_eq_some.mpr hc'

theorem XFrame.mol? (f : XFrame W h h') {m : Nat} {p : Nat × List Nat × List Nat}
    (hr : h.mol? m = some p) : h'.mol? m = some p := by
  obtain ⟨t, rs, e⟩ := p
  obtain ⟨c', hc', rel⟩ := f.rel m _ (Heap.mol?_eq_some.mp hr)
  cases c' <;> simp [XCellRel] at rel
  obtain ⟨rfl, rfl, rfl⟩ := rel
  exact Heap.mol?_eq_some.mpr hc'

theorem XFrame.readRess (f : XFrame W h h') {rs : List Nat} {p : List (List Nat)}
    (hr : readRess h rs = some p) :
    ∃ p', GMHeap.readRess h' rs = some p' ∧ ∀ x ∈ p'.flatten, x ∈ p.flatten := by
  induction rs generalizing p with
  | nil =>
    simp only [GMHeap.readRess, Option.some.injEq] at hr
    subst hr
    exact ⟨[], rfl, fun _ hx => hx⟩
  | cons r rs ih =>
    simp only [GMHeap.readRess] at hr
    cases h1 : h.res? r with
    | none => simp [h1] at hr
    | some l =>
      cases h2 : GMHeap.readRess h rs with
      | none => simp [h1, h2] at hr
      | some ls =>
        simp only [h1, h2, Option.some.injEq] at hr
        subst hr
        obtain ⟨l', hl', hsub⟩ := f.res? h1
        obtain ⟨ls', hls', hmem⟩ := ih h2
        refine ⟨l' :: ls', by simp [GMHeap.readRess, hl', hls'], ?_⟩
        intro x hx
        simp only [List.flatten_cons, List.mem_append] at hx ⊢
        rcases hx with hx | hx
        · exact Or.inl (hsub.subset hx)
        · exact Or.inr (hmem x hx)

theorem XFrame.molView (f : XFrame W h h') {m : Nat} {v : MolView} (hv : molView h m = some v) :
    ∃ v', GMHeap.molView h' m = some v' ∧ v'.residues = v.residues ∧ v'.tops = v.tops ∧
      v'.top = v.top ∧ v'.each = v.each ∧ v'.name = v.name ∧ ∀ x ∈ v'.gros, x ∈ v.gros := by
  obtain ⟨hg, hr, hm, ht⟩ := molView_gros hv
  obtain ⟨p', hp', hmem⟩ := f.readRess hr
  refine ⟨⟨v.top, v.name, v.tops, v.residues, v.each, p', p'.flatten⟩,
    molView_of_parts (f.mol? hm) (f.mtop? ht) hp', rfl, rfl, rfl, rfl, rfl, ?_⟩
  intro x hx
  rw [hg]
  exact hmem x hx

end stable

/-! ### what an object can reach, including its Residue list cells -/

/-- the Residue list cells of an object -/
def Obj.resAddrs (h : Heap α) : Obj → List Nat
  | .mol m =>
    match molView h m with
    | some v => v.residues
    | none => []
  | .res r => [r]
  | _ => []

/-- the cells an operation of the extended set on the object may write: its AtomGro / AtomTop
    cells (`Obj.cells`) and its Residue list cells -/
def Obj.cellsX (h : Heap α) (o : Obj) : List Nat := o.resAddrs h ++ o.cells h

theorem Obj.cellsX_frame {W : Nat → Prop} {h h' : Heap α} (f : XFrame W h h') {o : Obj}
    (hv : o.Valid h) : o.Valid h' ∧ ∀ a ∈ o.cellsX h', a ∈ o.cellsX h := by
  cases o with
  | mol m =>
    obtain ⟨v, hv⟩ := hv
    obtain ⟨v', hv', e1, e2, _, _, _, hmem⟩ := f.molView hv
    refine ⟨⟨v', hv'⟩, ?_⟩
    intro a ha
    simp only [Obj.cellsX, Obj.resAddrs, Obj.cells, hv, hv', List.mem_append, e1, e2] at ha ⊢
    rcases ha with ha | ha | ha
    · exact Or.inl ha
    · exact Or.inr (Or.inl (hmem a ha))
    · exact Or.inr (Or.inr ha)
  | res r =>
    obtain ⟨l, hl⟩ := hv
    obtain ⟨l', hl', hsub⟩ := f.res? hl
    refine ⟨⟨l', hl'⟩, ?_⟩
    intro a ha
    simp only [Obj.cellsX, Obj.resAddrs, Obj.cells, hl, hl', List.mem_append, List.mem_singleton] at ha ⊢
    rcases ha with ha | ha
    · exact Or.inl ha
    · exact Or.inr (hsub.subset ha)
  | agro g => exact ⟨trivial, fun _ ha => ha⟩
  | atom t g => exact ⟨trivial, fun _ ha => ha⟩

theorem Obj.cells_sub_cellsX (h : Heap α) (o : Obj) : ∀ a ∈ o.cells h, a ∈ o.cellsX h := by
  intro a ha
  exact List.mem_append.mpr (Or.inr ha)

/-! ### returned objects -/

def RetOKXP (h : Heap α) (P : Nat → Prop) (ret : Option Obj) (h1 : Heap α) : Prop :=
  ∀ o', ret = some o' → o'.Valid h1 ∧ ∀ a ∈ o'.cellsX h1, P a ∨ h.size ≤ a

theorem retX_none {h h1 : Heap α} {P : Nat → Prop} : RetOKXP h P none h1 := fun _ ho => by cases ho

theorem retX_of {h : Heap α} {P : Nat → Prop} {r : StepR α} (ret : RetOKP h P r)
    (hres : ∀ o', r.ret = some o' → ∀ a ∈ o'.resAddrs r.heap, P a ∨ h.size ≤ a) :
    RetOKXP h P r.ret r.heap := by
  intro o' ho'
  obtain ⟨v, hc⟩ := ret o' ho'
  refine ⟨v, ?_⟩
  intro a ha
  rcases List.mem_append.mp ha with ha | ha
  · exact hres o' ho' a ha
  · exact hc a ha

theorem retOKP_mono {h : Heap α} {P Q : Nat → Prop} {r : StepR α} (ret : RetOKP h P r)
    (hpq : ∀ a, P a → Q a) : RetOKP h Q r := by
  intro o' ho'
  obtain ⟨v, hc⟩ := ret o' ho'
  exact ⟨v, fun a ha => (hc a ha).elim (fun p => Or.inl (hpq a p)) Or.inr⟩

theorem RetOKXP.mono {h h1 : Heap α} {P Q : Nat → Prop} {ret : Option Obj} (r : RetOKXP h P ret h1)
    (hpq : ∀ a, P a → Q a) : RetOKXP h Q ret h1 := by
  intro o' ho'
  obtain ⟨v, hc⟩ := r o' ho'
  exact ⟨v, fun a ha => (hc a ha).elim (fun p => Or.inl (hpq a p)) Or.inr⟩

/-- the Residue list cells of a freshly constructed Molecule are fresh -/
theorem molInit_resAddrs {h h1 : Heap α} {t m : Nat} {rs : List Nat}
    (hc : molInit h t rs = .ok (h1, m)) : ∀ a ∈ (Obj.mol m).resAddrs h1, h.size ≤ a := by
  obtain ⟨name, tops, ps, css, _, _, _, _, rs', ps', hv, hfrs, _⟩ := (molInit_spec hc).old
  intro a ha
  simp only [Obj.resAddrs, hv] at ha
  exact (hfrs a ha).1

theorem allocOk_mol_resAddrs {h0 h : Heap α} {P : Nat → Prop} {t : Nat} {rs : List Nat}
    (hle : h0.size ≤ h.size) :
    ∀ o', (allocOk (molInit h t rs) h0 Obj.mol).ret = some o' →
      ∀ a ∈ o'.resAddrs (allocOk (molInit h t rs) h0 Obj.mol).heap, P a ∨ h0.size ≤ a := by
  intro o' ho' a ha
  cases hc : molInit h t rs with
  | error e => simp [hc, allocOk] at ho'
  | ok p =>
    obtain ⟨h1, m⟩ := p
    simp only [hc, allocOk, Option.some.injEq] at ho' ha
    subst ho'
    exact Or.inr (Nat.le_trans hle (molInit_resAddrs hc a ha))

section step
variable [Scalar α]

/-- the Residue list cells of what a base operation returns are cells of the target or fresh -/
theorem stepOn_resAddrs (h : Heap α) (o : Obj) (op : Op α) (hval : o.Valid h) :
    ∀ o', (stepOn h o op).ret = some o' →
      ∀ a ∈ o'.resAddrs (stepOn h o op).heap, a ∈ o.cellsX h ∨ h.size ≤ a := by
  have none' : ∀ (h' : Heap α) (e : Option PyErr) (o' : Obj), (⟨h', none, e⟩ : StepR α).ret = some o' →
      ∀ a ∈ o'.resAddrs (⟨h', none, e⟩ : StepR α).heap, a ∈ o.cellsX h ∨ h.size ≤ a :=
    fun _ _ _ ho => by cases ho
  have wr : ∀ (r : Heap α × Option PyErr) (o' : Obj), (writeOk r).ret = some o' →
      ∀ a ∈ o'.resAddrs (writeOk r).heap, a ∈ o.cellsX h ∨ h.size ≤ a :=
    fun _ _ ho => by cases ho
  cases op with
  | newMol name tops residues => exact none' _ _
  | move i d => exact wr _
  | moveTo i p => exact wr _
  | rotate i r => exact wr _
  | setPos i ps => exact wr _
  | setVel i vs => exact wr _
  | setIds i ids => exact wr _
  | setResidsI i n => exact wr _
  | setResnamesS i s => exact wr _
  | setAttr i v => exact wr _
  | setResidsL i l =>
    cases o with
    | mol m => exact wr _
    | res r => exact none' _ _
    | agro g => exact none' _ _
    | atom t g => exact none' _ _
  | setResnamesL i l =>
    cases o with
    | mol m => exact wr _
    | res r => exact none' _ _
    | agro g => exact none' _ _
    | atom t g => exact none' _ _
  | copy i =>
    cases o with
    | mol m =>
      simp only [stepOn]
      cases e1 : h.mol? m with
      | none => exact none' _ _
      | some p =>
        obtain ⟨t, rs, e⟩ := p
        exact allocOk_mol_resAddrs (Nat.le_refl _)
    | res r =>
      simp only [stepOn]
      cases hc : copyResidue h r with
      | error e => exact none' _ _
      | ok p =>
        obtain ⟨h1, a⟩ := p
        obtain ⟨gs, cs, _, _, n⟩ := copyResidue_spec hc
        intro o' ho' x hx
        simp only [allocOk, Option.some.injEq] at ho' hx
        subst ho'
        simp only [Obj.resAddrs, List.mem_singleton] at hx
        subst hx
        exact Or.inr n.fresh.1
    | agro g =>
      simp only [stepOn]
      cases e1 : h.gro? g with
      | none => exact none' _ _
      | some c =>
        intro o' ho' x hx
        simp only [Option.some.injEq] at ho'
        subst ho'
        simp [Obj.resAddrs] at hx
    | atom t g =>
      simp only [stepOn]
      cases e1 : h.gro? g with
      | none => exact none' _ _
      | some c =>
        simp only
        split
        · exact none' _ _
        · intro o' ho' x hx
          simp only [Option.some.injEq] at ho'
          subst ho'
          simp [Obj.resAddrs] at hx
  | deepCopy i =>
    cases o with
    | mol m =>
      simp only [stepOn]
      cases e1 : h.mol? m with
      | none => exact none' _ _
      | some p =>
        obtain ⟨t, rs, e⟩ := p
        simp only
        cases e2 : copyTop h t with
        | error e => exact none' _ _
        | ok q =>
          obtain ⟨h1, t'⟩ := q
          exact allocOk_mol_resAddrs ((copyTop_spec e2).1 Rel.any).size_le
    | res r => exact none' _ _
    | agro g => exact none' _ _
    | atom t g => exact none' _ _
  | molWith i residues =>
    cases o with
    | mol m =>
      simp only [stepOn]
      cases e1 : h.mol? m with
      | none => exact none' _ _
      | some p =>
        obtain ⟨t, rs, e⟩ := p
        simp only
        cases e2 : allocResidues h residues with
        | error e => exact none' _ _
        | ok q =>
          obtain ⟨h1, rs'⟩ := q
          exact allocOk_mol_resAddrs ((allocResidues_spec e2).frame Rel.any).size_le
    | res r => exact none' _ _
    | agro g => exact none' _ _
    | atom t g => exact none' _ _
  | getAtom i k =>
    cases o with
    | mol m =>
      simp only [stepOn]
      cases e1 : molView h m with
      | none => exact none' _ _
      | some v =>
        simp only
        cases e2 : molItem v k with
        | error e => exact none' _ _
        | ok tg =>
          obtain ⟨t, g⟩ := tg
          simp only
          cases e3 : matchErr h t g with
          | some e => exact none' _ _
          | none =>
            intro o' ho' x hx
            simp only [Option.some.injEq] at ho'
            subst ho'
            simp [Obj.resAddrs] at hx
    | res r =>
      simp only [stepOn]
      cases e1 : h.res? r with
      | none => exact none' _ _
      | some gs =>
        simp only
        cases e2 : gs[k]? with
        | none => exact none' _ _
        | some g =>
          intro o' ho' x hx
          simp only [Option.some.injEq] at ho'
          subst ho'
          simp [Obj.resAddrs] at hx
    | agro g => exact none' _ _
    | atom t g => exact none' _ _
  | iterAtom i k =>
    cases o with
    | mol m =>
      simp only [stepOn]
      cases e1 : molView h m with
      | none => exact none' _ _
      | some v =>
        simp only
        split
        · exact none' _ _
        · cases e2 : iterCheck h (v.tops.zip v.gros) k with
          | some e => exact none' _ _
          | none =>
            simp only
            cases e3 : (v.tops.zip v.gros)[k]? with
            | none => exact none' _ _
            | some tg =>
              obtain ⟨t, g⟩ := tg
              intro o' ho' x hx
              simp only [Option.some.injEq] at ho'
              subst ho'
              simp [Obj.resAddrs] at hx
    | res r => exact none' _ _
    | agro g => exact none' _ _
    | atom t g => exact none' _ _
  | getResidue i k =>
    cases o with
    | mol m =>
      simp only [stepOn]
      cases e1 : h.mol? m with
      | none => exact none' _ _
      | some p =>
        obtain ⟨t, rs, e⟩ := p
        simp only
        cases e2 : rs[k]? with
        | none => exact none' _ _
        | some r =>
          intro o' ho' x hx
          simp only [Option.some.injEq] at ho'
          subst ho'
          simp only [Obj.resAddrs, List.mem_singleton] at hx
          subst hx
          obtain ⟨v, hv⟩ := hval
          obtain ⟨_, _, e1', _⟩ := molView_gros hv
          rw [e1] at e1'
          injection e1' with e1'
          injection e1' with _ e1'
          injection e1' with e1' _
          left
          simp only [Obj.cellsX, Obj.resAddrs, hv, List.mem_append]
          exact Or.inl (e1' ▸ List.mem_of_getElem? e2)
    | res r => exact none' _ _
    | agro g => exact none' _ _
    | atom t g => exact none' _ _

end step

/-! ### the write loops of the ragged definitions -/

theorem molPairs_mem {h : Heap α} {m : Nat} {v : MolView} (hv : molView h m = some v) :
    ∀ p ∈ molPairs v, p.2 ∈ (Obj.mol m).cells h ∧ ∀ t, p.1 = some t → t ∈ (Obj.mol m).cells h := by
  intro p hpm
  simp only [molPairs, List.mem_map] at hpm
  obtain ⟨⟨t, g⟩, hz, rfl⟩ := hpm
  have := List.of_mem_zip hz
  simp only [Obj.cells, hv, List.mem_append]
  refine ⟨Or.inl this.2, ?_⟩
  intro t' ht'
  injection ht' with ht'
  subst ht'
  exact Or.inr this.1

theorem writeSet_molPairs {β : Type} {h : Heap α} {m : Nat} {v : MolView} (hv : molView h m = some v)
    (vals : List β) (fg : β → AtomGroC α → AtomGroC α) (ft : β → Option (AtomTopC → AtomTopC)) :
    ∀ a ∈ writeSet (mkW (molPairs v) vals fg ft), a ∈ (Obj.mol m).cells h := by
  intro a ha
  simp only [writeSet, List.mem_flatMap] at ha
  obtain ⟨w, hw, haw⟩ := ha
  obtain ⟨p, hpm, x, _, rfl⟩ := mkW_mem hw
  have hm := molPairs_mem hv p hpm
  simp only [W.addrs, List.mem_cons] at haw
  rcases haw with rfl | haw
  · exact hm.1
  · cases h1 : p.1 with
    | none => simp [h1] at haw
    | some t =>
      cases h2 : ft x with
      | none => simp [h1, h2] at haw
      | some f =>
        simp [h1, h2] at haw
        subst haw
        exact hm.2 _ h1

theorem frame_xloop {β : Type} {h : Heap α} {m : Nat} {v : MolView} (hv : molView h m = some v)
    (vals : List β) (fg : β → AtomGroC α → AtomGroC α) (ft : β → Option (AtomTopC → AtomTopC)) :
    Frame Rel.any (· ∈ (Obj.mol m).cells h) h (applyW true h (mkW (molPairs v) vals fg ft)).1 :=
  (frame_applyW Rel.any true h _ (fun _ _ => ⟨fun _ => trivial, fun _ _ _ => trivial⟩)).mono
    (writeSet_molPairs hv vals fg ft)

section ragged
variable {h : Heap α} {m : Nat} {v : MolView}

theorem frame_xSetPositions (hv : molView h m = some v) (ps : List (V3 α)) :
    Frame Rel.any (· ∈ (Obj.mol m).cells h) h (xSetPositions h v ps).1 := by
  unfold xSetPositions
  split
  · exact Frame.refl _ _ _
  · exact frame_xloop hv _ _ _

theorem frame_xSetVelocities (hv : molView h m = some v) (vs : Option (List (V3 α))) :
    Frame Rel.any (· ∈ (Obj.mol m).cells h) h (xSetVelocities h v vs).1 := by
  unfold xSetVelocities
  cases vs with
  | none => exact frame_xloop hv _ _ _
  | some vs =>
    simp only
    split
    · exact Frame.refl _ _ _
    · exact frame_xloop hv _ _ _

theorem frame_xSetIds (hv : molView h m = some v) (ids : List Int) :
    Frame Rel.any (· ∈ (Obj.mol m).cells h) h (xSetIds h v ids).1 := by
  unfold xSetIds
  split
  · exact Frame.refl _ _ _
  · exact frame_xloop hv _ _ _

theorem frame_xSetResidsList (hv : molView h m = some v) (l : List Int) :
    Frame Rel.any (· ∈ (Obj.mol m).cells h) h (xSetResidsList h v l).1 := by
  unfold xSetResidsList
  cases l with
  | nil => exact Frame.refl _ _ _
  | cons x xs =>
    simp only
    split
    · exact Frame.refl _ _ _
    · split
      · exact Frame.refl _ _ _
      · split
        · exact Frame.refl _ _ _
        · exact frame_xloop hv _ _ _

theorem frame_xSetResnamesList (hv : molView h m = some v) (l : List String) :
    Frame Rel.any (· ∈ (Obj.mol m).cells h) h (xSetResnamesList h v l).1 := by
  unfold xSetResnamesList
  cases l with
  | nil => exact Frame.refl _ _ _
  | cons x xs =>
    simp only
    split
    · exact Frame.refl _ _ _
    · split
      · exact Frame.refl _ _ _
      · split
        · exact Frame.refl _ _ _
        · exact frame_xloop hv _ _ _

theorem frame_xSetResidsInt (hv : molView h m = some v) (n : Int) :
    Frame Rel.any (· ∈ (Obj.mol m).cells h) h (xSetResidsInt h v n).1 := frame_xloop hv _ _ _

theorem frame_xSetResnamesStr (hv : molView h m = some v) (s : String) :
    Frame Rel.any (· ∈ (Obj.mol m).cells h) h (xSetResnamesStr h v s).1 := frame_xloop hv _ _ _

variable [Scalar α]

theorem frame_xMove (hv : molView h m = some v) (d : V3 α) :
    Frame Rel.any (· ∈ (Obj.mol m).cells h) h (xMove h v d).1 := by
  unfold xMove
  split
  · exact Frame.refl _ _ _
  · exact Frame.refl _ _ _
  · exact frame_xSetPositions hv _

theorem frame_xMoveTo (hv : molView h m = some v) (p : V3 α) :
    Frame Rel.any (· ∈ (Obj.mol m).cells h) h (xMoveTo h v p).1 := by
  unfold xMoveTo
  split
  · exact Frame.refl _ _ _
  · exact Frame.refl _ _ _
  · exact frame_xMove hv _

theorem frame_xRotate (hv : molView h m = some v) (r : M3 α) :
    Frame Rel.any (· ∈ (Obj.mol m).cells h) h (xRotate h v r).1 := by
  unfold xRotate
  split
  · exact Frame.refl _ _ _
  · exact Frame.refl _ _ _
  · exact frame_xSetPositions hv _

end ragged

/-! ### one step of the extended language -/

/-- what every step has to deliver for the separation invariant -/
structure StepOK (h : Heap α) (P : Nat → Prop) (h1 : Heap α) (ret : Option Obj) : Prop where
  frame : XFrame P h h1
  ret : RetOKXP h P ret h1

theorem StepOK.stay (h : Heap α) (P : Nat → Prop) : StepOK h P h none :=
  ⟨XFrame.refl _ _, retX_none⟩

theorem StepOK.mono {h h1 : Heap α} {P Q : Nat → Prop} {ret : Option Obj} (s : StepOK h P h1 ret)
    (hpq : ∀ a, P a → Q a) : StepOK h Q h1 ret := ⟨s.frame.mono hpq, s.ret.mono hpq⟩

section stepx
variable [Scalar α]

theorem stepOn_ok (h : Heap α) (o : Obj) (op : Op α) (hval : o.Valid h) :
    StepOK h (· ∈ o.cellsX h) (stepOn h o op).heap (stepOn h o op).ret := by
  obtain ⟨f, r⟩ := stepOn_spec h o op hval
  refine ⟨f.toX.mono (Obj.cells_sub_cellsX h o), ?_⟩
  exact retX_of (retOKP_mono r (Obj.cells_sub_cellsX h o)) (stepOn_resAddrs h o op hval)

theorem stepRagged_ok (h : Heap α) (m : Nat) (v : MolView) (hv : molView h m = some v) (op : Op α) :
    StepOK h (· ∈ (Obj.mol m).cellsX h) (stepRagged h m v op).heap (stepRagged h m v op).ret := by
  have wr : ∀ (r : Heap α × Option PyErr), Frame Rel.any (· ∈ (Obj.mol m).cells h) h r.1 →
      StepOK h (· ∈ (Obj.mol m).cellsX h) (writeOk r).heap (writeOk r).ret :=
    fun r f => ⟨f.toX.mono (Obj.cells_sub_cellsX h _), retX_none⟩
  unfold stepRagged
  split
  · exact StepOK.stay _ _
  · cases op with
    | move i d => exact wr _ (frame_xMove hv d)
    | moveTo i p => exact wr _ (frame_xMoveTo hv p)
    | rotate i r => exact wr _ (frame_xRotate hv r)
    | setPos i ps => exact wr _ (frame_xSetPositions hv ps)
    | setVel i vs => exact wr _ (frame_xSetVelocities hv vs)
    | setIds i ids => exact wr _ (frame_xSetIds hv ids)
    | setResidsL i l => exact wr _ (frame_xSetResidsList hv l)
    | setResidsI i n => exact wr _ (frame_xSetResidsInt hv n)
    | setResnamesL i l => exact wr _ (frame_xSetResnamesList hv l)
    | setResnamesS i s => exact wr _ (frame_xSetResnamesStr hv s)
    | iterAtom i k =>
      simp only [xIterAtom]
      cases e2 : iterCheck h (v.tops.zip v.gros) k with
      | some e => exact StepOK.stay _ _
      | none =>
        simp only
        cases e3 : (v.tops.zip v.gros)[k]? with
        | none => exact StepOK.stay _ _
        | some tg =>
          obtain ⟨t, g⟩ := tg
          refine ⟨XFrame.refl _ _, ?_⟩
          intro o' ho'
          injection ho' with ho'
          subst ho'
          refine ⟨trivial, ?_⟩
          intro x hx
          have hm := List.of_mem_zip (List.mem_of_getElem? e3)
          simp only [Obj.cellsX, Obj.resAddrs, Obj.cells, List.nil_append, List.mem_cons,
            List.not_mem_nil, or_false] at hx
          left
          simp only [Obj.cellsX, Obj.resAddrs, Obj.cells, hv, List.mem_append]
          rcases hx with rfl | rfl
          · exact Or.inr (Or.inl hm.2)
          · exact Or.inr (Or.inr hm.1)
    | newMol name tops residues => exact stepOn_ok h _ _ ⟨v, hv⟩
    | molWith i residues => exact stepOn_ok h _ _ ⟨v, hv⟩
    | copy i => exact stepOn_ok h _ _ ⟨v, hv⟩
    | deepCopy i => exact stepOn_ok h _ _ ⟨v, hv⟩
    | getAtom i k => exact stepOn_ok h _ _ ⟨v, hv⟩
    | getResidue i k => exact stepOn_ok h _ _ ⟨v, hv⟩
    | setAttr i a => exact stepOn_ok h _ _ ⟨v, hv⟩

theorem stepBase_ok (h : Heap α) (o : Obj) (op : Op α) (hval : o.Valid h) :
    StepOK h (· ∈ o.cellsX h) (stepBase h o op).heap (stepBase h o op).ret := by
  unfold stepBase
  cases o with
  | mol m =>
    simp only
    cases hv : molView h m with
    | none => exact stepOn_ok h _ _ hval
    | some v =>
      simp only
      split
      · exact stepRagged_ok h m v hv op
      · exact stepOn_ok h _ _ hval
  | res r =>
    simp only
    split
    · unfold stepEmptyRes
      cases op with
      | move i d => exact StepOK.stay _ _
      | moveTo i p => exact StepOK.stay _ _
      | rotate i r => exact StepOK.stay _ _
      | newMol name tops residues => exact stepOn_ok h _ _ hval
      | molWith i residues => exact stepOn_ok h _ _ hval
      | copy i => exact stepOn_ok h _ _ hval
      | deepCopy i => exact stepOn_ok h _ _ hval
      | getAtom i k => exact stepOn_ok h _ _ hval
      | iterAtom i k => exact stepOn_ok h _ _ hval
      | getResidue i k => exact stepOn_ok h _ _ hval
      | setPos i ps => exact stepOn_ok h _ _ hval
      | setVel i vs => exact stepOn_ok h _ _ hval
      | setIds i ids => exact stepOn_ok h _ _ hval
      | setResidsL i l => exact stepOn_ok h _ _ hval
      | setResidsI i n => exact stepOn_ok h _ _ hval
      | setResnamesL i l => exact stepOn_ok h _ _ hval
      | setResnamesS i s => exact stepOn_ok h _ _ hval
      | setAttr i a => exact stepOn_ok h _ _ hval
    · exact stepOn_ok h _ _ hval
  | agro g => exact stepOn_ok h _ _ hval
  | atom t g => exact stepOn_ok h _ _ hval

end stepx

/-! ### named attribute assignment -/

theorem frame_setAttrAtom (h : Heap α) (t g : Nat) (attr : String) (v : PyVal α) :
    Frame Rel.any (· ∈ (Obj.atom t g).cells h) h (setAttrAtom h t g attr v).1 := by
  have fT : ∀ f : AtomTopC → AtomTopC, Frame Rel.any (· ∈ (Obj.atom t g).cells h) h (h.modTop t f) :=
    fun f => (frame_modTop _ h t f (fun _ => trivial)).mono (by intro a ha; simp [Obj.cells, ha])
  have fG : ∀ (h' : Heap α) (f : AtomGroC α → AtomGroC α),
      Frame Rel.any (· ∈ (Obj.atom t g).cells h) h' (h'.modGro g f) :=
    fun h' f => (frame_modGro _ h' g f (fun _ => trivial)).mono (by intro a ha; simp [Obj.cells, ha])
  have fTG : ∀ (f : AtomTopC → AtomTopC) (f' : AtomGroC α → AtomGroC α),
      Frame Rel.any (· ∈ (Obj.atom t g).cells h) h ((h.modTop t f).modGro g f') :=
    fun f f' => (fT f).trans' (fG _ f')
  unfold setAttrAtom
  repeat' split
  all_goals first
    | exact Frame.refl _ _ _
    | exact fT _
    | exact fG h _
    | exact fTG _ _

theorem frame_setAttrGro (h : Heap α) (g : Nat) (attr : String) (v : PyVal α) :
    Frame Rel.any (· ∈ (Obj.agro g).cells h) h (setAttrGro h g attr v).1 := by
  have fG : ∀ (f : AtomGroC α → AtomGroC α),
      Frame Rel.any (· ∈ (Obj.agro g).cells h) h (h.modGro g f) :=
    fun f => (frame_modGro _ h g f (fun _ => trivial)).mono (by intro a ha; simp [Obj.cells, ha])
  unfold setAttrGro
  repeat' split
  all_goals first
    | exact Frame.refl _ _ _
    | exact fG _

theorem frame_setAttrN (h : Heap α) (o : Obj) (attr : String) (v : PyVal α) :
    Frame Rel.any (· ∈ o.cells h) h (setAttrN h o attr v).1 := by
  cases o with
  | atom t g => exact frame_setAttrAtom h t g attr v
  | agro g => exact frame_setAttrGro h g attr v
  | mol m => simp only [setAttrN]; split <;> exact Frame.refl _ _ _
  | res r => exact Frame.refl _ _ _

/-! ### `Atom(top, gro)` -/

theorem mkAtom_ret {h : Heap α} {a b : Obj} {viaTop : Bool} {o' : Obj}
    (hr : (mkAtom h a b viaTop).1 = some o') :
    ∀ x ∈ o'.cellsX h, x ∈ a.cellsX h ∨ x ∈ b.cellsX h := by
  unfold mkAtom at hr
  cases b with
  | agro g =>
    simp only at hr
    cases viaTop with
    | false => simp at hr
    | true =>
      cases a with
      | atom t g' =>
        simp only [if_true] at hr
        cases e : matchErr h t g with
        | some er => simp [e] at hr
        | none =>
          simp only [e, Option.some.injEq] at hr
          subst hr
          intro x hx
          simp only [Obj.cellsX, Obj.resAddrs, Obj.cells, List.nil_append, List.mem_cons,
            List.not_mem_nil, or_false] at hx ⊢
          rcases hx with rfl | rfl
          · exact Or.inr rfl
          · exact Or.inl (Or.inr rfl)
      | mol m => simp at hr
      | res r => simp at hr
      | agro g' => simp at hr
  | mol m => cases viaTop <;> cases a <;> simp at hr
  | res r => cases viaTop <;> cases a <;> simp at hr
  | atom t g => cases viaTop <;> cases a <;> simp at hr

/-! ### `remove_atom` -/

theorem xframe_set_res {h : Heap α} {r : Nat} {gs l' : List Nat} (hr : h.res? r = some gs)
    (hsub : l'.Sublist gs) : XFrame (· = r) h (h.set r (.res l')) := by
  have hc := Heap.res?_eq_some.mp hr
  have hlt := Heap.lt_size_of_get? hc
  refine ⟨by simp, ?_, ?_⟩
  · intro a _ hne
    rw [Heap.get?_set, if_neg (fun e => hne e.symm)]
  · intro a c hac
    by_cases e : a = r
    · subst e
      rw [hc] at hac
      injection hac with hac
      subst hac
      exact ⟨.res l', by rw [Heap.get?_set, if_pos rfl, if_pos hlt], hsub⟩
    · exact ⟨c, by rw [Heap.get?_set, if_neg (fun e' => e e'.symm)]; exact hac, XCellRel.refl c⟩

theorem removeIdx_lt {h : Heap α} {x : Nat} {xc : AtomGroC α} {gs : List Nat} {k : Nat}
    (hk : removeIdx h x xc gs = some (some k)) : k < gs.length := by
  induction gs generalizing k with
  | nil => simp [removeIdx] at hk
  | cons g gs ih =>
    simp only [removeIdx] at hk
    cases e1 : h.gro? g with
    | none => simp [e1] at hk
    | some c =>
      simp only [e1] at hk
      split at hk
      · injection hk with hk; injection hk with hk; subst hk; simp
      · cases e2 : removeIdx h x xc gs with
        | none => simp [e2] at hk
        | some o =>
          cases o with
          | none => simp [e2] at hk
          | some k' =>
            simp only [e2, Option.some.injEq] at hk
            subst hk
            have := ih e2
            simp; omega

theorem xframe_removeAtom (h : Heap α) (r : Nat) (x : Obj) :
    XFrame (· = r) h (removeAtom h r x).1 := by
  unfold removeAtom
  cases hr : h.res? r with
  | none => exact XFrame.refl _ _
  | some gs =>
    simp only
    cases x with
    | agro g =>
      simp only
      cases hg : h.gro? g with
      | none => exact XFrame.refl _ _
      | some xc =>
        simp only
        cases hk : removeIdx h g xc gs with
        | none => exact XFrame.refl _ _
        | some o =>
          cases o with
          | none => exact XFrame.refl _ _
          | some k => exact xframe_set_res hr (List.eraseIdx_sublist gs k)
    | mol m => simp only; split <;> exact XFrame.refl _ _
    | res r' => simp only; split <;> exact XFrame.refl _ _
    | atom t g => simp only; split <;> exact XFrame.refl _ _

/-! ### `+` -/

theorem newResidueOfCopies_spec {h h1 : Heap α} {cs : List (AtomGroC α)} {a : Nat}
    (hc : newResidueOfCopies h cs = .ok (h1, a)) : NewRes h h1 a cs := by
  unfold newResidueOfCopies at hc
  simp only at hc
  cases hi : residueInitErr cs with
  | some e => simp [hi] at hc
  | none =>
    simp only [hi] at hc
    injection hc with hc
    have e1 : h1 = ((h.allocList (cs.map Cell.gro)).1.alloc (.res (h.allocList (cs.map Cell.gro)).2)).1 :=
      (congrArg Prod.fst hc).symm
    have e2 : a = ((h.allocList (cs.map Cell.gro)).1.alloc (.res (h.allocList (cs.map Cell.gro)).2)).2 :=
      (congrArg Prod.snd hc).symm
    rw [e1, e2]
    exact newRes_of_alloc h cs hi

/-- a freshly built Residue of copies: a valid object living entirely in fresh cells -/
theorem NewRes.stepOK {h h1 : Heap α} {a : Nat} {cs : List (AtomGroC α)} (n : NewRes h h1 a cs)
    (P : Nat → Prop) : StepOK h P h1 (some (.res a)) := by
  obtain ⟨as, hres, hfr, _, _⟩ := n.cell
  refine ⟨(n.frame Rel.any).toX.mono (fun _ w => w.elim), ?_⟩
  intro o' ho'
  injection ho' with ho'
  subst ho'
  refine ⟨⟨as, hres⟩, ?_⟩
  intro x hx
  simp only [Obj.cellsX, Obj.resAddrs, Obj.cells, hres, List.singleton_append, List.mem_cons] at hx
  rcases hx with rfl | hx
  · exact Or.inr n.fresh.1
  · exact Or.inr (hfr x hx).1

/-- the shape of a successful `resAddAtom` / `resAddRes` -/
theorem resAddAtom_spec {h h1 : Heap α} {r g a : Nat} (hc : resAddAtom h r g = .ok (h1, a)) :
    ∃ gs cs gc, h.res? r = some gs ∧ readGros h gs = some cs ∧ h.gro? g = some gc ∧
      NewRes h h1 a (cs ++ [gc]) := by
  unfold resAddAtom at hc
  cases e1 : h.gro? g with
  | none => simp [e1] at hc
  | some gc =>
    simp only [e1] at hc
    cases e2 : resResidname h r with
    | error e => simp [e2] at hc
    | ok rn =>
      simp only [e2] at hc
      split at hc
      · cases hc
      · cases e3 : h.res? r with
        | none => simp [e3] at hc
        | some gs =>
          simp only [e3] at hc
          cases e4 : readGros h gs with
          | none => simp [e4] at hc
          | some cs =>
            simp only [e4] at hc
            exact ⟨gs, cs, gc, rfl, e4, rfl, newResidueOfCopies_spec hc⟩

theorem resAddRes_spec {h h1 : Heap α} {r1 r2 a : Nat} (hc : resAddRes h r1 r2 = .ok (h1, a)) :
    ∃ l1 l2 c1 c2, h.res? r1 = some l1 ∧ h.res? r2 = some l2 ∧ readGros h l1 = some c1 ∧
      readGros h l2 = some c2 ∧ NewRes h h1 a (c1 ++ c2) := by
  unfold resAddRes at hc
  cases e1 : resResidname h r1 with
  | error e => simp [e1] at hc
  | ok n1 =>
    simp only [e1] at hc
    cases e2 : resResidname h r2 with
    | error e => simp [e2] at hc
    | ok n2 =>
      simp only [e2] at hc
      split at hc
      · cases hc
      · cases e3 : h.res? r1 with
        | none => simp [e3] at hc
        | some l1 =>
          cases e4 : h.res? r2 with
          | none => simp [e3, e4] at hc
          | some l2 =>
            simp only [e3, e4] at hc
            cases e5 : readGros h l1 with
            | none => simp [e5] at hc
            | some c1 =>
              cases e6 : readGros h l2 with
              | none => simp [e5, e6] at hc
              | some c2 =>
                simp only [e5, e6] at hc
                exact ⟨l1, l2, c1, c2, rfl, rfl, e5, e6, newResidueOfCopies_spec hc⟩

theorem groAddGro_spec {h h1 : Heap α} {g1 g2 a : Nat} (hc : groAddGro h g1 g2 = .ok (h1, a)) :
    h1 = (h.alloc (.res [g1, g2])).1 ∧ a = h.size ∧ ∃ c1 c2, h.gro? g1 = some c1 ∧ h.gro? g2 = some c2 := by
  unfold groAddGro at hc
  cases e1 : h.gro? g1 with
  | none => simp [e1] at hc
  | some c1 =>
    cases e2 : h.gro? g2 with
    | none => simp [e1, e2] at hc
    | some c2 =>
      simp only [e1, e2] at hc
      split at hc
      · cases hc
      · split at hc
        · cases hc
        · injection hc with hc
          exact ⟨(congrArg Prod.fst hc).symm, (congrArg Prod.snd hc).symm, c1, c2, rfl, rfl⟩

theorem addObjs_ok (h : Heap α) (a b : Obj) :
    StepOK h (fun x => x ∈ a.cellsX h ∨ x ∈ b.cellsX h) (allocOkX (addObjs h a b) h).heap
      (allocOkX (addObjs h a b) h).ret := by
  cases hc : addObjs h a b with
  | error e => exact StepOK.stay _ _
  | ok p =>
    obtain ⟨h1, r⟩ := p
    simp only [allocOkX]
    cases a with
    | mol m => simp [addObjs] at hc
    | atom t g => cases b <;> simp [addObjs] at hc
    | agro g1 =>
      cases b with
      | mol m => simp [addObjs] at hc
      | atom t g => simp [addObjs] at hc
      | res r2 =>
        simp only [addObjs] at hc
        obtain ⟨_, _, _, _, _, _, n⟩ := resAddAtom_spec hc
        exact n.stepOK _
      | agro g2 =>
        simp only [addObjs] at hc
        obtain ⟨rfl, rfl, c1, c2, hc1, hc2⟩ := groAddGro_spec hc
        refine ⟨(frame_alloc Rel.any h _).toX.mono (fun _ w => w.elim), ?_⟩
        intro o' ho'
        injection ho' with ho'
        subst ho'
        have hres : (h.alloc (Cell.res [g1, g2])).1.res? h.size = some [g1, g2] := by
          apply Heap.res?_eq_some.mpr
          rw [Heap.get?_alloc, if_pos rfl]
        refine ⟨⟨_, hres⟩, ?_⟩
        intro x hx
        simp only [Obj.cellsX, Obj.resAddrs, Obj.cells, hres, List.singleton_append, List.mem_cons,
          List.not_mem_nil, or_false, List.nil_append] at hx ⊢
        rcases hx with rfl | rfl | rfl
        · exact Or.inr (Nat.le_refl _)
        · exact Or.inl (Or.inl rfl)
        · exact Or.inl (Or.inr rfl)
    | res r1 =>
      cases b with
      | mol m => simp [addObjs] at hc
      | atom t g => simp [addObjs] at hc
      | agro g =>
        simp only [addObjs] at hc
        obtain ⟨_, _, _, _, _, _, n⟩ := resAddAtom_spec hc
        exact n.stepOK _
      | res r2 =>
        simp only [addObjs] at hc
        obtain ⟨_, _, _, _, _, _, _, _, n⟩ := resAddRes_spec hc
        exact n.stepOK _

theorem radd0_ok (h : Heap α) (a : Obj) :
    StepOK h (fun x => x ∈ a.cellsX h) (allocOkX (radd0 h a) h).heap (allocOkX (radd0 h a) h).ret := by
  cases hc : radd0 h a with
  | error e => exact StepOK.stay _ _
  | ok p =>
    obtain ⟨h1, r⟩ := p
    simp only [allocOkX]
    cases a with
    | res r1 =>
      simp only [radd0] at hc
      obtain ⟨_, _, _, _, n⟩ := copyResidue_spec hc
      exact n.stepOK _
    | mol m => simp [radd0] at hc
    | agro g => simp [radd0] at hc
    | atom t g => simp [radd0] at hc

/-! ### the separation invariant for the extended language -/

theorem newMol_resAddrs (h : Heap α) (name : String) (tops : List AtomTopC)
    (residues : List (List (AtomGroC α))) :
    ∀ o', (newMol h name tops residues).ret = some o' →
      ∀ a ∈ o'.resAddrs (newMol h name tops residues).heap, False ∨ h.size ≤ a := by
  unfold newMol
  simp only
  cases e2 : allocResidues ((h.allocList (tops.map Cell.top)).1.alloc
      (.mtop name (h.allocList (tops.map Cell.top)).2)).1 residues with
  | error e => intro o' ho'; cases ho'
  | ok q =>
    obtain ⟨h3, rs⟩ := q
    simp only
    have f1 := (frame_allocList (Rel.any : Rel α) h (tops.map Cell.top)).size_le
    have f2 := (frame_alloc (Rel.any : Rel α) (h.allocList (tops.map Cell.top)).1
      (.mtop name (h.allocList (tops.map Cell.top)).2)).size_le
    have f3 := ((allocResidues_spec e2).frame Rel.any).size_le
    exact allocOk_mol_resAddrs (by omega)

/-- `o` is a live object none of whose writable cells — AtomGro, AtomTop AND Residue list cells —
    is protected -/
def FreeX (S : Nat → Prop) (h : Heap α) (o : Obj) : Prop := o.Valid h ∧ ∀ a ∈ o.cellsX h, ¬ S a

theorem FreeX.frame {S W : Nat → Prop} {h h' : Heap α} {o : Obj} (f : XFrame W h h')
    (hf : FreeX S h o) : FreeX S h' o := by
  obtain ⟨v, e⟩ := Obj.cellsX_frame f hf.1
  exact ⟨v, fun a ha => hf.2 a (e a ha)⟩

section runx
variable [Scalar α]

/-- every step of the extended language writes only cells of objects of the environment and
    returns an object living in such cells or in fresh ones -/
theorem stepX_ok (h : Heap α) (env : List Obj) (op : XOp α) (hval : ∀ o ∈ env, o.Valid h) :
    StepOK h (fun a => ∃ o ∈ env, a ∈ o.cellsX h) (stepX h env op).heap (stepX h env op).ret := by
  have one : ∀ {i : Nat} {o : Obj}, env[i]? = some o → ∀ a, a ∈ o.cellsX h → ∃ o ∈ env, a ∈ o.cellsX h :=
    fun e a ha => ⟨_, List.mem_of_getElem? e, ha⟩
  cases op with
  | base op =>
    cases op with
    | newMol name tops residues =>
      have sp := newMol_spec h name tops residues
      exact ⟨sp.1.toX.mono (fun _ w => w.elim),
        (retX_of sp.2 (newMol_resAddrs h name tops residues)).mono (fun _ w => w.elim)⟩
    | _ =>
      simp only [stepX, Op.target]
      split
      · exact StepOK.stay _ _
      · rename_i o e
        exact (stepBase_ok h o _ (hval o (List.mem_of_getElem? e))).mono (one e)
  | setAttrN i attr v =>
    simp only [stepX]
    split
    · exact StepOK.stay _ _
    · rename_i o e
      exact ⟨(frame_setAttrN h o attr v).toX.mono (fun a ha => one e a (Obj.cells_sub_cellsX h o a ha)),
        retX_none⟩
  | getAttrN i attr =>
    simp only [stepX]
    split
    · exact StepOK.stay _ _
    · split <;> exact StepOK.stay _ _
  | eq i j =>
    simp only [stepX]
    split
    · split <;> exact StepOK.stay _ _
    · exact StepOK.stay _ _
  | mkAtom i j viaTop =>
    simp only [stepX]
    split
    · rename_i a b ea eb
      refine ⟨XFrame.refl _ _, ?_⟩
      intro o' ho'
      have hm := mkAtom_ret ho'
      refine ⟨?_, fun x hx => Or.inl ((hm x hx).elim (one ea x) (one eb x))⟩
      -- the only object `mkAtom` returns is an `Atom` view
      unfold mkAtom at ho'
      cases b <;> cases viaTop <;> cases a <;> simp at ho'
      split at ho'
      · simp at ho'
      · simp only [Option.some.injEq] at ho'; subst ho'; trivial
    · exact StepOK.stay _ _
  | removeAtom i j =>
    simp only [stepX]
    split
    · rename_i r x ea eb
      exact ⟨(xframe_removeAtom h r x).mono (fun a ha => by
        subst ha
        exact one ea _ (by simp [Obj.cellsX, Obj.resAddrs])), retX_none⟩
    · exact StepOK.stay _ _
    · exact StepOK.stay _ _
  | add i j =>
    simp only [stepX]
    split
    · rename_i a b ea eb
      exact (addObjs_ok h a b).mono (fun x hx => hx.elim (one ea x) (one eb x))
    · exact StepOK.stay _ _
  | radd0 i =>
    simp only [stepX]
    split
    · rename_i a ea
      exact (radd0_ok h a).mono (one ea)
    · exact StepOK.stay _ _

theorem stepX_preserves (S : Nat → Prop) (h : Heap α) (env : List Obj) (op : XOp α)
    (hS : ∀ a, S a → a < h.size) (hfree : ∀ o ∈ env, FreeX S h o) :
    (∀ a, S a → (stepX h env op).heap.get? a = h.get? a) ∧
    (∀ o ∈ pushRetX env (stepX h env op), FreeX S (stepX h env op).heap o) ∧
    h.size ≤ (stepX h env op).heap.size := by
  have sp := stepX_ok h env op (fun o ho => (hfree o ho).1)
  have hP : ∀ a, (∃ o ∈ env, a ∈ o.cellsX h) → ¬ S a := fun a ⟨o, ho, ha⟩ => (hfree o ho).2 a ha
  refine ⟨fun a ha => sp.frame.same a (hS a ha) (fun w => hP a w ha), ?_, sp.frame.size_le⟩
  intro o ho
  unfold pushRetX at ho
  cases e : (stepX h env op).ret with
  | none =>
    simp only [e] at ho
    exact (hfree o ho).frame sp.frame
  | some o' =>
    simp only [e, List.mem_append, List.mem_singleton] at ho
    rcases ho with ho | rfl
    · exact (hfree o ho).frame sp.frame
    · obtain ⟨v, hc⟩ := sp.ret o e
      refine ⟨v, ?_⟩
      intro a ha hs
      rcases hc a ha with hp | hp
      · exact hP a hp hs
      · have := hS a hs; omega

/-- SEPARATION INVARIANT for the extended operation set -/
theorem runX_preserves (S : Nat → Prop) (ops : List (XOp α)) (h : Heap α) (env : List Obj)
    (hS : ∀ a, S a → a < h.size) (hfree : ∀ o ∈ env, FreeX S h o) :
    (∀ a, S a → (runX h env ops).1.get? a = h.get? a) ∧
    (∀ o ∈ (runX h env ops).2, FreeX S (runX h env ops).1 o) := by
  induction ops generalizing h env with
  | nil => exact ⟨fun _ _ => rfl, hfree⟩
  | cons op ops ih =>
    simp only [runX]
    obtain ⟨h1, h2, h3⟩ := stepX_preserves S h env op hS hfree
    obtain ⟨i1, i2⟩ := ih (stepX h env op).heap (pushRetX env (stepX h env op))
      (fun a ha => Nat.lt_of_lt_of_le (hS a ha) h3) h2
    exact ⟨fun a ha => by rw [i1 a ha, h1 a ha], i2⟩

omit [Scalar α] in
/-- every Residue list cell of an object belongs to its gro side -/
theorem Obj.resAddrs_sub_groSide (h : Heap α) (o : Obj) : ∀ a ∈ o.resAddrs h, a ∈ o.groSide h := by
  intro a ha
  cases o with
  | mol m =>
    cases hv : molView h m with
    | none => simp [Obj.resAddrs, hv] at ha
    | some v =>
      simp only [Obj.resAddrs, hv] at ha
      simp only [Obj.groSide, hv, List.mem_cons, List.mem_append]
      exact Or.inr (Or.inl ha)
  | res r =>
    simp only [Obj.resAddrs, List.mem_singleton] at ha
    subst ha
    cases hr : h.res? a <;> simp [Obj.groSide, hr]
  | agro g => simp [Obj.resAddrs] at ha
  | atom t g => simp [Obj.resAddrs] at ha

/-- two-way isolation of a copy under the EXTENDED operation set -/
theorem Copied.separatedX {h h1 : Heap α} {x c : Obj} (k : Copied h h1 x c) (ops : List (XOp α)) :
    (∀ a ∈ x.groSide h, (runX h1 [c] ops).1.get? a = h.get? a) ∧
    (∀ a ∈ c.groSide h1, (runX h1 [x] ops).1.get? a = h1.get? a) := by
  constructor
  · have := runX_preserves (· ∈ x.groSide h) ops h1 [c]
      (fun a ha => Nat.lt_of_lt_of_le (k.xgro_old a ha) k.frame.size_le)
      (by
        intro o ho
        simp only [List.mem_singleton] at ho
        subst ho
        refine ⟨k.cvalid, ?_⟩
        intro a ha hs
        rcases List.mem_append.mp ha with ha | ha
        · have h1' := (k.cgro_fresh a (Obj.resAddrs_sub_groSide h1 _ a ha)).1
          have := k.xgro_old a hs; omega
        · rcases k.ccells a ha with h1' | h1'
          · exact k.disjoint a h1' hs
          · have := k.xgro_old a hs; omega)
    intro a ha
    rw [this.1 a ha, k.frame.same a (k.xgro_old a ha) (fun w => w)]
  · have := runX_preserves (· ∈ c.groSide h1) ops h1 [x]
      (fun a ha => (k.cgro_fresh a ha).2)
      (by
        intro o ho
        simp only [List.mem_singleton] at ho
        subst ho
        obtain ⟨v, e⟩ := Obj.cellsX_frame k.frame.toX k.xvalid
        refine ⟨v, ?_⟩
        intro a ha hs
        have ha' := e a ha
        have hfr := (k.cgro_fresh a hs).1
        rcases List.mem_append.mp ha' with ha' | ha'
        · have := k.xgro_old a (Obj.resAddrs_sub_groSide h _ a ha'); omega
        · have := k.xcells_old a ha'; omega)
    exact fun a ha => this.1 a ha

theorem DeepCopied.separatedX {h h1 : Heap α} {x c : Obj} (k : DeepCopied h h1 x c)
    (ops : List (XOp α)) :
    (∀ a ∈ x.groSide h ++ x.topSide h, (runX h1 [c] ops).1.get? a = h.get? a) ∧
    (∀ a ∈ c.groSide h1 ++ c.topSide h1, (runX h1 [x] ops).1.get? a = h1.get? a) := by
  constructor
  · have := runX_preserves (· ∈ x.groSide h ++ x.topSide h) ops h1 [c]
      (fun a ha => Nat.lt_of_lt_of_le (k.xold a ha) k.frame.size_le)
      (by
        intro o ho
        simp only [List.mem_singleton] at ho
        subst ho
        refine ⟨k.cvalid, ?_⟩
        intro a ha hs
        have := k.xold a hs
        rcases List.mem_append.mp ha with ha | ha
        · have := (k.cfresh a (List.mem_append.mpr (Or.inl (Obj.resAddrs_sub_groSide h1 _ a ha)))).1
          omega
        · have := k.ccells a ha; omega)
    intro a ha
    rw [this.1 a ha, k.frame.same a (k.xold a ha) (fun w => w)]
  · have := runX_preserves (· ∈ c.groSide h1 ++ c.topSide h1) ops h1 [x]
      (fun a ha => (k.cfresh a ha).2)
      (by
        intro o ho
        simp only [List.mem_singleton] at ho
        subst ho
        obtain ⟨v, e⟩ := Obj.cellsX_frame k.frame.toX k.xvalid
        refine ⟨v, ?_⟩
        intro a ha hs
        have ha' := e a ha
        have hfr := (k.cfresh a hs).1
        rcases List.mem_append.mp ha' with ha' | ha'
        · have := k.xold a (List.mem_append.mpr (Or.inl (Obj.resAddrs_sub_groSide h _ a ha'))); omega
        · have := k.xcells_old a ha'; omega)
    exact fun a ha => this.1 a ha

end runx

/-! ### an object built in fresh cells is isolated from everything that existed -/

section fresh
variable [Scalar α]

theorem fresh_separatedX {h h1 : Heap α} {xs : List Obj} {c : Obj} (f : Frame Rel.any NoW h h1)
    (cvalid : c.Valid h1)
    (cfresh : ∀ a, (a ∈ c.cellsX h1 ∨ a ∈ c.groSide h1) → h.size ≤ a ∧ a < h1.size)
    (xvalid : ∀ x ∈ xs, x.Valid h)
    (xold : ∀ x ∈ xs, ∀ a, (a ∈ x.cellsX h ∨ a ∈ x.groSide h) → a < h.size)
    (ops : List (XOp α)) :
    (∀ x ∈ xs, ∀ a ∈ x.groSide h, (runX h1 [c] ops).1.get? a = h.get? a) ∧
    (∀ a ∈ c.groSide h1, (runX h1 xs ops).1.get? a = h1.get? a) := by
  constructor
  · have := runX_preserves (fun a => ∃ x ∈ xs, a ∈ x.groSide h) ops h1 [c]
      (fun a ⟨x, hx, ha⟩ => Nat.lt_of_lt_of_le (xold x hx a (Or.inr ha)) f.size_le)
      (by
        intro o ho
        simp only [List.mem_singleton] at ho
        subst ho
        refine ⟨cvalid, ?_⟩
        intro a ha ⟨x, hx, hs⟩
        have := (cfresh a (Or.inl ha)).1
        have := xold x hx a (Or.inr hs)
        omega)
    intro x hx a ha
    rw [this.1 a ⟨x, hx, ha⟩, f.same a (xold x hx a (Or.inr ha)) (fun w => w)]
  · have := runX_preserves (· ∈ c.groSide h1) ops h1 xs
      (fun a ha => (cfresh a (Or.inr ha)).2)
      (by
        intro o ho
        obtain ⟨v, e⟩ := Obj.cellsX_frame f.toX (xvalid o ho)
        refine ⟨v, ?_⟩
        intro a ha hs
        have := xold o ho a (Or.inl (e a ha))
        have := (cfresh a (Or.inr hs)).1
        omega)
    exact fun a ha => this.1 a ha

end fresh

/-! ### `remove_atom`: which atom goes -/

theorem removeIdx_spec {h : Heap α} {x : Nat} {xc : AtomGroC α} {gs : List Nat} {k : Nat}
    (hk : removeIdx h x xc gs = some (some k)) :
    (∃ g c, gs[k]? = some g ∧ h.gro? g = some c ∧ (g = x ∨ groEq c xc = true)) ∧
    ∀ j, j < k → ∃ g c, gs[j]? = some g ∧ h.gro? g = some c ∧ g ≠ x ∧ groEq c xc = false := by
  induction gs generalizing k with
  | nil => simp [removeIdx] at hk
  | cons g gs ih =>
    simp only [removeIdx] at hk
    cases e1 : h.gro? g with
    | none => simp [e1] at hk
    | some c =>
      simp only [e1] at hk
      split at hk
      · rename_i hcond
        injection hk with hk; injection hk with hk; subst hk
        refine ⟨⟨g, c, by simp, e1, hcond⟩, fun j hj => by omega⟩
      · rename_i hcond
        cases e2 : removeIdx h x xc gs with
        | none => simp [e2] at hk
        | some o =>
          cases o with
          | none => simp [e2] at hk
          | some k' =>
            simp only [e2, Option.some.injEq] at hk
            subst hk
            obtain ⟨⟨g', c', a1, a2, a3⟩, rest⟩ := ih e2
            refine ⟨⟨g', c', by simpa using a1, a2, a3⟩, ?_⟩
            intro j hj
            cases j with
            | zero =>
              refine ⟨g, c, by simp, e1, fun e => hcond (Or.inl e), ?_⟩
              cases hb : groEq c xc with
              | false => rfl
              | true => exact absurd (Or.inr hb) hcond
            | succ j =>
              obtain ⟨g'', c'', b1, b2, b3⟩ := rest j (by omega)
              exact ⟨g'', c'', by simpa using b1, b2, b3⟩

theorem removeIdx_none {h : Heap α} {x : Nat} {xc : AtomGroC α} {gs : List Nat}
    (hk : removeIdx h x xc gs = some none) :
    ∀ g ∈ gs, ∃ c, h.gro? g = some c ∧ g ≠ x ∧ groEq c xc = false := by
  induction gs with
  | nil => intro g hg; cases hg
  | cons g gs ih =>
    simp only [removeIdx] at hk
    cases e1 : h.gro? g with
    | none => simp [e1] at hk
    | some c =>
      simp only [e1] at hk
      split at hk
      · simp at hk
      · rename_i hcond
        cases e2 : removeIdx h x xc gs with
        | none => simp [e2] at hk
        | some o =>
          cases o with
          | some k' => simp [e2] at hk
          | none =>
            intro g' hg'
            rcases List.mem_cons.mp hg' with rfl | hg'
            · refine ⟨c, e1, fun e => hcond (Or.inl e), ?_⟩
              cases hb : groEq c xc with
              | false => rfl
              | true => exact absurd (Or.inr hb) hcond
            · exact ih e2 g' hg'

/-- a successful `remove_atom` -/
theorem removeAtom_ok {h : Heap α} {r : Nat} {x : Obj} (hok : (removeAtom h r x).2 = none) :
    ∃ gs g xc k, h.res? r = some gs ∧ x = .agro g ∧ h.gro? g = some xc ∧
      removeIdx h g xc gs = some (some k) ∧ (removeAtom h r x).1 = h.set r (.res (gs.eraseIdx k)) := by
  unfold removeAtom at hok ⊢
  cases hr : h.res? r with
  | none => simp [hr] at hok
  | some gs =>
    simp only [hr] at hok ⊢
    cases x with
    | agro g =>
      simp only at hok ⊢
      cases hg : h.gro? g with
      | none => simp [hg] at hok
      | some xc =>
        simp only [hg] at hok ⊢
        cases hk : removeIdx h g xc gs with
        | none => simp [hk] at hok
        | some o =>
          cases o with
          | none => simp [hk] at hok
          | some k => exact ⟨gs, g, xc, k, rfl, rfl, hg, hk, rfl⟩
    | mol m => simp only at hok; split at hok <;> simp at hok
    | res r' => simp only at hok; split at hok <;> simp at hok
    | atom t g => simp only at hok; split at hok <;> simp at hok

/-- a failed `remove_atom` changes nothing -/
theorem removeAtom_err {h : Heap α} {r : Nat} {x : Obj} {e : PyErr} (herr : (removeAtom h r x).2 = some e) :
    (removeAtom h r x).1 = h := by
  unfold removeAtom at herr ⊢
  cases hr : h.res? r with
  | none => rfl
  | some gs =>
    simp only [hr] at herr ⊢
    cases x with
    | agro g =>
      simp only at herr ⊢
      cases hg : h.gro? g with
      | none => rfl
      | some xc =>
        simp only [hg] at herr ⊢
        cases hk : removeIdx h g xc gs with
        | none => rfl
        | some o =>
          cases o with
          | none => rfl
          | some k => simp [hk] at herr
    | mol m => simp only; split <;> rfl
    | res r' => simp only; split <;> rfl
    | atom t g => simp only; split <;> rfl

/-! ### the Molecule that owns the Residue -/

/-- the residue lists after cell `r` was replaced by `l'` -/
def replacePart (r : Nat) (l' : List Nat) (rs : List Nat) (ps : List (List Nat)) : List (List Nat) :=
  (rs.zip ps).map (fun (a, p) => if a = r then l' else p)

theorem res?_set_self {h : Heap α} {r : Nat} {gs l' : List Nat} (hr : h.res? r = some gs) :
    (h.set r (.res l')).res? r = some l' := by
  apply Heap.res?_eq_some.mpr
  rw [Heap.get?_set, if_pos rfl, if_pos (res?_lt hr)]

theorem get?_set_ne {h : Heap α} {r a : Nat} (c : Cell α) (hne : a ≠ r) :
    (h.set r c).get? a = h.get? a := by
  rw [Heap.get?_set, if_neg (fun e => hne e.symm)]

theorem readRess_set {h : Heap α} {r : Nat} {gs l' : List Nat} (hr : h.res? r = some gs)
    {rs : List Nat} {ps : List (List Nat)} (hps : readRess h rs = some ps) :
    readRess (h.set r (.res l')) rs = some (replacePart r l' rs ps) := by
  induction rs generalizing ps with
  | nil =>
    simp only [readRess, Option.some.injEq] at hps
    subst hps
    rfl
  | cons a rs ih =>
    simp only [readRess] at hps
    cases h1 : h.res? a with
    | none => simp [h1] at hps
    | some l =>
      cases h2 : readRess h rs with
      | none => simp [h1, h2] at hps
      | some ls =>
        simp only [h1, h2, Option.some.injEq] at hps
        subst hps
        simp only [readRess, ih h2, replacePart, List.zip_cons_cons, List.map_cons]
        by_cases e : a = r
        · subst e
          simp [res?_set_self hr]
        · have : (h.set r (.res l')).res? a = some l := by
            apply Heap.res?_eq_some.mpr
            rw [get?_set_ne _ e]
            exact Heap.res?_eq_some.mp h1
          simp [this, e]

/-- what the owning Molecule sees after one of its residues' list cell was rewritten: same
    topology, same residue objects, same `_each_atom_resid` (so `len(mol)` is what it was), the
    atoms of that residue replaced -/
theorem molView_set_res {h : Heap α} {m r : Nat} {v : MolView} {gs l' : List Nat}
    (hv : molView h m = some v) (hr : h.res? r = some gs) :
    molView (h.set r (.res l')) m =
      some { v with parts := replacePart r l' v.residues v.parts,
                    gros := (replacePart r l' v.residues v.parts).flatten } := by
  obtain ⟨hg, hrr, hm, ht⟩ := molView_gros hv
  have hrc := Heap.res?_eq_some.mp hr
  have nm : m ≠ r := by
    intro e; subst e
    have := Heap.mol?_eq_some.mp hm
    rw [hrc] at this; cases this
  have nt : v.top ≠ r := by
    intro e
    have := Heap.mtop?_eq_some.mp ht
    rw [e, hrc] at this; cases this
  have hm' : (h.set r (.res l')).mol? m = some (v.top, v.residues, v.each) := by
    apply Heap.mol?_eq_some.mpr
    rw [get?_set_ne _ nm]; exact Heap.mol?_eq_some.mp hm
  have ht' : (h.set r (.res l')).mtop? v.top = some (v.name, v.tops) := by
    apply Heap.mtop?_eq_some.mpr
    rw [get?_set_ne _ nt]; exact Heap.mtop?_eq_some.mp ht
  rw [molView_of_parts hm' ht' (readRess_set hr hrr)]

theorem readRess_length {h : Heap α} {rs : List Nat} {ps : List (List Nat)}
    (hps : readRess h rs = some ps) : ps.length = rs.length := by
  induction rs generalizing ps with
  | nil => simp [readRess] at hps; subst hps; rfl
  | cons a rs ih =>
    simp only [readRess] at hps
    cases h1 : h.res? a with
    | none => simp [h1] at hps
    | some l =>
      cases h2 : readRess h rs with
      | none => simp [h1, h2] at hps
      | some ls =>
        simp only [h1, h2, Option.some.injEq] at hps
        subst hps
        simp [ih h2]

/-- one residue one atom shorter: the molecule holds one AtomGro less -/
theorem replacePart_length {h : Heap α} {r : Nat} {gs l' : List Nat} (hr : h.res? r = some gs)
    {rs : List Nat} {ps : List (List Nat)} (hps : readRess h rs = some ps) (hnd : rs.Nodup)
    (hmem : r ∈ rs) (hl : l'.length + 1 = gs.length) :
    (replacePart r l' rs ps).flatten.length + 1 = ps.flatten.length := by
  induction rs generalizing ps with
  | nil => cases hmem
  | cons a rs ih =>
    simp only [readRess] at hps
    cases h1 : h.res? a with
    | none => simp [h1] at hps
    | some l =>
      cases h2 : readRess h rs with
      | none => simp [h1, h2] at hps
      | some ls =>
        simp only [h1, h2, Option.some.injEq] at hps
        subst hps
        obtain ⟨hna, hnd'⟩ := List.nodup_cons.mp hnd
        simp only [replacePart, List.zip_cons_cons, List.map_cons, List.flatten_cons, List.length_append]
        by_cases e : a = r
        · subst e
          rw [hr] at h1
          injection h1 with h1
          subst h1
          -- `a` does not occur in the tail: nothing else is replaced
          have same : (List.map (fun (x : Nat × List Nat) => if x.1 = a then l' else x.2) (rs.zip ls)) = ls := by
            have hlen := readRess_length h2
            clear ih h2 hnd hnd' hmem
            induction rs generalizing ls with
            | nil => cases ls <;> simp_all
            | cons b rs ih2 =>
              cases ls with
              | nil => simp at hlen
              | cons q ls =>
                simp only [List.zip_cons_cons, List.map_cons]
                have hb : b ≠ a := fun e => hna (by simp [e])
                simp only [hb, if_false]
                rw [ih2 (hna := fun hm => hna (List.mem_cons_of_mem _ hm)) (ls := ls) (hlen := by simpa using hlen)]
          simp only [if_true, same]
          omega
        · simp only [e, if_false]
          have hm' : r ∈ rs := by
            rcases List.mem_cons.mp hmem with h' | h'
            · exact absurd h'.symm e
            · exact h'
          have := ih h2 hnd' hm'
          simp only [replacePart] at this
          omega

/-! ### small helpers of the property theorems -/

theorem lookup_mem {β : Type} (l : List (String × β)) (k : String) (v : β)
    (h : l.lookup k = some v) : (k, v) ∈ l := by
  induction l with
  | nil => simp at h
  | cons p l ih =>
    obtain ⟨a, b⟩ := p
    simp only [List.lookup] at h
    split at h
    · rename_i he
      have : k = a := by simpa using he
      injection h with h
      subst h; subst this
      exact List.mem_cons_self ..
    · exact List.mem_cons_of_mem _ (ih h)

/-- operands of `+` that exist are old cells -/
theorem operand_old {h : Heap α} {o : Obj} {cs : List (AtomGroC α)}
    (hrec : match o with
      | .res r => ∃ gs, h.res? r = some gs ∧ readGros h gs = some cs
      | .agro g => ∃ c, h.gro? g = some c
      | _ => False) :
    o.Valid h ∧ ∀ a, (a ∈ o.cellsX h ∨ a ∈ o.groSide h) → a < h.size := by
  cases o with
  | res r =>
    obtain ⟨gs, hr, hg⟩ := hrec
    refine ⟨⟨gs, hr⟩, ?_⟩
    intro a ha
    have hmem : a = r ∨ a ∈ gs := by
      rcases ha with ha | ha
      · simpa [Obj.cellsX, Obj.resAddrs, Obj.cells, hr] using ha
      · simpa [Obj.groSide, hr] using ha
    rcases hmem with rfl | hm
    · exact res?_lt hr
    · obtain ⟨c, hc⟩ := readGros_mem hg a hm
      exact gro?_lt hc
  | agro g =>
    obtain ⟨c, hc⟩ := hrec
    refine ⟨trivial, ?_⟩
    intro a ha
    have : a = g := by
      rcases ha with ha | ha
      · simpa [Obj.cellsX, Obj.resAddrs, Obj.cells] using ha
      · simpa [Obj.groSide] using ha
    subst this
    exact gro?_lt hc
  | mol m => exact hrec.elim
  | atom t g => exact hrec.elim

theorem newRes_fresh {h h1 : Heap α} {a : Nat} {cs : List (AtomGroC α)} (n : NewRes h h1 a cs) :
    (Obj.res a).Valid h1 ∧
    ∀ x, (x ∈ (Obj.res a).cellsX h1 ∨ x ∈ (Obj.res a).groSide h1) → h.size ≤ x ∧ x < h1.size := by
  obtain ⟨as, hres, hfr, _, _⟩ := n.cell
  refine ⟨⟨as, hres⟩, ?_⟩
  intro x hx
  have hmem : x = a ∨ x ∈ as := by
    rcases hx with hx | hx
    · simpa [Obj.cellsX, Obj.resAddrs, Obj.cells, hres] using hx
    · simpa [Obj.groSide, hres] using hx
  rcases hmem with rfl | hm
  · exact n.fresh
  · exact hfr x hm

end GMHeap
