import GMProofs.Lemmas.FrameL
import GMProofs.Props.C17
import GMModel.ExchangeMap
import Mathlib.LinearAlgebra.Matrix.Notation
import Mathlib.LinearAlgebra.Matrix.NonsingularInverse
import Mathlib.Tactic.FinCases
/-
  GMProofs.Lemmas.EMapL — per-atom laws of the exchange map over ℝ:
  orthonormal frames reconstruct vectors, `restore ∘ project`, norms, cylinder coordinates.
-/
open V3

/-- rows of the frame are orthonormal (as polynomial relations) -/
structure Frame.Orthonormal (F : Frame ℝ) : Prop where
  u1 : F.e1.x * F.e1.x + F.e1.y * F.e1.y + F.e1.z * F.e1.z = 1
  u2 : F.e2.x * F.e2.x + F.e2.y * F.e2.y + F.e2.z * F.e2.z = 1
  u3 : F.e3.x * F.e3.x + F.e3.y * F.e3.y + F.e3.z * F.e3.z = 1
  o12 : F.e1.x * F.e2.x + F.e1.y * F.e2.y + F.e1.z * F.e2.z = 0
  o13 : F.e1.x * F.e3.x + F.e1.y * F.e3.y + F.e1.z * F.e3.z = 0
  o23 : F.e2.x * F.e3.x + F.e2.y * F.e3.y + F.e2.z * F.e3.z = 0

theorem calculeBase_orthonormal (p0 p1 p2 : V3 ℝ) (h : p0 ≠ p2) :
    (calculeBase p0 p1 p2).Orthonormal := by
  obtain ⟨a, b, c, d, e, f⟩ := C17.frame_orthonormal p0 p1 p2 h
  exact ⟨a, b, c, d, e, f⟩

/-- columns of an orthonormal frame are orthonormal too (`M Mᵀ = 1 → Mᵀ M = 1`) -/
theorem Frame.Orthonormal.cols {F : Frame ℝ} (h : F.Orthonormal) :
    (F.e1.x * F.e1.x + F.e2.x * F.e2.x + F.e3.x * F.e3.x = 1 ∧
     F.e1.y * F.e1.y + F.e2.y * F.e2.y + F.e3.y * F.e3.y = 1 ∧
     F.e1.z * F.e1.z + F.e2.z * F.e2.z + F.e3.z * F.e3.z = 1) ∧
    (F.e1.x * F.e1.y + F.e2.x * F.e2.y + F.e3.x * F.e3.y = 0 ∧
     F.e1.x * F.e1.z + F.e2.x * F.e2.z + F.e3.x * F.e3.z = 0 ∧
     F.e1.y * F.e1.z + F.e2.y * F.e2.z + F.e3.y * F.e3.z = 0) := by
  obtain ⟨u1, u2, u3, o12, o13, o23⟩ := h
  let M : Matrix (Fin 3) (Fin 3) ℝ :=
    !![F.e1.x, F.e1.y, F.e1.z; F.e2.x, F.e2.y, F.e2.z; F.e3.x, F.e3.y, F.e3.z]
  have hM : M * M.transpose = 1 := by
    ext i j
    fin_cases i <;> fin_cases j <;>
      simp [M, Matrix.mul_apply, Fin.sum_univ_three, Matrix.one_apply] <;> linarith
  have hT : M.transpose * M = 1 := mul_eq_one_comm.mp hM
  have e (i j : Fin 3) := congrFun (congrFun hT i) j
  have e00 := e 0 0; have e11 := e 1 1; have e22 := e 2 2
  have e01 := e 0 1; have e02 := e 0 2; have e12 := e 1 2
  simp [M, Matrix.mul_apply, Fin.sum_univ_three, Matrix.one_apply] at e00 e11 e22 e01 e02 e12
  exact ⟨⟨by linarith, by linarith, by linarith⟩, ⟨by linarith, by linarith, by linarith⟩⟩

/-- the anchor-and-scale law for one atom: restoring, in the same orthonormal frame, the scaled
    projection of `p` gives `o + s (p − o)` -/
theorem restore_project {F : Frame ℝ} (h : F.Orthonormal) (s : ℝ) (p : V3 ℝ) :
    restore F (project F s p) = F.origin + V3.smul s (p - F.origin) := by
  obtain ⟨⟨cx, cy, cz⟩, ⟨cxy, cxz, cyz⟩⟩ := h.cols
  apply V3.ext' <;> simp only [restore, project, Frame.mat, gm]
  · linear_combination (s * (p.x - F.origin.x)) * cx + (s * (p.y - F.origin.y)) * cxy
      + (s * (p.z - F.origin.z)) * cxz
  · linear_combination (s * (p.x - F.origin.x)) * cxy + (s * (p.y - F.origin.y)) * cy
      + (s * (p.z - F.origin.z)) * cyz
  · linear_combination (s * (p.x - F.origin.x)) * cxz + (s * (p.y - F.origin.y)) * cyz
      + (s * (p.z - F.origin.z)) * cz

/-- squared length of a projection: `‖s M (p − o)‖² = s² ‖p − o‖²` -/
theorem project_norm2 {F : Frame ℝ} (h : F.Orthonormal) (s : ℝ) (p : V3 ℝ) :
    V3.norm2 (project F s p) = s * s * V3.norm2 (p - F.origin) := by
  obtain ⟨⟨cx, cy, cz⟩, ⟨cxy, cxz, cyz⟩⟩ := h.cols
  simp only [project, Frame.mat, gm]
  linear_combination (s * s * (p.x - F.origin.x) ^ 2) * cx + (s * s * (p.y - F.origin.y) ^ 2) * cy
    + (s * s * (p.z - F.origin.z) ^ 2) * cz
    + (2 * s * s * (p.x - F.origin.x) * (p.y - F.origin.y)) * cxy
    + (2 * s * s * (p.x - F.origin.x) * (p.z - F.origin.z)) * cxz
    + (2 * s * s * (p.y - F.origin.y) * (p.z - F.origin.z)) * cyz

/-- two restored points are as far apart as their coordinate vectors (any orthonormal frame) -/
theorem restore_dist2 {F : Frame ℝ} (h : F.Orthonormal) (q1 q2 : V3 ℝ) :
    V3.norm2 (restore F q1 - restore F q2) = V3.norm2 (q1 - q2) := by
  obtain ⟨u1, u2, u3, o12, o13, o23⟩ := h
  simp only [restore, Frame.mat, gm]
  linear_combination ((q1.x - q2.x) ^ 2) * u1 + ((q1.y - q2.y) ^ 2) * u2 + ((q1.z - q2.z) ^ 2) * u3
    + (2 * (q1.x - q2.x) * (q1.y - q2.y)) * o12 + (2 * (q1.x - q2.x) * (q1.z - q2.z)) * o13
    + (2 * (q1.y - q2.y) * (q1.z - q2.z)) * o23

/-- cylinder coordinates of a restored point about the frame's first vector depend only on the
    coordinate vector: distance² to the origin = ‖q‖², coordinate along `e1` = `q.x` -/
theorem restore_cyl {F : Frame ℝ} (h : F.Orthonormal) (q : V3 ℝ) :
    V3.norm2 (restore F q - F.origin) = V3.norm2 q ∧
    V3.dot (restore F q - F.origin) F.e1 = q.x := by
  obtain ⟨u1, u2, u3, o12, o13, o23⟩ := h
  constructor
  · simp only [restore, Frame.mat, gm]
    linear_combination (q.x ^ 2) * u1 + (q.y ^ 2) * u2 + (q.z ^ 2) * u3
      + (2 * q.x * q.y) * o12 + (2 * q.x * q.z) * o13 + (2 * q.y * q.z) * o23
  · simp only [restore, Frame.mat, gm]
    linear_combination q.x * u1 + q.y * o12 + q.z * o13
