import GMProofs.Lemmas.EMapL
/-
  GMProofs.Lemmas.RigidL — proper rotations acting on vectors and frames (C02, C06, C08, C18).
-/
open V3

/-- `R` is a proper rotation: rows orthonormal and determinant one -/
structure M3.IsRot (R : M3 ℝ) : Prop where
  u0 : R.r0.x * R.r0.x + R.r0.y * R.r0.y + R.r0.z * R.r0.z = 1
  u1 : R.r1.x * R.r1.x + R.r1.y * R.r1.y + R.r1.z * R.r1.z = 1
  u2 : R.r2.x * R.r2.x + R.r2.y * R.r2.y + R.r2.z * R.r2.z = 1
  o01 : R.r0.x * R.r1.x + R.r0.y * R.r1.y + R.r0.z * R.r1.z = 0
  o02 : R.r0.x * R.r2.x + R.r0.y * R.r2.y + R.r0.z * R.r2.z = 0
  o12 : R.r1.x * R.r2.x + R.r1.y * R.r2.y + R.r1.z * R.r2.z = 0
  det : M3.det R = 1

/-- rows orthonormal only (an orthogonal matrix, possibly improper) -/
def M3.IsOrth (R : M3 ℝ) : Prop := (⟨R.r0, R.r1, R.r2, V3.zero⟩ : Frame ℝ).Orthonormal

theorem M3.IsRot.orth {R : M3 ℝ} (h : R.IsRot) : R.IsOrth :=
  ⟨h.u0, h.u1, h.u2, h.o01, h.o02, h.o12⟩

/-- `R Rᵀ = 1` in the model's own terms is `IsOrth` -/
theorem M3.isOrth_of_mul_transpose {R : M3 ℝ} (h : M3.mul R (M3.transpose R) = M3.eye) : R.IsOrth := by
  simp only [gm, M3.mk.injEq, V3.mk.injEq] at h
  obtain ⟨⟨a, b, c⟩, ⟨-, d, e⟩, ⟨-, -, f⟩⟩ := h
  exact ⟨a, d, f, b, c, e⟩

/-- every `rotation_matrix(axis, θ)` with a non-zero axis is a proper rotation -/
theorem rotationMatrix_isRot (a : V3 ℝ) (θ : ℝ) (ha : a ≠ V3.zero) : (rotationMatrix a θ).IsRot := by
  have ho := M3.isOrth_of_mul_transpose (C17.rot_orthogonal a θ ha).1
  exact ⟨ho.u1, ho.u2, ho.u3, ho.o12, ho.o13, ho.o23, C17.rot_det_one a θ ha⟩

theorem M3.IsOrth.cols {R : M3 ℝ} (h : R.IsOrth) :
    (R.r0.x * R.r0.x + R.r1.x * R.r1.x + R.r2.x * R.r2.x = 1 ∧
     R.r0.y * R.r0.y + R.r1.y * R.r1.y + R.r2.y * R.r2.y = 1 ∧
     R.r0.z * R.r0.z + R.r1.z * R.r1.z + R.r2.z * R.r2.z = 1) ∧
    (R.r0.x * R.r0.y + R.r1.x * R.r1.y + R.r2.x * R.r2.y = 0 ∧
     R.r0.x * R.r0.z + R.r1.x * R.r1.z + R.r2.x * R.r2.z = 0 ∧
     R.r0.y * R.r0.z + R.r1.y * R.r1.z + R.r2.y * R.r2.z = 0) :=
  Frame.Orthonormal.cols (F := ⟨R.r0, R.r1, R.r2, V3.zero⟩) h

/-- an orthogonal matrix preserves dot products -/
theorem M3.IsOrth.dot {R : M3 ℝ} (h : R.IsOrth) (a b : V3 ℝ) :
    V3.dot (M3.mulVec R a) (M3.mulVec R b) = V3.dot a b := by
  obtain ⟨⟨cx, cy, cz⟩, ⟨cxy, cxz, cyz⟩⟩ := h.cols
  simp only [gm]
  linear_combination (a.x * b.x) * cx + (a.y * b.y) * cy + (a.z * b.z) * cz
    + (a.x * b.y + a.y * b.x) * cxy + (a.x * b.z + a.z * b.x) * cxz + (a.y * b.z + a.z * b.y) * cyz

theorem M3.IsOrth.norm2 {R : M3 ℝ} (h : R.IsOrth) (a : V3 ℝ) :
    V3.norm2 (M3.mulVec R a) = V3.norm2 a := by
  have := h.dot a a
  simpa only [V3.norm2, V3.dot] using this

theorem M3.IsOrth.norm {R : M3 ℝ} (h : R.IsOrth) (a : V3 ℝ) :
    V3.norm (M3.mulVec R a) = V3.norm a := by
  have := h.norm2 a
  simp only [V3.norm, V3.norm2, RS.sqrt_def] at this ⊢
  rw [this]

/-- rows of a proper rotation form a right-handed triple: `r1 × r2 = r0` (cyclically) -/
theorem M3.IsRot.cof {R : M3 ℝ} (h : R.IsRot) :
    V3.cross R.r1 R.r2 = R.r0 ∧ V3.cross R.r2 R.r0 = R.r1 ∧ V3.cross R.r0 R.r1 = R.r2 := by
  obtain ⟨⟨cx, cy, cz⟩, ⟨cxy, cxz, cyz⟩⟩ := h.orth.cols
  have hd := h.det
  simp only [gm] at hd
  refine ⟨?_, ?_, ?_⟩ <;> apply V3.ext' <;> simp only [gm]
  · linear_combination R.r0.x * hd - (R.r1.y * R.r2.z - R.r1.z * R.r2.y) * cx
      - (R.r1.z * R.r2.x - R.r1.x * R.r2.z) * cxy - (R.r1.x * R.r2.y - R.r1.y * R.r2.x) * cxz
  · linear_combination R.r0.y * hd - (R.r1.y * R.r2.z - R.r1.z * R.r2.y) * cxy
      - (R.r1.z * R.r2.x - R.r1.x * R.r2.z) * cy - (R.r1.x * R.r2.y - R.r1.y * R.r2.x) * cyz
  · linear_combination R.r0.z * hd - (R.r1.y * R.r2.z - R.r1.z * R.r2.y) * cxz
      - (R.r1.z * R.r2.x - R.r1.x * R.r2.z) * cyz - (R.r1.x * R.r2.y - R.r1.y * R.r2.x) * cz
  · linear_combination R.r1.x * hd - (R.r2.y * R.r0.z - R.r2.z * R.r0.y) * cx
      - (R.r2.z * R.r0.x - R.r2.x * R.r0.z) * cxy - (R.r2.x * R.r0.y - R.r2.y * R.r0.x) * cxz
  · linear_combination R.r1.y * hd - (R.r2.y * R.r0.z - R.r2.z * R.r0.y) * cxy
      - (R.r2.z * R.r0.x - R.r2.x * R.r0.z) * cy - (R.r2.x * R.r0.y - R.r2.y * R.r0.x) * cyz
  · linear_combination R.r1.z * hd - (R.r2.y * R.r0.z - R.r2.z * R.r0.y) * cxz
      - (R.r2.z * R.r0.x - R.r2.x * R.r0.z) * cyz - (R.r2.x * R.r0.y - R.r2.y * R.r0.x) * cz
  · linear_combination R.r2.x * hd - (R.r0.y * R.r1.z - R.r0.z * R.r1.y) * cx
      - (R.r0.z * R.r1.x - R.r0.x * R.r1.z) * cxy - (R.r0.x * R.r1.y - R.r0.y * R.r1.x) * cxz
  · linear_combination R.r2.y * hd - (R.r0.y * R.r1.z - R.r0.z * R.r1.y) * cxy
      - (R.r0.z * R.r1.x - R.r0.x * R.r1.z) * cy - (R.r0.x * R.r1.y - R.r0.y * R.r1.x) * cyz
  · linear_combination R.r2.z * hd - (R.r0.y * R.r1.z - R.r0.z * R.r1.y) * cxz
      - (R.r0.z * R.r1.x - R.r0.x * R.r1.z) * cyz - (R.r0.x * R.r1.y - R.r0.y * R.r1.x) * cz

/-- a proper rotation commutes with the cross product -/
theorem M3.IsRot.cross {R : M3 ℝ} (h : R.IsRot) (a b : V3 ℝ) :
    V3.cross (M3.mulVec R a) (M3.mulVec R b) = M3.mulVec R (V3.cross a b) := by
  obtain ⟨c0, c1, c2⟩ := h.cof
  have c0x := congrArg V3.x c0; have c0y := congrArg V3.y c0; have c0z := congrArg V3.z c0
  have c1x := congrArg V3.x c1; have c1y := congrArg V3.y c1; have c1z := congrArg V3.z c1
  have c2x := congrArg V3.x c2; have c2y := congrArg V3.y c2; have c2z := congrArg V3.z c2
  simp only [gm] at c0x c0y c0z c1x c1y c1z c2x c2y c2z
  apply V3.ext' <;> simp only [gm]
  · linear_combination (a.y * b.z - a.z * b.y) * c0x + (a.z * b.x - a.x * b.z) * c0y
      + (a.x * b.y - a.y * b.x) * c0z
  · linear_combination (a.y * b.z - a.z * b.y) * c1x + (a.z * b.x - a.x * b.z) * c1y
      + (a.x * b.y - a.y * b.x) * c1z
  · linear_combination (a.y * b.z - a.z * b.y) * c2x + (a.z * b.x - a.x * b.z) * c2y
      + (a.x * b.y - a.y * b.x) * c2z

/-- the rigid motion `p ↦ R p + t` -/
noncomputable def rigid (R : M3 ℝ) (t p : V3 ℝ) : V3 ℝ := M3.mulVec R p + t

/-- a frame carried along by a rigid motion -/
noncomputable def Frame.rot (R : M3 ℝ) (t : V3 ℝ) (F : Frame ℝ) : Frame ℝ :=
  ⟨M3.mulVec R F.e1, M3.mulVec R F.e2, M3.mulVec R F.e3, rigid R t F.origin⟩

theorem rigid_sub (R : M3 ℝ) (t p q : V3 ℝ) : rigid R t p - rigid R t q = M3.mulVec R (p - q) := by
  apply V3.ext' <;> simp only [rigid, gm] <;> ring

theorem mulVec_divs (R : M3 ℝ) (v : V3 ℝ) (k : ℝ) :
    M3.mulVec R (V3.divs v k) = V3.divs (M3.mulVec R v) k := by
  apply V3.ext' <;> simp only [gm] <;> ring

theorem rigid_injective {R : M3 ℝ} (h : R.IsOrth) (t : V3 ℝ) {p q : V3 ℝ} (hpq : p ≠ q) :
    rigid R t p ≠ rigid R t q := by
  intro e
  have h0 : V3.norm (rigid R t q - rigid R t p) = 0 := by
    rw [e]; exact (V3.norm_eq_zero_iff _).mpr (by apply V3.ext' <;> simp [gm])
  rw [rigid_sub, h.norm] at h0
  exact V3.sub_ne_zero_of_ne hpq ((V3.norm_eq_zero_iff _).mp h0)

/-- the first frame vector and the origin are equivariant in every branch -/
theorem calculeBase_e1_rigid {R : M3 ℝ} (h : R.IsOrth) (t p0 p1 p2 : V3 ℝ) :
    (calculeBase (rigid R t p0) (rigid R t p1) (rigid R t p2)).e1
      = M3.mulVec R (calculeBase p0 p1 p2).e1 ∧
    (calculeBase (rigid R t p0) (rigid R t p1) (rigid R t p2)).origin
      = rigid R t (calculeBase p0 p1 p2).origin := by
  refine ⟨?_, rfl⟩
  show V3.divs (rigid R t p2 - rigid R t p0) (V3.norm (rigid R t p2 - rigid R t p0)) = _
  rw [rigid_sub, h.norm, ← mulVec_divs]
  rfl

/-- the branch test of `calcule_base` is invariant under a proper rotation -/
theorem collinearTest_rot {R : M3 ℝ} (h : R.IsRot) (e1 u : V3 ℝ) :
    collinearTest (M3.mulVec R e1) (M3.mulVec R u) ↔ collinearTest e1 u := by
  unfold collinearTest
  rw [h.cross, h.orth.norm, h.orth.norm]

/-- generic (non-collinear) branch: the third vector is equivariant -/
theorem frameThird_rot_generic {R : M3 ℝ} (h : R.IsRot) {e1 u : V3 ℝ} (hg : ¬ collinearTest e1 u) :
    frameThird (M3.mulVec R e1) (M3.mulVec R u) = M3.mulVec R (frameThird e1 u) := by
  rw [frameThird_generic hg, frameThird_generic (by rwa [collinearTest_rot h]),
    h.cross, h.orth.norm, mulVec_divs]

/-- non-collinear triple: the whole frame is carried along by the rigid motion -/
theorem calculeBase_rigid_generic {R : M3 ℝ} (h : R.IsRot) (t p0 p1 p2 : V3 ℝ)
    (hg : ¬ collinearTest (calculeBase p0 p1 p2).e1 (p1 - p0)) :
    calculeBase (rigid R t p0) (rigid R t p1) (rigid R t p2) = Frame.rot R t (calculeBase p0 p1 p2) := by
  have he1 := (calculeBase_e1_rigid h.orth t p0 p1 p2).1
  have h3 : (calculeBase (rigid R t p0) (rigid R t p1) (rigid R t p2)).e3
      = M3.mulVec R (calculeBase p0 p1 p2).e3 := by
    show frameThird (calculeBase (rigid R t p0) (rigid R t p1) (rigid R t p2)).e1
        (rigid R t p1 - rigid R t p0) = _
    rw [he1, rigid_sub, frameThird_rot_generic h hg]
    rfl
  have h2 : (calculeBase (rigid R t p0) (rigid R t p1) (rigid R t p2)).e2
      = M3.mulVec R (calculeBase p0 p1 p2).e2 := by
    show V3.cross (calculeBase (rigid R t p0) (rigid R t p1) (rigid R t p2)).e3
        (calculeBase (rigid R t p0) (rigid R t p1) (rigid R t p2)).e1 = _
    rw [h3, he1, h.cross]
    rfl
  have : ∀ (F G : Frame ℝ), F.e1 = G.e1 → F.e2 = G.e2 → F.e3 = G.e3 → F.origin = G.origin → F = G := by
    intro F G a b c d; cases F; cases G; simp_all
  exact this _ _ he1 h2 h3 rfl

/-- restoring in the carried frame = carrying the restored point -/
theorem restore_rot (R : M3 ℝ) (t : V3 ℝ) (F : Frame ℝ) (q : V3 ℝ) :
    restore (Frame.rot R t F) q = rigid R t (restore F q) := by
  apply V3.ext' <;> simp only [restore, Frame.rot, Frame.mat, rigid, gm] <;> ring

theorem Frame.rot_orthonormal {R : M3 ℝ} (h : R.IsOrth) (t : V3 ℝ) {F : Frame ℝ} (hF : F.Orthonormal) :
    (Frame.rot R t F).Orthonormal := by
  obtain ⟨u1, u2, u3, o12, o13, o23⟩ := hF
  have d (a b : V3 ℝ) := h.dot a b
  simp only [V3.dot, RS.mul_def, RS.add_def] at d
  exact ⟨(d _ _).trans u1, (d _ _).trans u2, (d _ _).trans u3, (d _ _).trans o12, (d _ _).trans o13,
    (d _ _).trans o23⟩
