import GMProofs.Lemmas.HeapSpec
/-
  GMProofs.Lemmas.HeapCopy — what `copy` / `deep_copy` / a System hand-out share with their source
  (`Copied`, `DeepCopied`) and the two-way isolation that follows from the separation invariant.
-/

namespace GMHeap

variable {α : Type}

/-- the gro side of an object: the object itself, its residue lists and its AtomGro cells —
    every coordinate, velocity, atom number, gro residue number and gro label lives here -/
def Obj.groSide (h : Heap α) : Obj → List Nat
  | .mol m =>
    match molView h m with
    | some v => m :: (v.residues ++ v.gros)
    | none => [m]
  | .res r =>
    match h.res? r with
    | some l => r :: l
    | none => [r]
  | .agro g => [g]
  | .atom _ g => [g]

/-- the topology side: MoleculeTop and AtomTop cells (names, residue labels, topology residue numbers) -/
def Obj.topSide (h : Heap α) : Obj → List Nat
  | .mol m =>
    match molView h m with
    | some v => v.top :: v.tops
    | none => []
  | .atom t _ => [t]
  | _ => []

/-- the AtomTop cells an operation on the object may assign to -/
def Obj.topCells (h : Heap α) : Obj → List Nat
  | .mol m =>
    match molView h m with
    | some v => v.tops
    | none => []
  | .atom t _ => [t]
  | _ => []

/-- `c` (in `h1`) is a copy of `x` (in `h`) that shares at most `x`'s topology atoms -/
structure Copied (h h1 : Heap α) (x c : Obj) : Prop where
  frame : Frame Rel.any NoW h h1
  cvalid : c.Valid h1
  ccells : ∀ a ∈ c.cells h1, a ∈ x.topCells h ∨ h.size ≤ a
  cgro_fresh : ∀ a ∈ c.groSide h1, h.size ≤ a ∧ a < h1.size
  xvalid : x.Valid h
  xcells_old : ∀ a ∈ x.cells h, a < h.size
  xgro_old : ∀ a ∈ x.groSide h, a < h.size
  disjoint : ∀ a ∈ x.topCells h, a ∉ x.groSide h

/-- `c` shares nothing at all with `x` -/
structure DeepCopied (h h1 : Heap α) (x c : Obj) : Prop where
  frame : Frame Rel.any NoW h h1
  cvalid : c.Valid h1
  ccells : ∀ a ∈ c.cells h1, h.size ≤ a
  cfresh : ∀ a ∈ c.groSide h1 ++ c.topSide h1, h.size ≤ a ∧ a < h1.size
  xvalid : x.Valid h
  xcells_old : ∀ a ∈ x.cells h, a < h.size
  xold : ∀ a ∈ x.groSide h ++ x.topSide h, a < h.size

section sep
variable [Scalar α]

/-- operations on the copy (and on everything derived from it) never change the original's gro
    side; operations on the original never change the copy's -/
theorem Copied.separated {h h1 : Heap α} {x c : Obj} (k : Copied h h1 x c) (ops : List (Op α)) :
    (∀ a ∈ x.groSide h, (run h1 [c] ops).1.get? a = h.get? a) ∧
    (∀ a ∈ c.groSide h1, (run h1 [x] ops).1.get? a = h1.get? a) := by
  constructor
  · have := run_preserves (· ∈ x.groSide h) ops h1 [c]
      (fun a ha => Nat.lt_of_lt_of_le (k.xgro_old a ha) k.frame.size_le)
      (by
        intro o ho
        simp only [List.mem_singleton] at ho
        subst ho
        refine ⟨k.cvalid, ?_⟩
        intro a ha hs
        rcases k.ccells a ha with h1' | h1'
        · exact k.disjoint a h1' hs
        · have := k.xgro_old a hs; omega)
    intro a ha
    rw [this.1 a ha, k.frame.same a (k.xgro_old a ha) (fun w => w)]
  · have := run_preserves (· ∈ c.groSide h1) ops h1 [x]
      (fun a ha => (k.cgro_fresh a ha).2)
      (by
        intro o ho
        simp only [List.mem_singleton] at ho
        subst ho
        obtain ⟨v, e⟩ := Obj.cells_frame k.frame k.xvalid
        refine ⟨v, ?_⟩
        intro a ha hs
        rw [e] at ha
        have := k.xcells_old a ha
        have := (k.cgro_fresh a hs).1
        omega)
    exact fun a ha => this.1 a ha

/-- a deep copy isolates the topology side as well -/
theorem DeepCopied.separated {h h1 : Heap α} {x c : Obj} (k : DeepCopied h h1 x c) (ops : List (Op α)) :
    (∀ a ∈ x.groSide h ++ x.topSide h, (run h1 [c] ops).1.get? a = h.get? a) ∧
    (∀ a ∈ c.groSide h1 ++ c.topSide h1, (run h1 [x] ops).1.get? a = h1.get? a) := by
  constructor
  · have := run_preserves (· ∈ x.groSide h ++ x.topSide h) ops h1 [c]
      (fun a ha => Nat.lt_of_lt_of_le (k.xold a ha) k.frame.size_le)
      (by
        intro o ho
        simp only [List.mem_singleton] at ho
        subst ho
        refine ⟨k.cvalid, ?_⟩
        intro a ha hs
        have := k.ccells a ha
        have := k.xold a hs
        omega)
    intro a ha
    rw [this.1 a ha, k.frame.same a (k.xold a ha) (fun w => w)]
  · have := run_preserves (· ∈ c.groSide h1 ++ c.topSide h1) ops h1 [x]
      (fun a ha => (k.cfresh a ha).2)
      (by
        intro o ho
        simp only [List.mem_singleton] at ho
        subst ho
        obtain ⟨v, e⟩ := Obj.cells_frame k.frame k.xvalid
        refine ⟨v, ?_⟩
        intro a ha hs
        rw [e] at ha
        have := k.xcells_old a ha
        have := (k.cfresh a hs).1
        omega)
    exact fun a ha => this.1 a ha

end sep

/-! ### kinds are exclusive -/

theorem top_not_gro {h : Heap α} {a : Nat} {t : AtomTopC} {g : AtomGroC α}
    (ht : h.top? a = some t) (hg : h.gro? a = some g) : False := by
  have := Heap.top?_eq_some.mp ht
  rw [Heap.gro?_eq_some.mp hg] at this
  cases this

theorem top_not_res {h : Heap α} {a : Nat} {t : AtomTopC} {l : List Nat}
    (ht : h.top? a = some t) (hg : h.res? a = some l) : False := by
  have := Heap.top?_eq_some.mp ht
  rw [Heap.res?_eq_some.mp hg] at this
  cases this

theorem top_not_mol {h : Heap α} {a : Nat} {t : AtomTopC} {p : Nat × List Nat × List Nat}
    (ht : h.top? a = some t) (hg : h.mol? a = some p) : False := by
  obtain ⟨x, y, z⟩ := p
  have := Heap.top?_eq_some.mp ht
  rw [Heap.mol?_eq_some.mp hg] at this
  cases this

theorem gro?_lt {h : Heap α} {a : Nat} {g : AtomGroC α} (hg : h.gro? a = some g) : a < h.size :=
  Heap.lt_size_of_get? (Heap.gro?_eq_some.mp hg)

theorem top?_lt {h : Heap α} {a : Nat} {g : AtomTopC} (hg : h.top? a = some g) : a < h.size :=
  Heap.lt_size_of_get? (Heap.top?_eq_some.mp hg)

theorem res?_lt {h : Heap α} {a : Nat} {g : List Nat} (hg : h.res? a = some g) : a < h.size :=
  Heap.lt_size_of_get? (Heap.res?_eq_some.mp hg)

/-- facts about a molecule that passed `_molecule_top_and_residues_match` -/
structure MolOld (h : Heap α) (m : Nat) (v : MolView) : Prop where
  view : molView h m = some v
  tops : ∀ a ∈ v.tops, ∃ c, h.top? a = some c
  gros : ∀ a ∈ v.gros, ∃ c, h.gro? a = some c
  ress : ∀ a ∈ v.residues, ∃ l, h.res? a = some l
  self : ∃ p, h.mol? m = some p
  mtop : ∃ p, h.mtop? v.top = some p

theorem MolOld.cells_old {h : Heap α} {m : Nat} {v : MolView} (o : MolOld h m v) :
    (∀ a ∈ (Obj.mol m).cells h, a < h.size) ∧ (∀ a ∈ (Obj.mol m).groSide h, a < h.size) ∧
    (∀ a ∈ (Obj.mol m).topSide h, a < h.size) ∧
    (∀ a ∈ (Obj.mol m).topCells h, a ∉ (Obj.mol m).groSide h) := by
  refine ⟨?_, ?_, ?_, ?_⟩
  · intro a ha
    simp only [Obj.cells, o.view, List.mem_append] at ha
    rcases ha with ha | ha
    · obtain ⟨c, hc⟩ := o.gros a ha; exact gro?_lt hc
    · obtain ⟨c, hc⟩ := o.tops a ha; exact top?_lt hc
  · intro a ha
    simp only [Obj.groSide, o.view, List.mem_cons, List.mem_append] at ha
    rcases ha with rfl | ha | ha
    · obtain ⟨p, hp⟩ := o.self
      obtain ⟨x, y, z⟩ := p
      exact Heap.lt_size_of_get? (Heap.mol?_eq_some.mp hp)
    · obtain ⟨c, hc⟩ := o.ress a ha; exact res?_lt hc
    · obtain ⟨c, hc⟩ := o.gros a ha; exact gro?_lt hc
  · intro a ha
    simp only [Obj.topSide, o.view, List.mem_cons] at ha
    rcases ha with rfl | ha
    · obtain ⟨p, hp⟩ := o.mtop
      obtain ⟨x, y⟩ := p
      exact Heap.lt_size_of_get? (Heap.mtop?_eq_some.mp hp)
    · obtain ⟨c, hc⟩ := o.tops a ha; exact top?_lt hc
  · intro a ha hg
    simp only [Obj.topCells, o.view] at ha
    obtain ⟨tc, htc⟩ := o.tops a ha
    simp only [Obj.groSide, o.view, List.mem_cons, List.mem_append] at hg
    rcases hg with rfl | hg | hg
    · obtain ⟨p, hp⟩ := o.self; exact top_not_mol htc hp
    · obtain ⟨c, hc⟩ := o.ress a hg; exact top_not_res htc hc
    · obtain ⟨c, hc⟩ := o.gros a hg; exact top_not_gro htc hc

/-- `Molecule(top of m, residues rs)` succeeded, where `rs` are `m`'s own residues -/
theorem molOld_of_init {h h1 : Heap α} {m t a : Nat} {rs e : List Nat}
    (hm : h.mol? m = some (t, rs, e)) (n : NewMol h h1 t rs a) :
    ∃ v, MolOld h m v ∧ v.top = t ∧ v.residues = rs := by
  obtain ⟨name, tops, ps, css, e1, e2, _, e3, _⟩ := n.old
  obtain ⟨_, ⟨ts, hts⟩, ⟨gs, hgs⟩⟩ := matchAll_none e3
  refine ⟨⟨t, name, tops, rs, e, ps, ps.flatten⟩, ⟨molView_of_parts hm e1 e2, ?_, ?_, ?_, ⟨_, hm⟩, ⟨_, e1⟩⟩,
    rfl, rfl⟩
  · exact readTops_mem hts
  · exact readGros_mem hgs
  · exact readRess_mem e2

section copies
variable [Scalar α]

/-- `mol.copy()` (also what `Alignment.start/end` store) -/
theorem copied_mol {h h1 : Heap α} {m c : Nat}
    (hc : stepOn h (.mol m) (.copy 0) = ⟨h1, some (.mol c), none⟩) :
    Copied h h1 (.mol m) (.mol c) := by
  simp only [stepOn] at hc
  cases e1 : h.mol? m with
  | none => simp [e1] at hc
  | some p =>
    obtain ⟨t, rs, e⟩ := p
    simp only [e1] at hc
    cases e2 : molInit h t rs with
    | error er => simp [e2, allocOk] at hc
    | ok q =>
      obtain ⟨hh, a⟩ := q
      simp only [e2, allocOk, StepR.mk.injEq, Option.some.injEq, Obj.mol.injEq, and_true] at hc
      obtain ⟨rfl, rfl⟩ := hc
      have n := molInit_spec e2
      obtain ⟨v, o, hvt, hvr⟩ := molOld_of_init e1 n
      obtain ⟨c1, c2, _, c4⟩ := o.cells_old
      obtain ⟨name, tops, ps, css, f1, f2, _, _, rs', ps', hv, hfrs, hfr, _, _, _, _⟩ := n.old
      have hvv := o.view
      rw [molView_of_parts e1 f1 f2] at hvv
      injection hvv with hvv
      refine ⟨n.frame _, ⟨_, hv⟩, ?_, ?_, ⟨v, o.view⟩, c1, c2, c4⟩
      · intro x hx
        simp only [Obj.cells, hv, List.mem_append] at hx
        rcases hx with hx | hx
        · exact Or.inr (hfr x hx).1
        · left
          simp only [Obj.topCells, o.view, ← hvv]
          exact hx
      · intro x hx
        simp only [Obj.groSide, hv, List.mem_cons, List.mem_append] at hx
        rcases hx with rfl | hx | hx
        · exact n.fresh
        · exact hfrs x hx
        · exact hfr x hx

/-- `system[k]` : `base.copy(residues freshly read from the file)` -/
theorem copied_handout {h h1 : Heap α} {m c : Nat} {data : List (List (AtomGroC α))}
    (hval : ∃ v, MolOld h m v)
    (hc : stepOn h (.mol m) (.molWith 0 data) = ⟨h1, some (.mol c), none⟩) :
    Copied h h1 (.mol m) (.mol c) := by
  obtain ⟨v, o⟩ := hval
  obtain ⟨_, _, e1, e0⟩ := molView_gros o.view
  simp only [stepOn, e1] at hc
  cases e2 : allocResidues h data with
  | error er => simp [e2] at hc
  | ok q =>
    obtain ⟨hh, rs⟩ := q
    simp only [e2] at hc
    cases e3 : molInit hh v.top rs with
    | error er => simp [e3, allocOk] at hc
    | ok q2 =>
      obtain ⟨hh2, a⟩ := q2
      simp only [e3, allocOk, StepR.mk.injEq, Option.some.injEq, Obj.mol.injEq, and_true] at hc
      obtain ⟨rfl, rfl⟩ := hc
      have nr := allocResidues_spec e2
      have n := molInit_spec e3
      obtain ⟨c1, c2, _, c4⟩ := o.cells_old
      obtain ⟨name, tops, ps, css, f1, f2, _, _, rs', ps', hv, hfrs, hfr, _, _, _, _⟩ := n.old
      have hle := (nr.frame Rel.any).size_le
      rw [(nr.frame Rel.any).mtop? e0] at f1
      injection f1 with f1
      injection f1 with f1a f1b
      refine ⟨(nr.frame _).trans' (n.frame _), ⟨_, hv⟩, ?_, ?_, ⟨v, o.view⟩, c1, c2, c4⟩
      · intro x hx
        simp only [Obj.cells, hv, List.mem_append] at hx
        rcases hx with hx | hx
        · exact Or.inr (Nat.le_trans hle (hfr x hx).1)
        · left
          simp only [Obj.topCells, o.view, f1b]
          exact hx
      · intro x hx
        simp only [Obj.groSide, hv, List.mem_cons, List.mem_append] at hx
        rcases hx with rfl | hx | hx
        · exact ⟨Nat.le_trans hle n.fresh.1, n.fresh.2⟩
        · exact ⟨Nat.le_trans hle (hfrs x hx).1, (hfrs x hx).2⟩
        · exact ⟨Nat.le_trans hle (hfr x hx).1, (hfr x hx).2⟩

/-- `mol.deep_copy()` -/
theorem deepCopied_mol {h h1 : Heap α} {m c : Nat} (hval : ∃ v, MolOld h m v)
    (hc : stepOn h (.mol m) (.deepCopy 0) = ⟨h1, some (.mol c), none⟩) :
    DeepCopied h h1 (.mol m) (.mol c) := by
  obtain ⟨v, o⟩ := hval
  obtain ⟨_, _, e1, _⟩ := molView_gros o.view
  simp only [stepOn, e1] at hc
  cases e0 : copyTop h v.top with
  | error er => simp [e0] at hc
  | ok q0 =>
    obtain ⟨h0, t'⟩ := q0
    simp only [e0] at hc
    cases e2 : molInit h0 t' v.residues with
    | error er => simp [e2, allocOk] at hc
    | ok q =>
      obtain ⟨hh, a⟩ := q
      simp only [e2, allocOk, StepR.mk.injEq, Option.some.injEq, Obj.mol.injEq, and_true] at hc
      obtain ⟨rfl, rfl⟩ := hc
      obtain ⟨ft, htfresh, name, tops, ts, tops', g1, g2, g3, g4, g5⟩ := copyTop_spec e0
      have n := molInit_spec e2
      obtain ⟨name2, tops2, ps, css, f1, f2, _, f3, rs', ps', hv, hfrs, hfr, _, _, _, _⟩ := n.old
      rw [g3] at f1
      injection f1 with f1
      injection f1 with f1a f1b
      subst f1a; subst f1b
      have hle := (ft Rel.any).size_le
      have hle2 := (n.frame Rel.any).size_le
      have ht' : t' < h0.size := Heap.lt_size_of_get? (Heap.mtop?_eq_some.mp g3)
      obtain ⟨c1, c2, c3, _⟩ := o.cells_old
      refine ⟨(ft _).trans' (n.frame _), ⟨_, hv⟩, ?_, ?_, ⟨v, o.view⟩, c1, ?_⟩
      · intro x hx
        simp only [Obj.cells, hv, List.mem_append] at hx
        rcases hx with hx | hx
        · exact Nat.le_trans hle (hfr x hx).1
        · exact (g5 x hx).1
      · intro x hx
        simp only [Obj.groSide, Obj.topSide, hv, List.mem_cons, List.mem_append] at hx
        rcases hx with (rfl | hx | hx) | (rfl | hx)
        · exact ⟨Nat.le_trans hle n.fresh.1, n.fresh.2⟩
        · exact ⟨Nat.le_trans hle (hfrs x hx).1, (hfrs x hx).2⟩
        · exact ⟨Nat.le_trans hle (hfr x hx).1, (hfr x hx).2⟩
        · exact ⟨htfresh, Nat.lt_of_lt_of_le ht' hle2⟩
        · exact ⟨(g5 x hx).1, Nat.lt_of_lt_of_le (g5 x hx).2 hle2⟩
      · intro x hx
        rcases List.mem_append.mp hx with hx | hx
        · exact c2 x hx
        · exact c3 x hx

/-- a freshly constructed molecule is well formed … -/
theorem NewMol.molOld {h h1 : Heap α} {t m : Nat} {rs : List Nat} (n : NewMol h h1 t rs m) :
    ∃ v, MolOld h1 m v := by
  obtain ⟨name, tops, ps, css, f1, f2, _, f3, rs', ps', hv, hfrs, hfr, hnd, hrd, _, _⟩ := n.old
  obtain ⟨_, ⟨ts, hts⟩, _⟩ := matchAll_none f3
  obtain ⟨hg, hr, hm, ht⟩ := molView_gros hv
  refine ⟨_, hv, ?_, ?_, ?_, ⟨_, hm⟩, ⟨_, ht⟩⟩
  · exact readTops_mem (readTops_frame (n.frame Rel.any) hts (fun _ _ w => w))
  · exact readGros_mem hrd
  · exact readRess_mem hr

/-- … and stays so whatever is assigned later -/
theorem MolOld.frame {W : Nat → Prop} {h h' : Heap α} {m : Nat} {v : MolView}
    (f : Frame Rel.any W h h') (o : MolOld h m v) : MolOld h' m v := by
  obtain ⟨p, hp⟩ := o.self
  obtain ⟨q, hq⟩ := o.mtop
  refine ⟨f.molView o.view, ?_, ?_, ?_, ⟨p, f.mol? hp⟩, ⟨q, f.mtop? hq⟩⟩
  · intro a ha
    obtain ⟨c, hc⟩ := o.tops a ha
    obtain ⟨c', hc', _⟩ := f.top?_isSome hc
    exact ⟨c', hc'⟩
  · intro a ha
    obtain ⟨c, hc⟩ := o.gros a ha
    obtain ⟨c', hc', _⟩ := f.gro?_isSome hc
    exact ⟨c', hc'⟩
  · intro a ha
    obtain ⟨l, hl⟩ := o.ress a ha
    exact ⟨l, f.res? hl⟩

/-- `residue.copy()` -/
theorem copied_res {h h1 : Heap α} {r c : Nat}
    (hc : stepOn h (.res r) (.copy 0) = ⟨h1, some (.res c), none⟩) :
    Copied h h1 (.res r) (.res c) := by
  simp only [stepOn] at hc
  cases e2 : copyResidue h r with
  | error er => simp [e2, allocOk] at hc
  | ok q =>
    obtain ⟨hh, a⟩ := q
    simp only [e2, allocOk, StepR.mk.injEq, Option.some.injEq, Obj.res.injEq, and_true] at hc
    obtain ⟨rfl, rfl⟩ := hc
    obtain ⟨gs, cs, hres, hgs, n⟩ := copyResidue_spec e2
    obtain ⟨as, has, hfr, _, _⟩ := n.cell
    have hold : ∀ x ∈ gs, x < h.size := fun x hx => by
      obtain ⟨c', hc'⟩ := readGros_mem hgs x hx; exact gro?_lt hc'
    refine ⟨n.frame _, ⟨as, has⟩, ?_, ?_, ⟨gs, hres⟩, ?_, ?_, ?_⟩
    · intro x hx
      simp only [Obj.cells, has] at hx
      exact Or.inr (hfr x hx).1
    · intro x hx
      simp only [Obj.groSide, has, List.mem_cons] at hx
      rcases hx with rfl | hx
      · exact n.fresh
      · exact hfr x hx
    · intro x hx
      simp only [Obj.cells, hres] at hx
      exact hold x hx
    · intro x hx
      simp only [Obj.groSide, hres, List.mem_cons] at hx
      rcases hx with rfl | hx
      · exact res?_lt hres
      · exact hold x hx
    · intro x hx
      simp [Obj.topCells] at hx

/-- `atom_gro.copy()` -/
theorem copied_agro {h h1 : Heap α} {g c : Nat}
    (hc : stepOn h (.agro g) (.copy 0) = ⟨h1, some (.agro c), none⟩) :
    Copied h h1 (.agro g) (.agro c) := by
  simp only [stepOn] at hc
  cases e1 : h.gro? g with
  | none => simp [e1] at hc
  | some cell =>
    simp only [e1, StepR.mk.injEq, Option.some.injEq, Obj.agro.injEq, and_true] at hc
    obtain ⟨rfl, rfl⟩ := hc
    refine ⟨frame_alloc _ h _, trivial, ?_, ?_, trivial, ?_, ?_, ?_⟩
    · intro x hx
      simp only [Obj.cells, Heap.alloc_snd, List.mem_singleton] at hx
      exact Or.inr (by omega)
    · intro x hx
      simp only [Obj.groSide, Heap.alloc_snd, List.mem_singleton] at hx
      subst hx
      simp
    · intro x hx
      simp only [Obj.cells, List.mem_singleton] at hx
      subst hx; exact gro?_lt e1
    · intro x hx
      simp only [Obj.groSide, List.mem_singleton] at hx
      subst hx; exact gro?_lt e1
    · intro x hx
      simp [Obj.topCells] at hx

/-- `atom.copy()` (an `Atom` view): shares the AtomTop, copies the AtomGro -/
theorem copied_atom {h h1 : Heap α} {t g t' c : Nat}
    (hc : stepOn h (.atom t g) (.copy 0) = ⟨h1, some (.atom t' c), none⟩) :
    Copied h h1 (.atom t g) (.atom t' c) := by
  simp only [stepOn] at hc
  cases e1 : h.gro? g with
  | none => simp [e1] at hc
  | some cell =>
    simp only [e1, Heap.alloc_snd] at hc
    cases e2 : matchErr (h.alloc (Cell.gro cell)).1 t h.size with
    | some er => simp [e2] at hc
    | none =>
      rw [e2] at hc
      simp only [StepR.mk.injEq, Option.some.injEq, Obj.atom.injEq, and_true] at hc
      obtain ⟨rfl, rfl, rfl⟩ := hc
      have fr := frame_alloc (Rel.any : Rel α) h (Cell.gro cell)
      -- the match check read the AtomTop in the new heap
      have htop : ∃ tc, (h.alloc (Cell.gro cell)).1.top? t = some tc := by
        unfold matchErr at e2
        cases e3 : (h.alloc (Cell.gro cell)).1.top? t with
        | none => simp [e3] at e2
        | some tc => exact ⟨tc, rfl⟩
      obtain ⟨tc, htc⟩ := htop
      have hnew : (h.alloc (Cell.gro cell)).1.get? h.size = some (Cell.gro cell) := by
        rw [Heap.get?_alloc, if_pos rfl]
      have htlt : t < h.size := by
        have h1 := top?_lt htc
        simp only [Heap.size_alloc] at h1
        have : t ≠ h.size := by
          intro e
          rw [e] at htc
          have := Heap.top?_eq_some.mp htc
          rw [hnew] at this
          cases this
        omega
      have hgl : g < h.size := gro?_lt e1
      refine ⟨fr, trivial, ?_, ?_, trivial, ?_, ?_, ?_⟩
      · intro x hx
        simp only [Obj.cells, Heap.alloc_snd, List.mem_cons, List.not_mem_nil, or_false] at hx
        rcases hx with rfl | rfl
        · exact Or.inr (Nat.le_refl _)
        · exact Or.inl (by simp [Obj.topCells])
      · intro x hx
        simp only [Obj.groSide, Heap.alloc_snd, List.mem_singleton] at hx
        subst hx
        simp
      · intro x hx
        simp only [Obj.cells, List.mem_cons, List.not_mem_nil, or_false] at hx
        rcases hx with rfl | rfl
        · exact hgl
        · exact htlt
      · intro x hx
        simp only [Obj.groSide, List.mem_singleton] at hx
        subst hx; exact hgl
      · intro x hx hg
        simp only [Obj.topCells, List.mem_singleton] at hx
        simp only [Obj.groSide, List.mem_singleton] at hg
        subst hx
        subst hg
        have : (h.alloc (Cell.gro cell)).1.gro? x = some cell := by
          apply Heap.gro?_eq_some.mpr
          rw [fr.same x hgl (fun w => w)]
          exact Heap.gro?_eq_some.mp e1
        exact top_not_gro htc this

end copies

end GMHeap
