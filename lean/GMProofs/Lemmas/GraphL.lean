import GMModel.Graph
import Mathlib.Tactic.SplitIfs
import Mathlib.Data.List.Basic
import Mathlib.Data.Finset.Card
import Mathlib.Tactic.Linarith
/-
  GMProofs.Lemmas.GraphL — lemmas about `GMModel.Graph`: the worklist walk of the repaired
  `are_connected` visits exactly the vertices reachable from vertex 0 (and the fuel suffices);
  the bond sets `MoleculeTop.__init__` builds; the heap model of `copy`.
-/
set_option linter.unusedSimpArgs false
set_option linter.unusedVariables false

namespace Graph
open Itp (PyErr Str)

/-! ### reachability -/

/-- `j` is in the bond set of atom `i` -/
def Edge (adj : Adj) (i j : Nat) : Prop := ∃ nbrs, adj[i]? = some nbrs ∧ j ∈ nbrs

/-- reachable along bond-set entries -/
inductive Reach (adj : Adj) : Nat → Nat → Prop
  | refl (i : Nat) : Reach adj i i
  | step {i j k : Nat} : Reach adj i j → Edge adj j k → Reach adj i k

/-- every bond-set entry is a position of the atom list -/
def Valid (adj : Adj) : Prop := ∀ i j, Edge adj i j → j < adj.length

/-! ### the potential that bounds the number of iterations -/

/-- sum of the bond-set sizes of the atoms not yet visited (positions counted from `base`) -/
def remDeg : Adj → Nat → List Nat → Nat
  | [], _, _ => 0
  | nbrs :: rest, i, visited =>
    (if i ∈ visited then 0 else nbrs.length) + remDeg rest (i + 1) visited

theorem remDeg_le_degSum (adj : Adj) (base : Nat) (visited : List Nat) :
    remDeg adj base visited ≤ degSum adj := by
  induction adj generalizing base with
  | nil => simp [remDeg, degSum]
  | cons a adj ih =>
    have := ih (base + 1)
    simp only [remDeg, degSum, List.map_cons, List.sum_cons] at this ⊢
    split_ifs <;> omega

theorem remDeg_visit {adj : Adj} {base i : Nat} {visited : List Nat} {nbrs : List Nat}
    (hb : base ≤ i) (hi : adj[i - base]? = some nbrs) (hv : i ∉ visited) :
    remDeg adj base (i :: visited) + nbrs.length = remDeg adj base visited := by
  induction adj generalizing base with
  | nil => simp at hi
  | cons a adj ih =>
    by_cases he : i = base
    · subst he
      simp only [Nat.sub_self, List.getElem?_cons_zero, Option.some.injEq] at hi
      subst hi
      have hrest : remDeg adj (i + 1) (i :: visited) = remDeg adj (i + 1) visited := by
        clear ih
        generalize hk : i + 1 = k
        have hik : i < k := by omega
        clear hk
        induction adj generalizing k with
        | nil => rfl
        | cons b adj ih2 =>
          have hne : k ≠ i := by omega
          simp only [remDeg, List.mem_cons, hne, false_or]
          rw [ih2 (k + 1) (by omega)]
      simp only [remDeg, List.mem_cons, true_or, if_true, hv, if_false, hrest]
      omega
    · have hlt : base + 1 ≤ i := by omega
      have hi' : adj[i - (base + 1)]? = some nbrs := by
        have : i - base = (i - (base + 1)) + 1 := by omega
        rw [this, List.getElem?_cons_succ] at hi
        exact hi
      have := ih hlt hi'
      have hne : base ≠ i := fun e => he e.symm
      simp only [remDeg, List.mem_cons, hne, false_or]
      omega

/-! ### the walk visits exactly the reachable vertices -/

structure WInv (adj : Adj) (stack visited : List Nat) : Prop where
  nodup : visited.Nodup
  vis : ∀ v ∈ visited, v < adj.length ∧ Reach adj 0 v
  stk : ∀ v ∈ stack, v < adj.length ∧ Reach adj 0 v
  closed : ∀ v ∈ visited, ∀ w, Edge adj v w → w ∈ visited ∨ w ∈ stack
  root : 0 ∈ visited ∨ 0 ∈ stack

theorem walk_correct {adj : Adj} (hval : Valid adj) :
    ∀ (fuel : Nat) (stack visited : List Nat), WInv adj stack visited →
      stack.length + remDeg adj 0 visited < fuel →
      ∃ res, walk adj fuel stack visited = .ok res ∧ res.Nodup ∧
        (∀ v, v ∈ res ↔ Reach adj 0 v) ∧ (∀ v ∈ res, v < adj.length) := by
  intro fuel
  induction fuel with
  | zero => intro stack visited _ h; omega
  | succ fuel ih =>
    intro stack visited hinv hm
    cases stack with
    | nil =>
      refine ⟨visited, rfl, hinv.nodup, ?_, fun v hv => (hinv.vis v hv).1⟩
      intro v
      constructor
      · intro hv; exact (hinv.vis v hv).2
      · intro hr
        induction hr with
        | refl =>
          rcases hinv.root with h | h
          · exact h
          · simp at h
        | step _ he ih2 =>
          rcases hinv.closed _ ih2 _ he with h | h
          · exact h
          · simp at h
    | cons i st =>
      by_cases hiv : i ∈ visited
      · have hinv' : WInv adj st visited := by
          refine ⟨hinv.nodup, hinv.vis, fun v hv => hinv.stk v (by simp [hv]), ?_, ?_⟩
          · intro v hv w he
            rcases hinv.closed v hv w he with h | h
            · exact Or.inl h
            · rcases List.mem_cons.mp h with h | h
              · subst h; exact Or.inl hiv
              · exact Or.inr h
          · rcases hinv.root with h | h
            · exact Or.inl h
            · rcases List.mem_cons.mp h with h | h
              · rw [h]; exact Or.inl hiv
              · exact Or.inr h
        obtain ⟨res, h1, h2⟩ := ih st visited hinv' (by simp at hm; omega)
        exact ⟨res, by simp only [walk, hiv, if_true]; exact h1, h2⟩
      · obtain ⟨hil, hir⟩ := hinv.stk i (by simp)
        have hget : adj[i]? = some adj[i] := List.getElem?_eq_getElem hil
        set nbrs := adj[i] with hnb
        set pushed := (nbrs.filter (fun j => decide (j ∉ i :: visited))).reverse with hp
        have hinv' : WInv adj (pushed ++ st) (i :: visited) := by
          refine ⟨List.nodup_cons.mpr ⟨hiv, hinv.nodup⟩, ?_, ?_, ?_, ?_⟩
          · intro v hv
            rcases List.mem_cons.mp hv with h | h
            · subst h; exact ⟨hil, hir⟩
            · exact hinv.vis v h
          · intro v hv
            rcases List.mem_append.mp hv with h | h
            · have hvn : v ∈ nbrs := by
                simp only [hp, List.mem_reverse, List.mem_filter] at h; exact h.1
              have he : Edge adj i v := ⟨nbrs, hget, hvn⟩
              exact ⟨hval i v he, Reach.step hir he⟩
            · exact hinv.stk v (by simp [h])
          · intro v hv w he
            rcases List.mem_cons.mp hv with h | h
            · subst h
              obtain ⟨nb, hnb', hw⟩ := he
              rw [hget] at hnb'
              simp only [Option.some.injEq] at hnb'
              subst hnb'
              by_cases hwv : w ∈ v :: visited
              · exact Or.inl hwv
              · right
                apply List.mem_append_left
                simp only [hp, List.mem_reverse, List.mem_filter]
                exact ⟨hw, by simpa using hwv⟩
            · rcases hinv.closed v h w he with h2 | h2
              · exact Or.inl (by simp [h2])
              · rcases List.mem_cons.mp h2 with h3 | h3
                · subst h3; exact Or.inl (by simp)
                · exact Or.inr (List.mem_append_right _ h3)
          · rcases hinv.root with h | h
            · exact Or.inl (by simp [h])
            · rcases List.mem_cons.mp h with h | h
              · rw [h]; exact Or.inl (by simp)
              · exact Or.inr (List.mem_append_right _ h)
        have hdeg := remDeg_visit (adj := adj) (base := 0) (i := i) (visited := visited)
          (Nat.zero_le _) (by simpa using hget) hiv
        have hpl : pushed.length ≤ nbrs.length := by
          simp only [hp, List.length_reverse]; exact List.length_filter_le _ _
        obtain ⟨res, h1, h2⟩ := ih (pushed ++ st) (i :: visited) hinv' (by
          simp only [List.length_append, List.length_cons] at hm ⊢; omega)
        refine ⟨res, ?_, h2⟩
        simp only [walk, hiv, if_false, hget]
        exact h1

theorem walkFuel_enough (adj : Adj) : [0].length + remDeg adj 0 [] < walkFuel adj := by
  have := remDeg_le_degSum adj 0 []
  simp only [walkFuel, List.length_cons, List.length_nil]
  omega

theorem winv_init {adj : Adj} (h : 0 < adj.length) : WInv adj [0] [] :=
  ⟨List.nodup_nil, by simp, by simp; exact ⟨h, Reach.refl 0⟩, by simp, Or.inr (by simp)⟩

theorem nodup_length_eq_iff {l : List Nat} {n : Nat} (hn : l.Nodup) (hl : ∀ v ∈ l, v < n) :
    l.length = n ↔ ∀ v, v < n → v ∈ l := by
  have hsub : l.toFinset ⊆ Finset.range n := by
    intro v hv; simp only [List.mem_toFinset] at hv; simpa using hl v hv
  have hcard : l.toFinset.card = l.length := List.toFinset_card_of_nodup hn
  constructor
  · intro h v hv
    have : l.toFinset = Finset.range n := by
      apply Finset.eq_of_subset_of_card_le hsub
      rw [hcard, h]; simp
    have : v ∈ l.toFinset := by rw [this]; simpa using hv
    simpa using this
  · intro h
    have : l.toFinset = Finset.range n := by
      apply Finset.Subset.antisymm hsub
      intro v hv
      simp only [Finset.mem_range] at hv
      simpa using h v hv
    rw [← hcard, this]; simp

/-- WORKLIST LEMMA: from `[0]` with the registered fuel the walk terminates normally, and the
    `connected` list it returns is duplicate-free and contains exactly the positions reachable
    from position 0 -/
theorem walk_visits_reachable {adj : Adj} (hval : Valid adj) (h0 : 0 < adj.length) :
    ∃ res, walk adj (walkFuel adj) [0] [] = .ok res ∧ res.Nodup ∧
      (∀ v, v ∈ res ↔ Reach adj 0 v) ∧ (∀ v ∈ res, v < adj.length) :=
  walk_correct hval (walkFuel adj) [0] [] (winv_init h0) (walkFuel_enough adj)

theorem areConnected_iff {adj : Adj} (hval : Valid adj) (h0 : 0 < adj.length) :
    ∃ b, areConnected adj = .ok b ∧ (b = true ↔ ∀ v, v < adj.length → Reach adj 0 v) := by
  obtain ⟨res, h1, h2, h3, h4⟩ := walk_visits_reachable hval h0
  refine ⟨res.length == adj.length, ?_, ?_⟩
  · simp [areConnected, h1, bind, Except.bind, pure, Except.pure]
  · rw [beq_iff_eq, nodup_length_eq_iff h2 h4]
    constructor
    · intro h v hv; exact (h3 v).mp (h v hv)
    · intro h v hv; exact (h3 v).mpr (h v hv)

theorem areConnected_empty : areConnected [] = .error .IndexError := by
  simp [areConnected, walkFuel, degSum, walk, bind, Except.bind]

/-! ### the bond sets built by `MoleculeTop.__init__` -/

theorem mem_setAdd {s : List Nat} {x j : Nat} : j ∈ setAdd s x ↔ j ∈ s ∨ j = x := by
  unfold setAdd
  split_ifs with h
  · constructor
    · intro hj; exact Or.inl hj
    · rintro (hj | hj)
      · exact hj
      · rw [hj]; exact h
  · simp

theorem nodup_setAdd {s : List Nat} {x : Nat} (h : s.Nodup) : (setAdd s x).Nodup := by
  unfold setAdd
  split_ifs with hx
  · exact h
  · rw [List.nodup_append]
    refine ⟨h, by simp, ?_⟩
    intro a ha b hb
    simp at hb; subst hb
    intro e; subst e; exact hx ha

theorem length_adjAdd (adj : Adj) (a x : Nat) : (adjAdd adj a x).length = adj.length := by
  simp [adjAdd]

theorem edge_adjAdd {adj : Adj} {a x : Nat} (ha : a < adj.length) (i j : Nat) :
    Edge (adjAdd adj a x) i j ↔ Edge adj i j ∨ (i = a ∧ j = x) := by
  unfold Edge adjAdd
  rw [List.getElem?_modify]
  by_cases hia : a = i
  · subst hia
    have hget : adj[a]? = some adj[a] := List.getElem?_eq_getElem ha
    simp only [hget, Option.map_eq_map, Option.map_some, if_true, Option.some.injEq,
      exists_eq_left']
    rw [mem_setAdd]
    simp
  · have hne : ¬ (i = a) := fun e => hia e.symm
    simp only [hia, if_false, hne, false_and, or_false]
    cases adj[i]? <;> simp

/-- all bond sets are duplicate-free lists -/
def AllNodup (adj : Adj) : Prop := ∀ s ∈ adj, s.Nodup

theorem allNodup_adjAdd {adj : Adj} (h : AllNodup adj) (a x : Nat) : AllNodup (adjAdd adj a x) := by
  intro s hs
  unfold adjAdd at hs
  rw [List.mem_iff_getElem?] at hs
  obtain ⟨i, hi⟩ := hs
  rw [List.getElem?_modify] at hi
  cases hg : adj[i]? with
  | none => rw [hg] at hi; simp at hi
  | some s0 =>
    rw [hg] at hi
    simp only [Option.map_eq_map, Option.map_some, Option.some.injEq] at hi
    have hs0 : s0.Nodup := h s0 (List.mem_of_getElem? hg)
    split_ifs at hi
    · rw [← hi]; exact nodup_setAdd hs0
    · rw [← hi]; exact hs0

theorem connect_spec {adj adj' : Adj} {b : Nat × Nat} (h : connect adj b = .ok adj') :
    b.1 < adj.length ∧ b.2 < adj.length ∧ adj'.length = adj.length ∧
    ∀ i j, Edge adj' i j ↔ Edge adj i j ∨ (i = b.1 ∧ j = b.2) ∨ (i = b.2 ∧ j = b.1) := by
  unfold connect at h
  split_ifs at h with hb
  simp only [Except.ok.injEq] at h
  subst h
  refine ⟨hb.1, hb.2, by simp [length_adjAdd], ?_⟩
  intro i j
  rw [edge_adjAdd (by rw [length_adjAdd]; exact hb.2), edge_adjAdd hb.1]
  tauto

theorem connectAll_spec : ∀ {bonds : List (Nat × Nat)} {adj adj' : Adj},
    connectAll adj bonds = .ok adj' →
    (∀ b ∈ bonds, b.1 < adj.length ∧ b.2 < adj.length) ∧ adj'.length = adj.length ∧
    (AllNodup adj → AllNodup adj') ∧
    ∀ i j, Edge adj' i j ↔ Edge adj i j ∨ (i, j) ∈ bonds ∨ (j, i) ∈ bonds
  | [], adj, adj', h => by
    simp only [connectAll, Except.ok.injEq] at h
    subst h
    simp
  | b :: bs, adj, adj', h => by
    simp only [connectAll, bind, Except.bind] at h
    cases hc : connect adj b with
    | error e => rw [hc] at h; simp at h
    | ok a1 =>
      rw [hc] at h
      simp only at h
      obtain ⟨h1, h2, h3, h4⟩ := connect_spec hc
      obtain ⟨r1, r2, r3, r4⟩ := connectAll_spec h
      refine ⟨?_, by rw [r2, h3], ?_, ?_⟩
      · intro x hx
        rcases List.mem_cons.mp hx with rfl | hx
        · exact ⟨h1, h2⟩
        · rw [← h3]; exact r1 x hx
      · intro hn
        apply r3
        unfold connect at hc
        split_ifs at hc
        simp only [Except.ok.injEq] at hc
        subst hc
        exact allNodup_adjAdd (allNodup_adjAdd hn _ _) _ _
      · intro i j
        rw [r4, h4]
        have e1 : (i, j) = b ↔ (i = b.1 ∧ j = b.2) := by rw [Prod.ext_iff]
        have e2 : (j, i) = b ↔ (i = b.2 ∧ j = b.1) := by rw [Prod.ext_iff]; simp [and_comm]
        simp only [List.mem_cons, e1, e2]
        tauto

theorem connectAll_ok : ∀ {bonds : List (Nat × Nat)} {adj : Adj},
    (∀ b ∈ bonds, b.1 < adj.length ∧ b.2 < adj.length) → ∃ adj', connectAll adj bonds = .ok adj'
  | [], adj, _ => ⟨adj, rfl⟩
  | b :: bs, adj, h => by
    have hb := h b (by simp)
    have hc : connect adj b = .ok (adjAdd (adjAdd adj b.1 b.2) b.2 b.1) := by
      unfold connect; rw [if_pos hb]
    have hl : (adjAdd (adjAdd adj b.1 b.2) b.2 b.1).length = adj.length := by simp [length_adjAdd]
    obtain ⟨adj', h'⟩ := connectAll_ok (bonds := bs) (adj := adjAdd (adjAdd adj b.1 b.2) b.2 b.1)
      (fun x hx => by rw [hl]; exact h x (by simp [hx]))
    exact ⟨adj', by simp only [connectAll, bind, Except.bind, hc]; exact h'⟩

theorem edge_replicate (n i j : Nat) : ¬ Edge (List.replicate n ([] : List Nat)) i j := by
  rintro ⟨s, hs, hj⟩
  rw [List.getElem?_replicate] at hs
  split_ifs at hs
  simp only [Option.some.injEq] at hs
  subst hs
  simp at hj

/-- BOND SETS: when every listed position is an atom position, `MoleculeTop.__init__` succeeds
    and atom `i`'s bond set contains `j` exactly when `(i, j)` or `(j, i)` is a listed pair;
    bond sets hold no duplicates and no position outside the atom list -/
theorem buildAdj_spec {n : Nat} {bonds : List (Nat × Nat)}
    (h : ∀ b ∈ bonds, b.1 < n ∧ b.2 < n) :
    ∃ adj, buildAdj n bonds = .ok adj ∧ adj.length = n ∧ AllNodup adj ∧ Valid adj ∧
      ∀ i j, Edge adj i j ↔ (i, j) ∈ bonds ∨ (j, i) ∈ bonds := by
  unfold buildAdj
  obtain ⟨adj, hadj⟩ := connectAll_ok (bonds := bonds) (adj := List.replicate n [])
    (by simpa using h)
  obtain ⟨r1, r2, r3, r4⟩ := connectAll_spec hadj
  have hlen : adj.length = n := by simpa using r2
  have hE : ∀ i j, Edge adj i j ↔ (i, j) ∈ bonds ∨ (j, i) ∈ bonds := by
    intro i j; rw [r4]; simp [edge_replicate]
  refine ⟨adj, hadj, hlen, r3 (by intro s hs; simp at hs; rw [hs.2]; exact List.nodup_nil), ?_, hE⟩
  intro i j he
  rw [hlen]
  rcases (hE i j).mp he with hb | hb
  · exact (h _ hb).2
  · exact (h _ hb).1

theorem edge_symm_of_buildAdj {n : Nat} {bonds : List (Nat × Nat)} {adj : Adj}
    (h : buildAdj n bonds = .ok adj) (i j : Nat) : Edge adj i j ↔ Edge adj j i := by
  unfold buildAdj at h
  obtain ⟨_, _, _, r4⟩ := connectAll_spec h
  rw [r4, r4]
  simp [edge_replicate, or_comm]

/-! ### symmetric graphs: reachable from 0 ⇔ connected -/

theorem Reach.trans {adj : Adj} {a b c : Nat} (h1 : Reach adj a b) (h2 : Reach adj b c) :
    Reach adj a c := by
  induction h2 with
  | refl => exact h1
  | step _ he ih => exact Reach.step ih he

theorem Reach.symm {adj : Adj} (hs : ∀ i j, Edge adj i j → Edge adj j i) {a b : Nat}
    (h : Reach adj a b) : Reach adj b a := by
  induction h with
  | refl => exact Reach.refl _
  | step _ he ih => exact Reach.trans (Reach.step (Reach.refl _) (hs _ _ he)) ih

/-! ### the ORIGINAL recursive walk on a path graph: the nesting depth equals the chain length -/

theorem chain_length (n : Nat) : (chain n).length = n := by simp [chain]

theorem chain_get {n i : Nat} (h : i < n) :
    (chain n)[i]? = some ((if i = 0 then [] else [i - 1]) ++ (if i + 1 < n then [i + 1] else [])) := by
  simp [chain, List.getElem?_map, List.getElem?_range, h]

/-- `connected` when the walk enters vertex `i` of the chain: `[i-1, …, 0]` -/
def descBelow (i : Nat) : List Nat := (List.range i).reverse

theorem mem_descBelow {i j : Nat} : j ∈ descBelow i ↔ j < i := by simp [descBelow]

theorem descBelow_succ (i : Nat) : descBelow (i + 1) = i :: descBelow i := by
  simp [descBelow, List.range_succ]

theorem orig_visit_chain (n limit : Nat) : ∀ (k i : Nat), i + k + 1 = n →
    ∀ (fuel depth maxd : Nat), 3 * (k + 1) ≤ fuel → depth + k ≤ limit →
    Orig.visit (chain n) limit fuel depth i (descBelow i, maxd) =
      .ok (descBelow n, max maxd (depth + k)) := by
  intro k
  induction k with
  | zero =>
    intro i hi fuel depth maxd hf hd
    obtain ⟨f1, rfl⟩ : ∃ f1, fuel = f1 + 3 := ⟨fuel - 3, by omega⟩
    have hin : i < n := by omega
    have hlast : ¬ (i + 1 < n) := by omega
    have hnd : ¬ depth > limit := by omega
    have hni : i ∉ descBelow i := by rw [mem_descBelow]; omega
    simp only [Orig.visit, hnd, if_false, hni, chain_get hin, hlast, List.append_nil]
    have hn : n = i + 1 := by omega
    by_cases h0 : i = 0
    · subst h0
      simp [Orig.loop, hn, descBelow]
    · have hm : i - 1 ∈ i :: descBelow i := by
        simp only [List.mem_cons, mem_descBelow]; right; omega
      simp only [h0, if_false, List.nil_append, Orig.loop, hm, if_true]
      rw [hn, descBelow_succ]; simp
  | succ k ih =>
    intro i hi fuel depth maxd hf hd
    obtain ⟨f1, rfl⟩ : ∃ f1, fuel = f1 + 3 := ⟨fuel - 3, by omega⟩
    have hin : i < n := by omega
    have hnext : i + 1 < n := by omega
    have hnd : ¬ depth > limit := by omega
    have hni : i ∉ descBelow i := by rw [mem_descBelow]; omega
    have hnn : i + 1 ∉ i :: descBelow i := by
      simp only [List.mem_cons, mem_descBelow]; omega
    have hrec := ih (i + 1) (by omega) (f1 + 1) (depth + 1) (max maxd depth) (by omega) (by omega)
    rw [descBelow_succ] at hrec
    simp only [Orig.visit, hnd, if_false, hni, chain_get hin, hnext, if_true]
    by_cases h0 : i = 0
    · subst h0
      simp only [if_true, List.nil_append, Orig.loop, hnn, if_false, bind, Except.bind]
      rw [hrec]
      simp only [Orig.loop]
      congr 2
      omega
    · have hm : i - 1 ∈ i :: descBelow i := by
        simp only [List.mem_cons, mem_descBelow]; right; omega
      simp only [h0, if_false, List.cons_append, List.nil_append, Orig.loop, hm, if_true, hnn,
        bind, Except.bind]
      have hrec' := ih (i + 1) (by omega) f1 (depth + 1) (max maxd depth) (by omega) (by omega)
      rw [descBelow_succ] at hrec'
      cases f1 with
      | zero => omega
      | succ f2 =>
        simp only [Orig.loop, hnn, if_false, bind, Except.bind]
        rw [hrec']
        simp only
        congr 2
        omega

theorem orig_visit_chain_overflow (n limit : Nat) : ∀ (k i : Nat), i + k + 1 = n →
    ∀ (fuel depth maxd : Nat), 3 * (k + 1) ≤ fuel → limit < depth + k →
    Orig.visit (chain n) limit fuel depth i (descBelow i, maxd) = .error .RecursionError := by
  intro k
  induction k with
  | zero =>
    intro i hi fuel depth maxd hf hd
    obtain ⟨f1, rfl⟩ : ∃ f1, fuel = f1 + 1 := ⟨fuel - 1, by omega⟩
    have hnd : depth > limit := by omega
    simp only [Orig.visit, hnd, if_true]
  | succ k ih =>
    intro i hi fuel depth maxd hf hd
    obtain ⟨f1, rfl⟩ : ∃ f1, fuel = f1 + 3 := ⟨fuel - 3, by omega⟩
    by_cases hnd : depth > limit
    · simp only [Orig.visit, hnd, if_true]
    · have hin : i < n := by omega
      have hnext : i + 1 < n := by omega
      have hni : i ∉ descBelow i := by rw [mem_descBelow]; omega
      have hnn : i + 1 ∉ i :: descBelow i := by
        simp only [List.mem_cons, mem_descBelow]; omega
      simp only [Orig.visit, hnd, if_false, hni, chain_get hin, hnext, if_true]
      by_cases h0 : i = 0
      · subst h0
        have hrec := ih 1 (by omega) (f1 + 1) (depth + 1) (max maxd depth) (by omega) (by omega)
        rw [descBelow_succ] at hrec
        simp only [if_true, List.nil_append, Orig.loop, hnn, if_false, bind, Except.bind]
        rw [hrec]
      · have hm : i - 1 ∈ i :: descBelow i := by
          simp only [List.mem_cons, mem_descBelow]; right; omega
        have hrec := ih (i + 1) (by omega) f1 (depth + 1) (max maxd depth) (by omega) (by omega)
        rw [descBelow_succ] at hrec
        simp only [h0, if_false, List.cons_append, List.nil_append, Orig.loop, hm, if_true, hnn,
          bind, Except.bind]
        cases f1 with
        | zero => omega
        | succ f2 =>
          simp only [Orig.loop, hnn, if_false, bind, Except.bind]
          rw [hrec]

/-- ORIGINAL code, path graph on `n ≥ 1` atoms: with a frame limit of at least `n` the recursive
    walk answers `True` and nests `_find_connected_atoms` exactly `n` deep -/
theorem orig_chain_depth {n limit : Nat} (hn : 1 ≤ n) (hl : n ≤ limit) :
    Orig.areConnected (chain n) limit = .ok (true, n) := by
  unfold Orig.areConnected
  have h := orig_visit_chain n limit (n - 1) 0 (by omega)
    (3 * (chain n).length + 2 * degSum (chain n) + 4) 1 0
    (by rw [chain_length]; omega) (by omega)
  simp only [descBelow, List.range_zero, List.reverse_nil, chain_length] at h
  have hm : max 0 (1 + (n - 1)) = n := by omega
  simp only [h, bind, Except.bind, pure, Except.pure, chain_length, List.length_reverse,
    List.length_range, beq_self_eq_true, hm]

/-- ORIGINAL code, path graph on `n` atoms with a frame limit below `n`: `RecursionError` -/
theorem orig_chain_overflow {n limit : Nat} (hn : 1 ≤ n) (hl : limit < n) :
    Orig.areConnected (chain n) limit = .error .RecursionError := by
  unfold Orig.areConnected
  have h := orig_visit_chain_overflow n limit (n - 1) 0 (by omega)
    (3 * (chain n).length + 2 * degSum (chain n) + 4) 1 0
    (by rw [chain_length]; omega) (by omega)
  simp only [descBelow, List.range_zero, List.reverse_nil, chain_length] at h
  simp only [chain_length, h, bind, Except.bind]

/-! ### heap model: `copy` and the mutations reachable through atom objects -/

/-- every `AtomTop` cell below `N` refers to a set cell below `N` -/
def OldClosed (N : Nat) (H : Heap) : Prop :=
  ∀ a n r i x b, a < N → H[a]? = some (.atom n r i x b) → b < N
/-- every `AtomTop` cell at or above `N` refers to a set cell at or above `N` -/
def NewClosed (N : Nat) (H : Heap) : Prop :=
  ∀ a n r i x b, N ≤ a → H[a]? = some (.atom n r i x b) → N ≤ b

theorem length_setUpd (H : Heap) (a : Nat) (f : List Nat → List Nat) :
    (setUpd H a f).length = H.length := by
  unfold setUpd
  split
  · split
    · simp
    · rfl
  · rfl

/-- `setUpd` writes at most the set cell the atom at `a` refers to, and keeps it a set cell -/
theorem getElem?_setUpd (H : Heap) (a : Nat) (f : List Nat → List Nat) (c : Nat) :
    (setUpd H a f)[c]? = H[c]? ∨
    ∃ n r i x e, H[a]? = some (.atom n r i x c) ∧ H[c]? = some (.set e) ∧
      (setUpd H a f)[c]? = some (.set (f e)) := by
  unfold setUpd
  split
  · rename_i n r i x b hb
    split
    · rename_i e he
      by_cases hbc : b = c
      · subst hbc
        right
        refine ⟨n, r, i, x, e, hb, he, ?_⟩
        rw [List.getElem?_set]
        have : b < H.length := by
          by_contra hlt; rw [List.getElem?_eq_none (by omega)] at he; simp at he
        simp [this]
      · left; rw [List.getElem?_set]; simp [hbc]
    · left; rfl
  · left; rfl

theorem atom_setUpd_iff (H : Heap) (a : Nat) (f : List Nat → List Nat) (c : Nat)
    (n r : Str) (i : Int) (x b : Nat) :
    (setUpd H a f)[c]? = some (.atom n r i x b) ↔ H[c]? = some (.atom n r i x b) := by
  rcases getElem?_setUpd H a f c with h | ⟨_, _, _, _, e, _, hc, hs⟩
  · rw [h]
  · rw [hs, hc]; simp

/-- cells an operation may write: its target atoms and the set cells they refer to -/
def Written (H : Heap) (op : Op) (c : Nat) : Prop :=
  ∃ a ∈ op.targets, c = a ∨ ∃ n r i x, H[a]? = some (.atom n r i x c)

theorem getElem?_set_ne {H : Heap} {a c : Nat} (cell : Cell) (h : c ≠ a) :
    (H.set a cell)[c]? = H[c]? := by
  rw [List.getElem?_set]; simp [Ne.symm h]

theorem applyOp_frame (H : Heap) (op : Op) (c : Nat) (h : ¬ Written H op c) :
    (applyOp H op)[c]? = H[c]? := by
  cases op with
  | connect a b =>
    simp only [applyOp]
    have ha : ¬ ∃ n r i x, H[a]? = some (.atom n r i x c) := by
      intro hx; exact h ⟨a, by simp [Op.targets], Or.inr hx⟩
    have hb : ¬ ∃ n r i x, H[b]? = some (.atom n r i x c) := by
      intro hx; exact h ⟨b, by simp [Op.targets], Or.inr hx⟩
    rcases getElem?_setUpd (setUpd H a (fun e => setAdd e (atomIndex H b))) b
        (fun e => setAdd e (atomIndex H a)) c with h2 | ⟨n, r, i, x, e, h2, _, _⟩
    · rw [h2]
      rcases getElem?_setUpd H a (fun e => setAdd e (atomIndex H b)) c with h1 | ⟨n, r, i, x, e, h1, _, _⟩
      · exact h1
      · exact absurd ⟨n, r, i, x, h1⟩ ha
    · rw [atom_setUpd_iff] at h2
      exact absurd ⟨n, r, i, x, h2⟩ hb
  | bondsAdd a v =>
    simp only [applyOp]
    rcases getElem?_setUpd H a (fun e => setAdd e v) c with h1 | ⟨n, r, i, x, e, h1, _, _⟩
    · exact h1
    · exact absurd ⟨a, by simp [Op.targets], Or.inr ⟨n, r, i, x, h1⟩⟩ h
  | bondsDiscard a v =>
    simp only [applyOp]
    rcases getElem?_setUpd H a (fun e => e.filter (· ≠ v)) c with h1 | ⟨n, r, i, x, e, h1, _, _⟩
    · exact h1
    · exact absurd ⟨a, by simp [Op.targets], Or.inr ⟨n, r, i, x, h1⟩⟩ h
  | setName a v =>
    have hca : c ≠ a := fun e => h ⟨a, by simp [Op.targets], Or.inl e⟩
    simp only [applyOp]
    split
    · exact getElem?_set_ne _ hca
    · rfl
  | setResname a v =>
    have hca : c ≠ a := fun e => h ⟨a, by simp [Op.targets], Or.inl e⟩
    simp only [applyOp]
    split
    · exact getElem?_set_ne _ hca
    · rfl
  | setResid a v =>
    have hca : c ≠ a := fun e => h ⟨a, by simp [Op.targets], Or.inl e⟩
    simp only [applyOp]
    split
    · exact getElem?_set_ne _ hca
    · rfl

/-- no operation changes which set cell an atom refers to, nor turns a cell into an atom -/
theorem applyOp_ref (H : Heap) (op : Op) (c : Nat) (n r : Str) (i : Int) (x b : Nat)
    (h : (applyOp H op)[c]? = some (.atom n r i x b)) :
    ∃ n' r' i', H[c]? = some (.atom n' r' i' x b) := by
  cases op with
  | connect a' b' =>
    simp only [applyOp] at h
    rw [atom_setUpd_iff, atom_setUpd_iff] at h
    exact ⟨n, r, i, h⟩
  | bondsAdd a v => simp only [applyOp] at h; rw [atom_setUpd_iff] at h; exact ⟨n, r, i, h⟩
  | bondsDiscard a v => simp only [applyOp] at h; rw [atom_setUpd_iff] at h; exact ⟨n, r, i, h⟩
  | setName a v =>
    simp only [applyOp] at h
    split at h
    · rename_i n0 r0 i0 x0 b0 h0
      rw [List.getElem?_set] at h
      split_ifs at h with h1 h2
      · subst h1; simp only [Option.some.injEq, Cell.atom.injEq] at h
        obtain ⟨_, _, _, rfl, rfl⟩ := h
        exact ⟨n0, r0, i0, h0⟩
      · exact ⟨n, r, i, h⟩
    · exact ⟨n, r, i, h⟩
  | setResname a v =>
    simp only [applyOp] at h
    split at h
    · rename_i n0 r0 i0 x0 b0 h0
      rw [List.getElem?_set] at h
      split_ifs at h with h1 h2
      · subst h1; simp only [Option.some.injEq, Cell.atom.injEq] at h
        obtain ⟨_, _, _, rfl, rfl⟩ := h
        exact ⟨n0, r0, i0, h0⟩
      · exact ⟨n, r, i, h⟩
    · exact ⟨n, r, i, h⟩
  | setResid a v =>
    simp only [applyOp] at h
    split at h
    · rename_i n0 r0 i0 x0 b0 h0
      rw [List.getElem?_set] at h
      split_ifs at h with h1 h2
      · subst h1; simp only [Option.some.injEq, Cell.atom.injEq] at h
        obtain ⟨_, _, _, rfl, rfl⟩ := h
        exact ⟨n0, r0, i0, h0⟩
      · exact ⟨n, r, i, h⟩
    · exact ⟨n, r, i, h⟩

theorem applyOp_oldClosed {N : Nat} {H : Heap} (op : Op) (h : OldClosed N H) :
    OldClosed N (applyOp H op) := by
  intro a n r i x b ha hc
  obtain ⟨n', r', i', h'⟩ := applyOp_ref H op a n r i x b hc
  exact h a n' r' i' x b ha h'

theorem applyOp_newClosed {N : Nat} {H : Heap} (op : Op) (h : NewClosed N H) :
    NewClosed N (applyOp H op) := by
  intro a n r i x b ha hc
  obtain ⟨n', r', i', h'⟩ := applyOp_ref H op a n r i x b hc
  exact h a n' r' i' x b ha h'

/-- operations through atoms at or above `N` leave every cell below `N` unchanged -/
theorem applyOps_frame_new {N : Nat} : ∀ (ops : List Op) (H : Heap), NewClosed N H →
    (∀ op ∈ ops, ∀ a ∈ op.targets, N ≤ a) → ∀ c, c < N → (applyOps H ops)[c]? = H[c]?
  | [], H, _, _, c, _ => rfl
  | op :: ops, H, hn, ht, c, hc => by
    have h1 : (applyOp H op)[c]? = H[c]? := by
      apply applyOp_frame
      rintro ⟨a, ha, hw⟩
      have haN := ht op (by simp) a ha
      rcases hw with rfl | ⟨n, r, i, x, hx⟩
      · omega
      · have := hn a n r i x c haN hx; omega
    have := applyOps_frame_new ops (applyOp H op) (applyOp_newClosed op hn)
      (fun o ho => ht o (by simp [ho])) c hc
    simp only [applyOps, List.foldl_cons] at this ⊢
    rw [this, h1]

/-- operations through atoms below `N` leave every cell at or above `N` unchanged -/
theorem applyOps_frame_old {N : Nat} : ∀ (ops : List Op) (H : Heap), OldClosed N H →
    (∀ op ∈ ops, ∀ a ∈ op.targets, a < N) → ∀ c, N ≤ c → (applyOps H ops)[c]? = H[c]?
  | [], H, _, _, c, _ => rfl
  | op :: ops, H, hn, ht, c, hc => by
    have h1 : (applyOp H op)[c]? = H[c]? := by
      apply applyOp_frame
      rintro ⟨a, ha, hw⟩
      have haN := ht op (by simp) a ha
      rcases hw with rfl | ⟨n, r, i, x, hx⟩
      · omega
      · have := hn a n r i x c haN hx; omega
    have := applyOps_frame_old ops (applyOp H op) (applyOp_oldClosed op hn)
      (fun o ho => ht o (by simp [ho])) c hc
    simp only [applyOps, List.foldl_cons] at this ⊢
    rw [this, h1]

/-- an atom's observable value depends only on its own cell and the set cell it refers to -/
theorem atomValue_congr {H H' : Heap} {a : Nat}
    (h : ∀ c, (c = a ∨ ∃ n r i x, H[a]? = some (.atom n r i x c)) → H'[c]? = H[c]?) :
    atomValue H' a = atomValue H a := by
  unfold atomValue
  rw [h a (Or.inl rfl)]
  cases ha : H[a]? with
  | none => rfl
  | some cell =>
    cases cell with
    | set e => rfl
    | atom n r i x b => simp only; rw [h b (Or.inr ⟨n, r, i, x, ha⟩)]

/-- the molecule's atoms are live `AtomTop` objects with live bond sets -/
def WFMol (H : Heap) (m : MolTop) : Prop :=
  ∀ a ∈ m.atoms, ∃ n r i x b e, H[a]? = some (.atom n r i x b) ∧ H[b]? = some (.set e)

theorem getElem?_lt_of_some {H : Heap} {a : Nat} {c : Cell} (h : H[a]? = some c) : a < H.length := by
  by_contra hlt; rw [List.getElem?_eq_none (by omega)] at h; simp at h

theorem atomCopy_spec {H H' : Heap} {a a' : Nat} (h : atomCopy H a = some (H', a')) :
    ∃ n r i x b e, H[a]? = some (.atom n r i x b) ∧ H[b]? = some (.set e) ∧
      H' = H ++ [.set e, .atom n r i x H.length] ∧ a' = H.length + 1 := by
  unfold atomCopy at h
  split at h
  · rename_i n r i x b hb
    split at h
    · rename_i e he
      simp only [Option.some.injEq, Prod.mk.injEq] at h
      exact ⟨n, r, i, x, b, e, hb, he, h.1.symm, h.2.symm⟩
    · simp at h
  · simp at h

theorem atomValue_some_iff {H : Heap} {a : Nat} {v : Str × Str × Int × Nat × List Nat} :
    atomValue H a = some v ↔
      ∃ b, H[a]? = some (.atom v.1 v.2.1 v.2.2.1 v.2.2.2.1 b) ∧ H[b]? = some (.set v.2.2.2.2) := by
  unfold atomValue
  constructor
  · intro h
    split at h
    · rename_i n r i x b hb
      split at h
      · rename_i e he
        simp only [Option.some.injEq] at h
        subst h
        exact ⟨b, hb, he⟩
      · simp at h
    · simp at h
  · rintro ⟨b, hb, he⟩
    rw [hb]; simp only; rw [he]

theorem atomValue_append {H : Heap} (ext : Heap) {a : Nat} {v : Str × Str × Int × Nat × List Nat}
    (h : atomValue H a = some v) : atomValue (H ++ ext) a = some v := by
  rw [atomValue_some_iff] at h ⊢
  obtain ⟨b, hb, he⟩ := h
  exact ⟨b, by rw [List.getElem?_append_left (getElem?_lt_of_some hb)]; exact hb,
    by rw [List.getElem?_append_left (getElem?_lt_of_some he)]; exact he⟩

theorem forall2_mem_right {α β : Type} {R : α → β → Prop} {l : List α} {r : List β}
    (h : List.Forall₂ R l r) : ∀ y ∈ r, ∃ x ∈ l, R x y := by
  induction h with
  | nil => intro y hy; simp at hy
  | cons hxy _ ih =>
    intro y hy
    rcases List.mem_cons.mp hy with e | e
    · subst e; exact ⟨_, by simp, hxy⟩
    · obtain ⟨x, hx, hr⟩ := ih y e
      exact ⟨x, by simp [hx], hr⟩

theorem forall2_map_eq {α β γ : Type} {f : β → γ} {g : α → γ} {l : List α} {r : List β}
    (h : List.Forall₂ (fun a b => f b = g a) l r) : r.map f = l.map g := by
  induction h with
  | nil => rfl
  | cons hxy _ ih => simp [hxy, ih]

theorem forall2_rebase {H H1 H2 : Heap} {as as2 : List Nat}
    (hf : List.Forall₂ (fun a a' => atomValue H2 a' = atomValue H1 a ∧ H1.length ≤ a') as as2)
    (hle : H.length ≤ H1.length)
    (hv : ∀ a ∈ as, ∃ v, atomValue H a = some v ∧ atomValue H1 a = some v) :
    List.Forall₂ (fun a a' => atomValue H2 a' = atomValue H a ∧ H.length ≤ a') as as2 := by
  induction hf with
  | nil => exact List.Forall₂.nil
  | @cons x y xs ys hxy _ ih =>
    refine List.Forall₂.cons ⟨?_, by omega⟩ (ih (fun z hz => hv z (by simp [hz])))
    obtain ⟨w, hw, hw1⟩ := hv x (by simp)
    rw [hxy.1, hw, hw1]

/-- `[atom.copy() for atom in self]`: succeeds on live atoms; the heap only grows; every new atom
    lives above the old heap, refers to a set above the old heap, and has its original's value -/
theorem atomsCopy_spec : ∀ (as : List Nat) (H : Heap), (∀ a ∈ as, ∃ v, atomValue H a = some v) →
    ∃ H' as', atomsCopy H as = some (H', as') ∧ (∃ ext, H' = H ++ ext) ∧
      List.Forall₂ (fun a a' => atomValue H' a' = atomValue H a ∧ H.length ≤ a') as as' ∧
      (∀ c n r i x b, H.length ≤ c → H'[c]? = some (.atom n r i x b) → H.length ≤ b)
  | [], H, _ => ⟨H, [], rfl, ⟨[], by simp⟩, List.Forall₂.nil, by
      intro c n r i x b hc h
      rw [List.getElem?_eq_none hc] at h; simp at h⟩
  | a :: as, H, hv => by
    obtain ⟨v, hva⟩ := hv a (by simp)
    obtain ⟨b, hb, he⟩ := atomValue_some_iff.mp hva
    set H1 : Heap := H ++ [.set v.2.2.2.2, .atom v.1 v.2.1 v.2.2.1 v.2.2.2.1 H.length] with hH1
    have hc : atomCopy H a = some (H1, H.length + 1) := by
      unfold atomCopy; rw [hb]; simp only; rw [he]
    have hv1 : ∀ a ∈ as, ∃ v, atomValue H1 a = some v := by
      intro x hx
      obtain ⟨w, hw⟩ := hv x (by simp [hx])
      exact ⟨w, atomValue_append _ hw⟩
    obtain ⟨H2, as2, h2, ⟨ext2, hext⟩, hf, hcl⟩ := atomsCopy_spec as H1 hv1
    have hlen1 : H1.length = H.length + 2 := by simp [hH1]
    refine ⟨H2, (H.length + 1) :: as2, ?_, ⟨_, by rw [hext, hH1, List.append_assoc]⟩, ?_, ?_⟩
    · simp only [atomsCopy, hc, h2]
    · refine List.Forall₂.cons ⟨?_, by omega⟩ ?_
      · rw [hva, hext]
        apply atomValue_append
        rw [atomValue_some_iff]
        refine ⟨H.length, ?_, ?_⟩
        · rw [hH1, List.getElem?_append_right (by omega)]; simp
        · rw [hH1, List.getElem?_append_right (by omega)]; simp
      · exact forall2_rebase hf (by omega) (fun x hx => by
          obtain ⟨w, hw⟩ := hv x (by simp [hx])
          exact ⟨w, hw, atomValue_append _ hw⟩)
    · intro c n r i x b' hcN hcell
      by_cases hc1 : H1.length ≤ c
      · have := hcl c n r i x b' hc1 hcell; omega
      · have hc1' : c < H1.length := by omega
        rw [hext, List.getElem?_append_left hc1', hH1, List.getElem?_append_right hcN] at hcell
        have : c - H.length = 0 ∨ c - H.length = 1 := by omega
        rcases this with e | e
        · rw [e] at hcell; simp at hcell
        · rw [e] at hcell; simp at hcell; omega

end Graph

/-! ### what `ItpParser` extracts (`topFrom`) -/
namespace Itp

theorem mapM_ok_iff {α β : Type} {f : α → Except PyErr β} : ∀ {l : List α} {r : List β},
    l.mapM f = .ok r ↔ List.Forall₂ (fun a b => f a = .ok b) l r
  | [], r => by
    simp only [List.mapM_nil, pure, Except.pure, Except.ok.injEq]
    constructor
    · intro h; subst h; exact List.Forall₂.nil
    · intro h; cases h; rfl
  | a :: l, r => by
    rw [List.mapM_cons]
    cases hfa : f a with
    | error e =>
      simp only [bind, Except.bind]
      constructor
      · intro h; simp at h
      · intro h; cases h with
        | cons h1 _ => rw [hfa] at h1; simp at h1
    | ok b =>
      cases hl : l.mapM f with
      | error e =>
        simp only [bind, Except.bind]
        constructor
        · intro h; simp at h
        · intro h; cases h with
          | cons h1 h2 =>
            have := (mapM_ok_iff (f := f)).mpr h2
            rw [hl] at this; simp at this
      | ok bs =>
        simp only [bind, Except.bind, pure, Except.pure, Except.ok.injEq]
        have ih := (mapM_ok_iff (f := f) (l := l) (r := bs)).mp hl
        constructor
        · intro h; subst h; exact List.Forall₂.cons hfa ih
        · intro h; cases h with
          | cons h1 h2 =>
            rw [hfa] at h1
            simp only [Except.ok.injEq] at h1
            subst h1
            have := (mapM_ok_iff (f := f)).mpr h2
            rw [hl] at this
            simp only [Except.ok.injEq] at this
            subst this; rfl

theorem mem_enumFrom {α : Type} : ∀ {l : List α} {k i : Nat} {a : α},
    (i, a) ∈ enumFrom k l ↔ k ≤ i ∧ l[i - k]? = some a
  | [], k, i, a => by simp [enumFrom]
  | x :: l, k, i, a => by
    simp only [enumFrom, List.mem_cons, Prod.mk.injEq]
    rw [mem_enumFrom]
    constructor
    · rintro (⟨rfl, rfl⟩ | ⟨h1, h2⟩)
      · simp
      · refine ⟨by omega, ?_⟩
        have : i - k = (i - (k + 1)) + 1 := by omega
        rw [this, List.getElem?_cons_succ]; exact h2
    · rintro ⟨h1, h2⟩
      by_cases hik : i = k
      · left; subst hik; simp at h2; exact ⟨rfl, h2.symm⟩
      · right
        refine ⟨by omega, ?_⟩
        have : i - k = (i - (k + 1)) + 1 := by omega
        rw [this, List.getElem?_cons_succ] at h2; exact h2

theorem mem_numberMap {fields : List (Int × AtomInfo)} {a : Int} {i : Nat} :
    (a, i) ∈ numberMap fields ↔ ∃ info, fields[i]? = some (a, info) := by
  unfold numberMap
  rw [List.mem_map]
  constructor
  · rintro ⟨⟨j, nr, info⟩, hm, he⟩
    simp only [Prod.mk.injEq] at he
    obtain ⟨rfl, rfl⟩ := he
    rw [mem_enumFrom] at hm
    exact ⟨info, by simpa using hm.2⟩
  · rintro ⟨info, h⟩
    exact ⟨(i, a, info), by rw [mem_enumFrom]; simpa using h, rfl⟩

/-- NUMBER → POSITION: the dictionary maps a file atom number to the position of the LAST atom
    line carrying that number (unique when numbers are distinct), always a valid position -/
theorem numberLookup_spec {fields : List (Int × AtomInfo)} {a : Int} {i : Nat}
    (h : numberLookup (numberMap fields) a = some i) :
    i < fields.length ∧ (∃ info, fields[i]? = some (a, info)) ∧
    ∀ j, i < j → ∀ info, fields[j]? ≠ some (a, info) := by
  unfold numberLookup at h
  rw [Option.map_eq_some_iff] at h
  obtain ⟨⟨a', i'⟩, hf, hi⟩ := h
  simp only at hi; subst hi
  have ha : a' = a := by simpa using List.find?_some hf
  subst ha
  have hmem : (a', i') ∈ numberMap fields := List.mem_reverse.mp (List.mem_of_find?_eq_some hf)
  obtain ⟨info, hinfo⟩ := mem_numberMap.mp hmem
  refine ⟨?_, ⟨info, hinfo⟩, ?_⟩
  · by_contra hlt
    rw [List.getElem?_eq_none (by omega)] at hinfo; simp at hinfo
  · -- a later entry with the same number would have been found first in the reversed list
    intro j hj info' hj'
    rw [List.find?_eq_some_iff_append] at hf
    obtain ⟨_, as, bs, hsplit, hnot⟩ := hf
    have hmemj : (a', j) ∈ numberMap fields := mem_numberMap.mpr ⟨info', hj'⟩
    -- positions in numberMap are increasing: entry k has index k
    have hidx : ∀ k : Nat, (numberMap fields)[k]? = (fields[k]?).map (fun (p : Int × AtomInfo) => (p.1, k)) := by
      intro k
      unfold numberMap
      have hen : ∀ (l : List (Int × AtomInfo)) (b k : Nat),
          (enumFrom b l)[k]? = (l[k]?).map (fun p => (b + k, p)) := by
        intro l
        induction l with
        | nil => intro b k; simp [enumFrom]
        | cons x l ih =>
          intro b k
          cases k with
          | zero => simp [enumFrom]
          | succ k =>
            simp only [enumFrom, List.getElem?_cons_succ, ih]
            cases l[k]? <;> simp; omega
      rw [List.getElem?_map, hen]
      cases fields[k]? <;> simp
    have hrev : (numberMap fields) = bs.reverse ++ (a', i') :: as.reverse := by
      have := congrArg List.reverse hsplit
      simpa using this
    -- (a', i') sits at index bs.length of numberMap, hence i' = bs.length
    have hi' : i' = bs.length := by
      have h1 := hidx bs.length
      have hlen : bs.reverse.length = bs.length := List.length_reverse
      rw [hrev, List.getElem?_append_right (by rw [hlen]), hlen, Nat.sub_self,
        List.getElem?_cons_zero] at h1
      cases hfb : fields[bs.length]? with
      | none => rw [hfb] at h1; simp at h1
      | some p => rw [hfb] at h1; simp at h1; exact h1.2
    -- (a', j) with j > i' lies in `as.reverse`, i.e. in `as`, where the key must differ
    have h2 := hidx j
    rw [hj'] at h2
    simp only [Option.map_some] at h2
    have hlen : bs.reverse.length = bs.length := List.length_reverse
    rw [hrev, List.getElem?_append_right (by rw [hlen]; omega)] at h2
    have hjpos : j - bs.reverse.length = (j - bs.length - 1) + 1 := by rw [hlen]; omega
    rw [hjpos, List.getElem?_cons_succ] at h2
    have : (a', j) ∈ as := List.mem_reverse.mp (List.mem_of_getElem? h2)
    have := hnot _ this
    simp at this

theorem sectionBonds_spec {lk : Lookup} {k : Str} {l : List (Int × Int)}
    (h : sectionBonds lk k = .ok l) :
    (lk k = none ∧ l = []) ∨
    ∃ ps, lk k = some ps ∧ List.Forall₂ (fun p x => bondFields p = some x) ps l := by
  unfold sectionBonds at h
  cases hk : lk k with
  | none => rw [hk] at h; simp only [Except.ok.injEq] at h; exact Or.inl ⟨rfl, h.symm⟩
  | some ps =>
    rw [hk] at h
    simp only at h
    right
    refine ⟨ps, rfl, ?_⟩
    refine List.Forall₂.imp ?_ (mapM_ok_iff.mp h)
    intro p x hpx
    unfold bondFieldsE at hpx
    cases hb : bondFields p with
    | none => rw [hb] at hpx; simp at hpx
    | some y => rw [hb] at hpx; simp only [Except.ok.injEq] at hpx; rw [hpx]

theorem parseItpBonds_spec {lk : Lookup} {listed : List (Int × Int)}
    (h : parseItpBonds lk = .ok listed) :
    ∃ l1 l2 l3, sectionBonds lk ['c', 'o', 'n', 's', 't', 'r', 'a', 'i', 'n', 't', 's'] = .ok l1 ∧
      sectionBonds lk ['b', 'o', 'n', 'd', 's'] = .ok l2 ∧
      sectionBonds lk ['p', 'a', 'i', 'r', 's'] = .ok l3 ∧ listed = l1 ++ l2 ++ l3 := by
  unfold parseItpBonds at h
  cases hm : bondKeys.mapM (sectionBonds lk) with
  | error e => rw [hm] at h; simp at h
  | ok ls =>
    rw [hm] at h
    simp only [Except.ok.injEq] at h
    have := mapM_ok_iff.mp hm
    unfold bondKeys at this
    cases this with
    | cons h1 t1 =>
      cases t1 with
      | cons h2 t2 =>
        cases t2 with
        | cons h3 t3 =>
          cases t3
          exact ⟨_, _, _, h1, h2, h3, by rw [← h]; simp⟩

/-- WHAT THE READER EXTRACTS. If `ItpParser` succeeds with `(name, atoms, bonds)`:
    * `name` is the first token of the first content line of `moleculetype`;
    * `atoms` are the content lines of `atoms` in file order, each giving
      `(token 4, token 3, int(token 2))` and the file number `int(token 0)`; at least one;
    * `bonds` are, in this order, the content lines of `constraints`, `bonds`, `pairs`, each
      `(int(token 0), int(token 1))` translated through the number → position dictionary. -/
theorem topFrom_spec {lk : Lookup} {T : TopInfo} (h : topFrom lk = .ok T) :
    (∃ p rest, lk kMoleculetype = some (p :: rest) ∧ p[0]? = some T.name) ∧
    ∃ ps fields listed,
      lk kAtoms = some ps ∧
      List.Forall₂ (fun p x => atomFields p = some x) ps fields ∧
      T.atoms = fields.map (·.2) ∧ fields ≠ [] ∧
      parseItpBonds lk = .ok listed ∧
      List.Forall₂ (fun (ab : Int × Int) (ij : Nat × Nat) =>
        numberLookup (numberMap fields) ab.1 = some ij.1 ∧
        numberLookup (numberMap fields) ab.2 = some ij.2) listed T.bonds := by
  unfold topFrom at h
  split_ifs at h with h1 h2
  cases hname : itpTopName lk with
  | error e => rw [hname] at h; simp at h
  | ok name =>
    rw [hname] at h
    simp only at h
    cases hatoms : itpTopAtoms lk with
    | error e => rw [hatoms] at h; simp at h
    | ok ab =>
      obtain ⟨atoms, bonds⟩ := ab
      rw [hatoms] at h
      simp only [Except.ok.injEq] at h
      subst h
      constructor
      · unfold itpTopName at hname
        cases hmt : lk kMoleculetype with
        | none => rw [hmt] at hname; simp at hname
        | some mt =>
          rw [hmt] at hname
          cases mt with
          | nil => simp at hname
          | cons p rest =>
            simp only at hname
            cases hp : p[0]? with
            | none => rw [hp] at hname; simp at hname
            | some n =>
              rw [hp] at hname
              simp only [Except.ok.injEq] at hname
              exact ⟨p, rest, rfl, by rw [hp, hname]⟩
      · unfold itpTopAtoms at hatoms
        cases hat : lk kAtoms with
        | none => rw [hat] at hatoms; simp at hatoms
        | some ps =>
          rw [hat] at hatoms
          simp only at hatoms
          cases hf : ps.mapM atomFieldsE with
          | error e => rw [hf] at hatoms; simp at hatoms
          | ok fields =>
            rw [hf] at hatoms
            simp only at hatoms
            split_ifs at hatoms with hemp
            cases hlisted : parseItpBonds lk with
            | error e => rw [hlisted] at hatoms; simp at hatoms
            | ok listed =>
              rw [hlisted] at hatoms
              simp only at hatoms
              cases hb : listed.mapM (translate (numberMap fields)) with
              | error e => rw [hb] at hatoms; simp at hatoms
              | ok bs =>
                rw [hb] at hatoms
                simp only [Except.ok.injEq, Prod.mk.injEq] at hatoms
                obtain ⟨ha, hbb⟩ := hatoms
                subst ha hbb
                refine ⟨ps, fields, listed, rfl, ?_, rfl, ?_, rfl, ?_⟩
                · refine List.Forall₂.imp ?_ (mapM_ok_iff.mp hf)
                  intro p x hpx
                  unfold atomFieldsE at hpx
                  cases ha : atomFields p with
                  | none => rw [ha] at hpx; simp at hpx
                  | some y => rw [ha] at hpx; simp only [Except.ok.injEq] at hpx; rw [hpx]
                · intro e; apply hemp; rw [e]; rfl
                · refine List.Forall₂.imp ?_ (mapM_ok_iff.mp hb)
                  intro ab ij hij
                  unfold translate at hij
                  cases h1 : numberLookup (numberMap fields) ab.1 with
                  | none => rw [h1] at hij; simp at hij
                  | some i =>
                    cases h2 : numberLookup (numberMap fields) ab.2 with
                    | none => rw [h1, h2] at hij; simp at hij
                    | some j =>
                      rw [h1, h2] at hij
                      simp only [Except.ok.injEq] at hij
                      rw [← hij]; exact ⟨rfl, rfl⟩

/-- every translated bond position is an atom position -/
theorem topFrom_bonds_valid {lk : Lookup} {T : TopInfo} (h : topFrom lk = .ok T) :
    ∀ b ∈ T.bonds, b.1 < T.atoms.length ∧ b.2 < T.atoms.length := by
  obtain ⟨_, ps, fields, listed, _, _, hat, _, _, hb⟩ := topFrom_spec h
  intro b hb'
  have hlen : T.atoms.length = fields.length := by rw [hat]; simp
  rw [hlen]
  have key : ∀ (l : List (Int × Int)) (r : List (Nat × Nat)),
      List.Forall₂ (fun (ab : Int × Int) (ij : Nat × Nat) =>
        numberLookup (numberMap fields) ab.1 = some ij.1 ∧
        numberLookup (numberMap fields) ab.2 = some ij.2) l r →
      b ∈ r → ∃ ab ∈ l, numberLookup (numberMap fields) ab.1 = some b.1 ∧
        numberLookup (numberMap fields) ab.2 = some b.2 := by
    intro l r hf
    induction hf with
    | nil => intro hm; simp at hm
    | cons hab _ ih =>
      intro hm
      rcases List.mem_cons.mp hm with e | e
      · subst e; exact ⟨_, by simp, hab⟩
      · obtain ⟨ab, hm', hh⟩ := ih e
        exact ⟨ab, by simp [hm'], hh⟩
  obtain ⟨ab, _, h1, h2⟩ := key _ _ hb hb'
  exact ⟨(numberLookup_spec h1).1, (numberLookup_spec h2).1⟩

end Itp
