import GMModel.Routing
/-
  GMProofs.Lemmas.RestrL — specification-side definitions and helper lemmas for C10
  (restraint plumbing of `_alignment.py`, option routing of `_manager.py`).
  Core Lean only (lists, `omega`); no Mathlib needed.
-/

namespace Restr

variable {P : Type}

/-! ## A. `remove_hydrogens` -/

/-- the atom is a hydrogen for the filter: its element (first alphabetic run of the name) is `"H"` -/
def Atom.isH (a : Atom P) : Bool := elementRun a.name == ['H']

/-- the atom name contains a letter, i.e. `AtomGro.element` does not raise -/
def Atom.Named (a : Atom P) : Prop := elementRun a.name ≠ []

/-- positions of the non-hydrogen atoms, in atom order -/
def keptPositions (atoms : List (Atom P)) : List P :=
  (atoms.filter fun a => !a.isH).map (·.pos)

/-- rank of atom `i` among the non-hydrogen atoms = number of non-hydrogen atoms before it -/
def rank (atoms : List (Atom P)) (i : Nat) : Nat :=
  ((atoms.take i).filter fun a => !a.isH).length

/-- what the property demands of one restraint `(f, m)` (fixed index, mobile index) under hydrogen
    filtering: dropped when the fixed index is not a kept atom, else re-indexed to the atom's rank -/
def keepPair (atoms : List (Atom P)) : Pair → Option Pair
  | (f, m) =>
    if f < 0 then none
    else match atoms[f.toNat]? with
      | some a => if a.isH then none else some ((rank atoms f.toNat : Nat), m)
      | none => none

/-- `index_1map` as a recursive specification -/
def mapSpec : List (Atom P) → Nat → Nat → List (Nat × Nat)
  | [], _, _ => []
  | a :: rest, idx, base =>
    if a.isH then mapSpec rest (idx + 1) base else (idx, base) :: mapSpec rest (idx + 1) (base + 1)

theorem element_of_named {a : Atom P} (h : a.Named) : element a.name = .ok (elementRun a.name) := by
  unfold element
  unfold Atom.Named at h
  split
  · next heq => exact absurd heq h
  · rfl

theorem element_of_not_named {a : Atom P} (h : ¬ a.Named) : element a.name = .error .ioError := by
  unfold element
  unfold Atom.Named at h
  have : elementRun a.name = [] := by
    by_cases h' : elementRun a.name = []
    · exact h'
    · exact absurd h' h
  rw [this]

theorem rank_zero (atoms : List (Atom P)) : rank atoms 0 = 0 := by simp [rank]

theorem rank_cons_succ (a : Atom P) (rest : List (Atom P)) (k : Nat) :
    rank (a :: rest) (k + 1) = (if a.isH then 0 else 1) + rank rest k := by
  unfold rank
  rw [List.take_succ_cons, List.filter_cons]
  by_cases h : a.isH <;> simp [h] <;> omega

/-- the loop computes exactly the specification, when every atom name has a letter -/
theorem removeHLoop_ok (atoms : List (Atom P)) (idx : Nat) (st : HState P)
    (hn : ∀ a ∈ atoms, a.Named) :
    removeHLoop atoms idx st =
      .ok ⟨st.positions ++ keptPositions atoms, st.map ++ mapSpec atoms idx st.positions.length⟩ := by
  induction atoms generalizing idx st with
  | nil => simp [removeHLoop, keptPositions, mapSpec]
  | cons a rest ih =>
    have ha : a.Named := hn a (by simp)
    have hr : ∀ b ∈ rest, b.Named := fun b hb => hn b (by simp [hb])
    unfold removeHLoop
    rw [element_of_named ha]
    by_cases hH : a.isH
    · have : elementRun a.name = ['H'] := by simpa [Atom.isH] using hH
      simp only [this, ne_eq, not_true_eq_false, ↓reduceIte]
      rw [ih _ _ hr]
      simp [keptPositions, mapSpec, hH]
    · have : elementRun a.name ≠ ['H'] := by simpa [Atom.isH] using hH
      simp only [ne_eq, this, not_false_eq_true, ↓reduceIte]
      rw [ih _ _ hr]
      simp [keptPositions, mapSpec, hH]

/-- an atom whose name has no letter makes the loop raise `IOError` -/
theorem removeHLoop_err (atoms : List (Atom P)) (idx : Nat) (st : HState P)
    (hn : ∃ a ∈ atoms, ¬ a.Named) : removeHLoop atoms idx st = .error .ioError := by
  induction atoms generalizing idx st with
  | nil => simp at hn
  | cons a rest ih =>
    unfold removeHLoop
    by_cases ha : a.Named
    · rw [element_of_named ha]
      have hr : ∃ b ∈ rest, ¬ b.Named := by
        obtain ⟨b, hb, hnb⟩ := hn
        rcases List.mem_cons.mp hb with rfl | hb'
        · exact absurd ha hnb
        · exact ⟨b, hb', hnb⟩
      simp only []
      split <;> exact ih _ _ hr
    · rw [element_of_not_named ha]

theorem lookup_mapSpec (atoms : List (Atom P)) (idx base i : Nat) :
    (mapSpec atoms idx base).lookup i =
      if i < idx then none
      else match atoms[i - idx]? with
        | some a => if a.isH then none else some (base + rank atoms (i - idx))
        | none => none := by
  induction atoms generalizing idx base with
  | nil => simp [mapSpec]
  | cons a rest ih =>
    unfold mapSpec
    by_cases hlt : i < idx
    · have h1 : i < idx + 1 := by omega
      have h2 : (i == idx) = false := by simp; omega
      by_cases hH : a.isH
      · simp [hH, ih, hlt, h1]
      · simp [hH, List.lookup_cons, h2, ih, hlt, h1]
    · by_cases heq : i = idx
      · subst heq
        by_cases hH : a.isH
        · simp [hH, ih]
        · simp [hH, rank_zero]
      · have hk : i - idx = (i - (idx + 1)) + 1 := by omega
        have h1 : ¬ i < idx + 1 := by omega
        have h2 : (i == idx) = false := by simp; omega
        rw [hk, List.getElem?_cons_succ, rank_cons_succ]
        by_cases hH : a.isH
        · simp only [hH, ↓reduceIte, ih, h1, hlt]
          cases rest[i - (idx + 1)]? with
          | none => rfl
          | some b => by_cases hb : b.isH <;> simp [hb]
        · simp only [hH, List.lookup_cons, h2, ih, h1, hlt, Bool.false_eq_true, ↓reduceIte]
          cases rest[i - (idx + 1)]? with
          | none => rfl
          | some b => by_cases hb : b.isH <;> simp [hb] <;> omega

theorem keepPair_snd {atoms : List (Atom P)} {f m : Int} {q : Pair}
    (h : keepPair atoms (f, m) = some q) : q.2 = m := by
  simp only [keepPair] at h
  by_cases hf : f < 0
  · simp [hf] at h
  · simp only [hf, ↓reduceIte] at h
    cases ha : atoms[f.toNat]? with
    | none => simp [ha] at h
    | some a =>
      by_cases hH : a.isH
      · simp [ha, hH] at h
      · simp only [ha, hH, Bool.false_eq_true, ↓reduceIte, Option.some.injEq] at h
        rw [← h]

theorem remapRestr_mapSpec (atoms : List (Atom P)) (restr : List Pair) :
    remapRestr (mapSpec atoms 0 0) restr = restr.filterMap (keepPair atoms) := by
  unfold remapRestr
  congr 1
  funext p
  obtain ⟨f, m⟩ := p
  simp only [mapLookup, keepPair, lookup_mapSpec]
  by_cases hf : f < 0
  · simp [hf]
  · simp only [hf, ↓reduceIte, Nat.not_lt_zero, Nat.sub_zero, Nat.zero_add]
    cases atoms[f.toNat]? with
    | none => rfl
    | some a => by_cases ha : a.isH <;> simp [ha]

/-- `remove_hydrogens` meets its specification -/
theorem removeHydrogens_ok (m : Mol P) (restr : List Pair) (hn : ∀ a ∈ m.atoms, a.Named) :
    removeHydrogens m restr = .ok (keptPositions m.atoms, restr.filterMap (keepPair m.atoms)) := by
  unfold removeHydrogens
  rw [removeHLoop_ok _ _ _ hn]
  simp [remapRestr_mapSpec]

theorem removeHydrogens_err (m : Mol P) (restr : List Pair) (hn : ∃ a ∈ m.atoms, ¬ a.Named) :
    removeHydrogens m restr = .error .ioError := by
  unfold removeHydrogens
  rw [removeHLoop_err _ _ _ hn]

/-- the rank of a kept atom is where its position sits in the filtered position array -/
theorem keptPositions_rank (atoms : List (Atom P)) (i : Nat) (a : Atom P)
    (hi : atoms[i]? = some a) (ha : a.isH = false) :
    (keptPositions atoms)[rank atoms i]? = some a.pos := by
  induction atoms generalizing i with
  | nil => simp at hi
  | cons b rest ih =>
    cases i with
    | zero =>
      simp at hi
      subst hi
      simp [keptPositions, rank, ha]
    | succ k =>
      rw [List.getElem?_cons_succ] at hi
      rw [rank_cons_succ]
      have := ih k hi
      by_cases hb : b.isH
      · simpa [keptPositions, hb] using this
      · simp only [keptPositions, hb, Bool.false_eq_true, ↓reduceIte] at this ⊢
        rw [List.filter_cons]
        simp only [hb, Bool.not_false, ↓reduceIte, List.map_cons]
        rw [Nat.add_comm, List.getElem?_cons_succ]
        exact this

theorem rank_lt_kept (atoms : List (Atom P)) (i : Nat) (a : Atom P)
    (hi : atoms[i]? = some a) (ha : a.isH = false) : rank atoms i < (keptPositions atoms).length := by
  have := keptPositions_rank atoms i a hi ha
  exact (List.getElem?_eq_some_iff.mp this).1

/-! ## B. `_split_list` -/

/-- the slice boundary `i*length // parts` -/
def bnd (len parts i : Nat) : Nat := i * len / parts

theorem bnd_zero (len parts : Nat) : bnd len parts 0 = 0 := by simp [bnd]

theorem bnd_self {parts : Nat} (len : Nat) (h : 0 < parts) : bnd len parts parts = len := by
  simp [bnd, Nat.mul_div_cancel_left _ h]

theorem bnd_mono (len parts : Nat) {i j : Nat} (h : i ≤ j) : bnd len parts i ≤ bnd len parts j :=
  Nat.div_le_div_right (Nat.mul_le_mul_right _ h)

theorem bnd_le {parts i : Nat} (len : Nat) (h : 0 < parts) (hi : i ≤ parts) : bnd len parts i ≤ len := by
  have := bnd_mono len parts hi
  rwa [bnd_self len h] at this

/-- with at most `len` parts every group is non-empty: consecutive boundaries differ -/
theorem bnd_strict {len parts : Nat} (i : Nat) (h : 0 < parts) (hle : parts ≤ len) :
    bnd len parts i < bnd len parts (i + 1) := by
  unfold bnd
  have h1 : (i * len + parts) / parts = i * len / parts + 1 := Nat.add_div_right _ h
  have h2 : (i * len + parts) / parts ≤ ((i + 1) * len) / parts := by
    apply Nat.div_le_div_right
    rw [Nat.add_mul]; omega
  omega

/-- when there are exactly `len` parts, boundary `i` is `i`: every group is a singleton -/
theorem bnd_eq_self {len : Nat} (i : Nat) (h : 0 < len) : bnd len len i = i := by
  unfold bnd
  exact Nat.mul_div_cancel _ h

theorem splitList_length {α : Type} (l : List α) (parts : Nat) : (splitList l parts).length = parts := by
  simp [splitList]

theorem splitList_getElem {α : Type} (l : List α) (parts i : Nat) (hi : i < parts) :
    (splitList l parts)[i]'(by simpa [splitList] using hi) =
      (l.drop (bnd l.length parts i)).take (bnd l.length parts (i + 1) - bnd l.length parts i) := by
  simp [splitList, bnd]

theorem splitList_prefix {α : Type} (l : List α) (parts k : Nat) :
    ((List.range k).map fun i =>
        (l.drop (bnd l.length parts i)).take (bnd l.length parts (i + 1) - bnd l.length parts i)).flatten
      = l.take (bnd l.length parts k) := by
  induction k with
  | zero => simp [bnd]
  | succ k ih =>
    rw [List.range_succ, List.map_append, List.flatten_append, ih]
    have hm := bnd_mono l.length parts (Nat.le_add_right k 1)
    have : bnd l.length parts (k + 1) =
        bnd l.length parts k + (bnd l.length parts (k + 1) - bnd l.length parts k) := by omega
    conv => rhs; rw [this, List.take_add]
    simp

/-- the groups concatenate to the list -/
theorem splitList_flatten {α : Type} (l : List α) (parts : Nat) (h : 0 < parts) :
    (splitList l parts).flatten = l := by
  have := splitList_prefix l parts parts
  unfold splitList
  simp only [bnd] at this ⊢
  rw [this, Nat.mul_div_cancel_left _ h]
  simp

theorem splitList_group_length {α : Type} (l : List α) (parts i : Nat) (h : 0 < parts) (hi : i < parts) :
    ((l.drop (bnd l.length parts i)).take
      (bnd l.length parts (i + 1) - bnd l.length parts i)).length
      = bnd l.length parts (i + 1) - bnd l.length parts i := by
  have := bnd_le l.length h (show i + 1 ≤ parts by omega)
  simp only [List.length_take, List.length_drop]
  omega

theorem take_range' (s n k : Nat) (h : k ≤ n) : (List.range' s n).take k = List.range' s k := by
  induction k generalizing s n with
  | zero => simp
  | succ k ih =>
    cases n with
    | zero => omega
    | succ n =>
      rw [List.range'_succ, List.take_succ_cons, ih (s + 1) n (by omega), ← List.range'_succ]

/-- a slice of `range len` is a `range'` -/
theorem range_slice (len a b : Nat) (hb : b ≤ len) :
    ((List.range len).drop a).take (b - a) = List.range' a (b - a) := by
  rw [List.range_eq_range', List.drop_range']
  simp only [Nat.zero_add, Nat.mul_one]
  exact take_range' _ _ _ (by omega)

/-! ## C. `guess_residue_restrains` -/

/-- group `g` of `range len` split into `n` parts -/
def grp (len n g : Nat) : List Nat := List.range' (bnd len n g) (bnd len n (g + 1) - bnd len n g)

theorem mem_grp {len n g x : Nat} : x ∈ grp len n g ↔ bnd len n g ≤ x ∧ x < bnd len n (g + 1) := by
  have := bnd_mono len n (Nat.le_add_right g 1)
  simp only [grp, List.mem_range'_1]
  omega

theorem splitList_range (len n : Nat) :
    splitList (List.range len) n = (List.range n).map (grp len n) := by
  unfold splitList
  apply List.map_congr_left
  intro g hg
  have hg' : g < n := List.mem_range.mp hg
  have hn : 0 < n := by omega
  simp only [List.length_range]
  exact range_slice len _ _ (bnd_le len hn (by omega))

theorem guessResidueLen_eq (l1 l2 o1 o2 : Nat) :
    guessResidueLen l1 l2 o1 o2 =
      (List.range (min l1 l2)).flatMap fun g =>
        (grp l1 (min l1 l2) g).flatMap fun i =>
          (grp l2 (min l1 l2) g).map fun j => (((i + o1 : Nat) : Int), ((j + o2 : Nat) : Int)) := by
  unfold guessResidueLen
  simp only [splitList_range, List.zip_map', List.flatMap_map]

theorem mem_guessResidueLen {l1 l2 o1 o2 : Nat} {x y : Int} :
    (x, y) ∈ guessResidueLen l1 l2 o1 o2 ↔
      ∃ g i j, g < min l1 l2 ∧
        bnd l1 (min l1 l2) g ≤ i ∧ i < bnd l1 (min l1 l2) (g + 1) ∧
        bnd l2 (min l1 l2) g ≤ j ∧ j < bnd l2 (min l1 l2) (g + 1) ∧
        x = ((i + o1 : Nat) : Int) ∧ y = ((j + o2 : Nat) : Int) := by
  rw [guessResidueLen_eq]
  simp only [List.mem_flatMap, List.mem_map, List.mem_range, mem_grp, Prod.mk.injEq]
  constructor
  · rintro ⟨g, hg, i, ⟨hi1, hi2⟩, j, ⟨hj1, hj2⟩, hx, hy⟩
    exact ⟨g, i, j, hg, hi1, hi2, hj1, hj2, hx.symm, hy.symm⟩
  · rintro ⟨g, i, j, hg, hi1, hi2, hj1, hj2, hx, hy⟩
    exact ⟨g, hg, i, ⟨hi1, hi2⟩, j, ⟨hj1, hj2⟩, hx.symm, hy.symm⟩

/-- an index below `len` lies in exactly one group; here: in some group -/
theorem exists_grp {len n x : Nat} (hn : 0 < n) (hx : x < len) :
    ∃ g, g < n ∧ bnd len n g ≤ x ∧ x < bnd len n (g + 1) := by
  -- x ∈ range len = flatten of the groups
  have hflat := splitList_flatten (List.range len) n hn
  rw [splitList_range] at hflat
  have hmem : x ∈ ((List.range n).map (grp len n)).flatten := by
    rw [hflat]; exact List.mem_range.mpr hx
  rw [List.mem_flatten] at hmem
  obtain ⟨l, hl, hxl⟩ := hmem
  rw [List.mem_map] at hl
  obtain ⟨g, hg, rfl⟩ := hl
  exact ⟨g, List.mem_range.mp hg, (mem_grp.mp hxl).1, (mem_grp.mp hxl).2⟩

/-- group indices are monotone in the atom index -/
theorem grp_index_mono {len n g g' x x' : Nat}
    (h1 : bnd len n g ≤ x) (h2 : x' < bnd len n (g' + 1)) (hxx : x ≤ x') : g ≤ g' := by
  by_cases h : g ≤ g'
  · exact h
  · have : g' + 1 ≤ g := by omega
    have := bnd_mono len n this
    omega

/-- lexicographic order on restraint pairs -/
def lexLt (p q : Pair) : Prop := p.1 < q.1 ∨ (p.1 = q.1 ∧ p.2 < q.2)

theorem guessResidueLen_cover_left {l1 l2 : Nat} (o1 o2 : Nat) (h1 : 0 < l1) (h2 : 0 < l2)
    {i : Nat} (hi : i < l1) : ∃ y, (((i + o1 : Nat) : Int), y) ∈ guessResidueLen l1 l2 o1 o2 := by
  have hn : 0 < min l1 l2 := by omega
  obtain ⟨g, hg, hg1, hg2⟩ := exists_grp hn hi
  have hs := bnd_strict (len := l2) g hn (Nat.min_le_right l1 l2)
  exact ⟨_, mem_guessResidueLen.mpr ⟨g, i, bnd l2 (min l1 l2) g, hg, hg1, hg2, Nat.le_refl _, hs, rfl, rfl⟩⟩

theorem guessResidueLen_cover_right {l1 l2 : Nat} (o1 o2 : Nat) (h1 : 0 < l1) (h2 : 0 < l2)
    {j : Nat} (hj : j < l2) : ∃ x, (x, ((j + o2 : Nat) : Int)) ∈ guessResidueLen l1 l2 o1 o2 := by
  have hn : 0 < min l1 l2 := by omega
  obtain ⟨g, hg, hg1, hg2⟩ := exists_grp hn hj
  have hs := bnd_strict (len := l1) g hn (Nat.min_le_left l1 l2)
  exact ⟨_, mem_guessResidueLen.mpr ⟨g, bnd l1 (min l1 l2) g, j, hg, Nat.le_refl _, hs, hg1, hg2, rfl, rfl⟩⟩

theorem guessResidueLen_range {l1 l2 o1 o2 : Nat} {x y : Int}
    (h : (x, y) ∈ guessResidueLen l1 l2 o1 o2) :
    (o1 : Int) ≤ x ∧ x < ((o1 + l1 : Nat) : Int) ∧ (o2 : Int) ≤ y ∧ y < ((o2 + l2 : Nat) : Int) := by
  obtain ⟨g, i, j, hg, hi1, hi2, hj1, hj2, rfl, rfl⟩ := mem_guessResidueLen.mp h
  have hn : 0 < min l1 l2 := by omega
  have b1 := bnd_le l1 hn (show g + 1 ≤ min l1 l2 by omega)
  have b2 := bnd_le l2 hn (show g + 1 ≤ min l1 l2 by omega)
  refine ⟨?_, ?_, ?_, ?_⟩ <;> omega

theorem guessResidueLen_sorted (l1 l2 o1 o2 : Nat) :
    (guessResidueLen l1 l2 o1 o2).Pairwise lexLt := by
  rw [guessResidueLen_eq]
  rw [List.pairwise_flatMap]
  constructor
  · intro g _
    rw [List.pairwise_flatMap]
    constructor
    · intro i _
      rw [List.pairwise_map]
      exact (List.pairwise_lt_range' (s := bnd l2 (min l1 l2) g)
        (n := bnd l2 (min l1 l2) (g + 1) - bnd l2 (min l1 l2) g)).imp
        (fun {a b} hab => Or.inr ⟨rfl, by simp only []; omega⟩)
    · exact (List.pairwise_lt_range' (s := bnd l1 (min l1 l2) g)
        (n := bnd l1 (min l1 l2) (g + 1) - bnd l1 (min l1 l2) g)).imp
        (fun {a b} hab x hx y hy => by
          obtain ⟨_, _, rfl⟩ := List.mem_map.mp hx
          obtain ⟨_, _, rfl⟩ := List.mem_map.mp hy
          exact Or.inl (by simp only []; omega))
  · exact (List.pairwise_lt_range (n := min l1 l2)).imp
      (fun {g g'} hgg x hx y hy => by
        obtain ⟨i, hi, hx⟩ := List.mem_flatMap.mp hx
        obtain ⟨_, _, rfl⟩ := List.mem_map.mp hx
        obtain ⟨i', hi', hy⟩ := List.mem_flatMap.mp hy
        obtain ⟨_, _, rfl⟩ := List.mem_map.mp hy
        have a1 := (mem_grp.mp hi).2
        have a2 := (mem_grp.mp hi').1
        have := bnd_mono l1 (min l1 l2) (show g + 1 ≤ g' by omega)
        exact Or.inl (by simp only []; omega))

/-- the pairing preserves atom order in both directions -/
theorem guessResidueLen_monotone {l1 l2 o1 o2 : Nat} {x y x' y' : Int}
    (h : (x, y) ∈ guessResidueLen l1 l2 o1 o2) (h' : (x', y') ∈ guessResidueLen l1 l2 o1 o2) :
    (x < x' → y ≤ y') ∧ (y < y' → x ≤ x') := by
  obtain ⟨g, i, j, hg, hi1, hi2, hj1, hj2, rfl, rfl⟩ := mem_guessResidueLen.mp h
  obtain ⟨g', i', j', hg', hi1', hi2', hj1', hj2', rfl, rfl⟩ := mem_guessResidueLen.mp h'
  have hn : 0 < min l1 l2 := by omega
  constructor
  · intro hlt
    have hii : i < i' := by omega
    have hgg : g ≤ g' := grp_index_mono hi1 hi2' (by omega)
    by_cases he : g = g'
    · subst he
      -- two different atoms of residue 1 in one group: residue 2 is the shorter, its groups are singletons
      by_cases hmin : l1 ≤ l2
      · have e : min l1 l2 = l1 := Nat.min_eq_left hmin
        rw [e] at hi1 hi2 hi1' hi2'
        have hl : 0 < l1 := by omega
        rw [bnd_eq_self _ hl] at hi1 hi2 hi1' hi2'
        omega
      · have e : min l1 l2 = l2 := Nat.min_eq_right (by omega)
        rw [e] at hj1 hj2 hj1' hj2'
        have hl : 0 < l2 := by omega
        rw [bnd_eq_self _ hl] at hj1 hj2 hj1' hj2'
        omega
    · have := bnd_mono l2 (min l1 l2) (show g + 1 ≤ g' by omega)
      omega
  · intro hlt
    have hjj : j < j' := by omega
    have hgg : g ≤ g' := grp_index_mono hj1 hj2' (by omega)
    by_cases he : g = g'
    · subst he
      by_cases hmin : l1 ≤ l2
      · have e : min l1 l2 = l1 := Nat.min_eq_left hmin
        rw [e] at hi1 hi2 hi1' hi2'
        have hl : 0 < l1 := by omega
        rw [bnd_eq_self _ hl] at hi1 hi2 hi1' hi2'
        omega
      · have e : min l1 l2 = l2 := Nat.min_eq_right (by omega)
        rw [e] at hj1 hj2 hj1' hj2'
        have hl : 0 < l2 := by omega
        rw [bnd_eq_self _ hl] at hj1 hj2 hj1' hj2'
        omega
    · have := bnd_mono l1 (min l1 l2) (show g + 1 ≤ g' by omega)
      omega

/-! ## D. `guess_protein_restrains` -/

/-- the accumulation loop as a recursive specification over the two residue lists -/
def protSpec : List (Residue P) → List (Residue P) → Nat → Nat → List Pair
  | r1 :: t1, r2 :: t2, o1, o2 =>
    guessResidue r1 r2 o1 o2 ++ protSpec t1 t2 (o1 + r1.atoms.length) (o2 + r2.atoms.length)
  | _, _, _, _ => []

theorem proteinLoop_eq (l1 l2 : List (Residue P)) (o1 o2 : Nat) (acc : List Pair) :
    proteinLoop (l1.zip l2) o1 o2 acc = acc ++ protSpec l1 l2 o1 o2 := by
  induction l1 generalizing l2 o1 o2 acc with
  | nil => simp [proteinLoop, protSpec]
  | cons r1 t1 ih =>
    cases l2 with
    | nil => simp [proteinLoop, protSpec]
    | cons r2 t2 =>
      simp only [List.zip_cons_cons, proteinLoop, protSpec]
      rw [ih]
      simp

/-- number of atoms in a list of residues -/
def totalLen (l : List (Residue P)) : Nat := (l.map (·.atoms.length)).sum

/-- index of the first atom of residue `k` -/
def preLen (l : List (Residue P)) (k : Nat) : Nat := totalLen (l.take k)

theorem totalLen_cons (r : Residue P) (t : List (Residue P)) :
    totalLen (r :: t) = r.atoms.length + totalLen t := by simp [totalLen]

theorem preLen_zero (l : List (Residue P)) : preLen l 0 = 0 := by simp [preLen, totalLen]

theorem preLen_cons_succ (r : Residue P) (t : List (Residue P)) (k : Nat) :
    preLen (r :: t) (k + 1) = r.atoms.length + preLen t k := by
  simp [preLen, totalLen]

theorem Mol.len_eq_totalLen (m : Mol P) : m.len = totalLen m.residues := by
  unfold Mol.len Mol.atoms totalLen
  induction m.residues with
  | nil => simp
  | cons r t ih => simp [List.flatMap_cons, ih]

/-- all indices produced lie in the atom ranges of the two residue lists -/
theorem protSpec_range (l1 l2 : List (Residue P)) (o1 o2 : Nat) {x y : Int}
    (h : (x, y) ∈ protSpec l1 l2 o1 o2) :
    (o1 : Int) ≤ x ∧ x < ((o1 + totalLen l1 : Nat) : Int) ∧
    (o2 : Int) ≤ y ∧ y < ((o2 + totalLen l2 : Nat) : Int) := by
  induction l1 generalizing l2 o1 o2 with
  | nil => simp [protSpec] at h
  | cons r1 t1 ih =>
    cases l2 with
    | nil => simp [protSpec] at h
    | cons r2 t2 =>
      simp only [protSpec, List.mem_append] at h
      rw [totalLen_cons, totalLen_cons]
      rcases h with h | h
      · have := guessResidueLen_range h
        omega
      · have := ih _ _ _ h
        omega

/-- every pair joins an atom of residue `k` of the first list with an atom of residue `k` of the second -/
theorem protSpec_same_position (l1 l2 : List (Residue P)) (o1 o2 : Nat) {x y : Int}
    (h : (x, y) ∈ protSpec l1 l2 o1 o2) :
    ∃ k, k < l1.length ∧ k < l2.length ∧
      ((o1 + preLen l1 k : Nat) : Int) ≤ x ∧ x < ((o1 + preLen l1 (k + 1) : Nat) : Int) ∧
      ((o2 + preLen l2 k : Nat) : Int) ≤ y ∧ y < ((o2 + preLen l2 (k + 1) : Nat) : Int) := by
  induction l1 generalizing l2 o1 o2 with
  | nil => simp [protSpec] at h
  | cons r1 t1 ih =>
    cases l2 with
    | nil => simp [protSpec] at h
    | cons r2 t2 =>
      simp only [protSpec, List.mem_append] at h
      rcases h with h | h
      · refine ⟨0, by simp, by simp, ?_⟩
        have := guessResidueLen_range h
        simp only [preLen_zero, preLen_cons_succ]
        omega
      · obtain ⟨k, hk1, hk2, hb⟩ := ih _ _ _ h
        refine ⟨k + 1, by simp; omega, by simp; omega, ?_⟩
        simp only [preLen_cons_succ]
        omega

theorem protSpec_cover_left (l1 l2 : List (Residue P)) (o1 o2 : Nat) (hlen : l1.length = l2.length)
    (h1 : ∀ r ∈ l1, 0 < r.atoms.length) (h2 : ∀ r ∈ l2, 0 < r.atoms.length)
    {i : Nat} (hi : i < totalLen l1) : ∃ y, (((o1 + i : Nat) : Int), y) ∈ protSpec l1 l2 o1 o2 := by
  induction l1 generalizing l2 o1 o2 i with
  | nil => simp [totalLen] at hi
  | cons r1 t1 ih =>
    cases l2 with
    | nil => simp at hlen
    | cons r2 t2 =>
      simp only [protSpec, List.mem_append]
      rw [totalLen_cons] at hi
      by_cases hlt : i < r1.atoms.length
      · obtain ⟨y, hy⟩ := guessResidueLen_cover_left o1 o2 (h1 r1 (by simp)) (h2 r2 (by simp)) hlt
        exact ⟨y, Or.inl (by rw [Nat.add_comm]; exact hy)⟩
      · obtain ⟨y, hy⟩ := ih t2 (o1 + r1.atoms.length) (o2 + r2.atoms.length) (by simpa using hlen)
          (fun r hr => h1 r (by simp [hr])) (fun r hr => h2 r (by simp [hr]))
          (show i - r1.atoms.length < totalLen t1 by omega)
        refine ⟨y, Or.inr ?_⟩
        have : o1 + r1.atoms.length + (i - r1.atoms.length) = o1 + i := by omega
        rwa [this] at hy

theorem protSpec_cover_right (l1 l2 : List (Residue P)) (o1 o2 : Nat) (hlen : l1.length = l2.length)
    (h1 : ∀ r ∈ l1, 0 < r.atoms.length) (h2 : ∀ r ∈ l2, 0 < r.atoms.length)
    {j : Nat} (hj : j < totalLen l2) : ∃ x, (x, ((o2 + j : Nat) : Int)) ∈ protSpec l1 l2 o1 o2 := by
  induction l1 generalizing l2 o1 o2 j with
  | nil =>
    cases l2 with
    | nil => simp [totalLen] at hj
    | cons r2 t2 => simp at hlen
  | cons r1 t1 ih =>
    cases l2 with
    | nil => simp at hlen
    | cons r2 t2 =>
      simp only [protSpec, List.mem_append]
      rw [totalLen_cons] at hj
      by_cases hlt : j < r2.atoms.length
      · obtain ⟨x, hx⟩ := guessResidueLen_cover_right o1 o2 (h1 r1 (by simp)) (h2 r2 (by simp)) hlt
        exact ⟨x, Or.inl (by rw [Nat.add_comm]; exact hx)⟩
      · obtain ⟨x, hx⟩ := ih t2 (o1 + r1.atoms.length) (o2 + r2.atoms.length) (by simpa using hlen)
          (fun r hr => h1 r (by simp [hr])) (fun r hr => h2 r (by simp [hr]))
          (show j - r2.atoms.length < totalLen t2 by omega)
        refine ⟨x, Or.inr ?_⟩
        have : o2 + r2.atoms.length + (j - r2.atoms.length) = o2 + j := by omega
        rwa [this] at hx

theorem protSpec_sorted (l1 l2 : List (Residue P)) (o1 o2 : Nat) :
    (protSpec l1 l2 o1 o2).Pairwise lexLt := by
  induction l1 generalizing l2 o1 o2 with
  | nil => simp [protSpec]
  | cons r1 t1 ih =>
    cases l2 with
    | nil => simp [protSpec]
    | cons r2 t2 =>
      simp only [protSpec]
      rw [List.pairwise_append]
      refine ⟨guessResidueLen_sorted _ _ _ _, ih _ _ _, ?_⟩
      rintro ⟨x, y⟩ hp ⟨x', y'⟩ hq
      have a := guessResidueLen_range hp
      have b := protSpec_range _ _ _ _ hq
      exact Or.inl (by simp only []; omega)

theorem protSpec_monotone (l1 l2 : List (Residue P)) (o1 o2 : Nat) {x y x' y' : Int}
    (h : (x, y) ∈ protSpec l1 l2 o1 o2) (h' : (x', y') ∈ protSpec l1 l2 o1 o2) :
    (x < x' → y ≤ y') ∧ (y < y' → x ≤ x') := by
  induction l1 generalizing l2 o1 o2 with
  | nil => simp [protSpec] at h
  | cons r1 t1 ih =>
    cases l2 with
    | nil => simp [protSpec] at h
    | cons r2 t2 =>
      simp only [protSpec, List.mem_append] at h h'
      rcases h with h | h <;> rcases h' with h' | h'
      · exact guessResidueLen_monotone h h'
      · have a := guessResidueLen_range h
        have b := protSpec_range _ _ _ _ h'
        constructor <;> intro _ <;> omega
      · have a := protSpec_range _ _ _ _ h
        have b := guessResidueLen_range h'
        constructor <;> intro _ <;> omega
      · exact ih _ _ _ h h'

/-- the first loop of the name check raises exactly when some pair is incompatible -/
theorem checkNames_ok_iff (l : List (PStr × PStr)) :
    checkNames l = .ok () ↔ ∀ p ∈ l, (isSubstr p.1 p.2 || isSubstr p.2 p.1) = true := by
  induction l with
  | nil => simp [checkNames]
  | cons p t ih =>
    obtain ⟨a, b⟩ := p
    unfold checkNames
    by_cases h : (isSubstr a b || isSubstr b a) = true
    · simp only [h, ↓reduceIte, ih, List.mem_cons, forall_eq_or_imp, true_and]
    · simp only [h, Bool.false_eq_true, ↓reduceIte, List.mem_cons, forall_eq_or_imp, false_and,
        iff_false]
      intro hc; cases hc

theorem checkNames_err (l : List (PStr × PStr)) (e : PyErr) (h : checkNames l = .error e) :
    e = .ioError := by
  induction l with
  | nil => simp [checkNames] at h
  | cons p t ih =>
    obtain ⟨a, b⟩ := p
    unfold checkNames at h
    split at h
    · exact ih h
    · cases h; rfl

/-- the name test of `guess_protein_restrains` -/
def NamesCompatible (m1 m2 : Mol P) : Prop :=
  m1.resnames = m2.resnames ∨
    ∀ p ∈ m1.resnames.zip m2.resnames, (isSubstr p.1 p.2 || isSubstr p.2 p.1) = true

theorem guessProtein_ok (m1 m2 : Mol P) (hlen : m1.residues.length = m2.residues.length)
    (hc : NamesCompatible m1 m2) :
    guessProtein m1 m2 = .ok (protSpec m1.residues m2.residues 0 0) := by
  unfold guessProtein
  have hl : m1.resnames.length = m2.resnames.length := by simpa [Mol.resnames] using hlen
  simp only [hl, ne_eq, not_true_eq_false, ↓reduceIte]
  have hcheck : (if ¬ m1.resnames = m2.resnames then checkNames (m1.resnames.zip m2.resnames)
      else Except.ok ()) = Except.ok () := by
    by_cases he : m1.resnames = m2.resnames
    · simp [he]
    · simp only [he, not_false_eq_true, ↓reduceIte]
      rcases hc with hc | hc
      · exact absurd hc he
      · exact (checkNames_ok_iff _).mpr hc
  rw [hcheck]
  simp [proteinLoop_eq]

/-- whenever the guesser returns, it returns the specification list and the counts agree -/
theorem guessProtein_eq_ok {m1 m2 : Mol P} {rs : List Pair} (h : guessProtein m1 m2 = .ok rs) :
    m1.residues.length = m2.residues.length ∧ rs = protSpec m1.residues m2.residues 0 0 := by
  unfold guessProtein at h
  by_cases hl : m1.resnames.length = m2.resnames.length
  · simp only [hl, ne_eq, not_true_eq_false, ↓reduceIte] at h
    split at h
    · cases h
    · simp only [Except.ok.injEq] at h
      refine ⟨by simpa [Mol.resnames] using hl, ?_⟩
      rw [← h, proteinLoop_eq]; simp
  · simp [hl] at h

theorem guessProtein_count_mismatch (m1 m2 : Mol P) (h : m1.residues.length ≠ m2.residues.length) :
    guessProtein m1 m2 = .error .ioError := by
  unfold guessProtein
  have : m1.resnames.length ≠ m2.resnames.length := by simpa [Mol.resnames] using h
  simp [this]

theorem guessProtein_err (m1 m2 : Mol P) (e : PyErr) (h : guessProtein m1 m2 = .error e) :
    e = .ioError := by
  unfold guessProtein at h
  split at h
  · cases h; rfl
  · split at h
    · next e' he =>
      cases h
      split at he
      · exact checkNames_err _ _ he
      · cases he
    · cases h

/-! ## E. `Alignment.align_molecules` -/

/-- the molecule that stays fixed: the larger one, the start molecule on a tie -/
def fixedOf (start end_ : Mol P) : Mol P := if start.len < end_.len then end_ else start
/-- the molecule that is moved -/
def mobileOf (start end_ : Mol P) : Mol P := if start.len < end_.len then start else end_
/-- a user restraint `(i, j)` (`i` in the start, `j` in the end molecule) as (fixed index, mobile index) -/
def orient (start end_ : Mol P) (rs : List Pair) : List Pair :=
  if start.len < end_.len then rs.map Prod.swap else rs

/-- `deformation_types` as the optimiser receives it -/
def deformOf (start end_ : Mol P) : Option (List Int) → List Int
  | some d => d
  | none => defaultDeform start.len end_.len

/-- `align_molecules` with an explicit restraint list, written with the role names -/
theorem alignPrep_some_eq (start end_ : Mol P) (rs : List Pair) (deform : Option (List Int))
    (ignoreH auto : Bool) :
    alignPrep start end_ (some rs) deform ignoreH auto =
      if end_.len == 1 then .ok .noCall
      else if !(mobileOf start end_).connected then .error .ioError
      else
        match (if ignoreH then removeHydrogens (fixedOf start end_) (orient start end_ rs)
               else .ok ((fixedOf start end_).positions, orient start end_ rs)) with
        | .error e => .error e
        | .ok (p, r) =>
          if !(fixedOf start end_).hasBonds then .error .valueError
          else .ok (.call (decide (start.len < end_.len))
            { fixedPos := p, mobilePos := (mobileOf start end_).positions, restr := r,
              deform := deformOf start end_ deform,
              nSteps := stepsFactor * (mobileOf start end_).len }) := by
  unfold alignPrep fixedOf mobileOf orient deformOf
  by_cases hsw : start.len < end_.len <;> cases deform <;> cases ignoreH <;> simp [hsw]
  all_goals
    generalize removeHydrogens _ _ = X
    rcases X with e | ⟨p, r⟩ <;> rfl

theorem alignPrep_some_call {start end_ : Mol P} {rs : List Pair} {deform : Option (List Int)}
    {ignoreH auto sw : Bool} {o : OptIn P}
    (h : alignPrep start end_ (some rs) deform ignoreH auto = .ok (.call sw o)) :
    sw = decide (start.len < end_.len) ∧
    o.mobilePos = (mobileOf start end_).positions ∧
    o.nSteps = stepsFactor * (mobileOf start end_).len ∧
    o.deform = deformOf start end_ deform ∧
    (ignoreH = false →
      o.fixedPos = (fixedOf start end_).positions ∧ o.restr = orient start end_ rs) ∧
    (ignoreH = true →
      (∀ a ∈ (fixedOf start end_).atoms, a.Named) ∧
      o.fixedPos = keptPositions (fixedOf start end_).atoms ∧
      o.restr = (orient start end_ rs).filterMap (keepPair (fixedOf start end_).atoms)) := by
  rw [alignPrep_some_eq] at h
  split at h
  · cases h
  · split at h
    · cases h
    · cases ignoreH with
      | false =>
        simp only [Bool.false_eq_true, ↓reduceIte] at h
        split at h
        · cases h
        · simp only [Except.ok.injEq, PrepOut.call.injEq] at h
          obtain ⟨h1, h2⟩ := h
          subst h1 h2
          simp
      | true =>
        simp only [↓reduceIte] at h
        by_cases hn : ∀ a ∈ (fixedOf start end_).atoms, a.Named
        · rw [removeHydrogens_ok _ _ hn] at h
          simp only [] at h
          split at h
          · cases h
          · simp only [Except.ok.injEq, PrepOut.call.injEq] at h
            obtain ⟨h1, h2⟩ := h
            subst h1 h2
            simp only [true_and, and_self, and_true, reduceCtorEq, false_implies]
            exact fun _ => hn
        · have hn' : ∃ a ∈ (fixedOf start end_).atoms, ¬ a.Named := by
            simpa using hn
          rw [removeHydrogens_err _ _ hn'] at h
          cases h

/-- `restrictions=None` on a single-residue start molecule (or with guessing switched off) is `[]` -/
theorem alignPrep_none_plain (start end_ : Mol P) (deform : Option (List Int)) (ignoreH auto : Bool)
    (h : ¬ (start.residues.length > 1 ∧ auto = true)) :
    alignPrep start end_ none deform ignoreH auto = alignPrep start end_ (some []) deform ignoreH auto := by
  unfold alignPrep
  have : (decide (start.resnames.length > 1) && auto) = false := by
    simp only [Mol.resnames, List.length_map]
    by_cases h1 : start.residues.length > 1
    · have : auto = false := by
        cases auto
        · rfl
        · exact absurd ⟨h1, rfl⟩ h
      simp [this]
    · simp [h1]
  simp only [this]
  rfl

/-- `restrictions=None` on a multi-residue start molecule uses the guessed list -/
theorem alignPrep_none_guess (start end_ : Mol P) (deform : Option (List Int)) (ignoreH : Bool)
    (rs : List Pair) (h : start.residues.length > 1) (hg : guessProtein start end_ = .ok rs) :
    alignPrep start end_ none deform ignoreH true = alignPrep start end_ (some rs) deform ignoreH true := by
  unfold alignPrep
  have : (decide (start.resnames.length > 1) && true) = true := by
    simp [Mol.resnames, h]
  simp only [this, hg]
  rfl

/-- … and fails with `IOError` when the guesser refuses -/
theorem alignPrep_none_refused (start end_ : Mol P) (deform : Option (List Int)) (ignoreH : Bool)
    (e : PyErr) (h : start.residues.length > 1) (hg : guessProtein start end_ = .error e) :
    alignPrep start end_ none deform ignoreH true = .error .ioError := by
  have he := guessProtein_err _ _ _ hg
  subst he
  unfold alignPrep
  have : (decide (start.resnames.length > 1) && true) = true := by
    simp [Mol.resnames, h]
  simp only [this, hg]
  rfl

/-- the optimiser is reached whenever none of the four refusals applies -/
theorem alignPrep_some_reaches (start end_ : Mol P) (rs : List Pair) (deform : Option (List Int))
    (ignoreH auto : Bool) (h1 : end_.len ≠ 1) (h2 : (mobileOf start end_).connected = true)
    (h3 : (fixedOf start end_).hasBonds = true)
    (h4 : ignoreH = true → ∀ a ∈ (fixedOf start end_).atoms, a.Named) :
    ∃ o, alignPrep start end_ (some rs) deform ignoreH auto =
      .ok (.call (decide (start.len < end_.len)) o) := by
  rw [alignPrep_some_eq]
  cases ignoreH with
  | false => simp [h1, h2, h3]
  | true =>
    rw [removeHydrogens_ok _ _ (h4 rfl)]
    simp [h1, h2, h3]

/-! ## F. `Manager.align_molecules` routing -/

/-! ### well-formed option values (what the documentation of `align_molecules` asks for) -/

def IdxVal.Ok (len : Nat) : IdxVal → Prop
  | .int i => 0 ≤ i ∧ i < (len : Int)
  | .nonInt => False

def Entry.Ok (s e : Mol P) : Entry → Prop
  | .pair a b => a.Ok s.len ∧ b.Ok e.len
  | .nonPair => False

def RestrArg.Ok (s e : Mol P) : RestrArg → Prop
  | .falsy => True
  | .nonIterable => False
  | .list entries => ∀ en ∈ entries, en.Ok s e

def DefElem.Ok : DefElem → Prop
  | .int i => i = 0 ∨ i = 1 ∨ i = 2
  | .other => False

def DefArg.Ok : DefArg → Prop
  | .falsy => True
  | .other => False
  | .seq vals => (1 ≤ vals.length ∧ vals.length ≤ 3) ∧ ∀ v ∈ vals, v.Ok

def IgnArg.Ok : IgnArg → Prop
  | .bool _ => True
  | .other => False

/-! ### the value an option denotes -/

def IdxVal.toInt : IdxVal → Int
  | .int i => i
  | .nonInt => 0

def Entry.toPair : Entry → Pair
  | .pair a b => (a.toInt, b.toInt)
  | .nonPair => (0, 0)

def RestrArg.value : RestrArg → Option (List Pair)
  | .list entries => some (entries.map Entry.toPair)
  | _ => none

def DefElem.toInt : DefElem → Int
  | .int i => i
  | .other => 0

def DefArg.value : DefArg → Option (List Int)
  | .seq vals => some (vals.map DefElem.toInt)
  | _ => none

/-- the restraint list given under `name` (`none` = not given / falsy: the default) -/
def restrFor (r : Option (Dict RestrArg)) (name : PStr) : Option (List Pair) :=
  match r with
  | none => none
  | some d => match d.lookup name with
    | some v => v.value
    | none => none

def deformFor (d : Option (Dict DefArg)) (name : PStr) : Option (List Int) :=
  match d with
  | none => none
  | some d => match d.lookup name with
    | some v => v.value
    | none => none

def ignoreFor (h : Option (Dict IgnArg)) (name : PStr) : Bool :=
  match h with
  | none => true
  | some d => match d.lookup name with
    | some (.bool b) => b
    | _ => true

/-- a dictionary is well formed: every key names a complete species and every value stored under a
    complete species is well formed for that species -/
def DictOk {V : Type} (sys : List (Species P)) (ok : Species P × Mol P → V → Prop) :
    Option (Dict V) → Prop
  | none => True
  | some d => (∀ kv ∈ d, kv.1 ∈ completeNames sys) ∧
              ∀ s ∈ complete sys, ∀ v, d.lookup s.1.name = some v → ok s v

def RestrDictOk (sys : List (Species P)) : Option (Dict RestrArg) → Prop :=
  DictOk sys fun s v => v.Ok s.1.start s.2
def DefDictOk (sys : List (Species P)) : Option (Dict DefArg) → Prop :=
  DictOk sys fun _ v => v.Ok
def IgnDictOk (sys : List (Species P)) : Option (Dict IgnArg) → Prop :=
  DictOk sys fun _ v => v.Ok

/-! ### the validators accept exactly the well-formed values -/

theorem checkIndex_ok {len : Nat} {v : IdxVal} (h : v.Ok len) : checkIndex len v = .ok v.toInt := by
  cases v with
  | nonInt => exact absurd h (by simp [IdxVal.Ok])
  | int i =>
    simp only [IdxVal.Ok] at h
    have h1 : ¬ i < 0 := by omega
    simp [checkIndex, h1, h.2, IdxVal.toInt]

theorem checkIndex_err {len : Nat} {v : IdxVal} (h : ¬ v.Ok len) : ∃ e, checkIndex len v = .error e := by
  cases v with
  | nonInt => exact ⟨_, rfl⟩
  | int i =>
    simp only [IdxVal.Ok] at h
    unfold checkIndex
    by_cases h1 : i < 0
    · simp [h1]
    · have : ¬ i < (len : Int) := by omega
      simp [h1, this]

theorem validateIndex_ok (s e : Mol P) (entries : List Entry) (h : ∀ en ∈ entries, en.Ok s e) :
    validateIndex s e entries = .ok (entries.map Entry.toPair) := by
  induction entries with
  | nil => rfl
  | cons en rest ih =>
    have hen := h en (by simp)
    have hr := ih (fun x hx => h x (by simp [hx]))
    cases en with
    | nonPair => exact absurd hen (by simp [Entry.Ok])
    | pair a b =>
      simp only [Entry.Ok] at hen
      simp [validateIndex, checkIndex_ok hen.1, checkIndex_ok hen.2, hr, Entry.toPair]

theorem validateIndex_err (s e : Mol P) (entries : List Entry) (h : ¬ ∀ en ∈ entries, en.Ok s e) :
    ∃ err, validateIndex s e entries = .error err := by
  induction entries with
  | nil => exact absurd (by simp) h
  | cons en rest ih =>
    cases en with
    | nonPair => exact ⟨_, rfl⟩
    | pair a b =>
      unfold validateIndex
      by_cases ha : a.Ok s.len
      · rw [checkIndex_ok ha]
        by_cases hb : b.Ok e.len
        · rw [checkIndex_ok hb]
          have : ¬ ∀ en ∈ rest, en.Ok s e := by
            intro hall
            apply h
            intro x hx
            rcases List.mem_cons.mp hx with rfl | hx
            · exact ⟨ha, hb⟩
            · exact hall x hx
          obtain ⟨err, he⟩ := ih this
          exact ⟨err, by simp [he]⟩
        · obtain ⟨err, he⟩ := checkIndex_err hb
          exact ⟨err, by simp [he]⟩
      · obtain ⟨err, he⟩ := checkIndex_err ha
        exact ⟨err, by simp [he]⟩

theorem defElems_ok (vals : List DefElem) (h : ∀ v ∈ vals, v.Ok) :
    defElems vals = .ok (vals.map DefElem.toInt) := by
  induction vals with
  | nil => rfl
  | cons v rest ih =>
    have hv := h v (by simp)
    have hr := ih (fun x hx => h x (by simp [hx]))
    cases v with
    | other => exact absurd hv (by simp [DefElem.Ok])
    | int i =>
      simp only [DefElem.Ok] at hv
      simp [defElems, hv, hr, DefElem.toInt]

theorem defElems_err (vals : List DefElem) (h : ¬ ∀ v ∈ vals, v.Ok) :
    ∃ err, defElems vals = .error err := by
  induction vals with
  | nil => exact absurd (by simp) h
  | cons v rest ih =>
    cases v with
    | other => exact ⟨_, rfl⟩
    | int i =>
      unfold defElems
      by_cases hi : i = 0 ∨ i = 1 ∨ i = 2
      · have : ¬ ∀ v ∈ rest, v.Ok := by
          intro hall
          apply h
          intro x hx
          rcases List.mem_cons.mp hx with rfl | hx
          · exact hi
          · exact hall x hx
        obtain ⟨err, he⟩ := ih this
        exact ⟨err, by simp [hi, he]⟩
      · simp [hi]

theorem parseDefValue_ok {v : DefArg} (h : v.Ok) : parseDefValue v = .ok v.value := by
  cases v with
  | falsy => rfl
  | other => exact absurd h (by simp [DefArg.Ok])
  | seq vals =>
    simp only [DefArg.Ok] at h
    simp [parseDefValue, h.1, defElems_ok _ h.2, DefArg.value]

theorem parseDefValue_err {v : DefArg} (h : ¬ v.Ok) : ∃ err, parseDefValue v = .error err := by
  cases v with
  | falsy => exact absurd (by simp [DefArg.Ok]) h
  | other => exact ⟨_, rfl⟩
  | seq vals =>
    simp only [DefArg.Ok] at h
    unfold parseDefValue
    by_cases hl : 1 ≤ vals.length ∧ vals.length ≤ 3
    · have : ¬ ∀ v ∈ vals, v.Ok := fun hall => h ⟨hl, hall⟩
      obtain ⟨err, he⟩ := defElems_err _ this
      exact ⟨err, by simp [hl, he]⟩
    · simp [hl]

theorem checkNamesKnown_ok_iff {V : Type} (names : List PStr) (d : Dict V) :
    checkNamesKnown names d = .ok () ↔ ∀ kv ∈ d, kv.1 ∈ names := by
  induction d with
  | nil => simp [checkNamesKnown]
  | cons kv rest ih =>
    obtain ⟨n, v⟩ := kv
    unfold checkNamesKnown
    by_cases h : names.contains n = true
    · have hm : n ∈ names := List.contains_iff_mem.mp h
      simp [ih, hm]
    · have hm : ¬ n ∈ names := fun hm => h (List.contains_iff_mem.mpr hm)
      simp only [h, Bool.false_eq_true, ↓reduceIte, List.mem_cons, forall_eq_or_imp, hm, false_and,
        iff_false]
      intro hc; cases hc

theorem checkNamesKnown_err {V : Type} (names : List PStr) (d : Dict V)
    (h : ¬ ∀ kv ∈ d, kv.1 ∈ names) : checkNamesKnown names d = .error .keyError := by
  induction d with
  | nil => exact absurd (by simp) h
  | cons kv rest ih =>
    obtain ⟨n, v⟩ := kv
    unfold checkNamesKnown
    by_cases hc : names.contains n = true
    · have hm : n ∈ names := List.contains_iff_mem.mp hc
      simp only [hc, ↓reduceIte]
      apply ih
      intro hall
      apply h
      intro x hx
      rcases List.mem_cons.mp hx with rfl | hx
      · exact hm
      · exact hall x hx
    · rw [if_neg hc]

/-! ### the three parsers -/

/-- the parsed restraint dictionary of a well-formed input -/
def parsedRestr (r : Option (Dict RestrArg)) (cs : List (Species P × Mol P)) :
    Dict (Option (List Pair)) := cs.map fun s => (s.1.name, restrFor r s.1.name)
def parsedDeform (d : Option (Dict DefArg)) (cs : List (Species P × Mol P)) :
    Dict (Option (List Int)) := cs.map fun s => (s.1.name, deformFor d s.1.name)
def parsedIgnore (h : Option (Dict IgnArg)) (cs : List (Species P × Mol P)) :
    Dict Bool := cs.map fun s => (s.1.name, ignoreFor h s.1.name)

theorem parseRestrLoop_ok (d : Dict RestrArg) (cs : List (Species P × Mol P))
    (h : ∀ s ∈ cs, ∀ v, d.lookup s.1.name = some v → v.Ok s.1.start s.2) :
    parseRestrLoop d cs = .ok (parsedRestr (some d) cs) := by
  induction cs with
  | nil => rfl
  | cons s rest ih =>
    obtain ⟨sp, e⟩ := s
    have hr := ih (fun x hx => h x (by simp [hx]))
    have hs := h (sp, e) (by simp)
    unfold parseRestrLoop
    simp only [hr, parsedRestr, List.map_cons, restrFor]
    cases hl : d.lookup sp.name with
    | none => simp
    | some v =>
      have hv := hs v hl
      cases v with
      | falsy => simp [RestrArg.value]
      | nonIterable => exact absurd hv (by simp [RestrArg.Ok])
      | list entries =>
        simp only [RestrArg.Ok] at hv
        simp [validateIndex_ok _ _ _ hv, RestrArg.value]

theorem parseRestrLoop_err (d : Dict RestrArg) (cs : List (Species P × Mol P))
    (h : ¬ ∀ s ∈ cs, ∀ v, d.lookup s.1.name = some v → v.Ok s.1.start s.2) :
    ∃ err, parseRestrLoop d cs = .error err := by
  induction cs with
  | nil => exact absurd (by simp) h
  | cons s rest ih =>
    obtain ⟨sp, e⟩ := s
    unfold parseRestrLoop
    by_cases hs : ∀ v, d.lookup sp.name = some v → v.Ok sp.start e
    · have : ¬ ∀ s ∈ rest, ∀ v, d.lookup s.1.name = some v → v.Ok s.1.start s.2 := by
        intro hall
        apply h
        intro x hx
        rcases List.mem_cons.mp hx with rfl | hx
        · exact hs
        · exact hall x hx
      obtain ⟨err, he⟩ := ih this
      cases hl : d.lookup sp.name with
      | none => exact ⟨err, by simp [he]⟩
      | some v =>
        have hv := hs v hl
        cases v with
        | falsy => exact ⟨err, by simp [he]⟩
        | nonIterable => exact absurd hv (by simp [RestrArg.Ok])
        | list entries =>
          simp only [RestrArg.Ok] at hv
          exact ⟨err, by simp [validateIndex_ok _ _ _ hv, he]⟩
    · have : ∃ v, d.lookup sp.name = some v ∧ ¬ v.Ok sp.start e := by
        apply Classical.byContradiction
        intro hne
        apply hs
        intro v hv
        apply Classical.byContradiction
        intro hnv
        exact hne ⟨v, hv, hnv⟩
      obtain ⟨v, hl, hv⟩ := this
      cases v with
      | falsy => exact absurd (by simp [RestrArg.Ok]) hv
      | nonIterable => simp [hl]
      | list entries =>
        simp only [RestrArg.Ok] at hv
        obtain ⟨err, he⟩ := validateIndex_err _ _ _ hv
        exact ⟨err, by simp [hl, he]⟩

theorem parseRestrictions_ok (sys : List (Species P)) (r : Option (Dict RestrArg))
    (h : RestrDictOk sys r) : parseRestrictions sys r = .ok (parsedRestr r (complete sys)) := by
  cases r with
  | none => simp [parseRestrictions, parsedRestr, restrFor]
  | some d =>
    obtain ⟨h1, h2⟩ := h
    simp only [parseRestrictions, (checkNamesKnown_ok_iff _ _).mpr h1]
    exact parseRestrLoop_ok d _ h2

theorem parseRestrictions_err (sys : List (Species P)) (r : Option (Dict RestrArg))
    (h : ¬ RestrDictOk sys r) : ∃ err, parseRestrictions sys r = .error err := by
  cases r with
  | none => exact absurd (by simp [RestrDictOk, DictOk]) h
  | some d =>
    unfold parseRestrictions
    by_cases h1 : ∀ kv ∈ d, kv.1 ∈ completeNames sys
    · simp only [(checkNamesKnown_ok_iff _ _).mpr h1]
      apply parseRestrLoop_err
      intro h2
      exact h ⟨h1, h2⟩
    · simp [checkNamesKnown_err _ _ h1]

theorem parseDefLoop_ok (d : Dict DefArg) (cs : List (Species P × Mol P))
    (h : ∀ s ∈ cs, ∀ v, d.lookup s.1.name = some v → v.Ok) :
    parseDefLoop d cs = .ok (parsedDeform (some d) cs) := by
  induction cs with
  | nil => rfl
  | cons s rest ih =>
    obtain ⟨sp, e⟩ := s
    have hr := ih (fun x hx => h x (by simp [hx]))
    have hs := h (sp, e) (by simp)
    unfold parseDefLoop
    simp only [hr, parsedDeform, List.map_cons, deformFor]
    cases hl : d.lookup sp.name with
    | none => simp
    | some v => simp [parseDefValue_ok (hs v hl)]

theorem parseDefLoop_err (d : Dict DefArg) (cs : List (Species P × Mol P))
    (h : ¬ ∀ s ∈ cs, ∀ v, d.lookup s.1.name = some v → v.Ok) :
    ∃ err, parseDefLoop d cs = .error err := by
  induction cs with
  | nil => exact absurd (by simp) h
  | cons s rest ih =>
    obtain ⟨sp, e⟩ := s
    unfold parseDefLoop
    by_cases hs : ∀ v, d.lookup sp.name = some v → v.Ok
    · have : ¬ ∀ s ∈ rest, ∀ v, d.lookup s.1.name = some v → v.Ok := by
        intro hall
        apply h
        intro x hx
        rcases List.mem_cons.mp hx with rfl | hx
        · exact hs
        · exact hall x hx
      obtain ⟨err, he⟩ := ih this
      cases hl : d.lookup sp.name with
      | none => exact ⟨err, by simp [he]⟩
      | some v => exact ⟨err, by simp [parseDefValue_ok (hs v hl), he]⟩
    · have : ∃ v, d.lookup sp.name = some v ∧ ¬ v.Ok := by
        apply Classical.byContradiction
        intro hne
        apply hs
        intro v hv
        apply Classical.byContradiction
        intro hnv
        exact hne ⟨v, hv, hnv⟩
      obtain ⟨v, hl, hv⟩ := this
      obtain ⟨err, he⟩ := parseDefValue_err hv
      exact ⟨err, by simp [hl, he]⟩

theorem parseDeformations_ok (sys : List (Species P)) (d : Option (Dict DefArg))
    (h : DefDictOk sys d) : parseDeformations sys d = .ok (parsedDeform d (complete sys)) := by
  cases d with
  | none => simp [parseDeformations, parsedDeform, deformFor]
  | some d =>
    obtain ⟨h1, h2⟩ := h
    simp only [parseDeformations, (checkNamesKnown_ok_iff _ _).mpr h1]
    exact parseDefLoop_ok d _ h2

theorem parseDeformations_err (sys : List (Species P)) (d : Option (Dict DefArg))
    (h : ¬ DefDictOk sys d) : ∃ err, parseDeformations sys d = .error err := by
  cases d with
  | none => exact absurd (by simp [DefDictOk, DictOk]) h
  | some d =>
    unfold parseDeformations
    by_cases h1 : ∀ kv ∈ d, kv.1 ∈ completeNames sys
    · simp only [(checkNamesKnown_ok_iff _ _).mpr h1]
      apply parseDefLoop_err
      intro h2
      exact h ⟨h1, h2⟩
    · simp [checkNamesKnown_err _ _ h1]

theorem parseIgnLoop_ok (d : Dict IgnArg) (cs : List (Species P × Mol P))
    (h : ∀ s ∈ cs, ∀ v, d.lookup s.1.name = some v → v.Ok) :
    parseIgnLoop d cs = .ok (parsedIgnore (some d) cs) := by
  induction cs with
  | nil => rfl
  | cons s rest ih =>
    obtain ⟨sp, e⟩ := s
    have hr := ih (fun x hx => h x (by simp [hx]))
    have hs := h (sp, e) (by simp)
    unfold parseIgnLoop
    simp only [hr, parsedIgnore, List.map_cons, ignoreFor]
    cases hl : d.lookup sp.name with
    | none => simp
    | some v =>
      cases v with
      | bool b => simp
      | other => exact absurd (hs _ hl) (by simp [IgnArg.Ok])

theorem parseIgnLoop_err (d : Dict IgnArg) (cs : List (Species P × Mol P))
    (h : ¬ ∀ s ∈ cs, ∀ v, d.lookup s.1.name = some v → v.Ok) :
    ∃ err, parseIgnLoop d cs = .error err := by
  induction cs with
  | nil => exact absurd (by simp) h
  | cons s rest ih =>
    obtain ⟨sp, e⟩ := s
    unfold parseIgnLoop
    by_cases hs : ∀ v, d.lookup sp.name = some v → v.Ok
    · have : ¬ ∀ s ∈ rest, ∀ v, d.lookup s.1.name = some v → v.Ok := by
        intro hall
        apply h
        intro x hx
        rcases List.mem_cons.mp hx with rfl | hx
        · exact hs
        · exact hall x hx
      obtain ⟨err, he⟩ := ih this
      cases hl : d.lookup sp.name with
      | none => exact ⟨err, by simp [he]⟩
      | some v =>
        cases v with
        | bool b => exact ⟨err, by simp [he]⟩
        | other => exact absurd (hs _ hl) (by simp [IgnArg.Ok])
    · have : ∃ v, d.lookup sp.name = some v ∧ ¬ v.Ok := by
        apply Classical.byContradiction
        intro hne
        apply hs
        intro v hv
        apply Classical.byContradiction
        intro hnv
        exact hne ⟨v, hv, hnv⟩
      obtain ⟨v, hl, hv⟩ := this
      cases v with
      | bool b => exact absurd (by simp [IgnArg.Ok]) hv
      | other => simp [hl]

theorem parseIgnore_ok (sys : List (Species P)) (d : Option (Dict IgnArg))
    (h : IgnDictOk sys d) : parseIgnore sys d = .ok (parsedIgnore d (complete sys)) := by
  cases d with
  | none => simp [parseIgnore, parsedIgnore, ignoreFor]
  | some d =>
    obtain ⟨h1, h2⟩ := h
    simp only [parseIgnore, (checkNamesKnown_ok_iff _ _).mpr h1]
    exact parseIgnLoop_ok d _ h2

theorem parseIgnore_err (sys : List (Species P)) (d : Option (Dict IgnArg))
    (h : ¬ IgnDictOk sys d) : ∃ err, parseIgnore sys d = .error err := by
  cases d with
  | none => exact absurd (by simp [IgnDictOk, DictOk]) h
  | some d =>
    unfold parseIgnore
    by_cases h1 : ∀ kv ∈ d, kv.1 ∈ completeNames sys
    · simp only [(checkNamesKnown_ok_iff _ _).mpr h1]
      apply parseIgnLoop_err
      intro h2
      exact h ⟨h1, h2⟩
    · simp [checkNamesKnown_err _ _ h1]

/-! ### the alignment loop -/

theorem completeNames_sublist (sys : List (Species P)) :
    (completeNames sys).Sublist (sys.map (·.name)) := by
  unfold completeNames complete
  induction sys with
  | nil => simp
  | cons sp rest ih =>
    cases he : sp.end_ with
    | none =>
      simp only [List.filterMap_cons, he, Option.map_none, List.map_cons]
      exact List.Sublist.cons _ ih
    | some e =>
      simp only [List.filterMap_cons, he, Option.map_some, List.map_cons]
      exact List.Sublist.cons_cons _ ih

theorem lookup_map_name {V : Type} (cs : List (Species P × Mol P)) (f : Species P × Mol P → V)
    (hnd : (cs.map (·.1.name)).Nodup) (s : Species P × Mol P) (hs : s ∈ cs) :
    (cs.map fun t => (t.1.name, f t)).lookup s.1.name = some (f s) := by
  induction cs with
  | nil => simp at hs
  | cons t rest ih =>
    simp only [List.map_cons, List.nodup_cons] at hnd
    rcases List.mem_cons.mp hs with rfl | hs'
    · simp
    · have hne : s.1.name ≠ t.1.name := by
        intro heq
        apply hnd.1
        rw [← heq]
        exact List.mem_map.mpr ⟨s, hs', rfl⟩
      have : (s.1.name == t.1.name) = false := by simpa using hne
      simp only [List.map_cons, List.lookup_cons, this]
      exact ih hnd.2 hs'

theorem find_name (cs : List (Species P × Mol P)) (hnd : (cs.map (·.1.name)).Nodup)
    (s : Species P × Mol P) (hs : s ∈ cs) :
    cs.find? (fun t => t.1.name == s.1.name) = some s := by
  induction cs with
  | nil => simp at hs
  | cons t rest ih =>
    simp only [List.map_cons, List.nodup_cons] at hnd
    rcases List.mem_cons.mp hs with rfl | hs'
    · simp
    · have hne : t.1.name ≠ s.1.name := by
        intro heq
        apply hnd.1
        rw [heq]
        exact List.mem_map.mpr ⟨s, hs', rfl⟩
      have : (t.1.name == s.1.name) = false := by simpa using hne
      simp only [List.find?_cons, this]
      exact ih hnd.2 hs'

/-- the arguments each complete species is aligned with -/
def argsFor (r : Option (Dict RestrArg)) (d : Option (Dict DefArg)) (h : Option (Dict IgnArg))
    (s : Species P × Mol P) : AlignArgs P :=
  { name := s.1.name, start := s.1.start, end_ := s.2,
    restr := restrFor r s.1.name, deform := deformFor d s.1.name, ignoreH := ignoreFor h s.1.name }

/-- the loop looks every option up by the species' own name: whatever the order of the keys it
    walks, and whichever subset of the complete species they name -/
theorem alignLoop_eq_gen (cs : List (Species P × Mol P)) (hnd : (cs.map (·.1.name)).Nodup)
    (d : Option (Dict DefArg)) (h : Option (Dict IgnArg))
    (l : List ((Species P × Mol P) × Option (List Pair))) (hl : ∀ x ∈ l, x.1 ∈ cs) :
    alignLoop cs (parsedDeform d cs) (parsedIgnore h cs) (l.map fun x => (x.1.1.name, x.2)) =
      runAligns (l.map fun x =>
        { name := x.1.1.name, start := x.1.1.start, end_ := x.1.2, restr := x.2,
          deform := deformFor d x.1.1.name, ignoreH := ignoreFor h x.1.1.name }) := by
  induction l with
  | nil => rfl
  | cons x rest ih =>
    obtain ⟨s, v⟩ := x
    have hs : s ∈ cs := hl (s, v) (by simp)
    have hr := ih (fun y hy => hl y (by simp [hy]))
    simp only [List.map_cons, alignLoop, runAligns]
    have e1 : (parsedDeform d cs).lookup s.1.name = some (deformFor d s.1.name) :=
      lookup_map_name cs _ hnd s hs
    have e2 : (parsedIgnore h cs).lookup s.1.name = some (ignoreFor h s.1.name) :=
      lookup_map_name cs _ hnd s hs
    have e3 := find_name cs hnd s hs
    simp only [e1, e2, e3]
    cases alignPrep s.1.start s.2 v (deformFor d s.1.name) (ignoreFor h s.1.name) with
    | error err => rfl
    | ok out =>
      simp only []
      rw [hr]

theorem alignLoop_eq (cs : List (Species P × Mol P)) (hnd : (cs.map (·.1.name)).Nodup)
    (r : Option (Dict RestrArg)) (d : Option (Dict DefArg)) (h : Option (Dict IgnArg))
    (l : List (Species P × Mol P)) (hl : ∀ s ∈ l, s ∈ cs) :
    alignLoop cs (parsedDeform d cs) (parsedIgnore h cs) (parsedRestr r l) =
      runAligns (l.map (argsFor r d h)) := by
  have := alignLoop_eq_gen cs hnd d h (l.map fun s => (s, restrFor r s.1.name))
    (by intro x hx; obtain ⟨s, hs, rfl⟩ := List.mem_map.mp hx; exact hl s hs)
  have e : (argsFor r d h : Species P × Mol P → AlignArgs P) = fun s =>
      { name := s.1.name, start := s.1.start, end_ := s.2, restr := restrFor r s.1.name,
        deform := deformFor d s.1.name, ignoreH := ignoreFor h s.1.name } := rfl
  rw [e]
  simpa [parsedRestr, List.map_map, Function.comp_def] using this

/-- a key of the walked dictionary that is not a complete species: `KeyError` at that key, after
    the alignments of the keys before it -/
theorem alignLoop_unknown (cs : List (Species P × Mol P)) (D : Dict (Option (List Int))) (H : Dict Bool)
    (name : PStr) (v : Option (List Pair)) (rest : Dict (Option (List Pair)))
    (hn : ∀ s ∈ cs, s.1.name ≠ name) :
    alignLoop cs D H ((name, v) :: rest) = ⟨[], some .keyError⟩ := by
  have hf : cs.find? (fun s => s.1.name == name) = none := by
    rw [List.find?_eq_none]
    intro s hs
    simpa using hn s hs
  unfold alignLoop
  rw [hf]
  cases D.lookup name <;> cases H.lookup name <;> rfl

/-- well-formed options: every complete species is aligned, in order, with exactly its own values -/
theorem managerAlign_ok (sys : List (Species P)) (hnd : (sys.map (·.name)).Nodup)
    (r : Option (Dict RestrArg)) (d : Option (Dict DefArg)) (h : Option (Dict IgnArg))
    (hr : RestrDictOk sys r) (hd : DefDictOk sys d) (hh : IgnDictOk sys h) :
    managerAlign sys r d h = runAligns ((complete sys).map (argsFor r d h)) := by
  unfold managerAlign
  rw [parseRestrictions_ok _ _ hr, parseDeformations_ok _ _ hd, parseIgnore_ok _ _ hh]
  simp only []
  have hnd' : ((complete sys).map (·.1.name)).Nodup :=
    List.Nodup.sublist (completeNames_sublist sys) hnd
  exact alignLoop_eq _ hnd' r d h _ (fun _ hs => hs)

/-- anything else is refused before the first alignment call -/
theorem managerAlign_rejects (sys : List (Species P))
    (r : Option (Dict RestrArg)) (d : Option (Dict DefArg)) (h : Option (Dict IgnArg))
    (hbad : ¬ (RestrDictOk sys r ∧ DefDictOk sys d ∧ IgnDictOk sys h)) :
    ∃ err, managerAlign sys r d h = ⟨[], some err⟩ := by
  unfold managerAlign
  by_cases hr : RestrDictOk sys r
  · rw [parseRestrictions_ok _ _ hr]
    by_cases hd : DefDictOk sys d
    · rw [parseDeformations_ok _ _ hd]
      have hh : ¬ IgnDictOk sys h := fun hh => hbad ⟨hr, hd, hh⟩
      obtain ⟨err, he⟩ := parseIgnore_err _ _ hh
      exact ⟨err, by simp [he]⟩
    · obtain ⟨err, he⟩ := parseDeformations_err _ _ hd
      exact ⟨err, by simp [he]⟩
  · obtain ⟨err, he⟩ := parseRestrictions_err _ _ hr
    exact ⟨err, by simp [he]⟩

/-- a dictionary the parser accepts is well formed (used to discharge `…DictOk` on concrete inputs) -/
theorem RestrDictOk_of_parse {sys : List (Species P)} {r : Option (Dict RestrArg)}
    {x : Dict (Option (List Pair))} (h : parseRestrictions sys r = .ok x) : RestrDictOk sys r := by
  apply Classical.byContradiction
  intro hn
  obtain ⟨e, he⟩ := parseRestrictions_err _ _ hn
  rw [he] at h
  cases h

theorem DefDictOk_of_parse {sys : List (Species P)} {d : Option (Dict DefArg)}
    {x : Dict (Option (List Int))} (h : parseDeformations sys d = .ok x) : DefDictOk sys d := by
  apply Classical.byContradiction
  intro hn
  obtain ⟨e, he⟩ := parseDeformations_err _ _ hn
  rw [he] at h
  cases h

theorem IgnDictOk_of_parse {sys : List (Species P)} {d : Option (Dict IgnArg)}
    {x : Dict Bool} (h : parseIgnore sys d = .ok x) : IgnDictOk sys d := by
  apply Classical.byContradiction
  intro hn
  obtain ⟨e, he⟩ := parseIgnore_err _ _ hn
  rw [he] at h
  cases h

/-- `parse_restrictions=False`: the species listed in the given dictionary — in the given order,
    any subset, any permutation — are each aligned with their own restraints, deformation types and
    hydrogen flag -/
theorem managerAlignPreparsed_ok (sys : List (Species P)) (hnd : (sys.map (·.name)).Nodup)
    (l : List ((Species P × Mol P) × Option (List Pair))) (hl : ∀ x ∈ l, x.1 ∈ complete sys)
    (d : Option (Dict DefArg)) (h : Option (Dict IgnArg))
    (hd : DefDictOk sys d) (hh : IgnDictOk sys h) :
    managerAlignPreparsed sys (l.map fun x => (x.1.1.name, x.2)) d h =
      runAligns (l.map fun x =>
        { name := x.1.1.name, start := x.1.1.start, end_ := x.1.2, restr := x.2,
          deform := deformFor d x.1.1.name, ignoreH := ignoreFor h x.1.1.name }) := by
  unfold managerAlignPreparsed
  rw [parseDeformations_ok _ _ hd, parseIgnore_ok _ _ hh]
  simp only []
  have hnd' : ((complete sys).map (·.1.name)).Nodup :=
    List.Nodup.sublist (completeNames_sublist sys) hnd
  exact alignLoop_eq_gen _ hnd' d h l hl

/-- every dictionary whose keys are complete species has that form -/
theorem preparsed_form (sys : List (Species P)) (r : Dict (Option (List Pair)))
    (hk : ∀ kv ∈ r, kv.1 ∈ completeNames sys) :
    ∃ l : List ((Species P × Mol P) × Option (List Pair)),
      (∀ x ∈ l, x.1 ∈ complete sys) ∧ r = l.map fun x => (x.1.1.name, x.2) := by
  induction r with
  | nil => exact ⟨[], by simp, rfl⟩
  | cons kv rest ih =>
    obtain ⟨k, v⟩ := kv
    obtain ⟨l, hl, hr⟩ := ih (fun x hx => hk x (by simp [hx]))
    have hkm : k ∈ completeNames sys := hk (k, v) (by simp)
    obtain ⟨s, hs, hsn⟩ := List.mem_map.mp hkm
    refine ⟨(s, v) :: l, ?_, ?_⟩
    · intro x hx
      rcases List.mem_cons.mp hx with rfl | hx
      · exact hs
      · exact hl x hx
    · simp [hsn, hr]

/-- malformed deformation / hydrogen options are still refused before the first alignment -/
theorem managerAlignPreparsed_rejects (sys : List (Species P)) (r : Dict (Option (List Pair)))
    (d : Option (Dict DefArg)) (h : Option (Dict IgnArg))
    (hbad : ¬ (DefDictOk sys d ∧ IgnDictOk sys h)) :
    ∃ err, managerAlignPreparsed sys r d h = ⟨[], some err⟩ := by
  unfold managerAlignPreparsed
  by_cases hd : DefDictOk sys d
  · rw [parseDeformations_ok _ _ hd]
    have hh : ¬ IgnDictOk sys h := fun hh => hbad ⟨hd, hh⟩
    obtain ⟨err, he⟩ := parseIgnore_err _ _ hh
    exact ⟨err, by simp [he]⟩
  · obtain ⟨err, he⟩ := parseDeformations_err _ _ hd
    exact ⟨err, by simp [he]⟩

/-- parsing first and passing the result with `parse_restrictions=False` is the same as letting
    the call parse -/
theorem managerAlign_eq_preparsed (sys : List (Species P)) (r : Option (Dict RestrArg))
    (d : Option (Dict DefArg)) (h : Option (Dict IgnArg)) (x : Dict (Option (List Pair)))
    (hp : parseRestrictions sys r = .ok x) :
    managerAlign sys r d h = managerAlignPreparsed sys x d h := by
  unfold managerAlign managerAlignPreparsed
  rw [hp]

end Restr
