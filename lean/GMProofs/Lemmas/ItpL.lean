import GMModel.Itp
import Mathlib.Tactic.SplitIfs
import Mathlib.Data.List.Basic
/-
  GMProofs.Lemmas.ItpL — lemmas about the `.itp` model (`GMModel.Itp`):
  string primitives, the line parser, the specification-level reading of a file (`Item`,
  `specItem`, `specView`), and the fold of `ItpFile.__init__`.
-/

set_option linter.unusedSimpArgs false
set_option linter.unusedVariables false

namespace Itp

theorem dropWhile_eq_nil_iff' {α : Type} (p : α → Bool) (l : List α) :
    l.dropWhile p = [] ↔ ∀ x ∈ l, p x = true := by
  induction l with
  | nil => simp
  | cons a l ih =>
    by_cases ha : p a = true
    · simp [List.dropWhile_cons, ha, ih]
    · simp [List.dropWhile_cons, ha]

theorem mem_takeWhile_imp' {α : Type} {p : α → Bool} {l : List α} {x : α}
    (h : x ∈ l.takeWhile p) : p x = true := by
  induction l with
  | nil => simp at h
  | cons a l ih =>
    by_cases ha : p a = true
    · simp [List.takeWhile_cons, ha] at h
      rcases h with e | e
      · rw [e]; exact ha
      · exact ih e
    · simp [List.takeWhile_cons, ha] at h

theorem takeWhile_ne_append {c : Char} {a : Str} (b : Str) (h : c ∉ a) :
    (a ++ c :: b).takeWhile (· ≠ c) = a := by
  induction a with
  | nil => simp
  | cons x a ih =>
    have hx : x ≠ c := fun e => h (by simp [e])
    have ha : c ∉ a := fun e => h (by simp [e])
    simp only [List.cons_append, List.takeWhile_cons, ne_eq, hx, not_false_eq_true, decide_true,
      if_true]
    rw [ih ha]

theorem dropWhile_ne_append {c : Char} {a : Str} (b : Str) (h : c ∉ a) :
    (a ++ c :: b).dropWhile (· ≠ c) = c :: b := by
  induction a with
  | nil => simp
  | cons x a ih =>
    have hx : x ≠ c := fun e => h (by simp [e])
    have ha : c ∉ a := fun e => h (by simp [e])
    simp only [List.cons_append, List.dropWhile_cons, ne_eq, hx, not_false_eq_true, decide_true,
      if_true]
    rw [ih ha]

theorem takeWhile_ne_self {c : Char} {a : Str} (h : c ∉ a) : a.takeWhile (· ≠ c) = a := by
  induction a with
  | nil => simp
  | cons x a ih =>
    have hx : x ≠ c := fun e => h (by simp [e])
    have ha : c ∉ a := fun e => h (by simp [e])
    simp only [List.takeWhile_cons, ne_eq, hx, not_false_eq_true, decide_true, if_true]
    rw [ih ha]

theorem dropWhile_ne_self {c : Char} {a : Str} (h : c ∉ a) : a.dropWhile (· ≠ c) = [] := by
  induction a with
  | nil => simp
  | cons x a ih =>
    have hx : x ≠ c := fun e => h (by simp [e])
    have ha : c ∉ a := fun e => h (by simp [e])
    simp only [List.dropWhile_cons, ne_eq, hx, not_false_eq_true, decide_true, if_true]
    rw [ih ha]

/-! ### characters -/

theorem isWs_nl : isWs '\n' = true := by decide
theorem isWs_space : isWs ' ' = true := by decide
theorem isWs_semi : isWs ';' = false := by decide
theorem isWs_hash : isWs '#' = false := by decide
theorem isWs_lbr : isWs '[' = false := by decide
theorem isWs_rbr : isWs ']' = false := by decide

/-! ### blank / strip / split -/

theorem isBlank_nil : isBlank [] = true := rfl

theorem isBlank_cons (c : Char) (s : Str) : isBlank (c :: s) = (isWs c && isBlank s) := by
  simp [isBlank]

theorem isBlank_append (a b : Str) : isBlank (a ++ b) = (isBlank a && isBlank b) := by
  simp [isBlank]

theorem isBlank_iff {s : Str} : isBlank s = true ↔ ∀ c ∈ s, isWs c = true := by
  simp [isBlank]

theorem not_mem_of_isBlank {s : Str} {c : Char} (h : isBlank s = true) (hc : isWs c = false) :
    c ∉ s := by
  intro hm
  have := isBlank_iff.mp h c hm
  simp [hc] at this

theorem lstrip_blank {s : Str} (h : isBlank s = true) : lstrip s = [] := by
  unfold lstrip
  rw [dropWhile_eq_nil_iff']
  exact isBlank_iff.mp h

theorem lstrip_append_of_not_blank {s : Str} (w : Str) (h : isBlank s = false) :
    lstrip (s ++ w) = lstrip s ++ w := by
  induction s with
  | nil => simp [isBlank] at h
  | cons c s ih =>
    rw [isBlank_cons] at h
    by_cases hc : isWs c = true
    · simp only [hc, Bool.true_and] at h
      simp only [lstrip, List.cons_append, List.dropWhile_cons, hc, if_true]
      exact ih h
    · simp [lstrip, List.dropWhile_cons, hc]

theorem rstrip_append_blank (s : Str) {w : Str} (h : isBlank w = true) :
    rstrip (s ++ w) = rstrip s := by
  unfold rstrip
  rw [List.reverse_append]
  congr 1
  have hw : ∀ c ∈ w.reverse, isWs c = true := by
    intro c hc; exact isBlank_iff.mp h c (List.mem_reverse.mp hc)
  generalize w.reverse = v at hw
  induction v with
  | nil => rfl
  | cons a v ih =>
    have ha : isWs a = true := hw a (by simp)
    simp only [List.cons_append, List.dropWhile_cons, ha, if_true]
    exact ih (fun c hc => hw c (by simp [hc]))

theorem strip_blank {s : Str} (h : isBlank s = true) : strip s = [] := by
  unfold strip; rw [lstrip_blank h]; rfl

theorem strip_append_blank (s : Str) {w : Str} (h : isBlank w = true) :
    strip (s ++ w) = strip s := by
  by_cases hs : isBlank s = true
  · rw [strip_blank hs, strip_blank]; rw [isBlank_append, hs, h]; rfl
  · have hs' : isBlank s = false := by simpa using hs
    unfold strip
    rw [lstrip_append_of_not_blank w hs', rstrip_append_blank _ h]

theorem strip_cons_ws {c : Char} (s : Str) (h : isWs c = true) : strip (c :: s) = strip s := by
  simp [strip, lstrip, List.dropWhile_cons, h]

theorem lstrip_eq_nil_iff {s : Str} : lstrip s = [] ↔ isBlank s = true := by
  unfold lstrip
  rw [dropWhile_eq_nil_iff', isBlank_iff]

theorem rstrip_eq_nil_iff {s : Str} : rstrip s = [] ↔ isBlank s = true := by
  unfold rstrip
  rw [List.reverse_eq_nil_iff, dropWhile_eq_nil_iff', isBlank_iff]
  simp

theorem isBlank_lstrip {s : Str} : isBlank (lstrip s) = isBlank s := by
  induction s with
  | nil => rfl
  | cons c s ih =>
    by_cases hc : isWs c = true
    · simp [lstrip, List.dropWhile_cons, hc, isBlank_cons] at ih ⊢; exact ih
    · simp [lstrip, List.dropWhile_cons, hc]

theorem strip_eq_nil_iff {s : Str} : strip s = [] ↔ isBlank s = true := by
  unfold strip
  rw [rstrip_eq_nil_iff, isBlank_lstrip]

theorem splitGo_blank (cur : Str) {w : Str} (h : isBlank w = true) :
    splitGo cur w = splitGo cur [] := by
  induction w generalizing cur with
  | nil => rfl
  | cons c w ih =>
    rw [isBlank_cons, Bool.and_eq_true] at h
    simp only [splitGo, h.1, if_true]
    by_cases hc : cur.isEmpty = true
    · simp only [hc, if_true]; rw [ih [] h.2]
      have : cur = [] := by simpa using hc
      subst this; rfl
    · simp only [hc, if_false]; rw [ih [] h.2]; simp [splitGo]

theorem splitGo_append_blank (cur s : Str) {w : Str} (h : isBlank w = true) :
    splitGo cur (s ++ w) = splitGo cur s := by
  induction s generalizing cur with
  | nil => simpa using splitGo_blank cur h
  | cons c s ih =>
    simp only [List.cons_append, splitGo]
    split_ifs <;> simp [ih]

theorem split_append_blank (s : Str) {w : Str} (h : isBlank w = true) : split (s ++ w) = split s :=
  splitGo_append_blank [] s h

theorem split_blank {s : Str} (h : isBlank s = true) : split s = [] := by
  unfold split; rw [splitGo_blank [] h]; rfl

theorem splitGo_ne_nil_of_cur {cur : Str} (s : Str) (h : cur ≠ []) : splitGo cur s ≠ [] := by
  induction s generalizing cur with
  | nil => simp [splitGo, h]
  | cons c s ih =>
    simp only [splitGo]
    split_ifs with h1 h2
    · simp at h2; exact absurd h2 h
    · simp
    · exact ih (by simp)

theorem split_eq_nil_iff {s : Str} : split s = [] ↔ isBlank s = true := by
  constructor
  · intro h
    induction s with
    | nil => rfl
    | cons c s ih =>
      rw [isBlank_cons]
      unfold split at h ih
      simp only [splitGo] at h
      by_cases hc : isWs c = true
      · simp only [hc, if_true, List.isEmpty_nil] at h
        simp [hc, ih h]
      · simp only [hc] at h
        exact absurd h (splitGo_ne_nil_of_cur s (by simp))
  · exact split_blank

/-! ### chomp (spec side): remove one final newline -/

/-- the line without its terminator -/
def chomp (l : Str) : Str := if l.getLast? = some '\n' then l.dropLast else l

theorem chomp_append_nl (s : Str) : chomp (s ++ ['\n']) = s := by
  simp [chomp]

theorem chomp_eq_or (l : Str) : l = chomp l ∨ l = chomp l ++ ['\n'] := by
  unfold chomp
  split_ifs with h
  · right
    rcases List.eq_nil_or_concat l with h0 | ⟨b, c, h1⟩
    · subst h0; simp at h
    · subst h1; simp at h; subst h; simp
  · left; rfl

theorem strip_chomp (l : Str) : strip (chomp l) = strip l := by
  rcases chomp_eq_or l with h | h
  · rw [← h]
  · conv_rhs => rw [h]
    rw [strip_append_blank]; simp [isBlank, isWs_nl]

theorem split_chomp (l : Str) : split (chomp l) = split l := by
  rcases chomp_eq_or l with h | h
  · rw [← h]
  · conv_rhs => rw [h]
    rw [split_append_blank]; simp [isBlank, isWs_nl]

theorem isBlank_chomp (l : Str) : isBlank (chomp l) = isBlank l := by
  rcases chomp_eq_or l with h | h
  · rw [← h]
  · conv_rhs => rw [h]
    rw [isBlank_append]; simp [isBlank, isWs_nl]

theorem chomp_append_of_ne_nil (a : Str) {b : Str} (h : b ≠ []) : chomp (a ++ b) = a ++ chomp b := by
  unfold chomp
  rw [List.getLast?_append_of_ne_nil _ h]
  split_ifs
  · rw [List.dropLast_append_of_ne_nil h]
  · rfl

theorem chomp_cons_of_ne_nil (c : Char) {b : Str} (h : b ≠ []) : chomp (c :: b) = c :: chomp b :=
  chomp_append_of_ne_nil [c] h

/-! ### cutFirst -/

theorem cutFirst_append {c : Char} {a : Str} (b : Str) (h : c ∉ a) :
    cutFirst c (a ++ c :: b) = (a, b) := by
  unfold cutFirst
  rw [takeWhile_ne_append b h, dropWhile_ne_append b h]; rfl

theorem cutFirst_not_mem {c : Char} {a : Str} (h : c ∉ a) : cutFirst c a = (a, []) := by
  unfold cutFirst
  rw [takeWhile_ne_self h, dropWhile_ne_self h]; rfl

theorem exists_cut_of_mem {c : Char} {s : Str} (h : c ∈ s) :
    ∃ a b, s = a ++ c :: b ∧ c ∉ a := by
  induction s with
  | nil => simp at h
  | cons x s ih =>
    by_cases hx : x = c
    · exact ⟨[], s, by simp [hx], by simp⟩
    · have : c ∈ s := by
        rcases List.mem_cons.mp h with e | e
        · exact absurd e.symm hx
        · exact e
      obtain ⟨a, b, hab, hc⟩ := ih this
      refine ⟨x :: a, b, by simp [hab], ?_⟩
      intro hm
      rcases List.mem_cons.mp hm with e | e
      · exact hx e.symm
      · exact hc e

/-! ### specification-level reading of a line (independent of `parse_itp_line`'s cascade)

An `Item` is what the property compares: a preprocessor line verbatim (without terminator), or
the content tokens plus the stripped comment of a line that has either. -/

inductive Item
  | pp (raw : Str)
  | ln (toks : List Str) (comment : Str)
deriving DecidableEq, Repr

/-- SPEC: the item a physical line carries: remove the terminator; blank → nothing; first
    character `#` → preprocessor line; otherwise cut at the first `;` -/
def specItem (l : Str) : Option Item :=
  let body := chomp l
  if isBlank body then none
  else if body.head? = some '#' then some (.pp body)
  else
    let cm := cutFirst ';' body
    if split cm.1 = [] ∧ strip cm.2 = [] then none else some (.ln (split cm.1) (strip cm.2))

/-- the item an `ItpLine` OBJECT shows through `.content` / `.comment` / `.line` -/
def viewLine (x : ItpLine) : Option Item :=
  if x.directive then some (.pp (chomp x.comment))
  else if split x.content = [] ∧ strip x.comment = [] then none
  else some (.ln (split x.content) (strip x.comment))

/-! ### `parse_itp_line` by cases -/

inductive LineCase (r c m : Str) : Prop
  | blank : isBlank r = true → c = [] → m = [] → LineCase r c m
  | directive : r.head? = some '#' → c = [] → m = r → LineCase r c m
  | cut : isBlank r = false → r.head? ≠ some '#' → r = c ++ ';' :: m → ';' ∉ c → LineCase r c m
  | plain : isBlank r = false → r.head? ≠ some '#' → ';' ∉ r → c = r → m = [] → LineCase r c m

theorem eq_dropLast_append_getLast {r : Str} {a : Char} (h : r.getLast? = some a) :
    r = r.dropLast ++ [a] := by
  rcases List.eq_nil_or_concat r with h0 | ⟨b, c, h1⟩
  · subst h0; simp at h
  · subst h1; simp at h; subst h; simp

theorem parseItpLine_cases {r c m : Str} (h : parseItpLine r = .ok (c, m)) : LineCase r c m := by
  unfold parseItpLine at h
  split_ifs at h with h1 h2 h3 h4 h5 h6
  · simp only [Except.ok.injEq, Prod.mk.injEq] at h
    exact .blank h1 h.1.symm h.2.symm
  · simp only [Except.ok.injEq, Prod.mk.injEq] at h
    exact .directive h3 h.1.symm h.2.symm
  · simp only [Except.ok.injEq, Prod.mk.injEq] at h
    have hb : isBlank r = false := by simpa using h1
    refine .cut hb h3 ?_ (by rw [← h.1]; simp)
    rw [← h.1, ← h.2]
    cases r with
    | nil => simp at h4
    | cons a t => simp at h4; subst h4; simp
  · simp only [Except.ok.injEq] at h
    have hb : isBlank r = false := by simpa using h1
    have hm : ';' ∈ r := by
      have : ';' ∈ r.dropLast := by simpa using h5
      exact List.dropLast_subset r this
    obtain ⟨a, b, hab, hc⟩ := exists_cut_of_mem hm
    rw [hab, cutFirst_append b hc] at h
    simp only [Prod.mk.injEq] at h
    rw [← h.1, ← h.2]
    exact .cut hb h3 hab hc
  · simp only [Except.ok.injEq, Prod.mk.injEq] at h
    have hb : isBlank r = false := by simpa using h1
    have h5' : ';' ∉ r.dropLast := by simpa using h5
    rw [← h.1, ← h.2]
    exact .cut hb h3 (eq_dropLast_append_getLast h6) h5'
  · simp only [Except.ok.injEq, Prod.mk.injEq] at h
    have hb : isBlank r = false := by simpa using h1
    have h5' : ';' ∉ r.dropLast := by simpa using h5
    refine .plain hb h3 ?_ h.1.symm h.2.symm
    intro hm
    rcases List.eq_nil_or_concat r with h0 | ⟨b, a, hr⟩
    · subst h0; simp at hm
    · subst hr
      simp at h5' h6 hm
      rcases hm with hm | hm
      · exact h5' hm
      · exact h6 hm.symm

/-- the only error of `parse_itp_line` is the section-header one -/
theorem parseItpLine_ok_of_not_reHeader {r : Str} (h : reHeader r = false) :
    ∃ c m, parseItpLine r = .ok (c, m) := by
  unfold parseItpLine
  split_ifs
  · exact ⟨_, _, rfl⟩
  · simp_all
  · exact ⟨_, _, rfl⟩
  · exact ⟨_, _, rfl⟩
  · exact ⟨_, _, rfl⟩
  · exact ⟨_, _, rfl⟩
  · exact ⟨_, _, rfl⟩

theorem mkLine_eq_ok {k : SecKind} {r : Str} {x : ItpLine} (h : mkLine k r = .ok x) :
    ∃ c m, parseItpLine r = .ok (c, m) ∧ lineCheck k c = .ok () ∧
      x = ⟨c, m, decide (r.head? = some '#')⟩ := by
  unfold mkLine at h
  cases hp : parseItpLine r with
  | error e => rw [hp] at h; simp [bind, Except.bind] at h
  | ok cm =>
    obtain ⟨c, m⟩ := cm
    rw [hp] at h
    cases hl : lineCheck k c with
    | error e => simp [bind, Except.bind, hl] at h
    | ok u =>
      simp [bind, Except.bind, hl, pure, Except.pure] at h
      exact ⟨c, m, rfl, hl, h.symm⟩

theorem mkLine_of_parts {k : SecKind} {r c m : Str} (hp : parseItpLine r = .ok (c, m))
    (hl : lineCheck k c = .ok ()) : mkLine k r = .ok ⟨c, m, decide (r.head? = some '#')⟩ := by
  unfold mkLine
  simp [hp, hl, bind, Except.bind, pure, Except.pure]

theorem lineCheck_congr (k : SecKind) {c c' : Str} (h : split c = split c') :
    lineCheck k c = lineCheck k c' := by
  have hb : isBlank c = isBlank c' := by
    have h1 := @split_eq_nil_iff c
    have h2 := @split_eq_nil_iff c'
    rw [h] at h1
    cases hc : isBlank c <;> cases hc' : isBlank c' <;> simp_all
  unfold lineCheck
  rw [hb, h]

/-- well-formedness of a line object: what `mkLine` guarantees and `lineStr` needs -/
def LineWF (x : ItpLine) : Prop :=
  (x.directive = true → x.content = [] ∧ x.comment.head? = some '#') ∧
  (x.directive = false → ';' ∉ x.content ∧ x.content.head? ≠ some '#')

theorem head?_append_of_ne_nil {a b : Str} (h : a ≠ []) : (a ++ b).head? = a.head? := by
  cases a with
  | nil => exact absurd rfl h
  | cons x a => rfl

theorem not_head_hash_of_blank {r : Str} (hb : isBlank r = true) : r.head? ≠ some '#' := by
  intro e
  cases r with
  | nil => simp at e
  | cons a t =>
    simp at e; subst e
    rw [isBlank_cons] at hb; simp [isWs_hash] at hb

theorem parse_wf {r c m : Str} (hp : parseItpLine r = .ok (c, m)) :
    LineWF ⟨c, m, decide (r.head? = some '#')⟩ := by
  rcases parseItpLine_cases hp with ⟨hb, hc, hm⟩ | ⟨hd, hc, hm⟩ | ⟨hb, hd, hr, hc⟩ | ⟨hb, hd, hs, hc, hm⟩
  · have := not_head_hash_of_blank hb
    constructor
    · intro hx; simp [this] at hx
    · intro _; simp [hc]
  · constructor
    · intro _; exact ⟨hc, by rw [hm]; exact hd⟩
    · intro hx; simp [hd] at hx
  · constructor
    · intro hx; simp [hd] at hx
    · intro _
      refine ⟨hc, ?_⟩
      cases c with
      | nil => simp
      | cons a t => rw [hr] at hd; simpa using hd
  · constructor
    · intro hx; simp [hd] at hx
    · intro _; simp only [hc]; exact ⟨hs, hd⟩

theorem mkLine_wf {k : SecKind} {r : Str} {x : ItpLine} (h : mkLine k r = .ok x) : LineWF x := by
  obtain ⟨c, m, hp, _, hx⟩ := mkLine_eq_ok h
  rw [hx]; exact parse_wf hp

theorem chomp_cons_of_ne_nl {c : Char} (m : Str) (h : c ≠ '\n') : chomp (c :: m) = c :: chomp m := by
  cases m with
  | nil => simp [chomp, h]
  | cons b t => exact chomp_cons_of_ne_nil c (by simp)

theorem specItem_directive {r : Str} (h : r.head? = some '#') : specItem r = some (.pp (chomp r)) := by
  cases r with
  | nil => simp at h
  | cons a t =>
    simp at h; subst h
    have hc : chomp ('#' :: t) = '#' :: chomp t := chomp_cons_of_ne_nl t (by decide)
    simp [specItem, hc, isBlank_cons, isWs_hash]

theorem specItem_cut {c : Str} (m : Str) (hc : ';' ∉ c) (hh : c.head? ≠ some '#') :
    specItem (c ++ ';' :: m) =
      if split c = [] ∧ strip m = [] then none else some (.ln (split c) (strip m)) := by
  have hbody : chomp (c ++ ';' :: m) = c ++ ';' :: chomp m := by
    rw [chomp_append_of_ne_nil c (by simp), chomp_cons_of_ne_nl m (by decide)]
  have hnb : isBlank (c ++ ';' :: chomp m) = false := by
    rw [isBlank_append, isBlank_cons]; simp [isWs_semi]
  have hhd : (c ++ ';' :: chomp m).head? ≠ some '#' := by
    cases c with
    | nil => simp
    | cons a t => simpa using hh
  unfold specItem
  simp only [hbody, hnb, hhd, cutFirst_append _ hc, strip_chomp]
  simp

theorem specItem_plain {r : Str} (hs : ';' ∉ r) (hh : r.head? ≠ some '#') :
    specItem r = if split r = [] then none else some (.ln (split r) []) := by
  by_cases hb : isBlank r = true
  · simp [specItem, isBlank_chomp, hb, split_blank hb]
  · have hb' : isBlank r = false := by simpa using hb
    have hcb : isBlank (chomp r) = false := by rw [isBlank_chomp]; exact hb'
    have hh' : (chomp r).head? ≠ some '#' := by
      intro e
      rcases chomp_eq_or r with h1 | h1
      · rw [← h1] at e; exact hh e
      · rw [h1] at hh
        have : chomp r ≠ [] := by intro e0; rw [e0] at e; simp at e
        rw [head?_append_of_ne_nil this] at hh; exact hh e
    have hsc : ';' ∉ chomp r := by
      intro e
      rcases chomp_eq_or r with h1 | h1
      · rw [← h1] at e; exact hs e
      · rw [h1] at hs; exact hs (by simp [e])
    have hne : split r ≠ [] := by
      intro e; rw [split_eq_nil_iff] at e; rw [e] at hb'; simp at hb'
    have hst : strip ([] : Str) = [] := rfl
    unfold specItem
    simp only [hcb, hh', cutFirst_not_mem hsc, split_chomp, hne, hst]
    simp

/-- LINE FAITHFULNESS: the object built from a raw line shows exactly the item the
    specification reads off that line -/
theorem viewLine_of_parse {r c m : Str} (hp : parseItpLine r = .ok (c, m)) :
    viewLine ⟨c, m, decide (r.head? = some '#')⟩ = specItem r := by
  have hst : strip ([] : Str) = [] := rfl
  have hsp : split ([] : Str) = [] := rfl
  rcases parseItpLine_cases hp with ⟨hb, hc, hm⟩ | ⟨hd, hc, hm⟩ | ⟨hb, hd, hr, hc⟩ | ⟨hb, hd, hs, hc, hm⟩
  · have hd := not_head_hash_of_blank hb
    have : ';' ∉ r := not_mem_of_isBlank hb isWs_semi
    rw [specItem_plain this hd, split_blank hb]
    simp [viewLine, hd, hc, hm, hst, hsp]
  · rw [specItem_directive hd]
    simp [viewLine, hd, hm]
  · have hh : c.head? ≠ some '#' := by
      cases c with
      | nil => simp
      | cons a t => rw [hr] at hd; simpa using hd
    conv_rhs => rw [hr]
    rw [specItem_cut m hc hh]
    simp [viewLine, hd]
  · rw [specItem_plain hs hd]
    simp [viewLine, hd, hc, hm, hst]

theorem viewLine_mkLine {k : SecKind} {r : Str} {x : ItpLine} (h : mkLine k r = .ok x) :
    viewLine x = specItem r := by
  obtain ⟨c, m, hp, _, hx⟩ := mkLine_eq_ok h
  rw [hx]; exact viewLine_of_parse hp

/-- LINE ROUND TRIP (specification side): the text `ItpLine.line` emits for a well-formed line
    object carries exactly the item the object shows -/
theorem specItem_lineStr {x : ItpLine} (h : LineWF x) : specItem x.lineStr = viewLine x := by
  obtain ⟨c, m, d⟩ := x
  cases d with
  | true =>
    obtain ⟨hc, hm⟩ := h.1 rfl
    simp only at hc hm
    simp [ItpLine.lineStr, viewLine, specItem_directive hm]
  | false =>
    obtain ⟨hc, hh⟩ := h.2 rfl
    simp only at hc hh
    by_cases hb : isBlank m = true
    · have hs : ';' ∉ c ++ m := by
        intro e
        rcases List.mem_append.mp e with e | e
        · exact hc e
        · exact not_mem_of_isBlank hb isWs_semi e
      have hhd : (c ++ m).head? ≠ some '#' := by
        cases c with
        | nil => simpa using not_head_hash_of_blank hb
        | cons a t => simpa using hh
      simp only [ItpLine.lineStr, hb, Bool.false_eq_true, if_false, Bool.not_true]
      rw [specItem_plain hs hhd, split_append_blank c hb]
      simp [viewLine, strip_blank hb]
    · have hb' : isBlank m = false := by simpa using hb
      have hsm : strip m ≠ [] := by
        intro e; rw [strip_eq_nil_iff] at e; rw [e] at hb'; simp at hb'
      simp only [ItpLine.lineStr, hb', Bool.false_eq_true, if_false, Bool.not_false, if_true]
      rw [specItem_cut _ hc hh, strip_cons_ws m isWs_space]
      simp [viewLine, hsm]

/-! ### section-header recognition -/

theorem dropWhile_append_singleton {p : Char → Bool} (l : Str) {a : Char} (h : p a = false) :
    (l ++ [a]).dropWhile p = l.dropWhile p ++ [a] := by
  induction l with
  | nil => simp [List.dropWhile_cons, h]
  | cons x l ih =>
    by_cases hx : p x = true
    · simp [List.dropWhile_cons, hx, ih]
    · simp [List.dropWhile_cons, hx]

theorem rstrip_cons_nonws {a : Char} (s : Str) (h : isWs a = false) :
    rstrip (a :: s) = a :: rstrip s := by
  unfold rstrip
  rw [List.reverse_cons, dropWhile_append_singleton _ h]
  simp

theorem rstrip_decomp (s : Str) : ∃ w, s = rstrip s ++ w ∧ isBlank w = true := by
  refine ⟨(s.reverse.takeWhile isWs).reverse, ?_, ?_⟩
  · unfold rstrip
    rw [← List.reverse_append, List.takeWhile_append_dropWhile, List.reverse_reverse]
  · rw [isBlank_iff]
    intro c hc
    have := mem_takeWhile_imp' (List.mem_reverse.mp hc)
    exact this

theorem lstrip_head_nonws (s : Str) : ∀ a t, lstrip s = a :: t → isWs a = false := by
  intro a t h
  have := List.head?_dropWhile_not isWs s
  unfold lstrip at h
  rw [h] at this
  simpa using this

/-- the header test without the right strip: first non-blank character is `[` and a `]` follows
    before any newline -/
def hdrTest (l : Str) : Bool :=
  match lstrip l with
  | '[' :: rest => (rest.takeWhile (· ≠ '\n')).contains ']'
  | _ => false

theorem mem_tw_append_blank (a : Str) {w : Str} (h : isBlank w = true) :
    ']' ∈ (a ++ w).takeWhile (· ≠ '\n') ↔ ']' ∈ a.takeWhile (· ≠ '\n') := by
  rw [List.takeWhile_append]
  split_ifs with hl
  · have : a.takeWhile (· ≠ '\n') = a := by
      have hp := List.takeWhile_prefix (l := a) (· ≠ '\n')
      exact List.IsPrefix.eq_of_length hp hl
    rw [this]
    constructor
    · intro hm
      rcases List.mem_append.mp hm with e | e
      · exact e
      · have : ']' ∈ w := (List.takeWhile_prefix _).subset e
        exact absurd this (not_mem_of_isBlank h isWs_rbr)
    · intro hm; exact List.mem_append_left _ hm
  · rfl

theorem reHeader_cons_ne {a : Char} (s : Str) (h : a ≠ '[') : reHeader (a :: s) = false := by
  unfold reHeader
  split
  · rename_i rest heq
    simp at heq; exact absurd heq.1 h
  · rfl

theorem reHeader_lbr (s : Str) :
    reHeader ('[' :: s) = (s.takeWhile (· ≠ '\n')).contains ']' := rfl

theorem isHeaderLine_eq_hdrTest (l : Str) : isHeaderLine l = hdrTest l := by
  unfold isHeaderLine strip hdrTest
  cases h : lstrip l with
  | nil => rfl
  | cons a rest =>
    have ha := lstrip_head_nonws l a rest h
    rw [rstrip_cons_nonws rest ha]
    by_cases hb : a = '['
    · subst hb
      rw [reHeader_lbr]
      obtain ⟨w, hw, hbw⟩ := rstrip_decomp rest
      have := mem_tw_append_blank (rstrip rest) hbw
      rw [← hw] at this
      rw [Bool.eq_iff_iff]
      simp only [List.contains_iff_mem]
      exact this.symm
    · rw [reHeader_cons_ne _ hb]
      split
      · rename_i r heq; simp at heq; exact absurd heq.1 hb
      · rfl

theorem isHeaderLine_of_reHeader {l : Str} (h : reHeader l = true) : isHeaderLine l = true := by
  cases l with
  | nil => simp [reHeader] at h
  | cons a t =>
    by_cases ha : a = '['
    · subst ha
      rw [isHeaderLine_eq_hdrTest]
      unfold hdrTest
      have : lstrip ('[' :: t) = '[' :: t := by simp [lstrip, List.dropWhile_cons, isWs_lbr]
      rw [this]
      exact h
    · rw [reHeader_cons_ne _ ha] at h; simp at h

theorem reHeader_false_of_not_header {l : Str} (h : isHeaderLine l = false) : reHeader l = false := by
  cases hr : reHeader l with
  | false => rfl
  | true => rw [isHeaderLine_of_reHeader hr] at h; simp at h

theorem hdrTest_blank {l : Str} (h : isBlank l = true) : hdrTest l = false := by
  unfold hdrTest; rw [lstrip_blank h]

theorem lstrip_append_of_blank {c : Str} (r : Str) (h : isBlank c = true) :
    lstrip (c ++ r) = lstrip r := by
  induction c with
  | nil => rfl
  | cons a c ih =>
    rw [isBlank_cons, Bool.and_eq_true] at h
    simp only [lstrip, List.cons_append, List.dropWhile_cons, h.1, if_true]
    exact ih h.2

/-- inserting or removing a character other than `]` and newline does not change whether a `]` is
    visible before the first newline -/
theorem mem_tw_insert (a b : Str) {s : Char} (h1 : s ≠ ']') (h2 : s ≠ '\n') :
    ']' ∈ (a ++ s :: b).takeWhile (· ≠ '\n') ↔ ']' ∈ (a ++ b).takeWhile (· ≠ '\n') := by
  induction a with
  | nil =>
    simp only [List.nil_append, List.takeWhile_cons, ne_eq, h2, not_false_eq_true, decide_true,
      if_true, List.mem_cons]
    constructor
    · intro h; rcases h with e | e
      · exact absurd e.symm h1
      · exact e
    · intro h; exact Or.inr h
  | cons x a ih =>
    by_cases hx : x = '\n'
    · simp [List.takeWhile_cons, hx]
    · simp only [List.cons_append, List.takeWhile_cons, ne_eq, hx, not_false_eq_true, decide_true,
        if_true, List.mem_cons, ih]

theorem hdrTest_insert (c m : Str) {s : Char} (h1 : s ≠ ']') (h2 : s ≠ '\n') (h3 : s ≠ '[')
    (hc : isBlank c = false) : hdrTest (c ++ s :: m) = hdrTest (c ++ m) := by
  unfold hdrTest
  rw [lstrip_append_of_not_blank _ hc, lstrip_append_of_not_blank _ hc]
  cases h : lstrip c with
  | nil => rw [lstrip_eq_nil_iff] at h; rw [h] at hc; simp at hc
  | cons a t =>
    by_cases ha : a = '['
    · subst ha
      simp only [List.cons_append]
      rw [Bool.eq_iff_iff]
      simp only [List.contains_iff_mem]
      exact mem_tw_insert t m h1 h2
    · simp only [List.cons_append]
      split
      · rename_i r heq; simp at heq; exact absurd heq.1 ha
      · split
        · rename_i r heq; simp at heq; exact absurd heq.1 ha
        · rfl

theorem hdrTest_of_lstrip_cons_ne {l : Str} {a : Char} {t : Str} (h : lstrip l = a :: t)
    (ha : a ≠ '[') : hdrTest l = false := by
  unfold hdrTest
  rw [h]
  split
  · rename_i r heq; simp at heq; exact absurd heq.1 ha
  · rfl

theorem hdrTest_semi (m : Str) : hdrTest (';' :: m) = false := by
  have : lstrip (';' :: m) = ';' :: m := by simp [lstrip, List.dropWhile_cons, isWs_semi]
  exact hdrTest_of_lstrip_cons_ne this (by decide)

/-- the shapes `ItpLine.line` gives a `content ; comment` line are section headers only if
    the source line was one -/
theorem hdrTest_cut_space {c m : Str} (h : hdrTest (c ++ ';' :: m) = false) :
    hdrTest (c ++ ';' :: ' ' :: m) = false := by
  by_cases hc : isBlank c = true
  · have : lstrip (c ++ ';' :: ' ' :: m) = ';' :: ' ' :: m := by
      rw [lstrip_append_of_blank _ hc]; simp [lstrip, List.dropWhile_cons, isWs_semi]
    exact hdrTest_of_lstrip_cons_ne this (by decide)
  · have hc' : isBlank c = false := by simpa using hc
    have e : c ++ ';' :: ' ' :: m = (c ++ [';']) ++ ' ' :: m := by simp
    have e2 : c ++ ';' :: m = (c ++ [';']) ++ m := by simp
    have hc2 : isBlank (c ++ [';']) = false := by rw [isBlank_append, hc']; rfl
    rw [e, hdrTest_insert _ _ (by decide) (by decide) (by decide) hc2, ← e2]; exact h

theorem hdrTest_cut_drop {c m : Str} (h : hdrTest (c ++ ';' :: m) = false)
    (hm : isBlank m = true) : hdrTest (c ++ m) = false := by
  by_cases hc : isBlank c = true
  · apply hdrTest_blank; rw [isBlank_append, hc, hm]; rfl
  · have hc' : isBlank c = false := by simpa using hc
    rw [← hdrTest_insert c m (s := ';') (by decide) (by decide) (by decide) hc']; exact h

theorem hdrTest_append_nl (u : Str) : hdrTest (u ++ ['\n']) = hdrTest u := by
  by_cases hu : isBlank u = true
  · rw [hdrTest_blank hu, hdrTest_blank]; rw [isBlank_append, hu]; rfl
  · have hu' : isBlank u = false := by simpa using hu
    unfold hdrTest
    rw [lstrip_append_of_not_blank _ hu']
    cases h : lstrip u with
    | nil => rw [lstrip_eq_nil_iff] at h; rw [h] at hu'; simp at hu'
    | cons a t =>
      by_cases ha : a = '['
      · subst ha
        simp only [List.cons_append]
        rw [Bool.eq_iff_iff]
        simp only [List.contains_iff_mem]
        exact mem_tw_append_blank t (by simp [isBlank, isWs_nl])
      · simp only [List.cons_append]
        split
        · rename_i r heq; simp at heq; exact absurd heq.1 ha
        · split
          · rename_i r heq; simp at heq; exact absurd heq.1 ha
          · rfl

/-- what `ItpLine.line` emits for an object built from a non-header line is not a header line -/
theorem not_header_lineStr {k : SecKind} {r : Str} {x : ItpLine} (h : mkLine k r = .ok x)
    (hr : isHeaderLine r = false) : isHeaderLine x.lineStr = false := by
  obtain ⟨c, m, hp, _, hx⟩ := mkLine_eq_ok h
  rw [isHeaderLine_eq_hdrTest] at hr ⊢
  rw [hx]
  rcases parseItpLine_cases hp with ⟨hb, hc, hm⟩ | ⟨hd, hc, hm⟩ | ⟨hb, hd, hr', hc⟩ | ⟨hb, hd, hs, hc, hm⟩
  · have := not_head_hash_of_blank hb
    simp [ItpLine.lineStr, this, hc, hm, isBlank]
    exact hdrTest_blank rfl
  · simp [ItpLine.lineStr, hd, hm]; exact hr
  · rw [hr'] at hr
    by_cases hbm : isBlank m = true
    · simp [ItpLine.lineStr, hd, hbm]; exact hdrTest_cut_drop hr hbm
    · simp [ItpLine.lineStr, hd, hbm]; exact hdrTest_cut_space hr
  · simp [ItpLine.lineStr, hd, hm, hc, isBlank]; exact hr

/-! ### section names -/

theorem lstrip_of_head_nonws {a : Char} (t : Str) (h : isWs a = false) : lstrip (a :: t) = a :: t := by
  simp [lstrip, List.dropWhile_cons, h]

theorem rstrip_of_last_nonws {s : Str} (h : ∀ a, s.getLast? = some a → isWs a = false) :
    rstrip s = s := by
  unfold rstrip
  cases hr : s.reverse with
  | nil => simp at hr; subst hr; rfl
  | cons a t =>
    have : s.getLast? = some a := by rw [← List.head?_reverse, hr]; rfl
    have ha := h a this
    rw [List.dropWhile_cons]; simp only [ha]
    simp only [Bool.false_eq_true, if_false]
    rw [← hr, List.reverse_reverse]

theorem rstrip_last_nonws (s : Str) : ∀ a, (rstrip s).getLast? = some a → isWs a = false := by
  intro a h
  unfold rstrip at h
  rw [List.getLast?_reverse] at h
  have := List.head?_dropWhile_not isWs s.reverse
  rw [h] at this
  simpa using this

theorem mem_rstrip {c : Char} {s : Str} (h : c ∈ rstrip s) : c ∈ s := by
  unfold rstrip at h
  rw [List.mem_reverse] at h
  exact List.mem_reverse.mp ((List.dropWhile_sublist _).subset h)

theorem mem_lstrip {c : Char} {s : Str} (h : c ∈ lstrip s) : c ∈ s :=
  (List.dropWhile_sublist _).subset h

theorem mem_strip {c : Char} {s : Str} (h : c ∈ strip s) : c ∈ s := mem_lstrip (mem_rstrip h)

theorem strip_strip (s : Str) : strip (strip s) = strip s := by
  unfold strip
  have hl : lstrip (rstrip (lstrip s)) = rstrip (lstrip s) := by
    cases h : lstrip s with
    | nil => rfl
    | cons a t =>
      have ha := lstrip_head_nonws s a t h
      rw [rstrip_cons_nonws t ha, lstrip_of_head_nonws _ ha]
  rw [hl]
  exact rstrip_of_last_nonws (rstrip_last_nonws _)

/-- a usable section name: stripped and newline-free (every name `sectionName` yields is one) -/
def GoodName (n : Str) : Prop := strip n = n ∧ '\n' ∉ n

/-- the header line `ItpSection.__str__` writes -/
def hdrLine (n : Str) : Str := '[' :: ' ' :: (n ++ [' ', ']', '\n'])

theorem sectionName_good {l n : Str} (h : sectionName l = some n) : GoodName n := by
  unfold sectionName at h
  simp only at h
  split at h
  · simp at h
  · rename_i x rest heq
    split_ifs at h with hc
    simp only [Option.some.injEq] at h
    subst h
    refine ⟨strip_strip _, ?_⟩
    intro hm
    have h1 := mem_strip hm
    rw [List.mem_reverse] at h1
    have h2 := List.mem_of_mem_drop h1
    have h3 := (List.dropWhile_sublist _).subset h2
    rw [List.mem_reverse] at h3
    have h4 : '\n' ∈ x :: rest := List.mem_cons_of_mem _ h3
    rw [← heq] at h4
    have h5 := (List.dropWhile_sublist _).subset h4
    have := mem_takeWhile_imp' h5
    simp at this

theorem tw_nl_hdr {n : Str} (h : '\n' ∉ n) (pre : Str) (hpre : '\n' ∉ pre) :
    (pre ++ n ++ [' ', ']', '\n']).takeWhile (· ≠ '\n') = pre ++ n ++ [' ', ']'] := by
  have e : pre ++ n ++ [' ', ']', '\n'] = (pre ++ n ++ [' ', ']']) ++ '\n' :: [] := by simp
  rw [e]
  apply takeWhile_ne_append
  intro hm
  simp only [List.mem_append, List.mem_cons] at hm
  rcases hm with (hm | hm) | hm
  · exact hpre hm
  · exact h hm
  · simp at hm

theorem isHeaderLine_hdrLine {n : Str} (h : '\n' ∉ n) : isHeaderLine (hdrLine n) = true := by
  rw [isHeaderLine_eq_hdrTest]
  unfold hdrTest hdrLine
  rw [lstrip_of_head_nonws _ isWs_lbr]
  have := tw_nl_hdr h [' '] (by decide)
  simp only [List.cons_append, List.nil_append] at this
  simp only [List.cons_append, this]
  simp

theorem sectionName_hdrLine {n : Str} (h : GoodName n) : sectionName (hdrLine n) = some n := by
  obtain ⟨hs, hn⟩ := h
  unfold sectionName hdrLine
  have h1 := tw_nl_hdr hn ['[', ' '] (by decide)
  simp only [List.cons_append, List.nil_append] at h1
  simp only [h1]
  have h2 : ('[' :: ' ' :: (n ++ [' ', ']'])).dropWhile (· ≠ '[') = '[' :: ' ' :: (n ++ [' ', ']']) := by
    simp [List.dropWhile_cons]
  rw [h2]
  simp only
  have h3 : (' ' :: (n ++ [' ', ']'])).contains ']' = true := by simp
  rw [if_pos h3]
  have h4 : (' ' :: (n ++ [' ', ']'])).reverse = ']' :: ' ' :: (n.reverse ++ [' ']) := by simp
  rw [h4]
  have h5 : (']' :: ' ' :: (n.reverse ++ [' '])).dropWhile (· ≠ ']') = ']' :: ' ' :: (n.reverse ++ [' ']) := by
    simp [List.dropWhile_cons]
  rw [h5]
  have h6 : (List.drop 1 (']' :: ' ' :: (n.reverse ++ [' ']))).reverse = ' ' :: (n ++ [' ']) := by simp
  rw [h6, strip_cons_ws _ isWs_space, strip_append_blank _ (by simp [isBlank, isWs_space]), hs]

/-! ### physical lines -/

/-- a terminated line -/
def TLine (l : Str) : Prop := ∃ b, l = b ++ ['\n'] ∧ '\n' ∉ b
/-- an unterminated (hence last) non-empty line -/
def ULine (l : Str) : Prop := l ≠ [] ∧ '\n' ∉ l

theorem splitLinesGo_line (cur b rest : Str) (hb : '\n' ∉ b) :
    splitLinesGo cur (b ++ '\n' :: rest) = (cur.reverse ++ b ++ ['\n']) :: splitLinesGo [] rest := by
  induction b generalizing cur with
  | nil => simp [splitLinesGo]
  | cons x b ih =>
    have hx : x ≠ '\n' := fun e => hb (by simp [e])
    have hb' : '\n' ∉ b := fun e => hb (by simp [e])
    simp only [List.cons_append, splitLinesGo, hx, if_false]
    rw [ih _ hb']
    simp

theorem splitLinesGo_nonl (cur b : Str) (hb : '\n' ∉ b) :
    splitLinesGo cur b = if (cur.reverse ++ b).isEmpty then [] else [cur.reverse ++ b] := by
  induction b generalizing cur with
  | nil => simp [splitLinesGo]
  | cons x b ih =>
    have hx : x ≠ '\n' := fun e => hb (by simp [e])
    have hb' : '\n' ∉ b := fun e => hb (by simp [e])
    simp only [splitLinesGo, hx, if_false]
    rw [ih _ hb']
    simp

theorem splitLines_cons_tline {l : Str} (h : TLine l) (rest : Str) :
    splitLines (l ++ rest) = l :: splitLines rest := by
  obtain ⟨b, rfl, hb⟩ := h
  unfold splitLines
  have : b ++ ['\n'] ++ rest = b ++ '\n' :: rest := by simp
  rw [this, splitLinesGo_line [] b rest hb]
  simp

theorem splitLines_uline {l : Str} (h : ULine l) : splitLines l = [l] := by
  unfold splitLines
  rw [splitLinesGo_nonl [] l h.2]
  simp [h.1]

theorem splitLines_nil : splitLines [] = [] := rfl

theorem splitLines_flatten {ls : List Str} (h : ∀ l ∈ ls, TLine l) (rest : Str) :
    splitLines (ls.flatten ++ rest) = ls ++ splitLines rest := by
  induction ls with
  | nil => rfl
  | cons l ls ih =>
    simp only [List.flatten_cons, List.append_assoc, List.cons_append]
    rw [splitLines_cons_tline (h l (by simp)), ih (fun x hx => h x (by simp [hx]))]

theorem splitLinesGo_shape (cur s : Str) (hc : '\n' ∉ cur) :
    ∃ Ts U, splitLinesGo cur s = Ts ++ U ∧ (∀ l ∈ Ts, TLine l) ∧
      (U = [] ∨ ∃ u, U = [u] ∧ ULine u) := by
  induction s generalizing cur with
  | nil =>
    by_cases h : cur.isEmpty = true
    · exact ⟨[], [], by simp [splitLinesGo, h], by simp, Or.inl rfl⟩
    · refine ⟨[], [cur.reverse], by simp [splitLinesGo, h], by simp, Or.inr ⟨_, rfl, ?_, ?_⟩⟩
      · simpa using h
      · simpa using hc
  | cons x s ih =>
    by_cases hx : x = '\n'
    · obtain ⟨Ts, U, h1, h2, h3⟩ := ih [] (by simp)
      refine ⟨(x :: cur).reverse :: Ts, U, by simp [splitLinesGo, hx, h1], ?_, h3⟩
      intro l hl
      rcases List.mem_cons.mp hl with e | e
      · rw [e]; exact ⟨cur.reverse, by simp [hx], by simpa using hc⟩
      · exact h2 l e
    · obtain ⟨Ts, U, h1, h2, h3⟩ := ih (x :: cur) (by
        intro e; rcases List.mem_cons.mp e with e | e
        · exact hx e.symm
        · exact hc e)
      exact ⟨Ts, U, by simp [splitLinesGo, hx, h1], h2, h3⟩

theorem splitLines_shape (s : Str) :
    ∃ Ts U, splitLines s = Ts ++ U ∧ (∀ l ∈ Ts, TLine l) ∧ (U = [] ∨ ∃ u, U = [u] ∧ ULine u) :=
  splitLinesGo_shape [] s (by simp)

theorem tline_cut {c m : Str} (h : TLine (c ++ ';' :: m)) :
    ∃ m', m = m' ++ ['\n'] ∧ '\n' ∉ c ∧ '\n' ∉ m' := by
  obtain ⟨b, hb, hn⟩ := h
  rcases List.eq_nil_or_concat m with h0 | ⟨m', a, hm⟩
  · subst h0
    have : (c ++ [';']).getLast? = (b ++ ['\n']).getLast? := by rw [hb]
    simp at this
  · rw [List.concat_eq_append] at hm
    subst hm
    have e : c ++ ';' :: (m' ++ [a]) = (c ++ ';' :: m') ++ [a] := by simp
    rw [e] at hb
    have h1 := List.append_inj' hb rfl
    obtain ⟨h2, h3⟩ := h1
    simp at h3; subst h3
    refine ⟨m', rfl, ?_, ?_⟩
    · intro e1; apply hn; rw [← h2]; simp [e1]
    · intro e1; apply hn; rw [← h2]; simp [e1]

/-- a terminated source line is re-emitted as nothing or as one terminated line (needs D5) -/
theorem lineStr_tline {k : SecKind} {r : Str} {x : ItpLine} (h : mkLine k r = .ok x)
    (ht : TLine r) : x.lineStr = [] ∨ TLine x.lineStr := by
  obtain ⟨c, m, hp, _, hx⟩ := mkLine_eq_ok h
  rw [hx]
  rcases parseItpLine_cases hp with ⟨hb, hc, hm⟩ | ⟨hd, hc, hm⟩ | ⟨hb, hd, hr', hc⟩ | ⟨hb, hd, hs, hc, hm⟩
  · left
    have := not_head_hash_of_blank hb
    simp [ItpLine.lineStr, this, hc, hm, isBlank]
  · right; simp [ItpLine.lineStr, hd, hm]; exact ht
  · right
    rw [hr'] at ht
    obtain ⟨m', hm', h1, h2⟩ := tline_cut ht
    by_cases hbm : isBlank m = true
    · simp [ItpLine.lineStr, hd, hbm]
      refine ⟨c ++ m', by simp [hm'], ?_⟩
      intro e; rcases List.mem_append.mp e with e | e
      · exact h1 e
      · exact h2 e
    · simp [ItpLine.lineStr, hd, hbm]
      refine ⟨c ++ ';' :: ' ' :: m', by simp [hm'], ?_⟩
      intro e
      simp only [List.mem_append, List.mem_cons] at e
      rcases e with e | e | e | e
      · exact h1 e
      · simp at e
      · simp at e
      · exact h2 e
  · right; simp [ItpLine.lineStr, hd, hm, hc, isBlank]; exact ht

/-- an unterminated source line is re-emitted without any newline -/
theorem lineStr_nonl {k : SecKind} {r : Str} {x : ItpLine} (h : mkLine k r = .ok x)
    (hn : '\n' ∉ r) : '\n' ∉ x.lineStr := by
  obtain ⟨c, m, hp, _, hx⟩ := mkLine_eq_ok h
  rw [hx]
  rcases parseItpLine_cases hp with ⟨hb, hc, hm⟩ | ⟨hd, hc, hm⟩ | ⟨hb, hd, hr', hc⟩ | ⟨hb, hd, hs, hc, hm⟩
  · have := not_head_hash_of_blank hb
    simp [ItpLine.lineStr, this, hc, hm, isBlank]
  · simp [ItpLine.lineStr, hd, hm]; exact hn
  · rw [hr'] at hn
    have h1 : '\n' ∉ c := fun e => hn (by simp [e])
    have h2 : '\n' ∉ m := fun e => hn (by simp [e])
    by_cases hbm : isBlank m = true
    · simp [ItpLine.lineStr, hd, hbm]; exact ⟨h1, h2⟩
    · simp [ItpLine.lineStr, hd, hbm]; exact ⟨h1, h2⟩
  · simp [ItpLine.lineStr, hd, hm, hc, isBlank]; exact hn

/-! ### specification-level reading of a file

`specView` is the property's reading of a topology text: the physical lines; a line is a section
header when the library's header test says so and then declares the name between the brackets;
every other line belongs to the most recently declared name (or to the header text when none was
declared yet); a name's content is everything that belongs to it, in file order; names are listed
in order of first appearance. -/

/-- SPEC: the section name a physical line declares, if it is a header line -/
def headerNameOf (l : Str) : Option Str := if isHeaderLine l then sectionName l else none

/-- SPEC: tag every non-header line with the name declared by the nearest preceding header line -/
def tagLines : Option Str → List Str → List (Option Str × Str)
  | _, [] => []
  | cur, l :: ls =>
    match headerNameOf l with
    | some n => tagLines (some n) ls
    | none => (cur, l) :: tagLines cur ls

def addName (acc : List Str) (n : Str) : List Str := if n ∈ acc then acc else acc ++ [n]

/-- SPEC: names in order of first appearance (starting from `acc`) -/
def firstAppearance (acc : List Str) (ns : List Str) : List Str := ns.foldl addName acc

/-- what the property compares: header text verbatim; per section name, in order of first
    appearance, the sequence of items -/
structure View where
  header : List Str
  secs : List (Str × List Item)
deriving DecidableEq, Repr

def specView (t : Str) : View :=
  let ls := splitLines t
  let tg := tagLines none ls
  { header := (tg.filter (fun p => p.1 = none)).map (·.2),
    secs := (firstAppearance [] (ls.filterMap headerNameOf)).map (fun n =>
      (n, (tg.filter (fun p => p.1 = some n)).filterMap (fun p => specItem p.2))) }

/-- the same view of a parsed `ItpFile` object -/
def view (f : ItpFile) : View :=
  ⟨f.header, f.secs.map (fun s => (s.name, s.lines.filterMap viewLine))⟩

/-- no header line declares the dictionary's own key `header` -/
def NoHeaderKey (ls : List Str) : Prop := ∀ l ∈ ls, headerNameOf l ≠ some headerKey

/-! ### the fold of `ItpFile.__init__` -/

def names (secs : List ItpSection) : List Str := secs.map (·.name)

def secItems (secs : List ItpSection) (n : Str) : List Item :=
  (secs.filter (fun s => s.name = n)).flatMap (fun s => s.lines.filterMap viewLine)

structure StInv (st : PState) : Prop where
  nodup : (names st.file.secs).Nodup
  cur_mem : ∀ n, st.cur = some n → n ∈ names st.file.secs
  cur_none : st.cur = none → st.file.secs = []

theorem hasSec_iff (secs : List ItpSection) (n : Str) : hasSec secs n = true ↔ n ∈ names secs := by
  unfold hasSec names
  rw [List.any_eq_true, List.mem_map]
  constructor
  · rintro ⟨s, hs, h⟩; exact ⟨s, hs, by simpa using h⟩
  · rintro ⟨s, hs, h⟩; exact ⟨s, hs, by simpa using h⟩

theorem names_appendTo (secs : List ItpSection) (n : Str) (x : ItpLine) :
    names (appendTo secs n x) = names secs := by
  unfold names appendTo
  rw [List.map_map]
  apply List.map_congr_left
  intro s _
  simp only [Function.comp]
  split_ifs <;> rfl

theorem appendTo_of_not_mem {secs : List ItpSection} {n : Str} (x : ItpLine)
    (h : n ∉ names secs) : appendTo secs n x = secs := by
  induction secs with
  | nil => rfl
  | cons s secs ih =>
    have h1 : s.name ≠ n := fun e => h (by simp [names, e])
    have h2 : n ∉ names secs := fun e => h (by simp [names] at e ⊢; exact Or.inr e)
    simp only [appendTo, List.map_cons, h1, if_false]
    congr 1
    exact ih h2

theorem secItems_of_not_mem {secs : List ItpSection} {n : Str} (h : n ∉ names secs) :
    secItems secs n = [] := by
  unfold secItems
  have : secs.filter (fun s => s.name = n) = [] := by
    rw [List.filter_eq_nil_iff]
    intro s hs
    simp only [decide_eq_true_eq]
    intro e; exact h (by simp only [names, List.mem_map]; exact ⟨s, hs, e⟩)
  rw [this]; rfl

theorem secItems_cons (s : ItpSection) (secs : List ItpSection) (n : Str) :
    secItems (s :: secs) n =
      (if s.name = n then s.lines.filterMap viewLine else []) ++ secItems secs n := by
  unfold secItems
  by_cases h : s.name = n <;> simp [List.filter_cons, h]

theorem secItems_appendTo {secs : List ItpSection} {n : Str} (x : ItpLine) (m : Str)
    (hn : (names secs).Nodup) (hm : n ∈ names secs) :
    secItems (appendTo secs n x) m =
      if m = n then secItems secs n ++ (viewLine x).toList else secItems secs m := by
  induction secs with
  | nil => simp [names] at hm
  | cons s secs ih =>
    have hnd : s.name ∉ names secs ∧ (names secs).Nodup := by
      simpa [names] using hn
    by_cases hs : s.name = n
    · have hrest : n ∉ names secs := by rw [← hs]; exact hnd.1
      have e : appendTo (s :: secs) n x = { s with lines := s.lines ++ [x] } :: secs := by
        simp only [appendTo, List.map_cons, hs, if_true]
        congr 1
        exact appendTo_of_not_mem x hrest
      rw [e, secItems_cons]
      by_cases hmn : m = n
      · subst hmn
        simp only [hs, if_true]
        rw [secItems_cons, secItems_of_not_mem hrest]
        cases hv : viewLine x <;> simp [hs, List.filterMap_append, List.filterMap_cons, hv]
      · simp only [hmn, if_false]
        have : s.name ≠ m := fun e => hmn (by rw [← e, hs])
        rw [secItems_cons]
        simp [this]
    · have hm' : n ∈ names secs := by
        simp only [names, List.map_cons, List.mem_cons] at hm
        rcases hm with e | e
        · exact absurd e.symm hs
        · exact e
      have e : appendTo (s :: secs) n x = s :: appendTo secs n x := by
        simp only [appendTo, List.map_cons, hs, if_false]
      rw [e, secItems_cons, ih hnd.2 hm']
      by_cases hmn : m = n
      · subst hmn
        simp only [if_true]
        rw [secItems_cons]
        simp [hs]
      · simp only [hmn, if_false]
        rw [secItems_cons]

theorem secItems_of_mem_nodup {secs : List ItpSection} (hn : (names secs).Nodup)
    {s : ItpSection} (hs : s ∈ secs) : secItems secs s.name = s.lines.filterMap viewLine := by
  induction secs with
  | nil => simp at hs
  | cons a secs ih =>
    have hnd : a.name ∉ names secs ∧ (names secs).Nodup := by
      simpa [names] using hn
    rw [secItems_cons]
    rcases List.mem_cons.mp hs with e | e
    · subst e
      simp [secItems_of_not_mem hnd.1]
    · have : a.name ≠ s.name := by
        intro e2; apply hnd.1; rw [e2]
        simp only [names, List.mem_map]; exact ⟨s, e, rfl⟩
      simp [this, ih hnd.2 e]

theorem view_secs_eq {secs : List ItpSection} (hn : (names secs).Nodup) :
    secs.map (fun s => (s.name, s.lines.filterMap viewLine)) =
      (names secs).map (fun n => (n, secItems secs n)) := by
  unfold names
  rw [List.map_map]
  apply List.map_congr_left
  intro s hs
  simp only [Function.comp]
  rw [secItems_of_mem_nodup hn hs]

theorem foldSteps_nil (st : PState) : foldSteps st [] = .ok st := rfl

theorem foldSteps_cons (st : PState) (l : Str) (ls : List Str) :
    foldSteps st (l :: ls) = (step st l).bind (fun st' => foldSteps st' ls) := rfl

theorem foldSteps_append (st : PState) (a b : List Str) :
    foldSteps st (a ++ b) = (foldSteps st a).bind (fun st' => foldSteps st' b) := by
  induction a generalizing st with
  | nil => rfl
  | cons l a ih =>
    simp only [List.cons_append, foldSteps_cons]
    cases step st l with
    | error e => rfl
    | ok st1 => simp only [Except.bind]; exact ih st1

theorem step_header {st : PState} {l n : Str} (h : headerNameOf l = some n) (hk : n ≠ headerKey) :
    step st l = .ok ⟨if hasSec st.file.secs n then st.file
                      else { st.file with secs := st.file.secs ++ [⟨n, []⟩] }, some n⟩ := by
  unfold headerNameOf at h
  split_ifs at h with hh
  unfold step
  simp only [hh, Bool.not_true, Bool.false_eq_true, if_false, h, hk]
  split_ifs <;> rfl

theorem step_plain_none {st : PState} {l : Str} (h : isHeaderLine l = false) (hc : st.cur = none) :
    step st l = .ok { st with file := { st.file with header := st.file.header ++ [l] } } := by
  unfold step
  simp [h, hc]

theorem step_plain_some {st : PState} {l n : Str} (h : isHeaderLine l = false)
    (hc : st.cur = some n) :
    step st l = (mkLine (secKind n) l).bind (fun x =>
      .ok { st with file := { st.file with secs := appendTo st.file.secs n x } }) := by
  unfold step
  simp only [h, Bool.not_false, if_true, hc]
  cases mkLine (secKind n) l <;> rfl

theorem step_error_of_unnamed {st : PState} {l : Str} (h : isHeaderLine l = true)
    (hn : sectionName l = none) : step st l = .error .IndexError := by
  unfold step
  simp [h, hn]

theorem firstAppearance_cons (acc : List Str) (n : Str) (ns : List Str) :
    firstAppearance acc (n :: ns) = firstAppearance (addName acc n) ns := rfl

/-- FILE FAITHFULNESS (fold form): running `ItpFile.__init__`'s loop over physical lines extends
    the state by exactly what the specification reads off those lines -/
theorem foldSteps_view {ls : List Str} : ∀ {st st' : PState}, foldSteps st ls = .ok st' →
    StInv st → NoHeaderKey ls →
    StInv st' ∧
    st'.file.header = st.file.header ++
      ((tagLines st.cur ls).filter (fun p => p.1 = none)).map (·.2) ∧
    names st'.file.secs = firstAppearance (names st.file.secs) (ls.filterMap headerNameOf) ∧
    ∀ n, secItems st'.file.secs n = secItems st.file.secs n ++
      ((tagLines st.cur ls).filter (fun p => p.1 = some n)).filterMap (fun p => specItem p.2) := by
  induction ls with
  | nil =>
    intro st st' h hi _
    simp only [foldSteps, Except.ok.injEq] at h
    subst h
    exact ⟨hi, by simp [tagLines], by simp [firstAppearance], by simp [tagLines]⟩
  | cons l ls ih =>
    intro st st' h hi hk
    have hk' : NoHeaderKey ls := fun x hx => hk x (by simp [hx])
    rw [foldSteps_cons] at h
    cases hn : headerNameOf l with
    | some n =>
      have hne : n ≠ headerKey := by
        intro e; exact hk l (by simp) (by rw [hn, e])
      rw [step_header hn hne] at h
      simp only [Except.bind] at h
      set st1 : PState := ⟨if hasSec st.file.secs n then st.file
        else { st.file with secs := st.file.secs ++ [⟨n, []⟩] }, some n⟩ with hst1
      have hnames : names st1.file.secs = addName (names st.file.secs) n := by
        simp only [hst1, addName]
        by_cases hh : hasSec st.file.secs n = true
        · simp only [hh, if_true]; rw [if_pos ((hasSec_iff _ _).mp hh)]
        · simp only [hh, Bool.false_eq_true, if_false]
          rw [if_neg (fun e => hh ((hasSec_iff _ _).mpr e))]
          simp [names]
      have hhead : st1.file.header = st.file.header := by
        simp only [hst1]; split_ifs <;> rfl
      have hitems : ∀ m, secItems st1.file.secs m = secItems st.file.secs m := by
        intro m
        simp only [hst1]
        split_ifs
        · rfl
        · simp only [secItems, List.filter_append, List.flatMap_append]
          by_cases hm : n = m <;> simp [List.filter_cons, hm]
      have hi1 : StInv st1 := by
        refine ⟨?_, ?_, ?_⟩
        · rw [hnames]; unfold addName
          split_ifs with hm
          · exact hi.nodup
          · rw [List.nodup_append]
            refine ⟨hi.nodup, by simp, ?_⟩
            intro a ha b hb
            simp at hb; subst hb
            intro e; subst e; exact hm ha
        · intro m hm
          simp only [hst1, Option.some.injEq] at hm
          subst hm
          rw [hnames]; unfold addName
          split_ifs with hm
          · exact hm
          · simp
        · intro hc; simp [hst1] at hc
      obtain ⟨r1, r2, r3, r4⟩ := ih h hi1 hk'
      refine ⟨r1, ?_, ?_, ?_⟩
      · rw [r2, hhead]; simp [tagLines, hn, hst1]
      · rw [r3, hnames]; simp [List.filterMap_cons, hn, firstAppearance_cons]
      · intro m; rw [r4 m, hitems m]; simp [tagLines, hn, hst1]
    | none =>
      have hhl : isHeaderLine l = false := by
        cases hh : isHeaderLine l with
        | false => rfl
        | true =>
          unfold headerNameOf at hn
          rw [hh] at hn; simp only [if_true] at hn
          rw [step_error_of_unnamed hh hn] at h
          simp [Except.bind] at h
      cases hc : st.cur with
      | none =>
        rw [step_plain_none hhl hc] at h
        simp only [Except.bind] at h
        have hi1 : StInv { st with file := { st.file with header := st.file.header ++ [l] } } :=
          ⟨hi.nodup, hi.cur_mem, hi.cur_none⟩
        obtain ⟨r1, r2, r3, r4⟩ := ih h hi1 hk'
        refine ⟨r1, ?_, ?_, ?_⟩
        · rw [r2]; simp [tagLines, hn, hc]
        · rw [r3]; simp [List.filterMap_cons, hn]
        · intro m; rw [r4 m]; simp [tagLines, hn, hc]
      | some n =>
        rw [step_plain_some hhl hc] at h
        cases hx : mkLine (secKind n) l with
        | error e => rw [hx] at h; simp [Except.bind] at h
        | ok x =>
          rw [hx] at h
          simp only [Except.bind] at h
          have hmem := hi.cur_mem n hc
          have hi1 : StInv { st with file := { st.file with secs := appendTo st.file.secs n x } } := by
            refine ⟨?_, ?_, ?_⟩
            · simp only [names_appendTo]; exact hi.nodup
            · intro m hm; simp only [names_appendTo]; exact hi.cur_mem m hm
            · intro hc'; simp only at hc'; rw [hc] at hc'; simp at hc'
          obtain ⟨r1, r2, r3, r4⟩ := ih h hi1 hk'
          refine ⟨r1, ?_, ?_, ?_⟩
          · rw [r2]; simp [tagLines, hn, hc]
          · rw [r3]; simp [List.filterMap_cons, hn, names_appendTo]
          · intro m
            rw [r4 m]
            simp only [secItems_appendTo x m hi.nodup hmem]
            have hv := viewLine_mkLine hx
            by_cases hm : m = n
            · subst hm
              simp only [if_true, tagLines, hn, hc, List.filter_cons, decide_true,
                List.filterMap_cons, ← hv, List.append_assoc]
              cases viewLine x <;> simp
            · have : ¬ (some n = some m) := by simpa [eq_comm] using hm
              simp [hm, tagLines, hn, hc, List.filter_cons, this]

/-! ### structural invariant of a parsed file -/

/-- the line object was built from a terminated / an unterminated non-header physical line -/
def TDer (k : SecKind) (x : ItpLine) : Prop :=
  ∃ r, TLine r ∧ isHeaderLine r = false ∧ mkLine k r = .ok x
def UDer (k : SecKind) (x : ItpLine) : Prop :=
  ∃ r, ULine r ∧ isHeaderLine r = false ∧ mkLine k r = .ok x

def SecInv (s : ItpSection) : Prop :=
  ∃ Ts U, s.lines = Ts ++ U ∧ (∀ x ∈ Ts, TDer (secKind s.name) x) ∧
    (U = [] ∨ ∃ x, U = [x] ∧ UDer (secKind s.name) x)

/-- what `parse` guarantees about its result (and what `write` followed by `parse` needs) -/
structure Inv (f : ItpFile) : Prop where
  hdr_plain : ∀ l ∈ f.header, isHeaderLine l = false
  hdr_shape : ∃ Ts U, f.header = Ts ++ U ∧ (∀ l ∈ Ts, TLine l) ∧
    (U = [] ∨ ∃ u, U = [u] ∧ ULine u ∧ f.secs = [])
  nodup : (names f.secs).Nodup
  good : ∀ n ∈ names f.secs, GoodName n ∧ n ≠ headerKey
  secs : ∀ s ∈ f.secs, SecInv s

structure TInv (st : PState) : Prop where
  sinv : StInv st
  hdr_plain : ∀ l ∈ st.file.header, isHeaderLine l = false
  hdr_t : ∀ l ∈ st.file.header, TLine l
  good : ∀ n ∈ names st.file.secs, GoodName n ∧ n ≠ headerKey
  lines : ∀ s ∈ st.file.secs, ∀ x ∈ s.lines, TDer (secKind s.name) x

theorem mem_appendTo {secs : List ItpSection} {n : Str} {x : ItpLine} {s : ItpSection}
    (h : s ∈ appendTo secs n x) :
    s ∈ secs ∨ ∃ s0 ∈ secs, s0.name = n ∧ s = { s0 with lines := s0.lines ++ [x] } := by
  unfold appendTo at h
  rw [List.mem_map] at h
  obtain ⟨s0, hs0, e⟩ := h
  split_ifs at e with hn
  · right; exact ⟨s0, hs0, hn, e.symm⟩
  · left; rw [← e]; exact hs0

theorem TInv.toInv {st : PState} (h : TInv st) : Inv st.file where
  hdr_plain := h.hdr_plain
  hdr_shape := ⟨st.file.header, [], by simp, h.hdr_t, Or.inl rfl⟩
  nodup := h.sinv.nodup
  good := h.good
  secs := fun s hs => ⟨s.lines, [], by simp, h.lines s hs, Or.inl rfl⟩

/-- one iteration on a terminated line keeps the strong invariant -/
theorem step_tinv {st st' : PState} {l : Str} (h : step st l = .ok st') (hi : TInv st)
    (ht : TLine l) (hk : headerNameOf l ≠ some headerKey) : TInv st' := by
  cases hn : headerNameOf l with
  | some n =>
    have hne : n ≠ headerKey := by intro e; exact hk (by rw [hn, e])
    rw [step_header hn hne] at h
    simp only [Except.ok.injEq] at h
    have hgn : GoodName n := by
      unfold headerNameOf at hn
      split_ifs at hn
      exact sectionName_good hn
    by_cases hh : hasSec st.file.secs n = true
    · simp only [hh, if_true] at h
      subst h
      exact ⟨⟨hi.sinv.nodup, by intro m hm; simp at hm; subst hm; exact (hasSec_iff _ _).mp hh,
        by intro hc; simp at hc⟩, hi.hdr_plain, hi.hdr_t, hi.good, hi.lines⟩
    · simp only [hh, Bool.false_eq_true, if_false] at h
      subst h
      have hnm : n ∉ names st.file.secs := fun e => hh ((hasSec_iff _ _).mpr e)
      refine ⟨⟨?_, ?_, ?_⟩, hi.hdr_plain, hi.hdr_t, ?_, ?_⟩
      · simp only [names, List.map_append, List.map_cons, List.map_nil]
        rw [List.nodup_append]
        refine ⟨hi.sinv.nodup, by simp, ?_⟩
        intro a ha b hb
        simp at hb; subst hb
        intro e; subst e; exact hnm ha
      · intro m hm; simp at hm; subst hm; simp [names]
      · intro hc; simp at hc
      · intro m hm
        simp only [names, List.map_append, List.map_cons, List.map_nil, List.mem_append,
          List.mem_singleton] at hm
        rcases hm with hm | hm
        · exact hi.good m hm
        · subst hm; exact ⟨hgn, hne⟩
      · intro s hs x hx
        simp only [List.mem_append, List.mem_singleton] at hs
        rcases hs with hs | hs
        · exact hi.lines s hs x hx
        · subst hs; simp at hx
  | none =>
    have hhl : isHeaderLine l = false := by
      cases hh : isHeaderLine l with
      | false => rfl
      | true =>
        unfold headerNameOf at hn
        rw [hh] at hn; simp only [if_true] at hn
        rw [step_error_of_unnamed hh hn] at h
        simp at h
    cases hc : st.cur with
    | none =>
      rw [step_plain_none hhl hc] at h
      simp only [Except.ok.injEq] at h
      subst h
      refine ⟨⟨hi.sinv.nodup, hi.sinv.cur_mem, hi.sinv.cur_none⟩, ?_, ?_, hi.good, hi.lines⟩
      · intro x hx
        simp only [List.mem_append, List.mem_singleton] at hx
        rcases hx with hx | hx
        · exact hi.hdr_plain x hx
        · subst hx; exact hhl
      · intro x hx
        simp only [List.mem_append, List.mem_singleton] at hx
        rcases hx with hx | hx
        · exact hi.hdr_t x hx
        · subst hx; exact ht
    | some n =>
      rw [step_plain_some hhl hc] at h
      cases hx : mkLine (secKind n) l with
      | error e => rw [hx] at h; simp [Except.bind] at h
      | ok x =>
        rw [hx] at h
        simp only [Except.bind, Except.ok.injEq] at h
        subst h
        refine ⟨⟨?_, ?_, ?_⟩, hi.hdr_plain, hi.hdr_t, ?_, ?_⟩
        · simp only [names_appendTo]; exact hi.sinv.nodup
        · intro m hm; simp only [names_appendTo]; exact hi.sinv.cur_mem m hm
        · intro hc'; simp only at hc'; rw [hc] at hc'; simp at hc'
        · simp only [names_appendTo]; exact hi.good
        · intro s hs y hy
          rcases mem_appendTo hs with hs | ⟨s0, hs0, hn0, e⟩
          · exact hi.lines s hs y hy
          · subst e
            simp only [List.mem_append, List.mem_singleton] at hy
            rcases hy with hy | hy
            · exact hi.lines s0 hs0 y hy
            · subst hy; simp only; rw [hn0]; exact ⟨l, ht, hhl, hx⟩

theorem foldSteps_tinv {ls : List Str} : ∀ {st st' : PState}, foldSteps st ls = .ok st' →
    TInv st → (∀ l ∈ ls, TLine l) → NoHeaderKey ls → TInv st' := by
  induction ls with
  | nil => intro st st' h hi _ _; simp only [foldSteps, Except.ok.injEq] at h; subst h; exact hi
  | cons l ls ih =>
    intro st st' h hi ht hk
    rw [foldSteps_cons] at h
    cases hs : step st l with
    | error e => rw [hs] at h; simp [Except.bind] at h
    | ok st1 =>
      rw [hs] at h
      simp only [Except.bind] at h
      exact ih h (step_tinv hs hi (ht l (by simp)) (hk l (by simp)))
        (fun x hx => ht x (by simp [hx])) (fun x hx => hk x (by simp [hx]))

/-- the final, possibly unterminated, line -/
theorem step_uline_inv {st st' : PState} {u : Str} (h : step st u = .ok st') (hi : TInv st)
    (hu : ULine u) (hk : headerNameOf u ≠ some headerKey) : Inv st'.file := by
  cases hn : headerNameOf u with
  | some n =>
    -- a header line: handled exactly as a terminated one
    have hne : n ≠ headerKey := by intro e; exact hk (by rw [hn, e])
    rw [step_header hn hne] at h
    simp only [Except.ok.injEq] at h
    have hgn : GoodName n := by
      unfold headerNameOf at hn
      split_ifs at hn
      exact sectionName_good hn
    by_cases hh : hasSec st.file.secs n = true
    · simp only [hh, if_true] at h
      subst h
      exact hi.toInv
    · simp only [hh, Bool.false_eq_true, if_false] at h
      subst h
      have hnm : n ∉ names st.file.secs := fun e => hh ((hasSec_iff _ _).mpr e)
      refine ⟨hi.hdr_plain, ⟨st.file.header, [], by simp, hi.hdr_t, Or.inl rfl⟩, ?_, ?_, ?_⟩
      · simp only [names, List.map_append, List.map_cons, List.map_nil]
        rw [List.nodup_append]
        refine ⟨hi.sinv.nodup, by simp, ?_⟩
        intro a ha b hb
        simp at hb; subst hb
        intro e; subst e; exact hnm ha
      · intro m hm
        simp only [names, List.map_append, List.map_cons, List.map_nil, List.mem_append,
          List.mem_singleton] at hm
        rcases hm with hm | hm
        · exact hi.good m hm
        · subst hm; exact ⟨hgn, hne⟩
      · intro s hs
        simp only [List.mem_append, List.mem_singleton] at hs
        rcases hs with hs | hs
        · exact ⟨s.lines, [], by simp, hi.lines s hs, Or.inl rfl⟩
        · subst hs; exact ⟨[], [], by simp, by simp, Or.inl rfl⟩
  | none =>
    have hhl : isHeaderLine u = false := by
      cases hh : isHeaderLine u with
      | false => rfl
      | true =>
        unfold headerNameOf at hn
        rw [hh] at hn; simp only [if_true] at hn
        rw [step_error_of_unnamed hh hn] at h
        simp at h
    cases hc : st.cur with
    | none =>
      rw [step_plain_none hhl hc] at h
      simp only [Except.ok.injEq] at h
      subst h
      refine ⟨?_, ⟨st.file.header, [u], rfl, hi.hdr_t, Or.inr ⟨u, rfl, hu, hi.sinv.cur_none hc⟩⟩,
        hi.sinv.nodup, hi.good, fun s hs => ⟨s.lines, [], by simp, hi.lines s hs, Or.inl rfl⟩⟩
      intro x hx
      simp only [List.mem_append, List.mem_singleton] at hx
      rcases hx with hx | hx
      · exact hi.hdr_plain x hx
      · subst hx; exact hhl
    | some n =>
      rw [step_plain_some hhl hc] at h
      cases hx : mkLine (secKind n) u with
      | error e => rw [hx] at h; simp [Except.bind] at h
      | ok x =>
        rw [hx] at h
        simp only [Except.bind, Except.ok.injEq] at h
        subst h
        refine ⟨hi.hdr_plain, ⟨st.file.header, [], by simp, hi.hdr_t, Or.inl rfl⟩, ?_, ?_, ?_⟩
        · simp only [names_appendTo]; exact hi.sinv.nodup
        · simp only [names_appendTo]; exact hi.good
        · intro s hs
          rcases mem_appendTo hs with hs | ⟨s0, hs0, hn0, e⟩
          · exact ⟨s.lines, [], by simp, hi.lines s hs, Or.inl rfl⟩
          · subst e
            refine ⟨s0.lines, [x], rfl, hi.lines s0 hs0, Or.inr ⟨x, rfl, ?_⟩⟩
            simp only; rw [hn0]; exact ⟨u, hu, hhl, hx⟩

def initState : PState := ⟨⟨[], []⟩, none⟩

theorem initState_tinv : TInv initState :=
  ⟨⟨by simp [initState, names], by simp [initState], by simp [initState]⟩,
   by simp [initState], by simp [initState], by simp [initState, names], by simp [initState]⟩

theorem parse_eq {t : Str} {f : ItpFile} (h : parse t = .ok f) :
    ∃ st, foldSteps initState (splitLines t) = .ok st ∧ st.file = f := by
  unfold parse at h
  cases hf : foldSteps ⟨⟨[], []⟩, none⟩ (splitLines t) with
  | error e => rw [hf] at h; simp [bind, Except.bind] at h
  | ok st =>
    rw [hf] at h
    simp [bind, Except.bind, pure, Except.pure] at h
    exact ⟨st, hf, h⟩

/-- L1: the result of `parse` satisfies the structural invariant -/
theorem parse_inv {t : Str} {f : ItpFile} (h : parse t = .ok f)
    (hk : NoHeaderKey (splitLines t)) : Inv f := by
  obtain ⟨st, hf, rfl⟩ := parse_eq h
  obtain ⟨Ts, U, hs, hT, hU⟩ := splitLines_shape t
  rw [hs] at hf hk
  rw [foldSteps_append] at hf
  cases h1 : foldSteps initState Ts with
  | error e => rw [h1] at hf; simp [Except.bind] at hf
  | ok st1 =>
    rw [h1] at hf
    simp only [Except.bind] at hf
    have hi1 : TInv st1 := foldSteps_tinv h1 initState_tinv hT
      (fun l hl => hk l (List.mem_append_left _ hl))
    rcases hU with hU | ⟨u, hU, hu⟩
    · subst hU
      simp only [foldSteps, Except.ok.injEq] at hf
      subst hf
      exact hi1.toInv
    · subst hU
      rw [foldSteps_cons] at hf
      cases h2 : step st1 u with
      | error e => rw [h2] at hf; simp [Except.bind] at hf
      | ok st2 =>
        rw [h2] at hf
        simp only [Except.bind, foldSteps, Except.ok.injEq] at hf
        subst hf
        exact step_uline_inv h2 hi1 hu (hk u (by simp))

/-- L2, FILE FAITHFULNESS: the parsed object shows exactly what the specification reads -/
theorem parse_view {t : Str} {f : ItpFile} (h : parse t = .ok f)
    (hk : NoHeaderKey (splitLines t)) : view f = specView t := by
  obtain ⟨st, hf, rfl⟩ := parse_eq h
  obtain ⟨r1, r2, r3, r4⟩ := foldSteps_view hf initState_tinv.sinv hk
  unfold view specView
  simp only [View.mk.injEq]
  constructor
  · rw [r2]; simp [initState]
  · rw [view_secs_eq r1.nodup, r3]
    simp only [initState, names, List.map_nil]
    apply List.map_congr_left
    intro n _
    rw [r4 n]
    simp [initState, secItems]

/-! ### re-reading what `write` wrote -/

def itemToks : Option Item → List Str
  | some (.ln t _) => t
  | _ => []

theorem itemToks_viewLine {y : ItpLine} (h : LineWF y) : itemToks (viewLine y) = split y.content := by
  obtain ⟨c, m, d⟩ := y
  cases d with
  | true =>
    obtain ⟨hc, _⟩ := h.1 rfl
    simp only at hc
    simp [viewLine, itemToks, hc, split, splitGo]
  | false =>
    unfold viewLine
    simp only [Bool.false_eq_true, if_false]
    split_ifs with h1
    · simp [itemToks, h1.1]
    · rfl

/-- a physical line that is no header and carries the item a well-formed, type-checked line
    object shows is accepted again and yields an object showing the same item -/
theorem reread_line {k : SecKind} {x : ItpLine} {p : Str} (hw : LineWF x)
    (hl : lineCheck k x.content = .ok ()) (hh : isHeaderLine p = false)
    (hs : specItem p = viewLine x) : ∃ x', mkLine k p = .ok x' ∧ viewLine x' = viewLine x := by
  obtain ⟨c', m', hp⟩ := parseItpLine_ok_of_not_reHeader (reHeader_false_of_not_header hh)
  have hv := viewLine_of_parse hp
  have hw' := parse_wf hp
  have ht : split c' = split x.content := by
    have h1 := itemToks_viewLine hw'
    have h2 := itemToks_viewLine hw
    simp only at h1
    rw [← h1, ← h2, hv, hs]
  refine ⟨_, mkLine_of_parts hp ?_, ?_⟩
  · rw [lineCheck_congr k ht]; exact hl
  · rw [hv, hs]

theorem mkLine_lineCheck {k : SecKind} {r : Str} {x : ItpLine} (h : mkLine k r = .ok x) :
    lineCheck k x.content = .ok () := by
  obtain ⟨c, m, _, hl, hx⟩ := mkLine_eq_ok h
  rw [hx]; exact hl

def blankLine : ItpLine := ⟨[], [], false⟩

theorem mkLine_blank (k : SecKind) {p : Str} (h : isBlank p = true) : mkLine k p = .ok blankLine := by
  have hp : parseItpLine p = .ok ([], []) := by unfold parseItpLine; simp [h]
  have := mkLine_of_parts (k := k) hp (by simp [lineCheck, isBlank, pure, Except.pure])
  rw [this]
  have := not_head_hash_of_blank h
  simp [blankLine, this]

theorem viewLine_blankLine : viewLine blankLine = none := by
  simp [viewLine, blankLine, split, splitGo, strip, lstrip, rstrip]

/-- `'{}\n'.format(section)` minus the header line, as physical lines: empty strings vanish, the
    final newline completes an unterminated last string or stands alone -/
def reflow : List Str → List Str
  | [] => [['\n']]
  | [u] => if u = [] then [['\n']]
           else if u.getLast? = some '\n' then [u, ['\n']] else [u ++ ['\n']]
  | u :: v :: us => if u = [] then reflow (v :: us) else u :: reflow (v :: us)

def LinesOK (k : SecKind) : List ItpLine → Prop
  | [] => True
  | [x] => TDer k x ∨ UDer k x
  | x :: y :: xs => TDer k x ∧ LinesOK k (y :: xs)

theorem linesOK_of_shape {k : SecKind} {Ts U : List ItpLine} (hT : ∀ x ∈ Ts, TDer k x)
    (hU : U = [] ∨ ∃ x, U = [x] ∧ UDer k x) : LinesOK k (Ts ++ U) := by
  induction Ts with
  | nil =>
    rcases hU with rfl | ⟨x, rfl, hx⟩
    · trivial
    · exact Or.inr hx
  | cons a Ts ih =>
    have ha := hT a (by simp)
    have ih' := ih (fun x hx => hT x (by simp [hx]))
    cases hr : Ts ++ U with
    | nil => simp only [List.cons_append, hr]; exact Or.inl ha
    | cons b rest =>
      simp only [List.cons_append, hr]
      rw [hr] at ih'
      exact ⟨ha, ih'⟩

theorem tline_nl : TLine ['\n'] := ⟨[], rfl, by simp⟩

theorem tline_getLast {u : Str} (h : TLine u) : u.getLast? = some '\n' := by
  obtain ⟨b, rfl, _⟩ := h; simp

theorem tline_ne_nil {u : Str} (h : TLine u) : u ≠ [] := by
  obtain ⟨b, rfl, _⟩ := h; simp

theorem getLast_ne_of_not_mem {u : Str} (h : '\n' ∉ u) : u.getLast? ≠ some '\n' := by
  intro e
  exact h (List.mem_of_getLast? e)

/-- the strings `ItpLine.line` produces for the lines of a section -/
theorem lineStr_TDer {k : SecKind} {x : ItpLine} (h : TDer k x) :
    x.lineStr = [] ∨ TLine x.lineStr := by
  obtain ⟨r, hr, _, hm⟩ := h; exact lineStr_tline hm hr

theorem reflow_spec {k : SecKind} : ∀ {xs : List ItpLine}, LinesOK k xs →
    (reflow (xs.map ItpLine.lineStr)).flatten = (xs.map ItpLine.lineStr).flatten ++ ['\n'] ∧
    ∀ l ∈ reflow (xs.map ItpLine.lineStr), TLine l
  | [], _ => by simp [reflow]; exact tline_nl
  | [x], h => by
    simp only [List.map_cons, List.map_nil, reflow]
    by_cases h0 : x.lineStr = []
    · simp [h0]; exact tline_nl
    · simp only [h0, if_false]
      rcases h with h | h
      · rcases lineStr_TDer h with e | e
        · exact absurd e h0
        · simp only [tline_getLast e, if_true]
          refine ⟨by simp, ?_⟩
          intro l hl
          simp only [List.mem_cons, List.mem_nil_iff, or_false] at hl
          rcases hl with rfl | rfl
          · exact e
          · exact tline_nl
      · obtain ⟨r, hr, _, hm⟩ := h
        have hn := lineStr_nonl hm hr.2
        simp only [getLast_ne_of_not_mem hn, if_false]
        refine ⟨by simp, ?_⟩
        intro l hl
        simp only [List.mem_cons, List.mem_nil_iff, or_false] at hl
        subst hl
        exact ⟨_, rfl, hn⟩
  | x :: y :: xs, h => by
    obtain ⟨hx, hrest⟩ := h
    have ih := reflow_spec hrest
    simp only [List.map_cons] at ih ⊢
    simp only [reflow]
    rcases lineStr_TDer hx with e | e
    · simp only [e, if_true, List.flatten_cons, List.nil_append]; exact ih
    · simp only [tline_ne_nil e, if_false, List.flatten_cons, List.append_assoc]
      refine ⟨by rw [ih.1]; simp, ?_⟩
      intro l hl
      rcases List.mem_cons.mp hl with rfl | hl
      · exact e
      · exact ih.2 l hl

/-- the physical lines of `write f` -/
def wlines (f : ItpFile) : List Str :=
  f.header ++ (f.secs.map (fun s => hdrLine s.name :: reflow (s.lines.map ItpLine.lineStr))).flatten

theorem tline_hdrLine {n : Str} (h : '\n' ∉ n) : TLine (hdrLine n) := by
  refine ⟨'[' :: ' ' :: (n ++ [' ', ']']), by simp [hdrLine], ?_⟩
  intro e
  simp only [List.mem_cons, List.mem_append] at e
  rcases e with e | e | e | e
  · simp at e
  · simp at e
  · exact h e
  · simp at e

theorem secInv_linesOK {s : ItpSection} (h : SecInv s) : LinesOK (secKind s.name) s.lines := by
  obtain ⟨Ts, U, e, hT, hU⟩ := h
  rw [e]; exact linesOK_of_shape hT hU

theorem str_eq (s : ItpSection) :
    s.str = hdrLine s.name ++ (s.lines.map ItpLine.lineStr).flatten := by
  simp [ItpSection.str, hdrLine]

/-- `write f`, cut into physical lines again, is `wlines f` -/
theorem splitLines_write {f : ItpFile} (hi : Inv f) : splitLines (write f) = wlines f := by
  have hsec : ∀ s ∈ f.secs,
      s.str ++ ['\n'] = (hdrLine s.name :: reflow (s.lines.map ItpLine.lineStr)).flatten ∧
      ∀ l ∈ hdrLine s.name :: reflow (s.lines.map ItpLine.lineStr), TLine l := by
    intro s hs
    have h1 := reflow_spec (secInv_linesOK (hi.secs s hs))
    have hg := (hi.good s.name (by simp only [names, List.mem_map]; exact ⟨s, hs, rfl⟩)).1
    refine ⟨by rw [str_eq, List.flatten_cons, h1.1]; simp, ?_⟩
    intro l hl
    rcases List.mem_cons.mp hl with rfl | hl
    · exact tline_hdrLine hg.2
    · exact h1.2 l hl
  have hbody : (f.secs.map (fun s => s.str ++ ['\n'])).flatten =
      ((f.secs.map (fun s => hdrLine s.name :: reflow (s.lines.map ItpLine.lineStr))).flatten).flatten := by
    rw [List.flatten_flatten]
    congr 1
    rw [List.map_map]
    apply List.map_congr_left
    intro s hs
    exact (hsec s hs).1
  have hT : ∀ l ∈ (f.secs.map (fun s => hdrLine s.name :: reflow (s.lines.map ItpLine.lineStr))).flatten,
      TLine l := by
    intro l hl
    rw [List.mem_flatten] at hl
    obtain ⟨L, hL, hl⟩ := hl
    rw [List.mem_map] at hL
    obtain ⟨s, hs, rfl⟩ := hL
    exact (hsec s hs).2 l hl
  unfold write wlines
  rw [hbody]
  obtain ⟨Ts, U, hh, hTs, hU⟩ := hi.hdr_shape
  rcases hU with hU | ⟨u, hU, hu, hse⟩
  · subst hU
    simp only [List.append_nil] at hh
    rw [hh]
    have := splitLines_flatten hTs
      ((f.secs.map (fun s => hdrLine s.name :: reflow (s.lines.map ItpLine.lineStr))).flatten).flatten
    rw [this]
    congr 1
    have h2 := splitLines_flatten hT []
    simpa [splitLines_nil] using h2
  · subst hU
    rw [hse, hh]
    simp only [List.map_nil, List.flatten_nil, List.append_nil, List.flatten_append,
      List.flatten_cons]
    rw [splitLines_flatten hTs, splitLines_uline hu]

/-! ### running `ItpFile.__init__` over `wlines f` -/

theorem appendTo_last {secs : List ItpSection} {n : Str} (L : List ItpLine) (x : ItpLine)
    (h : n ∉ names secs) : appendTo (secs ++ [⟨n, L⟩]) n x = secs ++ [⟨n, L ++ [x]⟩] := by
  have := appendTo_of_not_mem x h
  unfold appendTo at this ⊢
  rw [List.map_append, this]
  simp

/-- the state while the lines of section `n` (the last one so far) are being read -/
def secState (H : List Str) (secs : List ItpSection) (n : Str) (L : List ItpLine) : PState :=
  ⟨⟨H, secs ++ [⟨n, L⟩]⟩, some n⟩

theorem step_secState {H : List Str} {secs : List ItpSection} {n : Str} {L : List ItpLine}
    {p : Str} {x : ItpLine} (hn : n ∉ names secs) (hh : isHeaderLine p = false)
    (hm : mkLine (secKind n) p = .ok x) :
    step (secState H secs n L) p = .ok (secState H secs n (L ++ [x])) := by
  rw [step_plain_some hh (n := n) rfl, hm]
  simp only [Except.bind, secState, appendTo_last L x hn]

theorem step_secState_nl {H : List Str} {secs : List ItpSection} {n : Str} {L : List ItpLine}
    (hn : n ∉ names secs) :
    step (secState H secs n L) ['\n'] = .ok (secState H secs n (L ++ [blankLine])) := by
  have hb : isBlank ['\n'] = true := by decide
  exact step_secState hn (by rw [isHeaderLine_eq_hdrTest]; exact hdrTest_blank hb) (mkLine_blank _ hb)

theorem TDer.facts {k : SecKind} {x : ItpLine} (h : TDer k x) :
    LineWF x ∧ lineCheck k x.content = .ok () ∧ isHeaderLine x.lineStr = false := by
  obtain ⟨r, _, hh, hm⟩ := h
  exact ⟨mkLine_wf hm, mkLine_lineCheck hm, not_header_lineStr hm hh⟩

theorem UDer.facts {k : SecKind} {x : ItpLine} (h : UDer k x) :
    LineWF x ∧ lineCheck k x.content = .ok () ∧ isHeaderLine x.lineStr = false ∧
      '\n' ∉ x.lineStr := by
  obtain ⟨r, hr, hh, hm⟩ := h
  exact ⟨mkLine_wf hm, mkLine_lineCheck hm, not_header_lineStr hm hh, lineStr_nonl hm hr.2⟩

theorem specItem_append_nl {u : Str} (h : '\n' ∉ u) : specItem (u ++ ['\n']) = specItem u := by
  unfold specItem
  rw [chomp_append_nl]
  have : chomp u = u := by
    unfold chomp; rw [if_neg (getLast_ne_of_not_mem h)]
  rw [this]

theorem viewLine_none_of_lineStr_nil {x : ItpLine} (hw : LineWF x) (h : x.lineStr = []) :
    viewLine x = none := by
  rw [← specItem_lineStr hw, h]; rfl

/-- the body of one written section is read back into line objects showing the same items -/
theorem fold_body {H : List Str} {secs : List ItpSection} {n : Str} (hn : n ∉ names secs) :
    ∀ {xs : List ItpLine} (L : List ItpLine), LinesOK (secKind n) xs →
    ∃ ys, foldSteps (secState H secs n L) (reflow (xs.map ItpLine.lineStr)) =
        .ok (secState H secs n (L ++ ys)) ∧
      ys.filterMap viewLine = xs.filterMap viewLine
  | [], L, _ => by
    refine ⟨[blankLine], ?_, by simp [viewLine_blankLine]⟩
    simp only [List.map_nil, reflow, foldSteps_cons, step_secState_nl hn, Except.bind, foldSteps_nil]
  | [x], L, h => by
    simp only [List.map_cons, List.map_nil, reflow]
    by_cases h0 : x.lineStr = []
    · have hw : LineWF x := by
        rcases h with h | h
        · exact h.facts.1
        · exact h.facts.1
      refine ⟨[blankLine], ?_, by simp [viewLine_blankLine, viewLine_none_of_lineStr_nil hw h0]⟩
      simp only [h0, if_true, foldSteps_cons, step_secState_nl hn, Except.bind, foldSteps_nil]
    · simp only [h0, if_false]
      rcases h with h | h
      · obtain ⟨hw, hl, hh⟩ := h.facts
        rcases lineStr_TDer h with e | e
        · exact absurd e h0
        · obtain ⟨x', hm, hv⟩ := reread_line hw hl hh (specItem_lineStr hw)
          refine ⟨[x', blankLine], ?_, by simp [List.filterMap_cons, viewLine_blankLine, hv]⟩
          simp only [tline_getLast e, if_true, foldSteps_cons, step_secState hn hh hm, Except.bind,
            step_secState_nl hn, foldSteps_nil, List.append_assoc, List.cons_append, List.nil_append]
      · obtain ⟨hw, hl, hh, hnl⟩ := h.facts
        have hh' : isHeaderLine (x.lineStr ++ ['\n']) = false := by
          rw [isHeaderLine_eq_hdrTest, hdrTest_append_nl, ← isHeaderLine_eq_hdrTest]; exact hh
        have hs : specItem (x.lineStr ++ ['\n']) = viewLine x := by
          rw [specItem_append_nl hnl]; exact specItem_lineStr hw
        obtain ⟨x', hm, hv⟩ := reread_line hw hl hh' hs
        refine ⟨[x'], ?_, by simp [List.filterMap_cons, hv]⟩
        simp only [getLast_ne_of_not_mem hnl, if_false, foldSteps_cons, step_secState hn hh' hm,
          Except.bind, foldSteps_nil]
  | x :: y :: xs, L, h => by
    obtain ⟨hx, hrest⟩ := h
    obtain ⟨hw, hl, hh⟩ := hx.facts
    simp only [List.map_cons, reflow]
    rcases lineStr_TDer hx with e | e
    · obtain ⟨ys, h1, h2⟩ := fold_body hn L hrest
      refine ⟨ys, ?_, ?_⟩
      · simp only [e, if_true]; simpa using h1
      · rw [h2]; simp [List.filterMap_cons, viewLine_none_of_lineStr_nil hw e]
    · obtain ⟨x', hm, hv⟩ := reread_line hw hl hh (specItem_lineStr hw)
      obtain ⟨ys, h1, h2⟩ := fold_body hn (L ++ [x']) hrest
      refine ⟨x' :: ys, ?_, ?_⟩
      · simp only [tline_ne_nil e, if_false, foldSteps_cons, step_secState hn hh hm, Except.bind]
        simpa using h1
      · simp only [List.filterMap_cons, hv, h2]

theorem headerNameOf_hdrLine {n : Str} (h : GoodName n) : headerNameOf (hdrLine n) = some n := by
  unfold headerNameOf
  rw [isHeaderLine_hdrLine h.2, if_pos rfl, sectionName_hdrLine h]

/-- one written section: header line, then its body -/
theorem fold_section {H : List Str} {secs : List ItpSection} {c : Option Str} {s : ItpSection}
    (hn : s.name ∉ names secs) (hg : GoodName s.name ∧ s.name ≠ headerKey) (hs : SecInv s) :
    ∃ ys, foldSteps ⟨⟨H, secs⟩, c⟩ (hdrLine s.name :: reflow (s.lines.map ItpLine.lineStr)) =
        .ok (secState H secs s.name ys) ∧
      ys.filterMap viewLine = s.lines.filterMap viewLine := by
  obtain ⟨ys, h1, h2⟩ := fold_body (H := H) hn [] (secInv_linesOK hs)
  refine ⟨ys, ?_, h2⟩
  rw [foldSteps_cons, step_header (headerNameOf_hdrLine hg.1) hg.2]
  have : hasSec secs s.name = false := by
    cases hh : hasSec secs s.name with
    | false => rfl
    | true => exact absurd ((hasSec_iff _ _).mp hh) hn
  simp only [this, Bool.false_eq_true, if_false, Except.bind]
  simpa [secState] using h1

def secView (s : ItpSection) : Str × List Item := (s.name, s.lines.filterMap viewLine)

/-- all written sections, in order -/
theorem fold_sections {H : List Str} : ∀ {ss : List ItpSection} (done : List ItpSection)
    (c : Option Str), (names (done ++ ss)).Nodup →
    (∀ s ∈ ss, (GoodName s.name ∧ s.name ≠ headerKey) ∧ SecInv s) →
    ∃ done' c', foldSteps ⟨⟨H, done⟩, c⟩
        (ss.map (fun s => hdrLine s.name :: reflow (s.lines.map ItpLine.lineStr))).flatten =
        .ok ⟨⟨H, done ++ done'⟩, c'⟩ ∧
      done'.map secView = ss.map secView
  | [], done, c, _, _ => ⟨[], c, by simp [foldSteps_nil], rfl⟩
  | s :: ss, done, c, hnd, hall => by
    have hn : s.name ∉ names done := by
      intro e
      simp only [names, List.map_append, List.map_cons] at hnd
      rw [List.nodup_append] at hnd
      exact hnd.2.2 _ e _ (by simp) rfl
    obtain ⟨hg, hs⟩ := hall s (by simp)
    obtain ⟨ys, h1, h2⟩ := fold_section (H := H) (c := c) hn hg hs
    have hnd' : (names ((done ++ [⟨s.name, ys⟩]) ++ ss)).Nodup := by
      simpa [names] using hnd
    obtain ⟨done', c', h3, h4⟩ := fold_sections (done ++ [⟨s.name, ys⟩]) (some s.name) hnd'
      (fun x hx => hall x (by simp [hx]))
    refine ⟨⟨s.name, ys⟩ :: done', c', ?_, ?_⟩
    · simp only [List.map_cons, List.flatten_cons]
      rw [foldSteps_append, h1]
      simp only [Except.bind, secState]
      simpa using h3
    · simp only [List.map_cons, h4]
      congr 1
      simp only [secView, h2]

theorem fold_header : ∀ {Hs : List Str} (H0 : List Str), (∀ l ∈ Hs, isHeaderLine l = false) →
    foldSteps ⟨⟨H0, []⟩, none⟩ Hs = .ok ⟨⟨H0 ++ Hs, []⟩, none⟩
  | [], H0, _ => by simp [foldSteps_nil]
  | l :: Hs, H0, h => by
    rw [foldSteps_cons, step_plain_none (h l (by simp)) rfl]
    simp only [Except.bind]
    have := fold_header (Hs := Hs) (H0 ++ [l]) (fun x hx => h x (by simp [hx]))
    simpa using this

/-- L3: what `write` wrote is read back, and shows the same view -/
theorem reparse {f : ItpFile} (hi : Inv f) :
    ∃ f', parse (write f) = .ok f' ∧ view f' = view f := by
  have hall : ∀ s ∈ f.secs, (GoodName s.name ∧ s.name ≠ headerKey) ∧ SecInv s := by
    intro s hs
    exact ⟨hi.good s.name (by simp only [names, List.mem_map]; exact ⟨s, hs, rfl⟩), hi.secs s hs⟩
  obtain ⟨done', c', h1, h2⟩ := fold_sections (H := f.header) (ss := f.secs) [] none
    (by simpa using hi.nodup) hall
  refine ⟨⟨f.header, done'⟩, ?_, ?_⟩
  · unfold parse
    rw [splitLines_write hi]
    unfold wlines
    rw [foldSteps_append, fold_header [] hi.hdr_plain]
    simp only [Except.bind, List.nil_append]
    rw [h1]
    simp [bind, Except.bind, pure, Except.pure]
  · unfold view
    simp only [View.mk.injEq, true_and]
    exact h2

theorem reflow_not_header {k : SecKind} : ∀ {xs : List ItpLine}, LinesOK k xs →
    ∀ l ∈ reflow (xs.map ItpLine.lineStr), isHeaderLine l = false
  | [], _ => by
    intro l hl
    simp [reflow] at hl; subst hl
    rw [isHeaderLine_eq_hdrTest]; exact hdrTest_blank (by decide)
  | [x], h => by
    intro l hl
    have hnl : isHeaderLine ['\n'] = false := by
      rw [isHeaderLine_eq_hdrTest]; exact hdrTest_blank (by decide)
    simp only [List.map_cons, List.map_nil, reflow] at hl
    split_ifs at hl with h0 h1
    · simp at hl; subst hl; exact hnl
    · simp at hl
      rcases hl with rfl | rfl
      · rcases h with h | h
        · exact h.facts.2.2
        · exact h.facts.2.2.1
      · exact hnl
    · simp at hl; subst hl
      rw [isHeaderLine_eq_hdrTest, hdrTest_append_nl, ← isHeaderLine_eq_hdrTest]
      rcases h with h | h
      · exact h.facts.2.2
      · exact h.facts.2.2.1
  | x :: y :: xs, h => by
    intro l hl
    obtain ⟨hx, hrest⟩ := h
    simp only [List.map_cons, reflow] at hl
    have ih := reflow_not_header hrest
    simp only [List.map_cons] at ih
    split_ifs at hl with h0
    · exact ih l hl
    · rcases List.mem_cons.mp hl with rfl | hl
      · exact hx.facts.2.2
      · exact ih l hl

theorem headerNameOf_of_not_header {l : Str} (h : isHeaderLine l = false) : headerNameOf l = none := by
  unfold headerNameOf; simp [h]

/-- L4: no line of `write f` declares the key `header` -/
theorem noHeaderKey_write {f : ItpFile} (hi : Inv f) : NoHeaderKey (splitLines (write f)) := by
  rw [splitLines_write hi]
  intro l hl
  unfold wlines at hl
  rcases List.mem_append.mp hl with hl | hl
  · rw [headerNameOf_of_not_header (hi.hdr_plain l hl)]; simp
  · rw [List.mem_flatten] at hl
    obtain ⟨L, hL, hl⟩ := hl
    rw [List.mem_map] at hL
    obtain ⟨s, hs, rfl⟩ := hL
    have hg := hi.good s.name (by simp only [names, List.mem_map]; exact ⟨s, hs, rfl⟩)
    rcases List.mem_cons.mp hl with rfl | hl
    · rw [headerNameOf_hdrLine hg.1]
      intro e; exact hg.2 (by simpa using e)
    · rw [headerNameOf_of_not_header (reflow_not_header (secInv_linesOK (hi.secs s hs)) l hl)]
      simp

/-! ### the topology lookup is a function of the view -/

/-- the content tokens of an item, if it has any -/
def contentToks : Item → Option (List Str)
  | .ln t _ => if t = [] then none else some t
  | .pp _ => none

/-- SPEC: section name ↦ token lists of its content lines -/
def View.lookup (v : View) : Lookup :=
  fun n => (v.secs.find? (fun p => p.1 = n)).map (fun p => p.2.filterMap contentToks)

theorem contentLines_tokens {ls : List ItpLine} (h : ∀ x ∈ ls, LineWF x) :
    (ls.filter (fun l => !isBlank l.content)).map ItpLine.tokens =
      (ls.filterMap viewLine).filterMap contentToks := by
  induction ls with
  | nil => rfl
  | cons x ls ih =>
    have hw := h x (by simp)
    have ih' := ih (fun y hy => h y (by simp [hy]))
    have ht := itemToks_viewLine hw
    by_cases hb : isBlank x.content = true
    · have hs : split x.content = [] := split_blank hb
      have : (viewLine x).bind contentToks = none := by
        rw [hs] at ht
        cases hv : viewLine x with
        | none => rfl
        | some it =>
          cases it with
          | pp r => rfl
          | ln t c => rw [hv] at ht; simp [itemToks] at ht; simp [contentToks, ht]
      simp only [List.filter_cons, hb, Bool.not_true, Bool.false_eq_true, if_false]
      rw [ih']
      cases hv : viewLine x with
      | none => simp [List.filterMap_cons, hv]
      | some it =>
        rw [hv] at this
        simp only [Option.bind] at this
        simp [List.filterMap_cons, hv, this]
    · have hb' : isBlank x.content = false := by simpa using hb
      have hs : split x.content ≠ [] := by
        intro e; rw [split_eq_nil_iff] at e; rw [e] at hb'; simp at hb'
      have hd : x.directive = false := by
        cases hd : x.directive with
        | false => rfl
        | true => have := (hw.1 hd).1; rw [this] at hb'; simp [isBlank] at hb'
      have hv : viewLine x = some (.ln (split x.content) (strip x.comment)) := by
        unfold viewLine; simp [hd, hs]
      simp only [List.filter_cons, hb', Bool.not_false, if_true, List.map_cons]
      rw [ih']
      simp [List.filterMap_cons, hv, contentToks, hs, ItpLine.tokens]

theorem Inv.lineWF {f : ItpFile} (hi : Inv f) : ∀ s ∈ f.secs, ∀ x ∈ s.lines, LineWF x := by
  intro s hs x hx
  obtain ⟨Ts, U, e, hT, hU⟩ := hi.secs s hs
  rw [e] at hx
  rcases List.mem_append.mp hx with hx | hx
  · exact (hT x hx).facts.1
  · rcases hU with rfl | ⟨y, rfl, hy⟩
    · simp at hx
    · simp at hx; subst hx; exact hy.facts.1

theorem secTokens_eq_lookup {f : ItpFile} (hi : Inv f) : f.secTokens = (view f).lookup := by
  funext n
  unfold ItpFile.secTokens View.lookup ItpFile.get? view
  simp only
  rw [List.find?_map]
  cases hfind : f.secs.find? (fun s => decide (s.name = n)) with
  | none =>
    have : List.find? ((fun p : Str × List Item => decide (p.1 = n)) ∘
        fun s : ItpSection => (s.name, s.lines.filterMap viewLine)) f.secs = none := by
      rw [← hfind]; rfl
    rw [this]; rfl
  | some s =>
    have : List.find? ((fun p : Str × List Item => decide (p.1 = n)) ∘
        fun s : ItpSection => (s.name, s.lines.filterMap viewLine)) f.secs = some s := by
      rw [← hfind]; rfl
    rw [this]
    simp only [Option.map_some]
    congr 1
    have hmem := List.mem_of_find?_eq_some hfind
    exact contentLines_tokens (hi.lineWF s hmem)

/-! ### the class of texts the file theorems cover (decidable) -/

/-- the library loads the text (every typed line of `atoms`, `bonds`/`constraints`/`pairs` and
    `moleculetype`-like sections passes its field conversions) and no section header declares the
    name `header`, the dictionary key `ItpFile` reserves for the text before the first section -/
def wfText (t : Str) : Bool :=
  (match parse t with
   | .ok _ => true
   | .error _ => false) &&
  (splitLines t).all (fun l => headerNameOf l != some headerKey)

theorem wfText_noHeaderKey {t : Str} (h : wfText t = true) : NoHeaderKey (splitLines t) := by
  unfold wfText at h
  rw [Bool.and_eq_true, List.all_eq_true] at h
  intro l hl
  have := h.2 l hl
  simpa using this

theorem wfText_parse {t : Str} (h : wfText t = true) : ∃ f, parse t = .ok f := by
  unfold wfText at h
  rw [Bool.and_eq_true] at h
  cases hp : parse t with
  | ok f => exact ⟨f, rfl⟩
  | error e => rw [hp] at h; simp at h

theorem wfText_of {t : Str} {f : ItpFile} (h : parse t = .ok f) (hk : NoHeaderKey (splitLines t)) :
    wfText t = true := by
  unfold wfText
  rw [h, Bool.and_eq_true, List.all_eq_true]
  refine ⟨rfl, ?_⟩
  intro l hl
  simpa using hk l hl

/-! ### `write` invents no characters (so the text layer's newline translation is the identity
on re-read: a decoded text holds no `\r`, hence neither does the written one) -/

theorem splitLinesGo_flatten (cur s : Str) : (splitLinesGo cur s).flatten = cur.reverse ++ s := by
  induction s generalizing cur with
  | nil => by_cases h : cur.isEmpty = true <;> simp_all [splitLinesGo]
  | cons x s ih =>
    by_cases hx : x = '\n'
    · simp [splitLinesGo, hx, ih]
    · simp [splitLinesGo, hx, ih]

theorem mem_of_mem_splitLines {t l : Str} {c : Char} (hl : l ∈ splitLines t) (hc : c ∈ l) : c ∈ t := by
  have h := splitLinesGo_flatten [] t
  simp only [List.reverse_nil, List.nil_append] at h
  rw [← h, List.mem_flatten]
  exact ⟨l, hl, hc⟩

theorem mem_sectionName {l n : Str} {c : Char} (h : sectionName l = some n) (hc : c ∈ n) : c ∈ l := by
  unfold sectionName at h
  simp only at h
  split at h
  · simp at h
  · rename_i x rest heq
    split_ifs at h with hcc
    simp only [Option.some.injEq] at h
    subst h
    have h1 := mem_strip hc
    rw [List.mem_reverse] at h1
    have h2 := List.mem_of_mem_drop h1
    have h3 := (List.dropWhile_sublist _).subset h2
    rw [List.mem_reverse] at h3
    have h4 : c ∈ x :: rest := List.mem_cons_of_mem _ h3
    rw [← heq] at h4
    have h5 := (List.dropWhile_sublist _).subset h4
    exact (List.takeWhile_prefix _).subset h5

theorem mem_mkLine {k : SecKind} {r : Str} {x : ItpLine} {c : Char} (h : mkLine k r = .ok x)
    (hc : c ∈ x.content ∨ c ∈ x.comment) : c ∈ r := by
  obtain ⟨ct, m, hp, _, hx⟩ := mkLine_eq_ok h
  rw [hx] at hc
  simp only at hc
  rcases parseItpLine_cases hp with ⟨_, h1, h2⟩ | ⟨_, h1, h2⟩ | ⟨_, _, hr, _⟩ | ⟨_, _, _, h1, h2⟩
  · rw [h1, h2] at hc; simp at hc
  · rw [h1, h2] at hc; simpa using hc
  · rw [hr]
    rcases hc with hc | hc
    · exact List.mem_append_left _ hc
    · exact List.mem_append_right _ (List.mem_cons_of_mem _ hc)
  · rw [h1, h2] at hc; simpa using hc

theorem mem_lineStr {x : ItpLine} {c : Char} (h : c ∈ x.lineStr) :
    c ∈ x.content ∨ c ∈ x.comment ∨ c = ';' ∨ c = ' ' := by
  unfold ItpLine.lineStr at h
  split_ifs at h
  · exact Or.inr (Or.inl h)
  · simp only [List.mem_append, List.mem_cons] at h
    tauto
  · simp only [List.mem_append] at h
    tauto

/-- every character stored in the state comes from the text `t` -/
structure CInv (t : Str) (st : PState) : Prop where
  hdr : ∀ l ∈ st.file.header, ∀ c ∈ l, c ∈ t
  nm : ∀ s ∈ st.file.secs, ∀ c ∈ s.name, c ∈ t
  ln : ∀ s ∈ st.file.secs, ∀ x ∈ s.lines, ∀ c, (c ∈ x.content ∨ c ∈ x.comment) → c ∈ t

theorem step_cinv {t : Str} {st st' : PState} {l : Str} (h : step st l = .ok st')
    (hi : CInv t st) (hl : ∀ c ∈ l, c ∈ t) : CInv t st' := by
  unfold step at h
  split_ifs at h with hh
  · -- not a header line
    cases hc : st.cur with
    | none =>
      rw [hc] at h
      simp only [Except.ok.injEq] at h
      subst h
      refine ⟨?_, hi.nm, hi.ln⟩
      intro x hx c hcx
      simp only [List.mem_append, List.mem_singleton] at hx
      rcases hx with hx | hx
      · exact hi.hdr x hx c hcx
      · subst hx; exact hl c hcx
    | some n =>
      rw [hc] at h
      simp only [bind, Except.bind] at h
      cases hm : mkLine (secKind n) l with
      | error e => rw [hm] at h; simp at h
      | ok x =>
        rw [hm] at h
        simp only [pure, Except.pure, Except.ok.injEq] at h
        subst h
        refine ⟨hi.hdr, ?_, ?_⟩
        · intro s hs c hcs
          rcases mem_appendTo hs with hs | ⟨s0, hs0, _, e⟩
          · exact hi.nm s hs c hcs
          · subst e; exact hi.nm s0 hs0 c hcs
        · intro s hs y hy c hcy
          rcases mem_appendTo hs with hs | ⟨s0, hs0, _, e⟩
          · exact hi.ln s hs y hy c hcy
          · subst e
            simp only [List.mem_append, List.mem_singleton] at hy
            rcases hy with hy | hy
            · exact hi.ln s0 hs0 y hy c hcy
            · subst hy; exact hl c (mem_mkLine hm hcy)
  · cases hn : sectionName l with
    | none => rw [hn] at h; simp at h
    | some n =>
      rw [hn] at h
      simp only at h
      split_ifs at h with h1 h2
      · simp only [Except.ok.injEq] at h; subst h; exact ⟨hi.hdr, hi.nm, hi.ln⟩
      · simp only [Except.ok.injEq] at h; subst h; exact ⟨hi.hdr, hi.nm, hi.ln⟩
      · simp only [Except.ok.injEq] at h
        subst h
        refine ⟨hi.hdr, ?_, ?_⟩
        · intro s hs c hcs
          simp only [List.mem_append, List.mem_singleton] at hs
          rcases hs with hs | hs
          · exact hi.nm s hs c hcs
          · subst hs; exact hl c (mem_sectionName hn hcs)
        · intro s hs y hy c hcy
          simp only [List.mem_append, List.mem_singleton] at hs
          rcases hs with hs | hs
          · exact hi.ln s hs y hy c hcy
          · subst hs; simp at hy

theorem foldSteps_cinv {t : Str} {ls : List Str} : ∀ {st st' : PState},
    foldSteps st ls = .ok st' → CInv t st → (∀ l ∈ ls, ∀ c ∈ l, c ∈ t) → CInv t st' := by
  induction ls with
  | nil => intro st st' h hi _; simp only [foldSteps_nil, Except.ok.injEq] at h; subst h; exact hi
  | cons l ls ih =>
    intro st st' h hi hl
    rw [foldSteps_cons] at h
    cases hs : step st l with
    | error e => rw [hs] at h; simp [Except.bind] at h
    | ok st1 =>
      rw [hs] at h
      simp only [Except.bind] at h
      exact ih h (step_cinv hs hi (hl l (by simp))) (fun x hx => hl x (by simp [hx]))

/-- WRITE INVENTS NO CHARACTERS: every character of `write (parse t)` occurs in `t` or is one of
    the five the writer adds (`[`, space, `]`, newline, `;`) -/
theorem write_chars {t : Str} {f : ItpFile} (h : parse t = .ok f) :
    ∀ c ∈ write f, c ∈ t ∨ c ∈ ['[', ' ', ']', '\n', ';'] := by
  obtain ⟨st, hf, rfl⟩ := parse_eq h
  have hi : CInv t st := foldSteps_cinv hf ⟨by simp [initState], by simp [initState], by simp [initState]⟩
    (fun l hl c hc => mem_of_mem_splitLines hl hc)
  intro c hc
  unfold write at hc
  rcases List.mem_append.mp hc with hc | hc
  · rw [List.mem_flatten] at hc
    obtain ⟨l, hl, hcl⟩ := hc
    exact Or.inl (hi.hdr l hl c hcl)
  · rw [List.mem_flatten] at hc
    obtain ⟨L, hL, hcL⟩ := hc
    rw [List.mem_map] at hL
    obtain ⟨s, hs, rfl⟩ := hL
    rw [str_eq] at hcL
    simp only [hdrLine, List.mem_append, List.mem_cons, List.mem_flatten, List.mem_map] at hcL
    rcases hcL with ((hcL | hcL | hcL | hcL) | ⟨_, ⟨x, hx, rfl⟩, hcx⟩) | hcL
    · right; simp [hcL]
    · right; simp [hcL]
    · exact Or.inl (hi.nm s hs c hcL)
    · right
      simp only [List.mem_cons, List.mem_nil_iff, or_false] at hcL
      rcases hcL with e | e | e <;> simp [e]
    · rcases mem_lineStr hcx with h1 | h1 | h1 | h1
      · exact Or.inl (hi.ln s hs x hx c (Or.inl h1))
      · exact Or.inl (hi.ln s hs x hx c (Or.inr h1))
      · right; simp [h1]
      · right; simp [h1]
    · right
      simp only [List.mem_cons, List.mem_nil_iff, or_false] at hcL
      simp [hcL]

theorem universalNl_cons_ne {c : Char} (cs : Str) (hc : c ≠ '\r') :
    universalNl (c :: cs) = c :: universalNl cs := by
  rw [universalNl]
  · intro x e _; exact hc e
  · exact hc

theorem universalNl_not_mem_cr_aux : ∀ (n : Nat) (s : Str), s.length ≤ n → '\r' ∉ universalNl s := by
  intro n
  induction n with
  | zero =>
    intro s hs
    have : s = [] := by simpa using hs
    subst this; simp [universalNl]
  | succ n ih =>
    intro s hs
    cases s with
    | nil => simp [universalNl]
    | cons c cs =>
      by_cases hc : c = '\r'
      · subst hc
        cases cs with
        | nil => simp [universalNl]
        | cons d ds =>
          by_cases hd : d = '\n'
          · subst hd
            simp only [universalNl, List.mem_cons, not_or]
            exact ⟨by decide, ih ds (by simp at hs; omega)⟩
          · have : universalNl ('\r' :: d :: ds) = '\n' :: universalNl (d :: ds) := by
              rw [universalNl]
              intro x e; simp at e; exact hd e.1
            rw [this]
            simp only [List.mem_cons, not_or]
            exact ⟨by decide, ih (d :: ds) (by simp at hs ⊢; omega)⟩
      · rw [universalNl_cons_ne cs hc]
        simp only [List.mem_cons, not_or]
        exact ⟨fun e => hc e.symm, ih cs (by simp at hs; omega)⟩

theorem universalNl_not_mem_cr (s : Str) : '\r' ∉ universalNl s :=
  universalNl_not_mem_cr_aux s.length s (Nat.le_refl _)

theorem universalNl_id {s : Str} (h : '\r' ∉ s) : universalNl s = s := by
  induction s with
  | nil => rfl
  | cons c cs ih =>
    have hc : c ≠ '\r' := fun e => h (by simp [e])
    have hcs : '\r' ∉ cs := fun e => h (by simp [e])
    rw [universalNl_cons_ne cs hc, ih hcs]

theorem mem_universalNl_aux : ∀ (n : Nat) (s : Str) (c : Char), s.length ≤ n →
    c ∈ universalNl s → c ∈ s ∨ c = '\n' := by
  intro n
  induction n with
  | zero =>
    intro s c hs hc
    have : s = [] := by simpa using hs
    subst this; simp [universalNl] at hc
  | succ n ih =>
    intro s c hs hc
    cases s with
    | nil => simp [universalNl] at hc
    | cons x xs =>
      by_cases hx : x = '\r'
      · subst hx
        cases xs with
        | nil => simp [universalNl] at hc; exact Or.inr hc
        | cons d ds =>
          by_cases hd : d = '\n'
          · subst hd
            simp only [universalNl, List.mem_cons] at hc
            rcases hc with e | e
            · exact Or.inr e
            · rcases ih ds c (by simp at hs; omega) e with h | h
              · left; simp [h]
              · exact Or.inr h
          · have : universalNl ('\r' :: d :: ds) = '\n' :: universalNl (d :: ds) := by
              rw [universalNl]
              intro x e; simp at e; exact hd e.1
            rw [this] at hc
            rcases List.mem_cons.mp hc with e | e
            · exact Or.inr e
            · rcases ih (d :: ds) c (by simp at hs ⊢; omega) e with h | h
              · left; exact List.mem_cons_of_mem _ h
              · exact Or.inr h
      · rw [universalNl_cons_ne xs hx] at hc
        rcases List.mem_cons.mp hc with e | e
        · left; simp [e]
        · rcases ih xs c (by simp at hs; omega) e with h | h
          · left; exact List.mem_cons_of_mem _ h
          · exact Or.inr h

theorem toNat_ofNat_ascii : ∀ n, n < 128 → (Char.ofNat n).toNat = n := by decide

/-- the decoded text is ASCII and holds no carriage return -/
theorem decode_chars {b : List UInt8} {t : Str} (h : decode b = .ok t) :
    ∀ c ∈ t, c.toNat < 128 ∧ c ≠ '\r' := by
  unfold decode at h
  split_ifs at h with hb
  simp only [Except.ok.injEq] at h
  subst h
  intro c hc
  refine ⟨?_, fun e => universalNl_not_mem_cr _ (e ▸ hc)⟩
  rcases mem_universalNl_aux _ _ c (Nat.le_refl _) hc with h1 | h1
  · rw [List.mem_map] at h1
    obtain ⟨u, hu, rfl⟩ := h1
    have : u < 128 := by simpa using List.all_eq_true.mp hb u hu
    have hlt : u.toNat < 128 := this
    rw [toNat_ofNat_ascii _ hlt]; exact hlt
  · subst h1; decide

theorem decode_encode {s : Str} (h : ∀ c ∈ s, c.toNat < 128 ∧ c ≠ '\r') :
    decode (encode s) = .ok s := by
  unfold decode encode
  have hall : (s.map (fun c => UInt8.ofNat c.toNat)).all (· < 128) = true := by
    rw [List.all_eq_true]
    intro u hu
    rw [List.mem_map] at hu
    obtain ⟨c, hc, rfl⟩ := hu
    have := (h c hc).1
    simp only [decide_eq_true_eq]
    show (UInt8.ofNat c.toNat).toNat < 128
    rw [UInt8.toNat_ofNat']
    omega
  rw [if_pos hall]
  have hmap : (s.map (fun c => UInt8.ofNat c.toNat)).map (fun u => Char.ofNat u.toNat) = s := by
    rw [List.map_map]
    conv_rhs => rw [← List.map_id s]
    apply List.map_congr_left
    intro c hc
    have := (h c hc).1
    simp only [Function.comp, id]
    rw [UInt8.toNat_ofNat', Nat.mod_eq_of_lt (by omega)]
    exact Char.ofNat_toNat c
  rw [hmap, universalNl_id (fun e => (h _ e).2 rfl)]

end Itp
