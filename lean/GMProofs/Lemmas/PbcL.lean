import GMProofs.Lemmas.Vec
import GMModel.Pbc
import Mathlib.Algebra.Order.Round
import Mathlib.Algebra.Order.Floor.Ring
import Mathlib.Algebra.Group.Int.Even
/-
  GMProofs.Lemmas.PbcL — lemmas for C19 (`Residue.distance_to`): round-half-even on ℝ, the 3×3
  inverse by adjugate/determinant, and the wrap `v ↦ (v B⁻¹ − round(v B⁻¹)) B`.
-/

namespace PbcL
open Real

/-! ### `np.round` = round half to even -/

theorem rhe_cases (x : ℝ) :
    (roundHalfEven x = (⌊x⌋ : ℝ) ∧ x - ⌊x⌋ ≤ 1 / 2) ∨
    (roundHalfEven x = (⌊x⌋ : ℝ) + 1 ∧ 1 / 2 ≤ x - ⌊x⌋) := by
  unfold Real.roundHalfEven
  split_ifs with h1 h2 h3
  · left; exact ⟨rfl, h1.le⟩
  · right; exact ⟨rfl, h2.le⟩
  · left; exact ⟨rfl, not_lt.mp h2⟩
  · right; exact ⟨rfl, not_lt.mp h1⟩

/-- the rounded value is an integer -/
theorem rhe_int (x : ℝ) : ∃ k : ℤ, roundHalfEven x = (k : ℝ) := by
  rcases rhe_cases x with ⟨h, _⟩ | ⟨h, _⟩
  · exact ⟨⌊x⌋, h⟩
  · exact ⟨⌊x⌋ + 1, by rw [h]; push_cast; ring⟩

/-- `|x − round x| ≤ 1/2` -/
theorem rhe_abs_le (x : ℝ) : |x - roundHalfEven x| ≤ 1 / 2 := by
  have h1 := Int.floor_le x
  have h2 := Int.lt_floor_add_one x
  rcases rhe_cases x with ⟨h, hf⟩ | ⟨h, hf⟩ <;> rw [h, abs_le] <;> constructor <;> linarith

/-- an integer within 1/2 of `x` is at least as close to `x` as any other integer -/
theorem nearest_int_le {x r : ℝ} (hr : ∃ k : ℤ, r = (k : ℝ)) (h : |x - r| ≤ 1 / 2) (n : ℤ) :
    |x - r| ≤ |x - (n : ℝ)| := by
  obtain ⟨k, rfl⟩ := hr
  by_cases hkn : k = n
  · subst hkn; exact le_rfl
  · have h1 : (1 : ℝ) ≤ |((k - n : ℤ) : ℝ)| := by
      rw [← Int.cast_abs]
      have : (1 : ℤ) ≤ |k - n| := Int.one_le_abs (sub_ne_zero.mpr hkn)
      exact_mod_cast this
    have h2 : |((k - n : ℤ) : ℝ)| ≤ |x - (n : ℝ)| + |x - (k : ℝ)| := by
      have : ((k - n : ℤ) : ℝ) = (x - n) - (x - k) := by push_cast; ring
      rw [this]; exact abs_sub _ _
    linarith

theorem rhe_nearest (x : ℝ) (n : ℤ) : |x - roundHalfEven x| ≤ |x - (n : ℝ)| :=
  nearest_int_le (rhe_int x) (rhe_abs_le x) n

theorem rhe_of_lt {x : ℝ} (h : x - ⌊x⌋ < 1 / 2) : roundHalfEven x = (⌊x⌋ : ℝ) := by
  unfold Real.roundHalfEven; rw [if_pos h]

theorem rhe_of_gt {x : ℝ} (h : 1 / 2 < x - ⌊x⌋) : roundHalfEven x = (⌊x⌋ : ℝ) + 1 := by
  unfold Real.roundHalfEven; rw [if_neg (by linarith), if_pos h]

theorem rhe_of_eq_even {x : ℝ} (h : x - ⌊x⌋ = 1 / 2) (he : Even ⌊x⌋) :
    roundHalfEven x = (⌊x⌋ : ℝ) := by
  unfold Real.roundHalfEven; rw [if_neg (by linarith), if_neg (by linarith), if_pos he]

theorem rhe_of_eq_odd {x : ℝ} (h : x - ⌊x⌋ = 1 / 2) (he : ¬ Even ⌊x⌋) :
    roundHalfEven x = (⌊x⌋ : ℝ) + 1 := by
  unfold Real.roundHalfEven; rw [if_neg (by linarith), if_neg (by linarith), if_neg he]

/-- rounding commutes with integer shifts away from the half-way points -/
theorem rhe_add_int (x : ℝ) (n : ℤ) (h : x - ⌊x⌋ ≠ 1 / 2) :
    roundHalfEven (x + n) = roundHalfEven x + n := by
  have hf : ⌊x + (n : ℝ)⌋ = ⌊x⌋ + n := Int.floor_add_intCast x n
  have e : x + (n : ℝ) - (⌊x + (n : ℝ)⌋ : ℝ) = x - ⌊x⌋ := by rw [hf]; push_cast; ring
  rcases lt_or_gt_of_ne h with hlt | hgt
  · rw [rhe_of_lt hlt, rhe_of_lt (by rw [e]; exact hlt), hf]; push_cast; ring
  · rw [rhe_of_gt hgt, rhe_of_gt (by rw [e]; exact hgt), hf]; push_cast; ring

/-- round-half-even is odd: `round(−x) = −round(x)` (also at the ties) -/
theorem rhe_neg (x : ℝ) : roundHalfEven (-x) = -roundHalfEven x := by
  have h1 := Int.floor_le x
  have h2 := Int.lt_floor_add_one x
  by_cases h0 : x = (⌊x⌋ : ℝ)
  · -- x is an integer
    have hn : ⌊-x⌋ = -⌊x⌋ := by
      rw [h0, ← Int.cast_neg, Int.floor_intCast, Int.floor_intCast]
    have e1 : x - (⌊x⌋ : ℝ) < 1 / 2 := by linarith
    have e2 : -x - (⌊-x⌋ : ℝ) < 1 / 2 := by rw [hn]; push_cast; linarith
    rw [rhe_of_lt e1, rhe_of_lt e2, hn]; push_cast; ring
  · have hpos : (⌊x⌋ : ℝ) < x := lt_of_le_of_ne h1 (Ne.symm h0)
    have hn : ⌊-x⌋ = -⌊x⌋ - 1 := by
      rw [Int.floor_eq_iff]; push_cast; constructor <;> linarith
    have e2 : -x - (⌊-x⌋ : ℝ) = 1 - (x - ⌊x⌋) := by rw [hn]; push_cast; ring
    have hpar : Even ⌊-x⌋ ↔ ¬ Even ⌊x⌋ := by
      rw [hn, show -⌊x⌋ - 1 = -(⌊x⌋ + 1) by ring, even_neg, Int.even_add_one]
    have hc : ((⌊-x⌋ : ℤ) : ℝ) = -(⌊x⌋ : ℝ) - 1 := by rw [hn]; push_cast; ring
    rcases lt_trichotomy (x - ⌊x⌋) (1 / 2) with hlt | heq | hgt
    · rw [rhe_of_lt hlt, rhe_of_gt (by rw [e2]; linarith), hc]; ring
    · by_cases hev : Even ⌊x⌋
      · rw [rhe_of_eq_even heq hev,
          rhe_of_eq_odd (by rw [e2, heq]; norm_num) (fun h => (hpar.mp h) hev), hc]; ring
      · rw [rhe_of_eq_odd heq hev, rhe_of_eq_even (by rw [e2, heq]; norm_num) (hpar.mpr hev), hc]
        ring
    · rw [rhe_of_gt hgt, rhe_of_lt (by rw [e2]; linarith), hc]; ring


/-! ### 3×3 algebra -/
open Pbc

theorem M3.ext' {a b : M3 ℝ} (h0 : a.r0 = b.r0) (h1 : a.r1 = b.r1) (h2 : a.r2 = b.r2) : a = b := by
  cases a; cases b; simp_all

theorem vecMul_assoc (v : V3 ℝ) (A B : M3 ℝ) :
    M3.vecMul (M3.vecMul v A) B = M3.vecMul v (M3.mul A B) := by
  apply V3.ext' <;> simp only [gm] <;> ring

theorem mul_assoc3 (A B C : M3 ℝ) : M3.mul (M3.mul A B) C = M3.mul A (M3.mul B C) := by
  apply M3.ext' <;> apply V3.ext' <;> simp only [gm] <;> ring

theorem vecMul_eye (v : V3 ℝ) : M3.vecMul v M3.eye = v := by
  apply V3.ext' <;> simp only [gm] <;> ring

theorem mul_eye (A : M3 ℝ) : M3.mul A M3.eye = A := by
  apply M3.ext' <;> apply V3.ext' <;> simp only [gm] <;> ring

theorem eye_mul (A : M3 ℝ) : M3.mul M3.eye A = A := by
  apply M3.ext' <;> apply V3.ext' <;> simp only [gm] <;> ring

theorem det_mul (A B : M3 ℝ) : M3.det (M3.mul A B) = M3.det A * M3.det B := by
  simp only [gm]; ring

theorem det_eye : M3.det (M3.eye : M3 ℝ) = 1 := by
  simp only [gm]; ring

theorem vecMul_add (u v : V3 ℝ) (A : M3 ℝ) : M3.vecMul (u + v) A = M3.vecMul u A + M3.vecMul v A := by
  apply V3.ext' <;> simp only [gm] <;> ring

theorem vecMul_sub (u v : V3 ℝ) (A : M3 ℝ) : M3.vecMul (u - v) A = M3.vecMul u A - M3.vecMul v A := by
  apply V3.ext' <;> simp only [gm] <;> ring

theorem vecMul_neg (v : V3 ℝ) (A : M3 ℝ) : M3.vecMul (-v) A = -M3.vecMul v A := by
  apply V3.ext' <;> simp only [gm] <;> ring

theorem v3norm_neg (v : V3 ℝ) : V3.norm (-v) = V3.norm v := by
  simp only [gm]; congr 1; ring

/-- the inverse `np.linalg.inv` returns, as a total function on ℝ (meaningful when `det ≠ 0`) -/
noncomputable def invR (B : M3 ℝ) : M3 ℝ :=
  ⟨V3.divs (adjugate B).r0 (M3.det B), V3.divs (adjugate B).r1 (M3.det B),
   V3.divs (adjugate B).r2 (M3.det B)⟩

theorem inv3_of_det_ne {B : M3 ℝ} (h : M3.det B ≠ 0) : inv3 B = some (invR B) := by
  unfold inv3 invR
  simp only [RS.isZero_def, decide_eq_true_eq, h, if_false]

theorem inv3_of_det_eq {B : M3 ℝ} (h : M3.det B = 0) : inv3 B = none := by
  unfold inv3
  simp only [RS.isZero_def, decide_eq_true_eq, h, if_true]

theorem mul_invR {B : M3 ℝ} (h : M3.det B ≠ 0) : M3.mul B (invR B) = M3.eye := by
  obtain ⟨d, hd⟩ : ∃ d, d = M3.det B := ⟨_, rfl⟩
  have hd0 : d ≠ 0 := hd ▸ h
  unfold invR; rw [← hd]
  have key : d = M3.det B := hd
  simp only [gm] at key
  apply M3.ext' <;> apply V3.ext' <;> simp only [adjugate, gm] <;> field_simp <;>
    first | ring1 | linear_combination -key

theorem invR_mul {B : M3 ℝ} (h : M3.det B ≠ 0) : M3.mul (invR B) B = M3.eye := by
  obtain ⟨d, hd⟩ : ∃ d, d = M3.det B := ⟨_, rfl⟩
  have hd0 : d ≠ 0 := hd ▸ h
  unfold invR; rw [← hd]
  have key : d = M3.det B := hd
  simp only [gm] at key
  apply M3.ext' <;> apply V3.ext' <;> simp only [adjugate, gm] <;> field_simp <;>
    first | ring1 | linear_combination -key

theorem det_invR_ne {B : M3 ℝ} (h : M3.det B ≠ 0) : M3.det (invR B) ≠ 0 := by
  intro e
  have := det_mul B (invR B)
  rw [mul_invR h, det_eye, e, mul_zero] at this
  exact one_ne_zero this

/-- `(B⁻¹)⁻¹ = B` -/
theorem invR_invR {B : M3 ℝ} (h : M3.det B ≠ 0) : invR (invR B) = B := by
  have hA := det_invR_ne h
  calc invR (invR B) = M3.mul M3.eye (invR (invR B)) := (eye_mul _).symm
    _ = M3.mul (M3.mul B (invR B)) (invR (invR B)) := by rw [mul_invR h]
    _ = M3.mul B (M3.mul (invR B) (invR (invR B))) := mul_assoc3 _ _ _
    _ = M3.mul B M3.eye := by rw [mul_invR hA]
    _ = B := mul_eye _


/-! ### the wrap -/

theorem subRound_neg (s : V3 ℝ) : subRound (-s) = -subRound s := by
  apply V3.ext' <;> simp only [subRound, gm, rhe_neg] <;> ring

theorem wrap_neg (v : V3 ℝ) (B Bi : M3 ℝ) : wrap (-v) B Bi = -wrap v B Bi := by
  unfold wrap
  rw [vecMul_neg, subRound_neg, vecMul_neg]

/-- no fractional coordinate lies exactly half-way between two integers -/
def NoHalf (s : V3 ℝ) : Prop :=
  s.x - ⌊s.x⌋ ≠ 1 / 2 ∧ s.y - ⌊s.y⌋ ≠ 1 / 2 ∧ s.z - ⌊s.z⌋ ≠ 1 / 2

/-- the integer vector `(n1, n2, n3)` -/
def intVec (n1 n2 n3 : ℤ) : V3 ℝ := ⟨n1, n2, n3⟩

/-- the lattice vector `n1 b0 + n2 b1 + n3 b2` (rows of `B` are the box vectors) -/
noncomputable def latticeVec (n1 n2 n3 : ℤ) (B : M3 ℝ) : V3 ℝ := M3.vecMul (intVec n1 n2 n3) B

theorem subRound_add_int (s : V3 ℝ) (n1 n2 n3 : ℤ) (h : NoHalf s) :
    subRound (s + intVec n1 n2 n3) = subRound s := by
  obtain ⟨hx, hy, hz⟩ := h
  apply V3.ext' <;> simp only [subRound, intVec, gm]
  · rw [rhe_add_int _ _ hx]; ring
  · rw [rhe_add_int _ _ hy]; ring
  · rw [rhe_add_int _ _ hz]; ring

theorem wrap_add_lattice (v : V3 ℝ) (B Bi : M3 ℝ) (hB : M3.mul B Bi = M3.eye) (n1 n2 n3 : ℤ)
    (h : NoHalf (M3.vecMul v Bi)) :
    wrap (v + latticeVec n1 n2 n3 B) B Bi = wrap v B Bi := by
  unfold wrap latticeVec
  rw [vecMul_add, vecMul_assoc, hB, vecMul_eye, subRound_add_int _ _ _ _ h]

/-! ### centres and the API wrapper -/

theorem foldl_add_acc (l : List (V3 ℝ)) (a t : V3 ℝ) :
    l.foldl V3.add (a + t) = l.foldl V3.add a + t := by
  induction l generalizing a with
  | nil => rfl
  | cons p ps ih =>
    simp only [List.foldl_cons]
    have e : V3.add (a + t) p = V3.add a p + t := by apply V3.ext' <;> simp only [gm] <;> ring
    rw [e, ih]

theorem foldl_add_map_shift (t : V3 ℝ) (l : List (V3 ℝ)) (a : V3 ℝ) :
    (l.map (· + t)).foldl V3.add a = l.foldl V3.add a + V3.smul (l.length : ℝ) t := by
  induction l generalizing a with
  | nil => apply V3.ext' <;> simp [gm]
  | cons p ps ih =>
    simp only [List.map_cons, List.foldl_cons, List.length_cons]
    have e : V3.add a (p + t) = V3.add a p + t := by apply V3.ext' <;> simp only [gm] <;> ring
    rw [e, ih, foldl_add_acc]
    apply V3.ext' <;> simp only [gm] <;> push_cast <;> ring

/-- shifting every atom shifts the geometric centre -/
theorem mean_map_shift (t : V3 ℝ) {l : List (V3 ℝ)} (h : l ≠ []) :
    V3.mean (l.map (· + t)) = V3.mean l + t := by
  have hn : ((l.length : ℤ) : ℝ) ≠ 0 := by
    have : l.length ≠ 0 := fun e => h (List.length_eq_zero_iff.mp e)
    exact_mod_cast this
  unfold V3.mean V3.sum
  rw [foldl_add_map_shift, List.length_map]
  apply V3.ext' <;> simp only [gm] <;> push_cast at hn ⊢ <;> field_simp

/-- the other argument is a point or a non-empty residue -/
def TargetOk : Target ℝ → Prop
  | .residue atoms => atoms ≠ []
  | .point _ => True

/-- position of the other argument: geometric centre of a residue / the point itself -/
noncomputable def targetPos : Target ℝ → V3 ℝ
  | .residue atoms => V3.mean atoms
  | .point p => p

/-- shift the other argument (every atom of a residue / the point) -/
noncomputable def shiftTarget (t : V3 ℝ) : Target ℝ → Target ℝ
  | .residue atoms => .residue (atoms.map (· + t))
  | .point p => .point (p + t)

theorem center_ok {l : List (V3 ℝ)} (h : l ≠ []) : center l = .ok (V3.mean l) := by
  unfold center
  cases l with
  | nil => exact absurd rfl h
  | cons a as => rfl

theorem position_ok {t : Target ℝ} (h : TargetOk t) : t.position = .ok (targetPos t) := by
  cases t with
  | residue atoms => exact center_ok h
  | point p => rfl

theorem shiftTarget_ok {t : Target ℝ} (s : V3 ℝ) (h : TargetOk t) : TargetOk (shiftTarget s t) := by
  cases t with
  | residue atoms =>
    show atoms.map (· + s) ≠ []
    intro e; exact h (List.map_eq_nil_iff.mp e)
  | point p => trivial

theorem targetPos_shift {t : Target ℝ} (s : V3 ℝ) (h : TargetOk t) :
    targetPos (shiftTarget s t) = targetPos t + s := by
  cases t with
  | residue atoms => exact mean_map_shift s h
  | point p => rfl

/-- the separation of the model for well-formed arguments and a non-singular matrix -/
theorem separation_box {self : List (V3 ℝ)} {other : Target ℝ} (hs : self ≠ []) (ho : TargetOk other)
    {b : M3 ℝ} (hb : M3.det b ≠ 0) (inv : Bool) :
    separation self other (some (b, inv)) =
      .ok (if inv then wrap (targetPos other - V3.mean self) (invR b) b
           else wrap (targetPos other - V3.mean self) b (invR b)) := by
  unfold separation
  rw [position_ok ho, center_ok hs]
  simp only [inv3_of_det_ne hb]
  cases inv <;> rfl

theorem separation_none {self : List (V3 ℝ)} {other : Target ℝ} (hs : self ≠ []) (ho : TargetOk other) :
    separation self other none = .ok (targetPos other - V3.mean self) := by
  unfold separation
  rw [position_ok ho, center_ok hs]

/-- the part of `distance_to` after the two centres are known -/
noncomputable def distOf (v : V3 ℝ) : Option (M3 ℝ × Bool) → Except Err ℝ
  | none => .ok (V3.norm v)
  | some (b, inv) =>
    match inv3 b with
    | none => .error .linAlgError
    | some bi => if inv then .ok (V3.norm (wrap v bi b)) else .ok (V3.norm (wrap v b bi))

theorem distanceTo_eq (self : List (V3 ℝ)) (other : Target ℝ) (box : Option (M3 ℝ × Bool)) :
    distanceTo self other box =
      match other.position with
      | .error e => .error e
      | .ok q => match center self with
        | .error e => .error e
        | .ok c => distOf (q - c) box := by
  unfold distanceTo separation distOf
  cases other.position with
  | error e => rfl
  | ok q =>
    cases center self with
    | error e => rfl
    | ok c =>
      cases box with
      | none => rfl
      | some bi =>
        obtain ⟨b, inv⟩ := bi
        simp only
        cases inv3 b with
        | none => rfl
        | some m => cases inv <;> rfl

theorem distOf_neg (v : V3 ℝ) (box : Option (M3 ℝ × Bool)) : distOf (-v) box = distOf v box := by
  unfold distOf
  cases box with
  | none => simp only [v3norm_neg]
  | some bi =>
    obtain ⟨b, inv⟩ := bi
    simp only [wrap_neg, v3norm_neg]

/-! ### orthorhombic boxes -/

/-- the orthorhombic box with edge lengths `L` -/
def diagBox (L : V3 ℝ) : M3 ℝ := ⟨⟨L.x, 0, 0⟩, ⟨0, L.y, 0⟩, ⟨0, 0, L.z⟩⟩

/-- the periodic image of the separation `v` translated by `−(n1 Lx, n2 Ly, n3 Lz)` -/
noncomputable def image (v L : V3 ℝ) (n1 n2 n3 : ℤ) : V3 ℝ :=
  ⟨v.x - n1 * L.x, v.y - n2 * L.y, v.z - n3 * L.z⟩

theorem det_diagBox (L : V3 ℝ) : M3.det (diagBox L) = L.x * L.y * L.z := by
  simp only [diagBox, gm]; ring

theorem invR_diagBox {L : V3 ℝ} (hx : L.x ≠ 0) (hy : L.y ≠ 0) (hz : L.z ≠ 0) :
    invR (diagBox L) = diagBox ⟨1 / L.x, 1 / L.y, 1 / L.z⟩ := by
  apply M3.ext' <;> apply V3.ext' <;> simp only [invR, adjugate, diagBox, gm] <;> field_simp <;> ring

theorem wrap_diagBox (v : V3 ℝ) {L : V3 ℝ} (hx : L.x ≠ 0) (hy : L.y ≠ 0) (hz : L.z ≠ 0) :
    wrap v (diagBox L) (invR (diagBox L)) =
      ⟨(v.x / L.x - roundHalfEven (v.x / L.x)) * L.x, (v.y / L.y - roundHalfEven (v.y / L.y)) * L.y,
       (v.z / L.z - roundHalfEven (v.z / L.z)) * L.z⟩ := by
  rw [invR_diagBox hx hy hz]
  simp only [wrap, subRound, diagBox, gm, mul_zero, add_zero, zero_add, mul_one_div]

theorem norm_le_of_abs_le {a b : V3 ℝ} (hx : |a.x| ≤ |b.x|) (hy : |a.y| ≤ |b.y|) (hz : |a.z| ≤ |b.z|) :
    V3.norm a ≤ V3.norm b := by
  rw [V3.norm_eq, V3.norm_eq]
  apply Real.sqrt_le_sqrt
  have f : ∀ {p q : ℝ}, |p| ≤ |q| → p * p ≤ q * q := fun {p q} h => by
    have := mul_self_le_mul_self (abs_nonneg p) h
    rwa [abs_mul_abs_self, abs_mul_abs_self] at this
  linarith [f hx, f hy, f hz]

/-- one component of the orthorhombic wrap is the closest image of that component -/
theorem comp_min {x l : ℝ} (hl : 0 < l) (n : ℤ) :
    |(x / l - roundHalfEven (x / l)) * l| ≤ |x - n * l| := by
  have h := rhe_nearest (x / l) n
  have e : x - n * l = (x / l - n) * l := by field_simp
  rw [e, abs_mul, abs_mul, abs_of_pos hl]
  exact mul_le_mul_of_nonneg_right h hl.le

end PbcL
