import GMProofs.Lemmas.PyStrL
import Mathlib.Algebra.Order.Field.Basic
import Mathlib.Algebra.Order.Field.Rat
import Mathlib.Algebra.Order.Ring.Abs
import Mathlib.Tactic.Ring
import Mathlib.Tactic.Linarith
import Mathlib.Tactic.FieldSimp
import Mathlib.Tactic.Positivity
import Mathlib.Tactic.NormNum
/-
  Exact-rational reading of the numbers of the `.gro` model: a double is `± m·2^e`, a parsed decimal
  is `± n·10^k`; `'{:.df}'` moves a value by at most half a unit of its last decimal.
-/
open PyStr PyStrL

namespace GroNum

/-- the value of a finite double -/
def dyVal (x : Dy) : ℚ := (if x.neg then -1 else 1) * ((x.man : ℚ) * (2 : ℚ) ^ x.exp)

/-- the value of a parsed finite decimal (non-finite results have no value: 0 by convention, always
    guarded by `isFin`) -/
def numVal : PyNum → ℚ
  | .fin neg man e10 => (if neg then -1 else 1) * ((man : ℚ) * (10 : ℚ) ^ e10)
  | _ => 0

def isFin : PyNum → Bool
  | .fin _ _ _ => true
  | _ => false

/-- round-half-even is within half a unit: `|2·(r·den − num)| ≤ den` -/
theorem roundHalfEvenDiv_bound (num den : Nat) (hden : 0 < den) :
    2 * (roundHalfEvenDiv num den * den) ≤ 2 * num + den ∧
    2 * num ≤ 2 * (roundHalfEvenDiv num den * den) + den := by
  have hdm : den * (num / den) + num % den = num := Nat.div_add_mod num den
  have hlt : num % den < den := Nat.mod_lt _ hden
  have hq : num / den * den = den * (num / den) := Nat.mul_comm _ _
  unfold roundHalfEvenDiv
  simp only
  split
  · rw [hq]; omega
  · split
    · rw [Nat.add_mul, hq]; omega
    · split
      · rw [hq]; omega
      · rw [Nat.add_mul, hq]; omega

theorem two_zpow (e : Int) : (2 : ℚ) ^ e = (2 : ℚ) ^ e.toNat / (2 : ℚ) ^ (-e).toNat := by
  rcases le_or_gt 0 e with h | h
  · have h1 : (-e).toNat = 0 := by omega
    have h2 : e = (e.toNat : Int) := by omega
    rw [h1, pow_zero, div_one]
    conv_lhs => rw [h2]
    exact zpow_natCast 2 _
  · have h1 : e.toNat = 0 := by omega
    have h2 : e = -((-e).toNat : Int) := by omega
    rw [h1, pow_zero, one_div]
    conv_lhs => rw [h2]
    rw [zpow_neg, zpow_natCast]

/-- `'{:.df}'` moves a value by at most half a unit of the last written decimal -/
theorem roundDec_close (d : Nat) (x : Dy) :
    |numVal (roundDec d x) - dyVal x| ≤ 1 / (2 * (10 : ℚ) ^ d) := by
  unfold roundDec numVal dyVal
  have hs : ∀ a b : ℚ, |(if x.neg then (-1 : ℚ) else 1) * a - (if x.neg then (-1 : ℚ) else 1) * b| = |a - b| := by
    intro a b
    split
    · rw [show (-1 : ℚ) * a - -1 * b = -(a - b) by ring, abs_neg]
    · simp
  rw [hs]
  set A := x.exp.toNat
  set B := (-x.exp).toNat
  have hden : 0 < 2 ^ B := Nat.pow_pos (by decide)
  obtain ⟨h1, h2⟩ := roundHalfEvenDiv_bound (x.man * 2 ^ A * 10 ^ d) (2 ^ B) hden
  have hr : scaledRound x d = roundHalfEvenDiv (x.man * 2 ^ A * 10 ^ d) (2 ^ B) := rfl
  rw [hr]
  set r := roundHalfEvenDiv (x.man * 2 ^ A * 10 ^ d) (2 ^ B)
  have h1q : (2 : ℚ) * ((r : ℚ) * 2 ^ B) ≤ 2 * ((x.man : ℚ) * 2 ^ A * 10 ^ d) + 2 ^ B := by exact_mod_cast h1
  have h2q : (2 : ℚ) * ((x.man : ℚ) * 2 ^ A * 10 ^ d) ≤ 2 * ((r : ℚ) * 2 ^ B) + 2 ^ B := by exact_mod_cast h2
  rw [two_zpow x.exp, zpow_neg, zpow_natCast]
  have hB : (0 : ℚ) < 2 ^ B := by positivity
  have hD : (0 : ℚ) < 10 ^ d := by positivity
  have key : (r : ℚ) * (10 ^ d)⁻¹ - (x.man : ℚ) * (2 ^ A / 2 ^ B)
      = ((r : ℚ) * 2 ^ B - (x.man : ℚ) * 2 ^ A * 10 ^ d) / (2 ^ B * 10 ^ d) := by
    field_simp
  rw [key, abs_div, abs_of_pos (by positivity : (0 : ℚ) < 2 ^ B * 10 ^ d), div_le_div_iff₀ (by positivity) (by positivity)]
  have habs : |(r : ℚ) * 2 ^ B - (x.man : ℚ) * 2 ^ A * 10 ^ d| ≤ 2 ^ B / 2 := by
    rw [abs_le]; constructor <;> linarith
  calc |(r : ℚ) * 2 ^ B - (x.man : ℚ) * 2 ^ A * 10 ^ d| * (2 * 10 ^ d)
      ≤ (2 ^ B / 2) * (2 * 10 ^ d) := mul_le_mul_of_nonneg_right habs (by positivity)
    _ = 1 * (2 ^ B * 10 ^ d) := by ring

theorem roundDec_isFin (d : Nat) (x : Dy) : isFin (roundDec d x) = true := rfl

end GroNum
