import GMProofs.Lemmas.RestrL
/-
  Lemmas for the `guess_proteins` flag of `Manager.parse_restrictions`, the `Alignment.start/end`
  setters, the unset check of `Alignment.align_molecules` and `Manager.add_end_molecule` (C10).
  Specification-side vocabulary: `GuessAccepts`, `restrForG`, `SpeciesOkG`, `RestrDictOkG`,
  `parsedRestrG`, `Locked`.
-/

namespace Restr

variable {P : Type}

/-! ## G. `parse_restrictions(…, guess_proteins)` -/

/-- the protein guesser accepts the pair: same number of residues and compatible residue names -/
def GuessAccepts (m1 m2 : Mol P) : Prop :=
  m1.residues.length = m2.residues.length ∧ NamesCompatible m1 m2

theorem guessProtein_of_accepts {m1 m2 : Mol P} (h : GuessAccepts m1 m2) :
    guessProtein m1 m2 = .ok (protSpec m1.residues m2.residues 0 0) :=
  guessProtein_ok m1 m2 h.1 h.2

theorem accepts_of_guessProtein {m1 m2 : Mol P} {rs : List Pair} (h : guessProtein m1 m2 = .ok rs) :
    GuessAccepts m1 m2 := by
  refine ⟨(guessProtein_eq_ok h).1, ?_⟩
  unfold guessProtein at h
  split at h
  · cases h
  · by_cases he : m1.resnames = m2.resnames
    · exact Or.inl he
    · right
      simp only [ne_eq, he, not_false_eq_true, ↓reduceIte] at h
      apply (checkNames_ok_iff _).mp
      cases hc : checkNames (m1.resnames.zip m2.resnames) with
      | error e => rw [hc] at h; cases h
      | ok u => rfl

theorem guessProtein_refuses {m1 m2 : Mol P} (h : ¬ GuessAccepts m1 m2) :
    guessProtein m1 m2 = .error .ioError := by
  cases hg : guessProtein m1 m2 with
  | ok rs => exact absurd (accepts_of_guessProtein hg) h
  | error e => rw [guessProtein_err m1 m2 e hg]

/-- the flag applies to this species: `guess_proteins and len(start.resnames) > 3` -/
def guessedHere (g : Bool) (s : Species P × Mol P) : Bool := g && s.1.big

/-- the restraint value `parse_restrictions(r, guess_proteins=g)` stores under the species' name,
    when it returns -/
def restrForG (r : Option (Dict RestrArg)) (g : Bool) (s : Species P × Mol P) : Option (List Pair) :=
  if guessedHere g s then some (protSpec s.1.start.residues s.2.residues 0 0)
  else restrFor r s.1.name

/-- nothing makes the parser raise at this species -/
def SpeciesOkG (r : Option (Dict RestrArg)) (g : Bool) (s : Species P × Mol P) : Prop :=
  if guessedHere g s then GuessAccepts s.1.start s.2
  else match r with
    | none => True
    | some d => ∀ v, d.lookup s.1.name = some v → v.Ok s.1.start s.2

def KeysKnown (sys : List (Species P)) : Option (Dict RestrArg) → Prop
  | none => True
  | some d => ∀ kv ∈ d, kv.1 ∈ completeNames sys

/-- the input `parse_restrictions(r, guess_proteins=g)` accepts -/
def RestrDictOkG (sys : List (Species P)) (r : Option (Dict RestrArg)) (g : Bool) : Prop :=
  KeysKnown sys r ∧ ∀ s ∈ complete sys, SpeciesOkG r g s

def parsedRestrG (r : Option (Dict RestrArg)) (g : Bool) (cs : List (Species P × Mol P)) :
    Dict (Option (List Pair)) := cs.map fun s => (s.1.name, restrForG r g s)

/-- a list that is not all-good splits at its first bad element -/
theorem first_bad {α : Type} (p : α → Prop) (l : List α) (h : ¬ ∀ x ∈ l, p x) :
    ∃ pre s post, l = pre ++ s :: post ∧ (∀ x ∈ pre, p x) ∧ ¬ p s := by
  induction l with
  | nil => exact absurd (by simp) h
  | cons a t ih =>
    by_cases ha : p a
    · have : ¬ ∀ x ∈ t, p x := by
        intro hall
        apply h
        intro x hx
        rcases List.mem_cons.mp hx with rfl | hx
        · exact ha
        · exact hall x hx
      obtain ⟨pre, s, post, e, hp, hs⟩ := ih this
      refine ⟨a :: pre, s, post, by simp [e], ?_, hs⟩
      intro x hx
      rcases List.mem_cons.mp hx with rfl | hx
      · exact ha
      · exact hp x hx
    · exact ⟨[], a, t, rfl, by simp, ha⟩

/-- the per-species step of the dictionary loop, as a function -/
def stepG (d : Dict RestrArg) (g : Bool) (s : Species P × Mol P) : Except PyErr (Option (List Pair)) :=
  if g then
    if s.1.big then
      match guessProtein s.1.start s.2 with
      | .error err => .error err
      | .ok restr => .ok (some restr)
    else
      match d.lookup s.1.name with
      | none => .ok none
      | some .falsy => .ok none
      | some .nonIterable => .error .typeError
      | some (.list entries) =>
        match validateIndex s.1.start s.2 entries with
        | .error err => .error err
        | .ok l => .ok (some l)
  else
    match d.lookup s.1.name with
    | none => .ok none
    | some .falsy => .ok none
    | some .nonIterable => .error .typeError
    | some (.list entries) =>
      match validateIndex s.1.start s.2 entries with
      | .error err => .error err
      | .ok l => .ok (some l)

theorem parseRestrLoopG_cons (d : Dict RestrArg) (g : Bool) (s : Species P × Mol P)
    (rest : List (Species P × Mol P)) :
    parseRestrLoopG d g (s :: rest) =
      match stepG d g s with
      | .error err => .error err
      | .ok v =>
        match parseRestrLoopG d g rest with
        | .error err => .error err
        | .ok x => .ok ((s.1.name, v) :: x) := by
  obtain ⟨sp, e⟩ := s
  rw [parseRestrLoopG]
  unfold stepG
  cases g <;> cases hb : sp.big <;> simp <;> rfl

/-- the per-species step of the `restrictions is None` loop -/
def stepNoneG (g : Bool) (s : Species P × Mol P) : Except PyErr (Option (List Pair)) :=
  if g then
    if s.1.big then
      match guessProtein s.1.start s.2 with
      | .error err => .error err
      | .ok restr => .ok (some restr)
    else .ok none
  else .ok none

theorem parseRestrNoneLoopG_cons (g : Bool) (s : Species P × Mol P)
    (rest : List (Species P × Mol P)) :
    parseRestrNoneLoopG g (s :: rest) =
      match stepNoneG g s with
      | .error err => .error err
      | .ok v =>
        match parseRestrNoneLoopG g rest with
        | .error err => .error err
        | .ok x => .ok ((s.1.name, v) :: x) := by
  obtain ⟨sp, e⟩ := s
  rw [parseRestrNoneLoopG]
  unfold stepNoneG
  cases g <;> cases hb : sp.big <;> simp <;> rfl

/-- the normal (flag-free) path at one species -/
theorem normal_ok (d : Dict RestrArg) (s : Species P × Mol P)
    (h : ∀ v, d.lookup s.1.name = some v → v.Ok s.1.start s.2) :
    (match d.lookup s.1.name with
      | none => (.ok none : Except PyErr (Option (List Pair)))
      | some .falsy => .ok none
      | some .nonIterable => .error .typeError
      | some (.list entries) =>
        match validateIndex s.1.start s.2 entries with
        | .error err => .error err
        | .ok l => .ok (some l)) = .ok (restrFor (some d) s.1.name) := by
  simp only [restrFor]
  cases hl : d.lookup s.1.name with
  | none => rfl
  | some v =>
    have hv := h v hl
    cases v with
    | falsy => simp [RestrArg.value]
    | nonIterable => exact absurd hv (by simp [RestrArg.Ok])
    | list entries =>
      simp only [RestrArg.Ok] at hv
      simp [validateIndex_ok _ _ _ hv, RestrArg.value]

theorem normal_err (d : Dict RestrArg) (s : Species P × Mol P)
    (h : ¬ ∀ v, d.lookup s.1.name = some v → v.Ok s.1.start s.2) :
    ∃ err, (match d.lookup s.1.name with
      | none => (.ok none : Except PyErr (Option (List Pair)))
      | some .falsy => .ok none
      | some .nonIterable => .error .typeError
      | some (.list entries) =>
        match validateIndex s.1.start s.2 entries with
        | .error err => .error err
        | .ok l => .ok (some l)) = .error err := by
  cases hl : d.lookup s.1.name with
  | none => exact absurd (by intro v hv; rw [hl] at hv; cases hv) h
  | some v =>
    have hv : ¬ v.Ok s.1.start s.2 := by
      intro hok
      apply h
      intro v' hv'
      rw [hl] at hv'
      cases hv'
      exact hok
    cases v with
    | falsy => exact absurd (by simp [RestrArg.Ok]) hv
    | nonIterable => exact ⟨_, rfl⟩
    | list entries =>
      simp only [RestrArg.Ok] at hv
      obtain ⟨err, he⟩ := validateIndex_err _ _ _ hv
      exact ⟨err, by simp [he]⟩

theorem stepG_ok (d : Dict RestrArg) (g : Bool) (s : Species P × Mol P)
    (h : SpeciesOkG (some d) g s) : stepG d g s = .ok (restrForG (some d) g s) := by
  unfold SpeciesOkG at h
  unfold stepG restrForG
  cases g with
  | false =>
    simp only [guessedHere, Bool.false_and, Bool.false_eq_true, ↓reduceIte] at h ⊢
    exact normal_ok d s h
  | true =>
    cases hb : s.1.big with
    | false =>
      simp only [guessedHere, hb, Bool.and_false, Bool.false_eq_true, ↓reduceIte] at h ⊢
      exact normal_ok d s h
    | true =>
      simp only [guessedHere, hb, Bool.and_self, ↓reduceIte] at h ⊢
      rw [guessProtein_of_accepts h]

theorem stepG_err (d : Dict RestrArg) (g : Bool) (s : Species P × Mol P)
    (h : ¬ SpeciesOkG (some d) g s) :
    ∃ err, stepG d g s = .error err ∧ (guessedHere g s = true → err = .ioError) := by
  unfold SpeciesOkG at h
  unfold stepG
  cases g with
  | false =>
    simp only [guessedHere, Bool.false_and, Bool.false_eq_true, ↓reduceIte] at h ⊢
    obtain ⟨err, he⟩ := normal_err d s h
    exact ⟨err, he, by simp⟩
  | true =>
    cases hb : s.1.big with
    | false =>
      simp only [guessedHere, hb, Bool.and_false, Bool.false_eq_true, ↓reduceIte] at h ⊢
      obtain ⟨err, he⟩ := normal_err d s h
      exact ⟨err, he, by simp⟩
    | true =>
      simp only [guessedHere, hb, Bool.and_self, ↓reduceIte] at h ⊢
      rw [guessProtein_refuses h]
      exact ⟨_, rfl, fun _ => rfl⟩

theorem stepNoneG_ok (g : Bool) (s : Species P × Mol P)
    (h : SpeciesOkG none g s) : stepNoneG g s = .ok (restrForG none g s) := by
  unfold SpeciesOkG at h
  unfold stepNoneG restrForG
  cases g with
  | false => simp [guessedHere, restrFor]
  | true =>
    cases hb : s.1.big with
    | false => simp [guessedHere, hb, restrFor]
    | true =>
      simp only [guessedHere, hb, Bool.and_self, ↓reduceIte] at h ⊢
      rw [guessProtein_of_accepts h]

theorem stepNoneG_err (g : Bool) (s : Species P × Mol P)
    (h : ¬ SpeciesOkG none g s) :
    stepNoneG g s = .error .ioError ∧ guessedHere g s = true := by
  unfold SpeciesOkG at h
  unfold stepNoneG
  cases g with
  | false => simp [guessedHere] at h
  | true =>
    cases hb : s.1.big with
    | false => simp [guessedHere, hb] at h
    | true =>
      simp only [guessedHere, hb, Bool.and_self, ↓reduceIte] at h ⊢
      rw [guessProtein_refuses h]
      exact ⟨rfl, trivial⟩

theorem parseRestrLoopG_ok (d : Dict RestrArg) (g : Bool) (cs : List (Species P × Mol P))
    (h : ∀ s ∈ cs, SpeciesOkG (some d) g s) :
    parseRestrLoopG d g cs = .ok (parsedRestrG (some d) g cs) := by
  induction cs with
  | nil => rfl
  | cons s rest ih =>
    rw [parseRestrLoopG_cons, stepG_ok d g s (h s (by simp)),
      ih (fun x hx => h x (by simp [hx]))]
    rfl

theorem parseRestrNoneLoopG_ok (g : Bool) (cs : List (Species P × Mol P))
    (h : ∀ s ∈ cs, SpeciesOkG none g s) :
    parseRestrNoneLoopG g cs = .ok (parsedRestrG none g cs) := by
  induction cs with
  | nil => rfl
  | cons s rest ih =>
    rw [parseRestrNoneLoopG_cons, stepNoneG_ok g s (h s (by simp)),
      ih (fun x hx => h x (by simp [hx]))]
    rfl

/-- the loop stops at the first species that is not fine, with that species' error -/
theorem parseRestrLoopG_first_bad (d : Dict RestrArg) (g : Bool)
    (pre : List (Species P × Mol P)) (s : Species P × Mol P) (post : List (Species P × Mol P))
    (hpre : ∀ x ∈ pre, SpeciesOkG (some d) g x) (hbad : ¬ SpeciesOkG (some d) g s) :
    ∃ err, parseRestrLoopG d g (pre ++ s :: post) = .error err ∧
      (guessedHere g s = true → err = .ioError) := by
  induction pre with
  | nil =>
    obtain ⟨err, he, hio⟩ := stepG_err d g s hbad
    refine ⟨err, ?_, hio⟩
    rw [List.nil_append, parseRestrLoopG_cons, he]
  | cons a t ih =>
    obtain ⟨err, he, hio⟩ := ih (fun x hx => hpre x (by simp [hx]))
    refine ⟨err, ?_, hio⟩
    rw [List.cons_append, parseRestrLoopG_cons, stepG_ok d g a (hpre a (by simp)), he]

theorem parseRestrNoneLoopG_first_bad (g : Bool)
    (pre : List (Species P × Mol P)) (s : Species P × Mol P) (post : List (Species P × Mol P))
    (hpre : ∀ x ∈ pre, SpeciesOkG none g x) (hbad : ¬ SpeciesOkG none g s) :
    parseRestrNoneLoopG g (pre ++ s :: post) = .error .ioError := by
  induction pre with
  | nil =>
    rw [List.nil_append, parseRestrNoneLoopG_cons, (stepNoneG_err g s hbad).1]
  | cons a t ih =>
    rw [List.cons_append, parseRestrNoneLoopG_cons, stepNoneG_ok g a (hpre a (by simp)),
      ih (fun x hx => hpre x (by simp [hx]))]

theorem parseRestrictionsG_ok (sys : List (Species P)) (r : Option (Dict RestrArg)) (g : Bool)
    (h : RestrDictOkG sys r g) :
    parseRestrictionsG sys r g = .ok (parsedRestrG r g (complete sys)) := by
  obtain ⟨h1, h2⟩ := h
  cases r with
  | none => exact parseRestrNoneLoopG_ok g _ h2
  | some d =>
    simp only [parseRestrictionsG, (checkNamesKnown_ok_iff _ _).mpr h1]
    exact parseRestrLoopG_ok d g _ h2

theorem parseRestrictionsG_err (sys : List (Species P)) (r : Option (Dict RestrArg)) (g : Bool)
    (h : ¬ RestrDictOkG sys r g) : ∃ err, parseRestrictionsG sys r g = .error err := by
  cases r with
  | none =>
    have : ¬ ∀ s ∈ complete sys, SpeciesOkG none g s := fun h2 => h ⟨trivial, h2⟩
    obtain ⟨pre, s, post, e, hp, hs⟩ := first_bad _ _ this
    exact ⟨.ioError, by simp only [parseRestrictionsG]; rw [e]; exact parseRestrNoneLoopG_first_bad g pre s post hp hs⟩
  | some d =>
    unfold parseRestrictionsG
    by_cases h1 : ∀ kv ∈ d, kv.1 ∈ completeNames sys
    · simp only [(checkNamesKnown_ok_iff _ _).mpr h1]
      have : ¬ ∀ s ∈ complete sys, SpeciesOkG (some d) g s := fun h2 => h ⟨h1, h2⟩
      obtain ⟨pre, s, post, e, hp, hs⟩ := first_bad _ _ this
      obtain ⟨err, he, _⟩ := parseRestrLoopG_first_bad d g pre s post hp hs
      exact ⟨err, by rw [e]; exact he⟩
    · simp [checkNamesKnown_err _ _ h1]

theorem RestrDictOkG_of_parse {sys : List (Species P)} {r : Option (Dict RestrArg)} {g : Bool}
    {x : Dict (Option (List Pair))} (h : parseRestrictionsG sys r g = .ok x) : RestrDictOkG sys r g := by
  apply Classical.byContradiction
  intro hn
  obtain ⟨e, he⟩ := parseRestrictionsG_err _ _ _ hn
  rw [he] at h
  cases h

/-! ### the flag switched off, or no species it applies to -/

theorem stepG_off (d : Dict RestrArg) (g : Bool) (s : Species P × Mol P)
    (h : guessedHere g s = false) : stepG d g s = stepG d false s := by
  unfold stepG
  cases g with
  | false => rfl
  | true =>
    have hb : s.1.big = false := by simpa [guessedHere] using h
    simp [hb]

theorem parseRestrLoop_cons' (d : Dict RestrArg) (s : Species P × Mol P)
    (rest : List (Species P × Mol P)) :
    parseRestrLoop d (s :: rest) =
      match stepG d false s with
      | .error err => .error err
      | .ok v =>
        match parseRestrLoop d rest with
        | .error err => .error err
        | .ok x => .ok ((s.1.name, v) :: x) := by
  obtain ⟨sp, e⟩ := s
  rw [parseRestrLoop]
  unfold stepG
  simp
  rfl

theorem parseRestrLoopG_off (d : Dict RestrArg) (g : Bool) (cs : List (Species P × Mol P))
    (h : ∀ s ∈ cs, guessedHere g s = false) :
    parseRestrLoopG d g cs = parseRestrLoop d cs := by
  induction cs with
  | nil => rfl
  | cons s rest ih =>
    rw [parseRestrLoopG_cons, parseRestrLoop_cons', stepG_off d g s (h s (by simp)),
      ih (fun x hx => h x (by simp [hx]))]

theorem parseRestrNoneLoopG_off (g : Bool) (cs : List (Species P × Mol P))
    (h : ∀ s ∈ cs, guessedHere g s = false) :
    parseRestrNoneLoopG g cs = .ok (cs.map fun s => (s.1.name, none)) := by
  induction cs with
  | nil => rfl
  | cons s rest ih =>
    have hs : stepNoneG g s = .ok none := by
      have := h s (by simp)
      unfold stepNoneG
      cases g with
      | false => rfl
      | true =>
        have hb : s.1.big = false := by simpa [guessedHere] using this
        simp [hb]
    rw [parseRestrNoneLoopG_cons, hs, ih (fun x hx => h x (by simp [hx]))]
    rfl

theorem parseRestrictionsG_off (sys : List (Species P)) (r : Option (Dict RestrArg)) (g : Bool)
    (h : ∀ s ∈ complete sys, guessedHere g s = false) :
    parseRestrictionsG sys r g = parseRestrictions sys r := by
  cases r with
  | none => exact parseRestrNoneLoopG_off g _ h
  | some d =>
    simp only [parseRestrictionsG, parseRestrictions]
    rw [parseRestrLoopG_off d g _ h]

/-! ### the user's value under a species the flag applies to is never read -/

theorem stepG_congr (d d' : Dict RestrArg) (g : Bool) (s : Species P × Mol P)
    (h : guessedHere g s = false → d.lookup s.1.name = d'.lookup s.1.name) :
    stepG d g s = stepG d' g s := by
  unfold stepG
  cases g with
  | false =>
    have := h (by simp [guessedHere])
    simp [this]
  | true =>
    cases hb : s.1.big with
    | true => simp
    | false =>
      have := h (by simp [guessedHere, hb])
      simp [this]

theorem parseRestrLoopG_congr (d d' : Dict RestrArg) (g : Bool) (cs : List (Species P × Mol P))
    (h : ∀ s ∈ cs, guessedHere g s = false → d.lookup s.1.name = d'.lookup s.1.name) :
    parseRestrLoopG d g cs = parseRestrLoopG d' g cs := by
  induction cs with
  | nil => rfl
  | cons s rest ih =>
    rw [parseRestrLoopG_cons, parseRestrLoopG_cons, stepG_congr d d' g s (h s (by simp)),
      ih (fun x hx => h x (by simp [hx]))]

/-! ### the composed call -/

theorem managerAlignGuess_ok (sys : List (Species P)) (hnd : (sys.map (·.name)).Nodup)
    (r : Option (Dict RestrArg)) (d : Option (Dict DefArg)) (h : Option (Dict IgnArg)) (g : Bool)
    (hr : RestrDictOkG sys r g) (hd : DefDictOk sys d) (hh : IgnDictOk sys h) :
    managerAlignGuess sys r d h g = runAligns ((complete sys).map fun s =>
      { name := s.1.name, start := s.1.start, end_ := s.2, restr := restrForG r g s,
        deform := deformFor d s.1.name, ignoreH := ignoreFor h s.1.name }) := by
  unfold managerAlignGuess
  rw [parseRestrictionsG_ok _ _ _ hr]
  simp only []
  have := managerAlignPreparsed_ok sys hnd ((complete sys).map fun s => (s, restrForG r g s))
    (by intro x hx; obtain ⟨s, hs, rfl⟩ := List.mem_map.mp hx; exact hs) d h hd hh
  simpa [parsedRestrG, List.map_map, Function.comp_def] using this

theorem managerAlignGuess_rejects (sys : List (Species P))
    (r : Option (Dict RestrArg)) (d : Option (Dict DefArg)) (h : Option (Dict IgnArg)) (g : Bool)
    (hbad : ¬ (RestrDictOkG sys r g ∧ DefDictOk sys d ∧ IgnDictOk sys h)) :
    ∃ err, managerAlignGuess sys r d h g = ⟨[], some err⟩ := by
  unfold managerAlignGuess
  by_cases hr : RestrDictOkG sys r g
  · rw [parseRestrictionsG_ok _ _ _ hr]
    exact managerAlignPreparsed_rejects sys _ d h (fun hdh => hbad ⟨hr, hdh.1, hdh.2⟩)
  · obtain ⟨err, he⟩ := parseRestrictionsG_err _ _ _ hr
    exact ⟨err, by simp [he]⟩

/-! ## H. `Molecule.__eq__`, the setters, the unset check -/

theorem atomEq_iff (a b : AtomId) : atomEq a b = true ↔ a = b := by
  cases a; cases b
  simp [atomEq, and_assoc]

theorem molEqLoop_iff (l1 l2 : List AtomId) (h : l1.length = l2.length) :
    molEqLoop (l1.zip l2) = true ↔ l1 = l2 := by
  induction l1 generalizing l2 with
  | nil =>
    cases l2 with
    | nil => simp [molEqLoop]
    | cons b t => simp at h
  | cons a t ih =>
    cases l2 with
    | nil => simp at h
    | cons b t2 =>
      have hl : t.length = t2.length := by simpa using h
      simp only [List.zip_cons_cons, molEqLoop]
      by_cases hab : atomEq a b = true
      · have := (atomEq_iff a b).mp hab
        subst this
        simp [hab, ih t2 hl]
      · have hne : a ≠ b := fun e => hab ((atomEq_iff a b).mpr e)
        simp [hab, hne]

/-- `Molecule.__eq__` holds exactly for equal names and atom-by-atom equal identities -/
theorem molEq_iff (a b : MolId) : molEq a b = true ↔ a = b := by
  cases a with | mk an aa =>
  cases b with | mk bn ba =>
  unfold molEq
  simp only [MolId.mk.injEq]
  by_cases hn : bn = an
  · by_cases hl : ba.length = aa.length
    · simp only [hn, hl, beq_self_eq_true, Bool.and_self, ↓reduceIte, true_and]
      exact molEqLoop_iff aa ba hl.symm
    · have : aa ≠ ba := fun e => hl (by rw [e])
      simp [hn, hl, this]
  · have : an ≠ bn := fun e => hn e.symm
    simp [hn, this]

/-- both molecules are set and have these identities -/
def Locked {M : Type} (ident : M → MolId) (st : AliState M) (ids ide : MolId) : Prop :=
  st.start.map ident = some ids ∧ st.end_.map ident = some ide

def SetArg.isNone {M : Type} : SetArg M → Bool
  | .none => true
  | _ => false

def SetOp.clears {M : Type} : SetOp M → Bool
  | .start a => a.isNone
  | .end_ a => a.isNone

theorem setStart_locked {M : Type} (ident : M → MolId) (st : AliState M) (ids ide : MolId)
    (hl : Locked ident st ids ide) (a : SetArg M) (hn : a.isNone = false) :
    (∀ st', setStart ident st a = .ok st' → Locked ident st' ids ide) ∧
    (∀ m, a = .mol m → (setStart ident st a).isOk = decide (ident m = ids)) := by
  obtain ⟨h1, h2⟩ := hl
  cases hs : st.start with
  | none => simp [hs] at h1
  | some cur =>
    cases he : st.end_ with
    | none => simp [he] at h2
    | some ce =>
      have hc : ident cur = ids := by simpa [hs] using h1
      cases a with
      | none => simp [SetArg.isNone] at hn
      | nonMolecule =>
        refine ⟨?_, ?_⟩
        · intro st' h; simp [setStart] at h
        · intro m hm; cases hm
      | mol m =>
        by_cases heq : ident m = ident cur
        · have hme : molEq (ident m) (ident cur) = true := (molEq_iff _ _).mpr heq
          refine ⟨?_, ?_⟩
          · intro st' h
            simp only [setStart, he, hs, hme, ↓reduceIte, Except.ok.injEq] at h
            subst h
            exact ⟨by simp [heq, hc], by simpa [he] using h2⟩
          · intro m' hm'
            cases hm'
            have hrefl : molEq ids ids = true := (molEq_iff _ _).mpr rfl
            simp [setStart, he, hs, heq, hc, hrefl, Except.isOk, Except.toBool]
        · have hme : molEq (ident m) (ident cur) = false := by
            cases hx : molEq (ident m) (ident cur) with
            | false => rfl
            | true => exact absurd ((molEq_iff _ _).mp hx) heq
          refine ⟨?_, ?_⟩
          · intro st' h
            simp [setStart, he, hs, hme] at h
          · intro m' hm'
            cases hm'
            have : ident m ≠ ids := by rw [← hc]; exact heq
            simp [setStart, he, hs, hme, this, Except.isOk, Except.toBool]

theorem setEnd_locked {M : Type} (ident : M → MolId) (st : AliState M) (ids ide : MolId)
    (hl : Locked ident st ids ide) (a : SetArg M) (hn : a.isNone = false) :
    (∀ st', setEnd ident st a = .ok st' → Locked ident st' ids ide) ∧
    (∀ m, a = .mol m → (setEnd ident st a).isOk = decide (ident m = ide)) := by
  obtain ⟨h1, h2⟩ := hl
  cases hs : st.start with
  | none => simp [hs] at h1
  | some cs =>
    cases he : st.end_ with
    | none => simp [he] at h2
    | some cur =>
      have hc : ident cur = ide := by simpa [he] using h2
      cases a with
      | none => simp [SetArg.isNone] at hn
      | nonMolecule =>
        refine ⟨?_, ?_⟩
        · intro st' h; simp [setEnd] at h
        · intro m hm; cases hm
      | mol m =>
        by_cases heq : ident m = ident cur
        · have hme : molEq (ident m) (ident cur) = true := (molEq_iff _ _).mpr heq
          refine ⟨?_, ?_⟩
          · intro st' h
            simp only [setEnd, he, hs, hme, ↓reduceIte, Except.ok.injEq] at h
            subst h
            exact ⟨by simpa [hs] using h1, by simp [heq, hc]⟩
          · intro m' hm'
            cases hm'
            have hrefl : molEq ide ide = true := (molEq_iff _ _).mpr rfl
            simp [setEnd, he, hs, heq, hc, hrefl, Except.isOk, Except.toBool]
        · have hme : molEq (ident m) (ident cur) = false := by
            cases hx : molEq (ident m) (ident cur) with
            | false => rfl
            | true => exact absurd ((molEq_iff _ _).mp hx) heq
          refine ⟨?_, ?_⟩
          · intro st' h
            simp [setEnd, he, hs, hme] at h
          · intro m' hm'
            cases hm'
            have : ident m ≠ ide := by rw [← hc]; exact heq
            simp [setEnd, he, hs, hme, this, Except.isOk, Except.toBool]

/-- invariant of every history without a `None` assignment: once both molecules are set their
    identities never change -/
theorem runOps_locked {M : Type} (ident : M → MolId) (ops : List (SetOp M)) (st : AliState M)
    (ids ide : MolId) (hl : Locked ident st ids ide) (hn : ∀ op ∈ ops, op.clears = false) :
    Locked ident (runOps ident st ops).1 ids ide := by
  induction ops generalizing st with
  | nil => exact hl
  | cons op rest ih =>
    have hrest : ∀ op ∈ rest, op.clears = false := fun o ho => hn o (by simp [ho])
    have hop := hn op (by simp)
    unfold runOps
    cases ha : applyOp ident st op with
    | error e => exact ih st hl hrest
    | ok st' =>
      have hl' : Locked ident st' ids ide := by
        cases op with
        | start a => exact (setStart_locked ident st ids ide hl a hop).1 st' ha
        | end_ a => exact (setEnd_locked ident st ids ide hl a hop).1 st' ha
      exact ih st' hl' hrest

/-! ### `Manager.add_end_molecule` -/

theorem Corr.set_keys {M : Type} (c : Corr M) (name : PStr) (v : AliState M) :
    (c.set name v).map (·.1) = c.map (·.1) := by
  unfold Corr.set
  rw [List.map_map]
  apply List.map_congr_left
  intro kv _
  simp only [Function.comp]
  split <;> rfl

theorem Corr.set_lookup_ne {M : Type} (c : Corr M) (name other : PStr) (v : AliState M)
    (h : other ≠ name) : (c.set name v).lookup other = c.lookup other := by
  induction c with
  | nil => rfl
  | cons kv t ih =>
    obtain ⟨k, w⟩ := kv
    unfold Corr.set at ih ⊢
    simp only [List.map_cons]
    by_cases hk : k = name
    · have hne : (other == k) = false := by simpa [hk] using h
      simp only [hk, beq_self_eq_true, ↓reduceIte, List.lookup_cons]
      rw [hk] at hne
      simp only [hne]
      exact ih
    · have hkb : (k == name) = false := by simpa using hk
      simp only [hkb, Bool.false_eq_true, ↓reduceIte, List.lookup_cons]
      cases hok : (other == k) with
      | true => rfl
      | false => exact ih

theorem Corr.set_lookup_eq {M : Type} (c : Corr M) (name : PStr) (v w : AliState M)
    (h : c.lookup name = some w) : (c.set name v).lookup name = some v := by
  induction c with
  | nil => simp at h
  | cons kv t ih =>
    obtain ⟨k, u⟩ := kv
    unfold Corr.set at ih ⊢
    simp only [List.map_cons]
    by_cases hk : k = name
    · simp [hk]
    · have hkb : (k == name) = false := by simpa using hk
      have hnb : (name == k) = false := by simpa using fun e : name = k => hk e.symm
      simp only [hkb, Bool.false_eq_true, ↓reduceIte, List.lookup_cons, hnb]
      simp only [List.lookup_cons, hnb] at h
      exact ih h

/-- running a list of additions that all succeed -/
def addAll {M : Type} (ident : M → MolId) : Corr M → List (SetArg M) → Option (Corr M)
  | c, [] => some c
  | c, a :: rest =>
    match addEndMolecule ident c a with
    | .error _ => none
    | .ok c' => addAll ident c' rest

theorem addEndMolecules_all {M : Type} (ident : M → MolId) (c c' : Corr M) (l : List (SetArg M))
    (h : addAll ident c l = some c') : addEndMolecules ident c l = (c', none) := by
  induction l generalizing c with
  | nil => simp [addAll] at h; simp [addEndMolecules, h]
  | cons a rest ih =>
    unfold addAll at h
    unfold addEndMolecules
    cases ha : addEndMolecule ident c a with
    | error e => simp [ha] at h
    | ok c1 =>
      simp only [ha] at h
      exact ih c1 h

theorem addEndMolecules_stops {M : Type} (ident : M → MolId) (c c' : Corr M)
    (pre : List (SetArg M)) (a : SetArg M) (post : List (SetArg M)) (e : PyErr)
    (hpre : addAll ident c pre = some c') (ha : addEndMolecule ident c' a = .error e) :
    addEndMolecules ident c (pre ++ a :: post) = (c', some e) := by
  induction pre generalizing c with
  | nil =>
    simp [addAll] at hpre
    subst hpre
    simp [addEndMolecules, ha]
  | cons b rest ih =>
    unfold addAll at hpre
    rw [List.cons_append]
    unfold addEndMolecules
    cases hb : addEndMolecule ident c b with
    | error e' => simp [hb] at hpre
    | ok c1 =>
      simp only [hb] at hpre
      exact ih c1 hpre

end Restr
