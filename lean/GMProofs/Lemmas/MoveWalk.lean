import GMModel.MoveAtom
import Mathlib.Data.List.Perm.Basic
import Mathlib.Data.List.Nodup
import Mathlib.Data.List.Range
/-
  GMProofs.Lemmas.MoveWalk — discrete invariants of the work-list walk of `move_mol_atom`
  (`MoveAtom.step` / `MoveAtom.run`), for an ARBITRARY bond table and any scalar type.

  Main results
  * `pushNbrs_spec`        what one expansion does to `wait_queue` / `queue`
  * `WInv`                 the walk invariant; `WInv.step`, `run_ind`, `run_total` (fuel suffices)
  * `move_winv`            the final state of `moveMolAtomFull` satisfies `WInv` with an empty queue
-/

set_option linter.unusedSectionVars false

namespace MoveAtom
variable {α : Type} [Scalar α]

def children (l : List (Triple α)) : List Nat := l.map Triple.child

@[simp] theorem children_nil : children ([] : List (Triple α)) = [] := rfl
@[simp] theorem children_cons (t : Triple α) (l : List (Triple α)) :
    children (t :: l) = Triple.child t :: children l := rfl
@[simp] theorem children_append (l₁ l₂ : List (Triple α)) :
    children (l₁ ++ l₂) = children l₁ ++ children l₂ := by simp [children]
@[simp] theorem parent_mk (i j : Nat) (b : α) : Triple.parent ((i, j, b) : Triple α) = i := rfl
@[simp] theorem child_mk (i j : Nat) (b : α) : Triple.child ((i, j, b) : Triple α) = j := rfl
@[simp] theorem len_mk (i j : Nat) (b : α) : Triple.len ((i, j, b) : Triple α) = b := rfl

theorem mem_children {l : List (Triple α)} {t : Triple α} (h : t ∈ l) : Triple.child t ∈ children l :=
  List.mem_map_of_mem h

/-! ### one expansion -/

theorem pushNbrs_spec (src : Nat) (nb : List (Nat × α)) :
    ∀ (w : List Nat) (q : List (Triple α)), w.Nodup →
      ∃ new : List (Triple α),
        (pushNbrs src nb w q).2 = new ++ q ∧
        (children new ++ (pushNbrs src nb w q).1).Perm w ∧
        (∀ t ∈ new, Triple.parent t = src ∧ (Triple.child t, Triple.len t) ∈ nb) ∧
        (∀ kb ∈ nb, kb.1 ∉ (pushNbrs src nb w q).1) := by
  induction nb with
  | nil =>
    intro w q _
    exact ⟨[], by simp [pushNbrs], by simp [pushNbrs], by simp, by simp⟩
  | cons kb rest ih =>
    obtain ⟨k, b⟩ := kb
    intro w q hw
    by_cases hk : k ∈ w
    · have hstep : pushNbrs src ((k, b) :: rest) w q
          = pushNbrs src rest (w.erase k) ((src, k, b) :: q) := by
        simp [pushNbrs, hk]
      obtain ⟨new, h2, hperm, hall, hnot⟩ := ih (w.erase k) ((src, k, b) :: q) (hw.erase k)
      rw [hstep]
      refine ⟨new ++ [(src, k, b)], ?_, ?_, ?_, ?_⟩
      · rw [h2]; simp
      · have h1 : (k :: (children new ++ (pushNbrs src rest (w.erase k) ((src, k, b) :: q)).1)).Perm
            (k :: w.erase k) := List.Perm.cons k hperm
        have h3 : (k :: w.erase k).Perm w := (List.perm_cons_erase hk).symm
        refine List.Perm.trans ?_ (h1.trans h3)
        simp only [children_append, children_cons, children_nil, child_mk, List.append_assoc,
          List.singleton_append]
        exact List.perm_middle
      · intro t ht
        rcases List.mem_append.mp ht with h | h
        · obtain ⟨a1, a2⟩ := hall t h
          exact ⟨a1, List.mem_cons_of_mem _ a2⟩
        · have : t = (src, k, b) := by simpa using h
          subst this
          exact ⟨rfl, by simp⟩
      · intro kb hkb hmem
        rcases List.mem_cons.mp hkb with h | h
        · subst h
          have : k ∈ w.erase k := hperm.subset (List.mem_append_right _ hmem)
          exact ((hw.mem_erase_iff).mp this).1 rfl
        · exact hnot kb h hmem
    · have hstep : pushNbrs src ((k, b) :: rest) w q = pushNbrs src rest w q := by
        simp [pushNbrs, hk]
      obtain ⟨new, h2, hperm, hall, hnot⟩ := ih w q hw
      rw [hstep]
      refine ⟨new, h2, hperm, ?_, ?_⟩
      · intro t ht
        obtain ⟨a1, a2⟩ := hall t ht
        exact ⟨a1, List.mem_cons_of_mem _ a2⟩
      · intro kb hkb hmem
        rcases List.mem_cons.mp hkb with h | h
        · subst h
          exact hk (hperm.subset (List.mem_append_right _ hmem))
        · exact hnot kb h hmem

/-- when the first loop does not raise it does what the inner loop does -/
theorem pushInit_ok (src : Nat) (nb : List (Nat × α)) :
    ∀ (w : List Nat) (q : List (Triple α)) r, pushInit src nb w q = .ok r →
      r = pushNbrs src nb w q := by
  induction nb with
  | nil => intro w q r h; simp [pushInit] at h; simp [pushNbrs, h]
  | cons kb rest ih =>
    obtain ⟨k, b⟩ := kb
    intro w q r h
    by_cases hk : k ∈ w
    · simp only [pushInit, hk, if_true] at h
      simp only [pushNbrs, hk, if_true]
      exact ih _ _ _ h
    · simp [pushInit, hk] at h

/-- the first loop succeeds when the listed neighbours are distinct and all still waiting -/
theorem pushInit_total (src : Nat) (nb : List (Nat × α)) :
    ∀ (w : List Nat) (q : List (Triple α)), (nb.map Prod.fst).Nodup → (∀ kb ∈ nb, kb.1 ∈ w) →
      ∃ r, pushInit src nb w q = .ok r := by
  induction nb with
  | nil => intro w q _ _; exact ⟨_, rfl⟩
  | cons kb rest ih =>
    obtain ⟨k, b⟩ := kb
    intro w q hnd hmem
    have hk : k ∈ w := hmem (k, b) (by simp)
    simp only [pushInit, hk, if_true]
    rw [List.map_cons, List.nodup_cons] at hnd
    apply ih _ _ hnd.2
    intro kb hkb
    have hne : kb.1 ≠ k := by
      intro e
      apply hnd.1
      rw [← e]
      exact List.mem_map.mpr ⟨kb, hkb, rfl⟩
    exact (List.mem_erase_of_ne hne).mpr (hmem kb (List.mem_cons_of_mem _ hkb))

/-- the first loop raises `ValueError` and nothing else -/
theorem pushInit_err (src : Nat) (nb : List (Nat × α)) :
    ∀ (w : List Nat) (q : List (Triple α)) e, pushInit src nb w q = .error e → e = .valueError := by
  induction nb with
  | nil => intro w q e h; simp [pushInit] at h
  | cons kb rest ih =>
    obtain ⟨k, b⟩ := kb
    intro w q e h
    by_cases hk : k ∈ w
    · simp only [pushInit, hk, if_true] at h
      exact ih _ _ _ h
    · simp only [pushInit, hk, if_false] at h
      cases h; rfl

/-! ### the invariant of the walk -/

/-- every popped item's parent is the root or the child of an item popped EARLIER
    (the list is newest first) -/
def Good (a : Nat) : List (Triple α) → Prop
  | [] => True
  | t :: rest => (Triple.parent t = a ∨ Triple.parent t ∈ children rest) ∧ Good a rest

theorem Good.parent_mem {a : Nat} : ∀ {l : List (Triple α)}, Good a l → ∀ t ∈ l,
    Triple.parent t = a ∨ Triple.parent t ∈ children l
  | [], _, t, h => by simp at h
  | x :: rest, hg, t, h => by
    rcases List.mem_cons.mp h with e | e
    · subst e
      rcases hg.1 with h1 | h1
      · exact Or.inl h1
      · exact Or.inr (List.mem_cons_of_mem _ h1)
    · rcases Good.parent_mem hg.2 t e with h1 | h1
      · exact Or.inl h1
      · exact Or.inr (List.mem_cons_of_mem _ h1)

structure WInv (n a : Nat) (bt : BondTable α) (s : St α) : Prop where
  /-- root, popped children, queued children and waiting atoms are exactly `0..n-1`, once each -/
  perm : (a :: (children s.trace ++ (children s.queue ++ s.wait))).Perm (List.range n)
  /-- the parent of a queued item is final (root or already popped) -/
  qpar : ∀ t ∈ s.queue, Triple.parent t = a ∨ Triple.parent t ∈ children s.trace
  good : Good a s.trace
  /-- every item ever pushed is an entry of the table -/
  bond : ∀ t ∈ s.trace ++ s.queue, ∃ nb, bt[Triple.parent t]? = some nb ∧
    (Triple.child t, Triple.len t) ∈ nb
  /-- no listed neighbour of an expanded atom is still waiting -/
  closed : ∀ u, (u = a ∨ u ∈ children s.trace) → ∀ nb, bt[u]? = some nb → ∀ kb ∈ nb, kb.1 ∉ s.wait
  plen : s.pos.length = n

theorem WInv.nodup {n a : Nat} {bt : BondTable α} {s : St α} (h : WInv n a bt s) :
    (a :: (children s.trace ++ (children s.queue ++ s.wait))).Nodup :=
  (h.perm.nodup_iff).mpr List.nodup_range

theorem WInv.lt {n a : Nat} {bt : BondTable α} {s : St α} (h : WInv n a bt s) {x : Nat}
    (hx : x ∈ a :: (children s.trace ++ (children s.queue ++ s.wait))) : x < n :=
  List.mem_range.mp (h.perm.subset hx)

theorem WInv.wait_nodup {n a : Nat} {bt : BondTable α} {s : St α} (h : WInv n a bt s) :
    s.wait.Nodup := by
  have := h.nodup
  rw [List.nodup_cons, List.nodup_append, List.nodup_append] at this
  exact this.2.2.1.2.1

/-- explicit form of a successful non-trivial step -/
theorem step_cons_ok {bt : BondTable α} {s s' : St α} {i j : Nat} {b : α} {rest : List (Triple α)}
    (hq : s.queue = (i, j, b) :: rest) (h : step bt s = .ok s') :
    ∃ pi pj nb, s.pos[i]? = some pi ∧ s.pos[j]? = some pj ∧ bt[j]? = some nb ∧
      s' = ⟨s.pos.set j (pullPoint pi pj b), (pushNbrs j nb s.wait rest).1,
            (pushNbrs j nb s.wait rest).2, (i, j, b) :: s.trace,
            s.defined && !Scalar.isZero (V3.norm (pi - pj))⟩ := by
  unfold step at h
  rw [hq] at h
  simp only at h
  cases hi : s.pos[i]? with
  | none => rw [hi] at h; simp at h
  | some pi =>
    cases hj : s.pos[j]? with
    | none => rw [hi, hj] at h; simp at h
    | some pj =>
      rw [hi, hj] at h
      simp only at h
      cases hb : bt[j]? with
      | none => rw [hb] at h; simp at h
      | some nb =>
        rw [hb] at h
        simp only [Except.ok.injEq] at h
        exact ⟨pi, pj, nb, rfl, rfl, rfl, h.symm⟩

theorem step_nil {bt : BondTable α} {s : St α} (hq : s.queue = []) : step bt s = .ok s := by
  unfold step; rw [hq]

theorem WInv.step {n a : Nat} {bt : BondTable α} {s s' : St α} (h : WInv n a bt s)
    (hs : step bt s = .ok s') : WInv n a bt s' := by
  cases hq : s.queue with
  | nil => rw [step_nil hq] at hs; cases hs; exact h
  | cons t rest =>
    obtain ⟨i, j, b⟩ := t
    obtain ⟨pi, pj, nb, hi, hj, hb, rfl⟩ := step_cons_ok hq hs
    obtain ⟨new, h2, hperm, hall, hnot⟩ := pushNbrs_spec j nb s.wait rest h.wait_nodup
    have hP := h.perm
    rw [hq] at hP
    refine ⟨?_, ?_, ?_, ?_, ?_, ?_⟩
    · -- perm
      show (a :: (children ((i, j, b) :: s.trace) ++
        (children (pushNbrs j nb s.wait rest).2 ++ (pushNbrs j nb s.wait rest).1))).Perm _
      rw [h2]
      refine List.Perm.trans ?_ hP
      refine List.Perm.cons a ?_
      simp only [children_cons, children_append, child_mk, List.cons_append, List.append_assoc]
      -- j :: (tc ++ (cn ++ (cr ++ w'))) ~ tc ++ (j :: (cr ++ wait))
      refine List.Perm.trans ?_ List.perm_middle.symm
      refine List.Perm.cons j (List.Perm.append_left _ ?_)
      -- cn ++ (cr ++ w') ~ cr ++ wait
      calc children new ++ (children rest ++ (pushNbrs j nb s.wait rest).1)
          _ = (children new ++ children rest) ++ (pushNbrs j nb s.wait rest).1 := by simp
          _ |>.Perm ((children rest ++ children new) ++ (pushNbrs j nb s.wait rest).1) :=
              List.Perm.append_right _ List.perm_append_comm
          _ = children rest ++ (children new ++ (pushNbrs j nb s.wait rest).1) := by simp
          _ |>.Perm (children rest ++ s.wait) := List.Perm.append_left _ hperm
    · -- qpar
      intro t ht
      show Triple.parent t = a ∨ Triple.parent t ∈ children ((i, j, b) :: s.trace)
      have ht' : t ∈ new ++ rest := by rw [← h2]; exact ht
      rcases List.mem_append.mp ht' with hn | hr
      · right; rw [(hall t hn).1]; simp
      · rcases h.qpar t (by rw [hq]; exact List.mem_cons_of_mem _ hr) with e | e
        · exact Or.inl e
        · exact Or.inr (List.mem_cons_of_mem _ e)
    · -- good
      exact ⟨h.qpar (i, j, b) (by rw [hq]; simp), h.good⟩
    · -- bond
      intro t ht
      have ht' : t ∈ ((i, j, b) :: s.trace) ++ (new ++ rest) := by rw [← h2]; exact ht
      rcases List.mem_append.mp ht' with h1 | h1
      · rcases List.mem_cons.mp h1 with e | e
        · exact h.bond t (by rw [hq, e]; simp)
        · exact h.bond t (List.mem_append_left _ e)
      · rcases List.mem_append.mp h1 with hn | hr
        · refine ⟨nb, ?_, (hall t hn).2⟩
          rw [(hall t hn).1]; exact hb
        · exact h.bond t (by rw [hq]; exact List.mem_append_right _ (List.mem_cons_of_mem _ hr))
    · -- closed
      intro u hu nb' hnb' kb hkb hmem
      have hsub : kb.1 ∈ s.wait := hperm.subset (List.mem_append_right _ hmem)
      rcases hu with e | e
      · exact h.closed u (Or.inl e) nb' hnb' kb hkb hsub
      · rcases List.mem_cons.mp e with e' | e'
        · have : u = j := e'
          subst this
          rw [hb] at hnb'; cases hnb'
          exact hnot kb hkb hmem
        · exact h.closed u (Or.inr e') nb' hnb' kb hkb hsub
    · show (s.pos.set j _).length = n
      rw [List.length_set]; exact h.plen

/-- induction principle for the `while` loop -/
theorem run_ind {bt : BondTable α} {P : St α → Prop}
    (hstep : ∀ s s', P s → step bt s = .ok s' → P s') :
    ∀ (f : Nat) (s s' : St α), run bt f s = .ok s' → P s → P s' ∧ s'.queue = [] := by
  intro f
  induction f with
  | zero =>
    intro s s' h hp
    unfold run at h
    cases hq : s.queue with
    | nil => rw [hq] at h; cases h; exact ⟨hp, hq⟩
    | cons t r => rw [hq] at h; simp at h
  | succ f ih =>
    intro s s' h hp
    unfold run at h
    cases hq : s.queue with
    | nil => rw [hq] at h; cases h; exact ⟨hp, hq⟩
    | cons t r =>
      rw [hq] at h
      simp only at h
      cases hs : step bt s with
      | error e => rw [hs] at h; simp at h
      | ok s1 =>
        rw [hs] at h
        exact ih s1 s' h (hstep s s1 hp hs)

/-- the fuel suffices: with `bt` covering all atoms the loop returns (no `IndexError`, no `KeyError`,
    never out of fuel) -/
theorem run_total {n a : Nat} {bt : BondTable α} (hbt : bt.length = n) :
    ∀ (f : Nat) (s : St α), WInv n a bt s → s.queue.length + s.wait.length ≤ f →
      ∃ s', run bt f s = .ok s' := by
  intro f
  induction f with
  | zero =>
    intro s _ hle
    have : s.queue = [] := List.eq_nil_of_length_eq_zero (by omega)
    exact ⟨s, by unfold run; rw [this]⟩
  | succ f ih =>
    intro s h hle
    cases hq : s.queue with
    | nil => exact ⟨s, by unfold run; rw [hq]⟩
    | cons t rest =>
      obtain ⟨i, j, b⟩ := t
      have hj : j < n := h.lt (by rw [hq]; simp)
      have hi : i < n := by
        rcases h.qpar (i, j, b) (by rw [hq]; simp) with e | e
        · have : i = a := e
          rw [this]; exact h.lt (by simp)
        · exact h.lt (List.mem_cons_of_mem _ (List.mem_append_left _ e))
      have hpi : ∃ pi, s.pos[i]? = some pi :=
        ⟨s.pos[i]'(by rw [h.plen]; exact hi), List.getElem?_eq_getElem _⟩
      have hpj : ∃ pj, s.pos[j]? = some pj :=
        ⟨s.pos[j]'(by rw [h.plen]; exact hj), List.getElem?_eq_getElem _⟩
      have hnb : ∃ nb, bt[j]? = some nb :=
        ⟨bt[j]'(by rw [hbt]; exact hj), List.getElem?_eq_getElem _⟩
      obtain ⟨pi, hpi⟩ := hpi
      obtain ⟨pj, hpj⟩ := hpj
      obtain ⟨nb, hnb⟩ := hnb
      have hs : step bt s = .ok ⟨s.pos.set j (pullPoint pi pj b), (pushNbrs j nb s.wait rest).1,
            (pushNbrs j nb s.wait rest).2, (i, j, b) :: s.trace,
            s.defined && !Scalar.isZero (V3.norm (pi - pj))⟩ := by
        unfold step; rw [hq]; simp only; rw [hpi, hpj]; simp only; rw [hnb]
      obtain ⟨new, h2, hperm, _, _⟩ := pushNbrs_spec j nb s.wait rest h.wait_nodup
      have hlen := hperm.length_eq
      rw [List.length_append] at hlen
      have hcl : (children new).length = new.length := by simp [children]
      have := ih _ (h.step hs) (by
        show (pushNbrs j nb s.wait rest).2.length + (pushNbrs j nb s.wait rest).1.length ≤ f
        rw [h2, List.length_append]
        rw [hq, List.length_cons] at hle
        omega)
      obtain ⟨s', hs'⟩ := this
      exact ⟨s', by unfold run; rw [hq]; simp only; rw [hs]; exact hs'⟩

/-! ### the whole function -/

/-- explicit form of a successful call -/
theorem move_ok_form {pos : List (V3 α)} {bt : BondTable α} {a : Nat} {displ : V3 α} {s : St α}
    (h : moveMolAtomFull pos bt a displ = .ok s) :
    ∃ pa nb, pos[a]? = some pa ∧ a < pos.length ∧ bt[a]? = some nb ∧
      run bt pos.length ⟨pos.set a (pa + displ), (pushNbrs a nb ((List.range pos.length).erase a) []).1,
        (pushNbrs a nb ((List.range pos.length).erase a) []).2, [], true⟩ = .ok s := by
  unfold moveMolAtomFull at h
  simp only at h
  cases hpa : pos[a]? with
  | none => rw [hpa] at h; simp at h
  | some pa =>
    rw [hpa] at h
    simp only at h
    have ha : a < pos.length := by
      obtain ⟨hlt, _⟩ := List.getElem?_eq_some_iff.mp hpa
      exact hlt
    rw [if_pos (List.mem_range.mpr ha)] at h
    cases hb : bt[a]? with
    | none => rw [hb] at h; simp at h
    | some nb =>
      rw [hb] at h
      simp only at h
      cases hp : pushInit a nb ((List.range pos.length).erase a) [] with
      | error e => rw [hp] at h; simp at h
      | ok r =>
        rw [hp] at h
        simp only at h
        have hr := pushInit_ok _ _ _ _ _ hp
        rw [hr] at h
        exact ⟨pa, nb, rfl, ha, rfl, h⟩

/-- the state the `while` loop starts from satisfies the invariant -/
theorem init_winv {pos : List (V3 α)} {bt : BondTable α} {a : Nat} {p1 : V3 α}
    {nb : List (Nat × α)} (ha : a < pos.length) (hb : bt[a]? = some nb) :
    WInv pos.length a bt ⟨pos.set a p1, (pushNbrs a nb ((List.range pos.length).erase a) []).1,
        (pushNbrs a nb ((List.range pos.length).erase a) []).2, [], true⟩ := by
  have hnd : ((List.range pos.length).erase a).Nodup := List.nodup_range.erase a
  obtain ⟨new, h2, hperm, hall, hnot⟩ :=
    pushNbrs_spec a nb ((List.range pos.length).erase a) ([] : List (Triple α)) hnd
  rw [List.append_nil] at h2
  refine ⟨?_, ?_, trivial, ?_, ?_, ?_⟩
  · show (a :: (children ([] : List (Triple α)) ++ (children (pushNbrs a nb _ []).2 ++
      (pushNbrs a nb _ []).1))).Perm _
    rw [h2]
    simp only [children_nil, List.nil_append]
    exact (List.Perm.cons a hperm).trans (List.perm_cons_erase (List.mem_range.mpr ha)).symm
  · intro t ht
    have : t ∈ new := by rw [← h2]; exact ht
    exact Or.inl (hall t this).1
  · intro t ht
    have : t ∈ new := by
      have : t ∈ ([] : List (Triple α)) ++ new := by rw [← h2]; exact ht
      simpa using this
    exact ⟨nb, by rw [(hall t this).1]; exact hb, (hall t this).2⟩
  · intro u hu nb' hnb' kb hkb
    rcases hu with e | e
    · subst e
      rw [hb] at hnb'; cases hnb'
      exact hnot kb hkb
    · simp at e
  · show (pos.set a p1).length = pos.length
    exact List.length_set

/-- the final state of a successful call satisfies the walk invariant and has an empty queue -/
theorem move_winv {pos : List (V3 α)} {bt : BondTable α} {a : Nat} {displ : V3 α} {s : St α}
    (h : moveMolAtomFull pos bt a displ = .ok s) : WInv pos.length a bt s ∧ s.queue = [] := by
  obtain ⟨pa, nb, _, ha, hb, hrun⟩ := move_ok_form h
  exact run_ind (P := WInv pos.length a bt) (fun s s' hp hs => hp.step hs) _ _ _ hrun
    (init_winv ha hb)

end MoveAtom
