import GMProofs.Lemmas.Vec
import GMModel.HeapOps
/-
  GMProofs.Lemmas.HeapGeom — real-arithmetic facts behind move / move_to / rotate:
  means of translated / rotated point lists, and distance preservation.
-/

open GMHeap

namespace V3

theorem foldl_add (acc : V3 ℝ) (l : List (V3 ℝ)) :
    l.foldl V3.add acc = V3.add acc (l.foldl V3.add V3.zero) := by
  induction l generalizing acc with
  | nil => apply V3.ext' <;> simp [gm]
  | cons a l ih =>
    simp only [List.foldl_cons]
    rw [ih (V3.add acc a), ih (V3.add V3.zero a)]
    apply V3.ext' <;> simp only [gm] <;> ring

theorem sum_nil : V3.sum ([] : List (V3 ℝ)) = V3.zero := rfl

theorem sum_cons (a : V3 ℝ) (l : List (V3 ℝ)) : V3.sum (a :: l) = V3.add a (V3.sum l) := by
  unfold V3.sum
  simp only [List.foldl_cons]
  rw [foldl_add]
  apply V3.ext' <;> simp only [gm] <;> ring

/-- sum of an affinely transformed list, for a transformation `p ↦ A p + t` with `A` additive -/
theorem sum_map_affine (A : V3 ℝ → V3 ℝ) (t : V3 ℝ) (hA0 : A V3.zero = V3.zero)
    (hA : ∀ a b, A (V3.add a b) = V3.add (A a) (A b)) (l : List (V3 ℝ)) :
    V3.sum (l.map (fun p => V3.add (A p) t)) =
      V3.add (A (V3.sum l)) (V3.smul (l.length : ℝ) t) := by
  induction l with
  | nil =>
    simp only [List.map_nil, sum_nil, hA0, List.length_nil]
    apply V3.ext' <;> simp [gm]
  | cons a l ih =>
    simp only [List.map_cons, sum_cons, ih, hA, List.length_cons]
    apply V3.ext' <;> simp only [gm] <;> push_cast <;> ring

theorem mean_eq (l : List (V3 ℝ)) : V3.mean l = V3.divs (V3.sum l) (l.length : ℝ) := by
  unfold V3.mean
  simp [gm]

end V3

namespace GMHeap

/-- `move`: the centre moves by exactly the displacement -/
theorem mean_map_add (l : List (V3 ℝ)) (d : V3 ℝ) (hl : l ≠ []) :
    V3.mean (l.map (· + d)) = V3.mean l + d := by
  have hn : (l.length : ℝ) ≠ 0 := by
    have : l.length ≠ 0 := fun e => hl (List.length_eq_zero_iff.mp e)
    exact_mod_cast this
  have hs := V3.sum_map_affine id d rfl (fun _ _ => rfl) l
  have e : l.map (· + d) = l.map (fun p => V3.add (id p) d) := rfl
  rw [V3.mean_eq, V3.mean_eq, List.length_map, e, hs]
  apply V3.ext' <;> simp only [gm, id] <;> field_simp

/-- `move_to`: the centre lands exactly on the requested point -/
theorem mean_move_to (l : List (V3 ℝ)) (p : V3 ℝ) (hl : l ≠ []) :
    V3.mean (l.map (· + (p - V3.mean l))) = p := by
  rw [mean_map_add l _ hl]
  apply V3.ext' <;> simp only [gm] <;> ring

theorem rotatePoint_affine (r : M3 ℝ) (c p : V3 ℝ) :
    rotatePoint r c p =
      V3.add (M3.vecMul p (M3.transpose r)) (V3.sub c (M3.vecMul c (M3.transpose r))) := by
  unfold rotatePoint
  apply V3.ext' <;> simp only [gm] <;> ring

/-- `rotate`: the centre does not move — for ANY 3×3 matrix (only linearity is used) -/
theorem mean_rotate (l : List (V3 ℝ)) (r : M3 ℝ) (hl : l ≠ []) :
    V3.mean (l.map (rotatePoint r (V3.mean l))) = V3.mean l := by
  have hn : (l.length : ℝ) ≠ 0 := by
    have : l.length ≠ 0 := fun e => hl (List.length_eq_zero_iff.mp e)
    exact_mod_cast this
  have hs := V3.sum_map_affine (fun p => M3.vecMul p (M3.transpose r))
    (V3.sub (V3.mean l) (M3.vecMul (V3.mean l) (M3.transpose r)))
    (by apply V3.ext' <;> simp [gm])
    (by intro a b; apply V3.ext' <;> simp only [gm] <;> ring) l
  have e : l.map (rotatePoint r (V3.mean l)) = l.map (fun p =>
      V3.add (M3.vecMul p (M3.transpose r))
        (V3.sub (V3.mean l) (M3.vecMul (V3.mean l) (M3.transpose r)))) := by
    apply List.map_congr_left
    intro p _
    exact rotatePoint_affine r _ p
  rw [e]
  conv_lhs => rw [V3.mean_eq, List.length_map, hs]
  rw [V3.mean_eq]
  apply V3.ext' <;> simp only [gm] <;> field_simp <;> ring

/-- translation preserves differences -/
theorem move_diff (p q d : V3 ℝ) : (p + d) - (q + d) = p - q := by
  apply V3.ext' <;> simp only [gm] <;> ring

/-- `RᵀR = 1` (columns orthonormal), the six scalar equations -/
def Orthogonal (r : M3 ℝ) : Prop := M3.mul (M3.transpose r) r = M3.eye

/-- rotation about any centre by an orthogonal matrix preserves distances -/
theorem rotate_dist (r : M3 ℝ) (hr : Orthogonal r) (c p q : V3 ℝ) :
    V3.norm (rotatePoint r c p - rotatePoint r c q) = V3.norm (p - q) := by
  unfold Orthogonal at hr
  have h00 := congrArg (fun m : M3 ℝ => m.r0.x) hr
  have h01 := congrArg (fun m : M3 ℝ => m.r0.y) hr
  have h02 := congrArg (fun m : M3 ℝ => m.r0.z) hr
  have h11 := congrArg (fun m : M3 ℝ => m.r1.y) hr
  have h12 := congrArg (fun m : M3 ℝ => m.r1.z) hr
  have h22 := congrArg (fun m : M3 ℝ => m.r2.z) hr
  simp only [gm] at h00 h01 h02 h11 h12 h22
  rw [V3.norm_eq, V3.norm_eq]
  congr 1
  unfold rotatePoint
  simp only [gm]
  linear_combination
    ((p.x - q.x) * (p.x - q.x)) * h00 + (2 * (p.x - q.x) * (p.y - q.y)) * h01 +
    (2 * (p.x - q.x) * (p.z - q.z)) * h02 + ((p.y - q.y) * (p.y - q.y)) * h11 +
    (2 * (p.y - q.y) * (p.z - q.z)) * h12 + ((p.z - q.z) * (p.z - q.z)) * h22

end GMHeap
