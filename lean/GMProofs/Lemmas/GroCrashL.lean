import GMProofs.Lemmas.GroSessionL
import GMProofs.Lemmas.GroPrefixL
/-
  What the file contains at the crash points of a writer session, and why the reader rejects it.
  Generic in the numeric parsers. (core Lean only)
-/
open PyStr PyStrL Gro

namespace GroL

/-- opening the text raises -/
def Rejected (P : Parsers) (bs : List Nat) : Prop := ∀ st, loadAndVerify P bs ≠ .ok st

theorem rejected_iff_error (P : Parsers) (bs : List Nat) : Rejected P bs ↔ ∃ e, loadAndVerify P bs = .error e := by
  unfold Rejected
  cases h : loadAndVerify P bs with
  | error e => simp
  | ok st => simp

/-- nothing written yet (only setters used): the title line is empty -/
theorem rejected_nil (P : Parsers) : Rejected P [] := by
  intro st h
  obtain ⟨hT, -⟩ := loadAndVerify_inv rfl rfl rfl h
  exact hT (by simp [readLine, takeLine])

/-- the count line does not denote a number (the blank placeholder of a file that was never closed) -/
theorem rejected_bad_count (P : Parsers) (title count tail : List Nat) (lines : List (List Nat))
    (ht : nl ∉ title) (hc : nl ∉ count) (hbad : ∀ v, P.pyInt (count ++ [nl]) ≠ .ok v) :
    Rejected P (groPre title count lines ++ tail) := by
  intro st h
  obtain ⟨-, n, fmt, hn, -⟩ := loadAndVerify_inv (read_title' ht tail) (read_count' hc tail) rfl h
  exact hbad n hn

/-- the file after `j` of the records: a truncation of the complete file at a line boundary -/
theorem groPre_take (title count lattice : List Nat) (lines : List (List Nat)) (L j : Nat)
    (hL : ∀ l ∈ lines, l.length = L) :
    groPre title count (lines.take j)
      = (groBytes title count lines lattice).take (boxOffset title count (lines.take j).length L) := by
  have hL' : ∀ l ∈ lines.take j, l.length = L := fun l hl => hL l (List.mem_of_mem_take hl)
  have e : groBytes title count lines lattice
      = groPre title count (lines.take j) ++ (linesText (lines.drop j) ++ (lattice ++ [nl])) := by
    have hsplit : linesText lines = linesText (lines.take j) ++ linesText (lines.drop j) := by
      rw [← linesText_append, List.take_append_drop]
    unfold groBytes groPre
    rw [hsplit]
    simp [List.append_assoc]
  rw [e, ← groPre_length title count (lines.take j) L hL', List.take_left]

/-- the writer after the header and `r0 :: rest'` -/
theorem writing_prefix {s : WState} (hs : Pristine s) (r0 : Rec) (rest' : List Rec) (w d : Nat) (vel : Bool)
    (hf : s.effFormat = (w, d)) (hr : ∀ r ∈ r0 :: rest', RecOk w d vel r) (ht : TitleOk s.effComment) :
    Writing s (run s ((r0 :: rest').map Op.writeLine)).1 w d vel (lineOf w d r0).length (r0 :: rest') := by
  obtain ⟨s1, hs1, hw1⟩ := setup_step hs r0 w d vel hf (hr r0 (by simp)) ht
  obtain ⟨hw2, -⟩ := writing_run rest' hw1 (fun r h => hr r (by simp [h]))
  simp only [List.map_cons, run, hs1]
  simpa using hw2

/-- the parser facts the crash-point argument uses: the blank placeholder is not a number, the final
    count line denotes the number of records, `determine_format('')` raises -/
structure CrashParsers (P : Parsers) (s : WState) (n : Nat) : Prop where
  blank : s.natoms = none → ∀ v, P.pyInt (List.replicate numberFigures sp ++ [nl]) ≠ .ok v
  count : P.pyInt (countFinal s n ++ [nl]) = .ok (n : Int)
  det : ∀ v, P.detFormat [] ≠ .ok v

section crash
variable {P : Parsers} {s : WState} {r0 : Rec} {rest : List Rec} {w d : Nat} {vel : Bool}

theorem session_preOk (hr : ∀ r ∈ r0 :: rest, RecOk w d vel r) (ht : TitleOk s.effComment)
    (hP : CrashParsers P s (r0 :: rest).length) :
    PreOk P s.effComment (countFinal s (r0 :: rest).length) ((r0 :: rest).map (lineOf w d)) (lineOf w d r0).length := by
  constructor
  · exact ht
  · intro h; exact (countFinal_chars _ _ _ h).ne_nl rfl
  · intro l hl
    obtain ⟨r, hrm, rfl⟩ := List.mem_map.mp hl
    exact ⟨lineOf_no_nl (hr r hrm), by rw [lineOf_length (hr r hrm), lineOf_length (hr r0 (by simp))]⟩
  · simp
  · simpa using hP.count

/-- crash before `close`: after the setters and the first `j` records -/
theorem crash_before_close (hs : Pristine s) (hf : s.effFormat = (w, d))
    (hr : ∀ r ∈ r0 :: rest, RecOk w d vel r) (ht : TitleOk s.effComment)
    (hP : CrashParsers P s (r0 :: rest).length) (j : Nat) :
    Rejected P (run s (((r0 :: rest).take j).map Op.writeLine)).1.bytes := by
  cases j with
  | zero => simp only [List.take_zero, List.map_nil, run, hs.bytes]; exact rejected_nil P
  | succ j =>
    have htake : (r0 :: rest).take (j + 1) = r0 :: rest.take j := rfl
    rw [htake]
    have hw := writing_prefix hs r0 (rest.take j) w d vel hf
      (fun r h => hr r (by
        simp only [List.mem_cons] at h ⊢
        rcases h with h | h
        · exact Or.inl h
        · exact Or.inr (List.mem_of_mem_take h))) ht
    rw [hw.bytes]
    cases hn : s.natoms with
    | none =>
      have e : headerOf s ++ linesText ((r0 :: rest.take j).map (lineOf w d))
          = groPre s.effComment (List.replicate numberFigures sp) ((r0 :: rest.take j).map (lineOf w d)) ++ [] := by
        simp [headerOf, WState.countLine, hn, groPre, List.append_assoc]
      rw [e]
      exact rejected_bad_count P _ _ _ _ ht
        (by intro h; have := (List.mem_replicate.mp h).2; revert this; decide) (hP.blank hn)
    | some n =>
      have hpre := session_preOk hr ht hP
      have hcf : countFinal s (r0 :: rest).length = intBody n := by simp [countFinal, hn]
      have e : headerOf s ++ linesText ((r0 :: rest.take j).map (lineOf w d))
          = groPre s.effComment (countFinal s (r0 :: rest).length)
              (((r0 :: rest).map (lineOf w d)).take (j + 1)) := by
        rw [hcf]
        simp [headerOf, WState.countLine, hn, groPre, List.append_assoc, List.map_take]
      rw [e, groPre_take _ _ (dumpLattice s.box) _ (lineOf w d r0).length (j + 1) hpre.len]
      intro st
      apply prefix_before_box P _ _ _ _ _ hpre hP.det
      unfold boxOffset
      apply Nat.add_le_add_left
      apply Nat.mul_le_mul_right
      simp only [List.length_take]
      exact Nat.min_le_right _ _

/-- crash inside `close`, after the count has been back-filled / verified and before the lattice line -/
theorem crash_in_close (hs : Pristine s) (hf : s.effFormat = (w, d))
    (hr : ∀ r ∈ r0 :: rest, RecOk w d vel r) (ht : TitleOk s.effComment)
    (hcount : CountOk s (r0 :: rest).length) (hP : CrashParsers P s (r0 :: rest).length) :
    ∃ sC n, closeCount (run s ((r0 :: rest).map Op.writeLine)).1 = .counted sC n ∧ Rejected P sC.bytes := by
  have hw := writing_prefix hs r0 rest w d vel hf hr ht
  obtain ⟨sC, hsC, hbC, -⟩ := closeCount_writing hw (by simp) hcount
  refine ⟨sC, _, hsC, ?_⟩
  have hpre := session_preOk hr ht hP
  have e : sC.bytes = (groBytes s.effComment (countFinal s (r0 :: rest).length) ((r0 :: rest).map (lineOf w d))
      (dumpLattice s.box)).take (boxOffset s.effComment (countFinal s (r0 :: rest).length)
        ((r0 :: rest).map (lineOf w d)).length (lineOf w d r0).length) := by
    rw [hbC, take_after_box _ _ _ _ _ hpre.len _ (Nat.le_refl _), Nat.sub_self, List.take_zero, List.append_nil]
    rfl
  rw [e]
  intro st
  exact prefix_before_box P _ _ _ _ _ hpre hP.det _ (Nat.le_refl _) st

end crash

/-- the concrete parsers satisfy the facts used -/
theorem crashParsers_std (s : WState) (n : Nat) (h : CountOk s n) : CrashParsers stdParsers s n := by
  constructor
  · intro _ v hv
    have hall : ∀ c ∈ List.replicate numberFigures sp ++ [nl], isCSpace c = true := by
      intro c hc
      rcases List.mem_append.mp hc with h | h
      · rw [(List.mem_replicate.mp h).2]; decide
      · simp at h; subst h; decide
    have : pyInt (List.replicate numberFigures sp ++ [nl]) = .error .valueError := by
      unfold pyInt
      rw [not_unmodelled_of (fun c hc => cspace_plain (hall c hc))]
      simp only [Bool.false_eq_true, if_false]
      unfold stripC
      rw [stripBy_nil_of_all _ hall]
      rfl
    simp only [stdParsers] at hv
    rw [this] at hv
    cases hv
  · exact pyInt_countFinal s n h
  · intro v hv
    simp [stdParsers, determineFormat] at hv

end GroL
