import GMModel.Gro
import GMProofs.Lemmas.PyStrL
/-
  The reader on a file with the `.gro` layout — generic in the numeric parsers. (core Lean only)

      title \n count \n line₀ \n … line_{N−1} \n lattice \n
-/
open PyStr PyStrL Gro

namespace GroL

/-- the atom block: every line followed by its terminator -/
def linesText : List (List Nat) → List Nat
  | [] => []
  | l :: ls => l ++ nl :: linesText ls

/-- everything before the lattice line -/
def groPre (title count : List Nat) (lines : List (List Nat)) : List Nat :=
  (title ++ [nl]) ++ ((count ++ [nl]) ++ linesText lines)

/-- a complete `.gro` text -/
def groBytes (title count : List Nat) (lines : List (List Nat)) (lattice : List Nat) : List Nat :=
  groPre title count lines ++ (lattice ++ [nl])

theorem linesText_length (lines : List (List Nat)) (L : Nat) (h : ∀ l ∈ lines, l.length = L) :
    (linesText lines).length = lines.length * (L + 1) := by
  induction lines with
  | nil => simp [linesText]
  | cons l ls ih =>
    simp only [linesText, List.length_append, List.length_cons, h l (by simp),
      ih (fun x hx => h x (by simp [hx]))]
    rw [Nat.add_mul]; omega

theorem linesText_append (a b : List (List Nat)) : linesText (a ++ b) = linesText a ++ linesText b := by
  induction a with
  | nil => rfl
  | cons l ls ih => simp [linesText, ih]

/-- offset of the first atom line -/
def initOf (title count : List Nat) : Nat := title.length + 1 + (count.length + 1)

/-- offset of the lattice line -/
def boxOffset (title count : List Nat) (n L : Nat) : Nat := initOf title count + n * (L + 1)

theorem groPre_length (title count : List Nat) (lines : List (List Nat)) (L : Nat)
    (h : ∀ l ∈ lines, l.length = L) :
    (groPre title count lines).length = boxOffset title count lines.length L := by
  unfold groPre boxOffset initOf
  simp only [List.length_append, linesText_length lines L h, List.length_cons, List.length_nil]
  omega

theorem groBytes_length (title count : List Nat) (lines : List (List Nat)) (lattice : List Nat) (L : Nat)
    (h : ∀ l ∈ lines, l.length = L) :
    (groBytes title count lines lattice).length = boxOffset title count lines.length L + (lattice.length + 1) := by
  unfold groBytes
  rw [List.length_append, groPre_length _ _ _ L h]
  simp

/-! ### reading the records -/

theorem readRecords_lines (P : Parsers) (fmt : Nat × Int × Bool) (pre post : List Nat) (lines : List (List Nat))
    (hl : ∀ l ∈ lines, nl ∉ l) :
    readRecords P fmt (pre ++ (linesText lines ++ post)) lines.length pre.length
      = lines.mapM (fun l => parseAtomline P fmt (l ++ [nl])) := by
  induction lines generalizing pre with
  | nil => rfl
  | cons l ls ih =>
    have hnl : nl ∉ l := hl l (by simp)
    have hline : readLine (pre ++ (linesText (l :: ls) ++ post)) pre.length = l ++ [nl] := by
      simp only [linesText, List.append_assoc, List.cons_append]
      exact readLine_at pre l _ hnl
    simp only [List.length_cons, readRecords, hline, List.mapM_cons]
    have e : pre ++ (linesText (l :: ls) ++ post) = (pre ++ (l ++ [nl])) ++ (linesText ls ++ post) := by
      simp [linesText, List.append_assoc]
    have e2 : pre.length + (l ++ [nl]).length = (pre ++ (l ++ [nl])).length := by simp
    rw [e, e2, ih (pre ++ (l ++ [nl])) (fun x hx => hl x (by simp [hx]))]

/-! ### opening a complete file -/

theorem toNat_lin (a n m : Nat) : ((a : Int) + (n : Int) * (m : Int)).toNat = a + n * m := by
  rw [← Int.natCast_mul, ← Int.natCast_add]; exact Int.toNat_natCast _

/-- the well-formedness of the part of a `.gro` text before its lattice line, relative to the parsers:
    no terminator inside a line, `N ≥ 1` atom lines of equal length `L`, and the count line denotes `N` -/
structure PreOk (P : Parsers) (title count : List Nat) (lines : List (List Nat)) (L : Nat) : Prop where
  htitle : nl ∉ title
  hcount : nl ∉ count
  hlines : ∀ l ∈ lines, nl ∉ l ∧ l.length = L
  hne : lines ≠ []
  hnatoms : P.pyInt (count ++ [nl]) = .ok (lines.length : Int)

section reads
variable {P : Parsers} {title count : List Nat} {lines : List (List Nat)} {L : Nat}

theorem PreOk.len (h : PreOk P title count lines L) : ∀ l ∈ lines, l.length = L := fun l hl => (h.hlines l hl).2

theorem read_title' (ht : nl ∉ title) (tail : List Nat) :
    readLine (groPre title count lines ++ tail) 0 = title ++ [nl] := by
  have e : groPre title count lines ++ tail
      = [] ++ (title ++ nl :: ((count ++ [nl]) ++ linesText lines ++ tail)) := by
    simp [groPre, List.append_assoc]
  rw [e]; exact readLine_at' [] title _ 0 rfl ht

theorem read_count' (hc : nl ∉ count) (tail : List Nat) :
    readLine (groPre title count lines ++ tail) (title ++ [nl]).length = count ++ [nl] := by
  have e : groPre title count lines ++ tail
      = (title ++ [nl]) ++ (count ++ nl :: (linesText lines ++ tail)) := by
    simp [groPre, List.append_assoc]
  rw [e]; exact readLine_at _ count _ hc

theorem read_title (h : PreOk P title count lines L) (tail : List Nat) :
    readLine (groPre title count lines ++ tail) 0 = title ++ [nl] := read_title' h.htitle tail

theorem read_count (h : PreOk P title count lines L) (tail : List Nat) :
    readLine (groPre title count lines ++ tail) (title ++ [nl]).length = count ++ [nl] := read_count' h.hcount tail

theorem read_first (h : PreOk P title count lines L) (tail : List Nat) (l0 : List Nat) (ls : List (List Nat))
    (hl : lines = l0 :: ls) :
    readLine (groPre title count lines ++ tail) ((title ++ [nl]).length + (count ++ [nl]).length) = l0 ++ [nl] := by
  have hl0 : nl ∉ l0 := (h.hlines l0 (by simp [hl])).1
  have e : groPre title count lines ++ tail
      = ((title ++ [nl]) ++ (count ++ [nl])) ++ (l0 ++ nl :: (linesText ls ++ tail)) := by
    simp [groPre, hl, linesText, List.append_assoc]
  rw [e]; exact readLine_at' _ l0 _ _ (by simp only [List.length_append]) hl0

end reads

/-- opening a text whose part before the lattice line is well formed: everything is decided by what
    follows (`tail`): its first line must be non-empty and parse as a lattice line -/
theorem loadAndVerify_pre (P : Parsers) (title count tail : List Nat) (lines : List (List Nat)) (L : Nat)
    (l0 : List Nat) (ls : List (List Nat)) (fmt : Nat × Int × Bool)
    (h : PreOk P title count lines L) (hlines : lines = l0 :: ls)
    (hfmt : P.detFormat (l0 ++ [nl]) = .ok fmt) :
    loadAndVerify P (groPre title count lines ++ tail)
      = if (takeLine tail).isEmpty then .error .ioError
        else match valueToIO (extractLattice P.pyFloat (takeLine tail)) with
          | .ok box => .ok ⟨title ++ [nl], lines.length, initOf title count, L + 1, fmt, box⟩
          | .error e => .error e := by
  have hLl := h.len
  have hl0L : l0.length = L := hLl l0 (by simp [hlines])
  have r4 : readLine (groPre title count lines ++ tail)
      ((title ++ [nl]).length + (count ++ [nl]).length + lines.length * (l0 ++ [nl]).length) = takeLine tail := by
    unfold readLine
    have : (title ++ [nl]).length + (count ++ [nl]).length + lines.length * (l0 ++ [nl]).length
        = (groPre title count lines).length := by
      rw [groPre_length _ _ _ L hLl]
      simp only [List.length_append, List.length_cons, List.length_nil, hl0L, boxOffset, initOf, Nat.zero_add]
    rw [this, List.drop_left]
  unfold loadAndVerify
  simp only [read_title h, read_count h, read_first h tail l0 ls hlines, h.hnatoms, hfmt, valueToIO, bind,
    Except.bind, pure, Except.pure]
  rw [toNat_lin, r4]
  have hnn : ¬ ((((title ++ [nl]).length + (count ++ [nl]).length : Nat) : Int)
      + (lines.length : Int) * (((l0 ++ [nl]).length : Nat) : Int) < 0) := by
    have := Int.mul_nonneg (Int.natCast_nonneg lines.length) (Int.natCast_nonneg (l0 ++ [nl]).length)
    omega
  simp only [hnn, if_false]
  by_cases hE : (takeLine tail).isEmpty
  · simp [hE, throw, throwThe, MonadExceptOf.throw]
  · simp only [hE, Bool.false_eq_true, if_false]
    cases hx : extractLattice P.pyFloat (takeLine tail) with
    | ok box => simp [initOf, hl0L]
    | error e => cases e <;> simp

/-- reading the records of such a text does not depend on what follows the atom block -/
theorem readRecords_pre (P : Parsers) (fmt : Nat × Int × Bool) (title count tail : List Nat)
    (lines : List (List Nat)) (L : Nat) (h : PreOk P title count lines L) :
    readRecords P fmt (groPre title count lines ++ tail) lines.length (initOf title count)
      = lines.mapM (fun l => parseAtomline P fmt (l ++ [nl])) := by
  have e : groPre title count lines ++ tail
      = ((title ++ [nl]) ++ (count ++ [nl])) ++ (linesText lines ++ tail) := by
    simp [groPre, List.append_assoc]
  have e2 : initOf title count = ((title ++ [nl]) ++ (count ++ [nl])).length := by
    simp only [initOf, List.length_append, List.length_cons, List.length_nil]
  rw [e, e2]
  exact readRecords_lines P fmt _ tail lines (fun l hl => (h.hlines l hl).1)

/-- `open` + `readlines` on a text with a well-formed part before the lattice line -/
theorem groRead_pre (P : Parsers) (title count tail : List Nat) (lines : List (List Nat)) (L : Nat)
    (l0 : List Nat) (ls : List (List Nat)) (fmt : Nat × Int × Bool) (box : RBox) (recs : List RRec)
    (h : PreOk P title count lines L) (hlines : lines = l0 :: ls)
    (hfmt : P.detFormat (l0 ++ [nl]) = .ok fmt)
    (hne : (takeLine tail).isEmpty = false)
    (hbox : extractLattice P.pyFloat (takeLine tail) = .ok box)
    (hrecs : lines.mapM (fun l => parseAtomline P fmt (l ++ [nl])) = .ok recs) :
    groRead P (groPre title count lines ++ tail) = .ok ⟨title ++ [nl], recs, box⟩ := by
  unfold groRead
  rw [loadAndVerify_pre P title count tail lines L l0 ls fmt h hlines hfmt]
  simp only [hne, Bool.false_eq_true, if_false, hbox, valueToIO, bind, Except.bind, pure, Except.pure,
    Int.toNat_natCast]
  rw [readRecords_pre P fmt title count tail lines L h, hrecs]

end GroL
