import GMProofs.Lemmas.HeapView
import GMProofs.Lemmas.GroSessionL
import GMModel.Comparative
/-
  GMProofs.Lemmas.CmpL — lemmas for `GMModel/Comparative.lean` (work package WPH):
  a checked assignment loop on a well-formed molecule with agreeing labels never raises and leaves
  known contents; the six assignments of `write_comparative_gro`; `runAbort` against `run`.
-/

namespace GMHeap

variable {α : Type}

/-- `Atom(top, gro)` can be constructed: the two label pairs agree -/
def Agree1 (t : AtomTopC) (c : AtomGroC α) : Prop := c.resname = t.resname ∧ c.name = t.name

/-- … for every atom of a molecule -/
def Agree : List AtomTopC → List (AtomGroC α) → Prop
  | [], [] => True
  | t :: ts, c :: cs => Agree1 t c ∧ Agree ts cs
  | _, _ => False

/-- the topology side of one assignment -/
def appFt (o : Option (AtomTopC → AtomTopC)) (t : AtomTopC) : AtomTopC :=
  match o with
  | some f => f t
  | none => t

/-- the writes of a loop over a Molecule, atom by atom -/
def wsOf {β : Type} (fg : β → AtomGroC α → AtomGroC α) (ft : β → Option (AtomTopC → AtomTopC)) :
    List Nat → List Nat → List β → List (W α)
  | t :: tops, g :: gros, x :: vals => ⟨some t, g, fg x, ft x⟩ :: wsOf fg ft tops gros vals
  | _, _, _ => []

theorem mkW_eq_wsOf {β : Type} (fg : β → AtomGroC α → AtomGroC α) (ft : β → Option (AtomTopC → AtomTopC))
    (tops gros : List Nat) (vals : List β) :
    mkW ((tops.zip gros).map (fun (t, g) => ((some t : Option Nat), g))) vals fg ft = wsOf fg ft tops gros vals := by
  induction tops generalizing gros vals with
  | nil => simp [mkW, wsOf]
  | cons t tops ih =>
    cases gros with
    | nil => simp [mkW, wsOf]
    | cons g gros =>
      cases vals with
      | nil => simp [mkW, wsOf]
      | cons x vals =>
        have := ih gros vals
        simp only [mkW, List.zip_cons_cons, List.map_cons, wsOf] at this ⊢
        rw [this]

theorem matchErr_none_of_agree {h : Heap α} {t g : Nat} {t0 : AtomTopC} {c0 : AtomGroC α}
    (ht : h.top? t = some t0) (hg : h.gro? g = some c0) (ha : Agree1 t0 c0) : matchErr h t g = none := by
  unfold matchErr
  simp only [ht, hg]
  exact if_pos ha

theorem readTops_cons_inv {h : Heap α} {t : Nat} {tops : List Nat} {ts : List AtomTopC}
    (hr : readTops h (t :: tops) = some ts) :
    ∃ t0 ts', ts = t0 :: ts' ∧ h.top? t = some t0 ∧ readTops h tops = some ts' := by
  simp only [readTops] at hr
  cases e1 : h.top? t with
  | none => simp [e1] at hr
  | some t0 =>
    cases e2 : readTops h tops with
    | none => simp [e1, e2] at hr
    | some ts' =>
      simp only [e1, e2, Option.some.injEq] at hr
      exact ⟨t0, ts', hr.symm, rfl, rfl⟩

theorem readGros_cons_inv {h : Heap α} {g : Nat} {gros : List Nat} {cs : List (AtomGroC α)}
    (hr : readGros h (g :: gros) = some cs) :
    ∃ c0 cs', cs = c0 :: cs' ∧ h.gro? g = some c0 ∧ readGros h gros = some cs' := by
  simp only [readGros] at hr
  cases e1 : h.gro? g with
  | none => simp [e1] at hr
  | some c0 =>
    cases e2 : readGros h gros with
    | none => simp [e1, e2] at hr
    | some cs' =>
      simp only [e1, e2, Option.some.injEq] at hr
      exact ⟨c0, cs', hr.symm, rfl, rfl⟩

/-- what one write does to the AtomTop cells -/
theorem write_top?_of {β : Type} (fg : β → AtomGroC α → AtomGroC α) (ft : β → Option (AtomTopC → AtomTopC))
    (h : Heap α) (t g : Nat) (x : β) (a : Nat) :
    ((⟨some t, g, fg x, ft x⟩ : W α).write h).top? a =
      if a = t then (h.top? a).map (appFt (ft x)) else h.top? a := by
  rw [W.write_top?]
  cases e : ft x with
  | none =>
    have : appFt none = id := by funext t; rfl
    simp only [this]
    split <;> simp
  | some f =>
    have : appFt (some f) = f := by funext t; rfl
    simp only [this]

/-- CHECKED LOOP.  A `for atom in molecule: atom.<attr> = value` loop over pairwise distinct topology atoms
    and pairwise distinct coordinate atoms whose labels agree never raises (each `Atom(top, gro)` is
    constructed before ITS assignment, and earlier assignments touched other cells), and leaves exactly the
    assigned values. -/
theorem applyW_checked {β : Type} (fg : β → AtomGroC α → AtomGroC α) (ft : β → Option (AtomTopC → AtomTopC)) :
    ∀ (tops gros : List Nat) (vals : List β) (h : Heap α) (ts : List AtomTopC) (cs : List (AtomGroC α)),
      tops.length = gros.length → vals.length = gros.length → tops.Nodup → gros.Nodup →
      readTops h tops = some ts → readGros h gros = some cs → Agree ts cs →
      ∃ h', applyW true h (wsOf fg ft tops gros vals) = (h', none) ∧
        readGros h' gros = some (List.zipWith fg vals cs) ∧
        readTops h' tops = some (List.zipWith (fun x t => appFt (ft x) t) vals ts) ∧
        (∀ a, a ∉ gros → h'.gro? a = h.gro? a) ∧ (∀ a, a ∉ tops → h'.top? a = h.top? a) := by
  intro tops
  induction tops with
  | nil =>
    intro gros vals h ts cs hl hv _ _ hT hG _
    have : gros = [] := by cases gros <;> simp_all
    subst this
    have : vals = [] := by cases vals <;> simp_all
    subst this
    simp only [readTops, Option.some.injEq] at hT
    simp only [readGros, Option.some.injEq] at hG
    subst hT; subst hG
    exact ⟨h, rfl, rfl, rfl, fun _ _ => rfl, fun _ _ => rfl⟩
  | cons t tops ih =>
    intro gros vals h ts cs hl hv ndT ndG hT hG hA
    cases gros with
    | nil => simp at hl
    | cons g gros =>
      cases vals with
      | nil => simp at hv
      | cons x vals =>
        obtain ⟨t0, ts', rfl, ht, hT'⟩ := readTops_cons_inv hT
        obtain ⟨c0, cs', rfl, hg, hG'⟩ := readGros_cons_inv hG
        have hA1 : Agree1 t0 c0 := hA.1
        have hA' : Agree ts' cs' := hA.2
        obtain ⟨tnot, ndT'⟩ := List.nodup_cons.mp ndT
        obtain ⟨gnot, ndG'⟩ := List.nodup_cons.mp ndG
        simp only [List.length_cons, Nat.add_right_cancel_iff] at hl hv
        let w : W α := ⟨some t, g, fg x, ft x⟩
        -- the heap after the first assignment
        have hg1 : ∀ a, a ≠ g → (w.write h).gro? a = h.gro? a := fun a ha => W.write_gro?_ne h w ha
        have hg1s : (w.write h).gro? g = some (fg x c0) := by
          have := W.write_gro?_self h w
          simpa [w, hg] using this
        have ht1 : ∀ a, (w.write h).top? a = if a = t then (h.top? a).map (appFt (ft x)) else h.top? a :=
          fun a => write_top?_of fg ft h t g x a
        have hT1 : readTops (w.write h) tops = some ts' := by
          rw [readTops_congr (h := h)]
          · exact hT'
          · intro a ha
            rw [ht1 a, if_neg (fun e : a = t => tnot (e ▸ ha))]
        have hG1 : readGros (w.write h) gros = some cs' := by
          rw [readGros_congr (h := h)]
          · exact hG'
          · intro a ha
            exact hg1 a (fun e : a = g => gnot (e ▸ ha))
        obtain ⟨h', e1, e2, e3, e4, e5⟩ := ih gros vals (w.write h) ts' cs' hl hv ndT' ndG' hT1 hG1 hA'
        refine ⟨h', ?_, ?_, ?_, ?_, ?_⟩
        · simp only [wsOf, applyW, W.checkErr, ↓reduceIte, matchErr_none_of_agree ht hg hA1]
          exact e1
        · simp only [readGros, List.zipWith_cons_cons, e2, e4 g gnot, hg1s]
        · simp only [readTops, List.zipWith_cons_cons, e3, e5 t tnot, ht1 t, ↓reduceIte, ht, Option.map_some]
        · intro a ha
          simp only [List.mem_cons, not_or] at ha
          rw [e4 a ha.2, hg1 a ha.1]
        · intro a ha
          simp only [List.mem_cons, not_or] at ha
          rw [e5 a ha.2, ht1 a, if_neg ha.1]

/-! ### a well-formed molecule whose labels agree -/

/-- what `write_comparative_gro` needs of a stored molecule: well formed (`MolWF`), readable and pairwise distinct
    topology atoms, labels of topology and coordinate atoms agreeing atom by atom (the invariant `Molecule.__init__`
    establishes and every `Atom(top, gro)` re-checks) -/
structure MolState (h : Heap α) (m : Nat) (v : MolView) (ts : List AtomTopC) (cs : List (AtomGroC α)) : Prop where
  wf : MolWF h m v cs
  tops : readTops h v.tops = some ts
  ndT : v.tops.Nodup
  agree : Agree ts cs

theorem Agree.length : ∀ {ts : List AtomTopC} {cs : List (AtomGroC α)}, Agree ts cs → ts.length = cs.length
  | [], [], _ => rfl
  | _ :: ts, _ :: cs, h => by simp [Agree.length (ts := ts) (cs := cs) h.2]
  | [], _ :: _, h => h.elim
  | _ :: _, [], h => h.elim

theorem Agree.map {f : AtomTopC → AtomTopC} {g : AtomGroC α → AtomGroC α}
    (hfg : ∀ t c, Agree1 t c → Agree1 (f t) (g c)) :
    ∀ {ts : List AtomTopC} {cs : List (AtomGroC α)}, Agree ts cs → Agree (ts.map f) (cs.map g)
  | [], [], _ => trivial
  | _ :: ts, _ :: cs, h => ⟨hfg _ _ h.1, Agree.map hfg (ts := ts) (cs := cs) h.2⟩
  | [], _ :: _, h => h.elim
  | _ :: _, [], h => h.elim

theorem zipWith_const_map {β γ δ ε : Type} (f : β → γ → δ) (x : β) :
    ∀ (l : List ε) (cs : List γ), l.length = cs.length → List.zipWith f (l.map (fun _ => x)) cs = cs.map (f x)
  | [], [], _ => rfl
  | _ :: l, c :: cs, h => by
    simp only [List.map_cons, List.zipWith_cons_cons, List.cons.injEq, true_and]
    exact zipWith_const_map f x l cs (by simpa using h)
  | [], _ :: _, h => by simp at h
  | _ :: _, [], h => by simp at h

theorem MolState.gros_len {h : Heap α} {m : Nat} {v : MolView} {ts : List AtomTopC} {cs : List (AtomGroC α)}
    (S : MolState h m v ts cs) : cs.length = v.gros.length := readGros_length S.wf.cells

theorem MolState.pairs_len {h : Heap α} {m : Nat} {v : MolView} {ts : List AtomTopC} {cs : List (AtomGroC α)}
    (S : MolState h m v ts cs) :
    ((v.tops.zip v.gros).map (fun (t, g) => ((some t : Option Nat), g))).length = v.gros.length := by
  simp [S.wf.len]

/-- a checked loop over the whole molecule with constant value `x` -/
theorem MolState.loop {β : Type} {h : Heap α} {m : Nat} {v : MolView} {ts : List AtomTopC}
    {cs : List (AtomGroC α)} (S : MolState h m v ts cs) (x : β)
    (fg : β → AtomGroC α → AtomGroC α) (ft : β → Option (AtomTopC → AtomTopC))
    (hkeep : ∀ t c, Agree1 t c → Agree1 (appFt (ft x) t) (fg x c)) :
    let pairs := (v.tops.zip v.gros).map (fun (t, g) => ((some t : Option Nat), g))
    let r := applyW true h (mkW pairs (pairs.map (fun _ => x)) fg ft)
    r.2 = none ∧ MolState r.1 m v (ts.map (appFt (ft x))) (cs.map (fg x)) ∧
      Frame Rel.any (· ∈ (Obj.mol m).cells h) h r.1 := by
  intro pairs r
  have hp := S.wf.pairs.hpairs
  have hpl := S.pairs_len
  have fr : Frame Rel.any (· ∈ (Obj.mol m).cells h) h r.1 := frame_loop h (.mol m) hp true _ fg ft
  have hvl : (pairs.map (fun _ => x)).length = v.gros.length := by simp [pairs, S.wf.len]
  obtain ⟨h', e1, e2, e3, _, _⟩ := applyW_checked fg ft v.tops v.gros (pairs.map (fun _ => x)) h ts cs
    S.wf.len hvl S.ndT S.wf.nodup S.tops S.wf.cells S.agree
  have hr : r = (h', none) := by
    show applyW true h (mkW pairs _ fg ft) = _
    rw [mkW_eq_wsOf]; exact e1
  have hcl : pairs.length = cs.length := by rw [hpl, S.gros_len]
  have htl : pairs.length = ts.length := by rw [hcl, S.agree.length]
  rw [zipWith_const_map fg x pairs cs hcl] at e2
  rw [zipWith_const_map (fun x t => appFt (ft x) t) x pairs ts htl] at e3
  refine ⟨by rw [hr], ?_, fr⟩
  rw [hr] at fr ⊢
  exact ⟨⟨fr.molView S.wf.view, S.wf.each, S.wf.len, S.wf.nodup, e2⟩, e3, S.ndT, Agree.map hkeep S.agree⟩

/-- another molecule, none of whose atoms is written, keeps its state -/
theorem MolState.frame_other {W : Nat → Prop} {h h1 : Heap α} {m : Nat} {v : MolView} {ts : List AtomTopC}
    {cs : List (AtomGroC α)} (S : MolState h m v ts cs) (f : Frame Rel.any W h h1)
    (hdis : ∀ a ∈ v.gros ++ v.tops, ¬ W a) : MolState h1 m v ts cs :=
  ⟨⟨f.molView S.wf.view, S.wf.each, S.wf.len, S.wf.nodup,
      readGros_frame f S.wf.cells (fun g hg => hdis g (List.mem_append_left _ hg))⟩,
    readTops_frame f S.tops (fun g hg => hdis g (List.mem_append_right _ hg)), S.ndT, S.agree⟩

/-! ### the three assignments of `write_comparative_gro` on one molecule -/

section setters
variable {h : Heap α} {m : Nat} {v : MolView} {ts : List AtomTopC} {cs : List (AtomGroC α)}

theorem MolState.setResnames (S : MolState h m v ts cs) (s : String) :
    (setResnamesStr h (.mol m) s).2 = none ∧
    MolState (setResnamesStr h (.mol m) s).1 m v (ts.map (fun t => { t with resname := s }))
      (cs.map (fun c => { c with resname := s })) ∧
    Frame Rel.any (· ∈ (Obj.mol m).cells h) h (setResnamesStr h (.mol m) s).1 := by
  have hp := S.wf.pairs.hpairs
  have key := S.loop s (fun s g => ({ g with resname := s } : AtomGroC α))
    (fun s => some (fun t => { t with resname := s })) (fun t c hA => ⟨rfl, hA.2⟩)
  unfold setResnamesStr
  simp only [hp, ↓reduceIte]
  exact key

theorem MolState.setResids (S : MolState h m v ts cs) (n : Int) :
    (setResidsInt h (.mol m) n).2 = none ∧
    MolState (setResidsInt h (.mol m) n).1 m v (ts.map (fun t => { t with resid := n }))
      (cs.map (fun c => { c with resid := n })) ∧
    Frame Rel.any (· ∈ (Obj.mol m).cells h) h (setResidsInt h (.mol m) n).1 := by
  have hp := S.wf.pairs.hpairs
  have key := S.loop n (fun n g => ({ g with resid := n } : AtomGroC α))
    (fun n => some (fun t => { t with resid := n })) (fun t c hA => hA)
  unfold setResidsInt
  simp only [hp, ↓reduceIte]
  exact key

theorem MolState.dropVelocities (S : MolState h m v ts cs) :
    (setVelocities h (.mol m) none).2 = none ∧
    MolState (setVelocities h (.mol m) none).1 m v ts (cs.map (fun c => { c with vel := none })) ∧
    Frame Rel.any (· ∈ (Obj.mol m).cells h) h (setVelocities h (.mol m) none).1 := by
  have hp := S.wf.pairs.hpairs
  have key := S.loop () (fun _ g => ({ g with vel := none } : AtomGroC α))
    (fun _ => none) (fun t c hA => hA)
  have hid : ts.map (appFt (none : Option (AtomTopC → AtomTopC))) = ts := by
    have : appFt (none : Option (AtomTopC → AtomTopC)) = id := by funext t; rfl
    rw [this, List.map_id]
  unfold setVelocities
  simp only [hp]
  rw [hid] at key
  exact key

end setters

/-! ### `deep_copy()` of such a molecule -/

theorem copyTop_nodup {h h1 : Heap α} {t t' : Nat} (hc : copyTop h t = .ok (h1, t')) :
    ∃ name tops', h1.mtop? t' = some (name, tops') ∧ tops'.Nodup := by
  unfold copyTop at hc
  cases e1 : h.mtop? t with
  | none => simp [e1] at hc
  | some nt =>
    obtain ⟨name, tops⟩ := nt
    simp only [e1] at hc
    cases e2 : readTops h tops with
    | none => simp [e2] at hc
    | some ts =>
      simp only [e2] at hc
      injection hc with hc
      have eh : h1 = ((h.allocList (ts.map Cell.top)).1.alloc (.mtop name (h.allocList (ts.map Cell.top)).2)).1 :=
        (congrArg Prod.fst hc).symm
      have et : t' = (h.allocList (ts.map Cell.top)).1.size := (congrArg Prod.snd hc).symm
      refine ⟨name, (h.allocList (ts.map Cell.top)).2, ?_, allocList_nodup _ _⟩
      apply Heap.mtop?_eq_some.mpr
      rw [eh, et, Heap.get?_alloc, if_pos rfl]

section deep
variable [Scalar α]

/-- the deep copy of a molecule in state `(ts, cs)` is a molecule in the same state, made of fresh cells only -/
theorem deepCopy_state {h h1 : Heap α} {m c : Nat} {v : MolView} {ts : List AtomTopC} {cs : List (AtomGroC α)}
    (S : MolState h m v ts cs) (hc : stepOn h (.mol m) (.deepCopy 0) = ⟨h1, some (.mol c), none⟩) :
    ∃ v', MolState h1 c v' ts cs ∧ v'.name = v.name ∧ (∀ a ∈ v'.gros ++ v'.tops, h.size ≤ a ∧ a < h1.size) ∧
      (∀ R : Rel α, Frame R NoW h h1) := by
  obtain ⟨hgf, hrr, e1, emt⟩ := molView_gros S.wf.view
  simp only [stepOn, e1] at hc
  cases e0 : copyTop h v.top with
  | error er => simp [e0] at hc
  | ok q0 =>
    obtain ⟨h0, t'⟩ := q0
    simp only [e0] at hc
    cases e2 : molInit h0 t' v.residues with
    | error er => simp [e2, allocOk] at hc
    | ok q =>
      obtain ⟨hh, a⟩ := q
      simp only [e2, allocOk, StepR.mk.injEq, Option.some.injEq, Obj.mol.injEq, and_true] at hc
      obtain ⟨rfl, rfl⟩ := hc
      obtain ⟨ft, htfresh, name, tops, ts0, tops', g1, g2, g3, g4, g5⟩ := copyTop_spec e0
      obtain ⟨name', tops'', g3', hndT⟩ := copyTop_nodup e0
      rw [g3] at g3'
      injection g3' with g3'
      injection g3' with n1 n2
      subst n1; subst n2
      -- the source's topology
      rw [emt] at g1
      injection g1 with g1
      injection g1 with n1 n2
      subst n1; subst n2
      rw [S.tops] at g2
      injection g2 with g2
      subst g2
      have n := molInit_spec e2
      obtain ⟨name2, tops2, ps, css, f1, f2, f2c, f3, rs', ps', hv, hfrs, hfr, hnd, hrd, hlen, _⟩ := n.old
      rw [g3] at f1
      injection f1 with f1
      injection f1 with f1a f1b
      subst f1a; subst f1b
      have hle := (ft Rel.any).size_le
      have hle2 := (n.frame Rel.any).size_le
      -- the source's residues, read in the intermediate heap
      have hps : ps = v.parts := by
        have := (ft Rel.any).readRess hrr
        rw [f2] at this
        injection this
      subst hps
      have hcs : css.flatten = cs := by
        have a1 := (readGross_flatten f2c).1
        have a2 := readGros_frame (ft Rel.any) S.wf.cells (fun _ _ w => w)
        rw [hgf, a1] at a2
        injection a2
      obtain ⟨hml, _, _⟩ := matchAll_none f3
      refine ⟨_, ⟨⟨hv, ?_, ?_, hnd, ?_⟩, ?_, hndT, S.agree⟩, rfl, ?_, fun R => (ft R).trans' (n.frame R)⟩
      · exact (eachOf_congr 0 hlen).symm
      · simp only
        rw [hml, flatten_length_congr hlen]
      · rw [← hcs]; exact hrd
      · exact readTops_frame (n.frame Rel.any) g4 (fun _ _ w => w)
      · intro x hx
        rcases List.mem_append.mp hx with hx | hx
        · exact ⟨Nat.le_trans hle (hfr x hx).1, (hfr x hx).2⟩
        · exact ⟨(g5 x hx).1, Nat.lt_of_lt_of_le (g5 x hx).2 hle2⟩

end deep

/-! ### the heap phase of `write_comparative_gro` -/

/-- what the six assignments leave in an AtomGro record -/
def stamp (resname : String) (resid : Int) (c : AtomGroC α) : AtomGroC α :=
  { c with resname := resname, resid := resid, vel := none }

/-- … and in an AtomTop record -/
def stampT (resname : String) (resid : Int) (t : AtomTopC) : AtomTopC :=
  { t with resname := resname, resid := resid }

theorem MolState.cells_eq {h : Heap α} {m : Nat} {v : MolView} {ts : List AtomTopC} {cs : List (AtomGroC α)}
    (S : MolState h m v ts cs) : (Obj.mol m).cells h = v.gros ++ v.tops := by
  simp only [Obj.cells, S.wf.view]

section phase
variable [Scalar α]

theorem deepCopyMol_ok {h h1 : Heap α} {m c : Nat} (hd : Cmp.deepCopyMol h m = (h1, .ok c)) :
    stepOn h (.mol m) (.deepCopy 0) = ⟨h1, some (.mol c), none⟩ := by
  unfold Cmp.deepCopyMol at hd
  generalize stepOn h (.mol m) (.deepCopy 0) = r at hd
  obtain ⟨rh, rr, re⟩ := r
  cases re with
  | some e =>
    cases rr with
    | none => simp at hd
    | some o => cases o <;> simp at hd
  | none =>
    cases rr with
    | none => simp at hd
    | some o =>
      cases o with
      | mol c' =>
        simp only [Prod.mk.injEq, Except.ok.injEq] at hd
        obtain ⟨rfl, rfl⟩ := hd
        rfl
      | _ => simp at hd

/-- the three assignments on the first of two disjoint molecules, then on the second, … as `runAbort` runs them -/
theorem cmpSetters_spec {h : Heap α} {m1 m2 : Nat} {v1 v2 : MolView} {ts1 ts2 : List AtomTopC}
    {cs1 cs2 : List (AtomGroC α)} (S1 : MolState h m1 v1 ts1 cs1) (S2 : MolState h m2 v2 ts2 cs2)
    (hdis : ∀ a ∈ v2.gros ++ v2.tops, a ∉ v1.gros ++ v1.tops) :
    ∃ h3, Cmp.runAbort h [.mol m1, .mol m2] Cmp.cmpSetters = (h3, [.mol m1, .mol m2], none) ∧
      MolState h3 m1 v1 (ts1.map (stampT "START" 1)) (cs1.map (stamp "START" 1)) ∧
      MolState h3 m2 v2 (ts2.map (stampT "END" 2)) (cs2.map (stamp "END" 2)) ∧
      ∃ W : Nat → Prop, Frame Rel.any W h h3 ∧ ∀ a, W a → a ∈ (v1.gros ++ v1.tops) ++ (v2.gros ++ v2.tops) := by
  have hdis' : ∀ a ∈ v1.gros ++ v1.tops, a ∉ v2.gros ++ v2.tops := fun a ha hb => hdis a hb ha
  -- 1. start.resnames = 'START'
  obtain ⟨a1, A1, f1⟩ := S1.setResnames "START"
  have B1 := S2.frame_other f1 (by rw [S1.cells_eq]; exact hdis)
  -- 2. end.resnames = 'END'
  obtain ⟨a2, B2, f2⟩ := B1.setResnames "END"
  have A2 := A1.frame_other f2 (by rw [B1.cells_eq]; exact hdis')
  -- 3. start.resids = 1
  obtain ⟨a3, A3, f3⟩ := A2.setResids 1
  have B3 := B2.frame_other f3 (by rw [A2.cells_eq]; exact hdis)
  -- 4. end.resids = 2
  obtain ⟨a4, B4, f4⟩ := B3.setResids 2
  have A4 := A3.frame_other f4 (by rw [B3.cells_eq]; exact hdis')
  -- 5. start.atoms_velocities = None
  obtain ⟨a5, A5, f5⟩ := A4.dropVelocities
  have B5 := B4.frame_other f5 (by rw [A4.cells_eq]; exact hdis)
  -- 6. end.atoms_velocities = None
  obtain ⟨a6, B6, f6⟩ := B5.dropVelocities
  have A6 := A5.frame_other f6 (by rw [B5.cells_eq]; exact hdis')
  have A6' : ∀ H : Heap α, MolState H m1 v1
      ((ts1.map (fun t => { t with resname := "START" })).map (fun t => { t with resid := 1 }))
      (((cs1.map (fun c => ({ c with resname := "START" } : AtomGroC α))).map
          (fun c => ({ c with resid := 1 } : AtomGroC α))).map (fun c => ({ c with vel := none } : AtomGroC α))) →
      MolState H m1 v1 (ts1.map (stampT "START" 1)) (cs1.map (stamp "START" 1)) := by
    intro H hA
    have e1 : ts1.map (stampT "START" 1) =
        (ts1.map (fun t => { t with resname := "START" })).map (fun t => { t with resid := 1 }) := by
      rw [List.map_map]; rfl
    have e2 : cs1.map (stamp "START" 1) =
        ((cs1.map (fun c => ({ c with resname := "START" } : AtomGroC α))).map
          (fun c => ({ c with resid := 1 } : AtomGroC α))).map (fun c => ({ c with vel := none } : AtomGroC α)) := by
      rw [List.map_map, List.map_map]; rfl
    rw [e1, e2]; exact hA
  have B6' : ∀ H : Heap α, MolState H m2 v2
      ((ts2.map (fun t => { t with resname := "END" })).map (fun t => { t with resid := 2 }))
      (((cs2.map (fun c => ({ c with resname := "END" } : AtomGroC α))).map
          (fun c => ({ c with resid := 2 } : AtomGroC α))).map (fun c => ({ c with vel := none } : AtomGroC α))) →
      MolState H m2 v2 (ts2.map (stampT "END" 2)) (cs2.map (stamp "END" 2)) := by
    intro H hA
    have e1 : ts2.map (stampT "END" 2) =
        (ts2.map (fun t => { t with resname := "END" })).map (fun t => { t with resid := 2 }) := by
      rw [List.map_map]; rfl
    have e2 : cs2.map (stamp "END" 2) =
        ((cs2.map (fun c => ({ c with resname := "END" } : AtomGroC α))).map
          (fun c => ({ c with resid := 2 } : AtomGroC α))).map (fun c => ({ c with vel := none } : AtomGroC α)) := by
      rw [List.map_map, List.map_map]; rfl
    rw [e1, e2]; exact hA
  -- every cell written lies in one of the two molecules
  have w1 : ∀ a, a ∈ (Obj.mol m1).cells h → a ∈ (v1.gros ++ v1.tops) ++ (v2.gros ++ v2.tops) := by
    intro a ha; rw [S1.cells_eq] at ha; exact List.mem_append_left _ ha
  have g1 := f1.mono w1
  have g2 := (f2.mono (W' := (· ∈ (v1.gros ++ v1.tops) ++ (v2.gros ++ v2.tops)))
    (by intro a ha; rw [B1.cells_eq] at ha; exact List.mem_append_right _ ha))
  have g3 := (f3.mono (W' := (· ∈ (v1.gros ++ v1.tops) ++ (v2.gros ++ v2.tops)))
    (by intro a ha; rw [A2.cells_eq] at ha; exact List.mem_append_left _ ha))
  have g4 := (f4.mono (W' := (· ∈ (v1.gros ++ v1.tops) ++ (v2.gros ++ v2.tops)))
    (by intro a ha; rw [B3.cells_eq] at ha; exact List.mem_append_right _ ha))
  have g5 := (f5.mono (W' := (· ∈ (v1.gros ++ v1.tops) ++ (v2.gros ++ v2.tops)))
    (by intro a ha; rw [A4.cells_eq] at ha; exact List.mem_append_left _ ha))
  have g6 := (f6.mono (W' := (· ∈ (v1.gros ++ v1.tops) ++ (v2.gros ++ v2.tops)))
    (by intro a ha; rw [B5.cells_eq] at ha; exact List.mem_append_right _ ha))
  exact ⟨_, by
      simp only [Cmp.runAbort, Cmp.cmpSetters, step, Op.target, List.getElem?_cons_zero, List.getElem?_cons_succ,
        stepOn, writeOk, pushRet, a1, a2, a3, a4, a5, a6],
    A6' _ A6, B6' _ B6, _, ((((g1.trans' g2).trans' g3).trans' g4).trans' g5).trans' g6, fun a ha => ha⟩

end phase

/-! ### the file phase -/

/-- `rs` are the records `gro_line()` returns for the atoms `cs`, in order -/
def RecsOf (toDy : α → Option PyStr.Dy) : List (AtomGroC α) → List Gro.Rec → Prop
  | [], [] => True
  | c :: cs, r :: rs => Cmp.groRec toDy c = some r ∧ RecsOf toDy cs rs
  | _, _ => False

theorem RecsOf.length {toDy : α → Option PyStr.Dy} :
    ∀ {cs : List (AtomGroC α)} {rs : List Gro.Rec}, RecsOf toDy cs rs → rs.length = cs.length
  | [], [], _ => rfl
  | _ :: cs, _ :: rs, h => by simp [RecsOf.length (cs := cs) (rs := rs) h.2]
  | [], _ :: _, h => h.elim
  | _ :: _, [], h => h.elim

/-- iterating a molecule whose labels agree constructs every `Atom` without error: the loop writes exactly the
    records of its atoms -/
theorem writeAtoms_eq_writeRecs (toDy : α → Option PyStr.Dy) {h : Heap α} :
    ∀ (tops gros : List Nat) (ts : List AtomTopC) (cs : List (AtomGroC α)) (rs : List Gro.Rec) (w : Gro.WState),
      tops.length = gros.length → readTops h tops = some ts → readGros h gros = some cs → Agree ts cs →
      RecsOf toDy cs rs → Cmp.writeAtoms toDy h (tops.zip gros) w = Cmp.writeRecs rs w := by
  intro tops
  induction tops with
  | nil =>
    intro gros ts cs rs w hl _ hG _ hR
    have : gros = [] := by cases gros <;> simp_all
    subst this
    simp only [readGros, Option.some.injEq] at hG
    subst hG
    cases rs with
    | nil => rfl
    | cons r rs => exact hR.elim
  | cons t tops ih =>
    intro gros ts cs rs w hl hT hG hA hR
    cases gros with
    | nil => simp at hl
    | cons g gros =>
      obtain ⟨t0, ts', rfl, ht, hT'⟩ := readTops_cons_inv hT
      obtain ⟨c0, cs', rfl, hg, hG'⟩ := readGros_cons_inv hG
      cases rs with
      | nil => exact hR.elim
      | cons r rs =>
        simp only [List.length_cons, Nat.add_right_cancel_iff] at hl
        simp only [List.zip_cons_cons, Cmp.writeAtoms, matchErr_none_of_agree ht hg hA.1, hg, hR.1, Cmp.writeRecs]
        cases hs : Gro.step w (.writeLine r) with
        | mk w1 oe =>
          cases oe with
          | some e => rfl
          | none => exact ih gros ts' cs' rs w1 hl hT' hG' hA.2 hR.2

open Gro in
/-- a record list that the writer session takes without raising is written by the aborting loop just the same -/
theorem writeRecs_of_run : ∀ (rs : List Gro.Rec) (w : Gro.WState),
    (∀ e ∈ (Gro.run w (rs.map Gro.Op.writeLine)).2, e = none) →
    Cmp.writeRecs rs w = ((Gro.run w (rs.map Gro.Op.writeLine)).1, none)
  | [], w, _ => rfl
  | r :: rs, w, hok => by
    simp only [List.map_cons, Gro.run] at hok ⊢
    cases hs : Gro.step w (.writeLine r) with
    | mk w1 oe =>
      simp only [hs] at hok ⊢
      have h0 : oe = none := hok oe (by simp)
      subst h0
      simp only [Cmp.writeRecs, hs]
      exact writeRecs_of_run rs w1 (fun e he => hok e (by simp [he]))

/-- the `with` block on two molecules in the state the heap phase leaves them in: when the C13 writer session
    `writeline(r) for r in rs ++ re; close()` raises nowhere, the block leaves that session's file and returns
    normally -/
theorem writeBlock_eq_session (toDy : α → Option PyStr.Dy) {h : Heap α} {ds de : Nat} {vs ve : MolView}
    {ts te : List AtomTopC} {cs ce : List (AtomGroC α)} (Ss : MolState h ds vs ts cs) (Se : MolState h de ve te ce)
    (rs re : List Gro.Rec) (hrs : RecsOf toDy cs rs) (hre : RecsOf toDy ce re)
    (hok : ∀ e ∈ (Gro.run Gro.WState.init ((rs ++ re).map Gro.Op.writeLine ++ [Gro.Op.close])).2, e = none) :
    Cmp.writeBlock toDy h ds de =
      ((Gro.run Gro.WState.init ((rs ++ re).map Gro.Op.writeLine ++ [Gro.Op.close])).1, none) := by
  have hsplit : (rs ++ re).map Gro.Op.writeLine ++ [Gro.Op.close] =
      rs.map Gro.Op.writeLine ++ (re.map Gro.Op.writeLine ++ [Gro.Op.close]) := by
    rw [List.map_append, List.append_assoc]
  rw [hsplit] at hok ⊢
  rw [GroL.run_append] at hok ⊢
  have ok1 : ∀ e ∈ (Gro.run Gro.WState.init (rs.map Gro.Op.writeLine)).2, e = none :=
    fun e he => hok e (List.mem_append_left _ he)
  have ok23 : ∀ e ∈ (Gro.run (Gro.run Gro.WState.init (rs.map Gro.Op.writeLine)).1
      (re.map Gro.Op.writeLine ++ [Gro.Op.close])).2, e = none :=
    fun e he => hok e (List.mem_append_right _ he)
  rw [GroL.run_append] at ok23 ⊢
  have ok2 := fun e he => ok23 e (List.mem_append_left _ he)
  have ok3 := fun e he => ok23 e (List.mem_append_right _ he)
  have r1 := writeRecs_of_run rs Gro.WState.init ok1
  have r2 := writeRecs_of_run re _ ok2
  have a1 := writeAtoms_eq_writeRecs toDy vs.tops vs.gros ts cs rs Gro.WState.init Ss.wf.len Ss.tops Ss.wf.cells
    Ss.agree hrs
  unfold Cmp.writeBlock
  simp only [Ss.wf.view, Se.wf.view]
  rw [if_neg (by simp [Ss.wf.len, Se.wf.len])]
  simp only [a1, r1]
  rw [writeAtoms_eq_writeRecs toDy ve.tops ve.gros te ce re _ Se.wf.len Se.tops Se.wf.cells Se.agree hre, r2]
  -- close()
  simp only [Gro.run, Gro.step] at ok3 ⊢
  cases hc : Gro.closeOp (Gro.run (Gro.run Gro.WState.init (rs.map Gro.Op.writeLine)).1 (re.map Gro.Op.writeLine)).1 with
  | mk w3 oe =>
    simp only [hc] at ok3 ⊢
    have : oe = none := ok3 oe (by simp)
    subst this
    rfl

/-! ### the heap phase as a whole -/

section whole
variable [Scalar α]

theorem deepCopyMol_error_heap {h h1 : Heap α} {m : Nat} {e : PyErr}
    (hd : Cmp.deepCopyMol h m = (h1, .error e)) : h1 = h := by
  unfold Cmp.deepCopyMol at hd
  have key : (stepOn h (.mol m) (.deepCopy 0)).err ≠ none → (stepOn h (.mol m) (.deepCopy 0)).heap = h := by
    intro hne
    simp only [stepOn] at hne ⊢
    cases e1 : h.mol? m with
    | none => rfl
    | some p =>
      obtain ⟨t, rs, ea⟩ := p
      simp only [e1] at hne ⊢
      cases e0 : copyTop h t with
      | error er => rfl
      | ok q0 =>
        obtain ⟨h0, t'⟩ := q0
        simp only [e0] at hne ⊢
        cases e2 : molInit h0 t' rs with
        | error er => rfl
        | ok q =>
          obtain ⟨hh, a⟩ := q
          simp [e2, allocOk] at hne
  generalize hr : stepOn h (.mol m) (.deepCopy 0) = r at hd key
  obtain ⟨rh, rr, re⟩ := r
  cases re with
  | some e' =>
    have := key (by simp)
    cases rr with
    | none => simp only [Prod.mk.injEq] at hd; rw [← hd.1]; exact this
    | some o => cases o <;> (simp only [Prod.mk.injEq] at hd; rw [← hd.1]; exact this)
  | none =>
    cases rr with
    | none =>
      -- `ret = none ∧ err = none` does not occur for `deepCopy`; the model's answer is `internal` with the heap kept
      simp only [Prod.mk.injEq] at hd
      have hh : (stepOn h (.mol m) (.deepCopy 0)).heap = h ∨ (stepOn h (.mol m) (.deepCopy 0)).ret ≠ none := by
        simp only [stepOn]
        cases e1 : h.mol? m with
        | none => exact Or.inl rfl
        | some p =>
          obtain ⟨t, rs, ea⟩ := p
          simp only []
          cases e0 : copyTop h t with
          | error er => exact Or.inl rfl
          | ok q0 =>
            obtain ⟨h0, t'⟩ := q0
            simp only []
            cases e2 : molInit h0 t' rs with
            | error er => exact Or.inl rfl
            | ok q => exact Or.inr (by simp [allocOk])
      rw [hr] at hh
      rcases hh with hh | hh
      · rw [← hd.1]; exact hh
      · exact absurd rfl hh
    | some o =>
      cases o with
      | mol c => simp at hd
      | _ =>
        simp only [Prod.mk.injEq] at hd
        -- a `deepCopy` of a Molecule never returns another kind of object
        have hh : ∀ c', (stepOn h (.mol m) (.deepCopy 0)).ret = some c' → ∃ k, c' = .mol k := by
          intro c' hc'
          simp only [stepOn] at hc'
          cases e1 : h.mol? m with
          | none => simp [e1] at hc'
          | some p =>
            obtain ⟨t, rs, ea⟩ := p
            simp only [e1] at hc'
            cases e0 : copyTop h t with
            | error er => simp [e0] at hc'
            | ok q0 =>
              obtain ⟨h0, t'⟩ := q0
              simp only [e0] at hc'
              cases e2 : molInit h0 t' rs with
              | error er => simp [e2, allocOk] at hc'
              | ok q =>
                obtain ⟨hh, a⟩ := q
                simp only [e2, allocOk, Option.some.injEq] at hc'
                exact ⟨a, hc'.symm⟩
        rw [hr] at hh
        obtain ⟨k, hk⟩ := hh _ rfl
        cases hk

/-- SUCCESS of the heap phase, given that the two `deep_copy()` calls succeed: the six assignments never raise,
    and the two copies end in the stamped states; nothing that existed before is written -/
theorem comparativeCopies_ok {h h1 h2 : Heap α} {s e ds de : Nat} {vs ve : MolView} {ts te : List AtomTopC}
    {cs ce : List (AtomGroC α)} (Ss : MolState h s vs ts cs) (Se : MolState h e ve te ce)
    (d1 : Cmp.deepCopyMol h s = (h1, .ok ds)) (d2 : Cmp.deepCopyMol h1 e = (h2, .ok de)) :
    ∃ h3 vs' ve', Cmp.comparativeCopies h s e = (h3, .ok (ds, de)) ∧
      MolState h3 ds vs' (ts.map (stampT "START" 1)) (cs.map (stamp "START" 1)) ∧
      MolState h3 de ve' (te.map (stampT "END" 2)) (ce.map (stamp "END" 2)) ∧
      vs'.name = vs.name ∧ (∀ a, a < h.size → h3.get? a = h.get? a) := by
  obtain ⟨vs', S1, n1, fr1, F1⟩ := deepCopy_state Ss (deepCopyMol_ok d1)
  have Se1 : MolState h1 e ve te ce := Se.frame_other (F1 Rel.any) (fun _ _ w => w)
  obtain ⟨ve', S2, _, fr2, F2⟩ := deepCopy_state Se1 (deepCopyMol_ok d2)
  have S1' : MolState h2 ds vs' ts cs := S1.frame_other (F2 Rel.any) (fun _ _ w => w)
  have hdis : ∀ a ∈ ve'.gros ++ ve'.tops, a ∉ vs'.gros ++ vs'.tops := by
    intro a ha hb
    have := (fr2 a ha).1
    have := (fr1 a hb).2
    omega
  obtain ⟨h3, hrun, A, B, W, fW, hW⟩ := cmpSetters_spec S1' S2 hdis
  refine ⟨h3, vs', ve', ?_, A, B, n1, ?_⟩
  · unfold Cmp.comparativeCopies
    simp only [d1, d2, hrun]
  · intro a ha
    have hle1 := (F1 Rel.any).size_le
    have hle2 := (F2 Rel.any).size_le
    rw [fW.same a (by omega) ?_, (F2 Rel.any).same a (by omega) (fun w => w), (F1 Rel.any).same a ha (fun w => w)]
    intro hw
    rcases List.mem_append.mp (hW a hw) with hm | hm
    · have := (fr1 a hm).1; omega
    · have := (fr2 a hm).1; omega

/-- PURITY of the heap phase on every path (also when a `deep_copy()` raises): no cell that existed before
    the call is written -/
theorem comparativeCopies_pure {h : Heap α} {s e : Nat} {vs ve : MolView} {ts te : List AtomTopC}
    {cs ce : List (AtomGroC α)} (Ss : MolState h s vs ts cs) (Se : MolState h e ve te ce) :
    ∀ a, a < h.size → (Cmp.comparativeCopies h s e).1.get? a = h.get? a := by
  intro a ha
  cases d1 : Cmp.deepCopyMol h s with
  | mk h1 r1 =>
    cases r1 with
    | error err =>
      have := deepCopyMol_error_heap d1
      subst this
      unfold Cmp.comparativeCopies
      simp only [d1]
    | ok ds =>
      obtain ⟨vs', S1, n1, fr1, F1⟩ := deepCopy_state Ss (deepCopyMol_ok d1)
      cases d2 : Cmp.deepCopyMol h1 e with
      | mk h2 r2 =>
        cases r2 with
        | error err =>
          have := deepCopyMol_error_heap d2
          subst this
          unfold Cmp.comparativeCopies
          simp only [d1, d2]
          exact (F1 Rel.any).same a ha (fun w => w)
        | ok de =>
          obtain ⟨h3, _, _, hc, _, _, _, hp⟩ := comparativeCopies_ok Ss Se d1 d2
          rw [hc]
          exact hp a ha

end whole

/-! ### when `deep_copy()` succeeds -/

/-- every residue of the molecule holds atoms with ONE residue number and residue name — what `Residue.__init__`
    demands of the atoms it is given (`deep_copy` rebuilds every residue) -/
def UniformResidues (h : Heap α) (v : MolView) : Prop :=
  ∀ p ∈ v.parts, ∃ c, readGros h p = some c ∧ residueInitErr c = none

theorem readTops_length {h : Heap α} {gs : List Nat} {cs : List AtomTopC}
    (hr : readTops h gs = some cs) : cs.length = gs.length := by
  induction gs generalizing cs with
  | nil => simp [readTops] at hr; subst hr; rfl
  | cons g gs ih =>
    obtain ⟨t0, ts', rfl, _, hT'⟩ := readTops_cons_inv hr
    simp [ih hT']

theorem agree_all : ∀ {ts : List AtomTopC} {cs : List (AtomGroC α)}, Agree ts cs →
    (ts.zip cs).all (fun (t, g) => decide (g.resname = t.resname ∧ g.name = t.name)) = true
  | [], [], _ => rfl
  | t :: ts, c :: cs, h => by
    simp only [List.zip_cons_cons, List.all_cons, Bool.and_eq_true, decide_eq_true_eq]
    exact ⟨h.1, agree_all (ts := ts) (cs := cs) h.2⟩
  | [], _ :: _, h => h.elim
  | _ :: _, [], h => h.elim

theorem matchAll_of_agree {h : Heap α} {tops gros : List Nat} {ts : List AtomTopC} {cs : List (AtomGroC α)}
    (hT : readTops h tops = some ts) (hG : readGros h gros = some cs) (hA : Agree ts cs) :
    matchAll h tops gros = none := by
  unfold matchAll
  have hl : tops.length = gros.length := by
    rw [← readTops_length hT, ← readGros_length hG, hA.length]
  rw [if_neg (by simpa using hl)]
  simp only [hT, hG, agree_all hA, ↓reduceIte]

theorem copyResidues_succeeds : ∀ (rs : List Nat) (h : Heap α),
    (∀ r ∈ rs, ∃ gs c, h.res? r = some gs ∧ readGros h gs = some c ∧ residueInitErr c = none) →
    ∃ h1 as, copyResidues h rs = .ok (h1, as)
  | [], h, _ => ⟨h, [], rfl⟩
  | r :: rs, h, hall => by
    obtain ⟨gs, c, e1, e2, e3⟩ := hall r (List.mem_cons_self ..)
    have hc : ∃ h' a, copyResidue h r = .ok (h', a) := by
      unfold copyResidue
      simp only [e1, e2, e3]
      exact ⟨_, _, rfl⟩
    obtain ⟨h', a, hc⟩ := hc
    obtain ⟨_, _, _, _, n⟩ := copyResidue_spec hc
    have f := n.frame Rel.any
    obtain ⟨h1, as, hr⟩ := copyResidues_succeeds rs h' (by
      intro r' hr'
      obtain ⟨gs', c', a1, a2, a3⟩ := hall r' (List.mem_cons_of_mem _ hr')
      exact ⟨gs', c', f.res? a1, readGros_frame f a2 (fun _ _ w => w), a3⟩)
    exact ⟨h1, a :: as, by simp only [copyResidues, hc, hr]⟩

section succeeds
variable [Scalar α]

/-- `deep_copy()` of a molecule in a `MolState` whose residues are uniform never raises -/
theorem deepCopyMol_succeeds {h : Heap α} {m : Nat} {v : MolView} {ts : List AtomTopC} {cs : List (AtomGroC α)}
    (S : MolState h m v ts cs) (hu : UniformResidues h v) : ∃ h1 c, Cmp.deepCopyMol h m = (h1, .ok c) := by
  obtain ⟨hgf, hrr, e1, emt⟩ := molView_gros S.wf.view
  have hct : ∃ h0 t', copyTop h v.top = .ok (h0, t') := by
    unfold copyTop
    simp only [emt, S.tops]
    exact ⟨_, _, rfl⟩
  obtain ⟨h0, t', e0⟩ := hct
  obtain ⟨ft, _, name, tops, ts0, tops', g1, g2, g3, g4, _⟩ := copyTop_spec e0
  rw [emt] at g1
  injection g1 with g1
  injection g1 with n1 n2
  subst n1; subst n2
  rw [S.tops] at g2
  injection g2 with g2
  subst g2
  have hrr0 := (ft Rel.any).readRess hrr
  have hG0 : readGros h0 v.parts.flatten = some cs := by
    rw [← hgf]; exact readGros_frame (ft Rel.any) S.wf.cells (fun _ _ w => w)
  have hm0 := matchAll_of_agree g4 hG0 S.agree
  have hres : ∃ h1 as, copyResidues h0 v.residues = .ok (h1, as) := by
    apply copyResidues_succeeds
    intro r hr
    obtain ⟨k, hk⟩ := List.getElem?_of_mem hr
    obtain ⟨l, hl1, hl2⟩ := readRess_get hrr hk
    obtain ⟨c, hc1, hc2⟩ := hu l (List.mem_of_getElem? hl2)
    exact ⟨l, c, (ft Rel.any).res? hl1, readGros_frame (ft Rel.any) hc1 (fun _ _ w => w), hc2⟩
  obtain ⟨h1, as, hres⟩ := hres
  refine ⟨(h1.alloc (.mol t' as (eachOf 0 v.parts))).1, (h1.alloc (.mol t' as (eachOf 0 v.parts))).2, ?_⟩
  unfold Cmp.deepCopyMol
  simp only [stepOn, e1, e0, molInit, g3, hrr0, hm0, hres, allocOk]

end succeeds

end GMHeap
