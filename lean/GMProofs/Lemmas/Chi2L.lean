import GMProofs.Lemmas.Vec
import GMProofs.Lemmas.PbcL
import GMModel.Chi2
import Mathlib.Data.List.Basic
import Mathlib.Data.List.Perm.Basic
import Mathlib.Data.List.Nodup
import Mathlib.Data.List.Range
import Mathlib.Algebra.BigOperators.Group.List.Basic
import Mathlib.Algebra.Order.BigOperators.Group.List
/-
  GMProofs.Lemmas.Chi2L — the reference definition `chi2Spec` of C08 and the lemmas that tie the
  model of `Chi2Calculator` (`GMModel.Chi2`, at ℝ) to it.
-/

namespace Chi2L
open Chi2

/-! ### rows of the distance matrix: minimum and first position of the minimum -/

/-- minimum of a row (`0` for an empty row, never used: guarded by `mobile ≠ []`) -/
noncomputable def rowMinVal : List ℝ → ℝ
  | [] => 0
  | d :: ds => ds.foldl min d

/-- position of the FIRST entry equal to the minimum of the row -/
noncomputable def rowArgmin (row : List ℝ) : Nat :=
  row.findIdx (fun d => decide (d = rowMinVal row))

theorem foldl_min_le_init (ds : List ℝ) (b : ℝ) : ds.foldl min b ≤ b := by
  induction ds generalizing b with
  | nil => exact le_rfl
  | cons x xs ih => exact le_trans (ih (min b x)) (min_le_left b x)

theorem foldl_min_le_mem (ds : List ℝ) (b : ℝ) {x : ℝ} (hx : x ∈ ds) : ds.foldl min b ≤ x := by
  induction ds generalizing b with
  | nil => cases hx
  | cons y ys ih =>
    rcases List.mem_cons.mp hx with rfl | h
    · exact le_trans (foldl_min_le_init ys (min b x)) (min_le_right b x)
    · exact ih (min b y) h

theorem foldl_min_mem (ds : List ℝ) (b : ℝ) : ds.foldl min b = b ∨ ds.foldl min b ∈ ds := by
  induction ds generalizing b with
  | nil => left; rfl
  | cons y ys ih =>
    rcases ih (min b y) with h | h
    · rcases min_choice b y with hb | hy
      · left; simpa [hb] using h
      · right; rw [List.foldl_cons, h, hy]; exact List.mem_cons_self
    · right; exact List.mem_cons_of_mem _ h

theorem rowMinVal_le {row : List ℝ} {d : ℝ} (h : d ∈ row) : rowMinVal row ≤ d := by
  cases row with
  | nil => cases h
  | cons x xs =>
    rcases List.mem_cons.mp h with rfl | h'
    · exact foldl_min_le_init xs d
    · exact foldl_min_le_mem xs x h'

theorem rowMinVal_mem {row : List ℝ} (h : row ≠ []) : rowMinVal row ∈ row := by
  cases row with
  | nil => exact absurd rfl h
  | cons x xs =>
    rcases foldl_min_mem xs x with e | e
    · simp only [rowMinVal, e, List.mem_cons, true_or]
    · exact List.mem_cons_of_mem _ e

theorem rowArgmin_lt {row : List ℝ} (h : row ≠ []) : rowArgmin row < row.length := by
  unfold rowArgmin
  rw [List.findIdx_lt_length]
  exact ⟨rowMinVal row, rowMinVal_mem h, by simp⟩

theorem rowArgmin_get {row : List ℝ} (h : row ≠ []) :
    row[rowArgmin row]'(rowArgmin_lt h) = rowMinVal row := by
  have h1 : (fun d => decide (d = rowMinVal row)) (row[rowArgmin row]'(rowArgmin_lt h)) = true :=
    List.findIdx_getElem (w := rowArgmin_lt h)
  exact of_decide_eq_true h1

/-- every entry strictly before the argmin is strictly larger than the minimum -/
theorem lt_of_lt_rowArgmin {row : List ℝ} {k : Nat} (hk : k < rowArgmin row) (hk' : k < row.length) :
    rowMinVal row < row[k] := by
  have h1 : rowMinVal row ≤ row[k] := rowMinVal_le (List.getElem_mem hk')
  have h2 := List.not_of_lt_findIdx hk
  have h3 : row[k] ≠ rowMinVal row := by simpa using h2
  exact lt_of_le_of_ne h1 (Ne.symm h3)

/-- the scan of the model returns (minimum, first position of the minimum) -/
theorem rowMinAux_spec (ds : List ℝ) (best : ℝ) (bi i : Nat) :
    rowMinAux ds best bi i =
      (ds.foldl min best,
        if best = ds.foldl min best then bi
        else i + ds.findIdx (fun d => decide (d = ds.foldl min best))) := by
  induction ds generalizing best bi i with
  | nil => simp [rowMinAux]
  | cons x xs ih =>
    by_cases hx : x < best
    · have hm : min best x = x := min_eq_right hx.le
      simp only [rowMinAux, RS.lt_def, hx, decide_true, if_true, List.foldl_cons, hm]
      rw [ih]
      have hle : xs.foldl min x ≤ x := foldl_min_le_init xs x
      have hne : best ≠ xs.foldl min x := fun e => by rw [← e] at hle; exact absurd hx (not_lt.mpr hle)
      rw [if_neg hne, List.findIdx_cons]
      by_cases hx2 : x = xs.foldl min x
      · simp [← hx2]
      · simp [hx2]; omega
    · have hm : min best x = best := min_eq_left (not_lt.mp hx)
      simp only [rowMinAux, RS.lt_def, hx, decide_false, Bool.false_eq_true, if_false,
        List.foldl_cons, hm]
      rw [ih]
      by_cases hb : best = xs.foldl min best
      · rw [if_pos hb, if_pos hb]
      · have hlt : xs.foldl min best < best := lt_of_le_of_ne (foldl_min_le_init xs best) (Ne.symm hb)
        have hx2 : x ≠ xs.foldl min best := fun e => by rw [← e] at hlt; exact hx hlt
        rw [if_neg hb, if_neg hb, List.findIdx_cons]
        simp [hx2]; omega

theorem rowMinAux_row (d : ℝ) (ds : List ℝ) :
    rowMinAux ds d 0 1 = (rowMinVal (d :: ds), rowArgmin (d :: ds)) := by
  rw [rowMinAux_spec]
  unfold rowArgmin rowMinVal
  rw [List.findIdx_cons]
  by_cases h : d = ds.foldl min d
  · simp [← h]
  · simp [h]; omega


/-! ### the reference definition -/

/-- squared distance from `f` to its nearest mobile atom -/
noncomputable def dmin (f : V3 ℝ) (mobile : List (V3 ℝ)) : ℝ := rowMinVal (mobile.map (sqdist f))

/-- index of the (first) nearest mobile atom of `f` -/
noncomputable def nearestIdx (f : V3 ℝ) (mobile : List (V3 ℝ)) : Nat :=
  rowArgmin (mobile.map (sqdist f))

/-- the fixed atoms that occur in no restraint pair, in their order -/
def unrestrained (fixed : List (V3 ℝ)) (restr : List (Nat × Nat)) : List (V3 ℝ) :=
  (fixed.zipIdx.filter (fun p => !(restr.map Prod.fst).contains p.2)).map Prod.fst

/-- `Σ_{(i,j) ∈ restr} |f_i − m_j|²` (with multiplicity; indices in range, see `InRange`) -/
noncomputable def restrSum (fixed mobile : List (V3 ℝ)) (restr : List (Nat × Nat)) : ℝ :=
  (restr.map (fun p => sqdist (fixed.getD p.1 V3.zero) (mobile.getD p.2 V3.zero))).sum

/-- `Σ_{f unrestrained} min_j |f − m_j|²` -/
noncomputable def nearSum (fixed mobile : List (V3 ℝ)) (restr : List (Nat × Nat)) : ℝ :=
  ((unrestrained fixed restr).map (fun f => dmin f mobile)).sum

/-- `k` : the number of mobile atoms that are neither restrained (the `j` of some pair) nor the
    (first-)nearest atom of some unrestrained fixed atom -/
noncomputable def farCount (fixed mobile : List (V3 ℝ)) (restr : List (Nat × Nat)) : Nat :=
  ((List.range mobile.length).filter (fun j =>
      !(restr.map Prod.snd).contains j &&
      !((unrestrained fixed restr).map (fun f => nearestIdx f mobile)).contains j)).length

/-- **the property's definition of the overlap measure** -/
noncomputable def chi2Spec (fixed mobile : List (V3 ℝ)) (restr : List (Nat × Nat)) : ℝ :=
  (restrSum fixed mobile restr + nearSum fixed mobile restr) * (11 / 10 : ℝ) ^ farCount fixed mobile restr

/-- every restraint index designates an existing atom -/
def InRange (nFixed nMobile : Nat) (restr : List (Nat × Nat)) : Prop :=
  ∀ p ∈ restr, p.1 < nFixed ∧ p.2 < nMobile

/-! ### numpy indexing primitives -/

theorem gather_ok {β : Type} (d : β) (l : List β) (idx : List Nat) (h : ∀ i ∈ idx, i < l.length) :
    gather l idx = .ok (idx.map (fun i => l.getD i d)) := by
  induction idx with
  | nil => rfl
  | cons i is ih =>
    have hi : i < l.length := h i List.mem_cons_self
    have his : ∀ j ∈ is, j < l.length := fun j hj => h j (List.mem_cons_of_mem _ hj)
    simp only [gather, List.getElem?_eq_getElem hi, ih his, List.map_cons, List.getD_eq_getElem?_getD,
      Option.getD_some]

theorem maskClear_getElem? (mask : List Bool) (idx : List Nat) (i : Nat) :
    (maskClear mask idx)[i]? = (mask[i]?).map (fun b => b && !idx.contains i) := by
  induction idx generalizing mask with
  | nil => simp [maskClear]
  | cons j js ih =>
    have : maskClear mask (j :: js) = maskClear (mask.set j false) js := rfl
    rw [this, ih, List.getElem?_set]
    by_cases hji : j = i
    · subst hji
      by_cases hj : j < mask.length
      · simp [hj]
      · simp [hj]
    · cases h : mask[i]? with
      | none => simp [hji]
      | some b =>
        have : ¬ i = j := fun e => hji e.symm
        simp [hji, this]

theorem maskClear_ones (n : Nat) (idx : List Nat) :
    maskClear (List.replicate n true) idx = (List.range' 0 n).map (fun i => !idx.contains i) := by
  apply List.ext_getElem?
  intro i
  rw [maskClear_getElem?]
  by_cases hi : i < n
  · simp [hi]
  · simp [hi]

/-- boolean indexing with a mask given by a predicate on positions = filtering the indexed list -/
theorem boolIndex_pred {β : Type} (g : Nat → Bool) (l : List β) (k : Nat) :
    boolIndex l ((List.range' k l.length).map g) =
      ((l.zipIdx k).filter (fun p => g p.2)).map Prod.fst := by
  induction l generalizing k with
  | nil => rfl
  | cons a as ih =>
    have e : List.range' k (a :: as).length = k :: List.range' (k + 1) as.length := by
      simp [List.range'_succ]
    rw [e]
    simp only [List.map_cons, List.zipIdx_cons, List.filter_cons]
    have ih' := ih (k + 1)
    unfold boolIndex at ih' ⊢
    simp only [List.zip_cons_cons, List.filterMap_cons]
    cases hg : g k with
    | false => simpa using ih'
    | true => simpa using ih'

theorem boolIndex_isEmpty {β : Type} (l : List β) (mask : List Bool) (h : l.length = mask.length) :
    (boolIndex l mask).isEmpty = !mask.any id := by
  induction l generalizing mask with
  | nil =>
    cases mask with
    | nil => rfl
    | cons b bs => simp at h
  | cons a as ih =>
    cases mask with
    | nil => simp at h
    | cons b bs =>
      have h' : as.length = bs.length := by simpa using h
      have := ih bs h'
      unfold boolIndex at this ⊢
      cases b with
      | false => simpa using this
      | true => simp

theorem sumList_eq (l : List ℝ) : sumList l = l.sum := by
  unfold sumList
  have : ∀ a : ℝ, l.foldl (· + ·) a = a + l.sum := by
    induction l with
    | nil => intro a; simp
    | cons x xs ih => intro a; simp only [List.foldl_cons, List.sum_cons, ih]; ring
  simpa using this 0

theorem npow_eq (x : ℝ) (n : Nat) : Scalar.npow x n = x ^ n := by
  induction n with
  | zero => simp [Scalar.npow]
  | succ k ih => simp only [Scalar.npow, ih, RS.mul_def, pow_succ]

theorem penaltyBase_eq : (penaltyBase : ℝ) = 11 / 10 := by
  simp [penaltyBase]

theorem powInt_nat (k : Nat) : powInt (penaltyBase : ℝ) (k : Int) = (11 / 10 : ℝ) ^ k := by
  unfold powInt
  have : ¬ ((k : Int) < 0) := by omega
  simp only [this, if_false, Int.toNat_natCast, npow_eq, penaltyBase_eq]

theorem penalise_nat (c : ℝ) (k : Nat) : penalise c (k : Int) = c * (11 / 10 : ℝ) ^ k := by
  unfold penalise
  by_cases hk : k = 0
  · subst hk; simp
  · have : ((k : Int) == 0) = false := by simp [hk]
    simp only [this, Bool.false_eq_true, if_false, powInt_nat, RS.mul_def]


/-! ### Python sets of ints -/

theorem setAdd_mem (s : List Nat) (x y : Nat) : y ∈ setAdd s x ↔ y = x ∨ y ∈ s := by
  unfold setAdd
  by_cases h : s.contains x = true
  · rw [if_pos h]
    have hx : x ∈ s := by simpa using h
    constructor
    · exact Or.inr
    · rintro (rfl | h') <;> assumption
  · rw [if_neg h]; simp

theorem setAdd_nodup {s : List Nat} (h : s.Nodup) (x : Nat) : (setAdd s x).Nodup := by
  unfold setAdd
  by_cases hc : s.contains x = true
  · rw [if_pos hc]; exact h
  · rw [if_neg hc]
    have hx : x ∉ s := by simpa using hc
    exact List.nodup_cons.mpr ⟨hx, h⟩

theorem setUnion_mem (s xs : List Nat) (y : Nat) : y ∈ setUnion s xs ↔ y ∈ s ∨ y ∈ xs := by
  unfold setUnion
  induction xs generalizing s with
  | nil => simp
  | cons x xs ih =>
    rw [List.foldl_cons, ih, setAdd_mem, List.mem_cons]
    tauto

theorem setUnion_nodup {s : List Nat} (h : s.Nodup) (xs : List Nat) : (setUnion s xs).Nodup := by
  unfold setUnion
  induction xs generalizing s with
  | nil => exact h
  | cons x xs ih => rw [List.foldl_cons]; exact ih (setAdd_nodup h x)

/-- `n − |S|` counts the elements of `range n` outside `S` (`S` duplicate-free, inside the range) -/
theorem count_complement (S : List Nat) (n : Nat) (hnd : S.Nodup) (hlt : ∀ x ∈ S, x < n) :
    S.length + ((List.range n).filter (fun j => !S.contains j)).length = n := by
  have hperm : ((List.range n).filter (fun j => S.contains j)).Perm S := by
    rw [List.perm_ext_iff_of_nodup (List.nodup_range.filter _) hnd]
    intro a
    simp only [List.mem_filter, List.mem_range, List.contains_iff_mem]
    exact ⟨fun h => h.2, fun h => ⟨hlt a h, h⟩⟩
  have h1 := hperm.length_eq
  have h2 := List.length_eq_countP_add_countP (fun j => S.contains j) (l := List.range n)
  rw [List.countP_eq_length_filter, List.countP_eq_length_filter, List.length_range, h1] at h2
  have h3 : (List.range n).filter (fun j => !S.contains j) =
      (List.range n).filter (fun a => decide ¬(S.contains a = true)) := by
    apply List.filter_congr; intro x _; simp
  rw [h3]; omega

/-- the exponent the code computes is the `k` of the definition -/
theorem nCgFar_eq (r2 argmins : List Nat) (n : Nat) (h2 : ∀ x ∈ r2, x < n) (ha : ∀ x ∈ argmins, x < n) :
    (n : Int) - ((setUnion (setUnion [] r2) argmins).length : Int) =
      (((List.range n).filter (fun j => !r2.contains j && !argmins.contains j)).length : Int) := by
  have hnd : (setUnion (setUnion [] r2) argmins).Nodup :=
    setUnion_nodup (setUnion_nodup List.nodup_nil r2) argmins
  have hmem : ∀ y, y ∈ setUnion (setUnion [] r2) argmins ↔ y ∈ r2 ∨ y ∈ argmins := by
    intro y; rw [setUnion_mem, setUnion_mem]; simp
  have hlt : ∀ x ∈ setUnion (setUnion [] r2) argmins, x < n := by
    intro x hx; rcases (hmem x).mp hx with h | h
    · exact h2 x h
    · exact ha x h
  have hc := count_complement _ n hnd hlt
  have hf : (List.range n).filter (fun j => !(setUnion (setUnion [] r2) argmins).contains j) =
      (List.range n).filter (fun j => !r2.contains j && !argmins.contains j) := by
    apply List.filter_congr
    intro x _
    have := hmem x
    by_cases h : x ∈ setUnion (setUnion [] r2) argmins
    · rcases this.mp h with h' | h' <;> simp [h, h']
    · have h1 : x ∉ r2 := fun h' => h (this.mpr (Or.inl h'))
      have h2' : x ∉ argmins := fun h' => h (this.mpr (Or.inr h'))
      simp [h, h1, h2']
  rw [hf] at hc
  omega

/-! ### the two contributions -/

theorem nearest_eq (rows : List (V3 ℝ)) {mobile : List (V3 ℝ)} (h : mobile ≠ []) :
    nearest rows mobile = .ok (rows.map (fun f => (dmin f mobile, nearestIdx f mobile))) := by
  cases mobile with
  | nil => exact absurd rfl h
  | cons m ms =>
    show Except.ok (List.map (fun f => rowMinAux (List.map (sqdist f) ms) (sqdist f m) 0 1) rows) = _
    congr 1
    apply List.map_congr_left
    intro f _
    rw [rowMinAux_row]
    rfl

theorem nearestIdx_lt (f : V3 ℝ) {mobile : List (V3 ℝ)} (h : mobile ≠ []) :
    nearestIdx f mobile < mobile.length := by
  have : mobile.map (sqdist f) ≠ [] := fun e => h (List.map_eq_nil_iff.mp e)
  have := rowArgmin_lt this
  simpa [nearestIdx] using this

theorem restrContrib_eq (fixed mobile : List (V3 ℝ)) (restr : List (Nat × Nat))
    (h2 : ∀ p ∈ restr, p.2 < mobile.length) :
    restrContrib ((restr.map Prod.fst).map (fun i => fixed.getD i V3.zero)) (restr.map Prod.snd) mobile =
      .ok (restrSum fixed mobile restr) := by
  unfold restrContrib
  rw [gather_ok V3.zero mobile (restr.map Prod.snd) (by
    intro i hi
    obtain ⟨p, hp, rfl⟩ := List.mem_map.mp hi
    exact h2 p hp)]
  simp only
  congr 1
  rw [sumList_eq]
  unfold restrSum
  congr 1
  induction restr with
  | nil => rfl
  | cons p ps ih =>
    simp only [List.map_cons, List.zipWith_cons_cons]
    rw [ih (fun q hq => h2 q (List.mem_cons_of_mem _ hq))]

theorem unrestrained_nil (fixed : List (V3 ℝ)) : unrestrained fixed [] = fixed := by
  unfold unrestrained
  simp

theorem dmin_nonneg (f : V3 ℝ) (mobile : List (V3 ℝ)) : 0 ≤ dmin f mobile := by
  unfold dmin
  by_cases h : mobile = []
  · subst h; simp [rowMinVal]
  · have hne : mobile.map (sqdist f) ≠ [] := fun e => h (List.map_eq_nil_iff.mp e)
    obtain ⟨m, _, hm⟩ := List.mem_map.mp (rowMinVal_mem hne)
    rw [← hm]
    simp only [sqdist, gm]
    nlinarith [mul_self_nonneg (f.x - m.x), mul_self_nonneg (f.y - m.y), mul_self_nonneg (f.z - m.z)]

theorem sqdist_nonneg (a b : V3 ℝ) : 0 ≤ sqdist a b := by
  simp only [sqdist, gm]
  nlinarith [mul_self_nonneg (a.x - b.x), mul_self_nonneg (a.y - b.y), mul_self_nonneg (a.z - b.z)]

theorem chi2Spec_nonneg (fixed mobile : List (V3 ℝ)) (restr : List (Nat × Nat)) :
    0 ≤ chi2Spec fixed mobile restr := by
  unfold chi2Spec restrSum nearSum
  apply mul_nonneg
  · apply add_nonneg
    · apply List.sum_nonneg
      intro x hx
      obtain ⟨p, _, rfl⟩ := List.mem_map.mp hx
      exact sqdist_nonneg _ _
    · apply List.sum_nonneg
      intro x hx
      obtain ⟨f, _, rfl⟩ := List.mem_map.mp hx
      exact dmin_nonneg _ _
  · positivity


/-! ### construction and the three call paths -/

/-- the value the two nearest-neighbour paths compute, brought to the form of the definition -/
theorem finish_eq (fixed mobile : List (V3 ℝ)) (restr : List (Nat × Nat)) (hne : mobile ≠ [])
    (h2 : ∀ p ∈ restr, p.2 < mobile.length) :
    penalise (restrSum fixed mobile restr +
        sumList (((unrestrained fixed restr).map (fun f => (dmin f mobile, nearestIdx f mobile))).map Prod.fst))
      ((mobile.length : Int) -
        ((setUnion (setUnion [] (restr.map Prod.snd))
          (((unrestrained fixed restr).map (fun f => (dmin f mobile, nearestIdx f mobile))).map Prod.snd)).length : Int)) =
    chi2Spec fixed mobile restr := by
  rw [List.map_map, List.map_map, sumList_eq]
  rw [nCgFar_eq _ _ mobile.length
    (by intro x hx; obtain ⟨p, hp, rfl⟩ := List.mem_map.mp hx; exact h2 p hp)
    (by intro x hx; obtain ⟨f, _, rfl⟩ := List.mem_map.mp hx; exact nearestIdx_lt f hne)]
  rw [penalise_nat]
  rfl

theorem new_nil (fixed mobile0 : List (V3 ℝ)) : Calc.new fixed mobile0 [] = .ok (.plain fixed) := rfl

theorem new_cons (fixed mobile0 : List (V3 ℝ)) (restr : List (Nat × Nat)) (hne : restr ≠ [])
    (h1 : ∀ p ∈ restr, p.1 < fixed.length) :
    Calc.new fixed mobile0 restr = .ok (
      if (unrestrained fixed restr).isEmpty then
        .onlyRestr (restr.map Prod.snd) ((restr.map Prod.fst).map (fun i => fixed.getD i V3.zero))
          (powInt penaltyBase ((mobile0.length : Int) - ((setUnion [] (restr.map Prod.snd)).length : Int)))
      else
        .withRestr (restr.map Prod.snd) (setUnion [] (restr.map Prod.snd)) mobile0.length
          (unrestrained fixed restr) ((restr.map Prod.fst).map (fun i => fixed.getD i V3.zero))) := by
  have he : restr.isEmpty = false := by
    cases restr with
    | nil => exact absurd rfl hne
    | cons _ _ => rfl
  have hany : (restr.map Prod.fst).any (fun i => decide (fixed.length ≤ i)) = false := by
    rw [List.any_eq_false]
    intro i hi
    obtain ⟨p, hp, rfl⟩ := List.mem_map.mp hi
    have := (h1 p hp)
    simp only [decide_eq_true_eq]; omega
  have hg := gather_ok V3.zero fixed (restr.map Prod.fst) (by
    intro i hi
    obtain ⟨p, hp, rfl⟩ := List.mem_map.mp hi
    exact h1 p hp)
  have hmask : boolIndex fixed (maskClear (List.replicate fixed.length true) (restr.map Prod.fst)) =
      unrestrained fixed restr := by
    rw [maskClear_ones, boolIndex_pred]; rfl
  have hempty : (!(maskClear (List.replicate fixed.length true) (restr.map Prod.fst)).any id) =
      (unrestrained fixed restr).isEmpty := by
    rw [← hmask, boolIndex_isEmpty]
    rw [maskClear_ones]; simp
  unfold Calc.new
  simp only [he, Bool.false_eq_true, if_false, hany, hg, hmask, hempty]
  by_cases hu : (unrestrained fixed restr).isEmpty = true
  · simp only [hu, if_true]
  · simp only [hu, Bool.false_eq_true, if_false]

/-- path `chi2_molecules` -/
theorem call_plain (fixed mobile : List (V3 ℝ)) (hne : mobile ≠ []) :
    (Calc.plain fixed).call mobile = .ok (chi2Spec fixed mobile []) := by
  have h := finish_eq fixed mobile [] hne (by intro p hp; cases hp)
  rw [unrestrained_nil] at h
  have h0 : restrSum fixed mobile [] = 0 := by simp [restrSum]
  rw [h0, zero_add] at h
  simp only [Calc.call, nearest_eq fixed hne]
  rw [← h]
  rfl

/-- path `_chi2_molecules_with_restrains` -/
theorem call_withRestr (fixed mobile : List (V3 ℝ)) (restr : List (Nat × Nat)) (hne : mobile ≠ [])
    (h2 : ∀ p ∈ restr, p.2 < mobile.length) :
    (Calc.withRestr (restr.map Prod.snd) (setUnion [] (restr.map Prod.snd)) mobile.length
        (unrestrained fixed restr) ((restr.map Prod.fst).map (fun i => fixed.getD i V3.zero))).call mobile =
      .ok (chi2Spec fixed mobile restr) := by
  simp only [Calc.call, restrContrib_eq fixed mobile restr h2, nearest_eq _ hne]
  rw [← finish_eq fixed mobile restr hne h2]

/-- path `_chi2_molecules_only_restrains` -/
theorem call_onlyRestr (fixed mobile : List (V3 ℝ)) (restr : List (Nat × Nat)) (hne : mobile ≠ [])
    (h2 : ∀ p ∈ restr, p.2 < mobile.length) (hu : unrestrained fixed restr = []) :
    (Calc.onlyRestr (restr.map Prod.snd) ((restr.map Prod.fst).map (fun i => fixed.getD i V3.zero))
        (powInt penaltyBase ((mobile.length : Int) - ((setUnion [] (restr.map Prod.snd)).length : Int)))).call
        mobile =
      .ok (chi2Spec fixed mobile restr) := by
  have h := finish_eq fixed mobile restr hne h2
  rw [hu] at h
  simp only [List.map_nil] at h
  have hs : sumList ([] : List ℝ) = 0 := by simp [sumList]
  rw [hs, add_zero] at h
  have hk := nCgFar_eq (restr.map Prod.snd) [] mobile.length
    (by intro x hx; obtain ⟨p, hp, rfl⟩ := List.mem_map.mp hx; exact h2 p hp) (by intro x hx; cases hx)
  have hu' : setUnion (setUnion [] (restr.map Prod.snd)) [] = setUnion [] (restr.map Prod.snd) := rfl
  rw [hu'] at hk h
  rw [hk, penalise_nat] at h
  simp only [Calc.call, restrContrib_eq fixed mobile restr h2]
  rw [hk, powInt_nat, ← h]


/-! ### common rigid motion -/

/-- `R Rᵀ = 1 → Rᵀ R = 1` for 3×3 matrices (via the adjugate inverse) -/
theorem orth_comm {R : M3 ℝ} (h : M3.mul R (M3.transpose R) = M3.eye) :
    M3.mul (M3.transpose R) R = M3.eye := by
  have hdet : M3.det R ≠ 0 := by
    intro e
    have := PbcL.det_mul R (M3.transpose R)
    rw [h, PbcL.det_eye, e, zero_mul] at this
    exact one_ne_zero this
  have ht : M3.transpose R = PbcL.invR R := by
    calc M3.transpose R = M3.mul M3.eye (M3.transpose R) := (PbcL.eye_mul _).symm
      _ = M3.mul (M3.mul (PbcL.invR R) R) (M3.transpose R) := by rw [PbcL.invR_mul hdet]
      _ = M3.mul (PbcL.invR R) (M3.mul R (M3.transpose R)) := PbcL.mul_assoc3 _ _ _
      _ = M3.mul (PbcL.invR R) M3.eye := by rw [h]
      _ = PbcL.invR R := PbcL.mul_eye _
  rw [ht]; exact PbcL.invR_mul hdet

/-- the rigid motion `x ↦ R x + t` -/
noncomputable def rigid (R : M3 ℝ) (t : V3 ℝ) (x : V3 ℝ) : V3 ℝ := M3.mulVec R x + t

theorem sqdist_rigid {R : M3 ℝ} (h : M3.mul R (M3.transpose R) = M3.eye) (t a b : V3 ℝ) :
    sqdist (rigid R t a) (rigid R t b) = sqdist a b := by
  have h' := orth_comm h
  simp only [gm, M3.mk.injEq, V3.mk.injEq] at h'
  obtain ⟨⟨h00, h01, h02⟩, ⟨h10, h11, h12⟩, ⟨h20, h21, h22⟩⟩ := h'
  simp only [sqdist, rigid, gm]
  linear_combination (a.x - b.x) * (a.x - b.x) * h00 + (a.x - b.x) * (a.y - b.y) * h01 +
    (a.x - b.x) * (a.z - b.z) * h02 + (a.y - b.y) * (a.x - b.x) * h10 + (a.y - b.y) * (a.y - b.y) * h11 +
    (a.y - b.y) * (a.z - b.z) * h12 + (a.z - b.z) * (a.x - b.x) * h20 + (a.z - b.z) * (a.y - b.y) * h21 +
    (a.z - b.z) * (a.z - b.z) * h22

/-- a map preserving all squared distances -/
def Isometry (g : V3 ℝ → V3 ℝ) : Prop := ∀ a b, sqdist (g a) (g b) = sqdist a b

theorem row_isometry {g : V3 ℝ → V3 ℝ} (hg : Isometry g) (f : V3 ℝ) (mobile : List (V3 ℝ)) :
    (mobile.map g).map (sqdist (g f)) = mobile.map (sqdist f) := by
  rw [List.map_map]; apply List.map_congr_left; intro m _; exact hg f m

theorem unrestrained_map (g : V3 ℝ → V3 ℝ) (fixed : List (V3 ℝ)) (restr : List (Nat × Nat)) :
    unrestrained (fixed.map g) restr = (unrestrained fixed restr).map g := by
  unfold unrestrained
  rw [List.zipIdx_map, List.filter_map, List.map_map, List.map_map]
  rfl

theorem getD_map_of_lt {β γ : Type} (g : β → γ) (l : List β) (i : Nat) (d : β) (d' : γ) (h : i < l.length) :
    (l.map g).getD i d' = g (l.getD i d) := by
  simp [List.getD_eq_getElem?_getD, List.getElem?_eq_getElem h]

theorem chi2Spec_isometry {g : V3 ℝ → V3 ℝ} (hg : Isometry g) (fixed mobile : List (V3 ℝ))
    (restr : List (Nat × Nat)) (hr : InRange fixed.length mobile.length restr) :
    chi2Spec (fixed.map g) (mobile.map g) restr = chi2Spec fixed mobile restr := by
  have hd : ∀ f, dmin (g f) (mobile.map g) = dmin f mobile := fun f => by
    unfold dmin; rw [row_isometry hg]
  have hn : ∀ f, nearestIdx (g f) (mobile.map g) = nearestIdx f mobile := fun f => by
    unfold nearestIdx; rw [row_isometry hg]
  unfold chi2Spec
  congr 1
  · congr 1
    · unfold restrSum
      congr 1
      apply List.map_congr_left
      intro p hp
      obtain ⟨h1, h2⟩ := hr p hp
      rw [getD_map_of_lt g fixed p.1 V3.zero V3.zero h1, getD_map_of_lt g mobile p.2 V3.zero V3.zero h2]
      exact hg _ _
    · unfold nearSum
      rw [unrestrained_map, List.map_map]
      congr 1
      apply List.map_congr_left
      intro f _
      exact hd f
  · congr 1
    unfold farCount
    rw [unrestrained_map, List.map_map, List.length_map]
    congr 3
    funext j
    congr 3
    apply List.map_congr_left
    intro f _
    exact hn f


/-! ### relabelling -/

/-- `σ` is a permutation of `{0,…,n−1}` with inverse `τ` -/
structure IsPerm (n : Nat) (σ τ : Nat → Nat) : Prop where
  σ_lt : ∀ i, i < n → σ i < n
  τ_lt : ∀ j, j < n → τ j < n
  τσ : ∀ i, i < n → τ (σ i) = i
  στ : ∀ j, j < n → σ (τ j) = j

/-- the relabelled coordinate list: the atom with old label `i` gets label `σ i`, i.e. the new
    atom `j` is the old atom `τ j` -/
noncomputable def relabel (τ : Nat → Nat) (l : List (V3 ℝ)) : List (V3 ℝ) :=
  (List.range l.length).map (fun j => l.getD (τ j) V3.zero)

theorem relabel_length (τ : Nat → Nat) (l : List (V3 ℝ)) : (relabel τ l).length = l.length := by
  simp [relabel]

theorem relabel_getD {n : Nat} {σ τ : Nat → Nat} (l : List (V3 ℝ)) (h : IsPerm n σ τ) (hn : l.length = n)
    {i : Nat} (hi : i < n) : (relabel τ l).getD (σ i) V3.zero = l.getD i V3.zero := by
  have hs : σ i < (List.range l.length).length := by simpa [hn] using h.σ_lt i hi
  unfold relabel
  rw [List.getD_eq_getElem?_getD, List.getElem?_map, List.getElem?_eq_getElem hs]
  simp [h.τσ i hi]

theorem zipIdx_eq_map_range (l : List (V3 ℝ)) :
    l.zipIdx = (List.range l.length).map (fun i => (l.getD i V3.zero, i)) := by
  apply List.ext_getElem
  · simp
  · intro i h1 h2
    have hi : i < l.length := by simpa using h1
    simp [List.getD_eq_getElem?_getD, List.getElem?_eq_getElem hi]

theorem unrestrained_eq_range (fixed : List (V3 ℝ)) (restr : List (Nat × Nat)) :
    unrestrained fixed restr =
      ((List.range fixed.length).filter (fun i => !(restr.map Prod.fst).contains i)).map
        (fun i => fixed.getD i V3.zero) := by
  unfold unrestrained
  rw [zipIdx_eq_map_range, List.filter_map, List.map_map]
  rfl

theorem perm_filter_image {n : Nat} {σ τ : Nat → Nat} (h : IsPerm n σ τ) (A : List Nat)
    (hA : ∀ a ∈ A, a < n) :
    ((List.range n).filter (fun j => !(A.map σ).contains j)).Perm
      (((List.range n).filter (fun i => !A.contains i)).map σ) := by
  have hinj : ∀ a ∈ (List.range n).filter (fun i => !A.contains i),
      ∀ b ∈ (List.range n).filter (fun i => !A.contains i), σ a = σ b → a = b := by
    intro a ha b hb e
    have ha' : a < n := by simpa using (List.mem_filter.mp ha).1
    have hb' : b < n := by simpa using (List.mem_filter.mp hb).1
    rw [← h.τσ a ha', ← h.τσ b hb', e]
  rw [List.perm_ext_iff_of_nodup (List.nodup_range.filter _)
    ((List.nodup_range.filter _).map_on hinj)]
  intro j
  simp only [List.mem_filter, List.mem_range, List.mem_map, Bool.not_eq_eq_eq_not, Bool.not_true,
    List.contains_eq_mem, decide_eq_false_iff_not, not_exists, not_and]
  constructor
  · rintro ⟨hj, hnot⟩
    refine ⟨τ j, ⟨h.τ_lt j hj, ?_⟩, h.στ j hj⟩
    intro hmem
    exact hnot (τ j) hmem (h.στ j hj)
  · rintro ⟨i, ⟨hi, hiA⟩, rfl⟩
    refine ⟨h.σ_lt i hi, ?_⟩
    intro a haA e
    have : a = i := by rw [← h.τσ a (hA a haA), ← h.τσ i hi, e]
    exact hiA (this ▸ haA)

/-- relabelling the fixed atoms permutes the list of unrestrained fixed atoms -/
theorem unrestrained_relabel {σ τ : Nat → Nat} (fixed : List (V3 ℝ)) (restr : List (Nat × Nat))
    (h : IsPerm fixed.length σ τ) (h1 : ∀ p ∈ restr, p.1 < fixed.length) :
    (unrestrained (relabel τ fixed) (restr.map (fun p => (σ p.1, p.2)))).Perm (unrestrained fixed restr) := by
  rw [unrestrained_eq_range, unrestrained_eq_range, relabel_length]
  have e1 : (restr.map (fun p => (σ p.1, p.2))).map Prod.fst = (restr.map Prod.fst).map σ := by
    simp [List.map_map, Function.comp_def]
  rw [e1]
  have hA : ∀ a ∈ restr.map Prod.fst, a < fixed.length := by
    intro a ha; obtain ⟨p, hp, rfl⟩ := List.mem_map.mp ha; exact h1 p hp
  have hp := (perm_filter_image h (restr.map Prod.fst) hA).map
    (fun j => (relabel τ fixed).getD j V3.zero)
  refine hp.trans ?_
  rw [List.map_map]
  apply List.Perm.of_eq
  apply List.map_congr_left
  intro i hi
  have hi' : i < fixed.length := by simpa using (List.mem_filter.mp hi).1
  exact relabel_getD fixed h rfl hi'

theorem restrSum_relabel_fixed {σ τ : Nat → Nat} (fixed mobile : List (V3 ℝ)) (restr : List (Nat × Nat))
    (h : IsPerm fixed.length σ τ) (h1 : ∀ p ∈ restr, p.1 < fixed.length) :
    restrSum (relabel τ fixed) mobile (restr.map (fun p => (σ p.1, p.2))) = restrSum fixed mobile restr := by
  unfold restrSum
  rw [List.map_map]
  congr 1
  apply List.map_congr_left
  intro p hp
  simp only [Function.comp]
  rw [relabel_getD fixed h rfl (h1 p hp)]

theorem chi2Spec_relabel_fixed {σ τ : Nat → Nat} (fixed mobile : List (V3 ℝ)) (restr : List (Nat × Nat))
    (h : IsPerm fixed.length σ τ) (h1 : ∀ p ∈ restr, p.1 < fixed.length) :
    chi2Spec (relabel τ fixed) mobile (restr.map (fun p => (σ p.1, p.2))) = chi2Spec fixed mobile restr := by
  have hperm := unrestrained_relabel fixed restr h h1
  have e2 : (restr.map (fun p => (σ p.1, p.2))).map Prod.snd = restr.map Prod.snd := by
    simp [List.map_map, Function.comp_def]
  unfold chi2Spec
  congr 1
  · congr 1
    · exact restrSum_relabel_fixed fixed mobile restr h h1
    · unfold nearSum
      exact (hperm.map _).sum_eq
  · congr 1
    unfold farCount
    rw [e2]
    congr 1
    apply List.filter_congr
    intro j _
    congr 2
    have := (hperm.map (fun f => nearestIdx f mobile)).mem_iff (a := j)
    simp only [List.contains_eq_mem, decide_eq_decide]
    exact this


/-- the nearest mobile atom of `f` is unique (no two mobile atoms at the minimal distance) -/
def NoTies (f : V3 ℝ) (mobile : List (V3 ℝ)) : Prop :=
  ∀ j1 j2, j1 < mobile.length → j2 < mobile.length →
    sqdist f (mobile.getD j1 V3.zero) = dmin f mobile →
    sqdist f (mobile.getD j2 V3.zero) = dmin f mobile → j1 = j2

theorem rowMinVal_unique {row : List ℝ} {v : ℝ} (hm : v ∈ row) (hle : ∀ d ∈ row, v ≤ d) :
    rowMinVal row = v :=
  le_antisymm (rowMinVal_le hm) (hle _ (rowMinVal_mem (List.ne_nil_of_mem hm)))

theorem mem_relabel {n : Nat} {σ τ : Nat → Nat} (l : List (V3 ℝ)) (h : IsPerm n σ τ) (hn : l.length = n)
    (m : V3 ℝ) : m ∈ relabel τ l ↔ m ∈ l := by
  constructor
  · intro hm
    unfold relabel at hm
    obtain ⟨j, hj, rfl⟩ := List.mem_map.mp hm
    have hj' : j < n := by simpa [hn] using hj
    have ht : τ j < l.length := by rw [hn]; exact h.τ_lt j hj'
    rw [List.getD_eq_getElem?_getD, List.getElem?_eq_getElem ht]
    exact List.getElem_mem ht
  · intro hm
    obtain ⟨i, hi, rfl⟩ := List.getElem_of_mem hm
    have hi' : i < n := hn ▸ hi
    have e := relabel_getD l h hn hi'
    have hs : σ i < (relabel τ l).length := by rw [relabel_length, hn]; exact h.σ_lt i hi'
    rw [List.getD_eq_getElem?_getD, List.getElem?_eq_getElem hs, List.getD_eq_getElem?_getD,
      List.getElem?_eq_getElem hi] at e
    simp only [Option.getD_some] at e
    rw [← e]
    exact List.getElem_mem hs

theorem dmin_relabel {σ τ : Nat → Nat} (f : V3 ℝ) (mobile : List (V3 ℝ))
    (h : IsPerm mobile.length σ τ) : dmin f (relabel τ mobile) = dmin f mobile := by
  by_cases hne : mobile = []
  · subst hne; rfl
  · unfold dmin
    have hrow : mobile.map (sqdist f) ≠ [] := fun e => hne (List.map_eq_nil_iff.mp e)
    apply rowMinVal_unique
    · obtain ⟨m, hm, e⟩ := List.mem_map.mp (rowMinVal_mem hrow)
      rw [← e]
      exact List.mem_map.mpr ⟨m, (mem_relabel mobile h rfl m).mpr hm, rfl⟩
    · intro d hd
      obtain ⟨m, hm, rfl⟩ := List.mem_map.mp hd
      exact rowMinVal_le (List.mem_map.mpr ⟨m, (mem_relabel mobile h rfl m).mp hm, rfl⟩)

theorem nearest_get (f : V3 ℝ) {mobile : List (V3 ℝ)} (hne : mobile ≠ []) :
    sqdist f (mobile.getD (nearestIdx f mobile) V3.zero) = dmin f mobile := by
  have hrow : mobile.map (sqdist f) ≠ [] := fun e => hne (List.map_eq_nil_iff.mp e)
  have h := rowArgmin_get hrow
  have hlt := nearestIdx_lt f hne
  rw [List.getElem_map] at h
  rw [List.getD_eq_getElem?_getD, List.getElem?_eq_getElem hlt]
  exact h

theorem nearestIdx_relabel {σ τ : Nat → Nat} (f : V3 ℝ) {mobile : List (V3 ℝ)} (hne : mobile ≠ [])
    (h : IsPerm mobile.length σ τ) (hnt : NoTies f mobile) :
    nearestIdx f (relabel τ mobile) = σ (nearestIdx f mobile) := by
  have hne' : relabel τ mobile ≠ [] := by
    intro e; apply hne
    have := congrArg List.length e
    rw [relabel_length] at this
    exact List.length_eq_zero_iff.mp this
  have hj' : nearestIdx f (relabel τ mobile) < mobile.length := by
    have := nearestIdx_lt f hne'; rwa [relabel_length] at this
  have h1 := nearest_get f hne'
  rw [dmin_relabel f mobile h] at h1
  have hget : (relabel τ mobile).getD (nearestIdx f (relabel τ mobile)) V3.zero =
      mobile.getD (τ (nearestIdx f (relabel τ mobile))) V3.zero := by
    have := relabel_getD mobile h rfl (h.τ_lt _ hj')
    rw [h.στ _ hj'] at this
    exact this
  rw [hget] at h1
  have h2 := nearest_get f hne
  have := hnt _ _ (h.τ_lt _ hj') (nearestIdx_lt f hne) h1 h2
  rw [← this, h.στ _ hj']

theorem not_contains_append (A B : List Nat) (j : Nat) :
    (!(A ++ B).contains j) = (!A.contains j && !B.contains j) := by
  by_cases h1 : j ∈ A <;> by_cases h2 : j ∈ B <;> simp [h1, h2]

theorem chi2Spec_relabel_mobile {σ τ : Nat → Nat} (fixed mobile : List (V3 ℝ)) (restr : List (Nat × Nat))
    (hne : mobile ≠ []) (h : IsPerm mobile.length σ τ) (h2 : ∀ p ∈ restr, p.2 < mobile.length)
    (hnt : ∀ f ∈ unrestrained fixed restr, NoTies f mobile) :
    chi2Spec fixed (relabel τ mobile) (restr.map (fun p => (p.1, σ p.2))) = chi2Spec fixed mobile restr := by
  have e1 : (restr.map (fun p => (p.1, σ p.2))).map Prod.fst = restr.map Prod.fst := by
    simp [List.map_map, Function.comp_def]
  have e2 : (restr.map (fun p => (p.1, σ p.2))).map Prod.snd = (restr.map Prod.snd).map σ := by
    simp [List.map_map, Function.comp_def]
  have hu : unrestrained fixed (restr.map (fun p => (p.1, σ p.2))) = unrestrained fixed restr := by
    unfold unrestrained; rw [e1]
  unfold chi2Spec
  congr 1
  · congr 1
    · unfold restrSum
      rw [List.map_map]
      congr 1
      apply List.map_congr_left
      intro p hp
      simp only [Function.comp]
      rw [relabel_getD mobile h rfl (h2 p hp)]
    · unfold nearSum
      rw [hu]
      congr 1
      apply List.map_congr_left
      intro f _
      exact dmin_relabel f mobile h
  · congr 1
    unfold farCount
    rw [hu, e2, relabel_length]
    have hargs : (unrestrained fixed restr).map (fun f => nearestIdx f (relabel τ mobile)) =
        ((unrestrained fixed restr).map (fun f => nearestIdx f mobile)).map σ := by
      rw [List.map_map]
      apply List.map_congr_left
      intro f hf
      exact nearestIdx_relabel f hne h (hnt f hf)
    rw [hargs]
    set A := restr.map Prod.snd ++ (unrestrained fixed restr).map (fun f => nearestIdx f mobile) with hA
    have hAlt : ∀ a ∈ A, a < mobile.length := by
      intro a ha
      rcases List.mem_append.mp ha with ha | ha
      · obtain ⟨p, hp, rfl⟩ := List.mem_map.mp ha; exact h2 p hp
      · obtain ⟨f, _, rfl⟩ := List.mem_map.mp ha; exact nearestIdx_lt f hne
    have hl := (perm_filter_image h A hAlt).length_eq
    rw [List.length_map] at hl
    have c1 : (List.range mobile.length).filter (fun j =>
          !((restr.map Prod.snd).map σ).contains j &&
          !(((unrestrained fixed restr).map (fun f => nearestIdx f mobile)).map σ).contains j) =
        (List.range mobile.length).filter (fun j => !(A.map σ).contains j) := by
      apply List.filter_congr
      intro j _
      rw [hA, List.map_append, not_contains_append]
    have c2 : (List.range mobile.length).filter (fun j =>
          !(restr.map Prod.snd).contains j &&
          !((unrestrained fixed restr).map (fun f => nearestIdx f mobile)).contains j) =
        (List.range mobile.length).filter (fun j => !A.contains j) := by
      apply List.filter_congr
      intro j _
      rw [hA, not_contains_append]
    rw [c1, c2, hl]

end Chi2L
