import GMProofs.Lemmas.GroL
/-
  Truncated `.gro` texts: the reader on `F.take k`. Generic in the numeric parsers. (core Lean only)
-/
open PyStr PyStrL Gro

namespace GroL

/-- what a successful `_load_and_verify` has established (`T`, `C`, `F` = the first three lines read) -/
theorem loadAndVerify_inv {P : Parsers} {bs : List Nat} {st : RState} {T C F : List Nat}
    (hT : readLine bs 0 = T) (hC : readLine bs T.length = C) (hF : readLine bs (T.length + C.length) = F)
    (h : loadAndVerify P bs = .ok st) :
    T ≠ [] ∧
    ∃ (n : Int) (fmt : Nat × Int × Bool),
      P.pyInt C = .ok n ∧ P.detFormat F = .ok fmt ∧
      0 ≤ ((T.length + C.length : Nat) : Int) + n * ((F.length : Nat) : Int) ∧
      readLine bs (((T.length + C.length : Nat) : Int) + n * ((F.length : Nat) : Int)).toNat ≠ [] ∧
      st.title = T ∧ st.natoms = n ∧ st.initPos = T.length + C.length ∧ st.fmt = fmt := by
  unfold loadAndVerify at h
  simp only [bind, Except.bind, pure, Except.pure, hT, hC, hF] at h
  split at h
  · first | (cases h; done) | (simp [throw, throwThe, MonadExceptOf.throw] at h; done)
  · rename_i ht
    refine ⟨by intro e; rw [e] at ht; simp at ht, ?_⟩
    try simp only at h
    cases hn : P.pyInt C with
    | error e => rw [hn] at h; cases e <;> simp [valueToIO] at h
    | ok n =>
      rw [hn] at h
      simp only [valueToIO] at h
      cases hf : P.detFormat F with
      | error e => rw [hf] at h; simp at h
      | ok fmt =>
        rw [hf] at h
        try simp only at h
        refine ⟨n, fmt, rfl, rfl, ?_⟩
        split at h
        · first | (cases h; done) | (simp [throw, throwThe, MonadExceptOf.throw] at h; done)
        · rename_i hneg
          refine ⟨by omega, ?_⟩
          try simp only at h
          split at h
          · first | (cases h; done) | (simp [throw, throwThe, MonadExceptOf.throw] at h; done)
          · rename_i hl
            refine ⟨by intro e; rw [e] at hl; simp at hl, ?_⟩
            try simp only at h
            split at h
            · cases h
            · rename_i box hx
              try simp only at h
              split at h
              · first | (cases h; done) | (simp [throw, throwThe, MonadExceptOf.throw] at h; done)
              · simp only [Except.ok.injEq] at h
                subst h
                exact ⟨rfl, rfl, rfl, rfl⟩

theorem take_length_le (l : List Nat) (k : Nat) : (l.take k).length ≤ k := by
  rw [List.length_take]; omega

/-- **every byte prefix that ends at or before the lattice line is rejected when opened** -/
theorem prefix_before_box (P : Parsers) (title count lattice : List Nat) (lines : List (List Nat)) (L : Nat)
    (h : PreOk P title count lines L) (hdet : ∀ v, P.detFormat [] ≠ .ok v)
    (k : Nat) (hk : k ≤ boxOffset title count lines.length L) :
    ∀ st, loadAndVerify P ((groBytes title count lines lattice).take k) ≠ .ok st := by
  intro st hst
  obtain ⟨l0, ls, hl⟩ : ∃ l0 ls, lines = l0 :: ls := by
    cases hlines : lines with
    | nil => exact absurd hlines h.hne
    | cons a b => exact ⟨a, b, rfl⟩
  have hl0L : l0.length = L := h.len l0 (by simp [hl])
  have hN1 : 1 ≤ lines.length := by rw [hl]; simp
  obtain ⟨hT, n, fmt, hn, hf, hpos, hline, -, -, -, -⟩ := loadAndVerify_inv rfl rfl rfl hst
  unfold groBytes at hn hf hpos hline hT
  -- reads of the truncated text are truncated reads of the full text
  simp only [readLine_take, read_title h, Nat.sub_zero] at hn hf hpos hline hT
  have ht1 : (title ++ [nl]).length = title.length + 1 := by simp
  have hc1 : (count ++ [nl]).length = count.length + 1 := by simp
  have hGlen : ((groPre title count lines ++ (lattice ++ [nl])).take k).length ≤ k := take_length_le _ _
  by_cases hk1 : k ≤ title.length + 1
  · -- the cut is in the title line: nothing follows it
    have e1 : ((title ++ [nl]).take k).length = k := by rw [List.length_take, ht1]; omega
    rw [e1, Nat.sub_self, List.take_zero, List.length_nil, Nat.add_zero, Nat.sub_self, List.take_zero] at hf
    exact hdet _ hf
  · have e1 : (title ++ [nl]).take k = title ++ [nl] := List.take_of_length_le (by rw [ht1]; omega)
    rw [e1, read_count h] at hn hf hpos hline
    by_cases hk2 : k ≤ initOf title count
    · -- the cut is in the count line: nothing follows it
      have e2 : ((count ++ [nl]).take (k - (title ++ [nl]).length)).length = k - (title.length + 1) := by
        rw [List.length_take, ht1, hc1]; unfold initOf at hk2; omega
      rw [e2, ht1] at hf
      have e3 : title.length + 1 + (k - (title.length + 1)) = k := by omega
      rw [e3, Nat.sub_self, List.take_zero] at hf
      exact hdet _ hf
    · -- the count line is complete: the count is `lines.length`; the cut is in the atom block
      unfold initOf at hk2
      have e2 : (count ++ [nl]).take (k - (title ++ [nl]).length) = count ++ [nl] :=
        List.take_of_length_le (by rw [ht1, hc1]; omega)
      rw [e2] at hn hf hpos hline
      rw [h.hnatoms] at hn
      cases hn
      rw [read_first h _ l0 ls hl] at hf hpos hline
      rw [toNat_lin] at hline
      apply hline
      have hsz : ((l0 ++ [nl]).take (k - ((title ++ [nl]).length + (count ++ [nl]).length))).length
          = min (k - (title.length + 1 + (count.length + 1))) (L + 1) := by
        rw [List.length_take, ht1, hc1]; simp [hl0L]
      have hge : k ≤ (title ++ [nl]).length + (count ++ [nl]).length + lines.length *
          ((l0 ++ [nl]).take (k - ((title ++ [nl]).length + (count ++ [nl]).length))).length := by
        rw [hsz, ht1, hc1]
        unfold boxOffset initOf at hk
        by_cases hfull : L + 1 ≤ k - (title.length + 1 + (count.length + 1))
        · rw [Nat.min_eq_right hfull]; exact hk
        · rw [Nat.min_eq_left (by omega)]
          have : 1 * (k - (title.length + 1 + (count.length + 1)))
              ≤ lines.length * (k - (title.length + 1 + (count.length + 1))) := Nat.mul_le_mul_right _ hN1
          omega
      rw [Nat.sub_eq_zero_of_le hge, List.take_zero]

/-- whatever follows the atom block, an accepted text yields the records of its atom block -/
theorem groRead_pre_inv (P : Parsers) (title count tail : List Nat) (lines : List (List Nat)) (L : Nat)
    (l0 : List Nat) (ls : List (List Nat)) (h : PreOk P title count lines L) (hl : lines = l0 :: ls)
    (d : GroData) (hd : groRead P (groPre title count lines ++ tail) = .ok d) :
    ∃ fmt, P.detFormat (l0 ++ [nl]) = .ok fmt ∧
      lines.mapM (fun l => parseAtomline P fmt (l ++ [nl])) = .ok d.recs ∧ d.title = title ++ [nl] := by
  unfold groRead at hd
  cases hlv : loadAndVerify P (groPre title count lines ++ tail) with
  | error e => rw [hlv] at hd; simp [bind, Except.bind] at hd
  | ok st =>
    rw [hlv] at hd
    obtain ⟨-, n, fmt, hn, hf, -, -, htitle, hnat, hinit, hfmt⟩ :=
      loadAndVerify_inv (read_title h tail) (read_count h tail) (read_first h tail l0 ls hl) hlv
    rw [h.hnatoms] at hn
    cases hn
    refine ⟨fmt, hf, ?_, ?_⟩
    · simp only [bind, Except.bind, pure, Except.pure] at hd
      rw [hnat, hinit, hfmt, Int.toNat_natCast] at hd
      have e : (title ++ [nl]).length + (count ++ [nl]).length = initOf title count := by
        simp only [initOf, List.length_append, List.length_cons, List.length_nil]
      rw [e, readRecords_pre P fmt title count tail lines L h] at hd
      cases hm : lines.mapM (fun l => parseAtomline P fmt (l ++ [nl])) with
      | error e => rw [hm] at hd; simp at hd
      | ok recs =>
        rw [hm] at hd
        simp only [Except.ok.injEq] at hd
        rw [← hd]
    · simp only [bind, Except.bind, pure, Except.pure] at hd
      split at hd
      · cases hd
      · simp only [Except.ok.injEq] at hd
        rw [← hd]; exact htitle

/-- a truncation after the start of the lattice line keeps the whole part before it -/
theorem take_after_box (title count lattice : List Nat) (lines : List (List Nat)) (L : Nat)
    (hL : ∀ l ∈ lines, l.length = L) (k : Nat) (hk : boxOffset title count lines.length L ≤ k) :
    (groBytes title count lines lattice).take k
      = groPre title count lines ++ (lattice ++ [nl]).take (k - boxOffset title count lines.length L) := by
  unfold groBytes
  rw [List.take_append, groPre_length _ _ _ L hL, List.take_of_length_le (by rw [groPre_length _ _ _ L hL]; exact hk)]

end GroL
