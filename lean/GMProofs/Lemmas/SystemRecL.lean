import GMModel.SystemRec
import GMProofs.Lemmas.SysGroL
/-
  GMProofs.Lemmas.SystemRecL — lemmas about the recognition model `SRec` (C11).  Core Lean only.
-/

namespace SRec
open SGro

/-! ### A. `findAll` (`_find_all_molecules_and_replace`) on raw streams -/

/-- prepend an untouched prefix to the result of a scan -/
def liftPre (pre : List Int) : Except PyErr (List Int × List Entry) → Except PyErr (List Int × List Entry)
  | .ok (r, o) => .ok (pre ++ r, o)
  | .error e => .error e

theorem findAll_succ (p : List Int) (m fuel start : Nat) (suffix : List Int) (nb : Bool) (ord : List Entry) :
    findAll p m (fuel + 1) start suffix nb ord =
      if p.length ≤ suffix.length then
        if suffix.take p.length = p then
          match (if nb then .ok (ord ++ [(m, start, 1)]) else bumpLast ord) with
          | .error e => .error e
          | .ok ord' =>
            match findAll p m fuel (start + p.length) (suffix.drop p.length) false ord' with
            | .error e => .error e
            | .ok (s', o') => .ok (List.replicate p.length (-1) ++ s', o')
        else
          match suffix with
          | [] => .ok ([], ord)
          | x :: xs =>
            match findAll p m fuel (start + 1) xs true ord with
            | .error e => .error e
            | .ok (s', o') => .ok (x :: s', o')
      else .ok (suffix, ord) := by
  rfl

theorem take_ne_of_head_ne {p : List Int} {p0 : Int} {pt : List Int} (hp : p = p0 :: pt)
    (x : Int) (xs : List Int) (hx : x ≠ p0) : (x :: xs).take p.length ≠ p := by
  subst hp
  simp only [List.length_cons, List.take_succ_cons, ne_eq, List.cons.injEq, not_and]
  intro h; exact absurd h hx

/-- a prefix none of whose elements is the first kind of the pattern is stepped over one element at a
    time; nothing is recorded, `new_block` becomes true -/
theorem findAll_skip (p : List Int) (m : Nat) (p0 : Int) (pt : List Int) (hp : p = p0 :: pt) :
    ∀ (pre : List Int) (fuel start : Nat) (rest : List Int) (nb : Bool) (ord : List Entry),
      (∀ x ∈ pre, x ≠ p0) → (pre ++ rest).length < fuel →
      findAll p m fuel start (pre ++ rest) nb ord =
        liftPre pre (findAll p m (fuel - pre.length) (start + pre.length) rest (nb || !pre.isEmpty) ord)
  | [], fuel, start, rest, nb, ord, _, _ => by
    cases h : findAll p m fuel start rest nb ord with
    | error e => simp [liftPre, h]
    | ok r => obtain ⟨a, b⟩ := r; simp [liftPre, h]
  | x :: pre, fuel, start, rest, nb, ord, hx, hf => by
    obtain ⟨fuel', rfl⟩ : ∃ f, fuel = f + 1 := ⟨fuel - 1, by simp at hf; omega⟩
    have hne : ((x :: pre) ++ rest).take p.length ≠ p :=
      take_ne_of_head_ne hp x (pre ++ rest) (hx x (by simp))
    rw [findAll_succ]
    by_cases hl : p.length ≤ ((x :: pre) ++ rest).length
    · rw [if_pos hl, if_neg hne]
      simp only [List.cons_append]
      rw [findAll_skip p m p0 pt hp pre fuel' (start + 1) rest true ord
        (fun y hy => hx y (by simp [hy])) (by simp at hf ⊢; omega)]
      have e1 : fuel' + 1 - (x :: pre).length = fuel' - pre.length := by simp
      have e2 : start + (x :: pre).length = start + 1 + pre.length := by simp; omega
      rw [e1, e2]
      simp only [Bool.true_or, List.isEmpty_cons, Bool.not_false, Bool.or_true]
      cases findAll p m (fuel' - pre.length) (start + 1 + pre.length) rest true ord with
      | error e => rfl
      | ok r => obtain ⟨a, b⟩ := r; rfl
    · rw [if_neg hl]
      -- the loop has ended: the rest is shorter still, so the continuation returns it unchanged
      have hl' : ¬ p.length ≤ rest.length := by simp at hl ⊢; omega
      have hfu : fuel' + 1 - (x :: pre).length = (fuel' - (x :: pre).length) + 1 := by
        simp at hf ⊢; omega
      rw [hfu, findAll_succ, if_neg hl']
      simp [liftPre]

/-- any fuel above the suffix length gives the same result (for a non-empty pattern) -/
theorem findAll_fuel (p : List Int) (m : Nat) (hp : p ≠ []) :
    ∀ (f1 f2 start : Nat) (suffix : List Int) (nb : Bool) (ord : List Entry),
      suffix.length < f1 → suffix.length < f2 →
      findAll p m f1 start suffix nb ord = findAll p m f2 start suffix nb ord
  | 0, _, _, _, _, _, h, _ => by omega
  | _, 0, _, _, _, _, _, h => by omega
  | f1 + 1, f2 + 1, start, suffix, nb, ord, h1, h2 => by
    have hL : 0 < p.length := List.length_pos_iff.mpr hp
    rw [findAll_succ, findAll_succ]
    by_cases hl : p.length ≤ suffix.length
    · rw [if_pos hl, if_pos hl]
      by_cases hm : suffix.take p.length = p
      · rw [if_pos hm, if_pos hm]
        cases (if nb then (Except.ok (ord ++ [(m, start, 1)]) : Except PyErr (List Entry)) else bumpLast ord) with
        | error e => rfl
        | ok ord' =>
          simp only
          rw [findAll_fuel p m hp f1 f2 (start + p.length) (suffix.drop p.length) false ord'
            (by simp; omega) (by simp; omega)]
      · rw [if_neg hm, if_neg hm]
        cases suffix with
        | nil => rfl
        | cons x xs =>
          simp only
          rw [findAll_fuel p m hp f1 f2 (start + 1) xs true ord (by simp at h1; omega) (by simp at h2; omega)]
    · rw [if_neg hl, if_neg hl]

/-- the scan with the canonical fuel -/
def findAllC (p : List Int) (m start : Nat) (suffix : List Int) (nb : Bool) (ord : List Entry) :=
  findAll p m (suffix.length + 1) start suffix nb ord

theorem findAll_eq_C (p : List Int) (m : Nat) (hp : p ≠ []) (fuel start : Nat) (suffix : List Int) (nb : Bool)
    (ord : List Entry) (h : suffix.length < fuel) :
    findAll p m fuel start suffix nb ord = findAllC p m start suffix nb ord :=
  findAll_fuel p m hp _ _ _ _ _ _ h (Nat.lt_succ_self _)

theorem liftPre_nil (x : Except PyErr (List Int × List Entry)) : liftPre [] x = x := by
  cases x with
  | error e => rfl
  | ok r => obtain ⟨a, b⟩ := r; simp [liftPre]

theorem liftPre_append (a b : List Int) (x : Except PyErr (List Int × List Entry)) :
    liftPre a (liftPre b x) = liftPre (a ++ b) x := by
  cases x with
  | error e => rfl
  | ok r => obtain ⟨c, d⟩ := r; simp [liftPre]

theorem findAllC_skip (p : List Int) (m : Nat) (p0 : Int) (pt : List Int) (hp : p = p0 :: pt)
    (pre : List Int) (start : Nat) (rest : List Int) (nb : Bool) (ord : List Entry)
    (hx : ∀ x ∈ pre, x ≠ p0) :
    findAllC p m start (pre ++ rest) nb ord =
      liftPre pre (findAllC p m (start + pre.length) rest (nb || !pre.isEmpty) ord) := by
  have hne : p ≠ [] := by rw [hp]; simp
  unfold findAllC
  rw [findAll_skip p m p0 pt hp pre _ start rest nb ord hx (Nat.lt_succ_self _)]
  rw [findAll_fuel p m hne _ (rest.length + 1) _ _ _ _ (by simp; omega) (Nat.lt_succ_self _)]

theorem bumpLast_concat (ord : List Entry) (m st a : Nat) :
    bumpLast (ord ++ [(m, st, a)]) = .ok (ord ++ [(m, st, a + 1)]) := by
  unfold bumpLast
  simp

/-- one window that is the pattern: marked, recorded, jumped over -/
theorem findAllC_match (p : List Int) (m : Nat) (hp : p ≠ []) (start : Nat) (rest : List Int) (nb : Bool)
    (ord ord' : List Entry)
    (hord : (if nb then (Except.ok (ord ++ [(m, start, 1)]) : Except PyErr (List Entry)) else bumpLast ord) = .ok ord') :
    findAllC p m start (p ++ rest) nb ord =
      liftPre (List.replicate p.length (-1)) (findAllC p m (start + p.length) rest false ord') := by
  have hL : 0 < p.length := List.length_pos_iff.mpr hp
  unfold findAllC
  rw [findAll_succ, if_pos (by simp), if_pos (by simp), hord]
  simp only [List.drop_left]
  rw [findAll_fuel p m hp _ (rest.length + 1) _ _ _ _ (by simp; omega) (Nat.lt_succ_self _)]
  cases findAll p m (rest.length + 1) (start + p.length) rest false ord' with
  | error e => rfl
  | ok r => obtain ⟨a, b⟩ := r; rfl

/-- `c` further adjacent copies of the pattern extend the entry recorded last -/
theorem findAllC_own_cont (p : List Int) (m : Nat) (hp : p ≠ []) :
    ∀ (c start : Nat) (rest : List Int) (ord : List Entry) (st a : Nat),
      findAllC p m start ((List.replicate c p).flatten ++ rest) false (ord ++ [(m, st, a)]) =
        liftPre (List.replicate (c * p.length) (-1))
          (findAllC p m (start + c * p.length) rest false (ord ++ [(m, st, a + c)]))
  | 0, start, rest, ord, st, a => by simp [liftPre_nil]
  | c + 1, start, rest, ord, st, a => by
    rw [List.replicate_succ, List.flatten_cons, List.append_assoc,
      findAllC_match p m hp start _ false _ (ord ++ [(m, st, a + 1)]) (by simp [bumpLast_concat]),
      findAllC_own_cont p m hp c (start + p.length) rest ord st (a + 1), liftPre_append]
    have e1 : start + p.length + c * p.length = start + (c + 1) * p.length := by
      rw [Nat.succ_mul]; omega
    have e2 : a + 1 + c = a + (c + 1) := by omega
    have e3 : List.replicate p.length (-1 : Int) ++ List.replicate (c * p.length) (-1) =
        List.replicate ((c + 1) * p.length) (-1) := by
      rw [List.replicate_append_replicate]; congr 1; rw [Nat.succ_mul]; omega
    rw [e1, e2, e3]

/-- a whole run of `c+1` adjacent copies met with `new_block = True`: one new entry `(m, start, c+1)` -/
theorem findAllC_own_run (p : List Int) (m : Nat) (hp : p ≠ []) (c start : Nat) (rest : List Int)
    (ord : List Entry) :
    findAllC p m start ((List.replicate (c + 1) p).flatten ++ rest) true ord =
      liftPre (List.replicate ((c + 1) * p.length) (-1))
        (findAllC p m (start + (c + 1) * p.length) rest false (ord ++ [(m, start, c + 1)])) := by
  rw [List.replicate_succ, List.flatten_cons, List.append_assoc,
    findAllC_match p m hp start _ true ord (ord ++ [(m, start, 1)]) (by simp),
    findAllC_own_cont p m hp c (start + p.length) rest ord start 1, liftPre_append]
  have e1 : start + p.length + c * p.length = start + (c + 1) * p.length := by
    rw [Nat.succ_mul]; omega
  have e2 : 1 + c = c + 1 := by omega
  have e3 : List.replicate p.length (-1 : Int) ++ List.replicate (c * p.length) (-1) =
      List.replicate ((c + 1) * p.length) (-1) := by
    rw [List.replicate_append_replicate]; congr 1; rw [Nat.succ_mul]; omega
  rw [e1, e2, e3]

theorem findAllC_nil (p : List Int) (m : Nat) (hp : p ≠ []) (start : Nat) (nb : Bool) (ord : List Entry) :
    findAllC p m start [] nb ord = .ok ([], ord) := by
  have hL : 0 < p.length := List.length_pos_iff.mpr hp
  unfold findAllC
  rw [findAll_succ, if_neg (by simp; omega)]

/-! ### B. the file as whole molecules and foreign residues -/

/-- a block of the file: a whole molecule of species `s`, or one unrelated residue of kind `k` -/
inductive Block
  | mol (s : Nat)
  | foreign (k : Int)
  deriving DecidableEq, Repr

/-- a maximal run of equal adjacent blocks -/
abbrev Run := Block × Nat

section Blocks
variable (pat : Nat → List Int)

/-- the kinds of the residues of a block -/
def Block.kinds : Block → List Int
  | .mol s => pat s
  | .foreign k => [k]

/-- the content of `_available_mgro_ordered` over a block once the species in `ld` were consumed -/
def Block.marked (ld : Nat → Bool) : Block → List Int
  | .mol s => if ld s then List.replicate (pat s).length (-1) else pat s
  | .foreign k => [k]

theorem Block.marked_length (ld : Nat → Bool) (b : Block) :
    (b.marked pat ld).length = (b.kinds pat).length := by
  cases b with
  | mol s => simp only [Block.marked, Block.kinds]; split <;> simp
  | foreign k => rfl

def runStream (ld : Nat → Bool) (r : Run) : List Int := (List.replicate r.2 (r.1.marked pat ld)).flatten

def stream (ld : Nat → Bool) (runs : List Run) : List Int := runs.flatMap (runStream pat ld)

theorem runStream_length (ld : Nat → Bool) (r : Run) :
    (runStream pat ld r).length = r.2 * (r.1.kinds pat).length := by
  unfold runStream
  simp [List.length_flatten, Block.marked_length]

theorem stream_cons (ld : Nat → Bool) (r : Run) (rs : List Run) :
    stream pat ld (r :: rs) = runStream pat ld r ++ stream pat ld rs := by
  simp [stream]

/-- the hypotheses of the property: every species pattern is non-empty and made of real kinds (≥ 0),
    the kind sets of different species are disjoint, and foreign kinds belong to no species.
    `univ` lists the blocks that occur. -/
structure WF (univ : List Block) : Prop where
  nonempty : ∀ s, Block.mol s ∈ univ → pat s ≠ []
  nonneg : ∀ s, Block.mol s ∈ univ → ∀ k ∈ pat s, 0 ≤ k
  disjoint : ∀ s s', Block.mol s ∈ univ → Block.mol s' ∈ univ → s ≠ s' → ∀ k ∈ pat s', k ∉ pat s
  foreign_disjoint : ∀ s k, Block.mol s ∈ univ → Block.foreign k ∈ univ → k ∉ pat s

/-- adjacent runs are runs of different blocks -/
def AdjNe : List Run → Prop
  | r1 :: r2 :: rest => r1.1 ≠ r2.1 ∧ AdjNe (r2 :: rest)
  | _ => True

structure RunsOK (univ : List Block) (runs : List Run) : Prop where
  pos : ∀ r ∈ runs, 1 ≤ r.2
  adj : AdjNe runs
  mem : ∀ r ∈ runs, r.1 ∈ univ

theorem RunsOK.tail {univ : List Block} {r : Run} {rs : List Run} (h : RunsOK univ (r :: rs)) : RunsOK univ rs :=
  ⟨fun x hx => h.pos x (by simp [hx]), by
    have := h.adj
    cases rs with
    | nil => trivial
    | cons r2 rest => exact this.2, fun x hx => h.mem x (by simp [hx])⟩

/-- the entry a run contributes to `_molecules_ordered`: one for a run of a loaded species -/
def runEntry (rank : Nat → Option Nat) (off : Nat) : Run → List Entry
  | (.mol s, c) => (match rank s with
    | some m => [(m, off, c)]
    | none => [])
  | (.foreign _, _) => []

/-- the canonical `_molecules_ordered` of a loaded set: one entry per run of a loaded species -/
def canon (rank : Nat → Option Nat) : Nat → List Run → List Entry
  | _, [] => []
  | off, r :: rs => runEntry rank off r ++ canon rank (off + r.2 * (r.1.kinds pat).length) rs

theorem runEntry_other (s m off : Nat) (b : Block) (c : Nat) (hb : b ≠ Block.mol s) :
    runEntry (fun x => if x = s then some m else none) off (b, c) = [] := by
  cases b with
  | foreign k => rfl
  | mol s' =>
    have : s' ≠ s := fun e => hb (by rw [e])
    simp [runEntry, this]

/-- the elements of a run that is not an (unconsumed) run of species `s` are never the first kind of
    `s`'s pattern -/
theorem nonown_ne_p0 {univ : List Block} (hwf : WF pat univ) (ld : Nat → Bool) (s : Nat)
    (hs : Block.mol s ∈ univ) (p0 : Int) (pt : List Int) (hp : pat s = p0 :: pt)
    (r : Run) (hr : r.1 ∈ univ) (hne : r.1 ≠ Block.mol s) :
    ∀ x ∈ runStream pat ld r, x ≠ p0 := by
  have hp0 : p0 ∈ pat s := by rw [hp]; simp
  intro x hx
  unfold runStream at hx
  obtain ⟨l, hl, hxl⟩ := List.mem_flatten.mp hx
  have hl' : l = r.1.marked pat ld := (List.mem_replicate.mp hl).2
  subst hl'
  obtain ⟨b, c⟩ := r
  cases b with
  | foreign k =>
    simp only [Block.marked, List.mem_singleton] at hxl
    subst hxl
    intro e
    exact hwf.foreign_disjoint s x hs hr (e ▸ hp0)
  | mol s' =>
    have hss : s ≠ s' := fun e => hne (by rw [e])
    simp only [Block.marked] at hxl
    split at hxl
    · have : x = -1 := (List.mem_replicate.mp hxl).2
      intro e
      have := hwf.nonneg s hs p0 hp0
      omega
    · intro e
      exact hwf.disjoint s s' hs hr hss x hxl (e ▸ hp0)

theorem flatten_replicate_replicate (c L : Nat) (x : Int) :
    (List.replicate c (List.replicate L x)).flatten = List.replicate (c * L) x := by
  induction c with
  | zero => simp
  | succ c ih =>
    rw [List.replicate_succ, List.flatten_cons, ih, List.replicate_append_replicate, Nat.succ_mul]
    congr 1; omega

/-- **the scan over the whole file**: started at a run boundary, `_find_all_molecules_and_replace`
    consumes exactly the runs of species `s`, records one entry per run, and touches nothing else -/
theorem scan_runs {univ : List Block} (hwf : WF pat univ) (ld : Nat → Bool) (s m : Nat)
    (hs : Block.mol s ∈ univ) (hld : ld s = false) :
    ∀ (runs : List Run) (off : Nat) (nb : Bool) (ord : List Entry), RunsOK univ runs →
      (nb = false → ∀ r rs, runs = r :: rs → r.1 ≠ Block.mol s) →
      findAllC (pat s) m off (stream pat ld runs) nb ord =
        .ok (stream pat (fun x => x == s || ld x) runs,
             ord ++ canon pat (fun x => if x = s then some m else none) off runs)
  | [], off, nb, ord, _, _ => by
    simp [stream, canon, findAllC_nil _ _ (hwf.nonempty s hs)]
  | (b, c) :: rs, off, nb, ord, hok, hnb => by
    have hpne := hwf.nonempty s hs
    obtain ⟨p0, pt, hp⟩ : ∃ p0 pt, pat s = p0 :: pt := by
      cases h : pat s with
      | nil => exact absurd h hpne
      | cons a t => exact ⟨a, t, rfl⟩
    have hc : 1 ≤ c := hok.pos (b, c) (by simp)
    obtain ⟨c', rfl⟩ : ∃ c', c = c' + 1 := ⟨c - 1, by omega⟩
    rw [stream_cons, stream_cons]
    by_cases hb : b = Block.mol s
    · subst hb
      have hnbt : nb = true := by
        cases nb with
        | true => rfl
        | false => exact absurd rfl (hnb rfl _ _ rfl)
      subst hnbt
      have e1 : runStream pat ld (Block.mol s, c' + 1) = (List.replicate (c' + 1) (pat s)).flatten := by
        simp [runStream, Block.marked, hld]
      have e2 : runStream pat (fun x => x == s || ld x) (Block.mol s, c' + 1) =
          List.replicate ((c' + 1) * (pat s).length) (-1) := by
        simp only [runStream, Block.marked, beq_self_eq_true, Bool.true_or, if_true]
        exact flatten_replicate_replicate _ _ _
      rw [e1, findAllC_own_run (pat s) m hpne c' off _ ord,
        scan_runs hwf ld s m hs hld rs _ false _ hok.tail (by
          intro _ r rs' hrs
          subst hrs
          exact fun e => hok.adj.1 (by simp [e]))]
      simp only [liftPre, e2, canon, runEntry, Block.kinds, if_true, List.append_assoc, List.singleton_append]
    · have hpre := nonown_ne_p0 pat hwf ld s hs p0 pt hp (b, c' + 1) (hok.mem _ (by simp)) hb
      have hlen : 0 < (runStream pat ld (b, c' + 1)).length := by
        rw [runStream_length]
        have : 0 < (b.kinds pat).length := by
          cases b with
          | foreign k => simp [Block.kinds]
          | mol s' =>
            exact List.length_pos_iff.mpr (hwf.nonempty s' (hok.mem (Block.mol s', c' + 1) (by simp)))
        exact Nat.mul_pos (by omega) this
      have hne' : (runStream pat ld (b, c' + 1)).isEmpty = false := by
        cases h : runStream pat ld (b, c' + 1) with
        | nil => rw [h] at hlen; simp at hlen
        | cons a t => rfl
      have e2 : runStream pat (fun x => x == s || ld x) (b, c' + 1) = runStream pat ld (b, c' + 1) := by
        unfold runStream
        congr 2
        cases b with
        | foreign k => rfl
        | mol s' =>
          have : (s' == s) = false := by
            simp only [beq_eq_false_iff_ne]; intro e; exact hb (by rw [e])
          simp [Block.marked, this]
      rw [findAllC_skip (pat s) m p0 pt hp _ off _ nb ord hpre, hne',
        show (nb || !false) = true by simp,
        scan_runs hwf ld s m hs hld rs _ true ord hok.tail (by intro h; cases h)]
      simp only [liftPre, e2, canon, runEntry_other s m off b (c' + 1) hb, List.nil_append, runStream_length]

/-! ### C. `firstMatch` (`_check_index_in_available_mgro`) -/

theorem firstMatchGo_cons (p : List Int) (p0 : Int) (pt : List Int) (hp : p = p0 :: pt) (i : Nat) (x : Int)
    (xs : List Int) :
    firstMatchGo p i (x :: xs) =
      if x = p0 then
        match npAllEq ((x :: xs).take p.length) p with
        | .error e => .error e
        | .ok true => .ok i
        | .ok false => firstMatchGo p (i + 1) xs
      else firstMatchGo p (i + 1) xs := by
  subst hp
  rfl

theorem firstMatchGo_skip (p : List Int) (p0 : Int) (pt : List Int) (hp : p = p0 :: pt) :
    ∀ (pre : List Int) (i : Nat) (rest : List Int), (∀ x ∈ pre, x ≠ p0) →
      firstMatchGo p i (pre ++ rest) = firstMatchGo p (i + pre.length) rest
  | [], i, rest, _ => by simp
  | x :: pre, i, rest, h => by
    rw [List.cons_append, firstMatchGo_cons p p0 pt hp, if_neg (h x (by simp)),
      firstMatchGo_skip p p0 pt hp pre (i + 1) rest (fun y hy => h y (by simp [hy]))]
    congr 1
    simp; omega

theorem npAllEq_self (p : List Int) : npAllEq p p = .ok true := by
  unfold npAllEq
  simp

theorem firstMatchGo_hit (p : List Int) (hp : p ≠ []) (i : Nat) (rest : List Int) :
    firstMatchGo p i (p ++ rest) = .ok i := by
  obtain ⟨p0, pt, hpp⟩ : ∃ p0 pt, p = p0 :: pt := by
    cases h : p with
    | nil => exact absurd h hp
    | cons a t => exact ⟨a, t, rfl⟩
  have : p ++ rest = p0 :: (pt ++ rest) := by rw [hpp]; rfl
  rw [this, firstMatchGo_cons p p0 pt hpp, if_pos rfl, ← this, List.take_left', npAllEq_self]
  rfl

/-! ### D. one `add_molecule_top` on a well-formed file -/

/-- number of residues of a list of runs -/
def runsLen : List Run → Nat
  | [] => 0
  | r :: rs => r.2 * (r.1.kinds pat).length + runsLen rs

theorem stream_length (ld : Nat → Bool) : ∀ (runs : List Run), (stream pat ld runs).length = runsLen pat runs
  | [] => rfl
  | r :: rs => by rw [stream_cons, List.length_append, runStream_length, stream_length ld rs]; rfl

theorem stream_append (ld : Nat → Bool) (a b : List Run) :
    stream pat ld (a ++ b) = stream pat ld a ++ stream pat ld b := by
  simp [stream]

theorem canon_append (rank : Nat → Option Nat) : ∀ (a b : List Run) (off : Nat),
    canon pat rank off (a ++ b) = canon pat rank off a ++ canon pat rank (off + runsLen pat a) b
  | [], b, off => by simp [canon, runsLen]
  | r :: a, b, off => by
    simp only [List.cons_append, canon, runsLen]
    rw [canon_append rank a b, List.append_assoc, Nat.add_assoc]

/-- runs that are not runs of `s` contribute nothing for `s` and are not touched when `s` is consumed -/
theorem canon_noown (s m : Nat) : ∀ (pre : List Run) (off : Nat), (∀ r ∈ pre, r.1 ≠ Block.mol s) →
    canon pat (fun x => if x = s then some m else none) off pre = []
  | [], _, _ => rfl
  | (b, c) :: pre, off, h => by
    simp only [canon]
    rw [runEntry_other s m off b c (h (b, c) (by simp)), canon_noown s m pre _ (fun r hr => h r (by simp [hr]))]
    rfl

theorem stream_noown (ld : Nat → Bool) (s : Nat) : ∀ (pre : List Run), (∀ r ∈ pre, r.1 ≠ Block.mol s) →
    stream pat (fun x => x == s || ld x) pre = stream pat ld pre
  | [], _ => rfl
  | (b, c) :: pre, h => by
    rw [stream_cons, stream_cons, stream_noown ld s pre (fun r hr => h r (by simp [hr]))]
    congr 1
    unfold runStream
    congr 2
    cases b with
    | foreign k => rfl
    | mol s' =>
      have : (s' == s) = false := by
        simp only [beq_eq_false_iff_ne]; intro e; exact h (Block.mol s', c) (by simp) (by rw [e])
      simp [Block.marked, this]

/-- split a run list at the first run of species `s` -/
theorem split_first_own (s : Nat) : ∀ (runs : List Run), (∃ r ∈ runs, r.1 = Block.mol s) →
    ∃ pre c post, runs = pre ++ (Block.mol s, c) :: post ∧ ∀ r ∈ pre, r.1 ≠ Block.mol s
  | [], h => by obtain ⟨r, hr, _⟩ := h; cases hr
  | (b, c) :: rs, h => by
    by_cases hb : b = Block.mol s
    · exact ⟨[], c, rs, by rw [hb]; rfl, fun r hr => by cases hr⟩
    · obtain ⟨r, hr, hrs⟩ := h
      have : ∃ r ∈ rs, r.1 = Block.mol s := by
        rcases List.mem_cons.mp hr with rfl | hr
        · exact absurd hrs hb
        · exact ⟨r, hr, hrs⟩
      obtain ⟨pre, c', post, e, hpre⟩ := split_first_own s rs this
      refine ⟨(b, c) :: pre, c', post, by rw [e]; rfl, ?_⟩
      intro r hr
      rcases List.mem_cons.mp hr with rfl | hr
      · exact hb
      · exact hpre r hr

theorem RunsOK.suffix {univ : List Block} : ∀ {pre runs : List Run}, RunsOK univ (pre ++ runs) → RunsOK univ runs
  | [], _, h => h
  | _ :: pre, _, h => RunsOK.suffix (pre := pre) h.tail

/-- first match, scan and bookkeeping of one `add_molecule_top` (before the sort) -/
theorem add_core {univ : List Block} (hwf : WF pat univ) (ld : Nat → Bool) (s m : Nat)
    (hs : Block.mol s ∈ univ) (hld : ld s = false) (runs : List Run) (hok : RunsOK univ runs)
    (pre : List Run) (c : Nat) (post : List Run) (hsplit : runs = pre ++ (Block.mol s, c) :: post)
    (hpre : ∀ r ∈ pre, r.1 ≠ Block.mol s) (ord : List Entry) :
    firstMatch (stream pat ld runs) (pat s) = .ok (runsLen pat pre) ∧
    findAll (pat s) m ((stream pat ld runs).length + 1) (runsLen pat pre)
        ((stream pat ld runs).drop (runsLen pat pre)) true ord =
      .ok ((stream pat (fun x => x == s || ld x) runs).drop (runsLen pat pre),
           ord ++ canon pat (fun x => if x = s then some m else none) 0 runs) ∧
    (stream pat ld runs).take (runsLen pat pre) = (stream pat (fun x => x == s || ld x) runs).take (runsLen pat pre) := by
  have hpne := hwf.nonempty s hs
  obtain ⟨p0, pt, hp⟩ : ∃ p0 pt, pat s = p0 :: pt := by
    cases h : pat s with
    | nil => exact absurd h hpne
    | cons a t => exact ⟨a, t, rfl⟩
  have hc : 1 ≤ c := hok.pos (Block.mol s, c) (by rw [hsplit]; simp)
  obtain ⟨c', rfl⟩ : ∃ c', c = c' + 1 := ⟨c - 1, by omega⟩
  have hok' : RunsOK univ ((Block.mol s, c' + 1) :: post) := by
    rw [hsplit] at hok; exact hok.suffix
  have hprelen : (stream pat ld pre).length = runsLen pat pre := stream_length pat ld pre
  have hpre_ne : ∀ x ∈ stream pat ld pre, x ≠ p0 := by
    intro x hx
    unfold stream at hx
    obtain ⟨r, hr, hxr⟩ := List.mem_flatMap.mp hx
    exact nonown_ne_p0 pat hwf ld s hs p0 pt hp r (hok.mem r (by rw [hsplit]; simp [hr])) (hpre r hr) x hxr
  have hst : stream pat ld runs = stream pat ld pre ++ stream pat ld ((Block.mol s, c' + 1) :: post) := by
    rw [hsplit, stream_append]
  have hst' : stream pat (fun x => x == s || ld x) runs =
      stream pat ld pre ++ stream pat (fun x => x == s || ld x) ((Block.mol s, c' + 1) :: post) := by
    rw [hsplit, stream_append, stream_noown pat ld s pre hpre]
  refine ⟨?_, ?_, ?_⟩
  · unfold firstMatch
    rw [hst, firstMatchGo_skip (pat s) p0 pt hp _ 0 _ hpre_ne, stream_cons]
    have : runStream pat ld (Block.mol s, c' + 1) = pat s ++ (List.replicate c' (pat s)).flatten := by
      simp [runStream, Block.marked, hld, List.replicate_succ]
    rw [this, List.append_assoc, firstMatchGo_hit (pat s) hpne, hprelen]
    simp
  · have hd : (stream pat ld runs).drop (runsLen pat pre) = stream pat ld ((Block.mol s, c' + 1) :: post) := by
      rw [hst, ← hprelen, List.drop_left]
    have hd' : (stream pat (fun x => x == s || ld x) runs).drop (runsLen pat pre) =
        stream pat (fun x => x == s || ld x) ((Block.mol s, c' + 1) :: post) := by
      rw [hst', ← hprelen, List.drop_left]
    rw [hd, hd', findAll_eq_C (pat s) m hpne _ _ _ _ _ (by rw [hst]; simp; omega),
      scan_runs pat hwf ld s m hs hld _ (runsLen pat pre) true ord hok' (by intro h; cases h)]
    rw [hsplit, canon_append, canon_noown pat s m pre 0 hpre]
    simp
  · rw [hst, hst', ← hprelen, List.take_left, List.take_left]

/-! ### E. the sort -/

theorem eq_of_mem_sorted : ∀ {l : List Entry}, l.Pairwise (fun a b => a.2.1 < b.2.1) →
    ∀ {a b : Entry}, a ∈ l → b ∈ l → a.2.1 = b.2.1 → a = b
  | [], _, _, _, ha, _, _ => by cases ha
  | x :: xs, h, a, b, ha, hb, e => by
    obtain ⟨hx, hxs⟩ := List.pairwise_cons.mp h
    rcases List.mem_cons.mp ha with ha' | ha'
    · rcases List.mem_cons.mp hb with hb' | hb'
      · rw [ha', hb']
      · have := hx b hb'; rw [ha'] at e; omega
    · rcases List.mem_cons.mp hb with hb' | hb'
      · have := hx a ha'; rw [hb'] at e; omega
      · exact eq_of_mem_sorted hxs ha' hb' e

theorem sortByStart_eq {l target : List Entry} (hperm : l.Perm target)
    (hsorted : target.Pairwise (fun a b => a.2.1 < b.2.1)) : sortByStart l = target := by
  unfold sortByStart
  have hle : ∀ a b c : Entry, decide (a.2.1 ≤ b.2.1) = true → decide (b.2.1 ≤ c.2.1) = true →
      decide (a.2.1 ≤ c.2.1) = true := by
    intro a b c h1 h2; simp only [decide_eq_true_eq] at *; omega
  have htot : ∀ a b : Entry, (decide (a.2.1 ≤ b.2.1) || decide (b.2.1 ≤ a.2.1)) = true := by
    intro a b; simp only [Bool.or_eq_true, decide_eq_true_eq]; omega
  have h1 : (l.mergeSort (fun a b => decide (a.2.1 ≤ b.2.1))).Pairwise
      (fun a b => decide (a.2.1 ≤ b.2.1) = true) := List.pairwise_mergeSort hle htot l
  have h2 : target.Pairwise (fun a b => decide (a.2.1 ≤ b.2.1) = true) :=
    hsorted.imp (fun h => by simp only [decide_eq_true_eq]; omega)
  have hp : (l.mergeSort (fun a b => decide (a.2.1 ≤ b.2.1))).Perm target :=
    (List.mergeSort_perm l _).trans hperm
  refine List.Perm.eq_of_pairwise ?_ h1 h2 hp
  intro a b ha hb hab hba
  simp only [decide_eq_true_eq] at hab hba
  have hst : a.2.1 = b.2.1 := by omega
  exact eq_of_mem_sorted hsorted (hp.subset ha) hb hst

/-- loading one more species adds exactly its own entries to the canonical list (as a multiset) -/
theorem canon_perm (rank : Nat → Option Nat) (s m : Nat) (hrs : rank s = none) :
    ∀ (runs : List Run) (off : Nat),
      (canon pat (fun x => if x = s then some m else rank x) off runs).Perm
        (canon pat rank off runs ++ canon pat (fun x => if x = s then some m else none) off runs)
  | [], _ => by simp [canon]
  | (b, c) :: rs, off => by
    have ih := canon_perm rank s m hrs rs (off + c * (b.kinds pat).length)
    simp only [canon]
    by_cases hb : b = Block.mol s
    · subst hb
      have e1 : runEntry rank off (Block.mol s, c) = [] := by simp [runEntry, hrs]
      have e2 : runEntry (fun x => if x = s then some m else rank x) off (Block.mol s, c) =
          runEntry (fun x => if x = s then some m else none) off (Block.mol s, c) := by simp [runEntry]
      rw [e1, e2, List.nil_append]
      exact (List.Perm.append_left _ ih).trans (List.perm_append_comm_assoc _ _ _)
    · have e1 : runEntry (fun x => if x = s then some m else none) off (b, c) = [] :=
        runEntry_other s m off b c hb
      have e2 : runEntry (fun x => if x = s then some m else rank x) off (b, c) = runEntry rank off (b, c) := by
        cases b with
        | foreign k => rfl
        | mol s' =>
          have : s' ≠ s := fun e => hb (by rw [e])
          simp [runEntry, this]
      rw [e1, e2, List.nil_append, List.append_assoc]
      exact List.Perm.append_left _ ih

/-- the canonical list is strictly sorted by `gro_start`, and starts at or after `off` -/
theorem canon_sorted {univ : List Block} (hwf : WF pat univ) (rank : Nat → Option Nat) :
    ∀ (runs : List Run) (off : Nat), RunsOK univ runs →
      (canon pat rank off runs).Pairwise (fun a b => a.2.1 < b.2.1) ∧
      ∀ e ∈ canon pat rank off runs, off ≤ e.2.1
  | [], _, _ => by simp [canon]
  | (b, c) :: rs, off, hok => by
    have hc : 1 ≤ c := hok.pos (b, c) (by simp)
    have hlen : 0 < (b.kinds pat).length := by
      cases b with
      | foreign k => simp [Block.kinds]
      | mol s' => exact List.length_pos_iff.mpr (hwf.nonempty s' (hok.mem (Block.mol s', c) (by simp)))
    have hstep : off < off + c * (b.kinds pat).length := by
      have := Nat.mul_pos (by omega : 0 < c) hlen; omega
    obtain ⟨ih1, ih2⟩ := canon_sorted hwf rank rs (off + c * (b.kinds pat).length) hok.tail
    simp only [canon]
    have hre : ∀ e ∈ runEntry rank off (b, c), e.2.1 = off := by
      intro e he
      cases b with
      | foreign k => simp [runEntry] at he
      | mol s' =>
        simp only [runEntry] at he
        split at he
        · simp only [List.mem_singleton] at he; rw [he]
        · cases he
    have hre1 : (runEntry rank off (b, c)).Pairwise (fun a b => a.2.1 < b.2.1) := by
      cases b with
      | foreign k => simp [runEntry]
      | mol s' =>
        simp only [runEntry]
        split <;> simp
    constructor
    · rw [List.pairwise_append]
      refine ⟨hre1, ih1, ?_⟩
      intro a ha b' hb'
      have := hre a ha; have := ih2 b' hb'; omega
    · intro e he
      rcases List.mem_append.mp he with he | he
      · have := hre e he; omega
      · have := ih2 e he; omega

/-! ### F. loading a list of species -/

/-- index of a species in the loading order = its index in `different_molecules` -/
def rankOf : List Nat → Nat → Option Nat
  | [], _ => none
  | x :: xs, s => if x = s then some 0 else (rankOf xs s).map (· + 1)

/-- has the species been loaded (consumed) -/
def ldOf (order : List Nat) (s : Nat) : Bool := order.contains s

theorem rankOf_none {order : List Nat} {s : Nat} (h : s ∉ order) : rankOf order s = none := by
  induction order with
  | nil => rfl
  | cons x xs ih =>
    have hx : x ≠ s := fun e => h (by simp [e])
    simp [rankOf, hx, ih (fun hm => h (by simp [hm]))]

theorem rankOf_append (order : List Nat) (s : Nat) (hs : s ∉ order) :
    rankOf (order ++ [s]) = fun x => if x = s then some order.length else rankOf order x := by
  funext x
  induction order with
  | nil => simp [rankOf, eq_comm]
  | cons y ys ih =>
    have hy : y ≠ s := fun e => hs (by simp [e])
    have ih' := ih (fun hm => hs (by simp [hm]))
    simp only [List.cons_append, rankOf, ih', List.length_cons]
    by_cases hxs : x = s
    · subst hxs
      simp [hy]
    · simp only [hxs, if_false]

theorem rankOf_get : ∀ {order : List Nat} {s m : Nat}, rankOf order s = some m → order[m]? = some s
  | [], _, _, h => by simp [rankOf] at h
  | x :: xs, s, m, h => by
    simp only [rankOf] at h
    by_cases hx : x = s
    · simp only [hx, if_true, Option.some.injEq] at h
      subst h; simp [hx]
    · simp only [hx, if_false, Option.map_eq_some_iff] at h
      obtain ⟨m', hm', rfl⟩ := h
      simp [rankOf_get hm']

theorem ldOf_append (order : List Nat) (s : Nat) :
    ldOf (order ++ [s]) = fun x => x == s || ldOf order x := by
  funext x
  simp only [ldOf, List.contains_eq_mem, List.mem_append, List.mem_singleton]
  by_cases h1 : x = s <;> by_cases h2 : x ∈ order <;> simp [h1, h2]

theorem ldOf_false {order : List Nat} {s : Nat} (h : s ∉ order) : ldOf order s = false := by
  simp [ldOf, h]

/-- the state of a `System` after loading the species `order` (in that order) from a file `runs` -/
structure RInv (runs : List Run) (order : List Nat) (st : RecState) : Prop where
  avail : st.avail = stream pat (ldOf order) runs
  ordered : st.ordered = canon pat (rankOf order) 0 runs
  lens : st.lens = order.map (fun s => (pat s).length)

theorem add_step {univ : List Block} (hwf : WF pat univ) (runs : List Run) (hok : RunsOK univ runs)
    (order : List Nat) (st : RecState) (hI : RInv pat runs order st) (s : Nat) (hs : Block.mol s ∈ univ)
    (hso : s ∉ order) (hpres : ∃ r ∈ runs, r.1 = Block.mol s) (check : Nat → Except PyErr Nat)
    (hcheck : ∀ pre c post, runs = pre ++ (Block.mol s, c) :: post → (∀ r ∈ pre, r.1 ≠ Block.mol s) →
      check (runsLen pat pre) = .ok (pat s).length) :
    ∃ st', addPattern st (pat s) check = .ok st' ∧ RInv pat runs (order ++ [s]) st' := by
  obtain ⟨pre, c, post, hsplit, hpre⟩ := split_first_own s runs hpres
  have hlen : st.lens.length = order.length := by rw [hI.lens]; simp
  obtain ⟨h1, h2, h3⟩ := add_core pat hwf (ldOf order) s order.length hs (ldOf_false hso) runs hok
    pre c post hsplit hpre st.ordered
  unfold addPattern
  rw [hI.avail, h1]
  simp only
  rw [hcheck pre c post hsplit hpre]
  simp only
  rw [hlen, h2]
  simp only
  refine ⟨_, rfl, ⟨?_, ?_, ?_⟩⟩
  · simp only
    rw [h3, List.take_append_drop, ldOf_append]
  · simp only
    rw [rankOf_append order s hso, hI.ordered]
    exact sortByStart_eq ((canon_perm pat (rankOf order) s order.length (rankOf_none hso) runs 0).symm)
      (canon_sorted pat hwf _ runs 0 hok).1
  · simp only
    rw [hI.lens]; simp

/-- `System(fgro, *ftops)` after `SystemGro`: add the topologies one after the other;
    `check s` stands for the `Molecule(...)` construction for species `s` -/
def loadAll (check : Nat → Nat → Except PyErr Nat) : RecState → List Nat → Except PyErr RecState
  | st, [] => .ok st
  | st, s :: rest =>
    match addPattern st (pat s) (check s) with
    | .error e => .error e
    | .ok st' => loadAll check st' rest

theorem loadAll_inv {univ : List Block} (hwf : WF pat univ) (runs : List Run) (hok : RunsOK univ runs)
    (check : Nat → Nat → Except PyErr Nat) :
    ∀ (todo done : List Nat) (st : RecState), RInv pat runs done st → (done ++ todo).Nodup →
      (∀ s ∈ todo, Block.mol s ∈ univ ∧ ∃ r ∈ runs, r.1 = Block.mol s) →
      (∀ s ∈ todo, ∀ pre c post, runs = pre ++ (Block.mol s, c) :: post → (∀ r ∈ pre, r.1 ≠ Block.mol s) →
        check s (runsLen pat pre) = .ok (pat s).length) →
      ∃ st', loadAll pat check st todo = .ok st' ∧ RInv pat runs (done ++ todo) st'
  | [], done, st, hI, _, _, _ => ⟨st, rfl, by simpa using hI⟩
  | s :: todo, done, st, hI, hnd, hp, hc => by
    have hso : s ∉ done := by
      intro hm
      have := List.nodup_append.mp hnd
      exact this.2.2 s hm s (by simp) rfl
    obtain ⟨hu, hpres⟩ := hp s (by simp)
    obtain ⟨st1, h1, hI1⟩ := add_step pat hwf runs hok done st hI s hu hso hpres (check s) (hc s (by simp))
    obtain ⟨st', h2, hI2⟩ := loadAll_inv hwf runs hok check todo (done ++ [s]) st1 hI1
      (by simpa using hnd) (fun x hx => hp x (by simp [hx])) (fun x hx => hc x (by simp [hx]))
    refine ⟨st', ?_, by simpa using hI2⟩
    rw [loadAll, h1]
    exact h2

/-! ### G. the instance generator -/

/-- the instances of one run: `(index, gro_start, gro_end)` for each molecule of a loaded species -/
def runInst (rank : Nat → Option Nat) (off : Nat) : Run → List Entry
  | (.mol s, c) => (match rank s with
    | some m => (List.range c).map (fun i => (m, off + i * (pat s).length, off + (i + 1) * (pat s).length))
    | none => [])
  | (.foreign _, _) => []

def expectedR (rank : Nat → Option Nat) : Nat → List Run → List Entry
  | _, [] => []
  | off, r :: rs => runInst pat rank off r ++ expectedR rank (off + r.2 * (r.1.kinds pat).length) rs

theorem instancesGo_canon (rank : Nat → Option Nat) (lens : List Nat) :
    ∀ (runs : List Run) (off : Nat),
      (∀ s m c, (Block.mol s, c) ∈ runs → rank s = some m → lens[m]? = some (pat s).length) →
      instancesGo lens (canon pat rank off runs) = .ok (expectedR pat rank off runs)
  | [], _, _ => rfl
  | (b, c) :: rs, off, h => by
    have ih := instancesGo_canon rank lens rs (off + c * (b.kinds pat).length)
      (fun s m c' hm => h s m c' (by simp [hm]))
    simp only [canon, expectedR]
    cases b with
    | foreign k => simpa [runEntry, runInst] using ih
    | mol s =>
      simp only [runEntry, runInst]
      cases hr : rank s with
      | none => simpa using ih
      | some m =>
        simp only [List.singleton_append, instancesGo, h s m c (by simp) hr, ih]

theorem len_canon (rank : Nat → Option Nat) : ∀ (runs : List Run) (off : Nat),
    ((canon pat rank off runs).map (·.2.2)).sum = (expectedR pat rank off runs).length
  | [], _ => rfl
  | (b, c) :: rs, off => by
    have ih := len_canon rank rs (off + c * (b.kinds pat).length)
    simp only [canon, expectedR, List.map_append, List.sum_append, List.length_append, ih]
    congr 1
    cases b with
    | foreign k => rfl
    | mol s =>
      simp only [runEntry, runInst]
      cases rank s <;> simp

/-! ### H. from blocks to runs -/

/-- run-length encoding of the block list -/
def rle : List Block → List Run
  | [] => []
  | b :: bs =>
    match rle bs with
    | [] => [(b, 1)]
    | (b', c) :: rs => if b = b' then (b', c + 1) :: rs else (b, 1) :: (b', c) :: rs

def blocksOf (runs : List Run) : List Block := runs.flatMap (fun r => List.replicate r.2 r.1)

theorem blocksOf_rle : ∀ (bs : List Block), blocksOf (rle bs) = bs
  | [] => rfl
  | b :: bs => by
    have ih := blocksOf_rle bs
    rw [rle]
    cases h : rle bs with
    | nil => rw [h] at ih; simp [blocksOf] at ih ⊢; exact ih
    | cons r rs =>
      obtain ⟨b', c⟩ := r
      rw [h] at ih
      by_cases hb : b = b'
      · subst hb
        simp only [if_true]
        simp only [blocksOf, List.flatMap_cons] at ih ⊢
        rw [List.replicate_succ, List.cons_append, ih]
      · simp only [hb, if_false]
        simp only [blocksOf, List.flatMap_cons] at ih ⊢
        rw [ih]; rfl

theorem rle_ok (univ : List Block) : ∀ (bs : List Block), (∀ b ∈ bs, b ∈ univ) → RunsOK univ (rle bs)
  | [], _ => ⟨fun _ h => (by cases h), trivial, fun _ h => (by cases h)⟩
  | b :: bs, hm => by
    have ih := rle_ok univ bs (fun x hx => hm x (by simp [hx]))
    rw [rle]
    cases h : rle bs with
    | nil =>
      exact ⟨fun r hr => (by simp at hr; subst hr; exact Nat.le_refl 1), trivial,
        fun r hr => (by simp at hr; subst hr; exact hm b (by simp))⟩
    | cons r rs =>
      obtain ⟨b', c⟩ := r
      rw [h] at ih
      by_cases hb : b = b'
      · subst hb
        simp only [if_true]
        refine ⟨?_, ?_, ?_⟩
        · intro r hr
          rcases List.mem_cons.mp hr with rfl | hr
          · simp
          · exact ih.pos r (by simp [hr])
        · have := ih.adj
          cases rs with
          | nil => trivial
          | cons r2 rest => exact this
        · intro r hr
          rcases List.mem_cons.mp hr with rfl | hr
          · exact hm b (by simp)
          · exact ih.mem r (by simp [hr])
      · simp only [hb, if_false]
        refine ⟨?_, ⟨hb, ih.adj⟩, ?_⟩
        · intro r hr
          rcases List.mem_cons.mp hr with rfl | hr
          · exact Nat.le_refl 1
          · exact ih.pos r hr
        · intro r hr
          rcases List.mem_cons.mp hr with rfl | hr
          · exact hm b (by simp)
          · exact ih.mem r hr

/-- `_available_mgro_ordered` over a block list -/
def blockStream (ld : Nat → Bool) (blocks : List Block) : List Int := blocks.flatMap (Block.marked pat ld)

/-- number of residues of a block list -/
def blocksLen : List Block → Nat
  | [] => 0
  | b :: bs => (b.kinds pat).length + blocksLen bs

theorem blockStream_length (ld : Nat → Bool) : ∀ (bs : List Block), (blockStream pat ld bs).length = blocksLen pat bs
  | [] => rfl
  | b :: bs => by
    simp only [blockStream, List.flatMap_cons, List.length_append, blocksLen, Block.marked_length]
    rw [← blockStream_length ld bs]; rfl

theorem stream_eq_blockStream (ld : Nat → Bool) (runs : List Run) :
    stream pat ld runs = blockStream pat ld (blocksOf runs) := by
  induction runs with
  | nil => rfl
  | cons r rs ih =>
    rw [stream_cons, ih]
    simp only [blockStream, blocksOf, List.flatMap_cons, List.flatMap_append]
    congr 1
    unfold runStream
    induction r.2 with
    | zero => rfl
    | succ c ihc => simp [List.replicate_succ, ihc]

theorem blocksLen_append (a b : List Block) : blocksLen pat (a ++ b) = blocksLen pat a + blocksLen pat b := by
  induction a with
  | nil => simp [blocksLen]
  | cons x xs ih => simp [blocksLen, ih, Nat.add_assoc]

theorem blocksLen_replicate (c : Nat) (b : Block) :
    blocksLen pat (List.replicate c b) = c * (b.kinds pat).length := by
  induction c with
  | zero => simp [blocksLen]
  | succ c ih => simp [List.replicate_succ, blocksLen, ih, Nat.succ_mul]; omega

theorem runsLen_eq (runs : List Run) : runsLen pat runs = blocksLen pat (blocksOf runs) := by
  induction runs with
  | nil => rfl
  | cons r rs ih =>
    simp only [runsLen, blocksOf, List.flatMap_cons] at ih ⊢
    rw [blocksLen_append, blocksLen_replicate, ih]

/-- the instance a block stands for -/
def blockInst (rank : Nat → Option Nat) (off : Nat) : Block → List Entry
  | .mol s => (match rank s with
    | some m => [(m, off, off + (pat s).length)]
    | none => [])
  | .foreign _ => []

/-- **the expected answer**: one `(index, gro_start, gro_end)` per block of a loaded species, in file
    order; `off` counts the residues before the block -/
def expected (rank : Nat → Option Nat) : Nat → List Block → List Entry
  | _, [] => []
  | off, b :: bs => blockInst pat rank off b ++ expected rank (off + (b.kinds pat).length) bs

theorem expected_append (rank : Nat → Option Nat) : ∀ (a b : List Block) (off : Nat),
    expected pat rank off (a ++ b) = expected pat rank off a ++ expected pat rank (off + blocksLen pat a) b
  | [], b, off => by simp [expected, blocksLen]
  | x :: a, b, off => by
    simp only [List.cons_append, expected, blocksLen]
    rw [expected_append rank a b, List.append_assoc, Nat.add_assoc]

theorem expected_replicate (rank : Nat → Option Nat) (b : Block) : ∀ (c off : Nat),
    expected pat rank off (List.replicate c b) = runInst pat rank off (b, c)
  | 0, off => by
    cases b with
    | foreign k => rfl
    | mol s => simp only [List.replicate_zero, expected, runInst]; cases rank s <;> rfl
  | c + 1, off => by
    rw [List.replicate_succ, expected, expected_replicate rank b c]
    cases b with
    | foreign k => rfl
    | mol s =>
      simp only [blockInst, runInst, Block.kinds]
      cases rank s with
      | none => rfl
      | some m =>
        simp only [List.singleton_append]
        rw [List.range_succ_eq_map, List.map_cons, List.map_map]
        congr 1
        · simp
        · apply List.map_congr_left
          intro i _
          simp only [Function.comp, Nat.succ_eq_add_one, Prod.mk.injEq, true_and]
          constructor
          · rw [Nat.succ_mul]; omega
          · rw [Nat.succ_mul (i + 1)]; rw [Nat.succ_mul]; omega

theorem expectedR_eq (rank : Nat → Option Nat) : ∀ (runs : List Run) (off : Nat),
    expectedR pat rank off runs = expected pat rank off (blocksOf runs)
  | [], _ => rfl
  | r :: rs, off => by
    simp only [expectedR, blocksOf, List.flatMap_cons]
    rw [expected_append, expected_replicate, blocksLen_replicate, expectedR_eq rank rs]
    rfl

theorem canon_none : ∀ (runs : List Run) (off : Nat), canon pat (fun _ => none) off runs = []
  | [], _ => rfl
  | (b, c) :: rs, off => by
    simp only [canon, canon_none rs]
    cases b <;> rfl

/-! ### I. recognition on a block list -/

/-- the `System` right after `SystemGro` has been parsed: nothing consumed, nothing loaded -/
def initState (blocks : List Block) : RecState := ⟨blockStream pat (fun _ => false) blocks, [], []⟩

theorem recognise_blocks (blocks : List Block) (hwf : WF pat blocks) (order : List Nat) (hnd : order.Nodup)
    (hpres : ∀ s ∈ order, Block.mol s ∈ blocks) (check : Nat → Nat → Except PyErr Nat)
    (hcheck : ∀ s ∈ order, ∀ pre post, blocks = pre ++ Block.mol s :: post →
      check s (blocksLen pat pre) = .ok (pat s).length) :
    ∃ st, loadAll pat check (initState pat blocks) order = .ok st ∧
      st.instances = .ok (expected pat (rankOf order) 0 blocks) ∧
      st.avail = blockStream pat (ldOf order) blocks ∧
      st.lens = order.map (fun s => (pat s).length) ∧
      st.len = (expected pat (rankOf order) 0 blocks).length := by
  have hok : RunsOK blocks (rle blocks) := rle_ok blocks blocks (fun _ h => h)
  have hb : blocksOf (rle blocks) = blocks := blocksOf_rle blocks
  have hld0 : ldOf [] = fun _ => false := by funext x; simp [ldOf]
  have hrk0 : rankOf [] = fun _ => none := by funext x; rfl
  have hI0 : RInv pat (rle blocks) [] (initState pat blocks) :=
    ⟨by rw [stream_eq_blockStream, hb, hld0]; rfl, by rw [hrk0, canon_none]; rfl, rfl⟩
  have hmem : ∀ s, Block.mol s ∈ blocks → ∃ r ∈ rle blocks, r.1 = Block.mol s := by
    intro s hs
    rw [← hb] at hs
    obtain ⟨r, hr, hsr⟩ := List.mem_flatMap.mp hs
    exact ⟨r, hr, ((List.mem_replicate.mp hsr).2).symm⟩
  obtain ⟨st, hload, hI⟩ := loadAll_inv pat hwf (rle blocks) hok check order [] (initState pat blocks) hI0
    (by simpa using hnd) (fun s hs => ⟨hpres s hs, hmem s (hpres s hs)⟩) (by
      intro s hs pre c post hsplit _
      have hc : 1 ≤ c := hok.pos (Block.mol s, c) (by rw [hsplit]; simp)
      obtain ⟨c', rfl⟩ : ∃ c', c = c' + 1 := ⟨c - 1, by omega⟩
      rw [runsLen_eq]
      apply hcheck s hs (blocksOf pre) (List.replicate c' (Block.mol s) ++ blocksOf post)
      rw [← hb, hsplit]
      simp [blocksOf, List.replicate_succ])
  simp only [List.nil_append] at hI
  have hinst : st.instances = .ok (expected pat (rankOf order) 0 blocks) := by
    unfold RecState.instances
    rw [hI.ordered, hI.lens, instancesGo_canon, expectedR_eq, hb]
    intro s m c _ hr
    rw [List.getElem?_map, rankOf_get hr]; rfl
  refine ⟨st, hload, hinst, ?_, hI.lens, ?_⟩
  · rw [hI.avail, stream_eq_blockStream, hb]
  · unfold RecState.len
    rw [hI.ordered, len_canon, expectedR_eq, hb]

/-! ### J. refusal -/

theorem npAllEq_true {w p : List Int} (h : npAllEq w p = .ok true) : w = p ∨ w.length ≠ p.length := by
  unfold npAllEq at h
  by_cases hl : w.length = p.length
  · simp only [hl, if_true, Except.ok.injEq, decide_eq_true_eq] at h
    exact Or.inl h
  · exact Or.inr hl

/-- what a successful `_check_index_in_available_mgro` means: a full window equal to the pattern, or
    (numpy broadcasting) a window cut short by the end of the array -/
theorem firstMatchGo_sound (p : List Int) : ∀ (suf : List Int) (i j : Nat), firstMatchGo p i suf = .ok j →
    i ≤ j ∧ p ≠ [] ∧ ((suf.drop (j - i)).take p.length = p ∨ (j - i) + p.length > suf.length)
  | [], i, j, h => by simp [firstMatchGo] at h
  | x :: xs, i, j, h => by
    cases hp : p with
    | nil => rw [hp] at h; simp [firstMatchGo] at h
    | cons p0 pt =>
      rw [← hp]
      have hpne : p ≠ [] := by rw [hp]; simp
      rw [firstMatchGo_cons p p0 pt hp] at h
      have hrec : firstMatchGo p (i + 1) xs = .ok j →
          i ≤ j ∧ p ≠ [] ∧ (((x :: xs).drop (j - i)).take p.length = p ∨ (j - i) + p.length > (x :: xs).length) := by
        intro h'
        obtain ⟨h1, _, h2⟩ := firstMatchGo_sound p xs (i + 1) j h'
        refine ⟨by omega, hpne, ?_⟩
        have e : j - i = (j - (i + 1)) + 1 := by omega
        rw [e, List.drop_succ_cons]
        rcases h2 with h2 | h2
        · exact Or.inl h2
        · exact Or.inr (by simp; omega)
      by_cases hx : x = p0
      · rw [if_pos hx] at h
        cases hn : npAllEq ((x :: xs).take p.length) p with
        | error e => rw [hn] at h; cases h
        | ok b =>
          rw [hn] at h
          cases b with
          | true =>
            simp only [Except.ok.injEq] at h
            subst h
            refine ⟨Nat.le_refl _, hpne, ?_⟩
            simp only [Nat.sub_self, List.drop_zero]
            rcases npAllEq_true hn with h2 | h2
            · exact Or.inl h2
            · refine Or.inr ?_
              rw [List.length_take] at h2
              omega
          | false => exact hrec h
      · rw [if_neg hx] at h
        exact hrec h

/-- **a pattern that does not occur is refused**: if no full window of `_available_mgro_ordered`
    equals the pattern, and `Molecule(...)` rejects a residue slice that was clipped by the end of the
    file, `add_molecule_top` raises -/
theorem addPattern_refused (st : RecState) (p : List Int) (check : Nat → Except PyErr Nat)
    (hno : ∀ k, (st.avail.drop k).take p.length ≠ p)
    (hclip : ∀ start n, check start = .ok n → start + p.length ≤ st.avail.length) :
    ∃ e, addPattern st p check = .error e := by
  unfold addPattern
  cases hf : firstMatch st.avail p with
  | error e => exact ⟨e, rfl⟩
  | ok start =>
    simp only
    obtain ⟨_, _, h⟩ := firstMatchGo_sound p st.avail 0 start hf
    simp only [Nat.sub_zero] at h
    cases hc : check start with
    | error e => exact ⟨e, rfl⟩
    | ok n =>
      exfalso
      rcases h with h | h
      · exact hno start h
      · have := hclip start n hc; omega

/-- `_find_all_molecules_and_replace` itself never raises -/
theorem findAll_ok (p : List Int) (m : Nat) (hp : p ≠ []) :
    ∀ (fuel start : Nat) (suffix : List Int) (nb : Bool) (ord : List Entry),
      suffix.length < fuel → (nb = false → ord ≠ []) → ∃ r, findAll p m fuel start suffix nb ord = .ok r
  | 0, _, _, _, _, h, _ => by omega
  | fuel + 1, start, suffix, nb, ord, hf, hnb => by
    have hL : 0 < p.length := List.length_pos_iff.mpr hp
    rw [findAll_succ]
    by_cases hl : p.length ≤ suffix.length
    · rw [if_pos hl]
      by_cases hm : suffix.take p.length = p
      · rw [if_pos hm]
        have : ∃ ord', (if nb then (Except.ok (ord ++ [(m, start, 1)]) : Except PyErr (List Entry))
            else bumpLast ord) = .ok ord' ∧ ord' ≠ [] := by
          cases nb with
          | true => exact ⟨_, rfl, by simp⟩
          | false =>
            have hne := hnb rfl
            obtain ⟨ys, y, hy⟩ : ∃ ys y, ord = ys ++ [y] := by
              cases h : ord.getLast? with
              | none => simp at h; exact absurd h hne
              | some y => exact ⟨_, y, (List.getLast?_eq_some_iff.mp h).choose_spec⟩
            obtain ⟨a, b, c⟩ := y
            exact ⟨ys ++ [(a, b, c + 1)], by rw [hy]; simp [bumpLast_concat], by simp⟩
        obtain ⟨ord', ho, hne'⟩ := this
        rw [ho]
        simp only
        obtain ⟨r, hr⟩ := findAll_ok p m hp fuel (start + p.length) (suffix.drop p.length) false ord'
          (by simp; omega) (fun _ => hne')
        rw [hr]
        exact ⟨_, rfl⟩
      · rw [if_neg hm]
        cases suffix with
        | nil => exact ⟨_, rfl⟩
        | cons x xs =>
          simp only
          obtain ⟨r, hr⟩ := findAll_ok p m hp fuel (start + 1) xs true ord (by simp at hf; omega)
            (by intro h; cases h)
          rw [hr]
          exact ⟨_, rfl⟩
    · rw [if_neg hl]
      exact ⟨_, rfl⟩

/-! ### K. where a window can match -/

/-- no element of a block other than an unconsumed block of `s` is a kind of `s` -/
theorem nonown_block_notin {univ : List Block} (hwf : WF pat univ) (ld : Nat → Bool) (s : Nat)
    (hs : Block.mol s ∈ univ) (b : Block) (hb : b ∈ univ) (hne : b ≠ Block.mol s) :
    ∀ x ∈ b.marked pat ld, x ∉ pat s := by
  intro x hx
  cases b with
  | foreign k =>
    simp only [Block.marked, List.mem_singleton] at hx
    subst hx
    exact hwf.foreign_disjoint s x hs hb
  | mol s' =>
    have hss : s ≠ s' := fun e => hne (by rw [e])
    simp only [Block.marked] at hx
    split at hx
    · have : x = -1 := (List.mem_replicate.mp hx).2
      intro hm
      have := hwf.nonneg s hs x hm
      omega
    · exact hwf.disjoint s s' hs hb hss x hx

/-- a position of the stream that holds a kind of the (unloaded) species `s` lies inside a block of `s` -/
theorem kind_in_own_block {univ : List Block} (hwf : WF pat univ) (ld : Nat → Bool) (s : Nat)
    (hs : Block.mol s ∈ univ) (hld : ld s = false) :
    ∀ (blocks : List Block) (i : Nat) (x : Int), (∀ b ∈ blocks, b ∈ univ) →
      (blockStream pat ld blocks)[i]? = some x → x ∈ pat s →
      ∃ pre post, blocks = pre ++ Block.mol s :: post ∧ blocksLen pat pre ≤ i ∧
        i < blocksLen pat pre + (pat s).length
  | [], i, x, _, h, _ => by simp [blockStream] at h
  | b :: bs, i, x, hm, h, hx => by
    simp only [blockStream, List.flatMap_cons] at h
    by_cases hi : i < (b.marked pat ld).length
    · rw [List.getElem?_append_left hi] at h
      have hmem : x ∈ b.marked pat ld := List.mem_of_getElem? h
      have hb : b = Block.mol s := by
        apply Classical.byContradiction
        intro hne
        exact nonown_block_notin pat hwf ld s hs b (hm b (by simp)) hne x hmem hx
      subst hb
      refine ⟨[], bs, rfl, by simp [blocksLen], ?_⟩
      rw [Block.marked_length] at hi
      simpa [blocksLen, Block.kinds] using hi
    · rw [List.getElem?_append_right (by omega)] at h
      obtain ⟨pre, post, e, h1, h2⟩ := kind_in_own_block hwf ld s hs hld bs _ x
        (fun b' hb' => hm b' (by simp [hb'])) h hx
      refine ⟨b :: pre, post, by rw [e]; rfl, ?_, ?_⟩
      · simp only [blocksLen]; rw [← Block.marked_length pat ld b]; omega
      · simp only [blocksLen]; rw [← Block.marked_length pat ld b]; omega

/-- a window of the stream equal to the pattern of an unloaded species starts inside a block of it -/
theorem window_in_own_block {univ : List Block} (hwf : WF pat univ) (ld : Nat → Bool) (s : Nat)
    (hs : Block.mol s ∈ univ) (hld : ld s = false) (blocks : List Block) (hm : ∀ b ∈ blocks, b ∈ univ) (i : Nat)
    (hw : ((blockStream pat ld blocks).drop i).take (pat s).length = pat s) :
    ∃ pre post, blocks = pre ++ Block.mol s :: post ∧ blocksLen pat pre ≤ i ∧
      i < blocksLen pat pre + (pat s).length := by
  have hpne := hwf.nonempty s hs
  obtain ⟨p0, pt, hp⟩ : ∃ p0 pt, pat s = p0 :: pt := by
    cases h : pat s with
    | nil => exact absurd h hpne
    | cons a t => exact ⟨a, t, rfl⟩
  have hi : (blockStream pat ld blocks)[i]? = some p0 := by
    have := congrArg (fun l => l[0]?) hw
    simp only [hp, List.length_cons, List.getElem?_cons_zero] at this
    rw [List.getElem?_take_of_lt (by omega), List.getElem?_drop] at this
    simpa using this
  exact kind_in_own_block pat hwf ld s hs hld blocks i p0 hm hi (by rw [hp]; simp)

/-- the first match of `_check_index_in_available_mgro` is the start of the first block of the species -/
theorem firstMatch_blocks {univ : List Block} (hwf : WF pat univ) (ld : Nat → Bool) (s : Nat)
    (hs : Block.mol s ∈ univ) (hld : ld s = false) (pre post : List Block)
    (hpre : Block.mol s ∉ pre) (hm : ∀ b ∈ pre, b ∈ univ) :
    firstMatch (blockStream pat ld (pre ++ Block.mol s :: post)) (pat s) = .ok (blocksLen pat pre) := by
  have hpne := hwf.nonempty s hs
  obtain ⟨p0, pt, hp⟩ : ∃ p0 pt, pat s = p0 :: pt := by
    cases h : pat s with
    | nil => exact absurd h hpne
    | cons a t => exact ⟨a, t, rfl⟩
  have hsplit : blockStream pat ld (pre ++ Block.mol s :: post) =
      blockStream pat ld pre ++ (pat s ++ blockStream pat ld post) := by
    simp [blockStream, Block.marked, hld]
  have hne : ∀ x ∈ blockStream pat ld pre, x ≠ p0 := by
    intro x hx
    obtain ⟨b, hb, hxb⟩ := List.mem_flatMap.mp hx
    have := nonown_block_notin pat hwf ld s hs b (hm b hb) (fun e => hpre (e ▸ hb)) x hxb
    intro e
    exact this (by rw [e, hp]; simp)
  unfold firstMatch
  rw [hsplit, firstMatchGo_skip (pat s) p0 pt hp _ 0 _ hne, firstMatchGo_hit (pat s) hpne,
    blockStream_length]
  simp

/-! ### L. labelling instances by species: the loading order does not matter -/

theorem rankOf_some {order : List Nat} {s : Nat} (h : s ∈ order) : ∃ m, rankOf order s = some m := by
  induction order with
  | nil => cases h
  | cons x xs ih =>
    by_cases hx : x = s
    · exact ⟨0, by simp [rankOf, hx]⟩
    · rcases List.mem_cons.mp h with rfl | h
      · exact absurd rfl hx
      · obtain ⟨m, hm⟩ := ih h
        exact ⟨m + 1, by simp [rankOf, hx, hm]⟩

/-- the expected answer with species instead of `different_molecules` indices -/
def expectedS (loaded : Nat → Bool) : Nat → List Block → List (Nat × Nat × Nat)
  | _, [] => []
  | off, b :: bs =>
    (match b with
      | .mol s => if loaded s then [(s, off, off + (pat s).length)] else []
      | .foreign _ => []) ++ expectedS loaded (off + (b.kinds pat).length) bs

/-- replace the index in `different_molecules` by the species loaded at that index -/
def relabel (order : List Nat) (inst : List Entry) : List (Option Nat × Nat × Nat) :=
  inst.map (fun e => (order[e.1]?, e.2.1, e.2.2))

theorem relabel_expected (order : List Nat) : ∀ (blocks : List Block) (off : Nat),
    relabel order (expected pat (rankOf order) off blocks) =
      (expectedS pat (ldOf order) off blocks).map (fun e => (some e.1, e.2.1, e.2.2))
  | [], _ => rfl
  | b :: bs, off => by
    simp only [expected, expectedS, relabel, List.map_append]
    have ih := relabel_expected order bs (off + (b.kinds pat).length)
    simp only [relabel] at ih
    rw [ih]
    congr 1
    cases b with
    | foreign k => rfl
    | mol s =>
      simp only [blockInst]
      by_cases hs : s ∈ order
      · obtain ⟨m, hm⟩ := rankOf_some hs
        have : ldOf order s = true := by simp [ldOf, hs]
        simp [hm, this, rankOf_get hm]
      · have : ldOf order s = false := by simp [ldOf, hs]
        simp [rankOf_none hs, this]

theorem ldOf_perm {o1 o2 : List Nat} (h : o1.Perm o2) : ldOf o1 = ldOf o2 := by
  funext x
  simp only [ldOf, List.contains_eq_mem]
  exact decide_eq_decide.mpr h.mem_iff

/-! ### M. length -/

theorem instancesGo_length (lens : List Nat) : ∀ (ord inst : List Entry),
    instancesGo lens ord = .ok inst → (ord.map (·.2.2)).sum = inst.length
  | [], inst, h => by simp [instancesGo] at h; subst h; rfl
  | (m, st, amt) :: rest, inst, h => by
    rw [instancesGo] at h
    cases hl : lens[m]? with
    | none => rw [hl] at h; cases h
    | some L =>
      rw [hl] at h
      simp only at h
      cases hr : instancesGo lens rest with
      | error e => rw [hr] at h; cases h
      | ok tl =>
        rw [hr] at h
        simp only [Except.ok.injEq] at h
        subst h
        simp [instancesGo_length lens rest tl hr]

end Blocks

/-! ### N. the concrete `System` -/

/-- `Molecule(top, residues)` without the file: what `molAt` computes once the residues are known -/
def molPure (mols : List Mol) (gs : List Residue) (e : Entry) : Except PyErr (Nat × Mol) :=
  match mols[e.1]? with
  | none => .error .IndexError
  | some m =>
    match isliceExt gs (some (e.2.1 : Int)) (some (e.2.2 : Int)) none with
    | .error er => .error er
    | .ok residues =>
      match mkMolecule m.top residues with
      | .error er => .error er
      | .ok mol => .ok (e.1, mol)

def molsPure (mols : List Mol) (gs : List Residue) : List Entry → Except PyErr (List (Nat × Mol))
  | [] => .ok []
  | e :: rest =>
    match molPure mols gs e with
    | .error er => .error er
    | .ok m =>
      match molsPure mols gs rest with
      | .ok ms => .ok (m :: ms)
      | .error er => .error er

theorem molAt_pure (s : Sys) (gs : List Residue) (hL : Loaded s.gro s.sg gs) (c : Cursor) (e : Entry) :
    (molAt s c e).1 = molPure s.mols gs e := by
  unfold molAt molPure
  cases s.mols[e.1]? with
  | none => rfl
  | some m =>
    simp only
    have := getSlice_spec s.gro s.sg gs hL c (some (e.2.1 : Int)) (some (e.2.2 : Int)) none
    cases hg : getSlice s.gro s.sg c (some (e.2.1 : Int)) (some (e.2.2 : Int)) none with
    | mk r c1 =>
      rw [hg] at this
      simp only at this
      rw [← this]
      cases r with
      | error er => rfl
      | ok residues =>
        simp only
        cases mkMolecule m.top residues <;> rfl

theorem molsAt_pure (s : Sys) (gs : List Residue) (hL : Loaded s.gro s.sg gs) :
    ∀ (sel : List Entry) (c : Cursor), (molsAt s sel c).1 = molsPure s.mols gs sel
  | [], _ => rfl
  | e :: rest, c => by
    have h1 := molAt_pure s gs hL c e
    rw [molsAt, molsPure]
    cases hm : molAt s c e with
    | mk r c1 =>
      rw [hm] at h1
      simp only at h1
      rw [← h1]
      cases r with
      | error er => rfl
      | ok m =>
        simp only
        have h2 := molsAt_pure s gs hL rest c1
        cases hr : molsAt s rest c1 with
        | mk r2 c2 =>
          rw [hr] at h2
          simp only at h2
          rw [← h2]
          cases r2 <;> rfl

theorem mapM_mkResidue_ok : ∀ (rs rs' : List Residue), rs.mapM mkResidue = .ok rs' → rs' = rs
  | [], rs', h => by simp [List.mapM_nil, pure, Except.pure] at h; exact h
  | r :: rs, rs', h => by
    rw [List.mapM_cons] at h
    cases hr : mkResidue r with
    | error e => rw [hr] at h; simp [bind, Except.bind] at h
    | ok r' =>
      have hrr : r' = r := by
        unfold mkResidue at hr
        cases r with
        | nil => cases hr
        | cons a t =>
          simp only at hr
          split at hr
          · injection hr with hr; exact hr.symm
          · cases hr
      rw [hr] at h
      simp only [bind, Except.bind] at h
      cases hm : rs.mapM mkResidue with
      | error e => rw [hm] at h; simp at h
      | ok tl =>
        rw [hm] at h
        simp only [pure, Except.pure, Except.ok.injEq] at h
        rw [← h, hrr, mapM_mkResidue_ok rs tl hm]

/-- a constructed `Molecule` holds exactly the residues it was given, and they matched the topology
    atom by atom (residue name and atom name) -/
theorem mkMolecule_ok {t : Top} {rs : List Residue} {mol : Mol} (h : mkMolecule t rs = .ok mol) :
    mol.top = t ∧ mol.residues = rs ∧ molMatch t rs = true := by
  unfold mkMolecule at h
  by_cases hm : molMatch t rs = true
  · rw [if_pos hm] at h
    cases hr : rs.mapM mkResidue with
    | error e => rw [hr] at h; cases h
    | ok rs' =>
      rw [hr] at h
      simp only [Except.ok.injEq] at h
      subst h
      exact ⟨rfl, mapM_mkResidue_ok rs rs' hr, hm⟩
  · rw [if_neg hm] at h; cases h

/-- `view[a:b]` for `0 ≤ a ≤ b ≤ len(view)` is the contiguous piece `gs[a], …, gs[b-1]` -/
theorem isliceExt_window {α : Type} (l : List α) (a b : Nat) (hab : a ≤ b) (hb : b ≤ l.length) :
    isliceExt l (some (a : Int)) (some (b : Int)) none = .ok ((l.drop a).take (b - a)) := by
  unfold isliceExt sliceIndices
  simp only [Option.getD_none]
  have e1 : (if (a : Int) < 0 then max ((a : Int) + (l.length : Int)) 0 else min (a : Int) (l.length : Int)) = a := by
    rw [if_neg (by omega)]; omega
  have e2 : (if (b : Int) < 0 then max ((b : Int) + (l.length : Int)) 0 else min (b : Int) (l.length : Int)) = b := by
    rw [if_neg (by omega)]; omega
  simp only [e1, e2]
  have e3 : (if (a : Int) < b then (((b : Int) - a - 1) / 1 + 1).toNat else 0) = b - a := by
    split
    · rw [Int.ediv_one]; omega
    · omega
  simp only [show ((1 : Int) = 0) = False by simp, if_false, show ((1 : Int) > 0) = True by simp, if_true, e3,
    List.filterMap_map]
  congr 1
  have hlen : ((l.drop a).take (b - a)).length = b - a := by simp; omega
  have := filterMap_range_get ((l.drop a).take (b - a))
    ((fun i => l[i]?) ∘ fun (j : Nat) => ((a : Int) + (j : Int) * 1).toNat) (by
      intro i hi
      rw [hlen] at hi
      simp only [Function.comp]
      rw [List.getElem?_take_of_lt hi, List.getElem?_drop]
      congr 1
      omega)
  rw [hlen] at this
  exact this

theorem firstMatch_ok_ne_nil {av p : List Int} {start : Nat} (h : firstMatch av p = .ok start) : p ≠ [] :=
  (firstMatchGo_sound p av 0 start h).2.1

/-- **nothing is touched when `add_molecule_top` raises** (except the file cursor) -/
theorem addMoleculeTop_error_unchanged (s : Sys) (t : Top) (e : PyErr)
    (h : (addMoleculeTop s t).1 = .error e) :
    (addMoleculeTop s t).2.mols = s.mols ∧ (addMoleculeTop s t).2.ordered = s.ordered ∧
    (addMoleculeTop s t).2.avail = s.avail ∧ (addMoleculeTop s t).2.sg = s.sg ∧
    (addMoleculeTop s t).2.gro = s.gro := by
  unfold addMoleculeTop at h ⊢
  cases h1 : resnameLenList t with
  | error e1 => simp
  | ok rl =>
    simp only [h1] at h ⊢
    cases h2 : lookupPattern s.sg.pk rl with
    | error e2 => simp
    | ok p =>
      simp only [h2] at h ⊢
      cases h3 : firstMatch s.avail p with
      | error e3 => simp
      | ok start =>
        simp only [h3] at h ⊢
        cases h4 : buildAt s t p.length start with
        | mk r c =>
          simp only [h4] at h ⊢
          cases r with
          | error e4 => simp
          | ok mol =>
            simp only at h ⊢
            exfalso
            obtain ⟨r, hr⟩ := findAll_ok p s.mols.length (firstMatch_ok_ne_nil h3) (s.avail.length + 1) start
              (s.avail.drop start) true s.ordered (by simp; omega) (by intro h; cases h)
            rw [hr] at h
            obtain ⟨tl, ord⟩ := r
            simp at h

/-- the concrete `add_molecule_top` is `addPattern` on the projection `Sys.toRec`, with `check`
    instantiated by the real residue read + `Molecule(...)` construction -/
theorem addMoleculeTop_rec (s : Sys) (t : Top) (rl : List (Str × Nat)) (p : List Int)
    (h1 : resnameLenList t = .ok rl) (h2 : lookupPattern s.sg.pk rl = .ok p) :
    match addPattern s.toRec p (fun start => (buildAt s t p.length start).1.map (fun m => m.residues.length)) with
    | .ok st' => (addMoleculeTop s t).1 = .ok () ∧ (addMoleculeTop s t).2.toRec = st'
    | .error e => (addMoleculeTop s t).1 = .error e := by
  unfold addMoleculeTop addPattern
  simp only [h1, h2, Sys.toRec]
  cases h3 : firstMatch s.avail p with
  | error e3 => simp
  | ok start =>
    simp only
    cases h4 : buildAt s t p.length start with
    | mk r c =>
      cases r with
      | error e4 => simp [Except.map]
      | ok mol =>
        simp only [Except.map, List.length_map]
        cases h5 : findAll p s.mols.length (s.avail.length + 1) start (s.avail.drop start) true s.ordered with
        | error e5 => simp
        | ok r =>
          obtain ⟨tl, ord⟩ := r
          simp


/-! ### O. `except StopIteration` is inert for molecule construction -/

theorem isliceExt_error {α : Type} (l : List α) (a b st : Option Int) (e : PyErr)
    (h : isliceExt l a b st = .error e) : e = .ValueError := by
  unfold isliceExt at h
  cases hs : sliceIndices l.length a b st with
  | ok idx => rw [hs] at h; cases h
  | error e' =>
    rw [hs] at h
    injection h with h
    subst h
    unfold sliceIndices at hs
    dsimp only at hs
    by_cases h0 : st.getD 1 = 0
    · rw [if_pos h0] at hs
      injection hs with hs; exact hs.symm
    · rw [if_neg h0] at hs
      by_cases h1 : st.getD 1 > 0
      · rw [if_pos h1] at hs; cases hs
      · rw [if_neg h1] at hs; cases hs

theorem mkResidue_error (r : List AtomRec) (e : PyErr) (h : mkResidue r = .error e) : e = .ValueError := by
  unfold mkResidue at h
  cases r with
  | nil => injection h with h; exact h.symm
  | cons a t =>
    simp only at h
    split at h
    · cases h
    · injection h with h; exact h.symm

theorem mapM_mkResidue_error : ∀ (rs : List Residue) (e : PyErr), rs.mapM mkResidue = .error e → e = .ValueError
  | [], e, h => by simp [List.mapM_nil, pure, Except.pure] at h
  | r :: rs, e, h => by
    rw [List.mapM_cons] at h
    cases hr : mkResidue r with
    | error e' =>
      rw [hr] at h
      simp only [bind, Except.bind] at h
      injection h with h
      subst h
      exact mkResidue_error r _ hr
    | ok r' =>
      rw [hr] at h
      simp only [bind, Except.bind] at h
      cases hm : rs.mapM mkResidue with
      | error e' =>
        rw [hm] at h
        simp only at h
        injection h with h
        subst h
        exact mapM_mkResidue_error rs _ hm
      | ok tl => rw [hm] at h; simp [pure, Except.pure] at h

theorem mkMolecule_error (t : Top) (rs : List Residue) (e : PyErr) (h : mkMolecule t rs = .error e) :
    e = .IOError ∨ e = .ValueError := by
  unfold mkMolecule at h
  split at h
  · cases hm : rs.mapM mkResidue with
    | ok rs' => rw [hm] at h; cases h
    | error e' =>
      rw [hm] at h
      injection h with h
      subst h
      exact Or.inr (mapM_mkResidue_error rs _ hm)
  · injection h with h; exact Or.inl h.symm

theorem molPure_error (mols : List Mol) (gs : List Residue) (en : Entry) (e : PyErr)
    (h : molPure mols gs en = .error e) : e ≠ .StopIteration := by
  unfold molPure at h
  cases hm : mols[en.1]? with
  | none => rw [hm] at h; injection h with h; subst h; simp
  | some m =>
    rw [hm] at h
    simp only at h
    cases hs : isliceExt gs (some (en.2.1 : Int)) (some (en.2.2 : Int)) none with
    | error e' =>
      rw [hs] at h
      injection h with h
      subst h
      rw [isliceExt_error _ _ _ _ _ hs]; simp
    | ok rs =>
      rw [hs] at h
      simp only at h
      cases hk : mkMolecule m.top rs with
      | ok mol => rw [hk] at h; cases h
      | error e' =>
        rw [hk] at h
        injection h with h
        subst h
        rcases mkMolecule_error _ _ _ hk with h | h <;> rw [h] <;> simp

theorem molsPure_error (mols : List Mol) (gs : List Residue) : ∀ (sel : List Entry) (e : PyErr),
    molsPure mols gs sel = .error e → e ≠ .StopIteration
  | [], e, h => by cases h
  | en :: rest, e, h => by
    rw [molsPure] at h
    cases hm : molPure mols gs en with
    | error e' =>
      rw [hm] at h
      injection h with h
      subst h
      exact molPure_error mols gs en _ hm
    | ok m =>
      rw [hm] at h
      simp only at h
      cases hr : molsPure mols gs rest with
      | ok ms => rw [hr] at h; cases h
      | error e' =>
        rw [hr] at h
        injection h with h
        subst h
        exact molsPure_error mols gs rest _ hr

theorem stopToIndex_id {β : Type} (r : Except PyErr β) (h : ∀ e, r = .error e → e ≠ .StopIteration) :
    stopToIndex r = r := by
  unfold stopToIndex
  cases r with
  | ok x => rfl
  | error e =>
    cases e <;> first | rfl | exact absurd rfl (h _ rfl)

/-! ### P. composition -/

/-- value of a counter kept as an association list -/
def counterGet (acc : List (Str × Nat)) (nm : Str) : Nat := ((acc.filter (·.1 == nm)).map (·.2)).sum

theorem counterGet_cons (q : Str × Nat) (acc : List (Str × Nat)) (x : Str) :
    counterGet (q :: acc) x = (if q.1 == x then q.2 else 0) + counterGet acc x := by
  unfold counterGet
  by_cases h : q.1 == x <;> simp [h]

theorem counterGet_append (a b : List (Str × Nat)) (x : Str) :
    counterGet (a ++ b) x = counterGet a x + counterGet b x := by
  simp [counterGet, List.filter_append, List.sum_append]

theorem counterGet_map_upd (nm : Str) (k : Nat) : ∀ (acc : List (Str × Nat)) (x : Str),
    (acc.map (·.1)).Nodup → acc.any (·.1 == nm) = true →
    counterGet (acc.map (fun q => if q.1 == nm then (q.1, q.2 + k) else q)) x =
      counterGet acc x + (if nm == x then k else 0)
  | [], _, _, h => by simp at h
  | q :: rest, x, hnd, hany => by
    simp only [List.map_cons, List.nodup_cons] at hnd
    obtain ⟨hq, hnd'⟩ := hnd
    rw [List.map_cons, counterGet_cons, counterGet_cons]
    by_cases hqn : q.1 == nm
    · have hqe : q.1 = nm := eq_of_beq hqn
      have hrest : rest.map (fun q => if q.1 == nm then (q.1, q.2 + k) else q) = rest := by
        calc rest.map (fun q => if q.1 == nm then (q.1, q.2 + k) else q) = rest.map id :=
              List.map_congr_left (fun r hr => by
                have : ¬ (r.1 == nm) = true := by
                  intro h
                  apply hq
                  rw [hqe, ← eq_of_beq h]
                  exact List.mem_map_of_mem hr
                simp [this])
          _ = rest := List.map_id _
      rw [hrest]
      simp only [hqe]
      by_cases hx : nm == x <;> simp [hx] <;> omega
    · have hany' : rest.any (·.1 == nm) = true := by
        simp only [List.any_cons, Bool.or_eq_true] at hany
        rcases hany with h | h
        · exact absurd h hqn
        · exact h
      rw [counterGet_map_upd nm k rest x hnd' hany']
      simp only [hqn]
      simp only [Bool.false_eq_true, if_false]
      omega

theorem counterAdd_get (acc : List (Str × Nat)) (nm : Str) (k : Nat) (x : Str) (hnd : (acc.map (·.1)).Nodup) :
    counterGet (counterAdd acc nm k) x = counterGet acc x + (if nm == x then k else 0) := by
  unfold counterAdd
  by_cases h : acc.any (·.1 == nm) = true
  · rw [if_pos h]
    exact counterGet_map_upd nm k acc x hnd h
  · rw [if_neg h, counterGet_append]
    congr 1
    unfold counterGet
    by_cases hx : nm == x
    · simp [hx]
    · simp [hx]

theorem counterAdd_nodup (acc : List (Str × Nat)) (nm : Str) (k : Nat) (hnd : (acc.map (·.1)).Nodup) :
    ((counterAdd acc nm k).map (·.1)).Nodup := by
  unfold counterAdd
  by_cases h : acc.any (·.1 == nm) = true
  · rw [if_pos h, List.map_map]
    have : ((fun x : Str × Nat => x.1) ∘ fun q => if q.1 == nm then (q.1, q.2 + k) else q) = (·.1) := by
      funext q; simp only [Function.comp]; split <;> rfl
    rw [this]; exact hnd
  · rw [if_neg h, List.map_append, List.nodup_append]
    refine ⟨hnd, by simp, ?_⟩
    intro a ha b hb
    simp only [List.map_cons, List.map_nil, List.mem_singleton] at hb
    subst hb
    intro e
    apply h
    obtain ⟨q, hq, hqa⟩ := List.mem_map.mp ha
    exact List.any_eq_true.mpr ⟨q, hq, by simp [hqa, e]⟩

/-- `System.composition`: for every name, the counter holds the total `amount` of the entries of
    `_molecules_ordered` whose species has that name -/
theorem composition_spec (s : Sys) (comp : List (Str × Nat)) (h : s.composition = .ok comp) (x : Str) :
    counterGet comp x =
      ((s.ordered.filter (fun e => (s.mols[e.1]?.map (fun m => m.top.name)) == some x)).map (·.2.2)).sum := by
  unfold Sys.composition at h
  have gen : ∀ (ord : List Entry) (acc comp : List (Str × Nat)), (acc.map (·.1)).Nodup →
      ord.foldlM (fun (acc : List (Str × Nat)) (e : Entry) =>
        match s.mols[e.1]? with
        | some m => (Except.ok (counterAdd acc m.top.name e.2.2) : Except PyErr _)
        | none => .error .IndexError) acc = .ok comp →
      counterGet comp x = counterGet acc x +
        ((ord.filter (fun e => (s.mols[e.1]?.map (fun m => m.top.name)) == some x)).map (·.2.2)).sum := by
    intro ord
    induction ord with
    | nil =>
      intro acc comp _ h
      simp only [List.foldlM_nil, pure, Except.pure, Except.ok.injEq] at h
      subst h; simp
    | cons e rest ih =>
      intro acc comp hnd h
      rw [List.foldlM_cons] at h
      cases hm : s.mols[e.1]? with
      | none => rw [hm] at h; simp [bind, Except.bind] at h
      | some m =>
        rw [hm] at h
        simp only [bind, Except.bind] at h
        rw [ih _ comp (counterAdd_nodup acc m.top.name e.2.2 hnd) h, counterAdd_get _ _ _ _ hnd]
        simp only [List.filter_cons, hm, Option.map_some]
        by_cases hx : m.top.name == x
        · have : (some m.top.name == some x) = true := by simpa using hx
          simp [hx, this]; omega
        · have : (some m.top.name == some x) = false := by simpa using hx
          simp [hx, this]
  have := gen s.ordered [] comp (by simp) h
  simpa [counterGet] using this

/-- the instance generator yields `amount` instances per entry, all with the entry's index -/
theorem instancesGo_count (lens : List Nat) (P : Nat → Bool) : ∀ (ord inst : List Entry),
    instancesGo lens ord = .ok inst →
    ((ord.filter (fun e => P e.1)).map (·.2.2)).sum = (inst.filter (fun e => P e.1)).length
  | [], inst, h => by simp [instancesGo] at h; subst h; rfl
  | (m, st, amt) :: rest, inst, h => by
    rw [instancesGo] at h
    cases hl : lens[m]? with
    | none => rw [hl] at h; cases h
    | some L =>
      rw [hl] at h
      simp only at h
      cases hr : instancesGo lens rest with
      | error e => rw [hr] at h; cases h
      | ok tl =>
        rw [hr] at h
        simp only [Except.ok.injEq] at h
        subst h
        have ih := instancesGo_count lens P rest tl hr
        rw [List.filter_append, List.length_append, ← ih, List.filter_cons]
        by_cases hp : P m
        · have : (List.range amt).filter (fun _ => true) = List.range amt :=
            List.filter_eq_self.mpr (fun _ _ => rfl)
          simp [hp, List.filter_map, Function.comp_def, this]
        · simp [hp, List.filter_map, Function.comp_def]

end SRec
