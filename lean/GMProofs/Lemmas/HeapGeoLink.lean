import GMProofs.Lemmas.HeapEvolve
import GMProofs.Lemmas.EMapDefinedL
import GMModel.EMapGeo
/-
  GMProofs.Lemmas.HeapGeoLink — the heap model of the exchange map (C04), instantiated with the
  concrete geometry `concreteGeo s`, computes what the numeric model of C01–C03
  (`GMModel.ExchangeMap`: `refsystemsGeneral`, `EMap.build`, `EMap.apply`) computes.
-/

namespace GMHeap

variable {α : Type} [Scalar α]

/-- a molecule on which the heap model and the list model can be compared: well formed (`MolWF`),
    readable topology atoms whose `index` is their position (true of every `MoleculeTop` read from
    a file) and whose bond list is sorted (the heap keeps `sorted(bonds)`) -/
structure NumWF (h : Heap α) (m : Nat) (v : MolView) (cs : List (AtomGroC α)) (tcs : List AtomTopC) :
    Prop where
  wf : MolWF h m v cs
  tops : readTops h v.tops = some tcs
  index : ∀ (i : Nat) (tc : AtomTopC), tcs[i]? = some tc → tc.index = i
  sorted : ∀ tc ∈ tcs, sortNat tc.bonds = tc.bonds

theorem readTops_get {h : Heap α} {ts : List Nat} {cs : List AtomTopC}
    (hr : readTops h ts = some cs) {k t : Nat} (hk : ts[k]? = some t) :
    ∃ c, h.top? t = some c ∧ cs[k]? = some c := by
  induction ts generalizing cs k with
  | nil => simp at hk
  | cons x xs ih =>
    simp only [readTops] at hr
    cases h1 : h.top? x with
    | none => simp [h1] at hr
    | some c =>
      cases h2 : readTops h xs with
      | none => simp [h1, h2] at hr
      | some cs' =>
        simp only [h1, h2, Option.some.injEq] at hr
        subst hr
        cases k with
        | zero => simp at hk; subst hk; exact ⟨c, h1, rfl⟩
        | succ k =>
          simp at hk
          obtain ⟨c', e1, e2⟩ := ih h2 hk
          exact ⟨c', e1, by simpa using e2⟩

/-- `mol[k]` on a well-formed molecule: the k-th topology atom and the k-th coordinate atom -/
theorem molItem_ok_view {h : Heap α} {m : Nat} {v : MolView} {cs : List (AtomGroC α)}
    (w : MolWF h m v cs) {k t g : Nat} (e2 : molItem v k = .ok (t, g)) :
    v.tops[k]? = some t ∧ v.gros[k]? = some g := by
  have hg : v.gros = v.parts.flatten := (molView_gros w.view).1
  have hk : k < v.parts.flatten.length := by
    unfold molItem at e2
    cases e4 : v.each[k]? with
    | none => simp [e4] at e2
    | some ri =>
      have : k < v.each.length := (List.getElem?_eq_some_iff.mp e4).1
      rw [w.each, eachOf_length] at this
      exact this
  obtain ⟨t1, g1, a1, a2, a3⟩ := molItem_eq w.each hk (by rw [← hg]; exact w.len)
  rw [e2] at a3
  injection a3 with a3
  injection a3 with a3 a4
  subst a3; subst a4
  exact ⟨a1, by rw [hg]; exact a2⟩

/-- `molecule[j].position` is the j-th position of the molecule -/
theorem itemPos_ok {h : Heap α} {m : Nat} {v : MolView} {cs : List (AtomGroC α)} (w : MolWF h m v cs)
    {j : Nat} {p : V3 α} (hi : itemPos h v j = .ok p) : (cs.map (·.pos))[j]? = some p := by
  unfold itemPos at hi
  cases e1 : molItem v j with
  | error e => simp [e1] at hi
  | ok tg =>
    obtain ⟨t, g⟩ := tg
    simp only [e1] at hi
    cases e2 : matchErr h t g with
    | some e => simp [e2] at hi
    | none =>
      simp only [e2] at hi
      cases e3 : h.gro? g with
      | none => simp [e3] at hi
      | some c =>
        simp only [e3, Except.ok.injEq] at hi
        obtain ⟨c', hc', hk⟩ := readGros_get w.cells (molItem_ok_view w e1).2
        rw [e3] at hc'
        injection hc' with hc'
        subst hc'
        rw [List.getElem?_map, hk, ← hi]
        rfl

theorem lookupFrame_cons (k : Nat) (F : _root_.Frame α) (tab : List (Nat × _root_.Frame α)) (a : Nat) :
    lookupFrame ((k, F) :: tab) a = if k = a then some F else lookupFrame tab a := by
  unfold lookupFrame
  by_cases e : k = a
  · subst e; simp
  · have : (k == a) = false := by simpa using e
    simp [List.find?_cons, this, e]

theorem lookupFrame_none {tab : List (Nat × _root_.Frame α)} {a : Nat} (h : a ∉ tab.map (·.1)) :
    lookupFrame tab a = none := by
  induction tab with
  | nil => rfl
  | cons x xs ih =>
    obtain ⟨k, F⟩ := x
    simp only [List.map_cons, List.mem_cons, not_or] at h
    rw [lookupFrame_cons, if_neg (fun e => h.1 e.symm)]
    exact ih h.2

/-- the anchor filter of `anchorsOf` -/
def isAnchor (nbrs : List (List Nat)) (i : Nat) : Bool := decide (2 ≤ (nbrs.getD i []).length)

/-- the loop of `_calculate_refsystems_general` over the atoms `k, k+1, …` computes the entries
    `frameAt pos nbrs a` of the list model for the anchors among them -/
theorem calcLoop_refsys (s : α) (h : Heap α) (v : MolView) (pos : List (V3 α)) (nbrs : List (List Nat))
    (hitem : ∀ j p, itemPos h v j = .ok p → pos[j]? = some p)
    (pairs : List (Nat × Nat)) (k : Nat)
    (hrec : ∀ i t g, pairs[i]? = some (t, g) → ∃ tc gc, h.top? t = some tc ∧ h.gro? g = some gc ∧
      tc.index = k + i ∧ sortNat tc.bonds = tc.bonds ∧ nbrs[k + i]? = some tc.bonds ∧
      pos[k + i]? = some gc.pos)
    (T T' : List (Nat × _root_.Frame α)) (hok : calcLoop (concreteGeo s) h v pairs T = (T', none)) :
    ∃ tab, optMapM (fun a => (frameAt pos nbrs a).map (fun F => (a, F)))
        ((List.range' k pairs.length).filter (isAnchor nbrs)) = some tab ∧
      ∀ a, T'.lookup a = (match lookupFrame tab a with
        | some F => some F
        | none => T.lookup a) := by
  induction pairs generalizing k T with
  | nil =>
    simp only [calcLoop, Prod.mk.injEq, and_true] at hok
    subst hok
    exact ⟨[], rfl, fun a => rfl⟩
  | cons p ps ih =>
    obtain ⟨t, g⟩ := p
    obtain ⟨tc, gc, e2, e3, hidx, hsort, hnb, hpos⟩ := hrec 0 t g rfl
    simp only [Nat.add_zero] at hidx hnb hpos
    have hrec' : ∀ i t g, ps[i]? = some (t, g) → ∃ tc gc, h.top? t = some tc ∧ h.gro? g = some gc ∧
        tc.index = (k + 1) + i ∧ sortNat tc.bonds = tc.bonds ∧ nbrs[(k + 1) + i]? = some tc.bonds ∧
        pos[(k + 1) + i]? = some gc.pos := by
      intro i t' g' hi
      have := hrec (i + 1) t' g' (by simpa using hi)
      rw [show k + (i + 1) = k + 1 + i by omega] at this
      exact this
    have hgetD : nbrs.getD k [] = tc.bonds := by
      rw [List.getD_eq_getElem?_getD, hnb]; rfl
    simp only [calcLoop] at hok
    cases e1 : matchErr h t g with
    | some e => simp [e1] at hok
    | none =>
      simp only [e1, e2, e3] at hok
      by_cases hb : tc.bonds.length ≥ 2
      · rw [if_pos hb] at hok
        cases e4 : tc.bonds with
        | nil => simp [e4] at hok
        | cons i1 rest =>
          cases rest with
          | nil => simp [e4] at hok
          | cons i2 rest2 =>
            simp only [e4] at hok
            cases e5 : itemPos h v i1 with
            | error e => simp [e5] at hok
            | ok p1 =>
              simp only [e5] at hok
              cases e6 : itemPos h v i2 with
              | error e => simp [e6] at hok
              | ok p2 =>
                simp only [e6] at hok
                obtain ⟨tab1, ht1, hl1⟩ := ih (k + 1) hrec' _ hok
                have hanch : isAnchor nbrs k = true := by
                  simp only [isAnchor, hgetD, decide_eq_true_eq]; exact hb
                have hct : closestTwo tc.bonds = some (i1, i2) := by
                  unfold closestTwo; rw [hsort, e4]
                have hfr : frameAt pos nbrs k = some (calculeBase gc.pos p1 p2) := by
                  unfold frameAt
                  simp [hpos, hnb, hct, hitem i1 p1 e5, hitem i2 p2 e6]
                have hkeys : k ∉ tab1.map (·.1) := by
                  rw [optMapM_keys _ _ _ ht1]
                  simp only [List.mem_filter, List.mem_range'_1, not_and]
                  intro hk; omega
                refine ⟨(k, calculeBase gc.pos p1 p2) :: tab1, ?_, ?_⟩
                · simp only [List.length_cons, List.range'_succ, List.filter_cons, hanch, ↓reduceIte,
                    optMapM, hfr, Option.map_some, ht1]
                · intro a
                  rw [hl1 a, lookupFrame_cons]
                  by_cases hka : k = a
                  · subst hka
                    rw [lookupFrame_none hkeys, if_pos rfl]
                    simp only [concreteGeo, hidx, lookup_dictSet, ↓reduceIte]
                  · rw [if_neg hka]
                    cases lookupFrame tab1 a with
                    | some F => rfl
                    | none =>
                      simp only [hidx, lookup_dictSet]
                      rw [if_neg (fun e => hka e.symm)]
      · rw [if_neg hb] at hok
        obtain ⟨tab1, ht1, hl1⟩ := ih (k + 1) hrec' _ hok
        have hanch : isAnchor nbrs k = false := by
          simp only [isAnchor, hgetD, decide_eq_false_iff_not]; exact hb
        refine ⟨tab1, ?_, hl1⟩
        simp only [List.length_cons, List.range'_succ, List.filter_cons, hanch, Bool.false_eq_true,
          ↓reduceIte, ht1]

theorem refsystems_ge3 (pos : List (V3 α)) (nbrs : List (List Nat)) (rands : List (V3 α))
    (h : 3 ≤ pos.length) : refsystems pos nbrs rands = refsystemsGeneral pos nbrs := by
  unfold refsystems
  have h1 : (pos.length == 1) = false := by simp; omega
  have h2 : (pos.length == 2) = false := by simp; omega
  simp [h1, h2]

theorem NumWF.lengths {h : Heap α} {m : Nat} {v : MolView} {cs : List (AtomGroC α)} {tcs : List AtomTopC}
    (nw : NumWF h m v cs tcs) :
    cs.length = v.gros.length ∧ tcs.length = v.tops.length ∧ v.tops.length = v.gros.length ∧
      v.each.length = v.gros.length := by
  refine ⟨readGros_length nw.wf.cells, readTops_length nw.tops, nw.wf.len, ?_⟩
  rw [nw.wf.each, eachOf_length, (molView_gros nw.wf.view).1]

/-- the i-th atom of a `NumWF` molecule -/
theorem NumWF.atom {h : Heap α} {m : Nat} {v : MolView} {cs : List (AtomGroC α)} {tcs : List AtomTopC}
    (nw : NumWF h m v cs tcs) {i t g : Nat} (hi : (v.tops.zip v.gros)[i]? = some (t, g)) :
    ∃ tc gc, h.top? t = some tc ∧ h.gro? g = some gc ∧ tcs[i]? = some tc ∧ cs[i]? = some gc ∧
      tc.index = i ∧ sortNat tc.bonds = tc.bonds := by
  rw [List.getElem?_zip_eq_some] at hi
  obtain ⟨tc, h1, h2⟩ := readTops_get nw.tops hi.1
  obtain ⟨gc, h3, h4⟩ := readGros_get nw.wf.cells hi.2
  exact ⟨tc, gc, h1, h3, h2, h4, nw.index i tc h2, nw.sorted tc (List.mem_of_getElem? h2)⟩

/-- (a) THE FRAME TABLE.  For a `NumWF` molecule of at least three atoms on which
    `_calculate_refsystems` does not raise, the table the heap model computes from the EMPTY table and
    the table `refsystemsGeneral positions bonds` of the list model (C01–C03) are the same finite map:
    the same frame under every key (and no entry under a non-key). -/
theorem pureTable_is_refsystems (s : α) {h : Heap α} {m : Nat} {v : MolView} {cs : List (AtomGroC α)}
    {tcs : List AtomTopC} (nw : NumWF h m v cs tcs) (h3 : 3 ≤ cs.length)
    (hok : (calcRefs (concreteGeo s) h m []).2 = none) :
    ∃ tab, refsystemsGeneral (cs.map (·.pos)) (tcs.map (·.bonds)) = some tab ∧
      ∀ a, (pureTable (concreteGeo s) h m).lookup a = lookupFrame tab a := by
  obtain ⟨l1, l2, l3, l4⟩ := nw.lengths
  unfold pureTable
  unfold calcRefs at hok ⊢
  simp only [nw.wf.view] at hok ⊢
  rw [if_neg (by omega)] at hok ⊢
  rw [if_neg (by simpa using l3)] at hok ⊢
  obtain ⟨tab, ht, hl⟩ := calcLoop_refsys s h v (cs.map (·.pos)) (tcs.map (·.bonds))
    (fun j p hj => itemPos_ok nw.wf hj) (v.tops.zip v.gros) 0
    (by
      intro i t g hi
      obtain ⟨tc, gc, a1, a2, a3, a4, a5, a6⟩ := nw.atom hi
      exact ⟨tc, gc, a1, a2, by simpa using a5, a6, by simp [a3], by simp [a4]⟩)
    [] _ (Prod.ext rfl hok)
  refine ⟨tab, ?_, ?_⟩
  · unfold refsystemsGeneral anchorsOf
    have hn : (v.tops.zip v.gros).length = (tcs.map (·.bonds)).length := by
      simp only [List.length_zip, List.length_map]; omega
    rw [hn, ← List.range_eq_range'] at ht
    exact ht
  · intro a
    rw [hl a]
    cases lookupFrame tab a <;> rfl

/-! ### (b) a call computes `EMap.apply` -/

theorem call_ok_calcRefs {F P : Type} (G : Geo α F P) (h : Heap α) (E : GMHeap.EMap F P) (m : Nat)
    (hok : (call G h E (some (.mol m))).err = none) : (calcRefs G h m []).2 = none := by
  rw [(calcRefs_agree G h m (Sub.nil E.table)).1.symm]
  simp only [call] at hok
  cases e1 : molEq h E.ref m with
  | error e => simp [e1] at hok
  | ok b =>
    cases b with
    | false => simp [e1] at hok
    | true =>
      simp only [e1] at hok
      rcases e2 : calcRefs G h m E.table with ⟨tb, _ | er⟩
      · rfl
      · simp [e2] at hok

/-- reading the stored tables in target-atom order -/
theorem purePos_lists {F P : Type} (G : Geo α F P) (equiv : List (Nat × Nat)) (tcoords : List (Nat × P))
    (T : List (Nat × F)) (idxs : List Nat) (poss : List (V3 α))
    (hp : idxs.map (purePos G equiv tcoords T) = poss.map some) :
    ∃ (el : List Nat) (pl : List P), idxs.map (fun i => equiv.lookup i) = el.map some ∧
      idxs.map (fun i => tcoords.lookup i) = pl.map some ∧ el.length = pl.length ∧
      optMapM (fun (aq : Nat × P) => (T.lookup aq.1).map (fun f => G.restore f aq.2)) (el.zip pl) =
        some poss := by
  induction idxs generalizing poss with
  | nil =>
    cases poss with
    | nil => exact ⟨[], [], rfl, rfl, rfl, rfl⟩
    | cons p ps => simp at hp
  | cons i is ih =>
    cases poss with
    | nil => simp at hp
    | cons p ps =>
      simp only [List.map_cons, List.cons.injEq] at hp
      obtain ⟨el, pl, a1, a2, a3, a4⟩ := ih ps hp.2
      have h1 := hp.1
      unfold purePos at h1
      cases e1 : equiv.lookup i with
      | none => simp [e1] at h1
      | some a =>
        cases e2 : tcoords.lookup i with
        | none => simp [e1, e2] at h1
        | some q =>
          simp only [e1, e2] at h1
          refine ⟨a :: el, q :: pl, by simp [e1, a1], by simp [e2, a2], by simp [a3], ?_⟩
          simp only [List.zip_cons_cons, optMapM, h1, a4]

theorem zipWith_resid_pos_pos (vals : List Int) (tcs : List (AtomGroC α)) (poss : List (V3 α))
    (hp : poss.length = tcs.length) (hv : vals.length = tcs.length) :
    (List.zipWith (fun (n : Int) (g : AtomGroC α) => ({ g with resid := n } : AtomGroC α)) vals
      (List.zipWith (fun (c : AtomGroC α) (p : V3 α) => ({ c with pos := p } : AtomGroC α)) tcs poss)).map
        (·.pos) = poss := by
  induction tcs generalizing vals poss with
  | nil =>
    cases poss with
    | nil => cases vals <;> rfl
    | cons p ps => simp at hp
  | cons c cs ih =>
    cases vals with
    | nil => simp at hv
    | cons v vs =>
      cases poss with
      | nil => simp at hp
      | cons p ps =>
        simp only [List.length_cons, Nat.add_right_cancel_iff] at hp hv
        simp only [List.zipWith_cons_cons, List.map_cons, ih vs ps hp hv]

/-- (b) A CALL IS `EMap.apply`.  Under the hypotheses of `call_refines_pure`, with the concrete
    geometry: the positions of the returned molecule are `EMap.apply ⟨equiv, proj, s⟩ bonds argPos []`
    of the list model, where `equiv` / `proj` are the map's stored tables read in target-atom order,
    `bonds` / `argPos` the argument's bond lists and positions. -/
theorem call_is_exchange_apply_aux (s : α) (h : Heap α) (E : GMHeap.EMap (_root_.Frame α) (V3 α)) (m : Nat)
    {av : MolView} {acs : List (AtomGroC α)} {atcs : List AtomTopC} (nw : NumWF h m av acs atcs)
    (h3 : 3 ≤ acs.length) (l0 : List Int) (hl0 : residsOf h av.parts = some l0)
    (hcov : Covered (concreteGeo s) h m E.equiv)
    (hok : (call (concreteGeo s) h E (some (.mol m))).err = none) :
    ∃ nm nv cs' tv ttcs equivL projL,
      (call (concreteGeo s) h E (some (.mol m))).ret = some nm ∧
      molView (call (concreteGeo s) h E (some (.mol m))).heap nm = some nv ∧
      readGros (call (concreteGeo s) h E (some (.mol m))).heap nv.gros = some cs' ∧
      molView h E.tgt = some tv ∧ readTops h tv.tops = some ttcs ∧
      ttcs.map (fun tc => E.equiv.lookup tc.index) = equivL.map some ∧
      ttcs.map (fun tc => E.tcoords.lookup tc.index) = projL.map some ∧
      equivL.length = projL.length ∧
      _root_.EMap.apply (_root_.EMap.mk equivL projL s) (atcs.map (·.bonds)) (acs.map (·.pos)) [] =
        some (cs'.map (·.pos)) := by
  have hargold : ∀ g ∈ av.parts.flatten, g < h.size := by
    intro g hg
    rw [← (molView_gros nw.wf.view).1] at hg
    obtain ⟨c, hc⟩ := readGros_mem nw.wf.cells g hg
    exact gro?_lt hc
  obtain ⟨nm, nv, tv, tcs, ttcs, poss, vals, r1, r2, r3, r4, r5, r6, r7, _, _, r10, r11, r12⟩ :=
    call_refines_pure_core (concreteGeo s) h E m av l0 nw.wf.view hl0 hargold hcov hok
  obtain ⟨tab, ht, hl⟩ := pureTable_is_refsystems s nw h3 (call_ok_calcRefs _ h E m hok)
  have hidx : (ttcs.map (·.index)).map
      (purePos (concreteGeo s) E.equiv E.tcoords (pureTable (concreteGeo s) h m)) = poss.map some := by
    rw [List.map_map]; exact r5
  obtain ⟨el, pl, a1, a2, a3, a4⟩ := purePos_lists _ _ _ _ _ _ hidx
  rw [List.map_map] at a1 a2
  refine ⟨nm, nv, _, tv, ttcs, el, pl, r1, r7, r12, r2, r4, a1, a2, a3, ?_⟩
  -- positions of the returned records
  have hpos := zipWith_resid_pos_pos vals tcs poss r10 r11
  rw [hpos]
  unfold _root_.EMap.apply
  have hlen : 3 ≤ (acs.map (·.pos)).length := by simpa using h3
  simp only [refsystems_ge3 _ _ _ hlen, ht, Option.bind_eq_bind, Option.bind_some]
  have hfun : (fun (x : Nat × V3 α) =>
      match x with
      | (a, q) => (lookupFrame tab a).bind fun F => pure (restore F q)) =
      (fun (aq : Nat × V3 α) =>
        ((pureTable (concreteGeo s) h m).lookup aq.1).map (fun f => (concreteGeo s).restore f aq.2)) := by
    funext ⟨a, q⟩
    simp only [hl a]
    cases lookupFrame tab a <;> rfl
  rw [hfun]
  exact a4

/-! ### (c) construction on the heap is `EMap.build` -/

theorem closestCandAux_eq (pos : List (V3 α)) (t : V3 α) (cands : List (Nat × V3 α))
    (hc : ∀ c ∈ cands, pos[c.1]? = some c.2) (best : Option (α × Nat)) :
    closestCandAux t cands best = closestAnchorAux pos t (cands.map (·.1)) best := by
  induction cands generalizing best with
  | nil => rfl
  | cons c cs ih =>
    obtain ⟨a, pa⟩ := c
    have h1 : pos[a]? = some pa := hc (a, pa) (List.mem_cons_self ..)
    have ih' := ih (fun c hc' => hc c (List.mem_cons_of_mem _ hc'))
    simp only [closestCandAux, List.map_cons, closestAnchorAux, h1]
    cases best with
    | none => exact ih' _
    | some b =>
      obtain ⟨db, ab⟩ := b
      simp only
      split
      · exact ih' _
      · exact ih' _

theorem closestCand_eq (pos : List (V3 α)) (t : V3 α) (cands : List (Nat × V3 α))
    (hc : ∀ c ∈ cands, pos[c.1]? = some c.2) :
    closestCand cands t = closestAnchor pos (cands.map (·.1)) t := by
  unfold closestCand closestAnchor
  rw [closestCandAux_eq pos t cands hc]

theorem candsOf_spec {F : Type} {h : Heap α} {m : Nat} {v : MolView} {cs : List (AtomGroC α)}
    (w : MolWF h m v cs) (tb : List (Nat × F)) {cands : List (Nat × V3 α)}
    (hc : candsOf h v tb = .ok cands) :
    cands.map (·.1) = tb.map (·.1) ∧ ∀ c ∈ cands, (cs.map (·.pos))[c.1]? = some c.2 := by
  induction tb generalizing cands with
  | nil =>
    simp only [candsOf, Except.ok.injEq] at hc
    subst hc
    exact ⟨rfl, fun c hc => by cases hc⟩
  | cons e es ih =>
    obtain ⟨k, f⟩ := e
    simp only [candsOf] at hc
    cases e1 : itemPos h v k with
    | error e => simp [e1] at hc
    | ok p =>
      simp only [e1] at hc
      cases e2 : candsOf h v es with
      | error e => simp [e2] at hc
      | ok l =>
        simp only [e2, Except.ok.injEq] at hc
        subst hc
        obtain ⟨i1, i2⟩ := ih e2
        refine ⟨by simp [i1], ?_⟩
        intro c hc
        rcases List.mem_cons.mp hc with rfl | hc
        · exact itemPos_ok w e1
        · exact i2 c hc

theorem lookup_isSome_iff {β : Type} (d : List (Nat × β)) (a : Nat) :
    (∃ f, d.lookup a = some f) ↔ a ∈ d.map (·.1) := by
  induction d with
  | nil => simp
  | cons x xs ih =>
    obtain ⟨k, v⟩ := x
    simp only [List.lookup, List.map_cons, List.mem_cons]
    by_cases e : a = k
    · subst e; simp
    · have : (a == k) = false := by simpa using e
      simp only [this, e, false_or]
      exact ih

theorem lookupFrame_isSome_iff (tab : List (Nat × _root_.Frame α)) (a : Nat) :
    (∃ F, lookupFrame tab a = some F) ↔ a ∈ tab.map (·.1) := by
  induction tab with
  | nil => simp [lookupFrame]
  | cons x xs ih =>
    obtain ⟨k, F⟩ := x
    rw [lookupFrame_cons]
    simp only [List.map_cons, List.mem_cons]
    by_cases e : k = a
    · subst e; simp
    · simp only [e, ↓reduceIte, ih]
      constructor
      · exact Or.inr
      · rintro (h | h)
        · exact absurd h.symm e
        · exact h

end GMHeap

/-! #### the choice of the closest anchor does not depend on the order of the keys (ℝ) -/

theorem closestAnchor_perm {pos : List (V3 ℝ)} {keys1 keys2 : List Nat} {t : V3 ℝ} {a : Nat}
    (h1 : closestAnchor pos keys1 t = some a) (hset : ∀ k, k ∈ keys1 ↔ k ∈ keys2)
    (hr : ∀ k ∈ keys2, k < pos.length) : closestAnchor pos keys2 t = some a := by
  obtain ⟨ha1, pa, hpa, hmin1⟩ := closestAnchor_spec h1
  have hne : keys2 ≠ [] := by
    intro e
    have := (hset a).mp ha1
    rw [e] at this
    cases this
  obtain ⟨⟨d, a2⟩, hr2⟩ := closestAnchorAux_some pos t keys2 none hr (Or.inl hne)
  have h2 : closestAnchor pos keys2 t = some a2 := by simp [closestAnchor, hr2]
  obtain ⟨ha2, pa2, hpa2, hmin2⟩ := closestAnchor_spec h2
  have e1 := hmin1 a2 ((hset a2).mpr ha2) pa2 hpa2
  have e2 := hmin2 a ((hset a).mp ha1) pa hpa
  have hd : euclid t pa2 = euclid t pa := le_antisymm e2.1 e1.1
  have : a2 = a := Nat.le_antisymm (e2.2 hd.symm) (e1.2 hd)
  rw [h2, this]

namespace GMHeap

/-- the per-target-atom function of `EMap.build` -/
noncomputable def buildStep (pos : List (V3 ℝ)) (tab : List (Nat × _root_.Frame ℝ)) (s : ℝ) (t : V3 ℝ) :
    Option (Nat × V3 ℝ) := do
  let a ← closestAnchor pos (tab.map (·.1)) t
  let F ← lookupFrame tab a
  pure (a, project F s t)

/-- the loop of `_make_map` over the target atoms `k, k+1, …` computes `buildStep` per atom and
    stores the result under the atom's index -/
theorem makeMapLoop_link (s : ℝ) (h : Heap ℝ) {ref : Nat} {rv : MolView} {rcs : List (AtomGroC ℝ)}
    (w : MolWF h ref rv rcs) (tab : List (Nat × _root_.Frame ℝ))
    (hr : ∀ k ∈ tab.map (·.1), k < (rcs.map (·.pos)).length)
    (pairs : List (Nat × Nat)) (k : Nat) (tposs : List (V3 ℝ))
    (E E' : GMHeap.EMap (_root_.Frame ℝ) (V3 ℝ))
    (htab : ∀ a, E.table.lookup a = lookupFrame tab a)
    (hrec : ∀ i t g, pairs[i]? = some (t, g) → ∃ tc gc, h.top? t = some tc ∧ h.gro? g = some gc ∧
      tc.index = k + i ∧ tposs[i]? = some gc.pos)
    (hlen : tposs.length = pairs.length)
    (hok : makeMapLoop (concreteGeo s) h rv E pairs = (E', none)) :
    ∃ per, optMapM (buildStep (rcs.map (·.pos)) tab s) tposs = some per ∧
      (∀ i, i < per.length → E'.equiv.lookup (k + i) = per[i]?.map (·.1) ∧
        E'.tcoords.lookup (k + i) = per[i]?.map (·.2)) ∧
      (∀ idx, idx < k → E'.equiv.lookup idx = E.equiv.lookup idx ∧
        E'.tcoords.lookup idx = E.tcoords.lookup idx) := by
  induction pairs generalizing k tposs E with
  | nil =>
    simp only [makeMapLoop, Prod.mk.injEq, and_true] at hok
    subst hok
    have : tposs = [] := List.length_eq_zero_iff.mp (by simpa using hlen)
    subst this
    exact ⟨[], rfl, fun i hi => by simp at hi, fun _ _ => ⟨rfl, rfl⟩⟩
  | cons p ps ih =>
    obtain ⟨t, g⟩ := p
    obtain ⟨tc, gc, e2, e3, hidx, hpos⟩ := hrec 0 t g rfl
    simp only [Nat.add_zero] at hidx
    cases tposs with
    | nil => simp at hlen
    | cons tp tps =>
      simp only [List.getElem?_cons_zero, Option.some.injEq] at hpos
      subst hpos
      simp only [List.length_cons, Nat.add_right_cancel_iff] at hlen
      simp only [makeMapLoop] at hok
      cases e1 : matchErr h t g with
      | some e => simp [e1] at hok
      | none =>
        simp only [e1, e2, e3] at hok
        cases e4 : candsOf h rv E.table with
        | error e => simp [e4] at hok
        | ok cs =>
          simp only [e4] at hok
          cases e5 : (concreteGeo s).closest cs gc.pos with
          | none => simp [e5] at hok
          | some a0 =>
            simp only [e5] at hok
            cases e6 : E.table.lookup a0 with
            | none => simp [e6] at hok
            | some f0 =>
              simp only [e6] at hok
              -- the anchor chosen on the heap is the one the list model chooses
              obtain ⟨c1, c2⟩ := candsOf_spec w E.table e4
              have hca : closestAnchor (rcs.map (·.pos)) (tab.map (·.1)) gc.pos = some a0 := by
                have hc : closestAnchor (rcs.map (·.pos)) (E.table.map (·.1)) gc.pos = some a0 := by
                  rw [← c1, ← closestCand_eq _ _ _ c2]; exact e5
                refine closestAnchor_perm hc ?_ hr
                intro x
                rw [← lookup_isSome_iff, ← lookupFrame_isSome_iff]
                simp only [htab x]
              have hstep : buildStep (rcs.map (·.pos)) tab s gc.pos =
                  some (a0, project f0 s gc.pos) := by
                unfold buildStep
                simp [hca, ← htab a0, e6]
              obtain ⟨per1, hp1, hl1, hk1⟩ := ih (k + 1) tps
                { E with equiv := dictSet E.equiv tc.index a0,
                         tcoords := dictSet E.tcoords tc.index ((concreteGeo s).project f0 gc.pos) } htab
                (by
                  intro i t' g' hi
                  obtain ⟨tc', gc', b1, b2, b3, b4⟩ := hrec (i + 1) t' g' (by simpa using hi)
                  exact ⟨tc', gc', b1, b2, by omega, by simpa using b4⟩)
                hlen hok
              refine ⟨(a0, project f0 s gc.pos) :: per1, ?_, ?_, ?_⟩
              · simp only [optMapM, hstep, hp1]
              · intro i hi
                cases i with
                | zero =>
                  obtain ⟨q1, q2⟩ := hk1 k (by omega)
                  simp only [Nat.add_zero, q1, q2, hidx, lookup_dictSet, ↓reduceIte, List.getElem?_cons_zero,
                    Option.map_some, concreteGeo, and_self]
                | succ i =>
                  simp only [List.length_cons, Nat.add_lt_add_iff_right] at hi
                  have := hl1 i hi
                  rw [show k + (i + 1) = k + 1 + i by omega]
                  simpa using this
              · intro idx hidx'
                obtain ⟨q1, q2⟩ := hk1 idx (by omega)
                rw [q1, q2]
                simp only [hidx, lookup_dictSet]
                rw [if_neg (by omega), if_neg (by omega)]
                exact ⟨rfl, rfl⟩

/-- CONSTRUCTION ON THE HEAP IS `EMap.build`: the tables a successfully constructed heap map stores,
    read in target-atom order, are the `equiv` / `proj` of the list model's map built from the
    reference's positions and bond lists and the target's positions. -/
theorem build_is_exchange_build (s : ℝ) (h : Heap ℝ) (ref tgt : Nat)
    (E : GMHeap.EMap (_root_.Frame ℝ) (V3 ℝ)) (hb : build (concreteGeo s) h ref tgt = (E, none))
    {rv : MolView} {rcs : List (AtomGroC ℝ)} {rtcs : List AtomTopC} (nwr : NumWF h ref rv rcs rtcs)
    (h3 : 3 ≤ rcs.length)
    {tv : MolView} {tcs : List (AtomGroC ℝ)} {ttcs : List AtomTopC} (nwt : NumWF h tgt tv tcs ttcs) :
    ∃ m : _root_.EMap ℝ,
      _root_.EMap.build (rcs.map (·.pos)) (rtcs.map (·.bonds)) [] (tcs.map (·.pos)) s = some m ∧
      ttcs.map (fun tc => E.equiv.lookup tc.index) = m.equiv.map some ∧
      ttcs.map (fun tc => E.tcoords.lookup tc.index) = m.proj.map some ∧ m.scale = s := by
  unfold build at hb
  rcases e0 : calcRefs (concreteGeo s) h ref [] with ⟨tb, er⟩
  simp only [e0] at hb
  cases er with
  | some e => simp at hb
  | none =>
    simp only [nwr.wf.view, nwt.wf.view] at hb
    obtain ⟨l1, l2, l3, l4⟩ := nwt.lengths
    rw [if_neg (by simpa using l3)] at hb
    obtain ⟨tab, ht, hl⟩ := pureTable_is_refsystems s nwr h3 (by rw [e0])
    unfold pureTable at hl
    rw [e0] at hl
    simp only at hl
    obtain ⟨m1, m2, m3, m4⟩ := nwr.lengths
    have hr : ∀ k ∈ tab.map (·.1), k < (rcs.map (·.pos)).length := by
      intro k hk
      rw [refsystemsGeneral_keys ht] at hk
      simp only [anchorsOf, List.mem_filter, List.mem_range, List.length_map] at hk
      simp only [List.length_map]
      omega
    obtain ⟨per, hp, hlk, _⟩ := makeMapLoop_link s h nwr.wf tab hr (tv.tops.zip tv.gros) 0
      (tcs.map (·.pos)) _ E hl
      (by
        intro i t g hi
        obtain ⟨tc, gc, a1, a2, a3, a4, a5, _⟩ := nwt.atom hi
        exact ⟨tc, gc, a1, a2, by simpa using a5, by simp [a4]⟩)
      (by simp only [List.length_map, List.length_zip]; omega) hb
    have hperlen : per.length = tcs.length := by
      have := optMapM_length _ _ _ hp; simpa using this
    refine ⟨⟨per.map (·.1), per.map (·.2), s⟩, ?_, ?_, ?_, rfl⟩
    · unfold _root_.EMap.build
      have hlen : 3 ≤ (rcs.map (·.pos)).length := by simpa using h3
      simp only [refsystems_ge3 _ _ _ hlen, ht, Option.bind_eq_bind, Option.bind_some]
      have hp' : optMapM (fun t =>
            (closestAnchor (rcs.map (·.pos)) (tab.map (·.1)) t).bind fun a =>
              (lookupFrame tab a).bind fun F => pure (a, project F s t)) (tcs.map (·.pos)) = some per := hp
      rw [hp']
      rfl
    · apply List.ext_getElem?
      intro j
      simp only [List.getElem?_map]
      cases e : ttcs[j]? with
      | none =>
        have : per.length ≤ j := by
          have := List.getElem?_eq_none_iff.mp e; omega
        simp [List.getElem?_eq_none_iff.mpr this]
      | some tc =>
        have hj : j < per.length := by
          have := (List.getElem?_eq_some_iff.mp e).1; omega
        have := (hlk j hj).1
        simp only [Nat.zero_add] at this
        simp only [Option.map_some, nwt.index j tc e, this, List.getElem?_eq_getElem hj]
    · apply List.ext_getElem?
      intro j
      simp only [List.getElem?_map]
      cases e : ttcs[j]? with
      | none =>
        have : per.length ≤ j := by
          have := List.getElem?_eq_none_iff.mp e; omega
        simp [List.getElem?_eq_none_iff.mpr this]
      | some tc =>
        have hj : j < per.length := by
          have := (List.getElem?_eq_some_iff.mp e).1; omega
        have := (hlk j hj).2
        simp only [Nat.zero_add] at this
        simp only [Option.map_some, nwt.index j tc e, this, List.getElem?_eq_getElem hj]

end GMHeap

namespace GMHeap

theorem build_ok_calcRefs {α F P : Type} (G : Geo α F P) (h : Heap α) (ref tgt : Nat)
    (E : GMHeap.EMap F P) (hb : build G h ref tgt = (E, none)) : (calcRefs G h ref []).2 = none := by
  unfold build at hb
  rcases e0 : calcRefs G h ref [] with ⟨tb, er⟩
  simp only [e0] at hb
  cases er with
  | some e => simp at hb
  | none => rfl

/-- a molecule with the reference's bond lists is covered by a map constructed from the reference -/
theorem covered_of_same_bonds (s : ℝ) {h0 h : Heap ℝ} {ref tgt m : Nat}
    {E : GMHeap.EMap (_root_.Frame ℝ) (V3 ℝ)} (hb : build (concreteGeo s) h0 ref tgt = (E, none))
    {rv : MolView} {rcs : List (AtomGroC ℝ)} {rtcs : List AtomTopC} (nwr : NumWF h0 ref rv rcs rtcs)
    (h3 : 3 ≤ rcs.length)
    {av : MolView} {acs : List (AtomGroC ℝ)} {atcs : List AtomTopC} (nwa : NumWF h m av acs atcs)
    (h3a : 3 ≤ acs.length) (hbonds : atcs.map (·.bonds) = rtcs.map (·.bonds))
    (hok : (calcRefs (concreteGeo s) h m []).2 = none) : Covered (concreteGeo s) h m E.equiv := by
  intro idx a hl
  have hanch := (build_equiv_anchors _ h0 ref tgt E hb).2.2 idx a hl
  have hr0 := build_ok_calcRefs _ h0 ref tgt E hb
  obtain ⟨f, hf⟩ := (pureTable_keys _ h0 ref hr0 a).mpr hanch
  obtain ⟨tabR, htR, hlR⟩ := pureTable_is_refsystems s nwr h3 hr0
  obtain ⟨tabA, htA, hlA⟩ := pureTable_is_refsystems s nwa h3a hok
  rw [hlR a] at hf
  have hk : a ∈ tabR.map (·.1) := (lookupFrame_isSome_iff tabR a).mp ⟨f, hf⟩
  rw [refsystemsGeneral_keys htR, ← hbonds, ← refsystemsGeneral_keys htA] at hk
  obtain ⟨F, hF⟩ := (lookupFrame_isSome_iff tabA a).mpr hk
  exact ⟨F, by rw [hlA a]; exact hF⟩

end GMHeap
