import GMModel.Gro
import GMProofs.Lemmas.PyStrL
import GMProofs.Lemmas.GroLineL
/-
  The lattice line: `extract_lattice_gro(dump_lattice_gro(box) + "\n")`. (core Lean only)
-/
open PyStr PyStrL Gro

namespace GroL

def joinSp : List (List Nat) → List Nat
  | [] => []
  | [a] => a
  | a :: b :: t => a ++ sp :: joinSp (b :: t)

theorem intercalate_eq_joinSp (l : List (List Nat)) : [sp].intercalate l = joinSp l := by
  induction l with
  | nil => rfl
  | cons a t ih =>
    cases t with
    | nil => simp [List.intercalate, joinSp]
    | cons b t' =>
      simp only [joinSp]
      rw [← ih]
      simp [List.intercalate, List.intersperse]

theorem joinSp_chars {P : Nat → Prop} (l : List (List Nat)) (hsp : P sp) (h : ∀ a ∈ l, ∀ c ∈ a, P c) :
    ∀ c ∈ joinSp l, P c := by
  induction l with
  | nil => simp [joinSp]
  | cons a t ih =>
    cases t with
    | nil => simpa [joinSp] using h
    | cons b t' =>
      intro c hc
      simp only [joinSp, List.mem_append, List.mem_cons] at hc
      rcases hc with hc | hc | hc
      · exact h a (by simp) c hc
      · rw [hc]; exact hsp
      · exact ih (fun a' ha' => h a' (by simp [ha'])) c hc

/-- a token of a numeric field: non-empty, no blank inside -/
def TokOk (b : List Nat) : Prop := b ≠ [] ∧ ∀ c ∈ b, isSpace c = false

/-- `(blank-padded tokens joined by one blank + "\n").split()` gives the tokens back -/
theorem split_joined (w : Nat) (bodies : List (List Nat)) (h : ∀ b ∈ bodies, TokOk b) :
    splitGo (joinSp (bodies.map (padLeft w)) ++ [nl]) [] = bodies := by
  induction bodies with
  | nil => simp [joinSp, splitGo, isSpace_nl]
  | cons b t ih =>
    have hb := h b (by simp)
    have hpad : ∀ c ∈ List.replicate (w - b.length) sp, isSpace c = true := by
      intro c hc; rw [(List.mem_replicate.mp hc).2]; decide
    cases t with
    | nil =>
      simp only [List.map_cons, List.map_nil, joinSp, padLeft]
      rw [splitGo_field _ _ _ hpad hb.1 hb.2 (by intro c hc; simp at hc; subst hc; exact isSpace_nl)]
      simp [splitGo, isSpace_nl]
    | cons b' t' =>
      simp only [List.map_cons, joinSp, padLeft]
      rw [List.append_assoc]
      rw [splitGo_field _ _ _ hpad hb.1 hb.2 (by intro c hc; simp at hc; subst hc; exact isSpace_sp)]
      have hsp : splitGo (sp :: (joinSp ((List.replicate (w - b'.length) sp ++ b') :: List.map (padLeft w) t') ++ [nl])) []
          = splitGo (joinSp ((List.replicate (w - b'.length) sp ++ b') :: List.map (padLeft w) t') ++ [nl]) [] := by
        simp [splitGo, isSpace_sp]
      rw [List.cons_append, hsp]
      have := ih (fun x hx => h x (by simp [hx]))
      simp only [List.map_cons, padLeft] at this
      rw [this]

theorem fixedBody_tok (d : Nat) (x : Dy) (hd : 1 ≤ d) : TokOk (fixedBody d x) := by
  rw [fixedBody_eq d x hd]
  obtain ⟨c0, t0, h0, _⟩ := fixedDigits_head d x
  constructor
  · rw [h0]; simp
  · intro c hc
    simp only [List.mem_append] at hc
    rcases hc with hc | hc
    · split at hc
      · simp at hc; subst hc; decide
      · simp at hc
    · rcases fixedDigits_chars d x c hc with h | h
      · subst h; decide
      · exact digit_not_space h

theorem pyFloat_fixedBody (d : Nat) (x : Dy) (hd : 1 ≤ d) : pyFloat (fixedBody d x) = .ok (roundDec d x) := by
  have := pyFloat_padded [] [] d x hd (by simp) (by simp)
  simpa using this

theorem mapM_pyFloat_bodies (d : Nat) (hd : 1 ≤ d) (vals : List Dy) :
    (vals.map (fixedBody d)).mapM pyFloat = .ok (vals.map (roundDec d)) := by
  induction vals with
  | nil => rfl
  | cons v t ih =>
    simp only [List.map_cons, List.mapM_cons, pyFloat_fixedBody d v hd, ih, bind, Except.bind, pure, Except.pure]

/-- the numbers `dump_lattice_gro` writes, in file order -/
def latticeVals (b : Box) : List Dy :=
  let diag := [b.m00, b.m11, b.m22]
  let off := [b.m01, b.m02, b.m10, b.m12, b.m20, b.m21]
  if off.any (fun v => !v.isZero) then diag ++ off else diag

theorem dumpLattice_eq (b : Box) : dumpLattice b = joinSp ((latticeVals b).map (fun v => padLeft 9 (fixedBody 5 v))) := by
  unfold dumpLattice latticeVals
  rw [intercalate_eq_joinSp]
  rfl

theorem latticeVals_length (b : Box) : (latticeVals b).length ≤ 9 := by
  unfold latticeVals; simp only; split <;> simp

/-- the numbers read from the lattice line of a written file -/
theorem split_dumpLattice (b : Box) :
    ((split (dumpLattice b ++ [nl])).take 9).mapM pyFloat = .ok ((latticeVals b).map (roundDec 5)) := by
  rw [dumpLattice_eq]
  have e : (latticeVals b).map (fun v => padLeft 9 (fixedBody 5 v))
      = ((latticeVals b).map (fixedBody 5)).map (padLeft 9) := by simp
  unfold split
  rw [e, split_joined 9 _ (by
    intro t ht
    obtain ⟨v, _, rfl⟩ := List.mem_map.mp ht
    exact fixedBody_tok 5 v (by decide))]
  rw [List.take_of_length_le (by simp; exact latticeVals_length b)]
  exact mapM_pyFloat_bodies 5 (by decide) _

/-- what the reader returns for the box of a written file: the exactly rounded entries (9-number form)
    or the rounded diagonal and zeros (3-number form, used when every off-diagonal entry is zero) -/
def roundBox (b : Box) : RBox :=
  if [b.m01, b.m02, b.m10, b.m12, b.m20, b.m21].any (fun v => !v.isZero) then
    ⟨roundDec 5 b.m00, roundDec 5 b.m01, roundDec 5 b.m02, roundDec 5 b.m10, roundDec 5 b.m11,
     roundDec 5 b.m12, roundDec 5 b.m20, roundDec 5 b.m21, roundDec 5 b.m22⟩
  else
    ⟨roundDec 5 b.m00, .zero, .zero, .zero, roundDec 5 b.m11, .zero, .zero, .zero, roundDec 5 b.m22⟩

/-- `lattice_roundtrip` core -/
theorem extractLattice_dumpLattice (b : Box) :
    extractLattice pyFloat (dumpLattice b ++ [nl]) = .ok (roundBox b) := by
  unfold extractLattice
  rw [split_dumpLattice]
  unfold latticeVals roundBox
  simp only [bind, Except.bind, pure, Except.pure]
  split
  · simp [nthOrZero]
  · simp [nthOrZero]

theorem dumpLattice_no_nl (b : Box) : nl ∉ dumpLattice b := by
  rw [dumpLattice_eq]
  intro hm
  have := joinSp_chars (P := (· ≠ nl)) _ (by decide) (by
    intro a ha c hc
    obtain ⟨v, _, rfl⟩ := List.mem_map.mp ha
    exact (fmtFixed_chars 9 5 v c hc).ne_nl) nl hm
  exact this rfl

theorem dumpLattice_ne_nil (b : Box) : dumpLattice b ≠ [] := by
  rw [dumpLattice_eq]
  unfold latticeVals
  simp only
  have hx : ∀ (v : Dy), padLeft 9 (fixedBody 5 v) ≠ [] := by
    intro v h
    have := (fixedBody_tok 5 v (by decide)).1
    unfold padLeft at h
    simp at h
    exact this h.2
  split
  · simp only [List.cons_append, List.map_cons, joinSp]
    intro h; simp at h
  · simp only [List.map_cons, joinSp]
    intro h; simp at h

end GroL
