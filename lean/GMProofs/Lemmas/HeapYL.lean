import GMProofs.Lemmas.CmpL
import GMModel.HeapY
/-
  GMProofs.Lemmas.HeapYL — lemmas for `GMModel/HeapY.lean` (work package WPI):
  the loop of `update_from_molecule_top`, `write_gro` as a writer session, the loop of `Molecule.index`.
-/

namespace GMHeap

variable {α : Type}

/-! ### `update_from_molecule_top` -/

/-- no AtomTop that the loop READS later is one it WROTE earlier: `tops2[j] ≠ tops[k]` for `k < j`.
    Holds when `mtop` is the molecule's own topology (pairwise distinct atoms) and when the two topologies
    share no atom. -/
def NoBack : List Nat → List Nat → Prop
  | t :: tops, _ :: tops2 => (∀ x ∈ tops2, x ≠ t) ∧ NoBack tops tops2
  | _, _ => True

theorem noBack_self : ∀ {tops : List Nat}, tops.Nodup → NoBack tops tops
  | [], _ => trivial
  | t :: tops, nd => by
    obtain ⟨hn, nd'⟩ := List.nodup_cons.mp nd
    exact ⟨fun x hx e => hn (e ▸ hx), noBack_self nd'⟩

theorem noBack_disjoint : ∀ {tops tops2 : List Nat}, (∀ x ∈ tops2, x ∉ tops) → NoBack tops tops2
  | [], l, _ => by cases l <;> exact trivial
  | _ :: _, [], _ => trivial
  | t :: tops, t2 :: tops2, hd => by
    refine ⟨fun x hx e => hd x (List.mem_cons_of_mem _ hx) (e ▸ List.mem_cons_self ..), ?_⟩
    exact noBack_disjoint (fun x hx hm => hd x (List.mem_cons_of_mem _ hx) (List.mem_cons_of_mem _ hm))

/-- the triples the loop of a Molecule runs over -/
def updTriples : List Nat → List Nat → List Nat → List ((Option Nat × Nat) × Nat)
  | t :: tops, g :: gros, t2 :: tops2 => ((some t, g), t2) :: updTriples tops gros tops2
  | _, _, _ => []

theorem updTriples_eq (tops gros tops2 : List Nat) :
    ((tops.zip gros).map (fun (t, g) => ((some t : Option Nat), g))).zip tops2 = updTriples tops gros tops2 := by
  induction tops generalizing gros tops2 with
  | nil => simp [updTriples]
  | cons t tops ih =>
    cases gros with
    | nil => simp [updTriples]
    | cons g gros =>
      cases tops2 with
      | nil => simp [updTriples]
      | cons t2 tops2 =>
        have := ih gros tops2
        simp only [List.zip_cons_cons, List.map_cons, updTriples] at this ⊢
        rw [this]

def setNameG (s : String) (c : AtomGroC α) : AtomGroC α := { c with name := s }
def setNameT (s : String) (c : AtomTopC) : AtomTopC := { c with name := s }

/-- CHECKED RENAMING LOOP of a Molecule: pairwise distinct topology atoms and coordinate atoms whose labels
    agree, a topology `tops2` of the same length whose later atoms are not among the molecule's earlier ones:
    the loop never raises; afterwards the k-th coordinate atom AND the k-th topology atom carry the name of the
    k-th atom of `tops2` and are otherwise as before; no other AtomGro / AtomTop cell is touched. -/
theorem updLoop_checked :
    ∀ (tops gros tops2 : List Nat) (h : Heap α) (ts : List AtomTopC) (cs : List (AtomGroC α)) (ts2 : List AtomTopC),
      tops.length = gros.length → tops2.length = gros.length → tops.Nodup → gros.Nodup →
      readTops h tops = some ts → readGros h gros = some cs → Agree ts cs →
      readTops h tops2 = some ts2 → NoBack tops tops2 →
      ∃ h', updLoop true h (updTriples tops gros tops2) = (h', none) ∧
        readGros h' gros = some (List.zipWith (fun c t2 => setNameG t2.name c) cs ts2) ∧
        readTops h' tops = some (List.zipWith (fun t t2 => setNameT t2.name t) ts ts2) ∧
        (∀ a, a ∉ gros → h'.gro? a = h.gro? a) ∧ (∀ a, a ∉ tops → h'.top? a = h.top? a) ∧
        Frame Rel.any (· ∈ gros ++ tops) h h' := by
  intro tops
  induction tops with
  | nil =>
    intro gros tops2 h ts cs ts2 hl hl2 _ _ hT hG _ hT2 _
    have : gros = [] := by cases gros <;> simp_all
    subst this
    have : tops2 = [] := by cases tops2 <;> simp_all
    subst this
    simp only [readTops, Option.some.injEq] at hT hT2
    simp only [readGros, Option.some.injEq] at hG
    subst hT; subst hG; subst hT2
    exact ⟨h, rfl, rfl, rfl, fun _ _ => rfl, fun _ _ => rfl, Frame.refl _ _ _⟩
  | cons t tops ih =>
    intro gros tops2 h ts cs ts2 hl hl2 ndT ndG hT hG hA hT2 hNB
    cases gros with
    | nil => simp at hl
    | cons g gros =>
      cases tops2 with
      | nil => simp at hl2
      | cons t2 tops2 =>
        obtain ⟨t0, ts', rfl, ht, hT'⟩ := readTops_cons_inv hT
        obtain ⟨c0, cs', rfl, hg, hG'⟩ := readGros_cons_inv hG
        obtain ⟨u0, ts2', rfl, hu, hT2'⟩ := readTops_cons_inv hT2
        obtain ⟨tnot, ndT'⟩ := List.nodup_cons.mp ndT
        obtain ⟨gnot, ndG'⟩ := List.nodup_cons.mp ndG
        simp only [List.length_cons, Nat.add_right_cancel_iff] at hl hl2
        obtain ⟨hnb1, hnb2⟩ := hNB
        let w : W α := ⟨some t, g, fun c => { c with name := u0.name }, some (fun c => { c with name := u0.name })⟩
        have hg1 : ∀ a, a ≠ g → (w.write h).gro? a = h.gro? a := fun a ha => W.write_gro?_ne h w ha
        have hg1s : (w.write h).gro? g = some (setNameG u0.name c0) := by
          have := W.write_gro?_self h w
          simpa [w, hg, setNameG] using this
        have ht1 : ∀ a, (w.write h).top? a = if a = t then (h.top? a).map (setNameT u0.name) else h.top? a := by
          intro a
          rw [W.write_top?]
          rfl
        have hT1 : readTops (w.write h) tops = some ts' := by
          rw [readTops_congr (h := h)]
          · exact hT'
          · intro a ha
            rw [ht1 a, if_neg (fun e : a = t => tnot (e ▸ ha))]
        have hG1 : readGros (w.write h) gros = some cs' := by
          rw [readGros_congr (h := h)]
          · exact hG'
          · intro a ha
            exact hg1 a (fun e : a = g => gnot (e ▸ ha))
        have hT21 : readTops (w.write h) tops2 = some ts2' := by
          rw [readTops_congr (h := h)]
          · exact hT2'
          · intro a ha
            rw [ht1 a, if_neg (hnb1 a ha)]
        obtain ⟨h', e1, e2, e3, e4, e5, e6⟩ :=
          ih gros tops2 (w.write h) ts' cs' ts2' hl hl2 ndT' ndG' hT1 hG1 hA.2 hT21 hnb2
        have fw : Frame Rel.any (· ∈ w.addrs) h (w.write h) :=
          frame_write Rel.any h w ⟨fun _ => trivial, fun _ _ _ => trivial⟩
        refine ⟨h', ?_, ?_, ?_, ?_, ?_, ?_⟩
        · simp only [updTriples, updLoop, W.checkErr, ↓reduceIte, matchErr_none_of_agree ht hg hA.1, hu]
          exact e1
        · simp only [readGros, List.zipWith_cons_cons, e2, e4 g gnot, hg1s]
        · simp only [readTops, List.zipWith_cons_cons, e3, e5 t tnot, ht1 t, ↓reduceIte, ht, Option.map_some]
        · intro a ha
          simp only [List.mem_cons, not_or] at ha
          rw [e4 a ha.2, hg1 a ha.1]
        · intro a ha
          simp only [List.mem_cons, not_or] at ha
          rw [e5 a ha.2, ht1 a, if_neg ha.1]
        · refine (fw.trans e6).mono ?_
          intro a ha
          rcases ha with ha | ha
          · have : a = g ∨ a = t := by simpa [W.addrs, w] using ha
            rcases this with rfl | rfl <;> simp
          · rcases List.mem_append.mp ha with ha | ha
            · exact List.mem_append_left _ (List.mem_cons_of_mem _ ha)
            · exact List.mem_append_right _ (List.mem_cons_of_mem _ ha)

/-- the pairs the loop of a Residue runs over -/
def updPairs : List Nat → List Nat → List ((Option Nat × Nat) × Nat)
  | g :: gros, t2 :: tops2 => ((none, g), t2) :: updPairs gros tops2
  | _, _ => []

theorem updPairs_eq (gros tops2 : List Nat) :
    (gros.map (fun g => ((none : Option Nat), g))).zip tops2 = updPairs gros tops2 := by
  induction gros generalizing tops2 with
  | nil => simp [updPairs]
  | cons g gros ih =>
    cases tops2 with
    | nil => simp [updPairs]
    | cons t2 tops2 =>
      have := ih tops2
      simp only [List.map_cons, List.zip_cons_cons, updPairs] at this ⊢
      rw [this]

/-- RENAMING LOOP of a Residue (pairwise distinct atoms): never raises; the k-th atom gets the name of the k-th
    atom of the topology and is otherwise as before; no AtomTop cell and no other AtomGro cell is touched. -/
theorem updLoop_residue :
    ∀ (gros tops2 : List Nat) (h : Heap α) (cs : List (AtomGroC α)) (ts2 : List AtomTopC),
      tops2.length = gros.length → gros.Nodup → readGros h gros = some cs → readTops h tops2 = some ts2 →
      ∃ h', updLoop false h (updPairs gros tops2) = (h', none) ∧
        readGros h' gros = some (List.zipWith (fun c t2 => setNameG t2.name c) cs ts2) ∧
        (∀ a, a ∉ gros → h'.gro? a = h.gro? a) ∧ (∀ a, h'.top? a = h.top? a) ∧
        Frame Rel.any (· ∈ gros) h h' := by
  intro gros
  induction gros with
  | nil =>
    intro tops2 h cs ts2 hl _ hG hT2
    have : tops2 = [] := by cases tops2 <;> simp_all
    subst this
    simp only [readGros, Option.some.injEq] at hG
    simp only [readTops, Option.some.injEq] at hT2
    subst hG; subst hT2
    exact ⟨h, rfl, rfl, fun _ _ => rfl, fun _ => rfl, Frame.refl _ _ _⟩
  | cons g gros ih =>
    intro tops2 h cs ts2 hl ndG hG hT2
    cases tops2 with
    | nil => simp at hl
    | cons t2 tops2 =>
      obtain ⟨c0, cs', rfl, hg, hG'⟩ := readGros_cons_inv hG
      obtain ⟨u0, ts2', rfl, hu, hT2'⟩ := readTops_cons_inv hT2
      obtain ⟨gnot, ndG'⟩ := List.nodup_cons.mp ndG
      simp only [List.length_cons, Nat.add_right_cancel_iff] at hl
      let w : W α := ⟨none, g, fun c => { c with name := u0.name }, none⟩
      have hg1 : ∀ a, a ≠ g → (w.write h).gro? a = h.gro? a := fun a ha => W.write_gro?_ne h w ha
      have hg1s : (w.write h).gro? g = some (setNameG u0.name c0) := by
        have := W.write_gro?_self h w
        simpa [w, hg, setNameG] using this
      have ht1 : ∀ a, (w.write h).top? a = h.top? a := fun a => W.write_top?_none h w a rfl
      have hG1 : readGros (w.write h) gros = some cs' := by
        rw [readGros_congr (h := h)]
        · exact hG'
        · intro a ha
          exact hg1 a (fun e : a = g => gnot (e ▸ ha))
      have hT21 : readTops (w.write h) tops2 = some ts2' := by
        rw [readTops_congr (h := h)]
        · exact hT2'
        · intro a _; exact ht1 a
      obtain ⟨h', e1, e2, e4, e5, e6⟩ := ih tops2 (w.write h) cs' ts2' hl ndG' hG1 hT21
      have fw : Frame Rel.any (· ∈ w.addrs) h (w.write h) :=
        frame_write Rel.any h w ⟨fun _ => trivial, fun _ hf => by cases hf⟩
      refine ⟨h', ?_, ?_, ?_, ?_, ?_⟩
      · simp only [updPairs, updLoop, Bool.false_eq_true, ↓reduceIte, hu]
        exact e1
      · simp only [readGros, List.zipWith_cons_cons, e2, e4 g gnot, hg1s]
      · intro a ha
        simp only [List.mem_cons, not_or] at ha
        rw [e4 a ha.2, hg1 a ha.1]
      · intro a; rw [e5 a, ht1 a]
      · refine (fw.trans e6).mono ?_
        intro a ha
        rcases ha with ha | ha
        · have : a = g := by simpa [W.addrs, w] using ha
          subst this; simp
        · exact List.mem_cons_of_mem _ ha

/-! ### `write_gro` -/

/-- iterating a Residue writes exactly the records of its atoms -/
theorem writeGros_eq_writeRecs (toDy : α → Option PyStr.Dy) {h : Heap α} :
    ∀ (gros : List Nat) (cs : List (AtomGroC α)) (rs : List Gro.Rec) (w : Gro.WState),
      readGros h gros = some cs → RecsOf toDy cs rs → writeGros toDy h gros w = Cmp.writeRecs rs w := by
  intro gros
  induction gros with
  | nil =>
    intro cs rs w hG hR
    simp only [readGros, Option.some.injEq] at hG
    subst hG
    cases rs with
    | nil => rfl
    | cons r rs => exact hR.elim
  | cons g gros ih =>
    intro cs rs w hG hR
    obtain ⟨c0, cs', rfl, hg, hG'⟩ := readGros_cons_inv hG
    cases rs with
    | nil => exact hR.elim
    | cons r rs =>
      simp only [writeGros, hg, hR.1, Cmp.writeRecs]
      cases hs : Gro.step w (.writeLine r) with
      | mk w1 oe =>
        cases oe with
        | some e => rfl
        | none => exact ih cs' rs w1 hG' hR.2

/-- the aborting loop over `pre ++ r :: post` when every record of `pre` is taken and `r` is refused -/
theorem writeRecs_stops : ∀ (pre : List Gro.Rec) (r : Gro.Rec) (post : List Gro.Rec) (w : Gro.WState) (e : PyStr.PyErr),
    (∀ x ∈ (Gro.run w (pre.map Gro.Op.writeLine)).2, x = none) →
    Gro.step (Gro.run w (pre.map Gro.Op.writeLine)).1 (.writeLine r) =
      ((Gro.run w (pre.map Gro.Op.writeLine)).1, some e) →
    Cmp.writeRecs (pre ++ r :: post) w = ((Gro.run w (pre.map Gro.Op.writeLine)).1, some (Cmp.ofGroErr e))
  | [], r, post, w, e, _, hs => by
    simp only [List.map_nil, Gro.run] at hs
    simp only [List.nil_append, Cmp.writeRecs, hs, List.map_nil, Gro.run]
  | p :: pre, r, post, w, e, hok, hs => by
    simp only [List.map_cons, Gro.run] at hok hs ⊢
    cases hp : Gro.step w (.writeLine p) with
    | mk w1 oe =>
      simp only [hp] at hok hs ⊢
      have h0 : oe = none := hok oe (by simp)
      subst h0
      simp only [List.cons_append, Cmp.writeRecs, hp]
      exact writeRecs_stops pre r post w1 e (fun x hx => hok x (by simp [hx])) hs

/-! the writer's bookkeeping across `writeline` calls -/

theorem writeLineBody_fields {s s1 : Gro.WState} {r : Gro.Rec} (h : Gro.writeLineBody s r = (s1, none)) :
    s1.initPos = s.initPos ∧ s1.fmtPos = s.fmtPos ∧ s1.fmtVel = s.fmtVel := by
  unfold Gro.writeLineBody at h
  cases hf : s.fmtPos with
  | none => simp [hf] at h
  | some f =>
    simp only [hf] at h
    cases hp : Gro.parseAtomlist f s.fmtVel r with
    | error e => simp [hp] at h
    | ok line =>
      simp only [hp] at h
      split at h
      · simp at h
      · injection h with h1 _
        subst h1
        simp [Gro.WState.write, hf]

/-- a first `writeline` that succeeds fixes the velocity flag to that of its record -/
theorem writeLine_first {s s1 : Gro.WState} {r : Gro.Rec} (hi : s.initPos = none)
    (h : Gro.step s (Gro.Op.writeLine r) = (s1, none)) :
    s1.initPos.isSome = true ∧ s1.fmtPos.isSome = true ∧ s1.fmtVel = some r.vel.isSome := by
  simp only [Gro.step, hi] at h
  unfold Gro.setupWrite at h
  simp only at h
  split at h
  · simp at h
  · split at h
    · simp at h
    · rename_i s' hb
      injection h with h1 _
      subst h1
      obtain ⟨a, b, c⟩ := writeLineBody_fields hb
      simp only [a, b, c]
      refine ⟨?_, ?_, ?_⟩
      · simp [Gro.writeHeader]
      · simp only [Gro.writeHeader]
        split <;> simp [Gro.WState.write]
      · simp only [Gro.writeHeader]
        split <;> simp [Gro.WState.write]

theorem writeLine_later {s s1 : Gro.WState} {r : Gro.Rec} {i : Nat} (hi : s.initPos = some i)
    (h : Gro.step s (Gro.Op.writeLine r) = (s1, none)) :
    s1.initPos = s.initPos ∧ s1.fmtPos = s.fmtPos ∧ s1.fmtVel = s.fmtVel := by
  simp only [Gro.step, hi] at h
  exact writeLineBody_fields h

/-- after the header exists, a record whose velocity presence differs from the first record's is refused with
    `IOError` and NOTHING is written -/
theorem writeLine_mismatch {s : Gro.WState} {r : Gro.Rec} {i : Nat} {f : Nat × Nat} {b : Bool}
    (hi : s.initPos = some i) (hf : s.fmtPos = some f) (hv : s.fmtVel = some b) (hne : b ≠ r.vel.isSome) :
    Gro.step s (Gro.Op.writeLine r) = (s, some PyStr.PyErr.ioError) := by
  simp only [Gro.step, hi, Gro.writeLineBody, hf, Gro.parseAtomlist, hv]
  rw [if_pos (by intro e; injection e with e; exact hne e)]

/-- the state after further records were written without an exception -/
theorem run_writeLines_fields : ∀ (pre : List Gro.Rec) (s : Gro.WState) (b : Bool) (i : Nat),
    s.initPos = some i → s.fmtPos.isSome = true → s.fmtVel = some b →
    (∀ x ∈ (Gro.run s (pre.map Gro.Op.writeLine)).2, x = none) →
    (Gro.run s (pre.map Gro.Op.writeLine)).1.initPos = some i ∧
      (Gro.run s (pre.map Gro.Op.writeLine)).1.fmtPos.isSome = true ∧
      (Gro.run s (pre.map Gro.Op.writeLine)).1.fmtVel = some b
  | [], s, b, i, hi, hf, hv, _ => ⟨hi, hf, hv⟩
  | p :: pre, s, b, i, hi, hf, hv, hok => by
    simp only [List.map_cons, Gro.run] at hok ⊢
    cases hp : Gro.step s (Gro.Op.writeLine p) with
    | mk s1 oe =>
      simp only [hp] at hok ⊢
      have h0 : oe = none := hok oe (by simp)
      subst h0
      obtain ⟨a, b', c⟩ := writeLine_later hi hp
      exact run_writeLines_fields pre s1 b i (a ▸ hi) (b' ▸ hf) (c ▸ hv) (fun x hx => hok x (by simp [hx]))

/-! ### `Molecule.index` -/

/-- the loop returned `k`: the atom at position `k - k0` equals the argument, every earlier atom was
    constructed and does not -/
theorem molIndexLoop_ok {h : Heap α} {t2 g2 : Nat} :
    ∀ (pairs : List (Nat × Nat)) (k0 k : Nat), molIndexLoop h (.atom t2 g2) pairs k0 = .ok k →
      ∃ j p, k = k0 + j ∧ pairs[j]? = some p ∧ atomEq h p.1 p.2 t2 g2 = .ok true ∧
        ∀ i, i < j → ∃ q, pairs[i]? = some q ∧ matchErr h q.1 q.2 = none ∧ atomEq h q.1 q.2 t2 g2 = .ok false
  | [], _, _, hk => by simp [molIndexLoop] at hk
  | (t, g) :: rest, k0, k, hk => by
    simp only [molIndexLoop] at hk
    cases hm : matchErr h t g with
    | some e => simp [hm] at hk
    | none =>
      simp only [hm] at hk
      cases he : atomEq h t g t2 g2 with
      | error e => simp [he] at hk
      | ok b =>
        cases b with
        | true =>
          simp only [he, Except.ok.injEq] at hk
          exact ⟨0, (t, g), by omega, rfl, he, fun i hi => by omega⟩
        | false =>
          simp only [he] at hk
          obtain ⟨j, p, hj, hp, hpe, hall⟩ := molIndexLoop_ok rest (k0 + 1) k hk
          refine ⟨j + 1, p, by omega, by simpa using hp, hpe, ?_⟩
          intro i hi
          cases i with
          | zero => exact ⟨(t, g), rfl, hm, he⟩
          | succ i =>
            obtain ⟨q, hq, hq1, hq2⟩ := hall i (by omega)
            exact ⟨q, by simpa using hq, hq1, hq2⟩

/-- the loop raised `ValueError`: it ran to the end — every `Atom` was constructed and none equals the argument -/
theorem molIndexLoop_valueError {h : Heap α} {x : Obj} :
    ∀ (pairs : List (Nat × Nat)) (k0 : Nat), molIndexLoop h x pairs k0 = .error .valueError →
      ∀ p ∈ pairs, matchErr h p.1 p.2 = none ∧
        ∀ t2 g2, x = .atom t2 g2 → atomEq h p.1 p.2 t2 g2 = .ok false
  | [], _, _ => fun _ hp => by cases hp
  | (t, g) :: rest, k0, hk => by
    simp only [molIndexLoop] at hk
    cases hm : matchErr h t g with
    | some e =>
      simp only [hm, Except.error.injEq] at hk
      unfold matchErr at hm
      split at hm
      · split at hm <;> simp_all
      · simp_all
    | none =>
      simp only [hm] at hk
      intro p hp
      cases x with
      | atom t2 g2 =>
        simp only at hk
        cases he : atomEq h t g t2 g2 with
        | error e =>
          simp only [he, Except.error.injEq] at hk
          unfold atomEq at he
          split at he <;> simp_all
        | ok b =>
          cases b with
          | true => simp [he] at hk
          | false =>
            simp only [he] at hk
            rcases List.mem_cons.mp hp with rfl | hp
            · exact ⟨hm, fun t2' g2' e => by injection e with e1 e2; subst e1; subst e2; exact he⟩
            · exact molIndexLoop_valueError rest (k0 + 1) hk p hp
      | mol a =>
        simp only at hk
        rcases List.mem_cons.mp hp with rfl | hp
        · exact ⟨hm, fun _ _ e => by cases e⟩
        · exact molIndexLoop_valueError rest (k0 + 1) hk p hp
      | res a =>
        simp only at hk
        rcases List.mem_cons.mp hp with rfl | hp
        · exact ⟨hm, fun _ _ e => by cases e⟩
        · exact molIndexLoop_valueError rest (k0 + 1) hk p hp
      | agro a =>
        simp only at hk
        rcases List.mem_cons.mp hp with rfl | hp
        · exact ⟨hm, fun _ _ e => by cases e⟩
        · exact molIndexLoop_valueError rest (k0 + 1) hk p hp

/-- an argument that is not an `Atom` is never found: on a molecule whose atoms can all be constructed the
    answer is `ValueError` -/
theorem molIndexLoop_non_atom {h : Heap α} {x : Obj} (hx : ∀ t g, x ≠ .atom t g) :
    ∀ (pairs : List (Nat × Nat)) (k0 : Nat), (∀ p ∈ pairs, matchErr h p.1 p.2 = none) →
      molIndexLoop h x pairs k0 = .error .valueError
  | [], _, _ => rfl
  | (t, g) :: rest, k0, hall => by
    have := hall (t, g) (List.mem_cons_self ..)
    simp only at this
    have ih := molIndexLoop_non_atom hx rest (k0 + 1) (fun p hp => hall p (List.mem_cons_of_mem _ hp))
    cases x with
    | atom t2 g2 => exact absurd rfl (hx t2 g2)
    | mol a => simp only [molIndexLoop, this, ih]
    | res a => simp only [molIndexLoop, this, ih]
    | agro a => simp only [molIndexLoop, this, ih]

end GMHeap
