import GMProofs.Lemmas.GroSessionL
import GMProofs.Lemmas.GroPrefixL
/-
  The rest of the `GroFile` API: pre-formatted string lines, tuples of a wrong length, the reader as a cursor
  machine (`seek_atom`, `readline(parsed=…)`, setters in read mode). (core Lean only)
-/
open PyStr PyStrL Gro

namespace GroL

/-! ### string lines after the header -/

/-- a later string line that is what `parse_atomlist` returns for `r` is the same operation as the record -/
theorem step_writeStr_eq {s : WState} {f : Nat × Nat} {r : Rec} {line : List Nat} {i : Nat}
    (hi : s.initPos = some i) (hf : s.fmtPos = some f) (hl : parseAtomlist f s.fmtVel r = .ok line) :
    step s (.writeStr line) = step s (.writeLine r) := by
  simp only [step, hi, writeStrBody, writeLineBody, hf, hl]

/-- a later line of a session: the record itself, or (flag `true`) the string `parse_atomlist` produces for it -/
def mixOp (w d : Nat) : Bool × Rec → Op
  | (false, r) => .writeLine r
  | (true, r) => .writeStr (atomText (w, d) r)

theorem step_mixOp {s0 s : WState} {w d : Nat} {vel : Bool} {L : Nat} {done : List Rec} (p : Bool × Rec)
    (h : Writing s0 s w d vel L done) (hr : RecOk w d vel p.2) :
    step s (mixOp w d p) = step s (.writeLine p.2) := by
  obtain ⟨b, r⟩ := p
  cases b with
  | false => rfl
  | true =>
    refine step_writeStr_eq h.initPos h.fmtPos ?_
    rw [h.fmtVel, parseAtomlist_ok w d vel r hr, atomText_names hr.resname hr.name]

/-- mixing both forms after the first record is the same run as records only -/
theorem run_mixed {s0 s : WState} {w d : Nat} {vel : Bool} {L : Nat} {done : List Rec}
    (items : List (Bool × Rec)) (h : Writing s0 s w d vel L done) (hr : ∀ p ∈ items, RecOk w d vel p.2) :
    run s (items.map (mixOp w d)) = run s ((items.map Prod.snd).map Op.writeLine) := by
  induction items generalizing s done with
  | nil => rfl
  | cons p t ih =>
    have hp := hr p (by simp)
    obtain ⟨s', hs', hw⟩ := writing_step h hp
    simp only [List.map_cons, run, step_mixOp p h hp, hs']
    rw [ih hw (fun x hx => hr x (by simp [hx]))]

theorem run_congr_append (s : WState) (a a' b : List Op) (h : run s a = run s a') :
    run s (a ++ b) = run s (a' ++ b) := by
  rw [run_append, run_append, h]

/-- a whole mixed session equals the records-only session -/
theorem session_mixed {s : WState} (hs : Pristine s) (r0 : Rec) (items : List (Bool × Rec)) (w d : Nat) (vel : Bool)
    (hf : s.effFormat = (w, d)) (hr : ∀ r ∈ r0 :: items.map Prod.snd, RecOk w d vel r)
    (ht : TitleOk s.effComment) :
    run s (Op.writeLine r0 :: (items.map (mixOp w d) ++ [Op.close]))
      = run s ((r0 :: items.map Prod.snd).map Op.writeLine ++ [Op.close]) := by
  obtain ⟨s1, hs1, hw1⟩ := setup_step hs r0 w d vel hf (hr r0 (by simp)) ht
  have hmix := run_mixed items hw1 (fun p hp => hr p.2 (by
    simp only [List.mem_cons, List.mem_map]
    exact Or.inr ⟨p, hp, rfl⟩))
  simp only [List.map_cons, List.cons_append, run, hs1]
  rw [run_congr_append s1 _ _ [Op.close] hmix]

/-! ### closing a session without records -/

/-- setters that do not declare a count leave it undeclared -/
theorem run_setters_natoms {s : WState} (ops : List Op) (hops : ∀ op ∈ ops, IsSetter op)
    (hn : ∀ op ∈ ops, ∀ n, op ≠ Op.setNatoms n) : (run s ops).1.natoms = s.natoms := by
  induction ops generalizing s with
  | nil => rfl
  | cons op t ih =>
    have ht := ih (s := (step s op).1) (fun x hx => hops x (by simp [hx])) (fun x hx => hn x (by simp [hx]))
    simp only [run]
    rw [ht]
    have h1 := hops op (by simp)
    cases op with
    | setComment v => rfl
    | setBox b => rfl
    | setNatoms n => exact absurd rfl (hn _ (by simp) n)
    | setPosFmt w d => rfl
    | writeLine r => exact absurd h1 (by simp [IsSetter])
    | close => exact absurd h1 (by simp [IsSetter])
    | setBoxBadShape => exact absurd h1 (by simp [IsSetter])
    | writeStr l => exact absurd h1 (by simp [IsSetter])
    | writeTup n => exact absurd h1 (by simp [IsSetter])

/-- `close()` before any record, no count declared: "Closing an empty file" — no error, nothing written,
    the file object is closed -/
theorem close_pristine_undeclared {s : WState} (hs : Pristine s) (hn : s.natoms = none) :
    step s .close = ({ s with closed := true }, none) := by
  simp only [step, closeOp, closeCount, hn, hs.cur, if_true]

/-- `close()` before any record never writes anything, declared count or not -/
theorem close_pristine_bytes {s : WState} (hs : Pristine s) : (step s .close).1.bytes = [] := by
  cases hn : s.natoms with
  | none => rw [close_pristine_undeclared hs hn]; exact hs.bytes
  | some n =>
    simp only [step, closeOp, closeCount, hn]
    by_cases hc : n ≠ s.cur
    · rw [if_pos hc]; exact hs.bytes
    · rw [if_neg hc]
      simp only [closeLattice, wSeekAtom, hs.initPos]
      rw [if_neg (by omega)]
      exact hs.bytes

/-! ### tuples of a wrong length -/

theorem writeTupBody_bad (s : WState) (n : Nat) (f : Nat × Nat) (hf : s.fmtPos = some f) (hn : n ≠ 7 ∧ n ≠ 10) :
    writeTupBody s n = (s, some .valueError) := by
  unfold writeTupBody parseAtomlistG
  simp only [hf]
  rw [if_neg (by omega)]

theorem writeHeader_fmtPos (s : WState) (c : List Nat) : (writeHeader s c).fmtPos = s.fmtPos := by
  unfold writeHeader
  simp only [WState.write]
  split <;> rfl

theorem writeHeader_lineSize (s : WState) (c : List Nat) : (writeHeader s c).lineSize = s.lineSize := by
  unfold writeHeader
  simp only [WState.write]
  split <;> rfl

theorem setupWriteTup_bad (s s1 : WState) (n : Nat)
    (hs1 : s1 = { s with fmtPos := some s.effFormat, fmtVel := some (n == 10) })
    (hclosed : s.closed = false) (hn : n ≠ 7 ∧ n ≠ 10) :
    setupWriteTup s n = (writeHeader s1 s1.effComment, some .valueError) := by
  subst hs1
  unfold setupWriteTup
  dsimp only
  split
  · rename_i h; rw [hclosed] at h; cases h
  · exact writeTupBody_bad _ n s.effFormat (by rw [writeHeader_fmtPos]) hn

/-! ### the reader as a cursor machine -/

theorem rSeekAtom_gt (s : RCur) (i : Int) (h : i > s.hdr.natoms) :
    rSeekAtom s i = ({ s with cur := i }, .error .indexError) := by
  unfold rSeekAtom
  dsimp only
  rw [if_pos h]

theorem rSeekAtom_neg (s : RCur) (i : Int) (h1 : ¬ i > s.hdr.natoms)
    (h2 : (s.hdr.initPos : Int) + i * (s.hdr.lineSize : Int) < 0) :
    rSeekAtom s i = ({ s with cur := i }, .error .valueError) := by
  unfold rSeekAtom
  dsimp only
  rw [if_neg h1, if_pos h2]

theorem rSeekAtom_ok (s : RCur) (i : Int) (h1 : ¬ i > s.hdr.natoms)
    (h2 : ¬ (s.hdr.initPos : Int) + i * (s.hdr.lineSize : Int) < 0) :
    rSeekAtom s i = ({ s with cur := i, pos := ((s.hdr.initPos : Int) + i * (s.hdr.lineSize : Int)).toNat },
      .ok .unit) := by
  unfold rSeekAtom
  dsimp only
  rw [if_neg h1, if_neg h2]

theorem rSeekAtom_nat (s : RCur) (i : Nat) (h1 : (i : Int) ≤ s.hdr.natoms) :
    rSeekAtom s i = ({ s with cur := (i : Int), pos := s.hdr.initPos + i * s.hdr.lineSize }, .ok .unit) := by
  have hnn : ¬ (s.hdr.initPos : Int) + (i : Int) * (s.hdr.lineSize : Int) < 0 := by
    have := Int.mul_nonneg (Int.natCast_nonneg i) (Int.natCast_nonneg s.hdr.lineSize)
    omega
  rw [rSeekAtom_ok s i (by omega) hnn, toNat_lin]

/-- the header `GroFile(path)` establishes on a text whose part before the lattice line is well formed -/
theorem ropen_pre (P : Parsers) (title count tail : List Nat) (lines : List (List Nat)) (L : Nat)
    (h : PreOk P title count lines L) (s : RCur)
    (hopen : ropen P (groPre title count lines ++ tail) = .ok s) :
    s.hdr.title = title ++ [nl] ∧ s.hdr.natoms = (lines.length : Int) ∧ s.hdr.initPos = initOf title count ∧
      s.hdr.lineSize = L + 1 ∧ s.pos = initOf title count ∧ s.cur = 0 := by
  obtain ⟨l0, ls, hl⟩ : ∃ l0 ls, lines = l0 :: ls := by
    cases hlines : lines with
    | nil => exact absurd hlines h.hne
    | cons a b => exact ⟨a, b, rfl⟩
  unfold ropen at hopen
  cases hlv : loadAndVerify P (groPre title count lines ++ tail) with
  | error e => rw [hlv] at hopen; simp [bind, Except.bind] at hopen
  | ok st =>
    rw [hlv] at hopen
    simp only [bind, Except.bind, pure, Except.pure, Except.ok.injEq] at hopen
    obtain ⟨-, n, fmt, -, hf, -⟩ :=
      loadAndVerify_inv (read_title h tail) (read_count h tail) (read_first h tail l0 ls hl) hlv
    have hpre := loadAndVerify_pre P title count tail lines L l0 ls fmt h hl hf
    rw [hlv] at hpre
    split at hpre
    · cases hpre
    · split at hpre
      · simp only [Except.ok.injEq] at hpre
        subst hpre
        subst hopen
        exact ⟨rfl, rfl, rfl, rfl, rfl, rfl⟩
      · cases hpre

/-- the `i`-th atom line sits at offset `init + i·(L+1)` -/
theorem readLine_ith (title count tail : List Nat) (lines : List (List Nat)) (L : Nat)
    (hl : ∀ l ∈ lines, nl ∉ l ∧ l.length = L) (i : Nat) (l : List Nat) (hi : lines[i]? = some l) :
    readLine (groPre title count lines ++ tail) (initOf title count + i * (L + 1)) = l ++ [nl] := by
  have hlt : i < lines.length := by
    rcases Nat.lt_or_ge i lines.length with h | h
    · exact h
    · rw [List.getElem?_eq_none h] at hi; cases hi
  have hsplit : lines = lines.take i ++ l :: lines.drop (i + 1) := by
    have hget : lines[i] = l := by
      have := List.getElem?_eq_getElem hlt
      rw [this] at hi; exact Option.some.inj hi
    rw [← hget]
    exact (List.take_append_drop i lines).symm.trans (by rw [List.drop_eq_getElem_cons hlt])
  have hmem : l ∈ lines := List.mem_of_getElem? hi
  have hnl : nl ∉ l := (hl l hmem).1
  have e : groPre title count lines ++ tail
      = ((title ++ [nl]) ++ ((count ++ [nl]) ++ linesText (lines.take i)))
          ++ (l ++ nl :: (linesText (lines.drop (i + 1)) ++ tail)) := by
    conv => lhs; rw [hsplit]
    simp only [groPre, linesText_append, linesText, List.append_assoc, List.cons_append]
  rw [e]
  apply readLine_at' _ l _ _ _ hnl
  have hlen : (linesText (lines.take i)).length = i * (L + 1) := by
    have := linesText_length (lines.take i) L (fun x hx => (hl x (List.mem_of_mem_take hx)).2)
    rw [this, List.length_take, Nat.min_eq_left (Nat.le_of_lt hlt)]
  simp only [List.length_append, hlen, List.length_cons, List.length_nil, initOf]
  omega

end GroL
