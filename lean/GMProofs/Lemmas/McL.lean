import GMModel.Metropolis
import GMProofs.Lemmas.Vec
import Mathlib.Data.List.Induction
/-
  GMProofs.Lemmas.McL — lemmas about the search loop model (`GMModel.Metropolis`): what one
  iteration does, the shape of a run, snoc-induction over reachable states.
-/

namespace MC

section generic
variable {α : Type} [Scalar α]
variable (chi2Fn : Config α → α) (moveFn : MoveFn α) (simType : List Int)

/-- `s` is an iteration the loop body can perform from `s.pre` (on some tape) -/
def StepOK (s : StepRec α) : Prop :=
  ∃ t t', mcStep chi2Fn moveFn simType s.pre t = .ok (s, t')

/-- consecutive iterations: each one starts in the state the previous one ended in -/
def Chain : MCState α → List (StepRec α) → MCState α → Prop
  | st, [], fin => st = fin
  | st, s :: ss, fin => s.pre = st ∧ Chain s.post ss fin

/-- `st` is reachable: the loop started on `held0` gets to `st` by the iterations `steps` -/
def Reaches (held0 : Config α) (steps : List (StepRec α)) (st : MCState α) : Prop :=
  Chain (mcInit chi2Fn held0) steps st ∧ ∀ s ∈ steps, StepOK chi2Fn moveFn simType s

/-- the search on `held0` with random tape `tape` ran the iterations `r.steps`, left the loop in
    state `r.final` and left `r.rest` of the tape unread -/
def Ran (nSteps : Nat) (held0 : Config α) (tape : Tape α) (r : MCResult α) : Prop :=
  ∃ fuel, mcRun chi2Fn moveFn simType nSteps fuel held0 tape = .ok r

variable {chi2Fn moveFn simType}

/-- everything one successful iteration determines -/
theorem mcStep_ok {st : MCState α} {t t' : Tape α} {s : StepRec α}
    (h : mcStep chi2Fn moveFn simType st t = .ok (s, t')) :
    s.pre = st ∧ s.chi2New = chi2Fn s.test ∧
    s.post = bookkeep st s.test s.chi2New s.accepted ∧
    ∃ t1, propose moveFn simType st.held t = .ok (s.kind, s.test, t1) ∧
      acceptMetropolis st.chi2 (chi2Fn s.test) t1 = .ok (s.accepted, t') := by
  unfold mcStep at h
  split at h
  · cases h
  · rename_i kind test t1 hp
    dsimp only at h
    split at h
    · cases h
    · rename_i acc t2 ha
      simp only [Except.ok.injEq, Prod.mk.injEq] at h
      obtain ⟨hs, ht⟩ := h
      subst hs; subst ht
      exact ⟨rfl, rfl, rfl, t1, hp, ha⟩

theorem StepOK.spec {s : StepRec α} (h : StepOK chi2Fn moveFn simType s) :
    s.chi2New = chi2Fn s.test ∧ s.post = bookkeep s.pre s.test s.chi2New s.accepted ∧
    ∃ t t1 t', propose moveFn simType s.pre.held t = .ok (s.kind, s.test, t1) ∧
      acceptMetropolis s.pre.chi2 (chi2Fn s.test) t1 = .ok (s.accepted, t') := by
  obtain ⟨t, t', h⟩ := h
  obtain ⟨_, h2, h3, t1, h4, h5⟩ := mcStep_ok h
  exact ⟨h2, h3, t, t1, t', h4, h5⟩

/-! ### chains -/

omit [Scalar α] in
theorem Chain.snoc {st fin : MCState α} {l : List (StepRec α)} {s : StepRec α} :
    Chain st (l ++ [s]) fin ↔ Chain st l s.pre ∧ s.post = fin := by
  induction l generalizing st with
  | nil => simp [Chain, eq_comm]
  | cons a l ih => simp [Chain, ih, and_assoc]

omit [Scalar α] in
theorem Chain.append {st fin : MCState α} {l1 l2 : List (StepRec α)} :
    Chain st (l1 ++ l2) fin ↔ ∃ mid, Chain st l1 mid ∧ Chain mid l2 fin := by
  induction l1 generalizing st with
  | nil => simp [Chain]
  | cons a l ih =>
    simp only [List.cons_append, Chain, ih]
    constructor
    · rintro ⟨h, mid, h1, h2⟩; exact ⟨mid, ⟨h, h1⟩, h2⟩
    · rintro ⟨mid, ⟨h, h1⟩, h2⟩; exact ⟨h, mid, h1, h2⟩

theorem Reaches.nil (held0 : Config α) :
    Reaches chi2Fn moveFn simType held0 [] (mcInit chi2Fn held0) := ⟨rfl, by simp⟩

theorem Reaches.snoc {held0 : Config α} {l : List (StepRec α)} {s : StepRec α} {st : MCState α} :
    Reaches chi2Fn moveFn simType held0 (l ++ [s]) st ↔
      Reaches chi2Fn moveFn simType held0 l s.pre ∧ StepOK chi2Fn moveFn simType s ∧ s.post = st := by
  unfold Reaches
  rw [Chain.snoc]
  constructor
  · rintro ⟨⟨h1, h2⟩, h3⟩
    exact ⟨⟨h1, fun x hx => h3 x (by simp [hx])⟩, h3 s (by simp), h2⟩
  · rintro ⟨⟨h1, h3⟩, h4, h2⟩
    refine ⟨⟨h1, h2⟩, fun x hx => ?_⟩
    rcases List.mem_append.mp hx with hx | hx
    · exact h3 x hx
    · simp at hx; subst hx; exact h4

/-- every prefix of a reachable history is a reachable history (of the pre-state of the next step) -/
theorem Reaches.prefix {held0 : Config α} {l1 l2 : List (StepRec α)} {s : StepRec α} {st : MCState α}
    (h : Reaches chi2Fn moveFn simType held0 (l1 ++ s :: l2) st) :
    Reaches chi2Fn moveFn simType held0 l1 s.pre := by
  obtain ⟨hc, hs⟩ := h
  obtain ⟨mid, h1, h2⟩ := Chain.append.mp hc
  simp only [Chain] at h2
  rw [h2.1]
  exact ⟨h1, fun x hx => hs x (by simp [hx])⟩

/-- snoc-induction over reachable states -/
theorem Reaches.induction {held0 : Config α} {P : List (StepRec α) → MCState α → Prop}
    (h0 : P [] (mcInit chi2Fn held0))
    (hstep : ∀ l s, Reaches chi2Fn moveFn simType held0 l s.pre → P l s.pre →
      StepOK chi2Fn moveFn simType s → P (l ++ [s]) s.post)
    {steps : List (StepRec α)} {st : MCState α}
    (h : Reaches chi2Fn moveFn simType held0 steps st) : P steps st := by
  induction steps using List.reverseRecOn generalizing st with
  | nil => obtain ⟨hc, _⟩ := h; simp only [Chain] at hc; subst hc; exact h0
  | append_singleton l s ih =>
    obtain ⟨hl, hs, hp⟩ := Reaches.snoc.mp h
    subst hp
    exact hstep l s hl (ih hl) hs

/-! ### the loop -/

theorem mcLoop_spec {nSteps : Nat} {fuel : Nat} {st : MCState α} {tape : Tape α} {r : MCResult α}
    (h : mcLoop chi2Fn moveFn simType nSteps fuel st tape = .ok r) :
    Chain st r.steps r.final ∧
    (∀ s ∈ r.steps, StepOK chi2Fn moveFn simType s ∧ mcContinue nSteps s.pre = true) ∧
    mcContinue nSteps r.final = false := by
  induction fuel generalizing st tape r with
  | zero =>
    unfold mcLoop at h
    split at h
    · cases h
    · rename_i hc
      cases h
      exact ⟨rfl, by simp, by simpa using hc⟩
  | succ f ih =>
    unfold mcLoop at h
    split at h
    · rename_i hc
      simp only at h
      split at h
      · cases h
      · rename_i s t1 hs
        split at h
        · cases h
        · rename_i r' hr
          cases h
          obtain ⟨h1, h2, h3⟩ := ih hr
          obtain ⟨hpre, _⟩ := mcStep_ok hs
          refine ⟨⟨hpre, h1⟩, ?_, h3⟩
          intro x hx
          rcases List.mem_cons.mp hx with hx | hx
          · subst hx
            exact ⟨⟨tape, t1, by rw [hpre]; exact hs⟩, by rw [hpre]; exact hc⟩
          · exact h2 x hx
    · rename_i hc
      cases h
      exact ⟨rfl, by simp, by simpa using hc⟩

/-- more fuel never changes a result -/
theorem mcLoop_fuel_mono {nSteps : Nat} {fuel : Nat} {st : MCState α} {tape : Tape α} {r : MCResult α}
    (h : mcLoop chi2Fn moveFn simType nSteps fuel st tape = .ok r) (k : Nat) :
    mcLoop chi2Fn moveFn simType nSteps (fuel + k) st tape = .ok r := by
  induction fuel generalizing st tape r with
  | zero =>
    unfold mcLoop at h ⊢
    split at h
    · cases h
    · rename_i hc; simp [hc]; simpa using h
  | succ f ih =>
    rw [Nat.add_right_comm]
    unfold mcLoop at h ⊢
    split at h
    · rename_i hc
      simp only [hc, if_true]
      split at h
      · rename_i hz; cases hz
      · rename_i f' hf
        cases hf
        split at h
        · cases h
        · rename_i s t1 hs
          split at h
          · cases h
          · rename_i r' hr
            rw [ih hr]
            exact h
    · rename_i hc
      simp only [hc]
      exact h

theorem Ran.reaches {nSteps : Nat} {held0 : Config α} {tape : Tape α} {r : MCResult α}
    (h : Ran chi2Fn moveFn simType nSteps held0 tape r) :
    Reaches chi2Fn moveFn simType held0 r.steps r.final := by
  obtain ⟨fuel, h⟩ := h
  obtain ⟨h1, h2, _⟩ := mcLoop_spec h
  exact ⟨h1, fun s hs => (h2 s hs).1⟩

/-! ### bookkeeping facts (no arithmetic) -/

theorem bookkeep_reject (st : MCState α) (test : Config α) (c : α) :
    bookkeep st test c false = ⟨st.held, st.chi2, st.chi2Min, st.counter + 1⟩ := by
  simp [bookkeep]

theorem bookkeep_accept_held (st : MCState α) (test : Config α) (c : α) :
    (bookkeep st test c true).held = test ∧ (bookkeep st test c true).chi2 = c := by
  unfold bookkeep
  simp only [if_true]
  split <;> exact ⟨rfl, rfl⟩

theorem bookkeep_held (st : MCState α) (test : Config α) (c : α) (acc : Bool) :
    (bookkeep st test c acc).held = if acc then test else st.held := by
  cases acc
  · simp [bookkeep]
  · simp [(bookkeep_accept_held st test c).1]

theorem bookkeep_counter_le (st : MCState α) (test : Config α) (c : α) (acc : Bool) :
    (bookkeep st test c acc).counter ≤ st.counter + 1 := by
  unfold bookkeep
  split
  · split <;> simp
  · simp

/-- what the proposal part of an iteration does, by kind: the draws it reads (`t` is the tape
    before, `t1` after) and the configuration it proposes -/
def ProposalSpec (moveFn : MoveFn α) (simType : List Int) (held : Config α) (t t1 : Tape α) :
    PropKind α → Config α → Prop
  | .transl d, test =>
      test = translateCfg held d ∧ (0 : Int) ∈ simType ∧ t = .choice 0 :: .normal3 d :: t1
  | .rot axis theta, test =>
      test = rotateCfg held axis theta ∧ (1 : Int) ∈ simType ∧
        t = .choice 1 :: .uniform3 axis :: .normal1 theta :: t1
  | .move, test =>
      (2 : Int) ∈ simType ∧ ∃ t0, t = .choice 2 :: t0 ∧ moveFn held t0 = .ok (test, t1)

theorem propose_spec {held : Config α} {t t1 : Tape α} {kind : PropKind α} {test : Config α}
    (h : propose moveFn simType held t = .ok (kind, test, t1)) :
    ProposalSpec moveFn simType held t t1 kind test := by
  cases t with
  | nil => simp [propose] at h
  | cons d t0 =>
    cases d with
    | choice c =>
      by_cases hmem : c ∈ simType
      · by_cases h0 : c = 0
        · subst h0
          cases t0 with
          | nil => simp [propose] at h
          | cons d2 t2 =>
            cases d2 <;> simp [propose, hmem] at h
            obtain ⟨hk, ht, htt⟩ := h
            subst hk; subst ht; subst htt
            exact ⟨rfl, hmem, rfl⟩
        · by_cases h1 : c = 1
          · subst h1
            cases t0 with
            | nil => simp [propose] at h
            | cons d2 t2 =>
              cases d2 <;> simp [propose, hmem] at h
              cases t2 with
              | nil => simp at h
              | cons d3 t3 =>
                cases d3 <;> simp at h
                obtain ⟨hk, ht, htt⟩ := h
                subst hk; subst ht; subst htt
                exact ⟨rfl, hmem, rfl⟩
          · by_cases h2 : c = 2
            · subst h2
              cases hm : moveFn held t0 with
              | error e => simp [propose, hmem, hm] at h
              | ok v =>
                obtain ⟨test', t2⟩ := v
                simp [propose, hmem, hm] at h
                obtain ⟨hk, ht, htt⟩ := h
                subst hk; subst ht; subst htt
                exact ⟨hmem, t0, rfl, hm⟩
            · simp [propose, hmem, h0, h1, h2] at h
      · simp [propose, hmem] at h
    | _ => simp [propose] at h

/-- the kind of every proposal is a member of the enabled deformation tuple -/
theorem propose_kind_enabled {held : Config α} {t t1 : Tape α} {kind : PropKind α} {test : Config α}
    (h : propose moveFn simType held t = .ok (kind, test, t1)) :
    (match kind with | .transl _ => (0 : Int) | .rot _ _ => 1 | .move => 2) ∈ simType := by
  have := propose_spec h
  cases kind with
  | transl d => exact this.2.1
  | rot a th => exact this.2.1
  | move => exact this.1

/-! ### the draws of a run come from its tape (for moves that only read the tape) -/

/-- the move only consumes draws: what it leaves is a suffix of what it was given -/
def MoveTapeSuffix (moveFn : MoveFn α) : Prop :=
  ∀ h t x t', moveFn h t = .ok (x, t') → t' <:+ t

theorem propose_suffix (hm : MoveTapeSuffix moveFn) {held : Config α} {t t1 : Tape α}
    {kind : PropKind α} {test : Config α}
    (h : propose moveFn simType held t = .ok (kind, test, t1)) : t1 <:+ t := by
  have hs := propose_spec h
  cases kind with
  | transl d => rw [hs.2.2]; exact ⟨[.choice 0, .normal3 d], rfl⟩
  | rot a th => rw [hs.2.2]; exact ⟨[.choice 1, .uniform3 a, .normal1 th], rfl⟩
  | move =>
    obtain ⟨_, t0, ht, hmv⟩ := hs
    rw [ht]
    exact List.IsSuffix.trans (hm _ _ _ _ hmv) ⟨[.choice 2], rfl⟩

theorem accept_suffix {e0 e1 : α} {t t' : Tape α} {a : Bool}
    (h : acceptMetropolis e0 e1 t = .ok (a, t')) : t' <:+ t := by
  unfold acceptMetropolis at h
  dsimp only at h
  split at h
  · cases h; exact List.suffix_refl _
  · split at h
    · cases h; exact ⟨[_], rfl⟩
    · cases h

theorem mcStep_suffix (hm : MoveTapeSuffix moveFn) {st : MCState α} {t t' : Tape α} {s : StepRec α}
    (h : mcStep chi2Fn moveFn simType st t = .ok (s, t')) : t' <:+ t := by
  obtain ⟨_, _, _, t1, hp, ha⟩ := mcStep_ok h
  exact List.IsSuffix.trans (accept_suffix ha) (propose_suffix hm hp)

/-- every iteration of a run read its draws from a suffix of the run's tape -/
theorem mcLoop_steps_on_tape (hm : MoveTapeSuffix moveFn) {nSteps fuel : Nat} {st : MCState α}
    {tape : Tape α} {r : MCResult α}
    (h : mcLoop chi2Fn moveFn simType nSteps fuel st tape = .ok r) :
    ∀ s ∈ r.steps, ∃ t t', t <:+ tape ∧ mcStep chi2Fn moveFn simType s.pre t = .ok (s, t') := by
  induction fuel generalizing st tape r with
  | zero =>
    unfold mcLoop at h
    split at h
    · cases h
    · cases h; simp
  | succ f ih =>
    unfold mcLoop at h
    split at h
    · simp only at h
      split at h
      · cases h
      · rename_i s t1 hs
        split at h
        · cases h
        · rename_i r' hr
          cases h
          obtain ⟨hpre, _⟩ := mcStep_ok hs
          intro x hx
          rcases List.mem_cons.mp hx with hx | hx
          · subst hx
            exact ⟨tape, t1, List.suffix_refl _, by rw [hpre]; exact hs⟩
          · obtain ⟨t, t', hsuf, hst⟩ := ih hr x hx
            exact ⟨t, t', List.IsSuffix.trans hsuf (mcStep_suffix hm hs), hst⟩
    · cases h; simp

/-! ### invariants of reachable states (no arithmetic) -/

/-- in every reachable state `chi2` is the measure of the held configuration; the same holds
    for the pre- and post-state of every iteration of the history -/
theorem reaches_chi2_held {held0 : Config α} {steps : List (StepRec α)} {st : MCState α}
    (h : Reaches chi2Fn moveFn simType held0 steps st) :
    st.chi2 = chi2Fn st.held ∧
    ∀ s ∈ steps, s.pre.chi2 = chi2Fn s.pre.held ∧ s.post.chi2 = chi2Fn s.post.held := by
  refine Reaches.induction (P := fun l st => st.chi2 = chi2Fn st.held ∧
    ∀ s ∈ l, s.pre.chi2 = chi2Fn s.pre.held ∧ s.post.chi2 = chi2Fn s.post.held) ?_ ?_ h
  · exact ⟨rfl, by simp⟩
  · intro l s _ hP hs
    obtain ⟨hpre, hl⟩ := hP
    obtain ⟨hc, hpost, _⟩ := hs.spec
    have hpost' : s.post.chi2 = chi2Fn s.post.held := by
      rw [hpost]
      cases hacc : s.accepted
      · rw [bookkeep_reject]; exact hpre
      · obtain ⟨h1, h2⟩ := bookkeep_accept_held s.pre s.test s.chi2New
        rw [h1, h2, hc]
    refine ⟨hpost', fun x hx => ?_⟩
    rcases List.mem_append.mp hx with hx | hx
    · exact hl x hx
    · simp at hx; subst hx; exact ⟨hpre, hpost'⟩

/-- the held configuration is the last accepted proposal, or the input -/
theorem reaches_held_last_accepted {held0 : Config α} {steps : List (StepRec α)} {st : MCState α}
    (h : Reaches chi2Fn moveFn simType held0 steps st) :
    st.held = match steps.reverse.find? (fun s => s.accepted) with
      | some s => s.test
      | none => held0 := by
  refine Reaches.induction (P := fun l st => st.held = match l.reverse.find? (fun s => s.accepted) with
      | some s => s.test
      | none => held0) ?_ ?_ h
  · rfl
  · intro l s _ hP hs
    obtain ⟨_, hpost, _⟩ := hs.spec
    rw [hpost, bookkeep_held, List.reverse_append]
    simp only [List.reverse_cons, List.reverse_nil, List.nil_append, List.cons_append, List.find?_cons]
    cases hacc : s.accepted
    · simpa using hP
    · simp

omit [Scalar α] in
theorem takeWhile_congr' {β : Type} {p q : β → Bool} (l : List β) (h : ∀ x ∈ l, p x = q x) :
    l.takeWhile p = l.takeWhile q := by
  induction l with
  | nil => rfl
  | cons a l ih =>
    simp only [List.takeWhile_cons]
    rw [h a (by simp), ih (fun x hx => h x (by simp [hx]))]

omit [Scalar α] in
/-- the loop counter never exceeds the budget along a run -/
theorem chain_counter_le {n : Nat} {st fin : MCState α} {steps : List (StepRec α)}
    (hc : Chain st steps fin) (h0 : st.counter ≤ n)
    (hs : ∀ s ∈ steps, s.pre.counter < n ∧ s.post.counter ≤ s.pre.counter + 1) :
    fin.counter ≤ n := by
  induction steps generalizing st with
  | nil => simp only [Chain] at hc; subst hc; exact h0
  | cons a l ih =>
    obtain ⟨_, h2⟩ := hc
    obtain ⟨ha1, ha2⟩ := hs a (by simp)
    exact ih h2 (by omega) (fun s hs' => hs s (by simp [hs']))

end generic

/-! ### over ℝ -/

section real

theorem accept_ge_one {e0 e1 : ℝ} (h1 : 0 < e1) (h : e1 ≤ e0) (tape : Tape ℝ) :
    acceptMetropolis e0 e1 tape = .ok (true, tape) := by
  unfold acceptMetropolis
  have : (1 : ℝ) ≤ e0 / e1 := (one_le_div h1).mpr h
  simp [this]

theorem accept_lt_one {e0 e1 : ℝ} (h0 : 0 ≤ e0) (h : e0 < e1) (u : ℝ) (rest : Tape ℝ) :
    acceptMetropolis e0 e1 (.rand1 u :: rest) = .ok (decide (u ≤ 1 / 100 * (e0 / e1)), rest) := by
  unfold acceptMetropolis
  have h1 : 0 < e1 := lt_of_le_of_lt h0 h
  have : ¬ (1 : ℝ) ≤ e0 / e1 := by
    rw [not_le]; exact (div_lt_one h1).mpr h
  simp only [RS.le_def, RS.one_def, RS.div_def, this, decide_false, Bool.false_eq_true, if_false,
    RS.ofDec_def, RS.mul_def]
  norm_num

theorem accept_lt_one_desync {e0 e1 : ℝ} (h0 : 0 ≤ e0) (h : e0 < e1) (tape : Tape ℝ)
    (ht : ∀ u rest, tape ≠ .rand1 u :: rest) :
    acceptMetropolis e0 e1 tape = .error .desync := by
  unfold acceptMetropolis
  have h1 : 0 < e1 := lt_of_le_of_lt h0 h
  have : ¬ (1 : ℝ) ≤ e0 / e1 := by
    rw [not_le]; exact (div_lt_one h1).mpr h
  -- the match equation `tape ≠ rand1 u :: rest → match … = desync` is discharged from `ht`
  simp only [RS.le_def, RS.one_def, RS.div_def, this, decide_false, Bool.false_eq_true, if_false]

variable {chi2Fn : Config ℝ → ℝ} {moveFn : MoveFn ℝ} {simType : List Int}

/-- the three outcomes of the bookkeeping, over ℝ -/
theorem bookkeep_cases (st : MCState ℝ) (test : Config ℝ) (c : ℝ) (acc : Bool) :
    (acc = false ∧ bookkeep st test c acc = ⟨st.held, st.chi2, st.chi2Min, st.counter + 1⟩) ∨
    (acc = true ∧ c < st.chi2Min ∧ bookkeep st test c acc = ⟨test, c, c, 0⟩) ∨
    (acc = true ∧ ¬ c < st.chi2Min ∧ bookkeep st test c acc = ⟨test, c, st.chi2Min, st.counter + 1⟩) := by
  cases acc
  · left; exact ⟨rfl, bookkeep_reject st test c⟩
  · right
    by_cases hlt : c < st.chi2Min
    · left; refine ⟨rfl, hlt, ?_⟩; simp [bookkeep, hlt]
    · right; refine ⟨rfl, hlt, ?_⟩; simp [bookkeep, hlt]

/-- the measures visited along a history: the input's and the one held after each iteration -/
def visitedChi2 (st0 : MCState ℝ) (steps : List (StepRec ℝ)) : List ℝ :=
  st0.chi2 :: steps.map (fun s => s.post.chi2)

theorem reaches_counter {held0 : Config ℝ} {steps : List (StepRec ℝ)} {st : MCState ℝ}
    (h : Reaches chi2Fn moveFn simType held0 steps st) :
    st.chi2Min ≤ st.chi2 ∧
    (st.chi2Min ∈ visitedChi2 (mcInit chi2Fn held0) steps ∧
      ∀ e ∈ visitedChi2 (mcInit chi2Fn held0) steps, st.chi2Min ≤ e) ∧
    st.counter = (steps.reverse.takeWhile (fun s => !decide (s.post.chi2 < s.pre.chi2Min))).length := by
  refine Reaches.induction (P := fun l st => st.chi2Min ≤ st.chi2 ∧
    (st.chi2Min ∈ visitedChi2 (mcInit chi2Fn held0) l ∧
      ∀ e ∈ visitedChi2 (mcInit chi2Fn held0) l, st.chi2Min ≤ e) ∧
    st.counter = (l.reverse.takeWhile (fun s => !decide (s.post.chi2 < s.pre.chi2Min))).length) ?_ ?_ h
  · refine ⟨le_refl _, ⟨?_, ?_⟩, rfl⟩
    · simp [visitedChi2, mcInit]
    · intro e he; simp [visitedChi2, mcInit] at he; subst he; exact le_refl _
  · intro l s _ hP hs
    obtain ⟨h1, ⟨h2, h3⟩, h4⟩ := hP
    obtain ⟨_, hpost, _⟩ := hs.spec
    have hvis : visitedChi2 (mcInit chi2Fn held0) (l ++ [s]) =
        visitedChi2 (mcInit chi2Fn held0) l ++ [s.post.chi2] := by
      simp [visitedChi2]
    rw [hvis, List.reverse_append]
    simp only [List.reverse_cons, List.reverse_nil, List.nil_append, List.cons_append,
      List.takeWhile_cons, List.mem_append, List.mem_singleton]
    rcases bookkeep_cases s.pre s.test s.chi2New s.accepted with ⟨_, hb⟩ | ⟨_, hlt, hb⟩ | ⟨_, hlt, hb⟩
    all_goals rw [hb] at hpost
    all_goals rw [hpost]
    all_goals dsimp only
    · refine ⟨h1, ⟨Or.inl h2, ?_⟩, ?_⟩
      · rintro e (he | he)
        · exact h3 e he
        · rw [he]; exact h1
      · have : ¬ s.pre.chi2 < s.pre.chi2Min := not_lt.mpr h1
        simp [this, h4]
    · refine ⟨le_refl _, ⟨Or.inr rfl, ?_⟩, ?_⟩
      · rintro e (he | he)
        · exact le_trans hlt.le (h3 e he)
        · rw [he]
      · simp [hlt]
    · refine ⟨not_lt.mp hlt, ⟨Or.inl h2, ?_⟩, ?_⟩
      · rintro e (he | he)
        · exact h3 e he
        · rw [he]; exact not_lt.mp hlt
      · simp [hlt, h4]

end real

end MC
