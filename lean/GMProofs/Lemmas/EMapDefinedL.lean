import GMProofs.Lemmas.ClosestL
import GMProofs.Lemmas.SortL
/-
  GMProofs.Lemmas.EMapDefinedL — `EMap.build` / `EMap.apply` return a value for every well-formed
  reference of three or more atoms (no lookup fails).
-/
open V3

/-- well-formed reference: ≥ 3 atoms, one neighbour list per atom, neighbour indices in range,
    at least one atom with two bonds -/
structure WFRef (n : Nat) (nbrs : List (List Nat)) : Prop where
  len3 : 3 ≤ n
  lenEq : nbrs.length = n
  inRange : ∀ nb ∈ nbrs, ∀ k ∈ nb, k < n
  hasAnchor : anchorsOf nbrs ≠ []

theorem closestTwo_some {nb : List Nat} (h : 2 ≤ nb.length) :
    ∃ i1 i2, closestTwo nb = some (i1, i2) ∧ i1 ∈ nb ∧ i2 ∈ nb := by
  have hl := length_sortNat nb
  unfold closestTwo
  match hs : sortNat nb with
  | [] => rw [hs] at hl; simp at hl; omega
  | [_] => rw [hs] at hl; simp at hl; omega
  | a :: b :: rest =>
    refine ⟨a, b, rfl, ?_, ?_⟩
    · rw [← mem_sortNat, hs]; simp
    · rw [← mem_sortNat, hs]; simp

theorem frameAt_some {pos : List (V3 ℝ)} {nbrs : List (List Nat)} (hw : WFRef pos.length nbrs)
    {a : Nat} (ha : a ∈ anchorsOf nbrs) : ∃ F, frameAt pos nbrs a = some F := by
  simp only [anchorsOf, List.mem_filter, List.mem_range, decide_eq_true_eq] at ha
  obtain ⟨hlt, h2⟩ := ha
  have hnb : nbrs[a]? = some nbrs[a] := by simp [hlt]
  have hgd : nbrs.getD a [] = nbrs[a] := by simp [List.getD, hnb]
  rw [hgd] at h2
  obtain ⟨i1, i2, hc, hm1, hm2⟩ := closestTwo_some h2
  have hmem : nbrs[a] ∈ nbrs := List.getElem_mem hlt
  have hr1 := hw.inRange _ hmem i1 hm1
  have hr2 := hw.inRange _ hmem i2 hm2
  have hra : a < pos.length := hw.lenEq ▸ hlt
  refine ⟨calculeBase pos[a] pos[i1] pos[i2], ?_⟩
  unfold frameAt
  simp [hnb, hc, hra, hr1, hr2]

theorem refsystemsGeneral_some {pos : List (V3 ℝ)} {nbrs : List (List Nat)}
    (hw : WFRef pos.length nbrs) : ∃ tab, refsystemsGeneral pos nbrs = some tab := by
  apply optMapM_isSome
  intro a ha
  obtain ⟨F, hF⟩ := frameAt_some hw ha
  exact ⟨(a, F), by simp [hF]⟩

theorem closestAnchorAux_some (pos : List (V3 ℝ)) (t : V3 ℝ) :
    ∀ (keys : List Nat) (best : Option (ℝ × Nat)), (∀ k ∈ keys, k < pos.length) →
      (keys ≠ [] ∨ best.isSome) → ∃ r, closestAnchorAux pos t keys best = some r
  | [], best, _, h => by
    rcases h with h | h
    · exact absurd rfl h
    · obtain ⟨b, rfl⟩ := Option.isSome_iff_exists.mp h
      exact ⟨b, rfl⟩
  | a :: rest, best, hk, _ => by
    have ha : a < pos.length := hk a (by simp)
    have hrest : ∀ k ∈ rest, k < pos.length := fun k hk' => hk k (by simp [hk'])
    unfold closestAnchorAux
    simp only [List.getElem?_eq_getElem ha]
    cases best with
    | none => exact closestAnchorAux_some pos t rest _ hrest (Or.inr rfl)
    | some bb =>
      obtain ⟨db, ab⟩ := bb
      simp only
      split
      · exact closestAnchorAux_some pos t rest _ hrest (Or.inr rfl)
      · exact closestAnchorAux_some pos t rest _ hrest (Or.inr rfl)

theorem lookupFrame_some {tab : List (Nat × Frame ℝ)} {a : Nat} (h : a ∈ tab.map (·.1)) :
    ∃ F, lookupFrame tab a = some F := by
  simp only [List.mem_map] at h
  obtain ⟨⟨a', F⟩, hm, rfl⟩ := h
  unfold lookupFrame
  have : (tab.find? (fun e => e.1 == a')).isSome := by
    rw [List.find?_isSome]
    exact ⟨(a', F), hm, by simp⟩
  obtain ⟨e, he⟩ := Option.isSome_iff_exists.mp this
  exact ⟨e.2, by simp [he]⟩

/-- for a well-formed reference the map can always be built, and applied to every conformation with
    the same number of atoms; no table lookup fails -/
theorem emap_defined {pos : List (V3 ℝ)} {nbrs : List (List Nat)} (hw : WFRef pos.length nbrs)
    (r1 tgt : List (V3 ℝ)) (s : ℝ) :
    ∃ m, EMap.build pos nbrs r1 tgt s = some m ∧
      ∀ (arg r2 : List (V3 ℝ)), arg.length = pos.length → ∃ out, m.apply nbrs arg r2 = some out := by
  obtain ⟨tab, htab⟩ := refsystemsGeneral_some hw
  have hkeys := refsystemsGeneral_keys htab
  have hkr : ∀ k ∈ tab.map (·.1), k < pos.length := by
    rw [hkeys]
    intro k hk
    simp only [anchorsOf, List.mem_filter, List.mem_range] at hk
    exact hw.lenEq ▸ hk.1
  have hne : tab.map (·.1) ≠ [] := by rw [hkeys]; exact hw.hasAnchor
  have hper : ∃ per, optMapM (fun t => do
      let a ← closestAnchor pos (tab.map (·.1)) t
      let F ← lookupFrame tab a
      pure (a, project F s t)) tgt = some per := by
    apply optMapM_isSome
    intro t _
    obtain ⟨⟨d, a⟩, hr⟩ := closestAnchorAux_some pos t (tab.map (·.1)) none hkr (Or.inl hne)
    have hca : closestAnchor pos (tab.map (·.1)) t = some a := by simp [closestAnchor, hr]
    obtain ⟨F, hF⟩ := lookupFrame_some (closestAnchor_spec hca).1
    exact ⟨(a, project F s t), by simp [hca, hF]⟩
  obtain ⟨per, hper⟩ := hper
  refine ⟨⟨per.map (·.1), per.map (·.2), s⟩, ?_, ?_⟩
  · unfold EMap.build
    rw [refsystems_general nbrs r1 hw.len3, htab]
    simp only [Option.bind_eq_bind, Option.pure_def, Option.bind_some] at hper ⊢
    rw [hper]
    rfl
  · intro arg r2 hlen
    have hw' : WFRef arg.length nbrs := by rw [hlen]; exact hw
    obtain ⟨tab', htab'⟩ := refsystemsGeneral_some hw'
    have hkeys' := refsystemsGeneral_keys htab'
    unfold EMap.apply
    rw [refsystems_general nbrs r2 hw'.len3, htab']
    simp only [Option.bind_eq_bind, Option.bind_some]
    apply optMapM_isSome
    rintro ⟨a, q⟩ hm
    have ha : a ∈ per.map (·.1) := (List.of_mem_zip hm).1
    simp only [List.mem_map] at ha
    obtain ⟨⟨a', q'⟩, hpm, rfl⟩ := ha
    obtain ⟨t, _, hft⟩ := optMapM_mem _ _ _ hper _ hpm
    simp only [Option.bind_eq_bind, Option.bind_eq_some_iff, Option.pure_def, Option.some.injEq,
      Prod.mk.injEq] at hft
    obtain ⟨a'', hca, F, _, rfl, _⟩ := hft
    have hmem : a'' ∈ tab'.map (·.1) := by
      rw [hkeys', ← hkeys]; exact (closestAnchor_spec hca).1
    obtain ⟨F', hF'⟩ := lookupFrame_some hmem
    exact ⟨restore F' q, by simp [hF']⟩
