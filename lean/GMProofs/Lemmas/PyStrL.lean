import GMModel.PyStr
/-
  Lemmas about the Python string primitives of `GMModel.PyStr` (core Lean only):
  digit strings, padding, `strip`, `split`, `int()` / `float()` of formatted numbers, `readline`.
-/
open PyStr

namespace PyStrL

/-! ### character classes -/

theorem isDigit_iff (c : Nat) : isDigit c = true ↔ 48 ≤ c ∧ c ≤ 57 := by
  simp [isDigit]

theorem isDigit_digitChar (d : Nat) : isDigit (digitChar d) = true := by
  unfold isDigit digitChar
  simp only [Bool.and_eq_true, decide_eq_true_eq]; omega

theorem digitVal_digitChar (d : Nat) : digitVal (digitChar d) = d % 10 := by
  simp [digitVal, digitChar]

theorem digit_not_space {c : Nat} (h : isDigit c = true) : isSpace c = false := by
  simp [isDigit, isSpace] at *; omega

theorem digit_not_cspace {c : Nat} (h : isDigit c = true) : isCSpace c = false := by
  simp [isDigit, isCSpace] at *; omega

theorem cspace_space {c : Nat} (h : isCSpace c = true) : isSpace c = true := by
  simp [isSpace, isCSpace] at *; omega

theorem isSpace_sp : isSpace sp = true := by decide
theorem isSpace_nl : isSpace nl = true := by decide
theorem isCSpace_sp : isCSpace sp = true := by decide
theorem isCSpace_nl : isCSpace nl = true := by decide

/-! ### digit strings -/

theorem natDigits_ne_nil (n : Nat) : natDigits n ≠ [] := by
  rw [natDigits]; split <;> simp

theorem natDigits_all_digit (n : Nat) : ∀ c ∈ natDigits n, isDigit c = true := by
  induction n using Nat.strongRecOn with
  | _ n ih =>
    rw [natDigits]
    split
    · intro c hc; simp at hc; subst hc; exact isDigit_digitChar n
    · intro c hc
      simp at hc
      rcases hc with hc | hc
      · exact ih (n / 10) (by omega) c hc
      · subst hc; exact isDigit_digitChar _

theorem undigits_append (a b : List Nat) (acc : Nat) :
    undigits (a ++ b) acc = undigits b (undigits a acc) := by
  simp [undigits, List.foldl_append]

theorem undigits_natDigits (n : Nat) : undigits (natDigits n) 0 = n := by
  induction n using Nat.strongRecOn with
  | _ n ih =>
    rw [natDigits]
    split
    · rename_i h; simp [undigits, digitVal_digitChar]; omega
    · rename_i h
      rw [undigits_append, ih (n / 10) (by omega)]
      simp [undigits, digitVal_digitChar]; omega

/-- positional value: `undigits l acc = acc · 10^|l| + undigits l 0` -/
theorem undigits_acc (l : List Nat) (acc : Nat) :
    undigits l acc = acc * 10 ^ l.length + undigits l 0 := by
  induction l generalizing acc with
  | nil => simp [undigits]
  | cons c t ih =>
    have h1 : undigits (c :: t) acc = undigits t (acc * 10 + digitVal c) := by simp [undigits]
    have h2 : undigits (c :: t) 0 = undigits t (digitVal c) := by simp [undigits]
    rw [h1, h2, ih, ih (digitVal c)]
    simp only [List.length_cons, Nat.pow_succ]
    rw [Nat.add_mul, Nat.add_assoc]
    congr 1
    rw [Nat.mul_assoc, Nat.mul_comm 10]

theorem undigits_zeros (k : Nat) (l : List Nat) (acc : Nat) :
    undigits (List.replicate k 48 ++ l) acc = undigits l (acc * 10 ^ k) := by
  induction k generalizing acc with
  | zero => simp
  | succ k ih =>
    rw [List.replicate_succ, List.cons_append]
    have : undigits (48 :: (List.replicate k 48 ++ l)) acc
        = undigits (List.replicate k 48 ++ l) (acc * 10 + digitVal 48) := by simp [undigits]
    rw [this, ih]
    congr 1
    simp [digitVal, Nat.pow_succ]
    rw [Nat.mul_assoc, Nat.mul_comm 10]

theorem natDigits_length_le (n k : Nat) (hk : 0 < k) (h : n < 10 ^ k) : (natDigits n).length ≤ k := by
  induction k generalizing n with
  | zero => omega
  | succ k ih =>
    rw [natDigits]
    split
    · simp
    · rename_i h10
      have hk' : 0 < k := by
        rcases Nat.eq_zero_or_pos k with h0 | h0
        · subst h0; simp at h; omega
        · exact h0
      have : n / 10 < 10 ^ k := by
        rw [Nat.pow_succ] at h
        exact Nat.div_lt_of_lt_mul (by rw [Nat.mul_comm]; exact h)
      have := ih (n / 10) hk' this
      simp; omega

theorem natDigits_head (n : Nat) : ∃ c t, natDigits n = c :: t ∧ isDigit c = true := by
  have h := natDigits_ne_nil n
  have ha := natDigits_all_digit n
  cases hd : natDigits n with
  | nil => exact absurd hd h
  | cons c t => exact ⟨c, t, rfl, ha c (by rw [hd]; simp)⟩

theorem natDigits_getLast (n : Nat) : ∃ c, (natDigits n).getLast? = some c ∧ isDigit c = true := by
  have h := natDigits_ne_nil n
  have ha := natDigits_all_digit n
  refine ⟨(natDigits n).getLast h, List.getLast?_eq_some_getLast h, ha _ (List.getLast_mem h)⟩

/-! ### padding -/

theorem padLeft_length (w : Nat) (s : List Nat) : (padLeft w s).length = max w s.length := by
  simp [padLeft]; omega

theorem padRight_length (w : Nat) (s : List Nat) : (padRight w s).length = max w s.length := by
  simp [padRight]; omega

theorem padZeros_length (d : Nat) (s : List Nat) : (padZeros d s).length = max d s.length := by
  simp [padZeros]; omega

/-! ### `strip` -/

theorem dropWhile_append_all {p : Nat → Bool} (a b : List Nat) (h : ∀ c ∈ a, p c = true) :
    (a ++ b).dropWhile p = b.dropWhile p := by
  induction a with
  | nil => rfl
  | cons c t ih =>
    have hc : p c = true := h c (by simp)
    simp only [List.cons_append, List.dropWhile_cons, hc, if_true]
    exact ih (fun x hx => h x (by simp [hx]))

theorem dropWhile_all {p : Nat → Bool} (a : List Nat) (h : ∀ c ∈ a, p c = true) : a.dropWhile p = [] := by
  have := dropWhile_append_all (p := p) a [] h
  simpa using this

theorem dropWhile_head_false {p : Nat → Bool} (l : List Nat)
    (h : ∀ c, l.head? = some c → p c = false) : l.dropWhile p = l := by
  cases l with
  | nil => rfl
  | cons c t => simp [h c rfl]

/-- stripping a token surrounded by strippable characters gives the token back, provided its first and
    last characters are not strippable -/
theorem stripBy_padded {p : Nat → Bool} (a s b : List Nat)
    (ha : ∀ c ∈ a, p c = true) (hb : ∀ c ∈ b, p c = true)
    (hh : ∀ c, s.head? = some c → p c = false) (hl : ∀ c, s.getLast? = some c → p c = false) :
    stripBy p (a ++ s ++ b) = s := by
  unfold stripBy
  rw [List.append_assoc, dropWhile_append_all a _ ha]
  cases s with
  | nil =>
    simp only [List.nil_append]
    rw [dropWhile_all b hb]; rfl
  | cons x t =>
    have h1 : ((x :: t) ++ b).dropWhile p = (x :: t) ++ b :=
      dropWhile_head_false _ (by intro c hc; simp at hc; subst hc; exact hh x rfl)
    rw [h1, List.reverse_append,
      dropWhile_append_all b.reverse _ (by intro c hc; exact hb c (List.mem_reverse.mp hc)),
      dropWhile_head_false]
    · simp
    · intro c hc
      rw [List.head?_reverse] at hc
      exact hl c hc

theorem stripBy_nil_of_all {p : Nat → Bool} (a : List Nat) (ha : ∀ c ∈ a, p c = true) : stripBy p a = [] := by
  have := stripBy_padded (p := p) a [] [] ha (by simp) (by simp) (by simp)
  simpa using this

/-! ### `int()` of a formatted integer -/

theorem intBody_head (n : Int) : ∃ c t, intBody n = c :: t ∧ (c = minus ∨ isDigit c = true) := by
  unfold intBody
  obtain ⟨c, t, h, hd⟩ := natDigits_head n.natAbs
  split
  · exact ⟨minus, natDigits n.natAbs, by simp, Or.inl rfl⟩
  · exact ⟨c, t, by simp [h], Or.inr hd⟩

theorem intBody_getLast (n : Int) : ∃ c, (intBody n).getLast? = some c ∧ isDigit c = true := by
  unfold intBody
  obtain ⟨c, h, hd⟩ := natDigits_getLast n.natAbs
  refine ⟨c, ?_, hd⟩
  rw [List.getLast?_append, h]; rfl

theorem intBody_chars (n : Int) : ∀ c ∈ intBody n, c = minus ∨ isDigit c = true := by
  intro c hc
  unfold intBody at hc
  rcases List.mem_append.mp hc with h | h
  · split at h
    · simp at h; exact Or.inl h
    · simp at h
  · exact Or.inr (natDigits_all_digit _ c h)

theorem minus_not_cspace : isCSpace minus = false := by decide
theorem minus_not_space : isSpace minus = false := by decide

theorem not_unmodelled_of {l : List Nat} (h : ∀ c ∈ l, c < 128 ∧ c ≠ underscore) : hasUnmodelled l = false := by
  unfold hasUnmodelled
  rw [Bool.eq_false_iff]
  intro hany
  rw [List.any_eq_true] at hany
  obtain ⟨c, hc, hp⟩ := hany
  have := h c hc
  simp at hp
  rcases hp with hp | hp
  · exact this.2 hp
  · omega

theorem digit_plain {c : Nat} (h : isDigit c = true) : c < 128 ∧ c ≠ underscore := by
  simp [isDigit, underscore] at *; omega

theorem cspace_plain {c : Nat} (h : isCSpace c = true) : c < 128 ∧ c ≠ underscore := by
  simp [isCSpace, underscore] at *; omega

theorem splitSign_minus (t : List Nat) : splitSign (minus :: t) = (true, t) := by
  simp [splitSign]

theorem splitSign_digit {c : Nat} (t : List Nat) (h : isDigit c = true) : splitSign (c :: t) = (false, c :: t) := by
  have h1 : c ≠ minus := by intro h'; subst h'; revert h; decide
  have h2 : c ≠ plus := by intro h'; subst h'; revert h; decide
  simp [splitSign, h1, h2]

theorem splitSign_natDigits (n : Nat) (t : List Nat) : splitSign (natDigits n ++ t) = (false, natDigits n ++ t) := by
  obtain ⟨c, r, h, hc⟩ := natDigits_head n
  rw [h, List.cons_append]; exact splitSign_digit _ hc

theorem splitSign_intBody (n : Int) : splitSign (intBody n) = (decide (n < 0), natDigits n.natAbs) := by
  unfold intBody
  by_cases h : n < 0
  · simp only [h, if_true, List.singleton_append, decide_true]; exact splitSign_minus _
  · simp only [h, if_false, List.nil_append, decide_false]
    have := splitSign_natDigits n.natAbs []
    simpa using this

/-- `int()` of `'{:d}'.format(n)` surrounded by blanks / a line terminator is `n` -/
theorem pyInt_padded (a b : List Nat) (n : Int)
    (ha : ∀ c ∈ a, isCSpace c = true) (hb : ∀ c ∈ b, isCSpace c = true) :
    pyInt (a ++ intBody n ++ b) = .ok n := by
  have hun : hasUnmodelled (a ++ intBody n ++ b) = false := by
    apply not_unmodelled_of
    intro c hc
    simp only [List.mem_append] at hc
    rcases hc with (hc | hc) | hc
    · exact cspace_plain (ha c hc)
    · rcases intBody_chars n c hc with h | h
      · subst h; decide
      · exact digit_plain h
    · exact cspace_plain (hb c hc)
  obtain ⟨c0, t0, hbody, hc0⟩ := intBody_head n
  obtain ⟨cl, hlast, hcl⟩ := intBody_getLast n
  have hstrip : stripC (a ++ intBody n ++ b) = intBody n := by
    unfold stripC
    apply stripBy_padded _ _ _ ha hb
    · intro c hc; rw [hbody] at hc; simp at hc; subst hc
      rcases hc0 with h | h
      · subst h; exact minus_not_cspace
      · exact digit_not_cspace h
    · intro c hc; rw [hlast] at hc; simp at hc; subst hc; exact digit_not_cspace hcl
  unfold pyInt
  rw [hun, hstrip]
  simp only [Bool.false_eq_true, if_false]
  rw [splitSign_intBody]
  unfold pyIntBody
  have hdig : ∀ c ∈ natDigits n.natAbs, isDigit c = true := natDigits_all_digit _
  obtain ⟨d0, dt, hd, hd0⟩ := natDigits_head n.natAbs
  have hne : (natDigits n.natAbs).isEmpty = false := by rw [hd]; rfl
  have hall : (natDigits n.natAbs).all isDigit = true := List.all_eq_true.mpr hdig
  simp only [hne, hall, Bool.false_eq_true, if_false, if_true, undigits_natDigits]
  congr 1
  by_cases hneg : n < 0
  · simp [hneg]; omega
  · simp [hneg]; omega

theorem all_sp_cspace {l : List Nat} (h : ∀ c ∈ l, c = sp) : ∀ c ∈ l, isCSpace c = true := by
  intro c hc; rw [h c hc]; decide

theorem replicate_sp_cspace (k : Nat) : ∀ c ∈ List.replicate k sp, isCSpace c = true := by
  intro c hc; rw [(List.mem_replicate.mp hc).2]; decide

/-- `fmt_int_roundtrip` core: `int('{:wd}'.format(n) + trailing blanks) = n` -/
theorem pyInt_fmtD (w : Nat) (n : Int) (b : List Nat) (hb : ∀ c ∈ b, isCSpace c = true) :
    pyInt (fmtD w n ++ b) = .ok n := by
  unfold fmtD padLeft
  exact pyInt_padded _ _ n (replicate_sp_cspace _) hb

/-! ### `float()` of a `'{:.df}'` text -/

theorem spanDigits_append (ds rest : List Nat) (h : ∀ c ∈ ds, isDigit c = true)
    (hr : ∀ c, rest.head? = some c → isDigit c = false) : spanDigits (ds ++ rest) = (ds, rest) := by
  induction ds with
  | nil =>
    cases rest with
    | nil => rfl
    | cons c t => simp [spanDigits, hr c rfl]
  | cons c t ih =>
    have hc : isDigit c = true := h c (by simp)
    simp only [List.cons_append, spanDigits, hc, if_true]
    rw [ih (fun x hx => h x (by simp [hx]))]

theorem spanDigits_all (ds : List Nat) (h : ∀ c ∈ ds, isDigit c = true) : spanDigits ds = (ds, []) := by
  have := spanDigits_append ds [] h (by simp)
  simpa using this

/-- the exact decimal that `'{:.df}'` writes for `x` -/
def roundDec (d : Nat) (x : Dy) : PyNum := .fin x.neg (scaledRound x d) (-(d : Int))

theorem padZeros_all_digit (d : Nat) (l : List Nat) (h : ∀ c ∈ l, isDigit c = true) :
    ∀ c ∈ padZeros d l, isDigit c = true := by
  intro c hc
  unfold padZeros at hc
  rcases List.mem_append.mp hc with h' | h'
  · rw [(List.mem_replicate.mp h').2]; decide
  · exact h c h'

/-- the unsigned part of `'{:.df}'.format(x)` for `d ≥ 1` -/
def fixedDigits (d : Nat) (x : Dy) : List Nat :=
  natDigits (scaledRound x d / 10 ^ d) ++ dot :: padZeros d (natDigits (scaledRound x d % 10 ^ d))

theorem fixedBody_eq (d : Nat) (x : Dy) (hd : 1 ≤ d) :
    fixedBody d x = (if x.neg then [minus] else []) ++ fixedDigits d x := by
  have : d ≠ 0 := by omega
  simp [fixedBody, fixedDigits, this]

theorem frac_length (d r : Nat) (hd : 1 ≤ d) : (padZeros d (natDigits (r % 10 ^ d))).length = d := by
  rw [padZeros_length]
  have : (natDigits (r % 10 ^ d)).length ≤ d :=
    natDigits_length_le _ d hd (Nat.mod_lt _ (Nat.pow_pos (by decide)))
  omega

theorem lower_digit {c : Nat} (h : isDigit c = true) : lower c = c := by
  simp [isDigit, lower] at *; omega

theorem pyFloatBody_fixedDigits (neg : Bool) (d : Nat) (x : Dy) (hd : 1 ≤ d) :
    pyFloatBody neg (fixedDigits d x) = .ok (.fin neg (scaledRound x d) (-(d : Int))) := by
  set_option maxRecDepth 2000 in
  have hfrac : ∀ c ∈ padZeros d (natDigits (scaledRound x d % 10 ^ d)), isDigit c = true :=
    padZeros_all_digit _ _ (natDigits_all_digit _)
  have hspan : spanDigits (fixedDigits d x)
      = (natDigits (scaledRound x d / 10 ^ d), dot :: padZeros d (natDigits (scaledRound x d % 10 ^ d))) := by
    unfold fixedDigits
    apply spanDigits_append _ _ (natDigits_all_digit _)
    intro c hc; simp at hc; subst hc; decide
  obtain ⟨c0, t0, h0, hc0⟩ := natDigits_head (scaledRound x d / 10 ^ d)
  have hlw : (fixedDigits d x).map lower = c0 :: (t0 ++ dot :: padZeros d (natDigits (scaledRound x d % 10 ^ d))).map lower := by
    unfold fixedDigits; rw [h0]; simp [lower_digit hc0]
  have hc0' : 48 ≤ c0 ∧ c0 ≤ 57 := (isDigit_iff c0).mp hc0
  have hinf : isInfWord ((fixedDigits d x).map lower) = false := by
    rw [hlw]; unfold isInfWord
    simp only [List.cons.injEq, Bool.or_eq_false_iff, decide_eq_false_iff_not, not_and]
    constructor <;> (intro h; omega)
  have hnan : isNanWord ((fixedDigits d x).map lower) = false := by
    rw [hlw]; unfold isNanWord
    simp only [List.cons.injEq, decide_eq_false_iff_not, not_and]
    intro h; omega
  unfold pyFloatBody
  simp only [hinf, hnan, Bool.false_eq_true, if_false, hspan]
  have hfp : fracPart (dot :: padZeros d (natDigits (scaledRound x d % 10 ^ d)))
      = (padZeros d (natDigits (scaledRound x d % 10 ^ d)), []) := by
    simp only [fracPart, if_true]
    exact spanDigits_all _ hfrac
  rw [hfp]
  have hne : (natDigits (scaledRound x d / 10 ^ d)).isEmpty = false := by rw [h0]; rfl
  simp only [hne, Bool.false_and, Bool.false_eq_true, if_false, parseExp]
  have hval : undigits (natDigits (scaledRound x d / 10 ^ d) ++ padZeros d (natDigits (scaledRound x d % 10 ^ d)))
      = scaledRound x d := by
    rw [undigits_append, undigits_natDigits, undigits_acc, frac_length d _ hd]
    unfold padZeros
    rw [undigits_zeros, Nat.zero_mul, undigits_natDigits]
    exact Nat.div_add_mod' _ _
  rw [hval, frac_length d _ hd]
  simp

theorem fixedDigits_head (d : Nat) (x : Dy) : ∃ c t, fixedDigits d x = c :: t ∧ isDigit c = true := by
  obtain ⟨c, t, h, hc⟩ := natDigits_head (scaledRound x d / 10 ^ d)
  exact ⟨c, _, by unfold fixedDigits; rw [h]; rfl, hc⟩

theorem fixedDigits_getLast (d : Nat) (x : Dy) :
    ∃ c, (fixedDigits d x).getLast? = some c ∧ isDigit c = true := by
  obtain ⟨c, h, hc⟩ := natDigits_getLast (scaledRound x d % 10 ^ d)
  refine ⟨c, ?_, hc⟩
  unfold fixedDigits padZeros
  rw [List.getLast?_append, List.getLast?_cons, List.getLast?_append, h]
  rfl

theorem fixedDigits_chars (d : Nat) (x : Dy) : ∀ c ∈ fixedDigits d x, c = dot ∨ isDigit c = true := by
  intro c hc
  unfold fixedDigits at hc
  simp only [List.mem_append, List.mem_cons] at hc
  rcases hc with h | h | h
  · exact Or.inr (natDigits_all_digit _ c h)
  · exact Or.inl h
  · exact Or.inr (padZeros_all_digit _ _ (natDigits_all_digit _) c h)

/-- `float()` of `'{:.df}'.format(x)` (`d ≥ 1`) surrounded by blanks is the exact decimal written -/
theorem pyFloat_padded (a b : List Nat) (d : Nat) (x : Dy) (hd : 1 ≤ d)
    (ha : ∀ c ∈ a, isCSpace c = true) (hb : ∀ c ∈ b, isCSpace c = true) :
    pyFloat (a ++ fixedBody d x ++ b) = .ok (roundDec d x) := by
  rw [fixedBody_eq d x hd]
  obtain ⟨c0, t0, h0, hc0⟩ := fixedDigits_head d x
  obtain ⟨cl, hl, hcl⟩ := fixedDigits_getLast d x
  have hun : hasUnmodelled (a ++ ((if x.neg then [minus] else []) ++ fixedDigits d x) ++ b) = false := by
    apply not_unmodelled_of
    intro c hc
    simp only [List.mem_append] at hc
    rcases hc with (hc | hc | hc) | hc
    · exact cspace_plain (ha c hc)
    · split at hc
      · simp at hc; subst hc; decide
      · simp at hc
    · rcases fixedDigits_chars d x c hc with h | h
      · subst h; decide
      · exact digit_plain h
    · exact cspace_plain (hb c hc)
  have hstrip : stripC (a ++ ((if x.neg then [minus] else []) ++ fixedDigits d x) ++ b)
      = (if x.neg then [minus] else []) ++ fixedDigits d x := by
    unfold stripC
    apply stripBy_padded _ _ _ ha hb
    · intro c hc
      by_cases hn : x.neg
      · simp [hn] at hc; subst hc; exact minus_not_cspace
      · simp [hn, h0] at hc; subst hc; exact digit_not_cspace hc0
    · intro c hc
      rw [List.getLast?_append, hl] at hc
      simp at hc; subst hc; exact digit_not_cspace hcl
  unfold pyFloat
  rw [hun, hstrip]
  simp only [Bool.false_eq_true, if_false]
  have hsign : splitSign ((if x.neg then [minus] else []) ++ fixedDigits d x) = (x.neg, fixedDigits d x) := by
    by_cases hn : x.neg
    · simp only [hn, if_true, List.singleton_append]; exact splitSign_minus _
    · simp only [hn, Bool.false_eq_true, if_false, List.nil_append]
      rw [h0]
      have := splitSign_digit t0 hc0
      rw [this]
  rw [hsign]
  exact pyFloatBody_fixedDigits x.neg d x hd

theorem pyFloat_fmtFixed (w d : Nat) (x : Dy) (hd : 1 ≤ d) (b : List Nat) (hb : ∀ c ∈ b, isCSpace c = true) :
    pyFloat (fmtFixed w d x ++ b) = .ok (roundDec d x) := by
  unfold fmtFixed padLeft
  exact pyFloat_padded _ _ d x hd (replicate_sp_cspace _) hb

/-! ### `split` -/

theorem splitGo_tok (tok rest cur : List Nat) (h : ∀ c ∈ tok, isSpace c = false) :
    splitGo (tok ++ rest) cur = splitGo rest (cur ++ tok) := by
  induction tok generalizing cur with
  | nil => simp
  | cons c t ih =>
    have hc : isSpace c = false := h c (by simp)
    simp only [List.cons_append, splitGo, hc, Bool.false_eq_true, if_false]
    rw [ih _ (fun x hx => h x (by simp [hx]))]
    simp

theorem splitGo_spaces (a rest : List Nat) (ha : ∀ c ∈ a, isSpace c = true) :
    splitGo (a ++ rest) [] = splitGo rest [] := by
  induction a with
  | nil => rfl
  | cons c t ih =>
    have hc : isSpace c = true := ha c (by simp)
    simp only [List.cons_append, splitGo, hc, if_true, List.isEmpty_nil]
    exact ih (fun x hx => ha x (by simp [hx]))

/-- one field `blanks ++ token`, followed by end of text or by a blank -/
theorem splitGo_field (pad body rest : List Nat) (hpad : ∀ c ∈ pad, isSpace c = true)
    (hne : body ≠ []) (hbody : ∀ c ∈ body, isSpace c = false)
    (hrest : ∀ c, rest.head? = some c → isSpace c = true) :
    splitGo (pad ++ body ++ rest) [] = body :: splitGo rest [] := by
  rw [List.append_assoc, splitGo_spaces _ _ hpad, splitGo_tok _ _ _ hbody, List.nil_append]
  have hE : body.isEmpty = false := by cases body <;> simp_all
  cases rest with
  | nil => simp [splitGo, hE]
  | cons c r =>
    have hc : isSpace c = true := hrest c rfl
    simp [splitGo, hc, hE]

/-! ### lines of a text file -/

theorem takeLine_append_nl (a rest : List Nat) (ha : nl ∉ a) : takeLine (a ++ nl :: rest) = a ++ [nl] := by
  induction a with
  | nil => simp [takeLine]
  | cons c t ih =>
    have hc : c ≠ nl := by intro h; apply ha; simp [h]
    have ht : nl ∉ t := by intro h; apply ha; simp [h]
    simp [takeLine, hc, ih ht]

theorem takeLine_no_nl (a : List Nat) (ha : nl ∉ a) : takeLine a = a := by
  induction a with
  | nil => rfl
  | cons c t ih =>
    have hc : c ≠ nl := by intro h; apply ha; simp [h]
    have ht : nl ∉ t := by intro h; apply ha; simp [h]
    simp [takeLine, hc, ih ht]

theorem takeLine_eq_nil (l : List Nat) : takeLine l = [] ↔ l = [] := by
  cases l with
  | nil => simp [takeLine]
  | cons c t => simp only [takeLine]; split <;> simp

theorem takeLine_take (l : List Nat) (m : Nat) : takeLine (l.take m) = (takeLine l).take m := by
  induction l generalizing m with
  | nil => simp [takeLine]
  | cons c t ih =>
    cases m with
    | zero => simp [takeLine]
    | succ m =>
      simp only [List.take_succ_cons, takeLine]
      split
      · simp
      · simp [ih]

theorem takeLine_length_le (l : List Nat) : (takeLine l).length ≤ l.length := by
  induction l with
  | nil => simp [takeLine]
  | cons c t ih => simp only [takeLine]; split <;> simp <;> omega

theorem readLine_eof (bs : List Nat) (pos : Nat) (h : bs.length ≤ pos) : readLine bs pos = [] := by
  unfold readLine; rw [List.drop_eq_nil_of_le h]; rfl

theorem readLine_eq_nil (bs : List Nat) (pos : Nat) : readLine bs pos = [] ↔ bs.length ≤ pos := by
  unfold readLine; rw [takeLine_eq_nil, List.drop_eq_nil_iff]

/-- reading a line of a truncated file: the line of the full file, cut at the truncation point -/
theorem readLine_take (bs : List Nat) (k pos : Nat) :
    readLine (bs.take k) pos = (readLine bs pos).take (k - pos) := by
  unfold readLine
  rw [List.drop_take, takeLine_take]

theorem readLine_at (pre a rest : List Nat) (ha : nl ∉ a) :
    readLine (pre ++ (a ++ nl :: rest)) pre.length = a ++ [nl] := by
  unfold readLine
  rw [List.drop_left]
  exact takeLine_append_nl a rest ha

theorem readLine_at' (pre a rest : List Nat) (pos : Nat) (hp : pos = pre.length) (ha : nl ∉ a) :
    readLine (pre ++ (a ++ nl :: rest)) pos = a ++ [nl] := by
  subst hp; exact readLine_at pre a rest ha

/-! ### writing -/

theorem writeAt_end (bs s : List Nat) : writeAt bs bs.length s = bs ++ s := by
  unfold writeAt
  split
  · rename_i h; simp at h; simp [h]
  · simp

theorem writeAt_mid (a b c s : List Nat) (h : s.length = b.length) :
    writeAt (a ++ b ++ c) a.length s = a ++ s ++ c := by
  unfold writeAt
  split
  · rename_i hs
    have : s = [] := by simpa using hs
    subst this
    have : b = [] := by simpa using h.symm
    subst this; simp
  · have h1 : a.length ≤ (a ++ b ++ c).length := by simp
    rw [if_pos h1]
    have e1 : (a ++ b ++ c).take a.length = a := by
      rw [List.append_assoc, List.take_left]
    have e2 : (a ++ b ++ c).drop (a.length + s.length) = c := by
      rw [h, show a.length + b.length = (a ++ b).length by simp, List.drop_left]
    rw [e1, e2]

/-! ### slices -/

theorem slice_skip (A rest : List Nat) (i j : Nat) (hi : A.length ≤ i) :
    slice (A ++ rest) i j = slice rest (i - A.length) (j - A.length) := by
  unfold slice
  obtain ⟨i', rfl⟩ : ∃ i', i = A.length + i' := ⟨i - A.length, by omega⟩
  have e : (A ++ rest).drop (A.length + i') = rest.drop i' := by
    rw [← List.drop_drop, List.drop_left]
  rw [e]
  have e1 : A.length + i' - A.length = i' := by omega
  have e2 : j - (A.length + i') = j - A.length - i' := by omega
  rw [e1, e2]

theorem slice_head (A rest : List Nat) (j : Nat) (hj : A.length = j) : slice (A ++ rest) 0 j = A := by
  unfold slice
  subst hj
  simp

theorem slice_all (A : List Nat) (j : Nat) (hj : A.length = j) : slice A 0 j = A := by
  have := slice_head A [] j hj
  simpa using this

end PyStrL
