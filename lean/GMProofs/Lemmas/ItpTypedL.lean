import GMModel.ItpTyped
import GMProofs.Lemmas.ItpL
/-
  GMProofs.Lemmas.ItpTypedL — lemmas about `GMModel.ItpTyped`: the typed model refines the
  validated line / file model of `GMModel.Itp` (forgetting the field values gives `mkLine`, `parse`);
  the `_fields` dictionary; frame properties of the typed setters.
-/
set_option linter.unusedSimpArgs false
set_option linter.unusedVariables false

namespace ItpT
open Itp

/-! ### the field initialisers raise exactly what the validators of `GMModel.Itp` raise -/

theorem initAtom_check (p : List Str) : (initAtomFields p).map (fun _ => ()) = checkAtom p := by
  unfold initAtomFields checkAtom intField strField optFloatField pyFloatOk
  cases h0 : p[0]? <;> simp only [bind, Except.bind, Except.map, pure, Except.pure, throw, throwThe, MonadExceptOf.throw, Option.isNone_none, Option.isNone_some, if_true, if_false, Bool.false_eq_true]
  rename_i t0
  cases hi0 : pyInt t0 <;> simp only [Option.isNone_none, Option.isNone_some, if_true, if_false, Bool.false_eq_true]
  cases h1 : p[1]? <;> simp only [Option.isNone_none, Option.isNone_some, if_true, if_false, Bool.false_eq_true]
  cases h2 : p[2]? <;> simp only [Option.isNone_none, Option.isNone_some, if_true, if_false, Bool.false_eq_true]
  rename_i t2
  cases hi2 : pyInt t2 <;> simp only [Option.isNone_none, Option.isNone_some, if_true, if_false, Bool.false_eq_true]
  cases h3 : p[3]? <;> simp only [Option.isNone_none, Option.isNone_some, if_true, if_false, Bool.false_eq_true]
  cases h4 : p[4]? <;> simp only [Option.isNone_none, Option.isNone_some, if_true, if_false, Bool.false_eq_true]
  cases h5 : p[5]? <;> simp only [Option.isNone_none, Option.isNone_some, if_true, if_false, Bool.false_eq_true]
  rename_i t5
  cases hi5 : pyInt t5 <;> simp only [Option.isNone_none, Option.isNone_some, if_true, if_false, Bool.false_eq_true]
  cases h6 : p[6]? <;> simp only [Option.isNone_none, Option.isNone_some, if_true, if_false, Bool.false_eq_true]
  · cases h7 : p[7]? <;> simp only []
    rename_i t7
    cases pyFloat t7 <;> simp
  · rename_i t6
    cases pyFloat t6 <;> simp
    cases h7 : p[7]? <;> simp only []
    rename_i t7
    cases pyFloat t7 <;> simp

theorem initBond_check (f : List Str) : (initBondFields f).map (fun _ => ()) = checkBonds f := by
  unfold initBondFields checkBonds intField
  by_cases hl : f.length < 2
  · simp [hl, bind, Except.bind, Except.map, throw, throwThe, MonadExceptOf.throw]
  · simp only [hl, if_false, bind, Except.bind, Except.map, pure, Except.pure, throw, throwThe, MonadExceptOf.throw]
    cases h0 : f[0]? <;> simp only [Option.isNone_none, Option.isNone_some, if_true, if_false, Bool.false_eq_true]
    rename_i t0
    cases hi0 : pyInt t0 <;> simp only [Option.isNone_none, Option.isNone_some, if_true, if_false, Bool.false_eq_true]
    cases h1 : f[1]? <;> simp only [Option.isNone_none, Option.isNone_some, if_true, if_false, Bool.false_eq_true]
    rename_i t1
    cases hi1 : pyInt t1 <;> simp only [Option.isNone_none, Option.isNone_some, if_true, if_false, Bool.false_eq_true]
    cases h2 : f[2]? <;> simp only [Option.isNone_none, Option.isNone_some, if_true, if_false, Bool.false_eq_true]
    rename_i t2
    cases hi2 : pyInt t2 <;> simp

theorem splitGo_no_ws : ∀ (s cur : Str), (∀ c ∈ cur, isWs c = false) →
    ∀ t ∈ splitGo cur s, ∀ c ∈ t, isWs c = false
  | [], cur, hc => by
    intro t ht
    unfold splitGo at ht
    split_ifs at ht with h
    · simp at ht
    · simp only [List.mem_singleton] at ht; subst ht
      intro c hc'; exact hc c (by simpa using hc')
  | a :: s, cur, hc => by
    intro t ht
    unfold splitGo at ht
    split_ifs at ht with h1 h2
    · exact splitGo_no_ws s [] (by simp) t ht
    · simp only [List.mem_cons] at ht
      rcases ht with rfl | ht
      · intro c hc'; exact hc c (by simpa using hc')
      · exact splitGo_no_ws s [] (by simp) t ht
    · refine splitGo_no_ws s (a :: cur) ?_ t ht
      intro c hc'
      simp only [List.mem_cons] at hc'
      rcases hc' with rfl | hc'
      · simpa using h1
      · exact hc c hc'

theorem split_no_space {s : Str} {t : Str} (ht : t ∈ split s) : t.contains ' ' = false := by
  have := splitGo_no_ws s [] (by simp) t ht
  by_contra hc
  have hm : ' ' ∈ t := by simpa using hc
  have := this ' ' hm
  revert this; decide

theorem initMt_check (parse : List Str) (hp : ∀ t ∈ parse, t.contains ' ' = false) :
    (do let n ← strField parse 0
        let n' ← mtSetName (.str n)
        let x ← intField parse 1
        let x' ← mtSetNrexcl (.int x)
        pure (Typed.mt n' x') : Except PyErr Typed).map (fun _ => ()) = checkMt parse := by
  unfold checkMt strField intField mtSetName mtSetNrexcl
  cases h0 : parse[0]? <;> simp only [bind, Except.bind, Except.map, pure, Except.pure, throw, throwThe, MonadExceptOf.throw, Option.isNone_none, Option.isNone_some, if_true, if_false, Bool.false_eq_true]
  rename_i t0
  have h0' : t0.contains ' ' = false := hp t0 (List.mem_of_getElem? h0)
  simp only [h0', Bool.false_eq_true, if_false]
  cases h1 : parse[1]? <;> simp only []
  rename_i t1
  cases hi1 : pyInt t1 <;> simp only []
  rename_i v
  by_cases hv : v < 1 <;> simp [hv]

/-- the subclass constructors accept / reject exactly as the validators of `GMModel.Itp` -/
theorem initTyped_check (k : SecKind) (c : Str) :
    (initTyped k c).map (fun _ => ()) = lineCheck k c := by
  unfold initTyped lineCheck
  cases k with
  | plain => by_cases hb : isBlank c <;> simp [hb, Except.map, pure, Except.pure]
  | atoms =>
    by_cases hb : isBlank c
    · simp [hb, Except.map, pure, Except.pure]
    · simp only [hb, Bool.false_eq_true, if_false]
      rw [← initAtom_check]
      cases initAtomFields (split c) <;> rfl
  | bonds =>
    by_cases hb : isBlank c
    · simp [hb, Except.map, pure, Except.pure]
    · simp only [hb, Bool.false_eq_true, if_false]
      rw [← initBond_check]
      cases initBondFields (split c) <;> rfl
  | mt =>
    by_cases hb : isBlank c
    · simp [hb, Except.map, pure, Except.pure]
    · simp only [hb, Bool.false_eq_true, if_false]
      rw [← initMt_check (split c) (fun t ht => split_no_space ht)]

theorem map_unit_eq_ok {α : Type} {x : Except PyErr α} (h : x.map (fun _ => ()) = .ok ()) :
    ∃ a, x = .ok a := by
  cases x with
  | error e => simp [Except.map] at h
  | ok a => exact ⟨a, rfl⟩

/-- FORGETTING THE FIELD VALUES of a typed line gives the line of `GMModel.Itp` -/
theorem mkTLine_base (k : SecKind) (r : Str) : (mkTLine k r).map (·.base) = mkLine k r := by
  unfold mkTLine mkLine
  cases hp : parseItpLine r with
  | error e => rfl
  | ok cm =>
    obtain ⟨c, m⟩ := cm
    simp only [bind, Except.bind]
    have h := initTyped_check k c
    cases ht : initTyped k c with
    | error e => rw [ht] at h; simp only [Except.map] at h; rw [← h]; rfl
    | ok t => rw [ht] at h; simp only [Except.map] at h; rw [← h]; rfl

theorem mkTLine_ok {k : SecKind} {r : Str} {l : TLine} (h : mkTLine k r = .ok l) :
    mkLine k r = .ok l.base := by
  rw [← mkTLine_base, h]; rfl

theorem mkTLine_err {k : SecKind} {r : Str} {e : PyErr} (h : mkTLine k r = .error e) :
    mkLine k r = .error e := by
  rw [← mkTLine_base, h]; rfl

/-! ### the file fold -/

def eraseSt (st : TState) : PState := ⟨st.file.erase, st.cur⟩

theorem hasSecT_erase (secs : List TSection) (n : Str) :
    hasSec (secs.map TSection.erase) n = hasSecT secs n := by
  unfold hasSec hasSecT
  rw [List.any_map]
  rfl

theorem appendToT_erase (secs : List TSection) (n : Str) (l : TLine) :
    (appendToT secs n l).map TSection.erase = appendTo (secs.map TSection.erase) n l.base := by
  unfold appendToT appendTo
  induction secs with
  | nil => rfl
  | cons s t ih =>
    simp only [List.map_cons, List.cons.injEq]
    refine ⟨?_, ih⟩
    by_cases h : s.name = n <;> simp [h, TSection.erase]

theorem stepT_erase (st : TState) (line : Str) :
    (stepT st line).map eraseSt = step (eraseSt st) line := by
  unfold stepT step
  by_cases hh : isHeaderLine line
  · simp only [hh, Bool.not_true, Bool.false_eq_true, if_false]
    cases hn : sectionName line with
    | none => rfl
    | some n =>
      simp only
      by_cases hk : n = headerKey
      · simp [hk, Except.map, eraseSt]
      · simp only [hk, if_false]
        have : hasSec (eraseSt st).file.secs n = hasSecT st.file.secs n := by
          simp only [eraseSt, TFile.erase]; exact hasSecT_erase _ _
        rw [this]
        by_cases hs : hasSecT st.file.secs n
        · simp [hs, Except.map, eraseSt]
        · simp [hs, Except.map, eraseSt, TFile.erase, TSection.erase]
  · simp only [hh, Bool.not_false, if_true]
    cases hc : st.cur with
    | none => simp [Except.map, eraseSt, TFile.erase, hc]
    | some n =>
      simp only [eraseSt, hc]
      cases hl : mkTLine (secKind n) line with
      | error e => simp [mkTLine_err hl, bind, Except.bind, Except.map]
      | ok l =>
        simp [mkTLine_ok hl, bind, Except.bind, Except.map, pure, Except.pure, TFile.erase,
          appendToT_erase, eraseSt]

theorem foldStepsT_erase : ∀ (ls : List Str) (st : TState),
    (foldStepsT st ls).map eraseSt = foldSteps (eraseSt st) ls
  | [], st => rfl
  | l :: ls, st => by
    unfold foldStepsT foldSteps
    have h := stepT_erase st l
    cases hs : stepT st l with
    | error e => rw [hs] at h; simp only [Except.map] at h; rw [← h]; rfl
    | ok st' =>
      rw [hs] at h; simp only [Except.map] at h; rw [← h]
      simp only [bind, Except.bind]
      exact foldStepsT_erase ls st'

/-- FORGETTING THE FIELD VALUES of a typed file gives the file object of `GMModel.Itp`: every
    theorem of C16 about `parse` / `write` applies to what `parseT` / `writeT` read and write -/
theorem parseT_erase (t : Str) : (parseT t).map TFile.erase = parse t := by
  unfold parseT parse
  have h := foldStepsT_erase (splitLines t) ⟨⟨[], []⟩, none⟩
  have e : eraseSt ⟨⟨[], []⟩, none⟩ = ⟨⟨[], []⟩, none⟩ := rfl
  rw [e] at h
  cases hs : foldStepsT ⟨⟨[], []⟩, none⟩ (splitLines t) with
  | error x => rw [hs] at h; simp only [Except.map] at h; rw [← h]; rfl
  | ok st => rw [hs] at h; simp only [Except.map] at h; rw [← h]; rfl

/-! ### the `_fields` dictionary -/

theorem Dict.find_map_ne (k k' : String) (v : Val) (hne : k' ≠ k) : ∀ d : Dict,
    (d.map (fun kv => if kv.1 == k then (k, v) else kv)).find? (·.1 == k') = d.find? (·.1 == k')
  | [] => rfl
  | kv :: t => by
    simp only [List.map_cons, List.find?_cons]
    by_cases h1 : kv.1 == k
    · have e : kv.1 = k := by simpa using h1
      have n1 : ¬ (k == k') = true := by simpa using fun x : k = k' => hne x.symm
      have n2 : ¬ (kv.1 == k') = true := by rw [e]; exact n1
      simp only [h1, if_true, n1, n2]
      exact Dict.find_map_ne k k' v hne t
    · simp only [h1, Bool.false_eq_true, if_false]
      cases h2 : kv.1 == k'
      · exact Dict.find_map_ne k k' v hne t
      · rfl

theorem Dict.find_map_eq (k : String) (v : Val) : ∀ d : Dict, d.any (·.1 == k) = true →
    (d.map (fun kv => if kv.1 == k then (k, v) else kv)).find? (·.1 == k) = some (k, v)
  | [], h => by simp at h
  | kv :: t, h => by
    simp only [List.map_cons, List.find?_cons]
    by_cases h1 : kv.1 == k
    · simp [h1]
    · simp only [h1, Bool.false_eq_true, if_false]
      simp only [List.any_cons, h1, Bool.false_or] at h
      exact Dict.find_map_eq k v t h

theorem Dict.find_none_of_not_has (k : String) : ∀ d : Dict, d.any (·.1 == k) = false →
    d.find? (·.1 == k) = none
  | [], _ => rfl
  | kv :: t, h => by
    simp only [List.any_cons, Bool.or_eq_false_iff] at h
    simp only [List.find?_cons, h.1]
    exact Dict.find_none_of_not_has k t h.2

/-- reading back the key just set -/
theorem Dict.get_set_eq (d : Dict) (k : String) (v : Val) : (d.set k v).get k = .ok v := by
  unfold Dict.set Dict.get Dict.has
  by_cases hk : d.any (·.1 == k) = true
  · simp only [hk, if_true, Dict.find_map_eq k v d hk]
  · have hk' : d.any (·.1 == k) = false := Bool.eq_false_iff.mpr hk
    simp only [hk', Bool.false_eq_true, if_false, List.find?_append, Dict.find_none_of_not_has k d hk']
    simp

/-- every other key is untouched -/
theorem Dict.get_set_ne (d : Dict) {k k' : String} (v : Val) (hne : k' ≠ k) :
    (d.set k v).get k' = d.get k' := by
  unfold Dict.set Dict.get Dict.has
  by_cases hk : d.any (·.1 == k) = true
  · simp only [hk, if_true, Dict.find_map_ne k k' v hne d]
  · have hk' : d.any (·.1 == k) = false := Bool.eq_false_iff.mpr hk
    have n1 : ¬ (k == k') = true := by simpa using fun x : k = k' => hne x.symm
    simp only [hk', Bool.false_eq_true, if_false, List.find?_append]
    cases d.find? (·.1 == k') <;> simp [n1]

theorem Dict.has_iff_get (d : Dict) (k : String) : d.has k = true ↔ ∃ v, d.get k = .ok v := by
  unfold Dict.has Dict.get
  constructor
  · intro h
    cases hf : d.find? (·.1 == k) with
    | none =>
      rw [List.find?_eq_none] at hf
      rw [List.any_eq_true] at h
      obtain ⟨x, hx, hxk⟩ := h
      exact absurd hxk (hf x hx)
    | some kv => exact ⟨kv.2, rfl⟩
  · rintro ⟨v, hv⟩
    cases hf : d.find? (·.1 == k) with
    | none => rw [hf] at hv; simp at hv
    | some kv =>
      rw [List.any_eq_true]
      exact ⟨kv, List.mem_of_find?_eq_some hf, List.find?_some (p := fun (x : String × Val) => x.1 == k) hf⟩

theorem Dict.has_set_eq (d : Dict) (k : String) (v : Val) : (d.set k v).has k = true :=
  (Dict.has_iff_get _ _).mpr ⟨v, Dict.get_set_eq d k v⟩

theorem Dict.has_set_ne (d : Dict) {k k' : String} (v : Val) (hne : k' ≠ k) :
    (d.set k v).has k' = d.has k' := by
  have h1 := Dict.has_iff_get (d.set k v) k'
  have h2 := Dict.has_iff_get d k'
  rw [Dict.get_set_ne d v hne] at h1
  cases ha : (d.set k v).has k' <;> cases hb : d.has k' <;> simp_all

theorem Dict.get_set (d : Dict) (k k' : String) (v : Val) :
    (d.set k v).get k' = if k' = k then .ok v else d.get k' := by
  by_cases h : k' = k
  · subst h; simp [Dict.get_set_eq]
  · simp [h, Dict.get_set_ne d v h]

theorem Dict.has_set (d : Dict) (k k' : String) (v : Val) :
    (d.set k v).has k' = (decide (k' = k) || d.has k') := by
  by_cases h : k' = k
  · subst h; simp [Dict.has_set_eq]
  · simp [h, Dict.has_set_ne d v h]

/-! ### helpers of the property theorems (`Props/C16Extra.lean`) -/

/-- the attributes of an atom line whose setter stores into `_fields` -/
def atomSettable : List String := ["charge", "mass", "pair_interaction", "aux_name"]

theorem atomGet_set_ne (d : Dict) (k : String) (hk : k ∈ atomSettable) (v : Val) (n' : String)
    (h1 : n' ≠ k) (h2 : n' ≠ "parsed_line") : atomGet (d.set k v) n' = atomGet d n' := by
  simp only [atomSettable, List.mem_cons, List.mem_nil_iff, or_false] at hk
  rcases hk with rfl | rfl | rfl | rfl <;>
  · unfold atomGet
    split <;> first
      | rfl
      | (exfalso; exact h1 rfl)
      | (exfalso; exact h2 rfl)
      | simp [Dict.get_set, Dict.has_set]

theorem getAttr_atom (l : TLine) (d : Dict) (hl : l.typed = .atom d) (n : String)
    (h1 : n ≠ "content") (h2 : n ≠ "comment") (h3 : n ≠ "line") : l.getAttr n = atomGet d n := by
  unfold TLine.getAttr
  split
  · exact absurd rfl h1
  · exact absurd rfl h2
  · exact absurd rfl h3
  · rw [hl]


theorem set_self {α : Type} : ∀ (l : List α) (i : Nat) (a : α), l[i]? = some a → l.set i a = l
  | [], _, _, h => by simp at h
  | x :: t, 0, a, h => by simp at h; simp [h]
  | x :: t, i + 1, a, h => by
    simp only [List.getElem?_cons_succ] at h
    simp [set_self t i a h]

theorem setLineIn_erase (sec : Str) (i : Nat) (l l' : TLine) (hb : l'.base = l.base) :
    ∀ ss : List TSection, ((ss.find? (·.name = sec)).bind (·.lines[i]?)) = some l →
      (setLineIn ss sec i l').map TSection.erase = ss.map TSection.erase
  | [], h => by simp at h
  | s :: ss, h => by
    unfold setLineIn
    by_cases hn : s.name = sec
    · simp only [hn, if_true, List.map_cons, List.cons.injEq, and_true]
      simp only [List.find?_cons, hn, decide_true, Option.bind_some] at h
      unfold TSection.erase
      simp only [ItpSection.mk.injEq, true_and, List.map_set, hb]
      refine ⟨hn.symm, ?_⟩
      apply set_self
      rw [List.getElem?_map, h]; rfl
    · simp only [hn, if_false, List.map_cons, List.cons.injEq, true_and]
      simp only [List.find?_cons, hn, decide_false] at h
      exact setLineIn_erase sec i l l' hb ss h


end ItpT
