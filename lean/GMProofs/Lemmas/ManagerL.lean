import GMModel.Manager
/-
  GMProofs.Lemmas.ManagerL — helper lemmas about `Mgr.writeLines`, `Mgr.loop`, `Mgr.number`
  (core Lean only).
-/

namespace Mgr

variable {C P B : Type}

/-! ### `number` -/

theorem number_append (k : Nat) (a b : List (Int × TAtom P)) :
    number k (a ++ b) = number k a ++ number (k + a.length) b := by
  induction a generalizing k with
  | nil => simp [number]
  | cons x xs ih =>
    simp only [List.cons_append, number, List.length_cons, ih (k + 1)]
    congr 3
    omega

theorem number_length (k : Nat) (l : List (Int × TAtom P)) : (number k l).length = l.length := by
  induction l generalizing k with
  | nil => rfl
  | cons x xs ih => simp [number, ih]

/-- the numbers written are `k, k+1, …` -/
theorem number_numbers (k : Nat) (l : List (Int × TAtom P)) :
    (number k l).map (·.number) = List.range' k l.length := by
  induction l generalizing k with
  | nil => rfl
  | cons x xs ih => simp [number, mkRec, ih, List.range'_succ]

/-- everything but the number is carried over unchanged -/
theorem number_fields (k : Nat) (l : List (Int × TAtom P)) :
    (number k l).map (fun r => (r.resid, r.resname, r.name, r.hasVel, r.pos))
      = l.map (fun x => (x.1, x.2.resname, x.2.name, x.2.hasVel, x.2.pos)) := by
  induction l generalizing k with
  | nil => rfl
  | cons x xs ih => simp [number, mkRec, ih]

/-! ### `assignResids` -/

theorem mem_assignResids {resids : List Int} {rs : List (List (TAtom P))} {x : Int × TAtom P}
    (h : x ∈ assignResids resids rs) : ∃ r ∈ rs, x.2 ∈ r := by
  unfold assignResids at h
  rw [List.mem_flatMap] at h
  obtain ⟨p, hp, hx⟩ := h
  rw [List.mem_map] at hx
  obtain ⟨a, ha, rfl⟩ := hx
  exact ⟨p.2, (List.of_mem_zip hp).2, ha⟩

theorem assignResids_length (resids : List Int) (rs : List (List (TAtom P)))
    (h : resids.length = rs.length) :
    (assignResids resids rs).length = (rs.map List.length).sum := by
  induction resids generalizing rs with
  | nil =>
    cases rs with
    | nil => rfl
    | cons _ _ => simp at h
  | cons r rest ih =>
    cases rs with
    | nil => simp at h
    | cons a as =>
      have h' : rest.length = as.length := by simpa using h
      have := ih as h'
      simp only [assignResids, List.zip_cons_cons, List.flatMap_cons, List.length_append,
        List.length_map, List.map_cons, List.sum_cons] at this ⊢
      omega

/-- residue `i` of the written molecule carries the `i`-th residue number of the input molecule -/
theorem assignResids_cons (r : Int) (rest : List Int) (a : List (TAtom P)) (as : List (List (TAtom P))) :
    assignResids (r :: rest) (a :: as) = a.map (fun x => (r, x)) ++ assignResids rest as := by
  simp [assignResids]

/-! ### `writeLines` -/

theorem writeLines_ok (v : Bool) (atoms : List (Int × TAtom P)) :
    ∀ st : WSt P, (∀ x ∈ atoms, x.2.hasVel = v) → (st.vel = none ∨ st.vel = some v) →
      ∃ vel', (vel' = none ∨ vel' = some v) ∧
        writeLines st atoms = (⟨st.recs ++ number st.next atoms, st.next + atoms.length, vel'⟩, none) := by
  induction atoms with
  | nil =>
    intro st _ hv
    exact ⟨st.vel, hv, by simp [writeLines, number]⟩
  | cons x xs ih =>
    intro st hall hv
    have hx : x.2.hasVel = v := hall x (List.mem_cons_self ..)
    have hok : velOk st.vel x.2.hasVel = true := by
      rcases hv with h | h <;> simp [velOk, h, hx]
    obtain ⟨vel', hvel', heq⟩ :=
      ih ⟨st.recs ++ [mkRec st.next x], st.next + 1, some x.2.hasVel⟩
        (fun y hy => hall y (List.mem_cons_of_mem _ hy)) (Or.inr (by simp [hx]))
    refine ⟨vel', hvel', ?_⟩
    simp only [writeLines, hok, if_true, heq, number, List.length_cons, List.append_assoc,
      List.singleton_append]
    congr 2
    omega

/-- the first line whose velocity flag differs from the first line written raises `IOError`;
    the lines before it stay written -/
theorem writeLines_mismatch (v : Bool) (pre : List (Int × TAtom P)) (x : Int × TAtom P)
    (post : List (Int × TAtom P)) (st : WSt P)
    (hpre : ∀ y ∈ pre, y.2.hasVel = v) (hv : st.vel = some v) (hx : x.2.hasVel ≠ v) :
    (writeLines st (pre ++ x :: post)).2 = some .IOError ∧
    (writeLines st (pre ++ x :: post)).1.recs = st.recs ++ number st.next pre := by
  induction pre generalizing st with
  | nil =>
    have : velOk st.vel x.2.hasVel = false := by
      simp only [velOk, hv]
      cases h1 : x.2.hasVel <;> cases v <;> simp_all
    simp [writeLines, this, number]
  | cons y ys ih =>
    have hy : y.2.hasVel = v := hpre y (List.mem_cons_self ..)
    have hok : velOk st.vel y.2.hasVel = true := by simp [velOk, hv, hy]
    have := ih ⟨st.recs ++ [mkRec st.next y], st.next + 1, some y.2.hasVel⟩
      (fun z hz => hpre z (List.mem_cons_of_mem _ hz)) (by simp [hy])
    simp only [List.cons_append, writeLines, hok, if_true]
    refine ⟨this.1, ?_⟩
    rw [this.2]
    simp [number]

/-! ### `loop` -/

/-- molecules of species without complete correspondence contribute nothing -/
theorem mapped_of_lookup_none {complete : Corr C P} {mol : MolInst C}
    (h : complete.lookup mol.species = none) : mapped complete mol = [] := by
  simp [mapped, h]

/-- a prefix of molecules that map and write without error: the loop continues after it with the
    lines of the prefix appended and the counter advanced by their number -/
theorem loop_prefix_ok (complete : Corr C P) (v : Bool) (pre : List (MolInst C)) :
    ∀ (st : WSt P) (rest : List (MolInst C)),
      (∀ mol ∈ pre, MolOk complete v mol) → (st.vel = none ∨ st.vel = some v) →
      ∃ vel', (vel' = none ∨ vel' = some v) ∧
        loop complete st (pre ++ rest) =
          loop complete ⟨st.recs ++ number st.next (pre.flatMap (mapped complete)),
                         st.next + (pre.flatMap (mapped complete)).length, vel'⟩ rest := by
  induction pre with
  | nil =>
    intro st rest _ hv
    exact ⟨st.vel, hv, by simp [number]⟩
  | cons mol mols ih =>
    intro st rest hall hv
    have hmol := hall mol (List.mem_cons_self ..)
    have hrest : ∀ m ∈ mols, MolOk complete v m := fun m hm => hall m (List.mem_cons_of_mem _ hm)
    cases hl : complete.lookup mol.species with
    | none =>
      obtain ⟨vel', hvel', heq⟩ := ih st rest hrest hv
      refine ⟨vel', hvel', ?_⟩
      simp only [List.cons_append, loop, hl, List.flatMap_cons, mapped_of_lookup_none hl,
        List.nil_append]
      exact heq
    | some al =>
      obtain ⟨m, hm, hacc, hne, hlen, hvel⟩ := hmol al hl
      have happly : applyMap m mol = .ok (assignResids mol.resids (m.restore mol)) := by
        have h1 : mol.resids.isEmpty = false := by
          cases h : mol.resids with
          | nil => exact absurd h hne
          | cons _ _ => rfl
        simp [applyMap, hacc, h1, hlen]
      have hmapped : mapped complete mol = assignResids mol.resids (m.restore mol) := by
        simp [mapped, hl, hm]
      have hatoms : ∀ x ∈ assignResids mol.resids (m.restore mol), x.2.hasVel = v := by
        intro x hx
        obtain ⟨r, hr, ha⟩ := mem_assignResids hx
        exact hvel r hr x.2 ha
      obtain ⟨vel1, hvel1, hw⟩ := writeLines_ok v _ st hatoms hv
      obtain ⟨vel', hvel', heq⟩ :=
        ih ⟨st.recs ++ number st.next (assignResids mol.resids (m.restore mol)),
            st.next + (assignResids mol.resids (m.restore mol)).length, vel1⟩ rest hrest hvel1
      refine ⟨vel', hvel', ?_⟩
      simp only [List.cons_append, loop, hl, hm, happly, hw, List.flatMap_cons, hmapped]
      rw [heq]
      simp only [List.append_assoc, number_append, List.length_append, Nat.add_assoc]

/-- a whole system that maps and writes without error -/
theorem loop_ok (complete : Corr C P) (v : Bool) (sys : List (MolInst C)) (st : WSt P)
    (hall : ∀ mol ∈ sys, MolOk complete v mol) (hv : st.vel = none ∨ st.vel = some v) :
    (loop complete st sys).1.recs = st.recs ++ number st.next (sys.flatMap (mapped complete)) ∧
    (loop complete st sys).2 = none := by
  obtain ⟨vel', _, heq⟩ := loop_prefix_ok complete v sys st [] hall hv
  rw [List.append_nil] at heq
  rw [heq]
  simp [loop]

end Mgr
