import GMModel.Gro
import GMProofs.Lemmas.PyStrL
import GMProofs.Lemmas.GroLineL
import GMProofs.Lemmas.GroLatticeL
import GMProofs.Lemmas.GroL
/-
  The writer state machine on a well-formed session (setters; ≥ 1 `writeline`; `close`) produces a
  file with the `.gro` layout. (core Lean only)
-/
open PyStr PyStrL Gro

namespace GroL

/-- a `GroFile` in write mode on which only setters have been used so far -/
structure Pristine (s : WState) : Prop where
  bytes : s.bytes = []
  pos : s.pos = 0
  initPos : s.initPos = none
  lineSize : s.lineSize = none
  fmtVel : s.fmtVel = none
  cur : s.cur = 0
  closed : s.closed = false

def IsSetter : Op → Prop
  | .setComment _ => True
  | .setBox _ => True
  | .setNatoms _ => True
  | .setPosFmt _ _ => True
  | .writeLine _ => False
  | .close => False
  | .setBoxBadShape => False      -- raises `ValueError`
  | .writeStr _ => False
  | .writeTup _ => False

theorem pristine_init : Pristine WState.init := ⟨rfl, rfl, rfl, rfl, rfl, rfl, rfl⟩

theorem pristine_step {s : WState} {op : Op} (hs : Pristine s) (hop : IsSetter op) :
    Pristine (step s op).1 ∧ (step s op).2 = none := by
  cases op with
  | setComment v => exact ⟨⟨hs.1, hs.2, hs.3, hs.4, hs.5, hs.6, hs.7⟩, rfl⟩
  | setBox b => exact ⟨⟨hs.1, hs.2, hs.3, hs.4, hs.5, hs.6, hs.7⟩, rfl⟩
  | setNatoms n => exact ⟨⟨hs.1, hs.2, hs.3, hs.4, hs.5, hs.6, hs.7⟩, rfl⟩
  | setPosFmt w d => exact ⟨⟨hs.1, hs.2, hs.3, hs.4, hs.5, hs.6, hs.7⟩, rfl⟩
  | writeLine r => exact absurd hop (by simp [IsSetter])
  | close => exact absurd hop (by simp [IsSetter])
  | setBoxBadShape => exact absurd hop (by simp [IsSetter])
  | writeStr l => exact absurd hop (by simp [IsSetter])
  | writeTup n => exact absurd hop (by simp [IsSetter])

theorem pristine_run {s : WState} (ops : List Op) (hs : Pristine s) (hops : ∀ op ∈ ops, IsSetter op) :
    Pristine (run s ops).1 ∧ ∀ e ∈ (run s ops).2, e = none := by
  induction ops generalizing s with
  | nil => exact ⟨hs, by simp [run]⟩
  | cons op t ih =>
    obtain ⟨h1, h2⟩ := pristine_step hs (hops op (by simp))
    obtain ⟨h3, h4⟩ := ih h1 (fun x hx => hops x (by simp [hx]))
    simp only [run]
    refine ⟨h3, ?_⟩
    intro e he
    simp only [List.mem_cons] at he
    rcases he with he | he
    · rw [he, h2]
    · exact h4 e he

/-- the count line of the closed file (without terminator) -/
def countFinal (s : WState) (n : Nat) : List Nat :=
  match s.natoms with
  | none => fmtD numberFigures n
  | some m => intBody m

def headerOf (s : WState) : List Nat := (s.effComment ++ [nl]) ++ s.countLine

/-- the writer after the header and the records `done` -/
structure Writing (s0 s : WState) (w d : Nat) (vel : Bool) (L : Nat) (done : List Rec) : Prop where
  bytes : s.bytes = headerOf s0 ++ linesText (done.map (lineOf w d))
  pos : s.pos = s.bytes.length
  initPos : s.initPos = some (headerOf s0).length
  lineSize : s.lineSize = some (L + 1)
  fmtPos : s.fmtPos = some (w, d)
  fmtVel : s.fmtVel = some vel
  cur : s.cur = done.length
  closed : s.closed = false
  natoms : s.natoms = s0.natoms
  box : s.box = s0.box

theorem linesText_snoc (ls : List (List Nat)) (l : List Nat) : linesText (ls ++ [l]) = linesText ls ++ (l ++ [nl]) := by
  rw [linesText_append]; simp [linesText]

theorem write_at_end (s : WState) (t : List Nat) (h : s.pos = s.bytes.length) :
    (s.write t).bytes = s.bytes ++ t ∧ (s.write t).pos = (s.write t).bytes.length := by
  unfold WState.write
  simp only [h, writeAt_end, List.length_append, and_self]

theorem writing_step {s0 s : WState} {w d : Nat} {vel : Bool} {L : Nat} {done : List Rec} {r : Rec}
    (h : Writing s0 s w d vel L done) (hr : RecOk w d vel r) :
    ∃ s', step s (.writeLine r) = (s', none) ∧ Writing s0 s' w d vel L (done ++ [r]) := by
  have hstep : step s (.writeLine r) = writeLineBody s r := by
    simp only [step, h.initPos]
  have hbody : writeLineBody s r
      = ({ (s.write (lineOf w d r)).write [nl] with cur := s.cur + 1 }, none) := by
    unfold writeLineBody
    simp only [h.fmtPos, h.fmtVel, parseAtomlist_ok w d vel r hr, h.closed, Bool.false_eq_true, if_false]
  refine ⟨_, by rw [hstep, hbody], ?_⟩
  obtain ⟨b1, p1⟩ := write_at_end s (lineOf w d r) h.pos
  obtain ⟨b2, p2⟩ := write_at_end (s.write (lineOf w d r)) [nl] p1
  constructor
  · show ((s.write (lineOf w d r)).write [nl]).bytes = _
    rw [b2, b1, h.bytes, List.map_append, List.map_cons, List.map_nil, linesText_snoc]
    simp [List.append_assoc]
  · exact p2
  · exact h.initPos
  · exact h.lineSize
  · exact h.fmtPos
  · exact h.fmtVel
  · show s.cur + 1 = _
    rw [h.cur]; simp
  · exact h.closed
  · exact h.natoms
  · exact h.box

theorem writing_run {s0 s : WState} {w d : Nat} {vel : Bool} {L : Nat} {done : List Rec} (recs : List Rec)
    (h : Writing s0 s w d vel L done) (hr : ∀ r ∈ recs, RecOk w d vel r) :
    Writing s0 (run s (recs.map Op.writeLine)).1 w d vel L (done ++ recs) ∧
      ∀ e ∈ (run s (recs.map Op.writeLine)).2, e = none := by
  induction recs generalizing s done with
  | nil => simp only [List.map_nil, run, List.append_nil]; exact ⟨h, by simp⟩
  | cons r t ih =>
    obtain ⟨s', hs', hw⟩ := writing_step h (hr r (by simp))
    obtain ⟨h1, h2⟩ := ih hw (fun x hx => hr x (by simp [hx]))
    simp only [List.map_cons, run, hs']
    refine ⟨by simpa [List.append_assoc] using h1, ?_⟩
    intro e he
    simp only [List.mem_cons] at he
    rcases he with he | he
    · exact he
    · exact h2 e he

/-- the title the writer emits is one line (possibly empty) -/
def TitleOk (t : List Nat) : Prop := nl ∉ t

theorem getLast?_of_titleOk {t : List Nat} (h : TitleOk t) : t.getLast? ≠ some nl := by
  intro e
  exact h (List.mem_of_mem_getLast? e)

theorem write_fields (s : WState) (t : List Nat) :
    (s.write t).comment = s.comment ∧ (s.write t).natoms = s.natoms ∧ (s.write t).initPos = s.initPos ∧
    (s.write t).lineSize = s.lineSize ∧ (s.write t).fmtPos = s.fmtPos ∧ (s.write t).fmtVel = s.fmtVel ∧
    (s.write t).box = s.box ∧ (s.write t).cur = s.cur ∧ (s.write t).closed = s.closed :=
  ⟨rfl, rfl, rfl, rfl, rfl, rfl, rfl, rfl, rfl⟩

/-- the header on a fresh file -/
theorem writeHeader_fresh (s : WState) (comment : List Nat) (hb : s.bytes = []) (hp : s.pos = 0)
    (hc : comment.getLast? ≠ some nl) :
    (writeHeader s comment).bytes = (comment ++ [nl]) ++ s.countLine ∧
    (writeHeader s comment).pos = ((comment ++ [nl]) ++ s.countLine).length ∧
    (writeHeader s comment).initPos = some ((comment ++ [nl]) ++ s.countLine).length ∧
    (writeHeader s comment).natoms = s.natoms ∧ (writeHeader s comment).fmtPos = s.fmtPos ∧
    (writeHeader s comment).fmtVel = s.fmtVel ∧ (writeHeader s comment).box = s.box ∧
    (writeHeader s comment).cur = s.cur ∧ (writeHeader s comment).closed = s.closed := by
  obtain ⟨b1, p1⟩ := write_at_end s comment (by rw [hb, hp]; rfl)
  obtain ⟨b2, p2⟩ := write_at_end (s.write comment) [nl] p1
  have hcl : ((s.write comment).write [nl]).countLine = s.countLine := rfl
  obtain ⟨b3, p3⟩ := write_at_end ((s.write comment).write [nl]) s.countLine p2
  unfold writeHeader
  simp only [hc, if_false, hcl]
  refine ⟨?_, ?_, ?_, rfl, rfl, rfl, rfl, rfl, rfl⟩
  · rw [b3, b2, b1, hb]; simp
  · rw [p3, b3, b2, b1, hb]; simp
  · rw [p3, b3, b2, b1, hb]; simp

theorem writeLineBody_ok {s : WState} {w d : Nat} {vel : Bool} {r : Rec}
    (hfp : s.fmtPos = some (w, d)) (hfv : s.fmtVel = some vel) (hcl : s.closed = false) (hr : RecOk w d vel r) :
    writeLineBody s r = ({ (s.write (lineOf w d r)).write [nl] with cur := s.cur + 1 }, none) := by
  unfold writeLineBody
  simp only [hfp, hfv, parseAtomlist_ok w d vel r hr, hcl, Bool.false_eq_true, if_false]

theorem setupWrite_ok (s s1 sH sB : WState) (r : Rec)
    (hs1 : s1 = { s with fmtPos := some s.effFormat, fmtVel := some r.vel.isSome })
    (hsH : sH = writeHeader s1 s1.effComment)
    (hclosed : s.closed = false)
    (hbody : writeLineBody sH r = (sB, none)) :
    setupWrite s r = ({ sB with lineSize := some (sB.pos - sH.pos) }, none) := by
  subst hs1 hsH
  unfold setupWrite
  dsimp only
  split
  · rename_i h; rw [hclosed] at h; cases h
  · rw [hbody]

/-- the first `writeline`: header, first record -/
theorem setup_step {s : WState} (hs : Pristine s) (r : Rec) (w d : Nat) (vel : Bool)
    (hf : s.effFormat = (w, d)) (hr : RecOk w d vel r) (ht : TitleOk s.effComment) :
    ∃ s', step s (.writeLine r) = (s', none) ∧ Writing s s' w d vel (lineOf w d r).length [r] := by
  have hcn := getLast?_of_titleOk ht
  have hvel : r.vel.isSome = vel := by
    have := hr.vel
    cases hrv : r.vel with
    | none => rw [hrv] at this; simp [VelOk] at this; simp [this]
    | some t => obtain ⟨a, b, c⟩ := t; rw [hrv] at this; simp [VelOk] at this; simp [this.1]
  obtain ⟨s1, hs1⟩ : ∃ s1 : WState, s1 = { s with fmtPos := some s.effFormat, fmtVel := some r.vel.isSome } :=
    ⟨_, rfl⟩
  have e1 : s1.effComment = s.effComment := by rw [hs1]; rfl
  have e2 : s1.countLine = s.countLine := by rw [hs1]; rfl
  have e3 : s1.bytes = [] := by rw [hs1]; exact hs.bytes
  have e4 : s1.pos = 0 := by rw [hs1]; exact hs.pos
  have e5 : s1.fmtPos = some (w, d) := by rw [hs1, ← hf]
  have e6 : s1.fmtVel = some vel := by rw [hs1, ← hvel]
  have e7 : s1.closed = false := by rw [hs1]; exact hs.closed
  have e8 : s1.cur = 0 := by rw [hs1]; exact hs.cur
  have e9 : s1.natoms = s.natoms := by rw [hs1]
  have e10 : s1.box = s.box := by rw [hs1]
  obtain ⟨sH, hsH⟩ : ∃ sH : WState, sH = writeHeader s1 s1.effComment := ⟨_, rfl⟩
  obtain ⟨hb, hp, hi, hn, hfp, hfv, hbox, hcur, hcl⟩ :=
    writeHeader_fresh s1 s1.effComment e3 e4 (by rw [e1]; exact hcn)
  rw [← hsH] at hb hp hi hn hfp hfv hbox hcur hcl
  rw [e5] at hfp; rw [e6] at hfv; rw [e7] at hcl; rw [e8] at hcur
  obtain ⟨sB, hsB⟩ : ∃ sB : WState, sB = { (sH.write (lineOf w d r)).write [nl] with cur := sH.cur + 1 } :=
    ⟨_, rfl⟩
  have hbody : writeLineBody sH r = (sB, none) := by rw [hsB]; exact writeLineBody_ok hfp hfv hcl hr
  have hstep : step s (.writeLine r) = ({ sB with lineSize := some (sB.pos - sH.pos) }, none) := by
    simp only [step, hs.initPos]
    exact setupWrite_ok s s1 sH sB r hs1 hsH hs.closed hbody
  refine ⟨_, hstep, ?_⟩
  obtain ⟨b1, p1⟩ := write_at_end sH (lineOf w d r) (by rw [hp, hb])
  obtain ⟨b2, p2⟩ := write_at_end (sH.write (lineOf w d r)) [nl] p1
  have hhdr : headerOf s = (s1.effComment ++ [nl]) ++ s1.countLine := by rw [e1, e2]; rfl
  have hBb : sB.bytes = ((sH.write (lineOf w d r)).write [nl]).bytes := by rw [hsB]
  have hBp : sB.pos = ((sH.write (lineOf w d r)).write [nl]).pos := by rw [hsB]
  constructor
  · show sB.bytes = _
    rw [hBb, b2, b1, hb, hhdr]; simp [linesText, List.append_assoc]
  · show sB.pos = sB.bytes.length
    rw [hBb, hBp]; exact p2
  · show sB.initPos = _
    rw [hsB]; show sH.initPos = _
    rw [hi, hhdr]
  · show some (sB.pos - sH.pos) = _
    rw [hBp, p2, b2, b1, hp, hb]; simp; omega
  · show sB.fmtPos = _
    rw [hsB]; exact hfp
  · show sB.fmtVel = _
    rw [hsB]; exact hfv
  · show sB.cur = _
    rw [hsB]; show sH.cur + 1 = _
    rw [hcur]; rfl
  · show sB.closed = false
    rw [hsB]; exact hcl
  · show sB.natoms = _
    rw [hsB]; show sH.natoms = _
    rw [hn, e9]
  · show sB.box = _
    rw [hsB]; show sH.box = _
    rw [hbox, e10]

/-! ### close -/

theorem closeCount_declared {s : WState} {n : Int} (h : s.natoms = some n) (hc : n = s.cur) :
    closeCount s = .counted s n := by
  unfold closeCount
  rw [h]
  dsimp only
  rw [if_neg (by rw [hc]; simp)]

theorem seek_ok (s : WState) (p : Nat) : s.seek (p : Int) = .ok { s with pos := p } := by
  unfold WState.seek
  rw [if_neg (by omega)]
  simp

theorem closeCount_backfill {s : WState} {i : Nat} (h : s.natoms = none) (hcur : s.cur ≠ 0)
    (hi : s.initPos = some i) (hcl : s.closed = false) (hp : 10 ≤ i) :
    ∃ sC : WState, closeCount s = .counted sC s.cur ∧
      sC.bytes = writeAt s.bytes (i - 10) (fmtD numberFigures s.cur ++ [nl]) ∧
      sC.initPos = some i ∧ sC.lineSize = s.lineSize ∧ sC.closed = s.closed ∧ sC.box = s.box := by
  unfold closeCount
  rw [h]
  dsimp only
  rw [if_neg hcur]
  split
  · rename_i hnone; rw [hi] at hnone; cases hnone
  · rename_i i' hsome
    rw [hi] at hsome
    cases hsome
    rw [if_neg (by rw [hcl]; simp)]
    have e : ((i : Int) - 1 - (numberFigures : Int)) = ((i - 10 : Nat) : Int) := by
      simp only [numberFigures]; omega
    rw [e, seek_ok]
    dsimp only
    exact ⟨_, rfl, rfl, hi, rfl, rfl, rfl⟩

theorem wSeekAtom_ok {s : WState} {n : Nat} {i l : Nat} (hi : s.initPos = some i) (hl : s.lineSize = some l)
    (hcl : s.closed = false) :
    wSeekAtom s (n : Int) (n : Int) = ({ s with cur := (n : Int), pos := i + n * l }, none) := by
  unfold wSeekAtom
  dsimp only
  rw [if_neg (by omega), hi, hl]
  dsimp only
  rw [if_neg (by rw [hcl]; simp)]
  have e : ((i : Int) + (n : Int) * (l : Int)) = ((i + n * l : Nat) : Int) := by
    rw [Int.natCast_add, Int.natCast_mul]
  rw [e, seek_ok]

theorem fmtD9_length (n : Nat) (h : n < 10 ^ 9) : (fmtD numberFigures (n : Int)).length = 9 := by
  unfold fmtD
  rw [padLeft_length, intBody_nonneg _ (by omega)]
  have : (natDigits ((n : Int).toNat)).length ≤ 9 := natDigits_length_le _ 9 (by decide) (by simpa using h)
  simp only [numberFigures]; omega

/-- the first part of `close()` after `recs` records: the count is back-filled or verified; the file
    now holds everything but the lattice line -/
theorem closeCount_writing {s0 s : WState} {w d : Nat} {vel : Bool} {L : Nat} {recs : List Rec}
    (h : Writing s0 s w d vel L recs) (hne : recs ≠ [])
    (hcount : match s0.natoms with
      | none => recs.length < 10 ^ 9
      | some n => n = (recs.length : Int)) :
    ∃ sC : WState, closeCount s = .counted sC (recs.length : Int) ∧
      sC.bytes = (s0.effComment ++ [nl]) ++ ((countFinal s0 recs.length ++ [nl]) ++ linesText (recs.map (lineOf w d))) ∧
      sC.initPos = some ((s0.effComment ++ [nl]) ++ (countFinal s0 recs.length ++ [nl])).length ∧
      sC.lineSize = some (L + 1) ∧ sC.closed = false ∧ sC.box = s0.box := by
  have hN0 : (recs.length : Int) ≠ 0 := by
    have : recs.length ≠ 0 := by intro e; exact hne (List.length_eq_zero_iff.mp e)
    omega
  cases hn : s0.natoms with
  | some n =>
    rw [hn] at hcount
    simp only at hcount
    refine ⟨s, ?_, ?_, ?_, h.lineSize, h.closed, h.box⟩
    · rw [← hcount]
      exact closeCount_declared (by rw [h.natoms, hn]) (by rw [h.cur, hcount])
    · rw [h.bytes]; simp [headerOf, WState.countLine, countFinal, hn, List.append_assoc]
    · rw [h.initPos]; simp [headerOf, WState.countLine, countFinal, hn]
  | none =>
    rw [hn] at hcount
    simp only at hcount
    have hlen9 := fmtD9_length recs.length hcount
    have hH : headerOf s0 = (s0.effComment ++ [nl]) ++ (List.replicate numberFigures sp ++ [nl]) := by
      simp [headerOf, WState.countLine, hn]
    have hHl : (headerOf s0).length = s0.effComment.length + 1 + 10 := by
      rw [hH]; simp [numberFigures]
    obtain ⟨sC, hbf, hb, hi', hl', hcl', hbox'⟩ := closeCount_backfill (s := s) (i := (headerOf s0).length)
      (by rw [h.natoms, hn]) (by rw [h.cur]; exact hN0) h.initPos h.closed (by omega)
    rw [h.cur] at hbf hb
    refine ⟨sC, hbf, ?_, ?_, by rw [hl', h.lineSize], by rw [hcl', h.closed], by rw [hbox', h.box]⟩
    · rw [hb, h.bytes]
      have hpos : (headerOf s0).length - 10 = (s0.effComment ++ [nl]).length := by rw [hHl]; simp
      rw [hpos, hH]
      have := writeAt_mid (s0.effComment ++ [nl]) (List.replicate numberFigures sp ++ [nl])
        (linesText (recs.map (lineOf w d))) (fmtD numberFigures (recs.length : Int) ++ [nl])
        (by rw [List.length_append, hlen9, List.length_append, List.length_replicate]; rfl)
      rw [this]
      simp [countFinal, hn, List.append_assoc]
    · rw [hi', hHl]
      simp [countFinal, hn, hlen9]

/-- `close()` after `recs` records: back-fill or verify the count, append the lattice line -/
theorem close_step {s0 s : WState} {w d : Nat} {vel : Bool} {L : Nat} {recs : List Rec}
    (h : Writing s0 s w d vel L recs) (hne : recs ≠ [])
    (hL : ∀ r ∈ recs, (lineOf w d r).length = L)
    (hcount : match s0.natoms with
      | none => recs.length < 10 ^ 9
      | some n => n = (recs.length : Int)) :
    ∃ s', step s .close = (s', none) ∧
      s'.bytes = groBytes s0.effComment (countFinal s0 recs.length) (recs.map (lineOf w d)) (dumpLattice s0.box) := by
  have hLT : (linesText (recs.map (lineOf w d))).length = recs.length * (L + 1) := by
    have := linesText_length (recs.map (lineOf w d)) L (by
      intro l hl
      obtain ⟨r, hr, rfl⟩ := List.mem_map.mp hl
      exact hL r hr)
    simpa using this
  obtain ⟨sC, hsC, hbC, hiC, hlC, hclC, hboxC⟩ := closeCount_writing h hne hcount
  have hbl : sC.bytes.length
      = ((s0.effComment ++ [nl]) ++ (countFinal s0 recs.length ++ [nl])).length + recs.length * (L + 1) := by
    rw [hbC]; simp only [List.length_append, hLT]; omega
  have hseek := wSeekAtom_ok (s := sC) (n := recs.length) hiC hlC hclC
  obtain ⟨sS, hsS⟩ : ∃ sS : WState, sS = ({ sC with cur := (recs.length : Int), pos :=
      ((s0.effComment ++ [nl]) ++ (countFinal s0 recs.length ++ [nl])).length + recs.length * (L + 1) } : WState) :=
    ⟨_, rfl⟩
  rw [← hsS] at hseek
  have hSb : sS.bytes = sC.bytes := by rw [hsS]
  have hSp : sS.pos = sS.bytes.length := by rw [hSb, hbl, hsS]
  have hSbox : sS.box = s0.box := by rw [hsS]; exact hboxC
  obtain ⟨b1, p1⟩ := write_at_end sS (dumpLattice sS.box) hSp
  obtain ⟨b2, _⟩ := write_at_end (sS.write (dumpLattice sS.box)) [nl] p1
  have hlat : closeLattice sC (recs.length : Int) = (sS.write (dumpLattice sS.box), none) := by
    unfold closeLattice
    rw [hseek]
  refine ⟨closeFinish (sS.write (dumpLattice sS.box)), ?_, ?_⟩
  · simp only [step, closeOp, hsC, hlat]
  · show ((sS.write (dumpLattice sS.box)).write [nl]).bytes = _
    rw [b2, b1, hSb, hbC, hSbox]
    simp [groBytes, groPre, List.append_assoc]

end GroL
