import GMModel.Align
import GMProofs.Lemmas.McL
/-
  GMProofs.Lemmas.AlignL — geometry of the three proposal kinds (translation, rotation about the
  centroid, atom move by hypothesis) lifted to configurations, and the decomposition of
  `alignMolecules` into prepare / search / write-back.
-/

namespace AL
open MC

/-! ### distances inside a configuration -/

/-- distance between atoms `i` and `j` of a configuration (`none` if one of them does not exist) -/
noncomputable def pairDist (a : Config ℝ) (i j : Nat) : Option ℝ :=
  match a[i]?, a[j]? with
  | some p, some q => some (V3.norm (p - q))
  | _, _ => none

/-- same atoms, and every pairwise distance equal -/
def SameShape (a b : Config ℝ) : Prop := ∀ i j, pairDist b i j = pairDist a i j

/-- `j` is listed as bonded to `i` in the bond table -/
def Bonded (bonds : List (List Nat)) (i j : Nat) : Prop := ∃ row, bonds[i]? = some row ∧ j ∈ row

/-- same number of atoms, and every bond of the table has the same length in `b` as in `a` -/
def SameBondLengths (bonds : List (List Nat)) (a b : Config ℝ) : Prop :=
  a.length = b.length ∧ ∀ i j, Bonded bonds i j → pairDist b i j = pairDist a i j

/-- C07's guarantee, as a hypothesis on the abstract move: started on a configuration whose bonds
    have the lengths they have in `ref` (the geometry the bond table was computed from), the move
    returns a configuration with the same atoms whose bonds again have those lengths. -/
def MovePreservesTreeBonds (moveFn : MoveFn ℝ) (bonds : List (List Nat)) (ref : Config ℝ) : Prop :=
  ∀ held t test t', moveFn held t = .ok (test, t') →
    SameBondLengths bonds ref held → SameBondLengths bonds ref test

/-- no rotation step of the history drew the zero vector as its axis (`uniform(-1,1,3) = 0`) -/
def AxesNonzero (steps : List (StepRec ℝ)) : Prop :=
  ∀ s ∈ steps, ∀ a th, s.kind = .rot a th → a ≠ V3.zero

theorem pairDist_self_isSome (a : Config ℝ) (i : Nat) : (pairDist a i i).isSome ↔ i < a.length := by
  unfold pairDist
  cases h : a[i]? with
  | none => simp [List.getElem?_eq_none_iff.mp h]
  | some p => simp; exact (List.getElem?_eq_some_iff.mp h).1

theorem SameShape.length_eq {a b : Config ℝ} (h : SameShape a b) : a.length = b.length := by
  have key : ∀ i, i < a.length ↔ i < b.length := fun i => by
    rw [← pairDist_self_isSome a i, ← pairDist_self_isSome b i, h i i]
  rcases Nat.lt_trichotomy a.length b.length with hlt | heq | hgt
  · exact absurd ((key a.length).mpr hlt) (Nat.lt_irrefl _)
  · exact heq
  · exact absurd ((key b.length).mp hgt) (Nat.lt_irrefl _)

theorem SameShape.refl (a : Config ℝ) : SameShape a a := fun _ _ => rfl

theorem SameShape.trans {a b c : Config ℝ} (h1 : SameShape a b) (h2 : SameShape b c) : SameShape a c :=
  fun i j => (h2 i j).trans (h1 i j)

theorem SameShape.bonds {a b : Config ℝ} (h : SameShape a b) (bonds : List (List Nat)) :
    SameBondLengths bonds a b := ⟨h.length_eq, fun i j _ => h i j⟩

theorem SameBondLengths.refl (bonds : List (List Nat)) (a : Config ℝ) : SameBondLengths bonds a a :=
  ⟨rfl, fun _ _ _ => rfl⟩

theorem SameBondLengths.trans {bonds : List (List Nat)} {a b c : Config ℝ}
    (h1 : SameBondLengths bonds a b) (h2 : SameBondLengths bonds b c) : SameBondLengths bonds a c :=
  ⟨h1.1.trans h2.1, fun i j hb => (h2.2 i j hb).trans (h1.2 i j hb)⟩

/-- applying a distance-preserving map to every atom keeps every pairwise distance -/
theorem pairDist_map {f : V3 ℝ → V3 ℝ} (hf : ∀ p q, V3.norm (f p - f q) = V3.norm (p - q))
    (a : Config ℝ) (i j : Nat) : pairDist (a.map f) i j = pairDist a i j := by
  unfold pairDist
  simp only [List.getElem?_map]
  cases a[i]? <;> cases a[j]? <;> simp [hf]

theorem sameShape_map {f : V3 ℝ → V3 ℝ} (hf : ∀ p q, V3.norm (f p - f q) = V3.norm (p - q))
    (a : Config ℝ) : SameShape a (a.map f) := fun i j => pairDist_map hf a i j

/-! ### the two rigid proposal kinds -/

theorem norm_eq_sqrt_norm2 (a : V3 ℝ) : V3.norm a = Real.sqrt (V3.norm2 a) := by
  simp only [gm]

theorem translate_dist (d p q : V3 ℝ) : V3.norm ((p + d) - (q + d)) = V3.norm (p - q) := by
  congr 1
  apply V3.ext' <;> simp only [gm] <;> ring

/-- `v ↦ v·R` preserves the norm when `R Rᵀ = 1` -/
theorem vecMul_norm2 (r : M3 ℝ) (h : M3.mul r (M3.transpose r) = M3.eye) (w : V3 ℝ) :
    V3.norm2 (M3.vecMul w r) = V3.norm2 w := by
  obtain ⟨⟨a, b, c⟩, ⟨d, e, f⟩, ⟨g, k, l⟩⟩ := r
  obtain ⟨wx, wy, wz⟩ := w
  simp only [gm, M3.mk.injEq, V3.mk.injEq] at h
  obtain ⟨⟨h00, h01, h02⟩, ⟨h10, h11, h12⟩, ⟨h20, h21, h22⟩⟩ := h
  simp only [gm]
  linear_combination wx * wx * h00 + wy * wy * h11 + wz * wz * h22 + 2 * wx * wy * h01 +
    2 * wx * wz * h02 + 2 * wy * wz * h12

theorem rotate_dist (r : M3 ℝ) (h : M3.mul r (M3.transpose r) = M3.eye) (c p q : V3 ℝ) :
    V3.norm ((M3.vecMul (p - c) r + c) - (M3.vecMul (q - c) r + c)) = V3.norm (p - q) := by
  rw [norm_eq_sqrt_norm2, norm_eq_sqrt_norm2]
  congr 1
  have e : (M3.vecMul (p - c) r + c) - (M3.vecMul (q - c) r + c) = M3.vecMul (p - q) r := by
    apply V3.ext' <;> simp only [gm] <;> ring
  rw [e, vecMul_norm2 r h]

theorem translateCfg_sameShape (held : Config ℝ) (d : V3 ℝ) : SameShape held (translateCfg held d) :=
  sameShape_map (fun p q => translate_dist d p q) held

theorem rotateCfg_sameShape (held : Config ℝ) (axis : V3 ℝ) (theta : ℝ)
    (h : M3.mul (rotationMatrix axis theta) (M3.transpose (rotationMatrix axis theta)) = M3.eye) :
    SameShape held (rotateCfg held axis theta) :=
  sameShape_map (fun p q => rotate_dist _ h (V3.mean held) p q) held

/-! ### invariants along the search -/

variable {chi2Fn : Config ℝ → ℝ} {moveFn : MoveFn ℝ} {simType : List Int}

/-- a property of configurations that every proposal of the history inherits from the held
    configuration holds for every reachable held configuration -/
theorem reaches_invariant {P : Config ℝ → Prop} {held0 : Config ℝ} {steps : List (StepRec ℝ)}
    {st : MCState ℝ} (h : Reaches chi2Fn moveFn simType held0 steps st) (h0 : P held0)
    (hstep : ∀ s ∈ steps, StepOK chi2Fn moveFn simType s → P s.pre.held → P s.test) :
    P st.held := by
  revert hstep
  refine Reaches.induction (P := fun l st =>
    (∀ s ∈ l, StepOK chi2Fn moveFn simType s → P s.pre.held → P s.test) → P st.held) ?_ ?_ h
  · intro _; exact h0
  · intro l s _ ih hs hstep
    have hpre : P s.pre.held := ih (fun x hx => hstep x (by simp [hx]))
    obtain ⟨_, hpost, _⟩ := hs.spec
    rw [hpost, bookkeep_held]
    cases s.accepted
    · simpa using hpre
    · simpa using hstep s (by simp) hs hpre


/-! ### the shape of `alignMolecules` -/

section shape
variable {α : Type} [Scalar α]

/-- the molecule the search moves, as `align_molecules` selects it -/
def mobileOf (start end_ : Mol α) : Mol α :=
  if start.size < end_.size then start.moveTo end_.center else end_

theorem planFor_ok {sf : Nat} {start' fixed mobile : Mol α} {small : Bool}
    {restr1 : List (Int × Int)} {simType : List Int} {ignoreH : Bool} {p : AlignPlan α}
    (h : planFor sf start' small fixed mobile restr1 simType ignoreH = .ok p) :
    p.start' = start' ∧ p.smallIsStart = small ∧ p.mobilePos = mobile.pos ∧
    p.nSteps = sf * mobile.size ∧ p.simType = simType ∧ bondsDistance mobile = .ok p.bondsInfo := by
  unfold planFor at h
  split at h
  · cases h
  · split at h
    · cases h
    · split at h
      · cases h
      · split at h
        · cases h
        · rename_i binfo hb
          split at h
          · cases h
          · split at h
            · cases h
            · simp only [Except.ok.injEq] at h
              subst h
              exact ⟨rfl, rfl, rfl, rfl, rfl, hb⟩

theorem alignPrepare_early {sf : Nat} {start end_ : Mol α} {restr : List (Int × Int)}
    {deform : Option (List Int)} {ignoreH : Bool} {s' : Mol α}
    (h : alignPrepare sf start end_ restr deform ignoreH = .ok (.early s')) :
    s' = start.moveTo end_.center ∧ end_.size = 1 := by
  unfold alignPrepare at h
  simp only at h
  split at h
  · rename_i h1
    simp only [Except.ok.injEq, Prepared.early.injEq] at h
    exact ⟨h.symm, by simpa using h1⟩
  · split at h
    · cases h
    · cases h

theorem alignPrepare_plan {sf : Nat} {start end_ : Mol α} {restr : List (Int × Int)}
    {deform : Option (List Int)} {ignoreH : Bool} {p : AlignPlan α}
    (h : alignPrepare sf start end_ restr deform ignoreH = .ok (.plan p)) :
    p.start' = start.moveTo end_.center ∧
    p.smallIsStart = decide (start.size < end_.size) ∧
    p.mobilePos = (mobileOf start end_).pos ∧
    p.nSteps = sf * (mobileOf start end_).size ∧
    p.simType = defaultDeform start end_ deform ∧
    end_.size ≠ 1 ∧ bondsDistance (mobileOf start end_) = .ok p.bondsInfo := by
  unfold alignPrepare at h
  simp only at h
  split at h
  · cases h
  · rename_i h1
    split at h
    · cases h
    · rename_i p' hp
      simp only [Except.ok.injEq, Prepared.plan.injEq] at h
      subst h
      have h1' : end_.size ≠ 1 := by simpa using h1
      by_cases hlt : start.size < end_.size
      · simp only [hlt, if_true] at hp
        obtain ⟨a, b, c, d, e, f⟩ := planFor_ok hp
        refine ⟨a, by simp [b, hlt], ?_, ?_, e, h1', ?_⟩
        · simp [mobileOf, hlt, c]
        · simp [mobileOf, hlt, d]
        · simp [mobileOf, hlt, f]
      · simp only [hlt, if_false] at hp
        obtain ⟨a, b, c, d, e, f⟩ := planFor_ok hp
        refine ⟨a, by simp [b, hlt], ?_, ?_, e, h1', ?_⟩
        · simp [mobileOf, hlt, c]
        · simp [mobileOf, hlt, d]
        · simp [mobileOf, hlt, f]

omit [Scalar α] in
theorem alignFinish_ok {p : AlignPlan α} {end_ : Mol α} {res : Config α} {s' e' : Mol α}
    (h : alignFinish p end_ res = .ok (s', e')) :
    (p.smallIsStart = true → s' = { p.start' with pos := res } ∧ e' = end_ ∧
      res.length = p.start'.size) ∧
    (p.smallIsStart = false → s' = p.start' ∧ e' = { end_ with pos := res } ∧
      res.length = end_.size) := by
  unfold alignFinish at h
  split at h
  · rename_i hs
    split at h
    · rename_i hl
      cases h
      exact ⟨fun _ => ⟨rfl, rfl, by simpa using hl⟩, fun hf => by simp [hs] at hf⟩
    · cases h
  · rename_i hs
    split at h
    · rename_i hl
      cases h
      exact ⟨fun ht => absurd ht hs, fun _ => ⟨rfl, rfl, by simpa using hl⟩⟩
    · cases h

/-- `alignMolecules` either returns early (one-atom end molecule: only the `move_to` happened) or
    is prepare → search run → write-back -/
theorem alignMolecules_ok
    {chi2Of : List (V3 α) → Config α → List (Int × Int) → Config α → α}
    {moveOf : BondsInfo α → α → MoveFn α} {sf : Nat} {sigma : α} {start end_ : Mol α}
    {restr : List (Int × Int)} {deform : Option (List Int)} {ignoreH : Bool} {tape rest : Tape α}
    {s' e' : Mol α}
    (h : alignMolecules chi2Of moveOf sf sigma start end_ restr deform ignoreH tape = .ok (s', e', rest)) :
    (alignPrepare sf start end_ restr deform ignoreH = .ok (.early s') ∧ e' = end_ ∧ rest = tape) ∨
    (∃ p r, alignPrepare sf start end_ restr deform ignoreH = .ok (.plan p) ∧
      Ran (chi2Of p.fixedPos p.mobilePos p.restr) (moveOf p.bondsInfo sigma) p.simType p.nSteps
        p.mobilePos tape r ∧
      rest = r.rest ∧ alignFinish p end_ r.final.held = .ok (s', e')) := by
  unfold alignMolecules at h
  split at h
  · cases h
  · rename_i s1 hp
    simp only [Except.ok.injEq, Prod.mk.injEq] at h
    obtain ⟨h1, h2, h3⟩ := h
    subst h1; subst h2; subst h3
    exact Or.inl ⟨hp, rfl, rfl⟩
  · rename_i p hp
    split at h
    · cases h
    · split at h
      · cases h
      · rename_i res rest' hm
        split at h
        · cases h
        · rename_i s e hf
          simp only [Except.ok.injEq, Prod.mk.injEq] at h
          obtain ⟨h1, h2, h3⟩ := h
          subst h1; subst h2; subst h3
          unfold mcMinimize at hm
          split at hm
          · cases hm
          · rename_i r hr
            simp only [Except.ok.injEq, Prod.mk.injEq] at hm
            obtain ⟨hm1, hm2⟩ := hm
            subst hm1; subst hm2
            exact Or.inr ⟨p, r, hp, ⟨_, hr⟩, rfl, hf⟩

end shape

end AL
